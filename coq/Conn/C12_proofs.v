(* TV.Conn.C12_proofs — invariants of the connection-establishment model and the
   lemmas behind the C12 theorems. *)
From TV.Lib Require Import Base.
From TV.Stream Require Import Model Refs.
From TV.Conn Require Import Model Facts.
Close Scope N_scope.

(* ---- per-connection invariant ---------------------------------------------------- *)

Definition conn_ok (k : conn) : Prop :=
  (k_syn k = SynAcked -> k_srv k <> None) /\
  (k_fut k = FutOk -> k_srv k <> None) /\
  (forall d l p, k_srv k = Some (d, l, p) -> l = k_remote k /\ p = k_local k /\ k_dhost k = Some d) /\
  (k_fut k = FutRefused \/ k_fut k = FutCancelled -> S.sk (S.eps (k_sys k) S.A) = None) /\
  refs_ok (k_sys k) /\
  is_loop (fst (k_local k)) = is_loop (fst (k_remote k)) /\
  (forall d, k_dhost k = Some d -> fst (k_remote k) = IpHost d \/ fst (k_remote k) = IpLoop).

Ltac ok_split := split; [|split; [|split; [|split; [|split; [|split]]]]].

Definition benign (f : conn -> conn) : Prop :=
  keeps_ident f /\ keeps_srv f /\ forall k, conn_ok k -> conn_ok (f k).

Lemma benign_set_syn s : s <> SynAcked -> benign (fun k => set_syn k s).
Proof.
  intros Hs. split; [apply ki_set_syn|]. split; [apply ks_set_syn|].
  intros k (C1 & C2 & C3 & C4 & C5 & C6 & C7). ok_split; cbn; auto; intros E; congruence.
Qed.

(* replacing the data plane by one with the same or fewer entries and sound ref counts *)
Lemma benign_set_sys g :
  (forall k, refs_ok (k_sys k) -> refs_ok (g k)) ->
  (forall k, S.sk (S.eps (k_sys k) S.A) = None -> S.sk (S.eps (g k) S.A) = None) ->
  benign (fun k => set_sys k (g k)).
Proof.
  intros Hr Hg. split; [apply ki_set_sys|]. split; [apply ks_set_sys|].
  intros k (C1 & C2 & C3 & C4 & C5 & C6 & C7). ok_split; cbn; auto.
Qed.

Lemma refs_absent s x : refs_ok s -> refs_ok (S.set_ep s x init_absent).
Proof. intros H y. destruct x, y; cbn; auto; apply refs_none; reflexivity. Qed.

Lemma benign_kill f : f = FutRefused \/ f = FutCancelled -> benign (fun k => set_fut (kill_client k) f).
Proof.
  intros Hf. split; [apply ki_set_fut, ki_kill|]. split; [apply ks_set_fut, ks_kill|].
  intros k (C1 & C2 & C3 & C4 & C5 & C6 & C7). ok_split; cbn; auto.
  - intros E. destruct Hf; congruence.
  - now apply refs_absent.
Qed.

(* ---- global invariant, stated over projections of the world ---------------------------- *)

Definition dq_ok (ids : list (N * addr * addr * option N)) (bs : list (list (N * bindrec))) : Prop :=
  forall h binds port b c o,
    nth_error bs h = Some binds -> In (port, b) binds -> In (c, o) (b_deque b) ->
    exists hk r, nth_error ids (nat_of c) = Some (hk, o, r, Some (N.of_nat h)) /\ snd r = port /\
                 bind_matches (b_ip b) (fst r) = true.
Definition bp_ok (bs : list (list (N * bindrec))) : Prop :=
  forall h binds, nth_error bs h = Some binds -> NoDup (map fst binds).
Definition fifo_ok (bs : list (list (N * bindrec))) : Prop :=
  forall h binds port b, nth_error bs h = Some binds -> In (port, b) binds ->
    b_arrived b = map fst (b_popped b) ++ map fst (b_deque b).
Definition acc_ok (accs : list N) (sv : list (option (N * addr * addr))) : Prop :=
  forall c, In c accs <-> exists v, nth_error sv (nat_of c) = Some (Some v).

Record winv (w : world) : Prop := {
  i_conns : Forall conn_ok (w_conns w);
  i_dq : dq_ok (idents w) (bindss w);
  i_bp : bp_ok (bindss w);
  i_fifo : fifo_ok (bindss w);
  i_acc : acc_ok (w_accepts w) (srvs w)
}.

(* w' differs from w only by benign updates of connections and by the network *)
Record frame (w w' : world) : Prop := {
  f_id : idents w' = idents w;
  f_srv : srvs w' = srvs w;
  f_b : bindss w' = bindss w;
  f_acc : w_accepts w' = w_accepts w;
  f_ok : Forall conn_ok (w_conns w) -> Forall conn_ok (w_conns w')
}.

Lemma frame_refl w : frame w w.
Proof. constructor; auto. Qed.
Lemma frame_trans w1 w2 w3 : frame w1 w2 -> frame w2 w3 -> frame w1 w3.
Proof. intros [A1 A2 A3 A4 A5] [B1 B2 B3 B4 B5]. constructor; try congruence. auto. Qed.

Lemma winv_frame w w' : frame w w' -> winv w -> winv w'.
Proof.
  intros [F1 F2 F3 F4 F5] [I1 I2 I3 I4 I5]. constructor; rewrite ?F1, ?F2, ?F3, ?F4; auto.
Qed.

Lemma frame_upd_conn w c f : benign f -> frame w (upd_conn w c f).
Proof.
  intros (Hi & Hs & Hok). constructor.
  - now apply idents_upd_conn.
  - now apply srvs_upd_conn.
  - reflexivity.
  - reflexivity.
  - intros H. cbn. apply Forall_upd_nth; auto.
Qed.

Lemma frame_set_links w l : frame w (set_links w l).
Proof. constructor; auto. Qed.

Lemma bindss_upd_host w h f : (forall hs, h_binds (f hs) = h_binds hs) -> bindss (upd_host w h f) = bindss w.
Proof. intros H. unfold bindss, upd_host. cbn. now apply map_upd_nth. Qed.

Lemma frame_upd_host w h f : (forall hs, h_binds (f hs) = h_binds hs) -> frame w (upd_host w h f).
Proof. intros H. constructor; auto. now apply bindss_upd_host. Qed.

Lemma frame_syn_gone w m : frame w (syn_gone w m).
Proof.
  unfold syn_gone. destruct (m_body m); [|apply frame_refl].
  apply frame_upd_conn, benign_set_syn. discriminate.
Qed.

Lemma frame_link_enqueue w s d m : frame w (link_enqueue w s d m).
Proof.
  unfold link_enqueue. destruct (find _ _); [|apply frame_syn_gone].
  destruct (cut_from _ _); [apply frame_syn_gone|apply frame_set_links].
Qed.

Lemma frame_fold_syn_gone (l : list wmsg) : forall w, frame w (fold_left syn_gone l w).
Proof.
  induction l as [|x l IH]; intros w; cbn [fold_left]; [apply frame_refl|].
  eapply frame_trans; [apply frame_syn_gone|apply IH].
Qed.

Lemma frame_rand_send w s d : frame w (rand_send w s d).
Proof.
  unfold rand_send. destruct (find _ _); [|apply frame_refl].
  eapply frame_trans; [apply frame_set_links|apply frame_fold_syn_gone].
Qed.

Lemma frame_link_send w s d m : frame w (link_send w s d m).
Proof. unfold link_send. eapply frame_trans; [apply frame_rand_send|apply frame_link_enqueue]. Qed.

Lemma frame_loop_send w h m : frame w (loop_send w h m).
Proof. apply frame_upd_host. reflexivity. Qed.

Lemma frame_fold {T} (f : world -> T -> world) l :
  (forall w x, frame w (f w x)) -> forall w, frame w (fold_left f l w).
Proof.
  intros Hf. induction l as [|x l IH]; intros w; cbn; [apply frame_refl|].
  eapply frame_trans; [apply Hf|apply IH].
Qed.

Lemma frame_flush w c : frame w (flush w c).
Proof.
  unfold flush. destruct (get_conn w c) as [k|]; [|apply frame_refl].
  eapply frame_trans.
  - apply (frame_upd_conn w c (fun k' => set_sys k' (S.set_wire (k_sys k') []))).
    apply benign_set_sys; auto.
  - apply frame_fold. intros w' sp. destruct (S.lo (k_sys k)); [apply frame_loop_send|].
    destruct (msg_src _ _); [|apply frame_refl]. destruct (msg_dst _ _); [|apply frame_refl]. apply frame_link_send.
Qed.

Lemma frame_deliver_seg w c x p :
  frame w (flush (upd_conn w c (fun k => set_sys k (S.deliver1 (k_sys k) x p))) c).
Proof.
  eapply frame_trans; [|apply frame_flush].
  apply frame_upd_conn, benign_set_sys.
  - intros k H. apply (deliver1_sk (k_sys k) x p S.A). exact H.
  - intros k H. apply (deliver1_sk (k_sys k) x p S.A). exact H.
Qed.

(* ---- a SYN reaches a host --------------------------------------------------------------- *)

Lemma bindss_upd_host_binds w h f g :
  (forall hs, h_binds (f hs) = g (h_binds hs)) ->
  bindss (upd_host w h f) = upd_nth (nat_of h) g (bindss w).
Proof. intros H. unfold bindss, upd_host. cbn. now apply map_upd_nth_comm. Qed.

Lemma get_conn_ident w c k : get_conn w c = Some k -> nth_error (idents w) (nat_of c) = Some (ident k).
Proof. unfold get_conn, idents. intros H. rewrite nth_error_map, H. reflexivity. Qed.

Lemma get_host_binds w h hs : get_host w h = Some hs -> nth_error (bindss w) (nat_of h) = Some (h_binds hs).
Proof. unfold get_host, bindss. intros H. rewrite nth_error_map, H. reflexivity. Qed.

Lemma push_winv w d c k hs b :
  winv w -> get_conn w c = Some k -> get_host w d = Some hs ->
  routed_to k d = true -> find_bind hs (snd (k_remote k)) = Some b ->
  bind_matches (b_ip b) (fst (k_remote k)) = true ->
  winv (upd_host w d (fun hs' => upd_bind hs' (snd (k_remote k)) (fun b' => push_syn b' c (k_local k)))).
Proof.
  intros [I1 I2 I3 I4 I5] Hc Hh Hr Hf Hm.
  set (port := snd (k_remote k)) in *.
  assert (Hb : bindss (upd_host w d (fun hs' => upd_bind hs' port (fun b' => push_syn b' c (k_local k)))) =
               upd_nth (nat_of d) (upd_binds port (fun b' => push_syn b' c (k_local k))) (bindss w)).
  { apply bindss_upd_host_binds. intros hs'. reflexivity. }
  pose proof (get_host_binds _ _ _ Hh) as Hhb.
  assert (Hdk : k_dhost k = Some d).
  { unfold routed_to in Hr. destruct (k_dhost k) as [d'|]; [|discriminate]. apply N.eqb_eq in Hr. now subst. }
  constructor; cbn [w_conns w_accepts upd_host set_hosts]; auto; rewrite ?Hb;
    unfold idents; cbn [w_conns upd_host set_hosts]; fold (idents w).
  - (* dq *)
    intros h binds p b' c' o Hn Hin Hq. rewrite nth_upd_nth in Hn.
    destruct (Nat.eqb_spec (nat_of d) h) as [<-|Hne].
    + rewrite Hhb in Hn. cbn in Hn. injection Hn as <-.
      apply in_upd_binds in Hin as [[Hp Hin]|[-> (b0 & Hin & ->)]].
      * eapply I2; eauto.
      * cbn in Hq. apply in_app_or in Hq as [Hq|[[= <- <-]|[]]].
        -- destruct (I2 _ _ _ _ _ _ Hhb Hin Hq) as (hk & r & E1 & E2 & E3). exists hk, r. auto.
        -- exists (k_host k), (k_remote k). split; [|split; [reflexivity|]].
           ++ rewrite (get_conn_ident _ _ _ Hc). unfold ident, nat_of. rewrite Hdk, N2Nat.id. reflexivity.
           ++ pose proof (find_bind_in _ _ _ Hf) as Hin2.
              rewrite (NoDup_fst_unique _ _ _ _ (I3 _ _ Hhb) Hin Hin2). exact Hm.
    + eapply I2; eauto.
  - (* bp *)
    intros h binds Hn. rewrite nth_upd_nth in Hn.
    destruct (Nat.eqb_spec (nat_of d) h) as [<-|Hne]; [|eapply I3; eauto].
    rewrite Hhb in Hn. cbn in Hn. injection Hn as <-. rewrite upd_binds_fst. eapply I3; eauto.
  - (* fifo *)
    intros h binds p b' Hn Hin. rewrite nth_upd_nth in Hn.
    destruct (Nat.eqb_spec (nat_of d) h) as [<-|Hne]; [|eapply I4; eauto].
    rewrite Hhb in Hn. cbn in Hn. injection Hn as <-.
    apply in_upd_binds in Hin as [[Hp Hin]|[-> (b0 & Hin & ->)]]; [eapply I4; eauto|].
    cbn. rewrite map_app, app_assoc. cbn. f_equal. eapply I4; eauto.
Qed.

Lemma syn_arrive_winv w d c : winv w -> winv (fst (syn_arrive w d c)).
Proof.
  intros H. unfold syn_arrive.
  destruct (get_conn w c) as [k|] eqn:Hc; [|exact H].
  destruct (get_host w d) as [hs|] eqn:Hh; [|exact H].
  destruct (k_remote k) as [dip dport] eqn:Hr.
  assert (Hg : winv (upd_conn w c (fun k' => set_syn k' SynGone))).
  { eapply winv_frame; [|exact H]. apply frame_upd_conn, benign_set_syn. discriminate. }
  destruct (routed_to k d) eqn:Hrt; cbn [negb]; [|exact Hg].
  destruct (find_bind hs dport) as [b|] eqn:Hf; [|exact Hg].
  destruct (Nat.eqb _ _); [exact H|].
  destruct (bind_matches (b_ip b) dip) eqn:Hm; [|exact Hg].
  cbn [fst]. eapply winv_frame; [apply frame_upd_conn, benign_set_syn; discriminate|].
  replace dport with (snd (k_remote k)) by now rewrite Hr.
  eapply push_winv; eauto; rewrite Hr; cbn [fst snd]; eauto.
Qed.

Lemma deliver_msg_winv w d m : winv w -> winv (fst (deliver_msg w d m)).
Proof.
  intros H. unfold deliver_msg. destruct (m_body m) as [|sd p].
  - now apply syn_arrive_winv.
  - cbn [fst]. eapply winv_frame; [apply frame_deliver_seg|exact H].
Qed.

Lemma deliver_msgs_winv l : forall w d, winv w -> winv (fst (deliver_msgs w d l)).
Proof.
  induction l as [|m l IH]; intros w d H; cbn; [exact H|].
  pose proof (deliver_msg_winv w d m H) as H1. destruct (deliver_msg w d m) as [w1 p1]. cbn in H1.
  specialize (IH w1 d H1). destruct (deliver_msgs w1 d l) as [w2 p2]. exact IH.
Qed.

Lemma drain_links_winv n : forall w h, winv w -> winv (fst (drain_links w h n)).
Proof.
  induction n as [|n IH]; intros w h H; cbn; [exact H|].
  specialize (IH w h H). destruct (drain_links w h n) as [w1 p1]. cbn in IH.
  destruct (nth_error (w_links w1) n) as [l|]; [|exact IH].
  destruct (N.eqb (l_a l) h).
  - match goal with |- context [deliver_msgs ?w2 h ?q] =>
      pose proof (deliver_msgs_winv q w2 h) as D; destruct (deliver_msgs w2 h q) as [w3 p3] end.
    cbn in *. apply D. eapply winv_frame; [apply frame_set_links|exact IH].
  - destruct (N.eqb (l_b l) h); [|exact IH].
    match goal with |- context [deliver_msgs ?w2 h ?q] =>
      pose proof (deliver_msgs_winv q w2 h) as D; destruct (deliver_msgs w2 h q) as [w3 p3] end.
    cbn in *. apply D. eapply winv_frame; [apply frame_set_links|exact IH].
Qed.

Lemma loop_step_winv w h : winv w -> winv (fst (do_loop_step w h)).
Proof.
  intros H. unfold do_loop_step. destruct (get_host w h) as [hs|]; [|exact H].
  match goal with |- context [deliver_msgs ?w2 h ?q] =>
    pose proof (deliver_msgs_winv q w2 h) as D; destruct (deliver_msgs w2 h q) as [w3 p3] end.
  cbn in *. eapply winv_frame; [apply frame_upd_host; reflexivity|].
  apply D. eapply winv_frame; [apply frame_upd_host; reflexivity|exact H].
Qed.

(* ---- network events --------------------------------------------------------------------- *)

Lemma partition_winv w a b ow : winv w -> winv (do_partition w a b ow).
Proof.
  intros H. unfold do_partition. destruct (find _ _) as [l0|]; [|exact H].
  eapply winv_frame; [|exact H].
  eapply frame_trans; [apply frame_set_links|]. apply frame_fold. intros w' m. apply frame_syn_gone.
Qed.

(* ---- application-level events -------------------------------------------------------------- *)

Lemma frame_upd_conn_at w c f :
  keeps_ident f -> keeps_srv f ->
  (forall k, get_conn w c = Some k -> conn_ok k -> conn_ok (f k)) -> frame w (upd_conn w c f).
Proof.
  intros Hi Hs Hok. constructor.
  - now apply idents_upd_conn.
  - now apply srvs_upd_conn.
  - reflexivity.
  - reflexivity.
  - intros H. cbn. apply Forall_upd_nth; auto.
Qed.

Lemma poll_winv w c : winv w -> winv (fst (do_poll w c)).
Proof.
  intros H. unfold do_poll. destruct (get_conn w c) as [k|] eqn:Hc; [|exact H].
  destruct (k_fut k); try exact H. destruct (k_syn k) eqn:Hs; try exact H; cbn [fst].
  - eapply winv_frame; [|exact H]. apply frame_upd_conn_at.
    + apply (ki_set_fut (fun k => k)), ki_id.
    + apply (ks_set_fut (fun k => k)), ks_id.
    + intros k0 Hk0 (C1 & C2 & C3 & C4 & C5 & C6 & C7). rewrite Hc in Hk0. injection Hk0 as <-.
      ok_split; cbn; auto. intros [E|E]; discriminate.
  - eapply winv_frame; [|exact H]. apply frame_upd_conn, benign_kill. now left.
Qed.

Lemma cancel_winv w c : winv w -> winv (fst (do_cancel w c)).
Proof.
  intros H. unfold do_cancel. destruct (get_conn w c) as [k|] eqn:Hc; [|exact H].
  destruct (k_fut k); try exact H. cbn [fst].
  eapply winv_frame; [|exact H]. eapply frame_trans; [apply frame_upd_conn, benign_kill; now right|].
  unfold send_abandon_rst. destruct (S.lo (k_sys k)); [apply frame_loop_send|].
  destruct (k_dhost k); [apply frame_link_send|apply frame_refl].
Qed.

Lemma stream_op_winv w h sid e : winv w -> winv (fst (stream_op w h sid e)).
Proof.
  intros H. unfold stream_op. destruct (find_stream w h sid) as [[c x]|]; [|exact H].
  destruct (get_conn w c) as [k|] eqn:Hc; [|exact H].
  match goal with |- context [if ?b then _ else _] => destruct b end; [|exact H].
  destruct (S.step (k_sys k) e) as [s' r] eqn:Es. cbn [fst].
  eapply winv_frame; [|exact H]. eapply frame_trans; [|apply frame_flush].
  apply frame_upd_conn_at.
  - apply (ki_set_sys (fun _ => s')).
  - apply (ks_set_sys (fun _ => s')).
  - intros k0 Hk0 (C1 & C2 & C3 & C4 & C5 & C6 & C7). rewrite Hc in Hk0. injection Hk0 as <-.
    replace s' with (fst (S.step (k_sys k) e)) by now rewrite Es.
    ok_split; cbn; auto.
    + intros E. apply step_gone. unfold gone. auto.
    + now apply step_refs.
Qed.

Lemma bind_winv w h lid bip port : winv w -> winv (fst (do_bind w h lid bip port)).
Proof.
  intros H. unfold do_bind. destruct (get_host w h) as [hs|] eqn:Hh; [|exact H].
  match goal with |- context [match ?pk with Some _ => _ | None => _ end] => destruct pk as [[p cur]|] end; [|exact H].
  assert (H1 : winv (upd_host w h (fun hs' => set_cursor hs' cur))).
  { eapply winv_frame; [apply frame_upd_host; reflexivity|exact H]. }
  destruct (existsb _ (h_binds hs)) eqn:Hex; cbn [fst]; [exact H1|].
  set (w1 := upd_host w h (fun hs' => set_cursor hs' cur)) in *.
  set (nb := {| b_lid := lid; b_ip := bip; b_deque := []; b_arrived := []; b_popped := [] |}).
  assert (Hb : bindss (upd_host w1 h (fun hs' => set_binds hs' (h_binds hs' ++ [(p, nb)]))) =
               upd_nth (nat_of h) (fun bs => bs ++ [(p, nb)]) (bindss w)).
  { rewrite (bindss_upd_host_binds _ _ _ (fun bs => bs ++ [(p, nb)])) by reflexivity.
    f_equal. apply bindss_upd_host. reflexivity. }
  pose proof (get_host_binds _ _ _ Hh) as Hhb.
  destruct H as [I1 I2 I3 I4 I5].
  constructor; cbn [w_conns w_accepts upd_host set_hosts]; auto; rewrite ?Hb;
    unfold idents; cbn [w_conns upd_host set_hosts]; fold (idents w).
  - intros h0 binds p0 b c o Hn Hin Hq. rewrite nth_upd_nth in Hn.
    destruct (Nat.eqb_spec (nat_of h) h0) as [<-|Hne]; [|eapply I2; eauto].
    rewrite Hhb in Hn. cbn in Hn. injection Hn as <-.
    apply in_app_or in Hin as [Hin|[[= <- <-]|[]]]; [eapply I2; eauto|destruct Hq].
  - intros h0 binds Hn. rewrite nth_upd_nth in Hn.
    destruct (Nat.eqb_spec (nat_of h) h0) as [<-|Hne]; [|eapply I3; eauto].
    rewrite Hhb in Hn. cbn in Hn. injection Hn as <-. rewrite map_app. cbn.
    apply NoDup_app_iff. split; [eapply I3; eauto|]. split; [constructor; [tauto|constructor]|].
    intros x Hx [<-|[]]. apply in_map_iff in Hx as ([p1 b1] & E & Hin). cbn in E. subst p1.
    assert (existsb (fun pb => N.eqb (fst pb) p) (h_binds hs) = true).
    { apply existsb_exists. exists (p, b1). split; [exact Hin|cbn; apply N.eqb_refl]. }
    congruence.
  - intros h0 binds p0 b Hn Hin. rewrite nth_upd_nth in Hn.
    destruct (Nat.eqb_spec (nat_of h) h0) as [<-|Hne]; [|eapply I4; eauto].
    rewrite Hhb in Hn. cbn in Hn. injection Hn as <-.
    apply in_app_or in Hin as [Hin|[[= <- <-]|[]]]; [eapply I4; eauto|reflexivity].
Qed.

Lemma drop_listener_winv w h lid : winv w -> winv (fst (do_drop_listener w h lid)).
Proof.
  intros H. unfold do_drop_listener. destruct (get_host w h) as [hs|] eqn:Hh; [|exact H].
  destruct (find_lid hs lid) as [[port b]|]; [|exact H]. cbn [fst].
  eapply winv_frame; [apply frame_fold; intros w' co; apply frame_upd_conn, benign_set_syn; discriminate|].
  set (flt := fun bs : list (N * bindrec) => filter (fun pb => negb (N.eqb (fst pb) port)) bs).
  assert (Hb : bindss (upd_host w h (fun hs' => set_binds hs' (flt (h_binds hs')))) =
               upd_nth (nat_of h) flt (bindss w)).
  { apply bindss_upd_host_binds. reflexivity. }
  pose proof (get_host_binds _ _ _ Hh) as Hhb.
  destruct H as [I1 I2 I3 I4 I5].
  constructor; cbn [w_conns w_accepts upd_host set_hosts]; auto; fold flt; rewrite ?Hb;
    unfold idents; cbn [w_conns upd_host set_hosts]; fold (idents w).
  - intros h0 binds p0 b0 c o Hn Hin Hq. rewrite nth_upd_nth in Hn.
    destruct (Nat.eqb_spec (nat_of h) h0) as [<-|Hne]; [|eapply I2; eauto].
    rewrite Hhb in Hn. cbn in Hn. injection Hn as <-. apply filter_In in Hin as [Hin _]. eapply I2; eauto.
  - intros h0 binds Hn. rewrite nth_upd_nth in Hn.
    destruct (Nat.eqb_spec (nat_of h) h0) as [<-|Hne]; [|eapply I3; eauto].
    rewrite Hhb in Hn. cbn in Hn. injection Hn as <-. unfold flt.
    rewrite (map_fst_filter (fun p => negb (N.eqb p port))). apply NoDup_filter. eapply I3; eauto.
  - intros h0 binds p0 b0 Hn Hin. rewrite nth_upd_nth in Hn.
    destruct (Nat.eqb_spec (nat_of h) h0) as [<-|Hne]; [|eapply I4; eauto].
    rewrite Hhb in Hn. cbn in Hn. injection Hn as <-. apply filter_In in Hin as [Hin _]. eapply I4; eauto.
Qed.

Lemma append_conn_winv w k st :
  winv w -> conn_ok k -> k_srv k = None ->
  winv (set_streams (set_conns w (w_conns w ++ [k])) st).
Proof.
  intros [I1 I2 I3 I4 I5] Hk Hs.
  constructor; unfold idents, srvs, bindss; cbn [w_conns w_hosts w_accepts set_streams set_conns];
    rewrite ?map_app; cbn [map]; fold (idents w); fold (srvs w); fold (bindss w); auto.
  - apply Forall_app. split; auto.
  - intros h binds port b c o Hn Hin Hq. destruct (I2 _ _ _ _ _ _ Hn Hin Hq) as (hk & r & E1 & E2 & E3).
    exists hk, r. split; auto. rewrite nth_error_app1; auto. apply nth_error_Some. congruence.
  - intros c. rewrite (I5 c). rewrite Hs. split.
    + intros [v Hv]. exists v. rewrite nth_error_app1; auto. apply nth_error_Some. congruence.
    + intros [v Hv]. exists v. destruct (Nat.lt_ge_cases (nat_of c) (length (srvs w))) as [Hlt|Hge].
      * now rewrite nth_error_app1 in Hv.
      * rewrite nth_error_app2 in Hv by exact Hge. destruct (nat_of c - length (srvs w)) as [|[|n]]; discriminate.
Qed.

Lemma refs_connecting cp lo : refs_ok (sys_connecting cp lo).
Proof. apply refs_absent, init_refs. Qed.

Lemma connect_winv w h sid dst : winv w -> winv (fst (do_connect w h sid dst)).
Proof.
  intros H. unfold do_connect. destruct (assign_port w h) as [[port cur]|]; [|exact H].
  destruct dst as [dip dport].
  set (lip := if is_loop dip then IpLoop else IpHost h).
  set (dhost := match dip with IpHost d => if (d <? nhosts w)%N then Some d else None | IpLoop => Some h | _ => None end).
  set (lo := is_loop dip || ip_eqb dip (IpHost h)).
  set (c := N.of_nat (length (w_conns w))).
  set (k := {| k_host := h; k_local := (lip, port); k_remote := (dip, dport); k_dhost := dhost;
               k_syn := SynFlight; k_fut := FutPending; k_srv := None; k_sys := sys_connecting (w_cap w) lo |}).
  assert (Hk : conn_ok k).
  { ok_split; cbn; try discriminate; auto.
    - intros [E|E]; discriminate.
    - apply refs_connecting.
    - subst lip. destruct dip; reflexivity.
    - subst dhost. intros d. destruct dip as [d0| | |]; try discriminate; auto.
      destruct (d0 <? nhosts w)%N; [intros [= <-]; auto|discriminate]. }
  cbn [upd_host set_hosts w_conns w_streams].
  match goal with |- context [set_streams (set_conns ?w1 (?cs ++ [k])) ?st] =>
    assert (H2 : winv (set_streams (set_conns w1 (cs ++ [k])) st));
    [apply (append_conn_winv w1 k st); [eapply winv_frame; [apply frame_upd_host; reflexivity|exact H]|exact Hk|reflexivity]|];
    set (w2 := set_streams (set_conns w1 (cs ++ [k])) st) in * end.
  match goal with |- context [get_conn ?ww c] =>
    assert (H3 : winv ww); [|set (w3 := ww) in *] end.
  { destruct lo; [eapply winv_frame; [apply frame_loop_send|exact H2]|].
    destruct dhost; [eapply winv_frame; [apply frame_link_send|exact H2]|].
    eapply winv_frame; [apply frame_upd_conn, benign_set_syn; discriminate|exact H2]. }
  destruct (get_conn w3 c) as [k3|]; [|exact H3].
  destruct (k_syn k3); cbn [fst]; try exact H3.
  eapply winv_frame; [apply frame_upd_conn, benign_kill; now left|exact H3].
Qed.

Lemma pop_alive_spec w dq : forall rest pops acc,
  pop_alive w dq = (rest, pops, acc) ->
  map fst dq = map fst pops ++ map fst rest /\ (forall x, In x rest -> In x dq) /\
  (forall c o, acc = Some (c, o) -> In (c, o) dq /\ alive w c = true).
Proof.
  induction dq as [|[c o] dq IH]; intros rest pops acc H; cbn in H.
  - injection H as <- <- <-. split; [reflexivity|]. split; [auto|]. intros c o Ha. discriminate.
  - destruct (alive w c) eqn:Ea.
    + injection H as <- <- <-. cbn. split; [reflexivity|]. split.
      * intros x Hx; now right.
      * intros c' o' [= <- <-]. split; [now left|exact Ea].
    + destruct (pop_alive w dq) as [[r' p'] a'] eqn:E. injection H as <- <- <-.
      destruct (IH _ _ _ eq_refl) as (H1 & H2 & H3). cbn. split; [now rewrite H1|]. split.
      * intros x Hx; right; auto.
      * intros c' o' Ha. destruct (H3 _ _ Ha). split; [now right|auto].
Qed.

Lemma ip_eqb_eq a b : ip_eqb a b = true -> a = b.
Proof. destruct a, b; cbn; try discriminate; auto. intros H. apply N.eqb_eq in H. now subst. Qed.

Lemma find_lid_in hs lid port b : find_lid hs lid = Some (port, b) -> In (port, b) (h_binds hs).
Proof. unfold find_lid. intros H. apply find_some in H as [H _]. exact H. Qed.

Lemma refs_accept s : refs_ok s -> refs_ok (S.set_ep s S.B S.init_ep).
Proof.
  intros H y. destruct y; cbn; auto. intros k0 [= <-]. cbn. auto.
Qed.

Definition accept_upd (h : N) (my origin : addr) (k : conn) : conn :=
  set_srv (set_syn (set_sys k (S.set_ep (k_sys k) S.B S.init_ep)) SynAcked) (Some (h, my, origin)).

Lemma nat_of_id h : N.of_nat (nat_of h) = h.
Proof. unfold nat_of. apply N2Nat.id. Qed.

Lemma accept_winv w h lid sid : winv w -> winv (fst (do_accept w h lid sid)).
Proof.
  intros H. unfold do_accept. destruct (get_host w h) as [hs|] eqn:Hh; [|exact H].
  destruct (find_lid hs lid) as [[port b]|] eqn:Hl; [|exact H].
  destruct (pop_alive w (b_deque b)) as [[rest pops] acc] eqn:Hp.
  destruct (pop_alive_spec _ _ _ _ _ Hp) as (P1 & P2 & P3).
  pose proof (find_lid_in _ _ _ _ Hl) as Hinb.
  pose proof (get_host_binds _ _ _ Hh) as Hhb.
  set (G := fun b' : bindrec => {| b_lid := b_lid b'; b_ip := b_ip b'; b_deque := rest; b_arrived := b_arrived b';
                                   b_popped := b_popped b' ++ pops |}).
  set (w1 := upd_host w h (fun hs' => upd_bind hs' port G)).
  assert (Hb : bindss w1 = upd_nth (nat_of h) (upd_binds port G) (bindss w)).
  { apply bindss_upd_host_binds. reflexivity. }
  assert (H1 : winv w1).
  { destruct H as [I1 I2 I3 I4 I5].
    constructor; cbn [w_conns w_accepts upd_host set_hosts w1]; auto; fold w1; rewrite ?Hb;
      unfold idents; cbn [w_conns upd_host set_hosts w1]; fold (idents w).
    - intros h0 binds p0 b0 c o Hn Hin Hq. rewrite nth_upd_nth in Hn.
      destruct (Nat.eqb_spec (nat_of h) h0) as [<-|Hne]; [|eapply I2; eauto].
      rewrite Hhb in Hn. cbn in Hn. injection Hn as <-.
      apply in_upd_binds in Hin as [[Hp0 Hin]|[-> (b1 & Hin & ->)]]; [eapply I2; eauto|].
      cbn in Hq. rewrite (NoDup_fst_unique _ _ _ _ (I3 _ _ Hhb) Hin Hinb) in *.
      destruct (I2 _ _ _ _ _ _ Hhb Hinb (P2 _ Hq)) as (hk & r & E1 & E2 & E3). exists hk, r. auto.
    - intros h0 binds Hn. rewrite nth_upd_nth in Hn.
      destruct (Nat.eqb_spec (nat_of h) h0) as [<-|Hne]; [|eapply I3; eauto].
      rewrite Hhb in Hn. cbn in Hn. injection Hn as <-. rewrite upd_binds_fst. eapply I3; eauto.
    - intros h0 binds p0 b0 Hn Hin. rewrite nth_upd_nth in Hn.
      destruct (Nat.eqb_spec (nat_of h) h0) as [<-|Hne]; [|eapply I4; eauto].
      rewrite Hhb in Hn. cbn in Hn. injection Hn as <-.
      apply in_upd_binds in Hin as [[Hp0 Hin]|[-> (b1 & Hin & ->)]]; [eapply I4; eauto|].
      cbn. rewrite (NoDup_fst_unique _ _ _ _ (I3 _ _ Hhb) Hin Hinb) in *.
      rewrite (I4 _ _ _ _ Hhb Hinb), P1, map_app, app_assoc. reflexivity. }
  match goal with |- context [fold_left ?f pops w1] =>
    assert (F2 : frame w1 (fold_left f pops w1));
    [apply frame_fold; intros w' cb; destruct (snd cb); [apply frame_refl|apply frame_upd_conn, benign_set_syn; discriminate]|];
    set (w2 := fold_left f pops w1) in * end.
  pose proof (winv_frame _ _ F2 H1) as H2.
  destruct acc as [[c origin]|]; cbn [fst]; [|exact H2].
  destruct (P3 _ _ eq_refl) as [Hq Hal].
  set (mip := if is_loop (fst origin) then IpLoop else match b_ip b with IpUnspec => IpHost h | i => i end).
  fold (accept_upd h (mip, port) origin).
  (* the queue entry names the connection *)
  destruct H as [I1 I2 I3 I4 I5].
  destruct (I2 _ _ _ _ _ _ Hhb Hinb Hq) as (hk & r & E1 & E2 & E3).
  assert (Eid : idents w2 = idents w).
  { rewrite (f_id _ _ F2). reflexivity. }
  destruct H2 as [J1 J2 J3 J4 J5].
  assert (Hc2 : exists k2, get_conn w2 c = Some k2 /\ ident k2 = (hk, origin, r, Some h)).
  { rewrite <- Eid in E1. unfold idents in E1. rewrite nth_error_map in E1. unfold get_conn.
    destruct (nth_error (w_conns w2) (nat_of c)) as [k2|]; [|discriminate]. cbn in E1. assert (E1' : ident k2 = (hk, origin, r, Some (N.of_nat (nat_of h)))) by congruence. clear E1. rename E1' into E1.
    exists k2. split; [reflexivity|]. rewrite E1, nat_of_id. reflexivity. }
  destruct Hc2 as (k2 & Hk2 & Hid2). unfold ident in Hid2. injection Hid2 as Eh El Er Ed.
  assert (Hok2 : conn_ok k2).
  { rewrite Forall_forall in J1. apply J1. unfold get_conn in Hk2. eapply nth_error_In; eauto. }
  assert (Hmy : (mip, port) = k_remote k2).
  { destruct Hok2 as (_ & _ & _ & _ & _ & C6 & C7). rewrite El, Er in *. destruct r as [rip rport]. cbn in *. subst rport.
    f_equal. subst mip. rewrite C6. destruct (is_loop rip) eqn:Elo.
    - destruct rip; try discriminate. reflexivity.
    - destruct (b_ip b) eqn:Eb.
      + unfold bind_matches in E3. symmetry. now apply ip_eqb_eq in E3.
      + unfold bind_matches in E3. symmetry. now apply ip_eqb_eq in E3.
      + destruct (C7 _ Ed) as [E0 | E0]; rewrite E0 in *; [reflexivity|discriminate].
      + unfold bind_matches in E3. symmetry. now apply ip_eqb_eq in E3. }
  set (w3 := upd_conn w2 c (accept_upd h (mip, port) origin)).
  assert (Hid3 : idents w3 = idents w2) by (apply idents_upd_conn; intros k0; reflexivity).
  constructor.
  - change (Forall conn_ok (w_conns w3)). unfold w3, upd_conn. cbn [w_conns set_conns].
    apply Forall_upd_nth; [exact J1|]. intros k0 Hk0 Hok0. unfold get_conn in Hk2. rewrite Hk2 in Hk0.
    injection Hk0 as <-. destruct Hok2 as (C1 & C2 & C3 & C4 & C5 & C6 & C7).
    unfold accept_upd. ok_split; cbn; auto; try discriminate.
    + intros d l p [= <- <- <-]. rewrite Hmy, El, Ed. auto.
    + now apply refs_accept.
  - change (dq_ok (idents w3) (bindss w2)). rewrite Hid3. exact J2.
  - change (bp_ok (bindss w2)). exact J3.
  - change (fifo_ok (bindss w2)). exact J4.
  - change (acc_ok (w_accepts w2 ++ [c]) (srvs w3)).
    intros c'. rewrite in_app_iff. unfold srvs, w3, upd_conn. cbn [w_conns set_conns].
    rewrite nth_error_map, nth_upd_nth.
    destruct (Nat.eqb_spec (nat_of c) (nat_of c')) as [E|Hne].
    + assert (c = c') by (unfold nat_of in E; now apply N2Nat.inj). subst c'.
      unfold get_conn in Hk2. rewrite Hk2. cbn. split; [eauto|]. intros _. right. now left.
    + rewrite (J5 c'). unfold srvs. rewrite nth_error_map. split.
      * intros [Hx|[->|[]]]; [exact Hx|congruence].
      * intros Hx. now left.
Qed.

(* ---- every event preserves the invariant ---------------------------------------------------- *)

Lemma mature_winv w l : winv w -> winv (set_links w l).
Proof. intros H. eapply winv_frame; [apply frame_set_links|exact H]. Qed.

Lemma on_pair_winv w a b f : winv w -> winv (on_pair w a b f).
Proof. intros H. now apply mature_winv. Qed.

Theorem step_winv w e : winv w -> winv (fst (step w e)).
Proof.
  intros H. destruct e; cbn [step].
  - now apply bind_winv.
  - now apply connect_winv.
  - now apply poll_winv.
  - pose proof (poll_winv w c H) as H1. destruct (do_poll w c) as [w1 r]. cbn in H1.
    destruct r; cbn; auto. now apply cancel_winv.
  - now apply cancel_winv.
  - now apply accept_winv.
  - now apply drop_listener_winv.
  - now apply stream_op_winv.
  - now apply on_pair_winv.
  - now apply mature_winv.
  - now apply on_pair_winv.
  - now apply on_pair_winv.
  - now apply on_pair_winv.
  - pose proof (drain_links_winv (length (w_links w)) w h H) as D. unfold panic_res.
    destruct (drain_links w h (length (w_links w))) as [w1 p]. cbn in *. destruct p; exact D.
  - now apply partition_winv.
  - now apply partition_winv.
  - now apply on_pair_winv.
  - pose proof (loop_step_winv w h H) as D. unfold panic_res.
    destruct (do_loop_step w h) as [w1 p]. cbn in *. destruct p; exact D.
  - exact H.
  - exact H.
  - now apply on_pair_winv.
Qed.

Lemma init_winv n cp lo hi : winv (init n cp lo hi).
Proof.
  constructor; cbn.
  - constructor.
  - intros h binds port b c o Hn Hin. unfold bindss in Hn. cbn in Hn. rewrite nth_error_map in Hn.
    destruct (nth_error _ h) eqn:E; [|discriminate]. apply nth_error_In, repeat_spec in E. subst. cbn in Hn.
    injection Hn as <-. destruct Hin.
  - intros h binds Hn. unfold bindss in Hn. cbn in Hn. rewrite nth_error_map in Hn.
    destruct (nth_error _ h) eqn:E; [|discriminate]. apply nth_error_In, repeat_spec in E. subst. cbn in Hn.
    injection Hn as <-. constructor.
  - intros h binds port b Hn Hin. unfold bindss in Hn. cbn in Hn. rewrite nth_error_map in Hn.
    destruct (nth_error _ h) eqn:E; [|discriminate]. apply nth_error_In, repeat_spec in E. subst. cbn in Hn.
    injection Hn as <-. destruct Hin.
  - intros c. split; [intros []|]. intros [v Hv]. destruct (nat_of c); discriminate.
Qed.

Fixpoint final (w : world) (es : list ev) : world :=
  match es with [] => w | e :: es' => final (fst (step w e)) es' end.

Lemma run_final w es : fst (run w es) = final w es.
Proof.
  revert w; induction es as [|e es IH]; intros w; cbn; [reflexivity|].
  destruct (step w e) as [w1 o] eqn:E. specialize (IH w1). destruct (run w1 es). cbn in *. exact IH.
Qed.

Theorem reach_winv n cp lo hi es : winv (final (init n cp lo hi) es).
Proof.
  assert (G : forall w, winv w -> winv (final w es)).
  { induction es as [|e es IH]; intros w H; cbn; [exact H|]. apply IH, step_winv, H. }
  apply G, init_winv.
Qed.

(* ---- statements derived from the invariant ----------------------------------------------------- *)

Lemma get_conn_ok w c k : winv w -> get_conn w c = Some k -> conn_ok k.
Proof.
  intros [I1 _ _ _ _] Hc. rewrite Forall_forall in I1. apply I1. unfold get_conn in Hc. eapply nth_error_In; eauto.
Qed.

Lemma pairing_lemma w c k :
  winv w -> get_conn w c = Some k ->
  (k_fut k = FutOk -> In c (w_accepts w)) /\
  (In c (w_accepts w) <-> k_srv k <> None) /\
  (forall d l p, k_srv k = Some (d, l, p) -> l = k_remote k /\ p = k_local k /\ k_dhost k = Some d).
Proof.
  intros H Hc. pose proof (get_conn_ok _ _ _ H Hc) as (C1 & C2 & C3 & C4 & C5 & C6 & C7).
  destruct H as [_ _ _ _ I5].
  assert (Hiff : In c (w_accepts w) <-> k_srv k <> None).
  { rewrite (I5 c). unfold srvs. rewrite nth_error_map. unfold get_conn in Hc. rewrite Hc. cbn. split.
    - intros [v [= E]]. congruence.
    - intros Hne. destruct (k_srv k) as [v|]; [eauto|congruence]. }
  split; [|split; auto]. intros Hf. apply Hiff. auto.
Qed.

Lemma fifo_lemma w h hs port b :
  winv w -> get_host w h = Some hs -> In (port, b) (h_binds hs) ->
  b_arrived b = map fst (b_popped b) ++ map fst (b_deque b).
Proof. intros [_ _ _ I4 _] Hh Hin. exact (I4 _ _ _ _ (get_host_binds _ _ _ Hh) Hin). Qed.

(* accept takes the first queued SYN whose connector still waits *)
Lemma pop_alive_first w dq :
  match pop_alive w dq with
  | (rest, pops, Some (c, o)) =>
      exists pre, dq = pre ++ (c, o) :: rest /\ (forall x, In x pre -> alive w (fst x) = false) /\
                  alive w c = true /\ pops = map (fun x => (fst x, false)) pre ++ [(c, true)]
  | (rest, pops, None) =>
      rest = [] /\ (forall x, In x dq -> alive w (fst x) = false) /\ pops = map (fun x => (fst x, false)) dq
  end.
Proof.
  induction dq as [|[c o] dq IH]; cbn.
  - repeat split; auto. intros x [].
  - destruct (alive w c) eqn:Ea.
    + exists []. cbn. repeat split; auto. intros x [].
    + destruct (pop_alive w dq) as [[rest pops] [[c' o']|]].
      * destruct IH as (pre & -> & Hd & Ha & ->). exists ((c, o) :: pre). cbn. repeat split; auto.
        intros x [<-|Hx]; auto.
      * destruct IH as (-> & Hd & ->). repeat split; auto. intros x [<-|Hx]; auto.
Qed.

Lemma fold_dead_accepts l : forall w0,
  w_accepts (fold_left (fun (w' : world) (cb : N * bool) =>
               if snd cb then w' else upd_conn w' (fst cb) (fun k => set_syn k SynGone)) l w0) = w_accepts w0.
Proof. induction l as [|cb l IH]; intros w0; cbn; [reflexivity|]. rewrite IH. destruct (snd cb); reflexivity. Qed.

Lemma accept_result w h lid sid hs port b :
  get_host w h = Some hs -> find_lid hs lid = Some (port, b) ->
  match pop_alive w (b_deque b) with
  | (_, _, Some (c, o)) => exists my, snd (do_accept w h lid sid) = RAccOk my o /\
                                      w_accepts (fst (do_accept w h lid sid)) = w_accepts w ++ [c]
  | (_, _, None) => snd (do_accept w h lid sid) = RPending /\
                    w_accepts (fst (do_accept w h lid sid)) = w_accepts w
  end.
Proof.
  intros Hh Hl. unfold do_accept. rewrite Hh, Hl.
  destruct (pop_alive w (b_deque b)) as [[rest pops] [[c o]|]]; cbn [fst snd].
  - eexists. split; [reflexivity|]. cbn [w_accepts set_accepts set_streams upd_conn set_conns].
    rewrite fold_dead_accepts. reflexivity.
  - split; [reflexivity|]. rewrite fold_dead_accepts. reflexivity.
Qed.

(* refusals *)
Lemma poll_decided w c k :
  get_conn w c = Some k -> k_fut k = FutPending ->
  (k_syn k = SynGone -> snd (do_poll w c) = RRefused) /\
  (k_syn k = SynAcked -> snd (do_poll w c) = RConnOk (k_local k) (k_remote k)) /\
  (snd (do_poll w c) = RPending <-> k_syn k = SynFlight \/ k_syn k = SynQueued).
Proof.
  intros Hc Hf. unfold do_poll. rewrite Hc, Hf. destruct (k_syn k); cbn; repeat split; auto; try discriminate;
    intros [E|E]; discriminate.
Qed.

Lemma poll_refused_no_entry w c k :
  get_conn w c = Some k -> k_fut k = FutPending -> k_syn k = SynGone ->
  exists k', get_conn (fst (do_poll w c)) c = Some k' /\ k_fut k' = FutRefused /\
             forall h, client_entry h k' = false.
Proof.
  intros Hc Hf Hs. unfold do_poll. rewrite Hc, Hf, Hs. cbn [fst]. unfold get_conn, upd_conn in *. cbn.
  erewrite nth_upd_nth_same by exact Hc. eexists. split; [reflexivity|]. split; [reflexivity|].
  intros h. unfold client_entry, has_sk. cbn. apply andb_false_r.
Qed.

(* what the network does to the connection table: it only marks SYNs as gone *)
Definition syn_only (w w' : world) : Prop :=
  forall c k, get_conn w c = Some k ->
    exists k', get_conn w' c = Some k' /\ (k' = k \/ k' = set_syn k SynGone).

Lemma syn_only_refl w : syn_only w w.
Proof. intros c k H. exists k. auto. Qed.

Lemma syn_only_trans w1 w2 w3 : syn_only w1 w2 -> syn_only w2 w3 -> syn_only w1 w3.
Proof.
  intros A B c k H. destruct (A c k H) as (k2 & H2 & E2). destruct (B c k2 H2) as (k3 & H3 & E3).
  exists k3. split; [exact H3|]. destruct E2 as [->| ->], E3 as [->| ->]; auto.
Qed.

Lemma syn_only_conns w w' : w_conns w' = w_conns w -> syn_only w w'.
Proof. intros E c k H. exists k. unfold get_conn in *. rewrite E. auto. Qed.

Lemma syn_only_syn_gone w m : syn_only w (syn_gone w m).
Proof.
  unfold syn_gone. destruct (m_body m); [|apply syn_only_refl]. intros c k H.
  destruct (N.eq_dec (m_cid m) c) as [->|Hne].
  - exists (set_syn k SynGone). split; [|now right]. unfold get_conn, upd_conn in *. cbn.
    apply (nth_upd_nth_same _ (fun k0 => set_syn k0 SynGone)). exact H.
  - exists k. split; [|now left]. unfold get_conn, upd_conn in *. cbn. rewrite nth_upd_nth_other; [exact H|].
    unfold nat_of. intros E. apply N2Nat.inj in E. congruence.
Qed.

Lemma syn_only_fold_syn_gone (l : list wmsg) : forall w, syn_only w (fold_left syn_gone l w).
Proof.
  induction l as [|x l IH]; intros w; cbn [fold_left]; [apply syn_only_refl|].
  eapply syn_only_trans; [apply syn_only_syn_gone|apply IH].
Qed.

Lemma syn_only_rand_send w s d : syn_only w (rand_send w s d).
Proof.
  unfold rand_send. destruct (find _ _); [|apply syn_only_refl].
  eapply syn_only_trans; [|apply syn_only_fold_syn_gone]. apply syn_only_conns. reflexivity.
Qed.

Lemma conns_link_enqueue_seg w s d c sd p pk :
  w_conns (link_enqueue w s d {| m_cid := c; m_body := WSeg sd p; m_parked := pk |}) = w_conns w.
Proof.
  unfold link_enqueue. destruct (find _ _); [|reflexivity]. destruct (cut_from _ _); reflexivity.
Qed.

Lemma syn_only_link_send_seg w s d c sd p pk :
  syn_only w (link_send w s d {| m_cid := c; m_body := WSeg sd p; m_parked := pk |}).
Proof.
  unfold link_send. eapply syn_only_trans; [apply syn_only_rand_send|].
  apply syn_only_conns, conns_link_enqueue_seg.
Qed.

Lemma syn_only_send_abandon_rst w c k : syn_only w (send_abandon_rst w c k).
Proof.
  unfold send_abandon_rst. destruct (S.lo (k_sys k)); [apply syn_only_conns; reflexivity|].
  destruct (k_dhost k); [apply syn_only_link_send_seg|apply syn_only_refl].
Qed.

Lemma cancel_no_entry w c k :
  get_conn w c = Some k -> k_fut k = FutPending ->
  exists k', get_conn (fst (do_cancel w c)) c = Some k' /\ k_fut k' = FutCancelled /\
             forall h, client_entry h k' = false.
Proof.
  intros Hc Hf. unfold do_cancel. rewrite Hc, Hf. cbn [fst].
  set (F := fun k' : conn => set_fut (kill_client k') FutCancelled).
  assert (G : get_conn (upd_conn w c F) c = Some (F k)).
  { unfold get_conn, upd_conn in *. cbn. now apply nth_upd_nth_same. }
  match goal with |- context [send_abandon_rst ?w1 c ?k1] =>
    destruct (syn_only_send_abandon_rst w1 c k1 c (F k) G) as (k' & G' & E) end.
  exists k'. split; [exact G'|].
  assert (P : k_fut (F k) = FutCancelled /\ forall h, client_entry h (F k) = false).
  { split; [reflexivity|]. intros h. unfold client_entry, has_sk. cbn. apply andb_false_r. }
  destruct E as [->| ->]; [exact P|]. destruct P as [P1 P2]. split; [exact P1|]. intros h. apply (P2 h).
Qed.

Lemma syn_arrive_refused w d c k hs :
  get_conn w c = Some k -> get_host w d = Some hs ->
  (find_bind hs (snd (k_remote k)) = None \/
   exists b, find_bind hs (snd (k_remote k)) = Some b /\ length (b_deque b) <> w_cap w /\
             bind_matches (b_ip b) (fst (k_remote k)) = false) ->
  get_conn (fst (syn_arrive w d c)) c = Some (set_syn k SynGone).
Proof.
  intros Hc Hh Hcase. unfold syn_arrive. rewrite Hc, Hh. destruct (k_remote k) as [dip dport] eqn:Hr. cbn [fst snd] in *.
  assert (G : get_conn (upd_conn w c (fun k' => set_syn k' SynGone)) c = Some (set_syn k SynGone)).
  { unfold get_conn, upd_conn in *. cbn. apply (nth_upd_nth_same _ (fun k' => set_syn k' SynGone)). exact Hc. }
  destruct (routed_to k d); cbn [negb]; [|exact G].
  destruct Hcase as [Hn|(b & Hb & Hlen & Hm)].
  - rewrite Hn. exact G.
  - rewrite Hb. destruct (Nat.eqb_spec (length (b_deque b)) (w_cap w)); [contradiction|]. rewrite Hm. exact G.
Qed.

Lemma fold_syn_gone (l : list (N * addr)) : forall w c k,
  get_conn w c = Some k ->
  exists k', get_conn (fold_left (fun (w' : world) (co : N * addr) =>
                         upd_conn w' (fst co) (fun k0 => set_syn k0 SynGone)) l w) c = Some k' /\
             (In c (map fst l) \/ k_syn k = SynGone -> k_syn k' = SynGone) /\ k_fut k' = k_fut k.
Proof.
  induction l as [|[c0 o0] l IH]; intros w c k Hc; cbn.
  - exists k. split; [exact Hc|]. split; [intros [[]|E]; exact E|reflexivity].
  - destruct (N.eq_dec c0 c) as [->|Hne].
    + destruct (IH (upd_conn w c (fun k0 => set_syn k0 SynGone)) c (set_syn k SynGone)) as (k' & G1 & G2 & G3).
      { unfold get_conn, upd_conn in *. cbn. apply (nth_upd_nth_same _ (fun k0 => set_syn k0 SynGone)). exact Hc. }
      exists k'. split; [exact G1|]. split; [intros _; apply G2; now right|exact G3].
    + destruct (IH (upd_conn w c0 (fun k0 => set_syn k0 SynGone)) c k) as (k' & G1 & G2 & G3).
      { unfold get_conn, upd_conn in *. cbn. rewrite nth_upd_nth_other; [exact Hc|].
        unfold nat_of. intros E. apply N2Nat.inj in E. congruence. }
      exists k'. split; [exact G1|]. split; [|exact G3]. intros [[E|Hin]|E]; [congruence|apply G2; now left|apply G2; now right].
Qed.

Lemma drop_listener_refuses w h lid hs port b c o k :
  get_host w h = Some hs -> find_lid hs lid = Some (port, b) -> In (c, o) (b_deque b) ->
  get_conn w c = Some k ->
  exists k', get_conn (fst (do_drop_listener w h lid)) c = Some k' /\ k_syn k' = SynGone /\ k_fut k' = k_fut k.
Proof.
  intros Hh Hl Hin Hc. unfold do_drop_listener. rewrite Hh, Hl. cbn [fst].
  match goal with |- context [fold_left _ _ ?w1] =>
    destruct (fold_syn_gone (b_deque b) w1 c k) as (k' & G1 & G2 & G3); [exact Hc|] end.
  exists k'. split; [exact G1|]. split; [|exact G3]. apply G2. left. apply (in_map fst) in Hin. exact Hin.
Qed.

Lemma no_residue_lemma w c k :
  winv w -> get_conn w c = Some k ->
  (forall h, client_entry h k = true ->
     (k_fut k = FutPending \/ k_fut k = FutOk) /\
     (S.rd (S.eps (k_sys k) S.A) <> None \/ S.wr (S.eps (k_sys k) S.A) <> None)) /\
  (forall h, server_entry h k = true ->
     k_srv k <> None /\ (S.rd (S.eps (k_sys k) S.B) <> None \/ S.wr (S.eps (k_sys k) S.B) <> None)).
Proof.
  intros H Hc. pose proof (get_conn_ok _ _ _ H Hc) as (C1 & C2 & C3 & C4 & C5 & C6 & C7).
  assert (Hh : forall x, has_sk (k_sys k) x = true ->
                 S.rd (S.eps (k_sys k) x) <> None \/ S.wr (S.eps (k_sys k) x) <> None).
  { intros x Hx. unfold has_sk in Hx. destruct (S.sk (S.eps (k_sys k) x)) as [k0|] eqn:E; [|discriminate].
    destruct (C5 x k0 E) as [_ Hge]. unfold halves in Hge.
    destruct (S.rd (S.eps (k_sys k) x)); [left; discriminate|].
    destruct (S.wr (S.eps (k_sys k) x)); [right; discriminate|]. cbn in Hge. lia. }
  split.
  - intros h He. unfold client_entry in He. apply andb_prop in He as [_ Hs]. split; [|now apply Hh].
    destruct (k_fut k) eqn:Ef; auto; exfalso; unfold has_sk in Hs; rewrite C4 in Hs by auto; discriminate.
  - intros h He. unfold server_entry in He. destruct (k_srv k) as [[[d l] p]|]; [|discriminate].
    apply andb_prop in He as [_ Hs]. split; [discriminate|now apply Hh].
Qed.

Lemma nat_of_len (l : list conn) : nat_of (N.of_nat (length l)) = length l.
Proof. unfold nat_of. apply Nat2N.id. Qed.

Lemma get_conn_new w k st F :
  get_conn (upd_conn (set_streams (set_conns w (w_conns w ++ [k])) st) (N.of_nat (length (w_conns w))) F)
           (N.of_nat (length (w_conns w))) = Some (F k).
Proof.
  unfold get_conn, upd_conn. cbn. rewrite nat_of_len. apply nth_upd_nth_same.
  rewrite nth_error_app2 by lia. now rewrite Nat.sub_diag.
Qed.

(* connect to an address no host owns: refused at once *)
Lemma connect_unowned_refused w h sid dport :
  assign_port w h <> None -> snd (do_connect w h sid (IpNobody, dport)) = RRefused.
Proof.
  intros Ha. unfold do_connect. destruct (assign_port w h) as [[port cur]|]; [|congruence].
  cbn [is_loop ip_eqb orb]. cbn [upd_host set_hosts w_conns w_streams].
  match goal with |- context [upd_conn (set_streams (set_conns ?w1 _) ?st) _ ?F] =>
    pose proof (get_conn_new w1 {| k_host := h; k_local := (IpHost h, port); k_remote := (IpNobody, dport);
                                    k_dhost := None; k_syn := SynFlight; k_fut := FutPending; k_srv := None;
                                    k_sys := sys_connecting (w_cap w) false |} st F) as G end.
  cbn [w_conns set_hosts upd_host w_cap] in G. rewrite G. reflexivity.
Qed.

(* connect across an explicitly partitioned direction: the SYN is dropped, refused at once --
   whatever the coins of the random link failure say (they repair only what they broke) *)
Lemma links_syn_gone w m : w_links (syn_gone w m) = w_links w.
Proof. unfold syn_gone. destruct (m_body m); reflexivity. Qed.

Lemma links_fold_syn_gone (l : list wmsg) : forall w, w_links (fold_left syn_gone l w) = w_links w.
Proof. induction l as [|x l IH]; intros w; cbn [fold_left]; [reflexivity|]. rewrite IH. apply links_syn_gone. Qed.

Lemma find_upd_first {T} (P : T -> bool) (y : T) : forall l x,
  find P l = Some x -> P y = true -> find P (upd_first P (fun _ => y) l) = Some y.
Proof.
  induction l as [|z l IH]; intros x Hf Hy; cbn in *; [discriminate|].
  destruct (P z) eqn:Hz; cbn; [rewrite Hy; reflexivity|]. rewrite Hz. eapply IH; eauto.
Qed.

Lemma rand_link_ends w l : l_a (fst (rand_link w l)) = l_a l /\ l_b (fst (rand_link w l)) = l_b l.
Proof.
  unfold rand_link. destruct (l_coins l) as [|[rp rr] cs]; [auto|].
  destruct ((healthy_ab l || healthy_ba l) && rp); [auto|]. destruct ((l_rand_ab l || l_rand_ba l) && rr); auto.
Qed.

Lemma rand_link_on_link w l x y : on_link (fst (rand_link w l)) x y = on_link l x y.
Proof. unfold on_link. destruct (rand_link_ends w l) as [-> ->]. reflexivity. Qed.

Lemma rand_link_keeps_explicit_cut w l src :
  cut_from l src = true -> rand_from l src = false -> cut_from (fst (rand_link w l)) src = true.
Proof.
  unfold cut_from, rand_from. intros Hc Hr. destruct (rand_link_ends w l) as [Ea _]. rewrite Ea.
  unfold rand_link. destruct (l_coins l) as [|[rp rr] cs]; [exact Hc|].
  destruct ((healthy_ab l || healthy_ba l) && rp); [|destruct ((l_rand_ab l || l_rand_ba l) && rr)];
    cbn [fst l_cut_ab l_cut_ba set_sent set_rands set_cuts set_coins]; destruct (N.eqb src (l_a l));
    rewrite ?Hc, ?Hr; reflexivity.
Qed.

Lemma find_rand_send w s d l0 :
  find (fun l => on_link l s d) (w_links w) = Some l0 ->
  find (fun l => on_link l s d) (w_links (rand_send w s d)) = Some (fst (rand_link w l0)).
Proof.
  intros Hf. unfold rand_send. rewrite Hf, links_fold_syn_gone. cbn [w_links set_links].
  eapply (find_upd_first (fun l => on_link l s d)); [exact Hf|].
  rewrite rand_link_on_link. apply find_some in Hf. exact (proj2 Hf).
Qed.

Lemma connect_cut_refused w h sid d dport l0 :
  assign_port w h <> None -> d <> h -> (d <? nhosts w)%N = true ->
  find (fun l => on_link l h d) (w_links w) = Some l0 ->
  (forall w', cut_from (fst (rand_link w' l0)) h = true) ->
  snd (do_connect w h sid (IpHost d, dport)) = RRefused.
Proof.
  intros Ha Hne Hd Hf Hcut. unfold do_connect. destruct (assign_port w h) as [[port cur]|]; [|congruence].
  cbn [is_loop orb]. rewrite Hd.
  assert (E : ip_eqb (IpHost d) (IpHost h) = false) by (cbn; now apply N.eqb_neq).
  rewrite E. cbn [upd_host set_hosts w_conns w_streams].
  set (k := {| k_host := h; k_local := (IpHost h, port); k_remote := (IpHost d, dport);
               k_dhost := Some d; k_syn := SynFlight; k_fut := FutPending; k_srv := None;
               k_sys := sys_connecting (w_cap w) false |}).
  match goal with |- context [link_send ?ww h d ?mm] => set (w2 := ww); set (m0 := mm) end.
  set (c := N.of_nat (length (w_conns w))) in *.
  assert (G2 : get_conn w2 c = Some k).
  { unfold get_conn, w2, c. cbn. rewrite nat_of_len, nth_error_app2 by lia. now rewrite Nat.sub_diag. }
  destruct (syn_only_rand_send w2 h d c k G2) as (k' & G' & Ek).
  assert (Hf2 : find (fun l => on_link l h d) (w_links w2) = Some l0) by exact Hf.
  pose proof (find_rand_send w2 h d l0 Hf2) as Hf3.
  unfold link_send, link_enqueue. rewrite Hf3, (Hcut w2).
  unfold syn_gone. cbn [m_body m_cid m0].
  assert (G3 : get_conn (upd_conn (rand_send w2 h d) c (fun k0 => set_syn k0 SynGone)) c = Some (set_syn k' SynGone)).
  { unfold get_conn, upd_conn in *. cbn. apply (nth_upd_nth_same _ (fun k0 => set_syn k0 SynGone)). exact G'. }
  rewrite G3. reflexivity.
Qed.

Lemma connect_partitioned_refused w h sid d dport l0 :
  assign_port w h <> None -> d <> h -> (d <? nhosts w)%N = true ->
  find (fun l => on_link l h d) (w_links w) = Some l0 -> cut_from l0 h = true -> rand_from l0 h = false ->
  snd (do_connect w h sid (IpHost d, dport)) = RRefused.
Proof.
  intros Ha Hne Hd Hf Hcut Hrand. eapply connect_cut_refused; eauto.
  intros w'. now apply rand_link_keeps_explicit_cut.
Qed.

(* the connect whose SYN makes the fail_rate coin come up: its direction is healthy, breaks, and
   the SYN is dropped with it *)
Lemma rand_link_breaks_healthy w l src rr cs :
  l_coins l = (true, rr) :: cs -> cut_from l src = false -> held_from l src = false ->
  cut_from (fst (rand_link w l)) src = true.
Proof.
  unfold cut_from, held_from, rand_link, healthy_ab, healthy_ba. intros Hc Hcut Hheld. rewrite Hc.
  destruct (N.eqb src (l_a l)) eqn:Es; rewrite Hcut, Hheld in *; cbn [negb andb orb].
  - cbn [fst l_a set_sent set_rands set_cuts set_coins l_cut_ab]. rewrite Es. reflexivity.
  - rewrite orb_true_r. cbn [andb fst l_a set_sent set_rands set_cuts set_coins l_cut_ba]. rewrite Es. reflexivity.
Qed.

Lemma connect_breaking_refused w h sid d dport l0 rr cs :
  assign_port w h <> None -> d <> h -> (d <? nhosts w)%N = true ->
  find (fun l => on_link l h d) (w_links w) = Some l0 ->
  l_coins l0 = (true, rr) :: cs -> cut_from l0 h = false -> held_from l0 h = false ->
  snd (do_connect w h sid (IpHost d, dport)) = RRefused.
Proof.
  intros Ha Hne Hd Hf Hc Hcut Hheld. eapply connect_cut_refused; eauto.
  intros w'. eapply rand_link_breaks_healthy; eauto.
Qed.

(* a SYN in flight on a direction that the coin breaks is dropped: it leaves the link and its
   connect is refused at the next poll *)
Lemma fold_syn_gone_marks (l : list wmsg) : forall w c k,
  get_conn w c = Some k ->
  (k_syn k = SynGone \/ exists m, In m l /\ m_body m = WSyn /\ m_cid m = c) ->
  exists k', get_conn (fold_left syn_gone l w) c = Some k' /\ k_syn k' = SynGone /\ k_fut k' = k_fut k.
Proof.
  induction l as [|x l IH]; intros w c k Hc Hcase; cbn [fold_left].
  - destruct Hcase as [E|(m & [] & _)]. exists k. auto.
  - destruct (syn_only_syn_gone w x c k Hc) as (k1 & H1 & E1).
    assert (F1 : k_fut k1 = k_fut k) by (destruct E1 as [->| ->]; reflexivity).
    destruct Hcase as [E|(m & [->|Hin] & Hb & Hm)].
    + destruct (IH (syn_gone w x) c k1 H1) as (k' & G1 & G2 & G3).
      { left. destruct E1 as [->| ->]; [exact E|reflexivity]. }
      exists k'. split; [exact G1|]. split; [exact G2|congruence].
    + assert (H2 : get_conn (syn_gone w m) c = Some (set_syn k SynGone)).
      { unfold syn_gone. rewrite Hb, Hm. unfold get_conn, upd_conn in *. cbn.
        apply (nth_upd_nth_same _ (fun k0 => set_syn k0 SynGone)). exact Hc. }
      destruct (IH (syn_gone w m) c (set_syn k SynGone) H2) as (k' & G1 & G2 & G3); [left; reflexivity|].
      exists k'. split; [exact G1|]. split; [exact G2|exact G3].
    + destruct (IH (syn_gone w x) c k1 H1) as (k' & G1 & G2 & G3).
      { right. exists m. auto. }
      exists k'. split; [exact G1|]. split; [exact G2|congruence].
Qed.

Lemma rand_break_refuses w s d l0 rr cs m k :
  find (fun l => on_link l s d) (w_links w) = Some l0 ->
  l_coins l0 = (true, rr) :: cs ->
  In m (l_sent l0) -> m_body m = WSyn -> breaks w l0 m = true ->
  get_conn w (m_cid m) = Some k -> k_fut k = FutPending ->
  (exists l1, find (fun l => on_link l s d) (w_links (rand_send w s d)) = Some l1 /\ ~ In m (l_sent l1)) /\
  snd (do_poll (rand_send w s d) (m_cid m)) = RRefused.
Proof.
  intros Hf Hc Hin Hb Hbr Hk Hfut.
  assert (Hh : (healthy_ab l0 || healthy_ba l0) && true = true).
  { rewrite andb_true_r. unfold breaks in Hbr. destruct (from_host w (l_a l0) m); rewrite Hbr; [reflexivity|apply orb_true_r]. }
  split.
  - exists (fst (rand_link w l0)). split; [now apply find_rand_send|].
    unfold rand_link. rewrite Hc, Hh. cbn [fst l_sent set_sent]. intros Hin'. apply filter_In in Hin' as [_ E].
    rewrite Hbr in E. discriminate.
  - assert (Hd : In m (snd (rand_link w l0))).
    { unfold rand_link. rewrite Hc, Hh. cbn [snd]. apply filter_In. auto. }
    unfold rand_send. rewrite Hf.
    match goal with |- context [fold_left syn_gone ?l ?w1] =>
      destruct (fold_syn_gone_marks l w1 (m_cid m) k) as (k' & G1 & G2 & G3) end.
    + exact Hk.
    + right. exists m. auto.
    + unfold do_poll. rewrite G1, G3, Hfut, G2. reflexivity.
Qed.

(* ---- the RST of an abandoned connect removes the acceptor's entry (fix 48e101e) ------------------ *)

Lemma syn_only_flush_fold (k : conn) c (out : list (S.side * S.pkt)) : forall w1,
  syn_only w1 (fold_left (fun (w' : world) (sp : S.side * S.pkt) =>
     let m := {| m_cid := c; m_body := WSeg (fst sp) (snd sp); m_parked := false |} in
     if S.lo (k_sys k) then loop_send w' (k_host k) m
     else match msg_src w' m, msg_dst w' m with
          | Some s, Some d => link_send w' s d m
          | _, _ => w'
          end) out w1).
Proof.
  induction out as [|sp out IH]; intros w1; cbn [fold_left]; [apply syn_only_refl|].
  eapply syn_only_trans; [|apply IH].
  destruct (S.lo (k_sys k)); [apply syn_only_conns; reflexivity|].
  destruct (msg_src _ _); [|apply syn_only_refl]. destruct (msg_dst _ _); [|apply syn_only_refl].
  apply syn_only_link_send_seg.
Qed.

Lemma abandon_rst_resets_acceptor w d c k pk :
  get_conn w c = Some k ->
  exists k', get_conn (fst (deliver_msg w d {| m_cid := c; m_body := WSeg S.A S.PRst; m_parked := pk |})) c = Some k' /\
             forall h, server_entry h k' = false.
Proof.
  intros Hc. unfold deliver_msg. cbn [m_body m_cid fst]. unfold flush.
  set (f := fun k0 : conn => set_sys k0 (S.deliver1 (k_sys k0) (S.other S.A) S.PRst)).
  assert (H1 : get_conn (upd_conn w c f) c = Some (f k)).
  { unfold get_conn, upd_conn in *. cbn. now apply nth_upd_nth_same. }
  rewrite H1.
  set (g := fun k' : conn => set_sys k' (S.set_wire (k_sys k') [])).
  assert (H2 : get_conn (upd_conn (upd_conn w c f) c g) c = Some (g (f k))).
  { unfold get_conn, upd_conn in *. cbn. now apply nth_upd_nth_same. }
  match goal with |- context [fold_left ?F ?out ?w1] =>
    destruct (syn_only_flush_fold (f k) c out w1 c (g (f k)) H2) as (k' & G' & E) end.
  exists k'. split; [exact G'|].
  assert (P : forall h, server_entry h (g (f k)) = false).
  { intros h. unfold server_entry, g, f. cbn [k_srv set_sys k_sys S.other].
    destruct (k_srv k) as [[[d0 l] p]|]; [|reflexivity].
    assert (E0 : has_sk (S.set_wire (S.deliver1 (k_sys k) S.B S.PRst) []) S.B = false).
    { unfold has_sk, S.deliver1, S.recv_ep. cbn. destruct (S.lo (k_sys k)); reflexivity. }
    rewrite E0. apply andb_false_r. }
  destruct E as [->| ->]; [exact P|]. intros h. apply (P h).
Qed.
