(* TV.Conn.Tokens — conservation of SYN tokens.  In the code a `Syn { ack }` value is
   moved from the link to the listener's queue and consumed by exactly one accept
   (Rust ownership).  The model represents it by the connection id; this file proves
   that the model never duplicates it: every connection id occurs at most once in the
   links, matured queues, loopback queues and listener queues together, and only while
   no server-side stream exists for it.  Hence no connection is accepted twice. *)
From TV.Lib Require Import Base.
From TV.Stream Require Import Model Refs.
From TV.Conn Require Import Model Facts C12_proofs.
Close Scope N_scope.

(* ---- counting ---------------------------------------------------------------------- *)

Definition cnt (c : N) (l : list N) : nat := count_occ N.eq_dec l c.

Global Arguments cnt : simpl never.

Lemma cnt_app c a b : cnt c (a ++ b) = cnt c a + cnt c b.
Proof. apply count_occ_app. Qed.
Lemma cnt_nil c : cnt c [] = 0.
Proof. reflexivity. Qed.
Lemma cnt_in c l : 1 <= cnt c l <-> In c l.
Proof. unfold cnt. split; intros H; [apply (count_occ_In N.eq_dec)|apply (count_occ_In N.eq_dec) in H]; lia. Qed.

Fixpoint sumn {T} (f : T -> nat) (l : list T) : nat :=
  match l with [] => 0 | x :: r => f x + sumn f r end.

Lemma cnt_flat_map {T} (g : T -> list N) c l : cnt c (flat_map g l) = sumn (fun x => cnt c (g x)) l.
Proof. induction l as [|x l IH]; cbn [flat_map sumn]; [reflexivity|]. rewrite cnt_app, IH. reflexivity. Qed.

Lemma sumn_app {T} (f : T -> nat) a b : sumn f (a ++ b) = sumn f a + sumn f b.
Proof. induction a as [|x a IH]; cbn; [reflexivity|]. rewrite IH. lia. Qed.

Lemma sumn_map_le {T} (f : T -> nat) (h : T -> T) l :
  (forall x, f (h x) <= f x) -> sumn f (map h l) <= sumn f l.
Proof. intros H. induction l as [|x l IH]; cbn; [lia|]. specialize (H x). lia. Qed.

Lemma sumn_upd_nth {T} (f : T -> nat) n g l x :
  nth_error l n = Some x -> sumn f (upd_nth n g l) + f x = sumn f l + f (g x).
Proof.
  revert n; induction l as [|y l IH]; intros [|n] H; cbn in *; try discriminate.
  - injection H as ->. lia.
  - specialize (IH n H). lia.
Qed.

Lemma sumn_upd_nth_le {T} (f : T -> nat) n g l d :
  (forall x, f (g x) <= f x + d) -> sumn f (upd_nth n g l) <= sumn f l + d.
Proof.
  intros H. revert n; induction l as [|y l IH]; intros [|n]; cbn; try lia.
  - specialize (H y). lia.
  - specialize (IH n). lia.
Qed.

Lemma sumn_upd_first_le {T} (f : T -> nat) p g l d :
  (forall x, f (g x) <= f x + d) -> sumn f (upd_first p g l) <= sumn f l + d.
Proof.
  intros H. induction l as [|y l IH]; cbn; [lia|]. destruct (p y); cbn; [specialize (H y); lia|lia].
Qed.

Lemma sumn_filter_le {T} (f : T -> nat) p l : sumn f (filter p l) <= sumn f l.
Proof. induction l as [|y l IH]; cbn; [lia|]. destruct (p y); cbn; lia. Qed.

(* ---- where SYN tokens live ------------------------------------------------------------- *)

Definition syn_cid (m : wmsg) : list N := match m_body m with WSyn => [m_cid m] | _ => [] end.
Definition syns (l : list wmsg) : list N := flat_map syn_cid l.
Definition link_toks (l : link) : list N := syns (l_sent l) ++ syns (l_rdy_a l) ++ syns (l_rdy_b l).
Definition bind_toks (pb : N * bindrec) : list N := map fst (b_deque (snd pb)).
Definition host_toks (hs : hoststate) : list N := syns (h_loopq hs) ++ flat_map bind_toks (h_binds hs).
Definition toks (w : world) : list N := flat_map link_toks (w_links w) ++ flat_map host_toks (w_hosts w).
Definition tokc (c : N) (w : world) : nat := cnt c (toks w).

Lemma syns_app a b : syns (a ++ b) = syns a ++ syns b.
Proof. apply flat_map_app. Qed.
Lemma syns_cons m l : syns (m :: l) = syn_cid m ++ syns l.
Proof. reflexivity. Qed.
Lemma syns_one m : syns [m] = syn_cid m.
Proof. unfold syns. cbn. apply app_nil_r. Qed.
Lemma syns_nil : syns [] = [].
Proof. reflexivity. Qed.
Global Arguments syns : simpl never.

Lemma tokc_eq c w :
  tokc c w = sumn (fun l => cnt c (link_toks l)) (w_links w) + sumn (fun hs => cnt c (host_toks hs)) (w_hosts w).
Proof. unfold tokc, toks. now rewrite cnt_app, !cnt_flat_map. Qed.


Lemma cnt_syns_filter c p l : cnt c (syns (filter p l)) <= cnt c (syns l).
Proof.
  induction l as [|m l IH]; cbn [filter]; [lia|]. destruct (p m); rewrite ?syns_cons, ?cnt_app; lia.
Qed.

(* no server-side stream exists for connection c *)
Definition srv_none (w : world) (c : N) : Prop := nth_error (srvs w) (nat_of c) = Some None.

(* every token at most once (counting also a list P of tokens taken off the network and
   not yet processed), and only for connections without a server-side stream *)
Definition tok_inv (w : world) (P : list N) : Prop :=
  (forall c, cnt c P + tokc c w <= 1) /\ (forall c, 1 <= cnt c P + tokc c w -> srv_none w c).

Lemma tok_inv_mono w w' P P' :
  tok_inv w P -> srvs w' = srvs w ->
  (forall c, cnt c P' + tokc c w' <= cnt c P + tokc c w) -> tok_inv w' P'.
Proof.
  intros [H1 H2] Hs Hle. split.
  - intros c. specialize (H1 c). specialize (Hle c). lia.
  - intros c Hc. unfold srv_none. rewrite Hs. apply H2. specialize (Hle c). lia.
Qed.

(* ---- helpers never create tokens ----------------------------------------------------------- *)

Lemma tokc_upd_conn c w c' f : tokc c (upd_conn w c' f) = tokc c w.
Proof. reflexivity. Qed.

Lemma tokc_syn_gone c w m : tokc c (syn_gone w m) = tokc c w.
Proof. unfold syn_gone. destruct (m_body m); reflexivity. Qed.

Lemma syn_cid_set_parked m b : syn_cid (set_parked m b) = syn_cid m.
Proof. reflexivity. Qed.

Lemma syns_map_parked b l : syns (map (fun m => set_parked m b) l) = syns l.
Proof. induction l as [|m l IH]; [reflexivity|]. cbn [map]. rewrite !syns_cons, IH. reflexivity. Qed.

Lemma syns_unpark_at ks : forall l i, syns (unpark_at i ks l) = syns l.
Proof.
  induction l as [|m l IH]; intros i; [reflexivity|]. cbn [unpark_at]. rewrite !syns_cons, IH.
  destruct (existsb _ ks); reflexivity.
Qed.

Lemma filter_split_cnt c (p : wmsg -> bool) l :
  cnt c (syns (filter p l)) + cnt c (syns (filter (fun x => negb (p x)) l)) = cnt c (syns l).
Proof.
  induction l as [|x l IH]; cbn [filter]; [rewrite syns_nil; reflexivity|].
  destruct (p x); cbn [negb]; rewrite ?syns_cons, ?cnt_app; lia.
Qed.

Lemma two_filters_cnt c (fa fb : wmsg -> bool) m :
  cnt c (syns (filter fa m)) + cnt c (syns (filter (fun x => negb (fa x) && fb x) m)) <= cnt c (syns m).
Proof.
  induction m as [|x m IH]; cbn [filter]; [rewrite syns_nil; change (cnt c []) with 0; lia|].
  destruct (fa x); cbn [negb andb]; [|destruct (fb x)]; rewrite ?syns_cons, ?cnt_app; lia.
Qed.

Lemma flow_link_le c w l : cnt c (link_toks (flow_link w l)) <= cnt c (link_toks l).
Proof.
  unfold flow_link, link_toks. cbn [l_sent l_rdy_a l_rdy_b set_rdys set_sent]. rewrite !syns_app, !cnt_app.
  pose proof (filter_split_cnt c m_parked (l_sent l)) as H1.
  pose proof (two_filters_cnt c (to_host w (l_a l)) (to_host w (l_b l)) (filter (fun x => negb (m_parked x)) (l_sent l))) as H2.
  lia.
Qed.

Lemma tokc_link_enqueue c w s d m : tokc c (link_enqueue w s d m) <= tokc c w + cnt c (syn_cid m).
Proof.
  unfold link_enqueue. destruct (find _ _); [|rewrite tokc_syn_gone; lia].
  destruct (cut_from _ _); [rewrite tokc_syn_gone; lia|].
  rewrite !tokc_eq. cbn [w_links w_hosts set_links].
  pose proof (sumn_upd_first_le (fun l => cnt c (link_toks l)) (fun l => on_link l s d)
                (fun l => flow_link w (set_sent l (l_sent l ++ [set_parked m (held_from l s)]))) (w_links w)
                (cnt c (syn_cid m))) as H.
  assert (Hx : forall x, cnt c (link_toks (flow_link w (set_sent x (l_sent x ++ [set_parked m (held_from x s)])))) <=
                         cnt c (link_toks x) + cnt c (syn_cid m)).
  { intros x. eapply Nat.le_trans; [apply flow_link_le|]. unfold link_toks. cbn [l_sent l_rdy_a l_rdy_b set_sent].
    rewrite syns_app, syns_one, syn_cid_set_parked, !cnt_app. lia. }
  specialize (H Hx). lia.
Qed.

Lemma fold_syn_gone_tok (l : list wmsg) : forall w c, tokc c (fold_left syn_gone l w) = tokc c w.
Proof. induction l as [|m l IH]; intros w c; cbn; [reflexivity|]. rewrite IH. apply tokc_syn_gone. Qed.

Lemma rand_link_le c w l : cnt c (link_toks (fst (rand_link w l))) <= cnt c (link_toks l).
Proof.
  unfold rand_link. destruct (l_coins l) as [|[rp rr] cs]; [cbn [fst]; lia|].
  destruct ((healthy_ab l || healthy_ba l) && rp); [|destruct ((l_rand_ab l || l_rand_ba l) && rr)];
    unfold link_toks; cbn [fst l_sent l_rdy_a l_rdy_b set_sent set_rands set_cuts set_coins]; rewrite ?cnt_app; try lia.
  pose proof (cnt_syns_filter c (fun m => negb (breaks w l m)) (l_sent l)). lia.
Qed.

Lemma tokc_rand_send c w s d : tokc c (rand_send w s d) <= tokc c w.
Proof.
  unfold rand_send. destruct (find _ _) as [l0|] eqn:Hf; [|lia]. rewrite fold_syn_gone_tok.
  rewrite !tokc_eq. cbn [w_links w_hosts set_links].
  (* the link that is replaced is the first one on the pair, i.e. l0 itself *)
  assert (G : forall ls, find (fun l => on_link l s d) ls = Some l0 ->
            sumn (fun l => cnt c (link_toks l)) (upd_first (fun l => on_link l s d) (fun _ => fst (rand_link w l0)) ls)
            <= sumn (fun l => cnt c (link_toks l)) ls).
  { induction ls as [|y ls IH]; intros Hf'; cbn in *; [discriminate|].
    destruct (on_link y s d); cbn.
    - injection Hf' as ->. pose proof (rand_link_le c w l0). lia.
    - specialize (IH Hf'). lia. }
  specialize (G _ Hf). lia.
Qed.

Lemma tokc_link_send c w s d m : tokc c (link_send w s d m) <= tokc c w + cnt c (syn_cid m).
Proof.
  unfold link_send. eapply Nat.le_trans; [apply tokc_link_enqueue|]. pose proof (tokc_rand_send c w s d). lia.
Qed.

Lemma tokc_loop_send c w h m : tokc c (loop_send w h m) <= tokc c w + cnt c (syn_cid m).
Proof.
  unfold loop_send, upd_host. rewrite !tokc_eq. cbn [w_links w_hosts set_hosts].
  pose proof (sumn_upd_nth_le (fun hs => cnt c (host_toks hs)) (nat_of h)
                (fun hs => set_loopq hs (h_loopq hs ++ [m])) (w_hosts w) (cnt c (syn_cid m))) as H.
  assert (Hx : forall x, cnt c (host_toks (set_loopq x (h_loopq x ++ [m]))) <= cnt c (host_toks x) + cnt c (syn_cid m)).
  { intros x. unfold host_toks. cbn [h_loopq h_binds set_loopq]. rewrite syns_app, syns_one, !cnt_app. lia. }
  specialize (H Hx). lia.
Qed.

Lemma cnt_syn_seg c c' sd p pk : cnt c (syn_cid {| m_cid := c'; m_body := WSeg sd p; m_parked := pk |}) = 0.
Proof. reflexivity. Qed.

Lemma tokc_flush c w c' : tokc c (flush w c') <= tokc c w.
Proof.
  unfold flush. destruct (get_conn w c') as [k|]; [|lia].
  match goal with |- tokc c (fold_left ?f ?out ?w1) <= _ => change (tokc c w) with (tokc c w1); generalize w1 end.
  induction (S.wire (k_sys k)) as [|sp out IH]; intros w1; cbn [fold_left]; [lia|].
  eapply Nat.le_trans; [apply IH|].
  destruct (S.lo (k_sys k)).
  - eapply Nat.le_trans; [apply tokc_loop_send|]. rewrite cnt_syn_seg. lia.
  - destruct (msg_src _ _); [|lia]. destruct (msg_dst _ _); [|lia].
    eapply Nat.le_trans; [apply tokc_link_send|]. rewrite cnt_syn_seg. lia.
Qed.

(* ---- the listener queues --------------------------------------------------------------------- *)

Lemma upd_binds_notin port f bs : ~ In port (map fst bs) -> upd_binds port f bs = bs.
Proof.
  unfold upd_binds. induction bs as [|[p b] bs IH]; cbn; [reflexivity|]. intros H.
  destruct (N.eqb_spec p port) as [->|Hne]; [tauto|]. f_equal. apply IH. tauto.
Qed.

Lemma sumn_upd_binds (f : N * bindrec -> nat) port G bs b :
  NoDup (map fst bs) -> In (port, b) bs ->
  sumn f (upd_binds port G bs) + f (port, b) = sumn f bs + f (port, G b).
Proof.
  induction bs as [|[p b0] bs IH]; cbn; [tauto|]. intros Hnd Hin. inversion Hnd as [|? ? Hn Hd]; subst.
  destruct Hin as [[= -> ->]|Hin].
  - rewrite N.eqb_refl. cbn. fold (upd_binds port G bs). rewrite upd_binds_notin by exact Hn. lia.
  - destruct (N.eqb_spec p port) as [->|Hne].
    + exfalso. apply Hn. apply (in_map fst) in Hin. exact Hin.
    + cbn. fold (upd_binds port G bs). specialize (IH Hd Hin). lia.
Qed.

Lemma tokc_upd_bind c w h hs port b G :
  bp_ok (bindss w) -> get_host w h = Some hs -> In (port, b) (h_binds hs) ->
  tokc c (upd_host w h (fun hs' => upd_bind hs' port G)) + cnt c (bind_toks (port, b)) =
  tokc c w + cnt c (bind_toks (port, G b)).
Proof.
  intros Hbp Hh Hin. rewrite !tokc_eq. unfold upd_host. cbn [w_links w_hosts set_hosts].
  pose proof (sumn_upd_nth (fun hs0 => cnt c (host_toks hs0)) (nat_of h) (fun hs' => upd_bind hs' port G)
                (w_hosts w) hs Hh) as E. cbn beta in E.
  assert (F1 : cnt c (host_toks hs) =
               cnt c (syns (h_loopq hs)) + sumn (fun pb => cnt c (bind_toks pb)) (h_binds hs)).
  { unfold host_toks. now rewrite cnt_app, cnt_flat_map. }
  assert (F2 : cnt c (host_toks (upd_bind hs port G)) =
               cnt c (syns (h_loopq hs)) + sumn (fun pb => cnt c (bind_toks pb)) (upd_binds port G (h_binds hs))).
  { unfold host_toks. cbn [h_loopq h_binds upd_bind set_binds]. fold (upd_binds port G (h_binds hs)).
    now rewrite cnt_app, cnt_flat_map. }
  pose proof (sumn_upd_binds (fun pb => cnt c (bind_toks pb)) port G (h_binds hs) b
                (Hbp _ _ (get_host_binds _ _ _ Hh)) Hin) as E2. cbn beta in E2.
  lia.
Qed.

Lemma srvs_syn_arrive w d c : srvs (fst (syn_arrive w d c)) = srvs w.
Proof.
  unfold syn_arrive. destruct (get_conn w c) as [k|]; [|reflexivity]. destruct (get_host w d) as [hs|]; [|reflexivity].
  destruct (k_remote k) as [dip dport].
  destruct (negb _); [apply srvs_upd_conn, ks_set_syn|].
  destruct (find_bind hs dport) as [b|]; [|apply srvs_upd_conn, ks_set_syn].
  destruct (Nat.eqb _ _); [reflexivity|].
  destruct (bind_matches _ _); cbn [fst]; rewrite srvs_upd_conn by apply ks_set_syn; reflexivity.
Qed.

Lemma tokc_syn_arrive c w d c' : winv w -> tokc c (fst (syn_arrive w d c')) <= tokc c w + cnt c [c'].
Proof.
  intros H. unfold syn_arrive. destruct (get_conn w c') as [k|]; [|cbn; lia]. destruct (get_host w d) as [hs|] eqn:Hh; [|cbn; lia].
  destruct (k_remote k) as [dip dport].
  destruct (negb _); [cbn [fst]; rewrite tokc_upd_conn; lia|].
  destruct (find_bind hs dport) as [b|] eqn:Hf; [|cbn [fst]; rewrite tokc_upd_conn; lia].
  destruct (Nat.eqb _ _); [cbn; lia|].
  destruct (bind_matches _ _); cbn [fst]; rewrite tokc_upd_conn; [|lia].
  pose proof (tokc_upd_bind c w d hs dport b (fun b' => push_syn b' c' (k_local k)) (i_bp _ H) Hh (find_bind_in _ _ _ Hf)) as E.
  unfold bind_toks in E. cbn in E. rewrite map_app, cnt_app in E. cbn in E. lia.
Qed.

Lemma srvs_flush w c : srvs (flush w c) = srvs w.
Proof. apply (f_srv _ _ (frame_flush w c)). Qed.

Lemma deliver_msg_tok c w d m :
  winv w -> tokc c (fst (deliver_msg w d m)) <= tokc c w + cnt c (syn_cid m) /\
            srvs (fst (deliver_msg w d m)) = srvs w.
Proof.
  intros H. unfold deliver_msg, syn_cid. destruct (m_body m) as [|sd p].
  - split; [now apply tokc_syn_arrive|apply srvs_syn_arrive].
  - cbn [fst]. split.
    + eapply Nat.le_trans; [apply tokc_flush|]. rewrite tokc_upd_conn. cbn. lia.
    + rewrite srvs_flush. apply srvs_upd_conn, ks_set_sys.
Qed.

Lemma deliver_msgs_tok l : forall c w d,
  winv w -> tokc c (fst (deliver_msgs w d l)) <= tokc c w + cnt c (syns l) /\
            srvs (fst (deliver_msgs w d l)) = srvs w.
Proof.
  induction l as [|m l IH]; intros c w d H; cbn [deliver_msgs]; [cbn; split; [lia|reflexivity]|].
  pose proof (deliver_msg_tok c w d m H) as [D1 D2]. pose proof (deliver_msg_winv w d m H) as H1.
  destruct (deliver_msg w d m) as [w1 p1]. cbn [fst] in *.
  destruct (IH c w1 d H1) as [I1 I2]. destruct (deliver_msgs w1 d l) as [w2 p2]. cbn [fst] in *.
  rewrite syns_cons, cnt_app. split; [lia|congruence].
Qed.

Lemma deliver_msgs_inv l w d P :
  winv w -> tok_inv w (syns l ++ P) -> tok_inv (fst (deliver_msgs w d l)) P.
Proof.
  intros H Ht. eapply tok_inv_mono; [exact Ht| |].
  - apply (deliver_msgs_tok l 0%N w d H).
  - intros c. destruct (deliver_msgs_tok l c w d H) as [D _]. rewrite cnt_app. lia.
Qed.

(* ---- network events ------------------------------------------------------------------------------ *)

Lemma tokc_set_links_map c w g :
  (forall l, cnt c (link_toks (g l)) <= cnt c (link_toks l)) ->
  tokc c (set_links w (map g (w_links w))) <= tokc c w.
Proof.
  intros H. rewrite !tokc_eq. cbn [w_links w_hosts set_links].
  pose proof (sumn_map_le (fun l => cnt c (link_toks l)) g (w_links w) H). lia.
Qed.

Lemma on_pair_tok w a b f :
  (forall c l, cnt c (link_toks (f l)) <= cnt c (link_toks l)) -> tok_inv w [] -> tok_inv (on_pair w a b f) [].
Proof.
  intros Hf H. eapply tok_inv_mono; [exact H|reflexivity|]. intros c. unfold on_pair.
  pose proof (tokc_set_links_map c w (fun l => if on_link l a b then f l else l)) as G.
  assert (forall l, cnt c (link_toks (if on_link l a b then f l else l)) <= cnt c (link_toks l))
    by (intros l; destruct (on_link l a b); [apply Hf|lia]).
  specialize (G H0). lia.
Qed.

Lemma mature_tok w a b ks : tok_inv w [] -> tok_inv (do_mature w a b ks) [].
Proof.
  apply on_pair_tok. intros c l. unfold link_toks. cbn [l_sent l_rdy_a l_rdy_b set_sent]. rewrite syns_unpark_at. lia.
Qed.

Lemma hold_tok w a b : tok_inv w [] -> tok_inv (do_hold w a b) [].
Proof.
  apply on_pair_tok. intros c l. unfold link_toks. cbn [l_sent l_rdy_a l_rdy_b set_sent set_helds set_cuts set_rands].
  rewrite syns_map_parked. lia.
Qed.

Lemma release_tok w a b : tok_inv w [] -> tok_inv (do_release w a b) [].
Proof.
  apply on_pair_tok. intros c l. unfold link_toks. cbn [l_sent l_rdy_a l_rdy_b set_sent set_helds set_cuts set_rands].
  rewrite syns_map_parked. lia.
Qed.

Lemma repair_tok w a b : tok_inv w [] -> tok_inv (do_repair w a b) [].
Proof. apply on_pair_tok. intros c l. unfold link_toks. cbn [l_sent l_rdy_a l_rdy_b set_helds set_cuts set_rands]. lia. Qed.

Lemma repair_one_tok w a b : tok_inv w [] -> tok_inv (do_repair_one w a b) [].
Proof.
  apply on_pair_tok. intros c l. destruct (N.eqb a (l_a l)); unfold link_toks;
    cbn [l_sent l_rdy_a l_rdy_b set_helds set_cuts set_rands]; lia.
Qed.

Lemma coins_tok w a b cs : tok_inv w [] -> tok_inv (do_coins w a b cs) [].
Proof. apply on_pair_tok. intros c l. unfold link_toks. cbn [l_sent l_rdy_a l_rdy_b set_coins]. lia. Qed.

Lemma tick_tok w : tok_inv w [] -> tok_inv (do_tick w) [].
Proof.
  intros H. eapply tok_inv_mono; [exact H|reflexivity|]. intros c. unfold do_tick.
  pose proof (tokc_set_links_map c w (flow_link w) (fun l => flow_link_le c w l)). lia.
Qed.

Lemma fold_syn_gone_srvs (l : list wmsg) : forall w, srvs (fold_left syn_gone l w) = srvs w.
Proof.
  induction l as [|m l IH]; intros w; cbn; [reflexivity|]. rewrite IH. apply (f_srv _ _ (frame_syn_gone w m)).
Qed.

Lemma partition_tok w a b ow : tok_inv w [] -> tok_inv (do_partition w a b ow) [].
Proof.
  intros H. unfold do_partition. destruct (find _ _) as [l0|]; [|exact H].
  eapply tok_inv_mono; [exact H| |].
  - rewrite fold_syn_gone_srvs. reflexivity.
  - intros c. rewrite fold_syn_gone_tok.
    match goal with |- _ + tokc c (set_links w (map ?g _)) <= _ => pose proof (tokc_set_links_map c w g) as G end.
    match type of G with (?A -> _) => assert (Hx : A) end.
    { intros l. destruct (on_link l a b); [|lia]. destruct ow.
      - unfold link_toks. destruct (N.eqb a (l_a l)); cbn [l_sent l_rdy_a l_rdy_b set_sent set_cuts set_helds set_rands];
          rewrite !cnt_app; pose proof (cnt_syns_filter c (fun m => negb (from_host w a m)) (l_sent l)); lia.
      - unfold link_toks. cbn [l_sent l_rdy_a l_rdy_b set_sent set_cuts set_helds set_rands]. rewrite !cnt_app, syns_nil. change (cnt c []) with 0. lia. }
    specialize (G Hx). lia.
Qed.

(* ---- delivery at a host ----------------------------------------------------------------------------- *)

Lemma tokc_set_links_nth c w n g l :
  nth_error (w_links w) n = Some l ->
  tokc c (set_links w (upd_nth n g (w_links w))) + cnt c (link_toks l) = tokc c w + cnt c (link_toks (g l)).
Proof.
  intros H. rewrite !tokc_eq. cbn [w_links w_hosts set_links].
  pose proof (sumn_upd_nth (fun l0 => cnt c (link_toks l0)) n g (w_links w) l H). cbn beta in *. lia.
Qed.

Lemma drain_links_inv n : forall w h,
  winv w -> tok_inv w [] -> winv (fst (drain_links w h n)) /\ tok_inv (fst (drain_links w h n)) [].
Proof.
  induction n as [|n IH]; intros w h H Ht; cbn [drain_links]; [cbn; auto|].
  destruct (IH w h H Ht) as [H1 T1]. destruct (drain_links w h n) as [w1 p1]. cbn [fst] in *.
  destruct (nth_error (w_links w1) n) as [l|] eqn:En; [|cbn; auto].
  destruct (N.eqb (l_a l) h).
  - set (w2 := set_links w1 (upd_nth n (fun l' => set_rdys l' [] (l_rdy_b l')) (w_links w1))).
    assert (H2 : winv w2) by (eapply winv_frame; [apply frame_set_links|exact H1]).
    assert (T2 : tok_inv w2 (syns (l_rdy_a l) ++ [])).
    { eapply tok_inv_mono; [exact T1|reflexivity|]. intros c.
      pose proof (tokc_set_links_nth c w1 n (fun l' => set_rdys l' [] (l_rdy_b l')) l En) as E.
      unfold link_toks in E. cbn [l_sent l_rdy_a l_rdy_b set_rdys] in E. rewrite !cnt_app, syns_nil in E.
      rewrite app_nil_r. cbn [cnt] in *. change (cnt c []) with 0 in *. fold w2 in E. lia. }
    pose proof (deliver_msgs_winv (l_rdy_a l) w2 h H2) as D1.
    pose proof (deliver_msgs_inv (l_rdy_a l) w2 h [] H2 T2) as D2.
    destruct (deliver_msgs w2 h (l_rdy_a l)) as [w3 p3]. cbn [fst] in *. auto.
  - destruct (N.eqb (l_b l) h); [|cbn; auto].
    set (w2 := set_links w1 (upd_nth n (fun l' => set_rdys l' (l_rdy_a l') []) (w_links w1))).
    assert (H2 : winv w2) by (eapply winv_frame; [apply frame_set_links|exact H1]).
    assert (T2 : tok_inv w2 (syns (l_rdy_b l) ++ [])).
    { eapply tok_inv_mono; [exact T1|reflexivity|]. intros c.
      pose proof (tokc_set_links_nth c w1 n (fun l' => set_rdys l' (l_rdy_a l') []) l En) as E.
      unfold link_toks in E. cbn [l_sent l_rdy_a l_rdy_b set_rdys] in E. rewrite !cnt_app, syns_nil in E.
      rewrite app_nil_r. change (cnt c []) with 0 in *. fold w2 in E. lia. }
    pose proof (deliver_msgs_winv (l_rdy_b l) w2 h H2) as D1.
    pose proof (deliver_msgs_inv (l_rdy_b l) w2 h [] H2 T2) as D2.
    destruct (deliver_msgs w2 h (l_rdy_b l)) as [w3 p3]. cbn [fst] in *. auto.
Qed.

Lemma tokc_upd_host_nth c w h f hs :
  get_host w h = Some hs ->
  tokc c (upd_host w h f) + cnt c (host_toks hs) = tokc c w + cnt c (host_toks (f hs)).
Proof.
  intros H. rewrite !tokc_eq. unfold upd_host. cbn [w_links w_hosts set_hosts].
  pose proof (sumn_upd_nth (fun hs0 => cnt c (host_toks hs0)) (nat_of h) f (w_hosts w) hs H). cbn beta in *. lia.
Qed.

Lemma tokc_upd_host_same c w h f :
  (forall hs, host_toks (f hs) = host_toks hs) -> tokc c (upd_host w h f) = tokc c w.
Proof.
  intros H. rewrite !tokc_eq. unfold upd_host. cbn [w_links w_hosts set_hosts]. f_equal.
  generalize (nat_of h). induction (w_hosts w) as [|y l IH]; intros [|n]; cbn; auto. now rewrite H.
Qed.

Lemma loop_step_inv w h :
  winv w -> tok_inv w [] -> tok_inv (fst (do_loop_step w h)) [].
Proof.
  intros H Ht. unfold do_loop_step. destruct (get_host w h) as [hs|] eqn:Hh; [|exact Ht].
  set (w1 := upd_host w h (fun hs' => set_loopq hs' (skipn (h_lmark hs) (h_loopq hs')))).
  assert (H1 : winv w1) by (eapply winv_frame; [apply frame_upd_host; reflexivity|exact H]).
  assert (T1 : tok_inv w1 (syns (firstn (h_lmark hs) (h_loopq hs)) ++ [])).
  { eapply tok_inv_mono; [exact Ht|reflexivity|]. intros c.
    pose proof (tokc_upd_host_nth c w h (fun hs' => set_loopq hs' (skipn (h_lmark hs) (h_loopq hs'))) hs Hh) as E.
    unfold host_toks in E. cbn [h_loopq h_binds set_loopq] in E. rewrite !cnt_app in E.
    assert (Es : cnt c (syns (h_loopq hs)) =
                 cnt c (syns (firstn (h_lmark hs) (h_loopq hs))) + cnt c (syns (skipn (h_lmark hs) (h_loopq hs)))).
    { rewrite <- cnt_app, <- syns_app, firstn_skipn. reflexivity. }
    rewrite app_nil_r. change (cnt c []) with 0. fold w1 in E. lia. }
  pose proof (deliver_msgs_winv (firstn (h_lmark hs) (h_loopq hs)) w1 h H1) as D1.
  pose proof (deliver_msgs_inv (firstn (h_lmark hs) (h_loopq hs)) w1 h [] H1 T1) as D2.
  destruct (deliver_msgs w1 h (firstn (h_lmark hs) (h_loopq hs))) as [w2 p2]. cbn [fst] in *.
  eapply tok_inv_mono; [exact D2|reflexivity|]. intros c.
  rewrite tokc_upd_host_same by reflexivity. lia.
Qed.

(* ---- application-level events ---------------------------------------------------------------------- *)

Lemma poll_tok w c : tok_inv w [] -> tok_inv (fst (do_poll w c)) [].
Proof.
  intros H. unfold do_poll. destruct (get_conn w c) as [k|]; [|exact H].
  destruct (k_fut k); try exact H. destruct (k_syn k); try exact H; cbn [fst];
    (eapply tok_inv_mono; [exact H| |intros c0; rewrite tokc_upd_conn; lia]); apply srvs_upd_conn.
  - apply (ks_set_fut (fun k => k)), ks_id.
  - apply ks_set_fut, ks_kill.
Qed.

Lemma cancel_tok w c : tok_inv w [] -> tok_inv (fst (do_cancel w c)) [].
Proof.
  intros H. unfold do_cancel. destruct (get_conn w c) as [k|]; [|exact H].
  destruct (k_fut k); try exact H. cbn [fst].
  eapply tok_inv_mono; [exact H| |].
  - unfold send_abandon_rst. destruct (S.lo (k_sys k));
      [rewrite (f_srv _ _ (frame_loop_send _ _ _))|destruct (k_dhost k); [rewrite (f_srv _ _ (frame_link_send _ _ _ _))|]];
      apply srvs_upd_conn, ks_set_fut, ks_kill.
  - intros c0. unfold send_abandon_rst. destruct (S.lo (k_sys k)).
    + eapply Nat.le_trans; [apply Nat.add_le_mono_l, tokc_loop_send|]. rewrite cnt_syn_seg, tokc_upd_conn. lia.
    + destruct (k_dhost k); [|rewrite tokc_upd_conn; lia].
      eapply Nat.le_trans; [apply Nat.add_le_mono_l, tokc_link_send|]. rewrite cnt_syn_seg, tokc_upd_conn. lia.
Qed.

Lemma stream_op_tok w h sid e : tok_inv w [] -> tok_inv (fst (stream_op w h sid e)) [].
Proof.
  intros H. unfold stream_op. destruct (find_stream w h sid) as [[c x]|]; [|exact H].
  destruct (get_conn w c) as [k|]; [|exact H].
  match goal with |- context [if ?b then _ else _] => destruct b end; [|exact H].
  destruct (S.step (k_sys k) e) as [s' r]. cbn [fst].
  eapply tok_inv_mono; [exact H| |].
  - rewrite srvs_flush. apply srvs_upd_conn. apply (ks_set_sys (fun _ => s')).
  - intros c0. eapply Nat.le_trans; [apply Nat.add_le_mono_l, tokc_flush|]. rewrite tokc_upd_conn. lia.
Qed.

Lemma bind_tok w h lid bip port : tok_inv w [] -> tok_inv (fst (do_bind w h lid bip port)) [].
Proof.
  intros H. unfold do_bind. destruct (get_host w h) as [hs|] eqn:Hh; [|exact H].
  match goal with |- context [match ?pk with Some _ => _ | None => _ end] => destruct pk as [[p cur]|] end; [|exact H].
  destruct (existsb _ _); cbn [fst].
  - eapply tok_inv_mono; [exact H|reflexivity|]. intros c. rewrite tokc_upd_host_same by reflexivity. lia.
  - eapply tok_inv_mono; [exact H|reflexivity|]. intros c.
    rewrite tokc_upd_host_same; [rewrite tokc_upd_host_same by reflexivity; lia|].
    intros hs0. unfold host_toks. cbn [h_loopq h_binds set_binds]. rewrite flat_map_app. cbn. now rewrite !app_nil_r.
Qed.

Lemma drop_listener_tok w h lid : tok_inv w [] -> tok_inv (fst (do_drop_listener w h lid)) [].
Proof.
  intros H. unfold do_drop_listener. destruct (get_host w h) as [hs|] eqn:Hh; [|exact H].
  destruct (find_lid hs lid) as [[port b]|]; [|exact H]. cbn [fst].
  match goal with |- tok_inv (fold_left ?f ?l ?w1) [] =>
    assert (G : forall l0 w0, (forall c, tokc c (fold_left f l0 w0) = tokc c w0) /\ srvs (fold_left f l0 w0) = srvs w0) end.
  { induction l0 as [|co l0 IH]; intros w0; cbn [fold_left]; [auto|].
    destruct (IH (upd_conn w0 (fst co) (fun k => set_syn k SynGone))) as [I1 I2]. split.
    - intros c. rewrite I1. apply tokc_upd_conn.
    - rewrite I2. apply srvs_upd_conn, ks_set_syn. }
  match goal with |- tok_inv (fold_left ?f ?l ?w1) [] => destruct (G l w1) as [G1 G2] end.
  eapply tok_inv_mono; [exact H|rewrite G2; reflexivity|]. intros c. rewrite G1.
  rewrite !tokc_eq. unfold upd_host. cbn [w_links w_hosts set_hosts].
  pose proof (sumn_upd_nth_le (fun hs0 => cnt c (host_toks hs0)) (nat_of h)
                (fun hs' => set_binds hs' (filter (fun pb => negb (N.eqb (fst pb) port)) (h_binds hs'))) (w_hosts w) 0) as L.
  assert (Hx : forall x, cnt c (host_toks (set_binds x (filter (fun pb => negb (N.eqb (fst pb) port)) (h_binds x)))) <=
                         cnt c (host_toks x) + 0).
  { intros x. unfold host_toks. cbn [h_loopq h_binds set_binds]. rewrite !cnt_app, !cnt_flat_map.
    pose proof (sumn_filter_le (fun pb => cnt c (bind_toks pb)) (fun pb => negb (N.eqb (fst pb) port)) (h_binds x)). lia. }
  specialize (L Hx). lia.
Qed.

Lemma srvs_len w : length (srvs w) = length (w_conns w).
Proof. unfold srvs. apply map_length. Qed.

Lemma connect_tok w h sid dst : tok_inv w [] -> tok_inv (fst (do_connect w h sid dst)) [].
Proof.
  intros [T1 T2]. unfold do_connect. destruct (assign_port w h) as [[port cur]|]; [|split; auto].
  destruct dst as [dip dport].
  set (c := N.of_nat (length (w_conns w))).
  cbn [upd_host set_hosts w_conns w_streams].
  match goal with |- context [set_streams (set_conns ?w1 (?cs ++ [?k0])) ?st] =>
    set (k := k0) in *; set (w2 := set_streams (set_conns w1 (cs ++ [k])) st) in * end.
  assert (S2 : srvs w2 = srvs w ++ [None]).
  { unfold srvs, w2. cbn [w_conns set_streams set_conns]. now rewrite map_app. }
  assert (K2 : forall c0, tokc c0 w2 = tokc c0 w).
  { intros c0. transitivity (tokc c0 (upd_host w h (fun hs => set_cursor hs cur))); [reflexivity|].
    apply tokc_upd_host_same. reflexivity. }
  assert (Hc0 : tokc c w = 0).
  { destruct (tokc c w) eqn:E; [reflexivity|]. exfalso.
    assert (Hs : srv_none w c) by (apply T2; cbn; lia). unfold srv_none, c in Hs.
    assert (nth_error (srvs w) (nat_of (N.of_nat (length (w_conns w)))) = None).
    { apply nth_error_None. rewrite srvs_len, nat_of_len. lia. }
    congruence. }
  match goal with |- context [get_conn ?ww c] => set (w3 := ww) in * end.
  assert (S3 : srvs w3 = srvs w2 /\ forall c0, tokc c0 w3 <= tokc c0 w2 + cnt c0 [c]).
  { unfold w3. destruct (is_loop dip || ip_eqb dip (IpHost h)).
    - split; [apply (f_srv _ _ (frame_loop_send _ _ _))|]. intros c0. apply tokc_loop_send.
    - match goal with |- context [match ?dh with Some _ => _ | None => _ end] => destruct dh end.
      + split; [apply (f_srv _ _ (frame_link_send _ _ _ _))|]. intros c0. apply tokc_link_send.
      + split; [apply srvs_upd_conn, ks_set_syn|]. intros c0. rewrite tokc_upd_conn. lia. }
  destruct S3 as [S3 K3].
  assert (T3 : tok_inv w3 []).
  { split.
    - intros c0. cbn [cnt]. change (cnt c0 []) with 0. specialize (K3 c0). rewrite K2 in K3.
      destruct (N.eq_dec c0 c) as [->|Hne].
      + rewrite Hc0 in K3. unfold cnt in K3. cbn in K3. destruct (N.eq_dec c c); [lia|congruence].
      + unfold cnt in K3. cbn in K3. destruct (N.eq_dec c c0); [congruence|]. specialize (T1 c0). cbn in T1. lia.
    - intros c0 Hc. change (cnt c0 []) with 0 in Hc. unfold srv_none. rewrite S3, S2.
      destruct (N.eq_dec c0 c) as [->|Hne].
      + unfold c. rewrite nat_of_len, nth_error_app2 by (rewrite srvs_len; lia). rewrite srvs_len, Nat.sub_diag. reflexivity.
      + specialize (K3 c0). rewrite K2 in K3. unfold cnt in K3 at 1. cbn in K3. destruct (N.eq_dec c c0); [congruence|].
        assert (Hs : srv_none w c0) by (apply T2; cbn; lia). unfold srv_none in Hs.
        rewrite nth_error_app1; [exact Hs|]. apply nth_error_Some. congruence. }
  destruct (get_conn w3 c) as [k3|]; [|exact T3].
  destruct (k_syn k3); cbn [fst]; try exact T3.
  eapply tok_inv_mono; [exact T3| |intros c0; rewrite tokc_upd_conn; lia]. apply srvs_upd_conn, ks_set_fut, ks_kill.
Qed.

Lemma fold_dead_tok (l : list (N * bool)) : forall w0,
  (forall c, tokc c (fold_left (fun (w' : world) (cb : N * bool) =>
                if snd cb then w' else upd_conn w' (fst cb) (fun k => set_syn k SynGone)) l w0) = tokc c w0) /\
  srvs (fold_left (fun (w' : world) (cb : N * bool) =>
                if snd cb then w' else upd_conn w' (fst cb) (fun k => set_syn k SynGone)) l w0) = srvs w0.
Proof.
  induction l as [|cb l IH]; intros w0; cbn [fold_left]; [auto|].
  destruct (snd cb); [apply IH|].
  destruct (IH (upd_conn w0 (fst cb) (fun k => set_syn k SynGone))) as [I1 I2]. split.
  - intros c. rewrite I1. apply tokc_upd_conn.
  - rewrite I2. apply srvs_upd_conn, ks_set_syn.
Qed.

Lemma accept_tok w h lid sid : winv w -> tok_inv w [] -> tok_inv (fst (do_accept w h lid sid)) [].
Proof.
  intros H [T1 T2]. unfold do_accept. destruct (get_host w h) as [hs|] eqn:Hh; [|split; auto].
  destruct (find_lid hs lid) as [[port b]|] eqn:Hl; [|split; auto].
  pose proof (pop_alive_first w (b_deque b)) as Hpf.
  destruct (pop_alive w (b_deque b)) as [[rest pops] acc] eqn:Hp.
  destruct (pop_alive_spec _ _ _ _ _ Hp) as (P1 & P2 & P3).
  pose proof (find_lid_in _ _ _ _ Hl) as Hinb.
  set (G := fun b' : bindrec => {| b_lid := b_lid b'; b_ip := b_ip b'; b_deque := rest; b_arrived := b_arrived b';
                                   b_popped := b_popped b' ++ pops |}).
  set (w1 := upd_host w h (fun hs' => upd_bind hs' port G)).
  assert (K1 : forall c, tokc c w1 + cnt c (map fst pops) = tokc c w).
  { intros c. pose proof (tokc_upd_bind c w h hs port b G (i_bp _ H) Hh Hinb) as E.
    unfold bind_toks in E. cbn [snd b_deque G] in E. fold w1 in E.
    assert (cnt c (map fst (b_deque b)) = cnt c (map fst pops) + cnt c (map fst rest)) by (rewrite P1; apply cnt_app).
    lia. }
  match goal with |- context [fold_left ?f pops w1] =>
    destruct (fold_dead_tok pops w1) as [F1 F2]; set (w2 := fold_left f pops w1) in * end.
  assert (S1 : srvs w1 = srvs w) by reflexivity.
  destruct acc as [[c origin]|]; cbn [fst].
  - (* accepted *)
    destruct Hpf as (pre & Hdq & Hdead & Hal & Hpops).
    assert (Hcp : 1 <= cnt c (map fst pops)).
    { rewrite Hpops, map_app, cnt_app. cbn [map fst]. unfold cnt at 2. cbn. destruct (N.eq_dec c c); [lia|congruence]. }
    cbn [w_accepts set_accepts set_streams].
    match goal with |- tok_inv (set_accepts (set_streams ?w3 ?st) ?ac) [] =>
      assert (K3 : forall c0, tokc c0 (set_accepts (set_streams w3 st) ac) = tokc c0 w2) by reflexivity;
      assert (S3 : forall c0, c0 <> c -> nth_error (srvs (set_accepts (set_streams w3 st) ac)) (nat_of c0) =
                                         nth_error (srvs w2) (nat_of c0)) end.
    { intros c0 Hne. unfold srvs. cbn [w_conns set_accepts set_streams upd_conn set_conns].
      rewrite !nth_error_map, nth_upd_nth_other; [reflexivity|].
      unfold nat_of. intros E. apply N2Nat.inj in E. congruence. }
    split.
    + intros c0. rewrite K3, F1. specialize (K1 c0). specialize (T1 c0). cbn in *. lia.
    + intros c0 Hc0. rewrite K3, F1 in Hc0. change (cnt c0 []) with 0 in Hc0.
      destruct (N.eq_dec c0 c) as [->|Hne].
      * exfalso. specialize (K1 c). specialize (T1 c). cbn in T1. lia.
      * unfold srv_none. rewrite S3, F2, S1 by exact Hne. apply T2. specialize (K1 c0). cbn. lia.
  - (* nobody waits *)
    split.
    + intros c0. rewrite F1. specialize (K1 c0). specialize (T1 c0). cbn in *. lia.
    + intros c0 Hc0. rewrite F1 in Hc0. unfold srv_none. rewrite F2, S1. apply T2. specialize (K1 c0). cbn in *. lia.
Qed.

(* ---- every event preserves the token invariant --------------------------------------------------- *)

Theorem step_tok w e : winv w -> tok_inv w [] -> tok_inv (fst (step w e)) [].
Proof.
  intros H Ht. destruct e; cbn [step].
  - now apply bind_tok.
  - now apply connect_tok.
  - now apply poll_tok.
  - pose proof (poll_tok w c Ht) as T1. destruct (do_poll w c) as [w1 r]. cbn [fst] in T1.
    destruct r; cbn [fst]; auto. now apply cancel_tok.
  - now apply cancel_tok.
  - now apply accept_tok.
  - now apply drop_listener_tok.
  - now apply stream_op_tok.
  - now apply mature_tok.
  - now apply tick_tok.
  - now apply hold_tok.
  - now apply release_tok.
  - now apply repair_one_tok.
  - destruct (drain_links_inv (length (w_links w)) w h H Ht) as [_ D]. unfold panic_res.
    destruct (drain_links w h (length (w_links w))) as [w1 p]. cbn [fst snd] in *. destruct p; exact D.
  - now apply partition_tok.
  - now apply partition_tok.
  - now apply repair_tok.
  - pose proof (loop_step_inv w h H Ht) as D. unfold panic_res.
    destruct (do_loop_step w h) as [w1 p]. cbn [fst snd] in *. destruct p; exact D.
  - exact Ht.
  - exact Ht.
  - now apply coins_tok.
Qed.

Lemma flat_map_nil {A B} (f : A -> list B) l : (forall x, In x l -> f x = []) -> flat_map f l = [].
Proof. induction l as [|y l IH]; cbn; intros H; [reflexivity|]. rewrite (H y), IH; auto. Qed.

Lemma init_tok n cp lo hi : tok_inv (init n cp lo hi) [].
Proof.
  assert (E : toks (init n cp lo hi) = []).
  { unfold toks. cbn [w_links w_hosts init]. rewrite !flat_map_nil; auto.
    - intros hs Hin. apply repeat_spec in Hin. subst. reflexivity.
    - intros l Hin. unfold init_links in Hin. apply in_flat_map in Hin as (b & _ & Hin).
      apply in_map_iff in Hin as (a & <- & _). reflexivity. }
  split; intros c; unfold tokc; rewrite E; change (cnt c []) with 0; lia.
Qed.

Theorem reach_tok n cp lo hi es :
  winv (final (init n cp lo hi) es) /\ tok_inv (final (init n cp lo hi) es) [].
Proof.
  assert (G : forall w, winv w -> tok_inv w [] -> winv (final w es) /\ tok_inv (final w es) []).
  { induction es as [|e es IH]; intros w H Ht; cbn; [auto|]. apply IH; [apply step_winv, H|apply step_tok; auto]. }
  apply G; [apply init_winv|apply init_tok].
Qed.

(* ---- no connection is accepted twice --------------------------------------------------------------- *)

Lemma sumn_ge_in {T} (f : T -> nat) l x : In x l -> f x <= sumn f l.
Proof. induction l as [|y l IH]; cbn; [tauto|]. intros [->|H]; [lia|specialize (IH H); lia]. Qed.

Lemma tokc_ge_deque w h hs port b c o :
  get_host w h = Some hs -> In (port, b) (h_binds hs) -> In (c, o) (b_deque b) -> 1 <= tokc c w.
Proof.
  intros Hh Hb Hq. rewrite tokc_eq.
  assert (1 <= cnt c (host_toks hs)).
  { unfold host_toks. rewrite cnt_app, cnt_flat_map.
    pose proof (sumn_ge_in (fun pb => cnt c (bind_toks pb)) (h_binds hs) (port, b) Hb) as G. cbn beta in G.
    assert (1 <= cnt c (bind_toks (port, b))).
    { apply cnt_in. unfold bind_toks. cbn. apply (in_map fst) in Hq. exact Hq. }
    lia. }
  pose proof (sumn_ge_in (fun hs0 => cnt c (host_toks hs0)) (w_hosts w) hs) as G2. cbn beta in G2.
  unfold get_host in Hh. apply nth_error_In in Hh. specialize (G2 Hh). lia.
Qed.

Lemma acc_syn_gone w m : w_accepts (syn_gone w m) = w_accepts w.
Proof. apply (f_acc _ _ (frame_syn_gone w m)). Qed.

Lemma acc_syn_arrive w d c : w_accepts (fst (syn_arrive w d c)) = w_accepts w.
Proof.
  unfold syn_arrive. destruct (get_conn w c) as [k|]; [|reflexivity]. destruct (get_host w d) as [hs|]; [|reflexivity].
  destruct (k_remote k) as [dip dport].
  destruct (negb _); [reflexivity|]. destruct (find_bind hs dport) as [b|]; [|reflexivity].
  destruct (Nat.eqb _ _); [reflexivity|]. destruct (bind_matches _ _); reflexivity.
Qed.

Lemma acc_deliver_msg w d m : w_accepts (fst (deliver_msg w d m)) = w_accepts w.
Proof.
  unfold deliver_msg. destruct (m_body m) as [|sd p]; [apply acc_syn_arrive|]. cbn [fst].
  rewrite (f_acc _ _ (frame_flush _ _)). reflexivity.
Qed.

Lemma acc_deliver_msgs l : forall w d, w_accepts (fst (deliver_msgs w d l)) = w_accepts w.
Proof.
  induction l as [|m l IH]; intros w d; cbn [deliver_msgs]; [reflexivity|].
  pose proof (acc_deliver_msg w d m) as D. destruct (deliver_msg w d m) as [w1 p1]. cbn [fst] in D.
  specialize (IH w1 d). destruct (deliver_msgs w1 d l) as [w2 p2]. cbn [fst] in *. congruence.
Qed.

Lemma acc_drain_links n : forall w h, w_accepts (fst (drain_links w h n)) = w_accepts w.
Proof.
  induction n as [|n IH]; intros w h; cbn [drain_links]; [reflexivity|].
  specialize (IH w h). destruct (drain_links w h n) as [w1 p1]. cbn [fst] in *.
  destruct (nth_error (w_links w1) n) as [l|]; [|exact IH].
  destruct (N.eqb (l_a l) h).
  - match goal with |- context [deliver_msgs ?w2 h ?q] =>
      pose proof (acc_deliver_msgs q w2 h) as D; destruct (deliver_msgs w2 h q) as [w3 p3] end.
    cbn [fst] in *. rewrite D. exact IH.
  - destruct (N.eqb (l_b l) h); [|exact IH].
    match goal with |- context [deliver_msgs ?w2 h ?q] =>
      pose proof (acc_deliver_msgs q w2 h) as D; destruct (deliver_msgs w2 h q) as [w3 p3] end.
    cbn [fst] in *. rewrite D. exact IH.
Qed.

Lemma acc_fold_syn_gone (l : list wmsg) : forall w1, w_accepts (fold_left syn_gone l w1) = w_accepts w1.
Proof. induction l as [|m l IH]; intros w1; cbn [fold_left]; [reflexivity|]. rewrite IH. apply acc_syn_gone. Qed.

Lemma acc_cancel w c : w_accepts (fst (do_cancel w c)) = w_accepts w.
Proof.
  unfold do_cancel. destruct (get_conn w c) as [k|]; [|reflexivity]. destruct (k_fut k); try reflexivity.
  cbn [fst]. unfold send_abandon_rst. destruct (S.lo (k_sys k)); [rewrite (f_acc _ _ (frame_loop_send _ _ _)); reflexivity|].
  destruct (k_dhost k); [rewrite (f_acc _ _ (frame_link_send _ _ _ _))|]; reflexivity.
Qed.

Lemma acc_step_other w e :
  (forall h lid sid, e <> Accept h lid sid) -> w_accepts (fst (step w e)) = w_accepts w.
Proof.
  intros Hne. destruct e; cbn [step].
  - unfold do_bind. destruct (get_host w h); [|reflexivity].
    match goal with |- context [match ?pk with Some _ => _ | None => _ end] => destruct pk as [[p cur]|] end; [|reflexivity].
    destruct (existsb _ _); reflexivity.
  - unfold do_connect. destruct (assign_port w h) as [[port cur]|]; [|reflexivity]. destruct dst as [dip dport].
    cbn [upd_host set_hosts w_conns w_streams].
    match goal with |- context [get_conn ?ww ?cc] => assert (E : w_accepts ww = w_accepts w); [|set (w3 := ww) in *] end.
    { destruct (is_loop dip || ip_eqb dip (IpHost h)).
      - rewrite (f_acc _ _ (frame_loop_send _ _ _)). reflexivity.
      - match goal with |- context [match ?dh with Some _ => _ | None => _ end] => destruct dh end;
          [rewrite (f_acc _ _ (frame_link_send _ _ _ _))|]; reflexivity. }
    destruct (get_conn w3 _) as [k3|]; [|exact E]. destruct (k_syn k3); cbn [fst]; exact E.
  - unfold do_poll. destruct (get_conn w c) as [k|]; [|reflexivity]. destruct (k_fut k); try reflexivity.
    destruct (k_syn k); reflexivity.
  - unfold do_poll. destruct (get_conn w c) as [k|] eqn:Hc; [|reflexivity].
    destruct (k_fut k) eqn:Hf; try reflexivity. destruct (k_syn k) eqn:Hs; cbn [fst snd]; try reflexivity;
      apply acc_cancel.
  - apply acc_cancel.
  - exfalso. eapply Hne. reflexivity.
  - unfold do_drop_listener. destruct (get_host w h) as [hs|]; [|reflexivity].
    destruct (find_lid hs lid) as [[port b]|]; [|reflexivity]. cbn [fst].
    match goal with |- w_accepts (fold_left ?f ?l ?w1) = _ => change (w_accepts w) with (w_accepts w1); generalize w1 end.
    induction (b_deque b) as [|co l IH]; intros w1; cbn [fold_left]; [reflexivity|]. rewrite IH. reflexivity.
  - unfold stream_op. destruct (find_stream w h sid) as [[c x]|]; [|reflexivity].
    destruct (get_conn w c) as [k|]; [|reflexivity].
    match goal with |- context [if ?b then _ else _] => destruct b end; [|reflexivity].
    destruct (S.step (k_sys k) e) as [s' r]. cbn [fst]. rewrite (f_acc _ _ (frame_flush _ _)). reflexivity.
  - reflexivity.
  - reflexivity.
  - reflexivity.
  - reflexivity.
  - reflexivity.
  - unfold panic_res. pose proof (acc_drain_links (length (w_links w)) w h) as D.
    destruct (drain_links w h (length (w_links w))) as [w1 p]. cbn [fst snd] in *. destruct p; exact D.
  - cbn [fst]. unfold do_partition. destruct (find _ _); [|reflexivity]. rewrite acc_fold_syn_gone. reflexivity.
  - cbn [fst]. unfold do_partition. destruct (find _ _); [|reflexivity]. rewrite acc_fold_syn_gone. reflexivity.
  - reflexivity.
  - unfold panic_res, do_loop_step. destruct (get_host w h) as [hs|]; [|reflexivity].
    match goal with |- context [deliver_msgs ?w2 h ?q] =>
      pose proof (acc_deliver_msgs q w2 h) as D; destruct (deliver_msgs w2 h q) as [w3 p3] end.
    cbn [fst snd] in *. destruct p3; exact D.
  - reflexivity.
  - reflexivity.
  - reflexivity.
Qed.

Theorem step_nodup w e :
  winv w -> tok_inv w [] -> NoDup (w_accepts w) -> NoDup (w_accepts (fst (step w e))).
Proof.
  intros H Ht Hn.
  destruct e; try (rewrite acc_step_other; [exact Hn|intros; discriminate]).
  cbn [step]. unfold do_accept.
  destruct (get_host w h) as [hs|] eqn:Hh; [|exact Hn].
  destruct (find_lid hs lid) as [[port b]|] eqn:Hl; [|exact Hn].
  pose proof (accept_result w h lid sid hs port b Hh Hl) as R. unfold do_accept in R. rewrite Hh, Hl in R.
  destruct (pop_alive w (b_deque b)) as [[rest pops] [[c o]|]] eqn:Hp.
  - destruct R as (my & _ & R). rewrite R. apply NoDup_app_iff. split; [exact Hn|]. split; [constructor; [tauto|constructor]|].
    intros x Hx [E|[]]. subst x.
    destruct (pop_alive_spec _ _ _ _ _ Hp) as (_ & _ & P3). destruct (P3 _ _ eq_refl) as [Hq _].
    pose proof (tokc_ge_deque w h hs port b c o Hh (find_lid_in _ _ _ _ Hl) Hq) as Hge.
    destruct Ht as [_ T2]. assert (Hs : srv_none w c) by (apply T2; cbn; lia).
    apply (i_acc _ H) in Hx as [v Hv]. unfold srv_none in Hs. congruence.
  - destruct R as [_ R]. rewrite R. exact Hn.
Qed.

Theorem reach_nodup n cp lo hi es : NoDup (w_accepts (final (init n cp lo hi) es)).
Proof.
  assert (G : forall w, winv w -> tok_inv w [] -> NoDup (w_accepts w) -> NoDup (w_accepts (final w es))).
  { induction es as [|e es IH]; intros w H Ht Hn; cbn; [exact Hn|].
    apply IH; [apply step_winv, H|apply step_tok; auto|apply step_nodup; auto]. }
  apply G; [apply init_winv|apply init_tok|constructor].
Qed.
