(* Lemmas for property C09 over TV.Udp.Model. *)
From TV.Lib Require Import Base.
From TV.Udp Require Import Model.
Open Scope N_scope.

Lemma clip_firstn buflen payload :
  clip buflen payload = firstn (Nat.min (N.to_nat buflen) (length payload)) payload.
Proof.
  unfold clip. f_equal. rewrite N2Nat.inj_min, Nat2N.id. reflexivity.
Qed.
