(* Lemmas for property C09 over TV.Udp.Model: glue on top of Routes (send vs
   Targets), Recv (delivery and the receive paths), Groups (swap_remove and the
   group table) and Inv (invariants of every reachable world). *)
From TV.Lib Require Import Base.
From TV.Udp Require Export Model Spec Routes Recv Groups Inv Once.
Open Scope N_scope.

(* get_bind only looks at the hosts *)
Lemma get_bind_set_groups w g h port : get_bind (set_groups w g) h port = get_bind w h port.
Proof. reflexivity. Qed.

Lemma get_bind_set_inflight w l h port : get_bind (set_inflight w l) h port = get_bind w h port.
Proof. reflexivity. Qed.

(* delivery never consults the group table: membership is evaluated when the
   datagram is sent *)
Lemma deliver_ignores_groups w g p h port :
  get_bind (deliver_pkt (set_groups w g) p) h port = get_bind (deliver_pkt w p) h port.
Proof. now rewrite !deliver_get_bind. Qed.

(* the only event that extends the `sent` log is an accepted Send *)
Lemma sent_log w e :
  sent (fst (step w e)) = sent w \/
  exists h port dst payload hs b,
    e = Send h port dst payload /\ find_host w h = Some hs /\ find_bind hs port = Some b /\
    sent (fst (step w e)) = sent w ++
      [{| sr_sid := next_sid w; sr_host := h; sr_port := port; sr_src := true_src h b dst; sr_dst := dst;
          sr_payload := payload; sr_targets := map rkey (snd (send_routes w hs b dst)) |}].
Proof.
  destruct e as [h port lip|h port peer|h port on|h port on|h port g|h port g|h port dst payload|gid|gid|h bound|h port buflen|h port|h port];
    cbn [step]; unfold with_bind;
    try (left; destruct (find_host w h) as [hs|]; [|reflexivity];
         repeat match goal with |- context [match ?x with _ => _ end] => destruct x end; reflexivity).
  - destruct (find_host w h) as [hs|] eqn:Fh; [|now left]. destruct (find_bind hs port) as [b|] eqn:Fb; [|now left].
    right. exists h, port, dst, payload, hs, b. destruct (send_routes w hs b dst) as [res rs]. cbn. auto.
  - left. destruct (take_pkt _ _) as [[p|] rest]; reflexivity.
  - left. destruct (take_pkt _ _) as [[p|] rest]; reflexivity.
  - left. cbn. unfold flush_loop.
    apply (fold_deliver_inv (fun w0 => sent w0 = sent w)); [|reflexivity].
    intros w0 p H. destruct (deliver_fields w0 p) as (_ & _ & _ & _ & St & _). congruence.
Qed.

(* membership after the three group operations, at the level of the world *)
Lemma join_member w h port g b :
  wf w -> get_bind w h port = Some b ->
  let w' := fst (step w (Join h port g)) in
  forall key m, In m (grp_members (groups w') key) <->
                In m (grp_members (groups w) key) \/ (key = (Mcast g, port) /\ m = (h, port)).
Proof.
  intros W G. destruct (get_bind_some _ _ _ _ G) as (hs & Fh & Fb). cbn [step].
  rewrite (with_bind_some _ _ _ _ _ _ Fh Fb). cbn. intros key m.
  apply grp_join_members. apply (wf_gwf w W).
Qed.

Lemma leave_member w h port g b :
  wf w -> get_bind w h port = Some b ->
  In (h, port) (grp_members (groups w) (Mcast g, port)) ->
  let w' := fst (step w (Leave h port g)) in
  forall key m, In m (grp_members (groups w') key) <->
                In m (grp_members (groups w) key) /\ ~ (key = (Mcast g, port) /\ m = (h, port)).
Proof.
  intros W G Hm. destruct (get_bind_some _ _ _ _ G) as (hs & Fh & Fb). cbn [step].
  rewrite (with_bind_some _ _ _ _ _ _ Fh Fb).
  apply grp_contains_In in Hm. rewrite Hm. cbn. intros key m.
  apply grp_leave_members. apply (wf_gwf w W).
Qed.

Lemma drop_member w h port b :
  wf w -> get_bind w h port = Some b ->
  let w' := fst (step w (DropSock h port)) in
  get_bind w' h port = None /\
  forall key m, In m (grp_members (groups w') key) <-> In m (grp_members (groups w) key) /\ m <> (h, port).
Proof.
  intros W G. destruct (get_bind_some _ _ _ _ G) as (hs & Fh & Fb). cbn [step].
  rewrite (with_bind_some _ _ _ _ _ _ Fh Fb). cbn [fst]. split.
  - change (fun hs0 : hostst => {| h_id := h_id hs0; h_binds := _ |}) with (del_bind port).
    rewrite (get_bind_del (set_groups w (grp_leave_all (groups w) (h, port)))). now rewrite !N.eqb_refl.
  - intros key m. cbn. apply grp_leave_all_members. apply (wf_gwf w W).
Qed.
