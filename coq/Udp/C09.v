(* Property C09 — turmoil::net UDP delivers datagrams whole, to the right
   sockets, at most once.  This file only states the theorems and closes them
   with the lemmas of Routes / Recv / Groups / Inv / C09_proofs; see DESIGN.md
   section 5 (C09).  `Targets` and `Admits` (Spec.v) are the declarative side,
   written from the property text; `send_routes`, `receive`, ... (Model.v) are
   transcribed from the code. *)
From TV.Lib Require Import Base.
From TV.Udp Require Import Gen Model Spec C09_proofs.
Open Scope N_scope.

Definition reach (n : nat) (c : N) (es : list ev) : world := fst (run (init n c) es).

(* Every reachable world is well-formed: host addresses are keys, sockets are
   bound to the wildcard or a loopback address, the group table has one entry
   per (group, port) whose members form a non-empty duplicate-free set, every
   member joined with its own port and is a currently bound socket (so a dropped
   socket is a member of nothing). *)
Theorem c09_reachable_wf : forall n c es, wf (reach n c es).
Proof. intros. apply run_wf, wf_init. Qed.

(* ---- a send: routes vs Targets (any well-formed world, hence any history) -- *)

(* Everything a send puts on the network or on the loopback path is aimed at an
   address the property allows (Targets, evaluated in the world of the send:
   broadcast needs the sender's option and a host with the port bound;
   multicast goes to the members of that moment only), carries the sender's
   true source address and the destination address of the receiving host. *)
Theorem c09_routes_sound : forall w hs b dst res rs,
  wf w -> is_unspec (b_ip b) || is_loop (b_ip b) = true ->
  send_routes w hs b dst = (res, rs) ->
  forall r, In r rs ->
    Targets w hs b dst (r_host r) (snd (r_dst r)) /\
    r_src r = true_src (h_id hs) b dst /\ route_dst_ok dst r.
Proof. exact send_routes_sound. Qed.

(* Each send produces at most one route per destination (host, port). *)
Theorem c09_at_most_once : forall w hs b dst res rs,
  wf w -> send_routes w hs b dst = (res, rs) -> NoDup (map rkey rs).
Proof. exact send_routes_nodup. Qed.

(* A send that returns Ok reaches every target. *)
Theorem c09_routes_complete : forall w hs b dst rs,
  wf w -> is_unspec (b_ip b) || is_loop (b_ip b) = true ->
  send_routes w hs b dst = (SOk, rs) ->
  forall th tp, Targets w hs b dst th tp -> exists r, In r rs /\ r_host r = th /\ snd (r_dst r) = tp.
Proof. exact send_routes_complete. Qed.

(* The multicast-loop flag is consulted by multicast sends only: for every other
   destination class (broadcast, a host address, a loopback address, anything
   else) the routes depend on the sending host only through its address, so a
   local socket gets its broadcast / same-host copy whatever that flag says. *)
Theorem c09_mloop_only_multicast : forall w hs hs' b dst,
  (forall g, fst dst <> Mcast g) -> h_id hs = h_id hs' ->
  send_routes w hs b dst = send_routes w hs' b dst.
Proof.
  intros w hs hs' b [dip dport] Hn Hid. unfold send_routes. cbn [fst snd] in *. rewrite Hid.
  destruct dip; try reflexivity. now destruct (Hn g).
Qed.

(* ---- delivery of one in-flight datagram ----------------------------------- *)

(* Exactly one: if the addressed socket exists and admits the datagram (bind
   address, connected peer, queue not full) it is appended once, unaltered,
   with the source address it was sent with. *)
Theorem c09_exact : forall w p b,
  get_bind w (p_host p) (snd (p_dst p)) = Some b ->
  Admits (cap w) b (p_src p) (p_dst p) ->
  get_bind (deliver_pkt w p) (p_host p) (snd (p_dst p)) =
    Some (enqueue b {| d_payload := p_payload p; d_origin := p_src p; d_sid := fst (p_gid p) |}) /\
  held (enqueue b (mk_dgram p)) = held b ++ [mk_dgram p].
Proof.
  intros w p b G A. split; [|apply held_enqueue].
  rewrite deliver_get_bind, G, !N.eqb_refl. apply accepts_Admits in A. now rewrite A.
Qed.

(* A datagram changes no socket but the one it is addressed to; and if that
   socket does not exist (unbound port), or does not admit it (bound to
   another address, connected to another peer, queue full), nothing changes at
   all: the drop is silent. *)
Theorem c09_drop_isolated : forall w p,
  (forall h port, (h, port) <> (p_host p, snd (p_dst p)) ->
                  get_bind (deliver_pkt w p) h port = get_bind w h port) /\
  ((get_bind w (p_host p) (snd (p_dst p)) = None \/
    exists b, get_bind w (p_host p) (snd (p_dst p)) = Some b /\ ~ Admits (cap w) b (p_src p) (p_dst p)) ->
   forall h port, get_bind (deliver_pkt w p) h port = get_bind w h port) /\
  groups (deliver_pkt w p) = groups w /\ inflight (deliver_pkt w p) = inflight w /\
  received (deliver_pkt w p) = received w.
Proof.
  intros w p. split; [|split].
  - intros h port Ne. rewrite deliver_get_bind. destruct (get_bind w h port) as [b|]; [|reflexivity].
    destruct (N.eqb_spec h (p_host p)) as [->|]; cbn [andb]; [|reflexivity].
    destruct (N.eqb_spec port (snd (p_dst p))) as [->|]; cbn [andb]; [now destruct Ne|reflexivity].
  - intros H h port. rewrite deliver_get_bind. destruct (get_bind w h port) as [b|] eqn:G; [|reflexivity].
    destruct (N.eqb_spec h (p_host p)) as [->|]; cbn [andb]; [|reflexivity].
    destruct (N.eqb_spec port (snd (p_dst p))) as [->|]; cbn [andb]; [|reflexivity].
    destruct H as [H|(b' & H & NA)]; [congruence|]. rewrite G in H. injection H as <-.
    destruct (accepts (cap w) b (p_src p) (p_dst p)) eqn:Acc; [|reflexivity].
    apply accepts_Admits in Acc. contradiction.
  - destruct (deliver_fields w p) as (A & _ & B & _ & _ & C & _). auto.
Qed.

(* Multicast membership is evaluated when the datagram is sent: delivery does
   not look at the group table, so a socket that joins later does not get it
   and a member that leaves while it is in flight still does. *)
Theorem c09_membership_at_send_time : forall w g p h port,
  get_bind (deliver_pkt (set_groups w g) p) h port = get_bind (deliver_pkt w p) h port.
Proof. exact deliver_ignores_groups. Qed.

(* ---- the receive paths ---------------------------------------------------- *)

(* try_recv_from (and recv_from, which is readable + try_recv_from) returns the
   oldest datagram the socket holds, cut to the buffer: length min(buflen, len),
   data = the first min(buflen, len) bytes, origin as stored; it is removed and
   nothing else changes.  readable() only moves a datagram into the stash. *)
Theorem c09_clip : forall w h port buflen w' o,
  step w (TryRecv h port buflen) = (w', o) ->
  match get_bind w h port with
  | None => w' = w /\ o = OErr 6
  | Some b =>
      match held b with
      | [] => w' = w /\ o = OErr 5
      | d :: rest =>
          o = ORecv (N.min buflen (N.of_nat (length (d_payload d)))) (d_origin d)
                    (firstn (Nat.min (N.to_nat buflen) (length (d_payload d))) (d_payload d)) /\
          (forall h' port', get_bind w' h' port' =
             if (h' =? h) && (port' =? port) then Some (set_queue b rest None) else get_bind w h' port') /\
          received w' = received w ++ [(d_sid d, h, port)] /\
          inflight w' = inflight w /\ groups w' = groups w /\ sent w' = sent w
      end
  end.
Proof. exact try_recv_spec. Qed.

Theorem c09_readable_keeps_order : forall w h port w' o,
  step w (Readable h port) = (w', o) ->
  match get_bind w h port with
  | None => w' = w /\ o = OErr 6
  | Some b =>
      o = OReady (match held b with [] => false | _ => true end) /\
      (forall h' port', option_map held (get_bind w' h' port') = option_map held (get_bind w h' port')) /\
      received w' = received w /\ inflight w' = inflight w /\ groups w' = groups w
  end.
Proof. exact readable_spec. Qed.

(* ---- every history --------------------------------------------------------- *)

(* For every event sequence (any interleaving of binds, connects, option
   changes, joins, leaves, sends, deliveries in any order, losses, receives and
   socket drops): every datagram in flight, held by a socket, or already handed
   to the application stems from a logged send whose destinations include that
   very socket address, and carries that send's payload and source address. *)
Theorem c09_sound : forall n c es,
  let w := reach n c es in
  (forall p, In p (inflight w) -> pkt_ok (sent w) p) /\
  (forall h port b d, get_bind w h port = Some b -> In d (held b) ->
     exists sr, In sr (sent w) /\ sr_sid sr = d_sid d /\ sr_payload sr = d_payload d /\
                sr_src sr = d_origin d /\ In (h, port) (sr_targets sr)) /\
  (forall sid h port, In (sid, h, port) (received w) ->
     exists sr, In sr (sent w) /\ sr_sid sr = sid /\ In (h, port) (sr_targets sr)).
Proof.
  intros n c es w. destruct (run_inv es (init n c) (wf_init n c) (sound_init n c)) as [_ [S1 S2 S3 _]].
  split; [exact S1|split; [|exact S3]].
  intros h port b d G Hd. destruct (S2 h port b d G Hd) as (sr & A & B). exists sr. split; [exact A|exact B].
Qed.

(* At most once over every history: for every send id and destination socket
   address the datagram is, at any time, in at most one of {in flight, held by
   that socket, handed to the application} and at most once there.  In
   particular no (send, socket) pair is ever received twice. *)
Theorem c09_received_at_most_once : forall n c es,
  let w := reach n c es in
  (forall k, (cI w k + cH w k + cR w k <= 1)%nat) /\ NoDup (received w).
Proof.
  intros n c es w.
  destruct (run_inv es (init n c) (wf_init n c) (sound_init n c)) as [_ _].
  pose proof (run_once es (init n c) (wf_init n c) (sound_init n c) (once_init n c)) as O.
  split; [exact O|]. apply cnt_le1_NoDup. intros k. specialize (O k). unfold cR in O.
  change (fst (run (init n c) es)) with w in O.
  set (a := cI w k) in *. set (b := cH w k) in *. lia.
Qed.

(* ... and the log is faithful: only an accepted send extends it, with the
   sender's payload, its true source address and exactly the destinations of
   the routes computed in that world (which c09_routes_sound ties to Targets). *)
Theorem c09_sent_log : forall w e,
  sent (fst (step w e)) = sent w \/
  exists h port dst payload hs b,
    e = Send h port dst payload /\ find_host w h = Some hs /\ find_bind hs port = Some b /\
    sent (fst (step w e)) = sent w ++
      [{| sr_sid := next_sid w; sr_host := h; sr_port := port; sr_src := true_src h b dst; sr_dst := dst;
          sr_payload := payload; sr_targets := map rkey (snd (send_routes w hs b dst)) |}].
Proof. exact sent_log. Qed.

(* ---- membership ------------------------------------------------------------ *)

(* join adds exactly (host, port) to (group, port); leave removes exactly it;
   dropping the socket unbinds it and removes it from every group. *)
Theorem c09_membership : forall w h port b, wf w -> get_bind w h port = Some b ->
  (forall g key m, In m (grp_members (groups (fst (step w (Join h port g)))) key) <->
                   In m (grp_members (groups w) key) \/ (key = (Mcast g, port) /\ m = (h, port))) /\
  (forall g, In (h, port) (grp_members (groups w) (Mcast g, port)) ->
     forall key m, In m (grp_members (groups (fst (step w (Leave h port g)))) key) <->
                   In m (grp_members (groups w) key) /\ ~ (key = (Mcast g, port) /\ m = (h, port))) /\
  (get_bind (fst (step w (DropSock h port))) h port = None /\
   forall key m, In m (grp_members (groups (fst (step w (DropSock h port)))) key) <->
                 In m (grp_members (groups w) key) /\ m <> (h, port)).
Proof.
  intros w h port b W G. split; [|split].
  - intros g. apply (join_member w h port g b W G).
  - intros g Hm. apply (leave_member w h port g b W G Hm).
  - apply (drop_member w h port b W G).
Qed.

(* ---- constants and non-vacuity --------------------------------------------- *)

Example c09_consts : default_udp_capacity = 64.
Proof. reflexivity. Qed.

(* Three hosts, capacity 1.  Host 0 binds 9000, enables broadcast, joins group 1;
   host 1 binds 9000 and joins; host 2 binds 9000 to localhost.  A broadcast from
   host 0 yields one loopback route and two network routes (NoDup); delivered:
   host 1 gets it, host 2's localhost socket silently drops it; a second
   datagram to host 1 overflows the queue of capacity 1; host 1 reads 3 of 5
   bytes with the true origin. *)
Definition h_script :=
  [Bind 0 9000 Unspec; SetBroadcast 0 9000 true; Join 0 9000 1;
   Bind 1 9000 Unspec; Join 1 9000 1; Bind 2 9000 (Loop 1);
   Send 0 9000 (Bcast, 9000) [1; 2; 3; 4; 5];
   Deliver (0, 0); Deliver (0, 1); LoopFlush 0 1;
   Send 0 9000 (Mcast 1, 9000) [7; 7];
   Deliver (1, 0);
   TryRecv 1 9000 3; TryRecv 1 9000 3; TryRecv 2 9000 8; TryRecv 0 9000 8].
Example c09_nonvacuous :
  let '(w, os) := run (init 3 1) h_script in
  nth 6 os OUnit = ORoutes SOk [ {| r_via := Lo; r_host := 0; r_src := (HostIp 0, 9000); r_dst := (HostIp 0, 9000) |};
                                 {| r_via := Net; r_host := 1; r_src := (HostIp 0, 9000); r_dst := (HostIp 1, 9000) |};
                                 {| r_via := Net; r_host := 2; r_src := (HostIp 0, 9000); r_dst := (HostIp 2, 9000) |} ] /\
  nth 12 os OUnit = ORecv 3 (HostIp 0, 9000) [1; 2; 3] /\
  nth 13 os OUnit = OErr 5 /\ nth 14 os OUnit = OErr 5 /\
  nth 15 os OUnit = ORecv 5 (HostIp 0, 9000) [1; 2; 3; 4; 5] /\
  received w = [(0, 1, 9000); (0, 0, 9000)] /\ length (sent w) = 2%nat.
Proof. vm_compute. repeat split. Qed.

(* A zero-length datagram is a datagram: one route, one receive of length 0 with
   the sender's address, then the queue is empty — remote and via loopback. *)
Example c09_empty_datagram :
  snd (run (init 2 4) [Bind 0 9001 Unspec; Bind 1 9000 Unspec; Bind 0 9000 Unspec;
                       Send 0 9001 (HostIp 1, 9000) []; Deliver (0, 0);
                       Send 0 9001 (Loop 1, 9000) []; LoopFlush 0 2;
                       TryRecv 1 9000 8; TryRecv 1 9000 8; Readable 0 9000; TryRecv 0 9000 0]) =
  [OUnit; OUnit; OUnit;
   ORoutes SOk [{| r_via := Net; r_host := 1; r_src := (HostIp 0, 9001); r_dst := (HostIp 1, 9000) |}]; OUnit;
   ORoutes SOk [{| r_via := Lo; r_host := 0; r_src := (Loop 1, 9001); r_dst := (Loop 1, 9000) |}]; OUnit;
   ORecv 0 (HostIp 0, 9001) []; OErr 5; OReady true; ORecv 0 (Loop 1, 9001) []].
Proof. vm_compute. reflexivity. Qed.

(* Broadcast with the local receiver's multicast loop switched off: the local
   socket still gets its copy (and the remote one too); the same send to the
   multicast group skips the local socket. *)
Example c09_broadcast_ignores_mloop :
  snd (run (init 2 4) [Bind 0 9000 Unspec; Bind 1 9000 Unspec; Join 0 9000 1; Join 1 9000 1;
                       SetBroadcast 0 9000 true; SetMloop 0 9000 false;
                       Send 0 9000 (Bcast, 9000) [5]; Send 0 9000 (Mcast 1, 9000) [6];
                       LoopFlush 0 2; TryRecv 0 9000 8; TryRecv 0 9000 8]) =
  [OUnit; OUnit; OUnit; OUnit; OUnit; OUnit;
   ORoutes SOk [{| r_via := Lo; r_host := 0; r_src := (HostIp 0, 9000); r_dst := (HostIp 0, 9000) |};
                {| r_via := Net; r_host := 1; r_src := (HostIp 0, 9000); r_dst := (HostIp 1, 9000) |}];
   ORoutes SOk [{| r_via := Net; r_host := 1; r_src := (HostIp 0, 9000); r_dst := (HostIp 1, 9000) |}];
   OUnit; ORecv 1 (HostIp 0, 9000) [5]; OErr 5].
Proof. vm_compute. reflexivity. Qed.

Print Assumptions c09_reachable_wf.
Print Assumptions c09_routes_sound.
Print Assumptions c09_at_most_once.
Print Assumptions c09_routes_complete.
Print Assumptions c09_mloop_only_multicast.
Print Assumptions c09_exact.
Print Assumptions c09_drop_isolated.
Print Assumptions c09_membership_at_send_time.
Print Assumptions c09_clip.
Print Assumptions c09_readable_keeps_order.
Print Assumptions c09_sound.
Print Assumptions c09_received_at_most_once.
Print Assumptions c09_sent_log.
Print Assumptions c09_membership.
Print Assumptions c09_consts.
Print Assumptions c09_nonvacuous.
Print Assumptions c09_empty_datagram.
Print Assumptions c09_broadcast_ignores_mloop.
