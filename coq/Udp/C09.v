(* Property C09 — turmoil::net UDP delivers datagrams whole, to the right
   sockets, at most once.  Statements only; proofs in C09_proofs.v. *)
From TV.Lib Require Import Base.
From TV.Udp Require Import Model C09_proofs.
Open Scope N_scope.

Theorem c09_clip_partial : forall buflen payload,
  clip buflen payload = firstn (Nat.min (N.to_nat buflen) (length payload)) payload.
Proof. exact clip_firstn. Qed.

Print Assumptions c09_clip_partial.
