(* Facts about Model.send_routes against Spec.Targets. *)
From TV.Lib Require Import Base.
From TV.Udp Require Import Model Spec.
Open Scope N_scope.

Lemma ip_eqb_eq a b : ip_eqb a b = true <-> a = b.
Proof.
  destruct a, b; cbn; try rewrite N.eqb_eq; split; intros H; try discriminate; try reflexivity;
    try (inversion H; subst; reflexivity); congruence.
Qed.

Lemma ip_eqb_refl a : ip_eqb a a = true.
Proof. now apply ip_eqb_eq. Qed.

Lemma sa_eqb_eq a b : sa_eqb a b = true <-> a = b.
Proof.
  destruct a as [a1 a2], b as [b1 b2]. unfold sa_eqb; cbn. rewrite Bool.andb_true_iff, ip_eqb_eq, N.eqb_eq.
  split; [intros [-> ->]; reflexivity|intros [= -> ->]; auto].
Qed.

Lemma mem_eqb_eq a b : mem_eqb a b = true <-> a = b.
Proof.
  destruct a as [a1 a2], b as [b1 b2]. unfold mem_eqb; cbn. rewrite Bool.andb_true_iff, !N.eqb_eq.
  split; [intros [-> ->]; reflexivity|intros [= -> ->]; auto].
Qed.

Definition rkey (r : route) : N * N := (r_host r, snd (r_dst r)).

(* ---------------- route_each ---------------- *)

Lemma route_each_sound w src ok : forall dsts res rs,
  route_each w src ok dsts = (res, rs) ->
  forall r, In r rs ->
    In (rkey r) dsts /\ r_dst r = (HostIp (r_host r), snd (r_dst r)) /\ r_src r = src /\
    match r_via r with
    | Lo => fst src = HostIp (r_host r) /\ ok (snd (r_dst r)) = true
    | Net => link_exists w (fst src) (HostIp (r_host r)) = true
    end.
Proof.
  induction dsts as [|[hd pd] dsts IH]; intros res rs E r Hr; cbn in E.
  - injection E as <- <-. contradiction.
  - destruct (ip_eqb (fst src) (HostIp hd)) eqn:Q.
    + destruct (route_each w src ok dsts) as [res1 rs1] eqn:E1. injection E as <- <-.
      destruct (ok pd) eqn:O.
      * destruct Hr as [<-|Hr].
        -- cbn. apply ip_eqb_eq in Q. repeat split; auto.
        -- destruct (IH _ _ eq_refl r Hr) as (A & B). split; [right; exact A|exact B].
      * destruct (IH _ _ eq_refl r Hr) as (A & B). split; [right; exact A|exact B].
    + cbn in E. destruct (link_exists w (fst src) (HostIp hd)) eqn:L.
      * destruct (route_each w src ok dsts) as [res1 rs1] eqn:E1. injection E as <- <-.
        destruct Hr as [<-|Hr].
        -- cbn. repeat split; auto.
        -- destruct (IH _ _ eq_refl r Hr) as (A & B). split; [right; exact A|exact B].
      * injection E as <- <-. contradiction.
Qed.

Lemma route_each_complete w src ok : forall dsts rs,
  route_each w src ok dsts = (SOk, rs) ->
  forall hd pd, In (hd, pd) dsts -> (fst src = HostIp hd -> ok pd = true) ->
  exists r, In r rs /\ r_host r = hd /\ r_dst r = (HostIp hd, pd).
Proof.
  induction dsts as [|[h0 p0] dsts IH]; intros rs E hd pd Hin Hok; cbn in E; [contradiction|].
  destruct (ip_eqb (fst src) (HostIp h0)) eqn:Q.
  - destruct (route_each w src ok dsts) as [res1 rs1] eqn:E1. injection E as -> <-.
    destruct Hin as [[= -> ->]|Hin].
    + apply ip_eqb_eq in Q. rewrite (Hok Q). eexists. split; [left; reflexivity|]. cbn. auto.
    + destruct (IH _ eq_refl hd pd Hin Hok) as (r & A & B). exists r. split; [|exact B].
      destruct (ok p0); [right|]; exact A.
  - cbn in E. destruct (link_exists w (fst src) (HostIp h0)) eqn:L; [|discriminate].
    destruct (route_each w src ok dsts) as [res1 rs1] eqn:E1. injection E as -> <-.
    destruct Hin as [[= -> ->]|Hin].
    + eexists. split; [left; reflexivity|]. cbn. auto.
    + destruct (IH _ eq_refl hd pd Hin Hok) as (r & A & B). exists r. split; [right; exact A|exact B].
Qed.

Lemma route_each_nodup w src ok : forall dsts res rs,
  route_each w src ok dsts = (res, rs) -> NoDup dsts -> NoDup (map rkey rs).
Proof.
  induction dsts as [|[hd pd] dsts IH]; intros res rs E ND; cbn in E.
  - injection E as <- <-. constructor.
  - inversion ND as [|? ? Hn Hd]; subst.
    assert (Fresh : forall res1 rs1, route_each w src ok dsts = (res1, rs1) -> ~ In (hd, pd) (map rkey rs1)).
    { intros res1 rs1 E1 Hin. apply in_map_iff in Hin as (r & Hk & Hr).
      destruct (route_each_sound w src ok dsts res1 rs1 E1 r Hr) as (A & _). rewrite Hk in A. contradiction. }
    destruct (ip_eqb (fst src) (HostIp hd)) eqn:Q.
    + destruct (route_each w src ok dsts) as [res1 rs1] eqn:E1. injection E as <- <-.
      destruct (ok pd); [cbn; constructor; [eapply Fresh; reflexivity|]|]; eapply IH; eauto.
    + cbn in E. destruct (link_exists w (fst src) (HostIp hd)) eqn:L.
      * destruct (route_each w src ok dsts) as [res1 rs1] eqn:E1. injection E as <- <-.
        cbn; constructor; [eapply Fresh; reflexivity|]. eapply IH; eauto.
      * injection E as <- <-. constructor.
Qed.

(* ---------------- the source address ---------------- *)

Lemma true_src_ip h b dst : is_unspec (b_ip b) || is_loop (b_ip b) = true ->
  snd (true_src h b dst) = b_port b /\
  (fst (true_src h b dst) = HostIp h \/ exists k, fst (true_src h b dst) = Loop k).
Proof.
  intros Hb. unfold true_src. split; [reflexivity|]. cbn.
  destruct (is_loop (fst dst)) eqn:L.
  - destruct (fst dst); try discriminate. cbn. right. eauto.
  - destruct (b_ip b); try discriminate; cbn; eauto.
Qed.

(* ---------------- send_routes against Targets ---------------- *)

Lemma grp_members_In g key m :
  In m (grp_members g key) -> exists ms, In (key, ms) g /\ In m ms.
Proof.
  unfold grp_members. destruct (find (fun e => sa_eqb (fst e) key) g) as [[k ms]|] eqn:F; [|contradiction].
  apply find_some in F as [A B]. cbn in B. apply sa_eqb_eq in B. subst k. intros H. exists ms. auto.
Qed.

Lemma find_fst_NoDup {A B} (eqb : A -> A -> bool) (Heq : forall a b, eqb a b = true <-> a = b)
  (l : list (A * B)) k v :
  NoDup (map fst l) -> In (k, v) l -> find (fun e => eqb (fst e) k) l = Some (k, v).
Proof.
  induction l as [|[k0 v0] l IH]; cbn; [contradiction|]. intros ND Hin.
  inversion ND as [|? ? Hn Hd]; subst. destruct Hin as [[= -> ->]|Hin].
  - replace (eqb k k) with true by (symmetry; now apply Heq). reflexivity.
  - destruct (eqb k0 k) eqn:Q; [|auto]. apply Heq in Q. subst k0. exfalso. apply Hn.
    apply in_map_iff. exists (k, v). auto.
Qed.

Lemma grp_members_of g key ms : NoDup (map fst g) -> In (key, ms) g -> grp_members g key = ms.
Proof.
  intros ND Hin. unfold grp_members. now rewrite (find_fst_NoDup sa_eqb sa_eqb_eq g key ms ND Hin).
Qed.

Lemma link_exists_host w a b : link_exists w a b = true ->
  exists x y, a = HostIp x /\ b = HostIp y /\ x <> y.
Proof.
  unfold link_exists. destruct a, b; try discriminate. intros H.
  apply Bool.andb_true_iff in H as [_ H]. apply Bool.negb_true_iff, N.eqb_neq in H. eauto.
Qed.

Theorem send_routes_sound w hs b dst res rs :
  wf w -> is_unspec (b_ip b) || is_loop (b_ip b) = true ->
  send_routes w hs b dst = (res, rs) ->
  forall r, In r rs ->
    Targets w hs b dst (r_host r) (snd (r_dst r)) /\
    r_src r = true_src (h_id hs) b dst /\ route_dst_ok dst r.
Proof.
  intros W Hb E r Hr. unfold send_routes in E. unfold Targets, route_dst_ok.
  destruct dst as [dip dport]. cbn [fst snd] in *.
  destruct (true_src_ip (h_id hs) b (dip, dport) Hb) as (_ & SRC).
  set (src := true_src (h_id hs) b (dip, dport)) in *.
  assert (NoLink : forall a, (forall y, a <> HostIp y) -> link_exists w (fst src) a = false).
  { intros a Ha. destruct (link_exists w (fst src) a) eqn:L; [|reflexivity].
    apply link_exists_host in L as (x & y & _ & -> & _). now destruct (Ha y). }
  assert (NotEq : forall a, (forall y, a <> HostIp y) -> (forall k, a <> Loop k) -> ip_eqb (fst src) a = false).
  { intros a H1 H2. destruct (ip_eqb (fst src) a) eqn:Q; [|reflexivity]. apply ip_eqb_eq in Q.
    destruct SRC as [S|[k S]]; rewrite S in Q; subst a; [now destruct (H1 (h_id hs))|now destruct (H2 k)]. }
  destruct dip as [|k|x| |g|x].
  - cbn in E. rewrite NotEq, NoLink in E by (intros; discriminate). injection E as <- <-. contradiction.
  - cbn in E. injection E as <- <-. destruct Hr as [<-|[]]. cbn. auto.
  - cbn [is_loop orb] in E. destruct (ip_eqb (fst src) (HostIp x)) eqn:Q.
    + injection E as <- <-. destruct Hr as [<-|[]]. cbn. apply ip_eqb_eq in Q.
      destruct SRC as [S|[k S]]; rewrite S in Q; [injection Q as <-; auto|discriminate].
    + destruct (link_exists w (fst src) (HostIp x)) eqn:L; injection E as <- <-; [|contradiction].
      destruct Hr as [<-|[]]. cbn. auto.
  - destruct (b_bcast b) eqn:B; [|injection E as <- <-; contradiction].
    destruct (route_each_sound _ _ _ _ _ _ E r Hr) as (A & D & S & _).
    apply in_map_iff in A as (x & Hk & Hx). apply filter_In in Hx as [Hx Hp].
    unfold rkey in Hk. injection Hk as Hh Hp'. split; [|split; [exact S|]].
    + split; [congruence|]. split; [reflexivity|]. exists x. rewrite <- Hp'. auto.
    + rewrite D. f_equal. congruence.
  - destruct (route_each_sound _ _ _ _ _ _ E r Hr) as (A & D & S & V).
    destruct (wf_mem w W _ _ A) as [P _]. cbn in P.
    split; [|split; [exact S|]].
    + split; [exact P|]. split; [exact A|]. intros Hself.
      destruct (r_via r) eqn:Vr.
      * apply link_exists_host in V as (x & y & Sx & Sy & Ne). injection Sy as <-.
        destruct SRC as [S1|[k S1]]; rewrite S1 in Sx; [injection Sx as <-; congruence|discriminate].
      * destruct V as [_ V]. rewrite P in V. rewrite P. exact V.
    + rewrite D. f_equal. exact P.
  - cbn in E. rewrite NotEq, NoLink in E by (intros; discriminate). injection E as <- <-. contradiction.
Qed.

Theorem send_routes_complete w hs b dst rs :
  wf w -> is_unspec (b_ip b) || is_loop (b_ip b) = true ->
  send_routes w hs b dst = (SOk, rs) ->
  forall th tp, Targets w hs b dst th tp ->
  exists r, In r rs /\ r_host r = th /\ snd (r_dst r) = tp.
Proof.
  intros W Hb E th tp [Hp T]. unfold send_routes in E.
  destruct dst as [dip dport]. cbn [fst snd] in *. subst tp.
  destruct (true_src_ip (h_id hs) b (dip, dport) Hb) as (_ & SRC).
  set (src := true_src (h_id hs) b (dip, dport)) in *.
  destruct dip as [|k|x| |g|x]; try contradiction.
  - cbn in E. injection E as <-. subst th. eexists. split; [left; reflexivity|]. auto.
  - cbn [is_loop orb] in E. subst th. destruct (ip_eqb (fst src) (HostIp x)) eqn:Q.
    + injection E as <-. apply ip_eqb_eq in Q. eexists. split; [left; reflexivity|]. cbn.
      destruct SRC as [S|[k S]]; rewrite S in Q; [injection Q as <-; auto|discriminate].
    + destruct (link_exists w (fst src) (HostIp x)); [|discriminate]. injection E as <-.
      eexists. split; [left; reflexivity|]. auto.
  - destruct T as (B & x & Hx & Hid & Hpa). rewrite B in E.
    destruct (route_each_complete _ _ _ _ _ E th dport) as (r & A & C & D).
    + apply in_map_iff. exists x. split; [now rewrite Hid|]. apply filter_In. auto.
    + reflexivity.
    + exists r. rewrite D. auto.
  - destruct T as (Hm & Hloop).
    destruct (route_each_complete _ _ _ _ _ E th dport Hm) as (r & A & C & D).
    + intros S. apply Hloop. destruct SRC as [S1|[k S1]]; rewrite S1 in S; [now injection S|discriminate].
    + exists r. rewrite D. auto.
Qed.

(* each (host, port) destination gets at most one route per send *)
Theorem send_routes_nodup w hs b dst res rs :
  wf w -> send_routes w hs b dst = (res, rs) -> NoDup (map rkey rs).
Proof.
  intros W E. unfold send_routes in E. destruct dst as [dip dport]. cbn [fst snd] in *.
  assert (One : forall r, NoDup (map rkey [r])) by (intros; repeat constructor; intros []).
  destruct dip as [|k|x| |g|x].
  - cbn in E. destruct (ip_eqb _ _); [injection E as <- <-; apply One|].
    destruct (link_exists _ _ _); injection E as <- <-; constructor.
  - cbn in E. injection E as <- <-. apply One.
  - cbn [is_loop orb] in E. destruct (ip_eqb _ _); [injection E as <- <-; apply One|].
    destruct (link_exists _ _ _); injection E as <- <-; [apply One|constructor].
  - destruct (b_bcast b); [|injection E as <- <-; constructor].
    eapply route_each_nodup; [exact E|].
    pose proof (wf_ids w W) as ND. clear E.
    induction (hosts w) as [|x l IH]; cbn; [constructor|]. inversion ND as [|? ? Hn Hd]; subst.
    destruct (port_assigned x dport); cbn; [constructor|]; auto.
    intro Hin. apply Hn. apply in_map_iff in Hin as (y & [= Hy] & Hin). apply filter_In in Hin as [Hin _].
    apply in_map_iff. eauto.
  - eapply route_each_nodup; [exact E|].
    unfold grp_members. destruct (find _ (groups w)) as [[k ms]|] eqn:F; [|constructor].
    apply find_some in F as [F _]. destruct (wf_gwf w W) as [_ G]. now destruct (G _ _ F).
  - cbn in E. destruct (ip_eqb _ _); [injection E as <- <-; apply One|].
    destruct (link_exists _ _ _); injection E as <- <-; constructor.
Qed.
