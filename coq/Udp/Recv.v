(* Facts about delivery into sockets and the receive paths. *)
From TV.Lib Require Import Base.
From TV.Udp Require Import Model Spec Routes.
Open Scope N_scope.

(* ---------------- find under key-preserving maps ---------------- *)

Lemma find_map_key {A} (p : A -> bool) (g : A -> A) l :
  (forall x, p (g x) = p x) -> find p (map g l) = option_map g (find p l).
Proof.
  intros H. induction l as [|x l IH]; cbn; [reflexivity|]. rewrite H. destruct (p x); [reflexivity|exact IH].
Qed.

Lemma find_host_upd w h f h' :
  (forall x, h_id (f x) = h_id x) ->
  find_host (upd_host w h f) h' =
  option_map (fun x => if h_id x =? h then f x else x) (find_host w h').
Proof.
  intros Hf. unfold find_host, upd_host. cbn. apply find_map_key.
  intros x. destruct (h_id x =? h); [now rewrite Hf|reflexivity].
Qed.

Lemma find_bind_upd hs port f port' :
  (forall b, b_port (f b) = b_port b) ->
  find_bind (upd_bind hs port f) port' =
  option_map (fun b => if b_port b =? port then f b else b) (find_bind hs port').
Proof.
  intros Hf. unfold find_bind, upd_bind. cbn. apply find_map_key.
  intros b. destruct (b_port b =? port); [now rewrite Hf|reflexivity].
Qed.

Lemma find_host_id w h x : find_host w h = Some x -> h_id x = h.
Proof. unfold find_host. intros H. apply find_some in H as [_ H]. now apply N.eqb_eq. Qed.

Lemma find_bind_port hs port b : find_bind hs port = Some b -> b_port b = port.
Proof. unfold find_bind. intros H. apply find_some in H as [_ H]. now apply N.eqb_eq. Qed.

(* updating one bind of one host, seen through get_bind *)
Lemma get_bind_upd w h port f h' port' :
  (forall b, b_port (f b) = b_port b) ->
  get_bind (upd_host w h (fun hs => upd_bind hs port f)) h' port' =
  if (h' =? h) && (port' =? port) then option_map f (get_bind w h' port') else get_bind w h' port'.
Proof.
  intros Hf. unfold get_bind. rewrite find_host_upd by reflexivity.
  destruct (find_host w h') as [x|] eqn:Fh; cbn [option_map]; [|now destruct ((h' =? h) && (port' =? port))].
  pose proof (find_host_id _ _ _ Fh) as Hx. rewrite Hx.
  destruct (N.eqb_spec h' h) as [->|Nh]; cbn [andb]; [|reflexivity].
  rewrite find_bind_upd by exact Hf.
  destruct (find_bind x port') as [b|] eqn:Fb; cbn [option_map]; [|now destruct (port' =? port)].
  rewrite (find_bind_port _ _ _ Fb). now destruct (port' =? port).
Qed.

(* ---------------- accepts reflects Admits ---------------- *)

Lemma addr_matches_spec bind dst :
  addr_matches bind dst = true <-> (fst bind = Unspec /\ snd bind = snd dst) \/ bind = dst.
Proof.
  unfold addr_matches. rewrite Bool.orb_true_iff, Bool.andb_true_iff, N.eqb_eq, sa_eqb_eq.
  destruct bind as [i p]; cbn. destruct i; cbn; intuition discriminate.
Qed.

Lemma accepts_Admits c b src dst : accepts c b src dst = true <-> Admits c b src dst.
Proof.
  unfold accepts, Admits. rewrite !Bool.andb_true_iff, N.ltb_lt.
  assert (T : (match b_target b with Some t => addr_matches t src | None => true end) = true <->
              match b_target b with Some t => (fst t = Unspec /\ snd t = snd src) \/ t = src | None => True end).
  { destruct (b_target b) as [t|]; [apply addr_matches_spec|tauto]. }
  rewrite T. pose proof (addr_matches_spec (b_ip b, b_port b) dst) as M. cbn [fst snd] in M. rewrite M. tauto.
Qed.

(* ---------------- delivery ---------------- *)

Definition mk_dgram (p : pkt) : dgram :=
  {| d_payload := p_payload p; d_origin := p_src p; d_sid := fst (p_gid p) |}.

Definition enqueue (b : bind) (d : dgram) : bind := set_queue b (b_queue b ++ [d]) (b_stash b).

Lemma deliver_fields w p :
  groups (deliver_pkt w p) = groups w /\ cap (deliver_pkt w p) = cap w /\
  inflight (deliver_pkt w p) = inflight w /\ next_sid (deliver_pkt w p) = next_sid w /\
  sent (deliver_pkt w p) = sent w /\ received (deliver_pkt w p) = received w /\
  map h_id (hosts (deliver_pkt w p)) = map h_id (hosts w).
Proof.
  unfold deliver_pkt, receive, upd_host. cbn. repeat split.
  rewrite map_map. apply map_ext. intros x. destruct (h_id x =? p_host p); [|reflexivity].
  destruct (find_bind x (snd (p_dst p))) as [b|]; [|reflexivity]. destruct (accepts _ _ _ _); reflexivity.
Qed.

(* what delivering one packet does to any socket *)
Theorem deliver_get_bind w p h' port' :
  get_bind (deliver_pkt w p) h' port' =
  match get_bind w h' port' with
  | Some b =>
      if (h' =? p_host p) && (port' =? snd (p_dst p)) && accepts (cap w) b (p_src p) (p_dst p)
      then Some (enqueue b (mk_dgram p)) else Some b
  | None => None
  end.
Proof.
  unfold deliver_pkt, receive, get_bind.
  rewrite find_host_upd.
  2:{ intros x. destruct (find_bind x _) as [b|]; [|reflexivity]. destruct (accepts _ _ _ _); reflexivity. }
  destruct (find_host w h') as [x|] eqn:Fh; cbn [option_map]; [|reflexivity].
  pose proof (find_host_id _ _ _ Fh) as Hx. rewrite Hx.
  destruct (N.eqb_spec h' (p_host p)) as [->|Nh]; cbn [andb]; [|now destruct (find_bind x port')].
  destruct (find_bind x (snd (p_dst p))) as [b0|] eqn:F0.
  - destruct (accepts (cap w) b0 (p_src p) (p_dst p)) eqn:Acc.
    + rewrite find_bind_upd by reflexivity.
      destruct (find_bind x port') as [b|] eqn:Fb; cbn [option_map]; [|reflexivity].
      rewrite (find_bind_port _ _ _ Fb).
      destruct (N.eqb_spec port' (snd (p_dst p))) as [->|Np]; cbn [andb]; [|reflexivity].
      rewrite Fb in F0. injection F0 as <-. now rewrite Acc.
    + destruct (find_bind x port') as [b|] eqn:Fb; [|reflexivity].
      destruct (N.eqb_spec port' (snd (p_dst p))) as [->|Np]; cbn [andb]; [|reflexivity].
      rewrite Fb in F0. injection F0 as <-. now rewrite Acc.
  - destruct (find_bind x port') as [b|] eqn:Fb; [|reflexivity].
    destruct (N.eqb_spec port' (snd (p_dst p))) as [->|Np]; cbn [andb]; [|reflexivity]. congruence.
Qed.

(* ---------------- the receive paths ---------------- *)

Lemma clip_firstn buflen payload :
  clip buflen payload = firstn (Nat.min (N.to_nat buflen) (length payload)) payload.
Proof. unfold clip. f_equal. rewrite N2Nat.inj_min, Nat2N.id. reflexivity. Qed.

Lemma with_bind_some w h port k hs b :
  find_host w h = Some hs -> find_bind hs port = Some b -> with_bind w h port k = k hs b.
Proof. intros A B. unfold with_bind. now rewrite A, B. Qed.

Lemma with_bind_none w h port k : get_bind w h port = None -> with_bind w h port k = (w, OErr 6).
Proof.
  unfold get_bind, with_bind. destruct (find_host w h) as [hs|]; [|reflexivity].
  destruct (find_bind hs port); [discriminate|reflexivity].
Qed.

Lemma get_bind_some w h port b :
  get_bind w h port = Some b -> exists hs, find_host w h = Some hs /\ find_bind hs port = Some b.
Proof. unfold get_bind. destruct (find_host w h) as [hs|]; [eauto|discriminate]. Qed.

(* try_recv_from / recv_from: the oldest datagram the socket holds, cut to the buffer *)
Theorem try_recv_spec w h port buflen w' o :
  step w (TryRecv h port buflen) = (w', o) ->
  match get_bind w h port with
  | None => w' = w /\ o = OErr 6
  | Some b =>
      match held b with
      | [] => w' = w /\ o = OErr 5
      | d :: rest =>
          o = ORecv (N.min buflen (N.of_nat (length (d_payload d)))) (d_origin d)
                    (firstn (Nat.min (N.to_nat buflen) (length (d_payload d))) (d_payload d)) /\
          (forall h' port', get_bind w' h' port' =
             if (h' =? h) && (port' =? port) then Some (set_queue b rest None) else get_bind w h' port') /\
          received w' = received w ++ [(d_sid d, h, port)] /\
          inflight w' = inflight w /\ groups w' = groups w /\ sent w' = sent w
      end
  end.
Proof.
  intros E. cbn [step] in E. destruct (get_bind w h port) as [b|] eqn:G.
  2:{ rewrite with_bind_none in E by exact G. injection E as <- <-. auto. }
  destruct (get_bind_some _ _ _ _ G) as (hs & Fh & Fb).
  rewrite (with_bind_some _ _ _ _ _ _ Fh Fb) in E. unfold held.
  assert (U : forall q h' port',
     get_bind (add_received (upd_host w h (fun hs0 => upd_bind hs0 port (fun b0 => set_queue b0 q None))) (0, h, port)) h' port' =
     if (h' =? h) && (port' =? port) then Some (set_queue b q None) else get_bind w h' port').
  { intros q h' port'. change (get_bind (add_received ?x _) h' port') with (get_bind x h' port').
    rewrite get_bind_upd by reflexivity.
    destruct (N.eqb_spec h' h) as [->|]; cbn; [|reflexivity].
    destruct (N.eqb_spec port' port) as [->|]; cbn; [|reflexivity]. now rewrite G. }
  destruct (b_stash b) as [d|] eqn:S.
  - injection E as <- <-. rewrite clip_firstn. repeat split; try reflexivity.
    intros h' port'. apply (U (b_queue b)).
  - destruct (b_queue b) as [|d q] eqn:Q.
    + injection E as <- <-. auto.
    + injection E as <- <-. rewrite clip_firstn. repeat split; try reflexivity.
      intros h' port'. apply (U q).
Qed.

(* readable(): moves the oldest queued datagram into the stash; the FIFO `held` is unchanged *)
Theorem readable_spec w h port w' o :
  step w (Readable h port) = (w', o) ->
  match get_bind w h port with
  | None => w' = w /\ o = OErr 6
  | Some b =>
      o = OReady (match held b with [] => false | _ => true end) /\
      (forall h' port', option_map held (get_bind w' h' port') = option_map held (get_bind w h' port')) /\
      received w' = received w /\ inflight w' = inflight w /\ groups w' = groups w
  end.
Proof.
  intros E. cbn [step] in E. destruct (get_bind w h port) as [b|] eqn:G.
  2:{ rewrite with_bind_none in E by exact G. injection E as <- <-. auto. }
  destruct (get_bind_some _ _ _ _ G) as (hs & Fh & Fb).
  rewrite (with_bind_some _ _ _ _ _ _ Fh Fb) in E. unfold held.
  destruct (b_stash b) as [d|] eqn:S.
  - injection E as <- <-. auto.
  - destruct (b_queue b) as [|d q] eqn:Q.
    + injection E as <- <-. auto.
    + injection E as <- <-. repeat split; try reflexivity.
      intros h' port'. rewrite get_bind_upd by reflexivity.
      destruct (N.eqb_spec h' h) as [->|]; cbn; [|reflexivity].
      destruct (N.eqb_spec port' port) as [->|]; cbn; [|reflexivity].
      rewrite G. cbn. unfold held. cbn. now rewrite S, Q.
Qed.
