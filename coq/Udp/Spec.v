(* TV.Udp.Spec — the declarative side of property C09, written from the
   property text and independently of the code path in Model.send_routes.
   No proofs in this file. *)
From TV.Lib Require Import Base.
From TV.Udp Require Import Model.
Open Scope N_scope.

(* Which (host, port) addresses a datagram sent from socket b of host h to dst
   is aimed at, in world w (everything is evaluated at the time of the send):
   - broadcast: every host that has the destination port bound, if the sender
     enabled SO_BROADCAST;
   - multicast: the current members of (group, port); the sender's own host
     only if the member socket there has multicast loop enabled;
   - a loopback address: the sender's own host;
   - a host address: that host. *)
Definition Targets (w : world) (hs : hostst) (b : bind) (dst : sockaddr) (th tp : N) : Prop :=
  tp = snd dst /\
  match fst dst with
  | Bcast => b_bcast b = true /\ exists x, In x (hosts w) /\ h_id x = th /\ port_assigned x tp = true
  | Mcast _ => In (th, tp) (grp_members (groups w) dst) /\ (th = h_id hs -> mloop_enabled hs tp = true)
  | Loop _ => th = h_id hs
  | HostIp x => th = x
  | Unspec | Other _ => False
  end.

(* The address a route must carry as its destination. *)
Definition route_dst_ok (dst : sockaddr) (r : route) : Prop :=
  match fst dst with
  | Bcast | Mcast _ => r_dst r = (HostIp (r_host r), snd dst)
  | _ => r_dst r = dst
  end.

(* Does socket b (on any host) take a datagram with these addresses, given the
   occupancy of its queue?  Bind address: wildcard with the same port, or the
   exact destination.  Connected peer: wildcard with the same port, or the
   exact source. *)
Definition Admits (c : N) (b : bind) (src dst : sockaddr) : Prop :=
  (match b_target b with
   | Some t => (fst t = Unspec /\ snd t = snd src) \/ t = src
   | None => True
   end) /\
  ((b_ip b = Unspec /\ b_port b = snd dst) \/ (b_ip b, b_port b) = dst) /\
  N.of_nat (length (b_queue b)) < c.

(* the socket a (host, port) address designates: lookups are by key, as in the code *)
Definition get_bind (w : world) (h port : N) : option bind :=
  match find_host w h with Some hs => find_bind hs port | None => None end.

(* well-formedness of a world (an invariant of every reachable state) *)
Definition member_bound (w : world) (m : N * N) : Prop :=
  exists b, get_bind w (fst m) (snd m) = Some b.

(* the group table: one entry per (group, port), members form a non-empty set *)
Definition gwf (g : list (sockaddr * list (N * N))) : Prop :=
  NoDup (map fst g) /\ forall k ms, In (k, ms) g -> NoDup ms /\ ms <> [].

Record wf (w : world) : Prop := {
  wf_ids : NoDup (map h_id (hosts w));
  wf_bindip : forall h port b, get_bind w h port = Some b -> is_unspec (b_ip b) || is_loop (b_ip b) = true;
  wf_gwf : gwf (groups w);
  (* a member joined with its own port and is a bound socket: a dropped socket is in no group *)
  wf_mem : forall key m, In m (grp_members (groups w) key) -> snd m = snd key /\ member_bound w m
}.

(* every datagram a socket holds, oldest first *)
Definition held (b : bind) : list dgram :=
  match b_stash b with Some d => d :: b_queue b | None => b_queue b end.

(* ghost bookkeeping: who may hold / have received the datagrams of which send *)
Definition from_send (sr : sendrec) (sid : N) (payload : list N) (origin : sockaddr) (h port : N) : Prop :=
  sr_sid sr = sid /\ sr_payload sr = payload /\ sr_src sr = origin /\ In (h, port) (sr_targets sr).

Definition pkt_ok (sn : list sendrec) (p : pkt) : Prop :=
  exists sr, In sr sn /\ from_send sr (fst (p_gid p)) (p_payload p) (p_src p) (p_host p) (snd (p_dst p)).

Record sound (w : world) : Prop := {
  snd_pkts : forall p, In p (inflight w) -> pkt_ok (sent w) p;
  snd_held : forall h port b d, get_bind w h port = Some b -> In d (held b) ->
      exists sr, In sr (sent w) /\ from_send sr (d_sid d) (d_payload d) (d_origin d) h port;
  snd_recv : forall sid h port, In (sid, h, port) (received w) ->
      exists sr, In sr (sent w) /\ sr_sid sr = sid /\ In (h, port) (sr_targets sr);
  snd_sids : forall sr, In sr (sent w) -> sr_sid sr < next_sid w
}.
