(* indexmap swap_remove and the multicast group table. *)
From Coq Require Import Permutation.
From TV.Lib Require Import Base.
From TV.Udp Require Import Model Spec Routes.
Open Scope N_scope.

(* ---------------- swap_remove ---------------- *)

Lemma index_of_split {A} (f : A -> bool) l i :
  index_of f l = Some i ->
  exists l1 x l2, l = l1 ++ x :: l2 /\ length l1 = i /\ f x = true /\ (forall y, In y l1 -> f y = false).
Proof.
  revert i. induction l as [|a l IH]; intros i; cbn; [discriminate|].
  destruct (f a) eqn:Fa.
  - intros [= <-]. exists [], a, l. repeat split; auto. intros y [].
  - destruct (index_of f l) as [j|] eqn:E; [|discriminate]. cbn. intros [= <-].
    destruct (IH j eq_refl) as (l1 & x & l2 & -> & L & Fx & Hl1).
    exists (a :: l1), x, l2. repeat split; cbn; auto. intros y [<-|Hy]; auto.
Qed.

Lemma index_of_none {A} (f : A -> bool) l : index_of f l = None -> forall y, In y l -> f y = false.
Proof.
  induction l as [|a l IH]; cbn; [intros _ y []|]. destruct (f a) eqn:Fa; [discriminate|].
  destruct (index_of f l); [discriminate|]. intros _ y [<-|Hy]; auto.
Qed.

Lemma swap_remove_at_perm {A} (l1 : list A) x l2 :
  Permutation (swap_remove_at (length l1) (l1 ++ x :: l2)) (l1 ++ l2).
Proof.
  unfold swap_remove_at. destruct (exists_last (l := x :: l2)) as (l' & z & E); [discriminate|].
  rewrite app_length. cbn [length].
  assert (R : rev (l1 ++ x :: l2) = z :: rev l' ++ rev l1).
  { rewrite E, app_assoc, rev_app_distr. cbn. now rewrite rev_app_distr. }
  rewrite R.
  destruct l2 as [|y l2].
  - match goal with |- context [Nat.eqb ?a ?b] => destruct (Nat.eqb_spec a b) as [Q|Q] end; [|cbn in Q; lia].
    rewrite removelast_app by discriminate. cbn. now rewrite !app_nil_r.
  - match goal with |- context [Nat.eqb ?a ?b] => destruct (Nat.eqb_spec a b) as [Q|Q] end; [cbn in Q; lia|].
    destruct l' as [|x' l'']; [destruct l2; discriminate|]. cbn in E. injection E as <- E.
    rewrite firstn_app, firstn_all, Nat.sub_diag. cbn [firstn]. rewrite app_nil_r.
    rewrite removelast_app by discriminate.
    assert (RL : removelast (x :: y :: l2) = x :: l'').
    { rewrite E. change (x :: l'' ++ [z]) with ((x :: l'') ++ [z]). apply removelast_last. }
    rewrite RL.
    replace (skipn (S (length l1)) (l1 ++ x :: l'')) with l''.
    2:{ rewrite skipn_app. replace (S (length l1) - length l1)%nat with 1%nat by lia.
        rewrite skipn_all2 by lia. reflexivity. }
    rewrite E. apply Permutation_app_head. apply Permutation_cons_append.
Qed.

Lemma swap_remove_spec {A} (f : A -> bool) l :
  (exists l1 x l2, l = l1 ++ x :: l2 /\ f x = true /\ (forall y, In y l1 -> f y = false) /\
                   Permutation (swap_remove f l) (l1 ++ l2)) \/
  ((forall y, In y l -> f y = false) /\ swap_remove f l = l).
Proof.
  unfold swap_remove. destruct (index_of f l) as [i|] eqn:E.
  - left. destruct (index_of_split f l i E) as (l1 & x & l2 & -> & <- & Fx & H1).
    exists l1, x, l2. repeat split; auto. apply swap_remove_at_perm.
  - right. split; [apply index_of_none, E|reflexivity].
Qed.

Lemma swap_remove_In {A} (f : A -> bool) l y : In y (swap_remove f l) -> In y l.
Proof.
  destruct (swap_remove_spec f l) as [(l1 & x & l2 & -> & _ & _ & P)|[_ ->]]; [|auto].
  intros H. apply (Permutation_in _ P) in H. apply in_app_or in H. apply in_or_app. cbn. tauto.
Qed.

Lemma swap_remove_NoDup {A} (f : A -> bool) l : NoDup l -> NoDup (swap_remove f l).
Proof.
  destruct (swap_remove_spec f l) as [(l1 & x & l2 & -> & _ & _ & P)|[_ ->]]; [|auto].
  intros H. apply NoDup_remove_1 in H. apply (Permutation_NoDup (Permutation_sym P) H).
Qed.

(* removing "the" element m (f = equality with m) from a duplicate-free list *)
Lemma swap_remove_eq_In {A} (eqb : A -> A -> bool) (Heq : forall a b, eqb a b = true <-> a = b) m l y :
  NoDup l -> (In y (swap_remove (eqb m) l) <-> In y l /\ y <> m).
Proof.
  intros ND. destruct (swap_remove_spec (eqb m) l) as [(l1 & x & l2 & -> & Fx & _ & P)|[Hn ->]].
  - apply Heq in Fx. subst x. apply NoDup_remove_2 in ND.
    split.
    + intros H. apply (Permutation_in _ P) in H. split; [apply in_app_or in H; apply in_or_app; cbn; tauto|].
      intros ->. contradiction.
    + intros [H Ne]. apply (Permutation_in _ (Permutation_sym P)). apply in_app_or in H. apply in_or_app.
      cbn in H. destruct H as [H|[H|H]]; auto. now destruct Ne.
  - split; [|tauto]. intros H. split; [assumption|]. intros ->.
    specialize (Hn _ H). assert (eqb m m = true) by now apply Heq. congruence.
Qed.

(* ---------------- the group table ---------------- *)

Definition gtable := list (sockaddr * list (N * N)).

Lemma grp_members_spec g key m : NoDup (map fst g) ->
  (In m (grp_members g key) <-> exists ms, In (key, ms) g /\ In m ms).
Proof.
  intros ND. split; [apply grp_members_In|]. intros (ms & Hg & Hm). now rewrite (grp_members_of g key ms ND Hg).
Qed.

Lemma grp_contains_In g key m : grp_contains g key m = true <-> In m (grp_members g key).
Proof.
  unfold grp_contains. rewrite existsb_exists. split.
  - intros (x & Hx & E). apply mem_eqb_eq in E. now subst.
  - intros H. exists m. split; [assumption|]. now apply mem_eqb_eq.
Qed.

Lemma existsb_key g key : existsb (fun e : sockaddr * list (N * N) => sa_eqb (fst e) key) g = true <-> In key (map fst g).
Proof.
  rewrite existsb_exists. split.
  - intros ([k ms] & Hin & E). apply sa_eqb_eq in E. cbn in E. subst. apply in_map_iff. exists (key, ms). auto.
  - intros H. apply in_map_iff in H as ([k ms] & <- & Hin). exists (k, ms). split; [assumption|]. now apply sa_eqb_eq.
Qed.

(* entries of a table after rewriting the entry of one key *)
Lemma map_key_entries (g : gtable) key (f : list (N * N) -> list (N * N)) k ms :
  In (k, ms) (map (fun e => if sa_eqb (fst e) key then (fst e, f (snd e)) else e) g) <->
  (k <> key /\ In (k, ms) g) \/ (k = key /\ exists ms0, In (key, ms0) g /\ ms = f ms0).
Proof.
  rewrite in_map_iff. split.
  - intros ([k0 ms0] & E & Hin). cbn in E. destruct (sa_eqb k0 key) eqn:Q.
    + apply sa_eqb_eq in Q. subst k0. injection E as <- <-. right. eauto.
    + injection E as <- <-. left. split; [|assumption]. intros ->.
      assert (sa_eqb key key = true) by now apply sa_eqb_eq. congruence.
  - intros [[Ne Hin]|[-> (ms0 & Hin & ->)]].
    + exists (k, ms). split; [|assumption]. cbn. destruct (sa_eqb k key) eqn:Q; [apply sa_eqb_eq in Q; contradiction|reflexivity].
    + exists (key, ms0). split; [|assumption]. cbn. replace (sa_eqb key key) with true by (symmetry; now apply sa_eqb_eq). reflexivity.
Qed.

Lemma map_key_fst (g : gtable) key (f : list (N * N) -> list (N * N)) :
  map fst (map (fun e => if sa_eqb (fst e) key then (fst e, f (snd e)) else e) g) = map fst g.
Proof. rewrite map_map. apply map_ext. intros [k ms]; cbn. now destruct (sa_eqb k key). Qed.

(* ---- join ---- *)

Lemma grp_join_entries g key m k ms : NoDup (map fst g) ->
  (In (k, ms) (grp_join g key m) <->
   (k <> key /\ In (k, ms) g) \/
   (k = key /\ ((exists ms0, In (key, ms0) g /\ ms = if existsb (mem_eqb m) ms0 then ms0 else ms0 ++ [m]) \/
                (~ In key (map fst g) /\ ms = [m])))).
Proof.
  intros ND. unfold grp_join. destruct (existsb _ g) eqn:Ex.
  - rewrite (map_key_entries g key (fun ms0 => if existsb (mem_eqb m) ms0 then ms0 else ms0 ++ [m])).
    apply existsb_key in Ex. split; [tauto|]. intros [H|[-> [H|[H _]]]]; [tauto|tauto|contradiction].
  - assert (Nk : ~ In key (map fst g)). { rewrite <- existsb_key. congruence. }
    rewrite in_app_iff. cbn. split.
    + intros [H|[[= <- <-]|[]]].
      * left. split; [|assumption]. intros ->. apply Nk. apply in_map_iff. exists (key, ms). auto.
      * right. split; [reflexivity|]. right. auto.
    + intros [[_ H]|[-> [(ms0 & H & _)|[_ ->]]]]; [tauto| |tauto].
      exfalso. apply Nk. apply in_map_iff. exists (key, ms0). auto.
Qed.

Lemma grp_join_keys g key m : NoDup (map fst g) -> NoDup (map fst (grp_join g key m)).
Proof.
  intros ND. unfold grp_join. destruct (existsb _ g) eqn:Ex.
  - rewrite map_map. erewrite map_ext; [exact ND|]. intros [k ms]; cbn. now destruct (sa_eqb k key).
  - rewrite map_app. cbn. apply NoDup_app_iff. repeat split; [assumption|repeat constructor; intros []|].
    intros x Hx [<-|[]]. apply existsb_key in Hx. congruence.
Qed.

Lemma grp_join_gwf g key m : gwf g -> gwf (grp_join g key m).
Proof.
  intros [ND E]. split; [now apply grp_join_keys|]. intros k ms H.
  apply grp_join_entries in H; [|assumption].
  destruct H as [[_ H]|[-> [(ms0 & H & ->)|[_ ->]]]].
  - eauto.
  - destruct (E _ _ H) as [N0 Ne]. destruct (existsb (mem_eqb m) ms0) eqn:X; [auto|]. split.
    + apply NoDup_app_iff. repeat split; [assumption|repeat constructor; intros []|].
      intros x Hx [E'|[]]. subst x. assert (existsb (mem_eqb m) ms0 = true); [|congruence].
      apply existsb_exists. exists m. split; [assumption|]. now apply mem_eqb_eq.
    + destruct ms0; discriminate.
  - split; [repeat constructor; intros []|discriminate].
Qed.

Lemma grp_join_members g key m key' m' : NoDup (map fst g) ->
  (In m' (grp_members (grp_join g key m) key') <->
   In m' (grp_members g key') \/ (key' = key /\ m' = m)).
Proof.
  intros ND. rewrite !grp_members_spec by (try apply grp_join_keys; assumption). split.
  - intros (ms & H & Hm). apply grp_join_entries in H; [|assumption].
    destruct H as [[_ H]|[-> [(ms0 & H & ->)|[_ ->]]]].
    + left. eauto.
    + destruct (existsb (mem_eqb m) ms0); [left; eauto|]. apply in_app_or in Hm as [Hm|[<-|[]]]; [left; eauto|right; auto].
    + destruct Hm as [<-|[]]. right; auto.
  - intros [(ms & H & Hm)|[-> ->]].
    + destruct (sa_eqb key' key) eqn:Q.
      * apply sa_eqb_eq in Q. subst key'.
        exists (if existsb (mem_eqb m) ms then ms else ms ++ [m]). split.
        -- apply grp_join_entries; [assumption|]. right. split; [reflexivity|]. left. eauto.
        -- destruct (existsb (mem_eqb m) ms); [assumption|apply in_or_app; now left].
      * exists ms. split; [|assumption]. apply grp_join_entries; [assumption|]. left. split; [|assumption].
        intros ->. assert (sa_eqb key key = true) by now apply sa_eqb_eq. congruence.
    + destruct (existsb (fun e : sockaddr * list (N * N) => sa_eqb (fst e) key) g) eqn:Ex;
        [apply existsb_key in Ex as Hk|assert (Hk : ~ In key (map fst g)) by (rewrite <- existsb_key; congruence)].
      * apply in_map_iff in Hk as ([k ms0] & <- & Hin). cbn.
        exists (if existsb (mem_eqb m) ms0 then ms0 else ms0 ++ [m]). split.
        -- apply grp_join_entries; [assumption|]. right. split; [reflexivity|]. left. eauto.
        -- destruct (existsb (mem_eqb m) ms0) eqn:X; [|apply in_or_app; right; now left].
           apply existsb_exists in X as (x & Hx & E). apply mem_eqb_eq in E. now subst.
      * exists [m]. split; [|now left]. apply grp_join_entries; [assumption|]. right. split; [reflexivity|]. right. auto.
Qed.

(* ---- leave ---- *)

Lemma swap_remove_key_In (l : gtable) key e : NoDup (map fst l) ->
  (In e (swap_remove (fun e => sa_eqb (fst e) key) l) <-> In e l /\ fst e <> key).
Proof.
  intros ND. destruct (swap_remove_spec (fun e : sockaddr * list (N * N) => sa_eqb (fst e) key) l)
    as [(l1 & x & l2 & -> & Fx & _ & P)|[Hn ->]].
  - apply sa_eqb_eq in Fx. rewrite map_app in ND. cbn in ND. apply NoDup_remove_2 in ND.
    rewrite <- map_app in ND. split.
    + intros H. apply (Permutation_in _ P) in H. split; [apply in_app_or in H; apply in_or_app; cbn; tauto|].
      intros Q. apply ND. apply in_map_iff. exists e. split; [congruence|assumption].
    + intros [H Ne]. apply (Permutation_in _ (Permutation_sym P)). apply in_app_or in H. apply in_or_app.
      cbn in H. destruct H as [H|[H|H]]; auto. subst e. contradiction.
  - split; [|tauto]. intros H. split; [assumption|]. intros Q. specialize (Hn _ H). cbn in Hn.
    assert (sa_eqb (fst e) key = true) by now apply sa_eqb_eq. congruence.
Qed.

Lemma swap_remove_key_NoDup (l : gtable) key : NoDup (map fst l) ->
  NoDup (map fst (swap_remove (fun e => sa_eqb (fst e) key) l)).
Proof.
  intros ND. destruct (swap_remove_spec (fun e : sockaddr * list (N * N) => sa_eqb (fst e) key) l)
    as [(l1 & x & l2 & -> & _ & _ & P)|[_ ->]]; [|assumption].
  apply (Permutation_NoDup (Permutation_sym (Permutation_map fst P))).
  rewrite map_app in *. cbn in ND. now apply NoDup_remove_1 in ND.
Qed.

Definition leave1 (g : gtable) key m : gtable :=
  map (fun e => if sa_eqb (fst e) key then (fst e, swap_remove (mem_eqb m) (snd e)) else e) g.

Lemma leave1_entries g key m k ms :
  In (k, ms) (leave1 g key m) <->
  (k <> key /\ In (k, ms) g) \/ (k = key /\ exists ms0, In (key, ms0) g /\ ms = swap_remove (mem_eqb m) ms0).
Proof. apply (map_key_entries g key (swap_remove (mem_eqb m))). Qed.

Lemma leave1_keys g key m : map fst (leave1 g key m) = map fst g.
Proof. apply (map_key_fst g key (swap_remove (mem_eqb m))). Qed.

Lemma grp_leave_entries g key m k ms : gwf g ->
  (In (k, ms) (grp_leave g key m) <->
   (k <> key /\ In (k, ms) g) \/
   (k = key /\ ms <> [] /\ exists ms0, In (key, ms0) g /\ ms = swap_remove (mem_eqb m) ms0)).
Proof.
  intros [ND E]. unfold grp_leave. fold (leave1 g key m).
  assert (ND1 : NoDup (map fst (leave1 g key m))) by now rewrite leave1_keys.
  destruct (find (fun e => sa_eqb (fst e) key) (leave1 g key m)) as [[k0 ms1]|] eqn:F.
  - pose proof F as F'. apply find_some in F' as [Hin Q]. cbn in Q. apply sa_eqb_eq in Q. subst k0.
    assert (U : forall ms', In (key, ms') (leave1 g key m) -> ms' = ms1).
    { intros ms' H'. pose proof (find_fst_NoDup sa_eqb sa_eqb_eq _ key ms' ND1 H') as F2. congruence. }
    destruct ms1 as [|a ms1].
    + rewrite swap_remove_key_In by assumption. cbn [fst]. rewrite leave1_entries. split.
      * intros [[H|[-> H]] Ne]; [left; exact H|contradiction].
      * intros [[Ne H]|[-> (Ne & ms0 & H & ->)]]; [split; [left; auto|exact Ne]|].
        exfalso. apply Ne. apply U. apply leave1_entries. right. eauto.
    + rewrite leave1_entries. split.
      * intros [H|[-> (ms0 & H & ->)]]; [left; exact H|]. right. split; [reflexivity|]. split; [|eauto].
        rewrite (U (swap_remove (mem_eqb m) ms0)); [discriminate|]. apply leave1_entries. right. eauto.
      * intros [H|[-> (_ & H)]]; [left; exact H|right; auto].
  - rewrite leave1_entries. split.
    + intros [H|[-> (ms0 & H & ->)]]; [left; exact H|]. exfalso.
      assert (Hin : In (key, swap_remove (mem_eqb m) ms0) (leave1 g key m)) by (apply leave1_entries; right; eauto).
      pose proof (find_fst_NoDup sa_eqb sa_eqb_eq _ key _ ND1 Hin). congruence.
    + intros [H|[-> (_ & H)]]; [left; exact H|right; auto].
Qed.

Lemma grp_leave_keys g key m : NoDup (map fst g) -> NoDup (map fst (grp_leave g key m)).
Proof.
  intros ND. unfold grp_leave. fold (leave1 g key m).
  assert (ND1 : NoDup (map fst (leave1 g key m))) by now rewrite leave1_keys.
  destruct (find _ (leave1 g key m)) as [[k0 [|a ms1]]|]; try assumption. now apply swap_remove_key_NoDup.
Qed.

Lemma grp_leave_gwf g key m : gwf g -> gwf (grp_leave g key m).
Proof.
  intros G. pose proof G as [ND E]. split; [now apply grp_leave_keys|]. intros k ms H.
  apply grp_leave_entries in H; [|assumption].
  destruct H as [[_ H]|[-> (Ne & ms0 & H & ->)]]; [eauto|].
  split; [apply swap_remove_NoDup; now destruct (E _ _ H)|exact Ne].
Qed.

Lemma grp_leave_members g key m key' m' : gwf g ->
  (In m' (grp_members (grp_leave g key m) key') <->
   In m' (grp_members g key') /\ ~ (key' = key /\ m' = m)).
Proof.
  intros G. pose proof G as [ND E].
  rewrite !grp_members_spec by (try apply grp_leave_keys; assumption). split.
  - intros (ms & H & Hm). apply grp_leave_entries in H; [|assumption].
    destruct H as [[Ne H]|[-> (_ & ms0 & H & ->)]].
    + split; [eauto|]. intros [Q _]. contradiction.
    + destruct (E _ _ H) as [N0 _]. apply (swap_remove_eq_In mem_eqb mem_eqb_eq m ms0 m' N0) in Hm as [Hm Ne].
      split; [eauto|]. intros [_ Q]. contradiction.
  - intros [(ms & H & Hm) Hn]. destruct (sa_eqb key' key) eqn:Q.
    + apply sa_eqb_eq in Q. subst key'. destruct (E _ _ H) as [N0 _].
      assert (Hm' : In m' (swap_remove (mem_eqb m) ms)).
      { apply (swap_remove_eq_In mem_eqb mem_eqb_eq m ms m' N0). split; [assumption|]. intros ->. apply Hn. auto. }
      exists (swap_remove (mem_eqb m) ms). split; [|assumption].
      apply grp_leave_entries; [assumption|]. right. split; [reflexivity|]. split; [|eauto].
      intros Z. rewrite Z in Hm'. contradiction.
    + exists ms. split; [|assumption]. apply grp_leave_entries; [assumption|]. left. split; [|assumption].
      intros ->. assert (sa_eqb key key = true) by now apply sa_eqb_eq. congruence.
Qed.

(* ---- leave_all ---- *)

Lemma grp_leave_all_entries g m k ms :
  In (k, ms) (grp_leave_all g m) <->
  ms <> [] /\ exists ms0, In (k, ms0) g /\ ms = swap_remove (mem_eqb m) ms0.
Proof.
  unfold grp_leave_all. rewrite filter_In, in_map_iff. cbn [snd]. split.
  - intros [([k0 ms0] & [= <- <-] & Hin) Ne]. split; [destruct (swap_remove _ ms0); [discriminate|discriminate]|eauto].
  - intros (Ne & ms0 & Hin & ->). split; [exists (k, ms0); auto|].
    destruct (swap_remove (mem_eqb m) ms0); [contradiction|reflexivity].
Qed.

Lemma NoDup_map_fst_filter_map (g : gtable) (f : list (N * N) -> list (N * N)) (p : sockaddr * list (N * N) -> bool) :
  NoDup (map fst g) -> NoDup (map fst (filter p (map (fun e => (fst e, f (snd e))) g))).
Proof.
  induction g as [|[k ms] g IH]; cbn; [constructor|]. intros ND. inversion ND as [|? ? Hn Hd]; subst.
  destruct (p (k, f ms)); cbn; [constructor|]; auto.
  intro Hin. apply Hn. apply in_map_iff in Hin as ([k1 ms1] & <- & Hin). apply filter_In in Hin as [Hin _].
  apply in_map_iff in Hin as ([k2 ms2] & [= <- <-] & Hin). apply in_map_iff. exists (k2, ms2). auto.
Qed.

Lemma grp_leave_all_gwf g m : gwf g -> gwf (grp_leave_all g m).
Proof.
  intros [ND E]. split; [apply NoDup_map_fst_filter_map, ND|]. intros k ms H.
  apply grp_leave_all_entries in H as (Ne & ms0 & H & ->). split; [|exact Ne].
  apply swap_remove_NoDup. now destruct (E _ _ H).
Qed.

Lemma grp_leave_all_members g m key' m' : gwf g ->
  (In m' (grp_members (grp_leave_all g m) key') <-> In m' (grp_members g key') /\ m' <> m).
Proof.
  intros G. pose proof G as [ND E]. pose proof (grp_leave_all_gwf g m G) as [ND' _].
  rewrite !grp_members_spec by assumption. split.
  - intros (ms & H & Hm). apply grp_leave_all_entries in H as (_ & ms0 & H & ->).
    destruct (E _ _ H) as [N0 _]. apply (swap_remove_eq_In mem_eqb mem_eqb_eq m ms0 m' N0) in Hm as [Hm Ne]. eauto.
  - intros [(ms & H & Hm) Ne]. destruct (E _ _ H) as [N0 _].
    assert (Hm' : In m' (swap_remove (mem_eqb m) ms)) by (apply (swap_remove_eq_In mem_eqb mem_eqb_eq m ms m' N0); auto).
    exists (swap_remove (mem_eqb m) ms). split; [|assumption]. apply grp_leave_all_entries. split; [|eauto].
    intros Z. rewrite Z in Hm'. contradiction.
Qed.
