(* TV.Udp.Model — executable model of turmoil::net UDP routing:
   crates/turmoil/src/net/udp.rs (UdpSocket::send, MulticastGroups, Rx, Drop),
   crates/turmoil/src/host.rs (struct Udp: bind / connect / receive_from_network /
   unbind, fn matches, fn is_same).  No proofs in this file.

   Correspondence of names:
     true_src          = the first lines of UdpSocket::send (source address rewriting)
     send_routes       = the `match dst` of UdpSocket::send (four classes); a route is
                         one send_loopback(..) or one successful world.send_message(..)
     link_exists       = Topology::enqueue_message finding a link (else ConnectionRefused)
     receive           = Udp::receive_from_network
     addr_matches      = host.rs fn matches
     grp_join/leave/leave_all = MulticastGroups::join / leave / leave_all
     swap_remove       = indexmap swap_remove (order of the remaining members matters
                         for the order in which a multicast send enqueues)
     try_recv / readable = Rx::try_recv_from / Rx::readable (the one-datagram stash)
     step DropSock     = Drop for UdpSocket (leave_all, then Udp::unbind)
   The network is not part of the model: a route produced by a send sits in
   `inflight` until a `Deliver`/`Lose` event names it (loopback routes are
   delivered by `LoopFlush h bound`, the spawned send_loopback tasks of host h firing).
   Theorems quantify over all such schedules.  Ghost fields (never read by the
   transitions): send ids, the `sent` log, the `received` log. *)
From TV.Lib Require Import Base.
Open Scope N_scope.

(* ---------------- addresses ---------------- *)

Inductive ip :=
| Unspec                 (* 0.0.0.0 / :: *)
| Loop (k : N)           (* 127.0.0.k / ::1 *)
| HostIp (h : N)         (* the address of registered host h *)
| Bcast                  (* 255.255.255.255 *)
| Mcast (g : N)          (* a multicast group address *)
| Other (x : N).         (* any other address: no host owns it *)

Definition ip_eqb (a b : ip) : bool :=
  match a, b with
  | Unspec, Unspec | Bcast, Bcast => true
  | Loop x, Loop y | HostIp x, HostIp y | Mcast x, Mcast y | Other x, Other y => x =? y
  | _, _ => false
  end.

Definition sockaddr := (ip * N)%type.
Definition sa_eqb (a b : sockaddr) : bool := ip_eqb (fst a) (fst b) && (snd a =? snd b).

Definition is_loop (a : ip) := match a with Loop _ => true | _ => false end.
Definition is_unspec (a : ip) := match a with Unspec => true | _ => false end.

(* host.rs fn matches(bind, dst) *)
Definition addr_matches (bind dst : sockaddr) : bool :=
  (is_unspec (fst bind) && (snd bind =? snd dst)) || sa_eqb bind dst.

(* ---------------- state ---------------- *)

Record dgram := { d_payload : list N; d_origin : sockaddr; d_sid : N (* ghost *) }.

Record bind := {
  b_port : N;
  b_ip : ip;                       (* bind address: Unspec or Loop *)
  b_target : option sockaddr;      (* UdpSocket::connect *)
  b_bcast : bool;
  b_mloop : bool;
  b_queue : list dgram;            (* the mpsc channel *)
  b_stash : option dgram           (* Rx::buffer *)
}.

Record hostst := { h_id : N; h_binds : list bind }.

Inductive via := Net | Lo.
Record pkt := { p_gid : N * N;      (* ghost: (send id, index of the route) *)
                p_via : via; p_host : N; p_src : sockaddr; p_dst : sockaddr;
                p_payload : list N }.

Record sendrec := { sr_sid : N; sr_host : N; sr_port : N; sr_src : sockaddr; sr_dst : sockaddr;
                    sr_payload : list N; sr_targets : list (N * N) }.

Record world := {
  hosts : list hostst;                                (* World::hosts, registration order *)
  groups : list (sockaddr * list (N * N));            (* MulticastGroups: (group, port) -> members (host, port) *)
  cap : N;                                            (* udp_capacity *)
  inflight : list pkt;
  next_sid : N;                                       (* ghost *)
  sent : list sendrec;                                (* ghost *)
  received : list (N * N * N)                         (* ghost: (send id, host, port) of every datagram handed to the application *)
}.

Definition set_hosts w hs :=
  {| hosts := hs; groups := groups w; cap := cap w; inflight := inflight w; next_sid := next_sid w;
     sent := sent w; received := received w |}.
Definition set_groups w g :=
  {| hosts := hosts w; groups := g; cap := cap w; inflight := inflight w; next_sid := next_sid w;
     sent := sent w; received := received w |}.
Definition set_inflight w l :=
  {| hosts := hosts w; groups := groups w; cap := cap w; inflight := l; next_sid := next_sid w;
     sent := sent w; received := received w |}.

Definition find_host (w : world) (h : N) : option hostst := find (fun x => h_id x =? h) (hosts w).
Definition find_bind (hs : hostst) (port : N) : option bind := find (fun b => b_port b =? port) (h_binds hs).
Definition port_assigned (hs : hostst) (port : N) : bool := existsb (fun b => b_port b =? port) (h_binds hs).

Definition upd_host (w : world) (h : N) (f : hostst -> hostst) : world :=
  set_hosts w (map (fun x => if h_id x =? h then f x else x) (hosts w)).
Definition upd_bind (hs : hostst) (port : N) (f : bind -> bind) : hostst :=
  {| h_id := h_id hs; h_binds := map (fun b => if b_port b =? port then f b else b) (h_binds hs) |}.

Definition set_queue b q s :=
  {| b_port := b_port b; b_ip := b_ip b; b_target := b_target b; b_bcast := b_bcast b; b_mloop := b_mloop b;
     b_queue := q; b_stash := s |}.
Definition set_target b t :=
  {| b_port := b_port b; b_ip := b_ip b; b_target := t; b_bcast := b_bcast b; b_mloop := b_mloop b;
     b_queue := b_queue b; b_stash := b_stash b |}.
Definition set_flags b bc ml :=
  {| b_port := b_port b; b_ip := b_ip b; b_target := b_target b; b_bcast := bc; b_mloop := ml;
     b_queue := b_queue b; b_stash := b_stash b |}.

(* ---------------- indexmap::swap_remove ---------------- *)

Fixpoint index_of {A} (f : A -> bool) (l : list A) : option nat :=
  match l with
  | [] => None
  | x :: r => if f x then Some O else option_map S (index_of f r)
  end.

(* remove position i by moving the last element into it *)
Definition swap_remove_at {A} (i : nat) (l : list A) : list A :=
  match rev l with
  | [] => []
  | lastx :: _ =>
      if Nat.eqb (S i) (length l) then removelast l
      else firstn i l ++ lastx :: skipn (S i) (removelast l)
  end.

Definition swap_remove {A} (f : A -> bool) (l : list A) : list A :=
  match index_of f l with Some i => swap_remove_at i l | None => l end.

(* ---------------- multicast groups ---------------- *)

Definition mem_eqb (a b : N * N) : bool := (fst a =? fst b) && (snd a =? snd b).

Definition grp_members (g : list (sockaddr * list (N * N))) (key : sockaddr) : list (N * N) :=
  match find (fun e => sa_eqb (fst e) key) g with Some e => snd e | None => [] end.

Definition grp_contains g (key : sockaddr) (m : N * N) : bool := existsb (mem_eqb m) (grp_members g key).

(* MulticastGroups::join *)
Definition grp_join (g : list (sockaddr * list (N * N))) (key : sockaddr) (m : N * N) :=
  if existsb (fun e => sa_eqb (fst e) key) g then
    map (fun e => if sa_eqb (fst e) key
                  then (fst e, if existsb (mem_eqb m) (snd e) then snd e else snd e ++ [m])
                  else e) g
  else g ++ [(key, [m])].

(* MulticastGroups::leave: swap_remove the member, then swap_remove the group if empty *)
Definition grp_leave (g : list (sockaddr * list (N * N))) (key : sockaddr) (m : N * N) :=
  let g1 := map (fun e => if sa_eqb (fst e) key then (fst e, swap_remove (mem_eqb m) (snd e)) else e) g in
  match find (fun e => sa_eqb (fst e) key) g1 with
  | Some (_, []) => swap_remove (fun e => sa_eqb (fst e) key) g1
  | _ => g1
  end.

(* MulticastGroups::leave_all: swap_remove from every group, then retain the non-empty ones *)
Definition grp_leave_all (g : list (sockaddr * list (N * N))) (m : N * N) :=
  filter (fun e => match snd e with [] => false | _ => true end)
         (map (fun e => (fst e, swap_remove (mem_eqb m) (snd e))) g).

(* ---------------- send ---------------- *)

Inductive sres := SOk | SPermissionDenied | SRefused.

Record route := { r_via : via; r_host : N; r_src : sockaddr; r_dst : sockaddr }.

(* the source address a datagram carries *)
Definition true_src (h : N) (b : bind) (dst : sockaddr) : sockaddr :=
  let ip0 := if is_loop (fst dst) then fst dst else b_ip b in
  let ip1 := if is_unspec ip0 then HostIp h else ip0 in
  (ip1, b_port b).

Definition host_registered (w : world) (h : N) : bool := existsb (fun x => h_id x =? h) (hosts w).

(* Topology::enqueue_message: a link exists between two distinct registered hosts *)
Definition link_exists (w : world) (a b : ip) : bool :=
  match a, b with
  | HostIp x, HostIp y => host_registered w x && host_registered w y && negb (x =? y)
  | _, _ => false
  end.

(* try_for_each over the destinations: stops at the first error *)
Fixpoint route_each (w : world) (src : sockaddr) (loop_ok : N -> bool) (dsts : list (N * N))
  : sres * list route :=
  match dsts with
  | [] => (SOk, [])
  | (hd, pd) :: r =>
      let dst := (HostIp hd, pd) in
      if ip_eqb (fst src) (fst dst) then
        let '(res, rs) := route_each w src loop_ok r in
        (res, if loop_ok pd then {| r_via := Lo; r_host := hd; r_src := src; r_dst := dst |} :: rs else rs)
      else if link_exists w (fst src) (fst dst) then
        let '(res, rs) := route_each w src loop_ok r in
        (res, {| r_via := Net; r_host := hd; r_src := src; r_dst := dst |} :: rs)
      else (SRefused, [])
  end.

Definition mloop_enabled (hs : hostst) (port : N) : bool :=
  match find_bind hs port with Some b => b_mloop b | None => true end.

Definition send_routes (w : world) (hs : hostst) (b : bind) (dst : sockaddr) : sres * list route :=
  let h := h_id hs in
  let src := true_src h b dst in
  match fst dst with
  | Bcast =>
      if b_bcast b then
        route_each w src (fun _ => true)
          (map (fun x => (h_id x, snd dst)) (filter (fun x => port_assigned x (snd dst)) (hosts w)))
      else (SPermissionDenied, [])
  | Mcast _ => route_each w src (mloop_enabled hs) (grp_members (groups w) dst)
  | _ =>
      if is_loop (fst dst) || ip_eqb (fst src) (fst dst) then
        (SOk, [{| r_via := Lo; r_host := h; r_src := src; r_dst := dst |}])
      else if link_exists w (fst src) (fst dst) then
        match fst dst with
        | HostIp hd => (SOk, [{| r_via := Net; r_host := hd; r_src := src; r_dst := dst |}])
        | _ => (SRefused, [])
        end
      else (SRefused, [])
  end.

(* ghost numbering: the network routes of one send are 0, 1, 2, .. in enqueue
   order, its loopback routes 1000, 1001, .. *)
Fixpoint number_routes (sid : N) (kn kl : N) (payload : list N) (rs : list route) : list pkt :=
  match rs with
  | [] => []
  | r :: rest =>
      {| p_gid := (sid, match r_via r with Net => kn | Lo => kl end);
         p_via := r_via r; p_host := r_host r; p_src := r_src r; p_dst := r_dst r; p_payload := payload |}
      :: match r_via r with
         | Net => number_routes sid (kn + 1) kl payload rest
         | Lo => number_routes sid kn (kl + 1) payload rest
         end
  end.

(* ---------------- receive ---------------- *)

(* Udp::receive_from_network on one bind: Some b' = enqueued *)
Definition accepts (c : N) (b : bind) (src dst : sockaddr) : bool :=
  match b_target b with Some t => addr_matches t src | None => true end
  && addr_matches (b_ip b, b_port b) dst
  && (N.of_nat (length (b_queue b)) <? c).

Definition receive (w : world) (h : N) (src dst : sockaddr) (payload : list N) (sid : N) : world :=
  upd_host w h (fun hs =>
    match find_bind hs (snd dst) with
    | Some b =>
        if accepts (cap w) b src dst then
          upd_bind hs (snd dst) (fun b => set_queue b (b_queue b ++ [{| d_payload := payload; d_origin := src; d_sid := sid |}]) (b_stash b))
        else hs
    | None => hs
    end).

Definition deliver_pkt (w : world) (p : pkt) : world :=
  receive w (p_host p) (p_src p) (p_dst p) (p_payload p) (fst (p_gid p)).

Definition gid_eqb (a b : N * N) : bool := (fst a =? fst b) && (snd a =? snd b).

Fixpoint take_pkt (f : pkt -> bool) (l : list pkt) : option pkt * list pkt :=
  match l with
  | [] => (None, [])
  | p :: r => if f p then (Some p, r) else let '(o, r') := take_pkt f r in (o, p :: r')
  end.

(* ---------------- events ---------------- *)

Inductive ev :=
| Bind (h port : N) (lip : ip)            (* explicit port; ephemeral ports are C15's subject *)
| Connect (h port : N) (peer : sockaddr)
| SetBroadcast (h port : N) (on : bool)
| SetMloop (h port : N) (on : bool)
| Join (h port : N) (g : N)
| Leave (h port : N) (g : N)
| Send (h port : N) (dst : sockaddr) (payload : list N)
| Deliver (gid : N * N)
| Lose (gid : N * N)
| LoopFlush (h bound : N)                  (* the send_loopback tasks of host h spawned by sends < bound fire *)
| TryRecv (h port : N) (buflen : N)       (* try_recv_from; recv_from polled once when something is there *)
| Readable (h port : N)                   (* readable() polled once *)
| DropSock (h port : N).

Inductive obs :=
| OUnit
| OErr (code : N)                         (* 1 AddrInUse, 2 PermissionDenied, 3 ConnectionRefused,
                                             4 AddrNotAvailable, 5 WouldBlock, 6 no such socket *)
| ORoutes (r : sres) (rs : list route)
| ORecv (len : N) (origin : sockaddr) (data : list N)
| OReady (r : bool).

Definition clip (buflen : N) (payload : list N) : list N :=
  firstn (N.to_nat (N.min buflen (N.of_nat (length payload)))) payload.

Definition with_bind (w : world) (h port : N) (k : hostst -> bind -> world * obs) : world * obs :=
  match find_host w h with
  | Some hs => match find_bind hs port with Some b => k hs b | None => (w, OErr 6) end
  | None => (w, OErr 6)
  end.

Definition is_loop_of (h bound : N) (p : pkt) : bool :=
  match p_via p with Lo => (p_host p =? h) && (fst (p_gid p) <? bound) | Net => false end.

Definition flush_loop (w : world) (h bound : N) : world :=
  let mine := filter (is_loop_of h bound) (inflight w) in
  let rest := filter (fun p => negb (is_loop_of h bound p)) (inflight w) in
  fold_left deliver_pkt mine (set_inflight w rest).

Definition add_received (w : world) (k : N * N * N) : world :=
  {| hosts := hosts w; groups := groups w; cap := cap w; inflight := inflight w; next_sid := next_sid w;
     sent := sent w; received := received w ++ [k] |}.

Definition step (w : world) (e : ev) : world * obs :=
  match e with
  | Bind h port lip =>
      match find_host w h with
      | Some hs =>
          if negb (is_unspec lip || is_loop lip) then (w, OErr 4)   (* verify_ipv4_bind_interface *)
          else if port_assigned hs port then (w, OErr 1)
          else (upd_host w h (fun hs => {| h_id := h_id hs;
                   h_binds := h_binds hs ++ [{| b_port := port; b_ip := lip; b_target := None; b_bcast := false;
                                                b_mloop := true; b_queue := []; b_stash := None |}] |}), OUnit)
      | None => (w, OErr 6)
      end
  | Connect h port peer =>
      with_bind w h port (fun _ _ => (upd_host w h (fun hs => upd_bind hs port (fun b => set_target b (Some peer))), OUnit))
  | SetBroadcast h port on =>
      with_bind w h port (fun _ _ => (upd_host w h (fun hs => upd_bind hs port (fun b => set_flags b on (b_mloop b))), OUnit))
  | SetMloop h port on =>
      with_bind w h port (fun _ _ => (upd_host w h (fun hs => upd_bind hs port (fun b => set_flags b (b_bcast b) on)), OUnit))
  | Join h port g =>
      with_bind w h port (fun _ _ => (set_groups w (grp_join (groups w) (Mcast g, port) (h, port)), OUnit))
  | Leave h port g =>
      with_bind w h port (fun _ _ =>
        if grp_contains (groups w) (Mcast g, port) (h, port)
        then (set_groups w (grp_leave (groups w) (Mcast g, port) (h, port)), OUnit)
        else (w, OErr 4))
  | Send h port dst payload =>
      with_bind w h port (fun hs b =>
        let '(res, rs) := send_routes w hs b dst in
        let sid := next_sid w in
        ({| hosts := hosts w; groups := groups w; cap := cap w;
            inflight := inflight w ++ number_routes sid 0 1000 payload rs;
            next_sid := sid + 1;
            sent := sent w ++ [{| sr_sid := sid; sr_host := h; sr_port := port; sr_src := true_src h b dst;
                                  sr_dst := dst; sr_payload := payload;
                                  sr_targets := map (fun r => (r_host r, snd (r_dst r))) rs |}];
            received := received w |}, ORoutes res rs))
  | Deliver gid =>
      match take_pkt (fun p => gid_eqb (p_gid p) gid) (inflight w) with
      | (Some p, rest) => (deliver_pkt (set_inflight w rest) p, OUnit)
      | (None, _) => (w, OErr 6)
      end
  | Lose gid =>
      match take_pkt (fun p => gid_eqb (p_gid p) gid) (inflight w) with
      | (Some p, rest) => (set_inflight w rest, OUnit)
      | (None, _) => (w, OErr 6)
      end
  | LoopFlush h bound => (flush_loop w h bound, OUnit)
  | TryRecv h port buflen =>
      with_bind w h port (fun hs b =>
        let got := match b_stash b with
                   | Some d => Some (d, b_queue b)
                   | None => match b_queue b with d :: q => Some (d, q) | [] => None end
                   end in
        match got with
        | Some (d, q) =>
            (add_received (upd_host w h (fun hs => upd_bind hs port (fun b => set_queue b q None))) (d_sid d, h, port),
             ORecv (N.min buflen (N.of_nat (length (d_payload d)))) (d_origin d) (clip buflen (d_payload d)))
        | None => (w, OErr 5)
        end)
  | Readable h port =>
      with_bind w h port (fun hs b =>
        match b_stash b with
        | Some _ => (w, OReady true)
        | None =>
            match b_queue b with
            | d :: q => (upd_host w h (fun hs => upd_bind hs port (fun b => set_queue b q (Some d))), OReady true)
            | [] => (w, OReady false)
            end
        end)
  | DropSock h port =>
      with_bind w h port (fun _ _ =>
        (upd_host (set_groups w (grp_leave_all (groups w) (h, port))) h
           (fun hs => {| h_id := h_id hs; h_binds := filter (fun b => negb (b_port b =? port)) (h_binds hs) |}), OUnit))
  end.

Definition init (nhosts : nat) (c : N) : world :=
  {| hosts := map (fun k => {| h_id := N.of_nat k; h_binds := [] |}) (seq 0 nhosts);
     groups := []; cap := c; inflight := []; next_sid := 0; sent := []; received := [] |}.

Fixpoint run (w : world) (es : list ev) : world * list obs :=
  match es with
  | [] => (w, [])
  | e :: r => let '(w1, o) := step w e in let '(w2, os) := run w1 r in (w2, o :: os)
  end.

(* ---------------- plain-data encoding for the correspondence ---------------- *)

Definition enc_ip (a : ip) : N * N :=
  match a with
  | Unspec => (0, 0) | Loop k => (1, k) | HostIp h => (2, h) | Bcast => (3, 0) | Mcast g => (4, g) | Other x => (5, x)
  end.
Definition enc_sa (a : sockaddr) : N * N * N := (enc_ip (fst a), snd a).
Definition enc_route (r : route) : N * N * (N * N * N) * (N * N * N) :=
  (match r_via r with Net => 0 | Lo => 1 end, r_host r, enc_sa (r_src r), enc_sa (r_dst r)).

(* (tag, code, routes, recv) *)
Definition enc_obs (o : obs) : N * N * list (N * N * (N * N * N) * (N * N * N)) * list (N * (N * N * N) * list N) :=
  match o with
  | OUnit => (0, 0, [], [])
  | OErr c => (1, c, [], [])
  | ORoutes r rs => (2, match r with SOk => 0 | SPermissionDenied => 2 | SRefused => 3 end, map enc_route rs, [])
  | ORecv len origin data => (3, 0, [], [(len, enc_sa origin, data)])
  | OReady r => (4, if r then 1 else 0, [], [])
  end.

(* the multicast table as the verif-hooks listing shows it *)
Definition enc_groups (w : world) : list ((N * N * N) * list (N * N)) :=
  map (fun e => (enc_sa (fst e), snd e)) (groups w).

Inductive xev := E (e : ev) | GroupsProbe.

Definition xobs := (N * N * list (N * N * (N * N * N) * (N * N * N)) * list (N * (N * N * N) * list N)
                    * list ((N * N * N) * list (N * N)))%type.

Fixpoint xrun (w : world) (es : list xev) : list xobs :=
  match es with
  | [] => []
  | E e :: r => let '(w1, o) := step w e in (enc_obs o, []) :: xrun w1 r
  | GroupsProbe :: r => ((5, 0, [], []), enc_groups w) :: xrun w r
  end.

Definition run_enc (nhosts : nat) (c : N) (es : list xev) := xrun (init nhosts c) es.
