(* Invariants of every reachable world: well-formedness (incl. the multicast
   membership invariants) and soundness of everything in flight / held / received. *)
From TV.Lib Require Import Base.
From TV.Udp Require Import Model Spec Routes Recv Groups.
Open Scope N_scope.

(* ---------------- how the steps change what get_bind sees ---------------- *)

Lemma find_app {A} (p : A -> bool) l1 l2 :
  find p (l1 ++ l2) = match find p l1 with Some x => Some x | None => find p l2 end.
Proof. induction l1 as [|a l1 IH]; cbn; [reflexivity|]. destruct (p a); [reflexivity|exact IH]. Qed.

Lemma port_assigned_find hs port : port_assigned hs port = false <-> find_bind hs port = None.
Proof.
  unfold port_assigned, find_bind. induction (h_binds hs) as [|b l IH]; cbn; [tauto|].
  destruct (b_port b =? port); cbn; [split; discriminate|exact IH].
Qed.

Definition add_bind (nb : bind) (hs : hostst) : hostst :=
  {| h_id := h_id hs; h_binds := h_binds hs ++ [nb] |}.

Lemma get_bind_add w h nb h' port' :
  get_bind w h (b_port nb) = None ->
  get_bind (upd_host w h (add_bind nb)) h' port' =
  if (h' =? h) && (port' =? b_port nb)
  then (match find_host w h with Some _ => Some nb | None => None end)
  else get_bind w h' port'.
Proof.
  intros Free. unfold get_bind in *. rewrite find_host_upd by reflexivity.
  destruct (find_host w h') as [x|] eqn:Fh; cbn [option_map].
  - pose proof (find_host_id _ _ _ Fh) as Hx. rewrite Hx.
    destruct (N.eqb_spec h' h) as [->|Nh]; cbn [andb]; [|reflexivity].
    rewrite Fh in *. unfold find_bind, add_bind; cbn. rewrite find_app. fold (find_bind x port').
    destruct (N.eqb_spec port' (b_port nb)) as [->|Np].
    + rewrite Free. cbn. now rewrite N.eqb_refl.
    + destruct (find_bind x port'); [reflexivity|]. cbn.
      destruct (N.eqb_spec (b_port nb) port'); [congruence|reflexivity].
  - destruct (N.eqb_spec h' h) as [->|Nh]; cbn [andb]; [|reflexivity].
    rewrite Fh. now destruct (port' =? b_port nb).
Qed.

Definition del_bind (port : N) (hs : hostst) : hostst :=
  {| h_id := h_id hs; h_binds := filter (fun b => negb (b_port b =? port)) (h_binds hs) |}.

Lemma find_filter_other {A} (p q : A -> bool) l :
  (forall x, p x = true -> q x = true) -> find p (filter q l) = find p l.
Proof.
  intros H. induction l as [|a l IH]; cbn; [reflexivity|].
  destruct (q a) eqn:Qa; cbn.
  - destruct (p a); [reflexivity|exact IH].
  - destruct (p a) eqn:Pa; [rewrite (H a Pa) in Qa; discriminate|exact IH].
Qed.

Lemma find_filter_none {A} (p q : A -> bool) l :
  (forall x, q x = true -> p x = false) -> find p (filter q l) = None.
Proof.
  intros H. induction l as [|a l IH]; cbn; [reflexivity|].
  destruct (q a) eqn:Qa; cbn; [rewrite (H a Qa)|]; exact IH.
Qed.

Lemma get_bind_del w h port h' port' :
  get_bind (upd_host w h (del_bind port)) h' port' =
  if (h' =? h) && (port' =? port) then None else get_bind w h' port'.
Proof.
  unfold get_bind. rewrite find_host_upd by reflexivity.
  destruct (find_host w h') as [x|] eqn:Fh; cbn [option_map]; [|now destruct ((h' =? h) && (port' =? port))].
  pose proof (find_host_id _ _ _ Fh) as Hx. rewrite Hx.
  destruct (N.eqb_spec h' h) as [->|Nh]; cbn [andb]; [|reflexivity].
  unfold find_bind, del_bind; cbn.
  destruct (N.eqb_spec port' port) as [->|Np].
  - apply find_filter_none. intros b Hb. apply Bool.negb_true_iff in Hb. exact Hb.
  - apply find_filter_other. intros b Hb. apply N.eqb_eq in Hb. apply Bool.negb_true_iff, N.eqb_neq. congruence.
Qed.

Lemma upd_host_ids w h f : (forall x, h_id (f x) = h_id x) -> map h_id (hosts (upd_host w h f)) = map h_id (hosts w).
Proof.
  intros Hf. unfold upd_host; cbn. rewrite map_map. apply map_ext. intros x. destruct (h_id x =? h); [apply Hf|reflexivity].
Qed.

(* ---------------- fields a step cannot touch ---------------- *)

Lemma held_enqueue b d : held (enqueue b d) = held b ++ [d].
Proof. unfold held, enqueue; cbn. now destruct (b_stash b). Qed.

Lemma take_pkt_spec f l o rest : take_pkt f l = (o, rest) ->
  (forall q, In q rest -> In q l) /\ match o with Some p => In p l /\ f p = true | None => rest = l end.
Proof.
  revert o rest. induction l as [|a l IH]; intros o rest E; cbn in E.
  - injection E as <- <-. auto.
  - destruct (f a) eqn:Fa.
    + injection E as <- <-. split; [intros q Hq; now right|]. split; [now left|exact Fa].
    + destruct (take_pkt f l) as [o1 r1] eqn:E1. injection E as <- <-.
      destruct (IH _ _ eq_refl) as [A B]. split.
      * intros q [<-|Hq]; [now left|right; auto].
      * destruct o1 as [p|]; [destruct B; split; [now right|assumption]|now rewrite B].
Qed.

(* ---------------- well-formedness ---------------- *)

Lemma wf_init n c : wf (init n c).
Proof.
  split; cbn.
  - rewrite map_map. cbn. rewrite <- (map_map N.of_nat (fun x => x)), map_id.
    apply FinFun.Injective_map_NoDup; [intros a b; apply Nat2N.inj|apply seq_NoDup].
  - intros h port b. unfold get_bind, find_host; cbn.
    induction (seq 0 n) as [|k l IH]; cbn; [discriminate|].
    destruct (N.of_nat k =? h); [discriminate|exact IH].
  - split; [constructor|intros k ms []].
  - intros key m [].
Qed.

(* a step never changes the host ids, and changes the bind addresses only by adding valid ones *)
Lemma deliver_ids w p : map h_id (hosts (deliver_pkt w p)) = map h_id (hosts w).
Proof. apply deliver_fields. Qed.

Lemma fold_deliver_inv (P : world -> Prop) l :
  (forall w p, P w -> P (deliver_pkt w p)) -> forall w, P w -> P (fold_left deliver_pkt l w).
Proof. intros H. induction l as [|p l IH]; intros w Hw; cbn; [assumption|]. apply IH, H, Hw. Qed.

(* everything about well-formedness that only depends on hosts *)
Record hwf (w : world) : Prop := {
  hwf_ids : NoDup (map h_id (hosts w));
  hwf_ip : forall h port b, get_bind w h port = Some b -> is_unspec (b_ip b) || is_loop (b_ip b) = true
}.

Lemma deliver_hwf w p : hwf w -> hwf (deliver_pkt w p).
Proof.
  intros [A B]. split; [now rewrite deliver_ids|].
  intros h port b. rewrite deliver_get_bind. destruct (get_bind w h port) as [b0|] eqn:G; [|discriminate].
  destruct (_ && _ && _); intros [= <-]; apply (B _ _ _ G).
Qed.

Lemma deliver_bound w p m : member_bound w m -> member_bound (deliver_pkt w p) m.
Proof.
  intros [b G]. unfold member_bound. rewrite deliver_get_bind, G. destruct (_ && _ && _); eauto.
Qed.

Lemma deliver_wf w p : wf w -> wf (deliver_pkt w p).
Proof.
  intros [A B C D]. destruct (deliver_hwf w p (Build_hwf w A B)) as [A' B'].
  destruct (deliver_fields w p) as (G & _).
  split; [assumption|assumption|now rewrite G|].
  intros key m. rewrite G. intros Hm. destruct (D key m Hm) as [P Q]. split; [assumption|now apply deliver_bound].
Qed.

Lemma wf_same_hosts w w' : wf w -> hosts w' = hosts w -> groups w' = groups w -> wf w'.
Proof.
  intros [A B C D] Hh Hg.
  assert (GB : forall h port, get_bind w' h port = get_bind w h port).
  { intros. unfold get_bind, find_host. now rewrite Hh. }
  split; [now rewrite Hh|intros h port b; rewrite GB; apply B|now rewrite Hg|].
  intros key m. rewrite Hg. intros Hm. destruct (D key m Hm) as [P [b Q]]. split; [assumption|].
  exists b. now rewrite GB.
Qed.

(* wf when only the binds' non-key fields change *)
Lemma wf_upd_bind w h port f :
  (forall b, b_port (f b) = b_port b) -> (forall b, b_ip (f b) = b_ip b) ->
  wf w -> wf (upd_host w h (fun hs => upd_bind hs port f)).
Proof.
  intros Hp Hi [A B C D]. split.
  - rewrite upd_host_ids; [assumption|reflexivity].
  - intros h' port' b. rewrite get_bind_upd by exact Hp.
    destruct (_ && _); [|apply B]. destruct (get_bind w h' port') as [b0|] eqn:G; [|discriminate].
    intros [= <-]. rewrite Hi. apply (B _ _ _ G).
  - exact C.
  - intros key m Hm. destruct (D key m Hm) as [P [b Q]]. split; [assumption|].
    unfold member_bound. rewrite get_bind_upd by exact Hp. rewrite Q. destruct (_ && _); cbn; eauto.
Qed.

Theorem step_wf w e : wf w -> wf (fst (step w e)).
Proof.
  intros W. pose proof W as [A B C D].
  destruct e as [h port lip|h port peer|h port on|h port on|h port g|h port g|h port dst payload|gid|gid|h bound|h port buflen|h port|h port];
    cbn [step].
  - (* Bind *)
    destruct (find_host w h) as [hs|] eqn:Fh; [|exact W].
    destruct (negb (is_unspec lip || is_loop lip)) eqn:Lip; [exact W|].
    destruct (port_assigned hs port) eqn:Pa; [exact W|]. cbn [fst].
    set (nb := {| b_port := port; b_ip := lip; b_target := None; b_bcast := false; b_mloop := true;
                  b_queue := []; b_stash := None |}).
    change (upd_host w h _) with (upd_host w h (add_bind nb)).
    assert (Free : get_bind w h (b_port nb) = None).
    { unfold get_bind. rewrite Fh. now apply port_assigned_find. }
    split.
    + rewrite upd_host_ids; [assumption|reflexivity].
    + intros h' port' b. rewrite (get_bind_add w h nb h' port' Free). rewrite Fh.
      destruct (_ && _); [|apply B]. intros [= <-]. cbn. now apply Bool.negb_false_iff in Lip.
    + exact C.
    + intros key m Hm. destruct (D key m Hm) as [P [b Q]]. split; [assumption|].
      unfold member_bound. rewrite (get_bind_add w h nb _ _ Free). rewrite Fh. destruct (_ && _); eauto.
  - unfold with_bind. destruct (find_host w h) as [hs|]; [|exact W]. destruct (find_bind hs port); [|exact W].
    cbn [fst]. apply wf_upd_bind; auto.
  - unfold with_bind. destruct (find_host w h) as [hs|]; [|exact W]. destruct (find_bind hs port); [|exact W].
    cbn [fst]. apply wf_upd_bind; auto.
  - unfold with_bind. destruct (find_host w h) as [hs|]; [|exact W]. destruct (find_bind hs port); [|exact W].
    cbn [fst]. apply wf_upd_bind; auto.
  - (* Join *)
    unfold with_bind. destruct (find_host w h) as [hs|] eqn:Fh; [|exact W].
    destruct (find_bind hs port) as [b|] eqn:Fb; [|exact W]. cbn [fst].
    split; try assumption; cbn [groups set_groups].
    + now apply grp_join_gwf.
    + intros key m. destruct C as [ND _]. rewrite grp_join_members by assumption.
      intros [Hm|[-> ->]]; [apply (D key m Hm)|]. split; [reflexivity|]. exists b.
      change (get_bind w h port = Some b). unfold get_bind. now rewrite Fh.
  - (* Leave *)
    unfold with_bind. destruct (find_host w h) as [hs|] eqn:Fh; [|exact W].
    destruct (find_bind hs port) as [b|] eqn:Fb; [|exact W].
    destruct (grp_contains (groups w) (Mcast g, port) (h, port)); [|exact W]. cbn [fst].
    split; try assumption; cbn [groups set_groups].
    + now apply grp_leave_gwf.
    + intros key m. rewrite grp_leave_members by assumption. intros [Hm _]. apply (D key m Hm).
  - (* Send *)
    unfold with_bind. destruct (find_host w h) as [hs|]; [|exact W]. destruct (find_bind hs port); [|exact W].
    destruct (send_routes w hs b dst) as [res rs]. cbn [fst]. now apply (wf_same_hosts w).
  - (* Deliver *)
    destruct (take_pkt _ (inflight w)) as [[p|] rest]; [|exact W]. cbn [fst].
    apply deliver_wf. now apply (wf_same_hosts w).
  - destruct (take_pkt _ (inflight w)) as [[p|] rest]; [|exact W]. cbn [fst]. now apply (wf_same_hosts w).
  - (* LoopFlush *)
    cbn [fst]. unfold flush_loop. apply fold_deliver_inv; [intros; now apply deliver_wf|]. now apply (wf_same_hosts w).
  - (* TryRecv *)
    unfold with_bind. destruct (find_host w h) as [hs|]; [|exact W]. destruct (find_bind hs port) as [b|]; [|exact W].
    destruct (match b_stash b with Some d => _ | None => _ end) as [[d q]|]; [|exact W]. cbn [fst].
    apply (wf_same_hosts (upd_host w h (fun hs0 => upd_bind hs0 port (fun b0 => set_queue b0 q None)))); [|reflexivity|reflexivity].
    apply wf_upd_bind; auto.
  - (* Readable *)
    unfold with_bind. destruct (find_host w h) as [hs|]; [|exact W]. destruct (find_bind hs port) as [b|]; [|exact W].
    destruct (b_stash b); [exact W|]. destruct (b_queue b) as [|d q]; [exact W|]. cbn [fst]. apply wf_upd_bind; auto.
  - (* DropSock *)
    unfold with_bind. destruct (find_host w h) as [hs|]; [|exact W]. destruct (find_bind hs port) as [b|]; [|exact W].
    cbn [fst]. change (fun hs0 : hostst => {| h_id := h_id hs0; h_binds := _ |}) with (del_bind port).
    assert (GB : forall h' port', get_bind (upd_host (set_groups w (grp_leave_all (groups w) (h, port))) h (del_bind port)) h' port'
                 = if (h' =? h) && (port' =? port) then None else get_bind w h' port').
    { intros. apply (get_bind_del (set_groups w (grp_leave_all (groups w) (h, port)))). }
    split.
    + rewrite upd_host_ids; [assumption|reflexivity].
    + intros h' port' b'. rewrite GB. destruct (_ && _); [discriminate|apply B].
    + cbn. now apply grp_leave_all_gwf.
    + intros key m. cbn [groups upd_host set_hosts set_groups]. rewrite grp_leave_all_members by assumption.
      intros [Hm Ne]. destruct (D key m Hm) as [P [b' Q]]. split; [assumption|]. exists b'. rewrite GB.
      destruct (N.eqb_spec (fst m) h) as [E1|]; cbn [andb]; [|assumption].
      destruct (N.eqb_spec (snd m) port) as [E2|]; cbn [andb]; [|assumption].
      destruct m as [mh mp]. cbn in *. subst. now destruct Ne.
Qed.

Lemma run_wf es : forall w, wf w -> wf (fst (run w es)).
Proof.
  induction es as [|e es IH]; intros w W; cbn; [assumption|].
  pose proof (step_wf w e W) as W1. destruct (step w e) as [w1 o]. cbn in W1.
  specialize (IH w1 W1). destruct (run w1 es) as [w2 os]. exact IH.
Qed.

(* ---------------- soundness of what is in flight, held and received ---------------- *)

Lemma sound_init n c : sound (init n c).
Proof.
  split; cbn; try (intros; contradiction).
  intros h port b d G. exfalso. revert G. unfold get_bind, find_host; cbn.
  induction (seq 0 n) as [|k l IH]; cbn; [discriminate|]. destruct (N.of_nat k =? h); [discriminate|exact IH].
Qed.

Lemma deliver_sound w p : sound w -> pkt_ok (sent w) p -> sound (deliver_pkt w p).
Proof.
  intros [S1 S2 S3 S4] (sr & Hsr & Fs). destruct (deliver_fields w p) as (_ & _ & I & N' & St & R & _).
  split; rewrite ?I, ?St, ?R, ?N'; try assumption.
  intros h port b d. rewrite deliver_get_bind. destruct (get_bind w h port) as [b0|] eqn:G; [|discriminate].
  destruct ((h =? p_host p) && (port =? snd (p_dst p)) && accepts (cap w) b0 (p_src p) (p_dst p)) eqn:Q.
  - intros [= <-]. rewrite held_enqueue, in_app_iff. intros [Hd|[<-|[]]]; [eapply S2; eassumption|].
    apply Bool.andb_true_iff in Q as [Q _]. apply Bool.andb_true_iff in Q as [Q1 Q2].
    apply N.eqb_eq in Q1, Q2. subst. exists sr. split; [assumption|exact Fs].
  - intros [= <-]. eapply S2; eassumption.
Qed.

Lemma sound_upd_bind w h port f :
  (forall b, b_port (f b) = b_port b) -> (forall b d, In d (held (f b)) -> In d (held b)) ->
  sound w -> sound (upd_host w h (fun hs => upd_bind hs port f)).
Proof.
  intros Hp Hh [S1 S2 S3 S4]. split; try assumption.
  intros h' port' b d. rewrite get_bind_upd by exact Hp.
  destruct (_ && _); [|apply S2]. destruct (get_bind w h' port') as [b0|] eqn:G; [|discriminate].
  intros [= <-] Hd. apply (S2 _ _ _ _ G), Hh, Hd.
Qed.

Lemma number_routes_spec sid payload : forall rs kn kl p,
  In p (number_routes sid kn kl payload rs) ->
  fst (p_gid p) = sid /\ p_payload p = payload /\
  exists r, In r rs /\ p_host p = r_host r /\ p_src p = r_src r /\ p_dst p = r_dst r /\ p_via p = r_via r.
Proof.
  induction rs as [|r rs IH]; intros kn kl p H; cbn in H; [contradiction|].
  destruct H as [<-|H].
  - cbn. repeat split. exists r. repeat split. now left.
  - destruct (r_via r); destruct (IH _ _ _ H) as (A & B & r' & C & D);
      (split; [exact A|split; [exact B|exists r'; split; [now right|exact D]]]).
Qed.

Theorem step_sound w e : wf w -> sound w -> sound (fst (step w e)).
Proof.
  intros W S. pose proof S as [S1 S2 S3 S4].
  destruct e as [h port lip|h port peer|h port on|h port on|h port g|h port g|h port dst payload|gid|gid|h bound|h port buflen|h port|h port].
  - (* Bind *) cbn [step].
    destruct (find_host w h) as [hs|] eqn:Fh; [|exact S].
    destruct (negb (is_unspec lip || is_loop lip)); [exact S|].
    destruct (port_assigned hs port) eqn:Pa; [exact S|]. cbn [fst].
    set (nb := {| b_port := port; b_ip := lip; b_target := None; b_bcast := false; b_mloop := true;
                  b_queue := []; b_stash := None |}).
    change (upd_host w h _) with (upd_host w h (add_bind nb)).
    assert (Free : get_bind w h (b_port nb) = None).
    { unfold get_bind. rewrite Fh. now apply port_assigned_find. }
    split; try assumption.
    intros h' port' b d. rewrite (get_bind_add w h nb h' port' Free), Fh.
    destruct (_ && _); [intros [= <-] []|apply S2].
  - cbn [step]. unfold with_bind. destruct (find_host w h) as [hs|]; [|exact S]. destruct (find_bind hs port); [|exact S].
    cbn [fst]. apply sound_upd_bind; auto.
  - cbn [step]. unfold with_bind. destruct (find_host w h) as [hs|]; [|exact S]. destruct (find_bind hs port); [|exact S].
    cbn [fst]. apply sound_upd_bind; auto.
  - cbn [step]. unfold with_bind. destruct (find_host w h) as [hs|]; [|exact S]. destruct (find_bind hs port); [|exact S].
    cbn [fst]. apply sound_upd_bind; auto.
  - cbn [step]. unfold with_bind. destruct (find_host w h) as [hs|]; [|exact S]. destruct (find_bind hs port); [|exact S].
    cbn [fst]. split; assumption.
  - cbn [step]. unfold with_bind. destruct (find_host w h) as [hs|]; [|exact S]. destruct (find_bind hs port); [|exact S].
    destruct (grp_contains _ _ _); [|exact S]. cbn [fst]. split; assumption.
  - (* Send *)
    cbn [step]. unfold with_bind. destruct (find_host w h) as [hs|] eqn:Fh; [|exact S].
    destruct (find_bind hs port) as [b|] eqn:Fb; [|exact S].
    destruct (send_routes w hs b dst) as [res rs] eqn:E. cbn [fst].
    assert (Hb : is_unspec (b_ip b) || is_loop (b_ip b) = true).
    { apply (wf_bindip w W h port). unfold get_bind. now rewrite Fh. }
    pose proof (find_host_id _ _ _ Fh) as Hid.
    set (sr := {| sr_sid := next_sid w; sr_host := h; sr_port := port; sr_src := true_src h b dst; sr_dst := dst;
                  sr_payload := payload; sr_targets := map (fun r => (r_host r, snd (r_dst r))) rs |}).
    split; cbn [inflight sent received next_sid hosts].
    + intros p Hp. apply in_app_or in Hp as [Hp|Hp].
      * destruct (S1 p Hp) as (sr0 & A & B). exists sr0. split; [apply in_or_app; now left|exact B].
      * destruct (number_routes_spec _ _ _ _ _ _ Hp) as (A & B & r & Hr & C1 & C2 & C3 & _).
        exists sr. split; [apply in_or_app; right; now left|].
        destruct (send_routes_sound w hs b dst res rs W Hb E r Hr) as (_ & Src & _).
        unfold from_send; cbn. repeat split; auto.
        -- rewrite C2, Src. now rewrite Hid.
        -- rewrite C1, C3. apply in_map_iff. exists r. auto.
    + intros h' port' b' d G Hd. change (get_bind _ h' port') with (get_bind w h' port') in G.
      destruct (S2 _ _ _ _ G Hd) as (sr0 & A & B). exists sr0. split; [apply in_or_app; now left|exact B].
    + intros sid h' port' Hr. destruct (S3 _ _ _ Hr) as (sr0 & A & B). exists sr0. split; [apply in_or_app; now left|exact B].
    + intros sr0 Hs. apply in_app_or in Hs as [Hs|[<-|[]]]; [specialize (S4 _ Hs); lia|cbn; lia].
  - (* Deliver *)
    cbn [step]. destruct (take_pkt _ (inflight w)) as [[p|] rest] eqn:T; [|exact S]. cbn [fst].
    destruct (take_pkt_spec _ _ _ _ T) as [Sub [Hp _]].
    apply deliver_sound; [|apply (S1 p Hp)].
    split; cbn; try assumption. intros q Hq. apply S1, Sub, Hq.
  - cbn [step]. destruct (take_pkt _ (inflight w)) as [[p|] rest] eqn:T; [|exact S]. cbn [fst].
    destruct (take_pkt_spec _ _ _ _ T) as [Sub _].
    split; cbn; try assumption. intros q Hq. apply S1, Sub, Hq.
  - (* LoopFlush *)
    cbn [step fst]. unfold flush_loop.
    set (mine := filter (is_loop_of h bound) (inflight w)).
    set (rest := filter (fun p => negb (is_loop_of h bound p)) (inflight w)).
    assert (G : forall l w0, sent w0 = sent w -> sound w0 -> (forall p, In p l -> pkt_ok (sent w) p) ->
                             sound (fold_left deliver_pkt l w0)).
    { induction l as [|p l IH]; intros w0 Hs S0 Hl; cbn; [assumption|]. apply IH.
      - destruct (deliver_fields w0 p) as (_ & _ & _ & _ & St & _). congruence.
      - apply deliver_sound; [assumption|]. rewrite Hs. apply Hl. now left.
      - intros q Hq. apply Hl. now right. }
    apply G; [reflexivity| |].
    + split; cbn; try assumption. intros q Hq. apply filter_In in Hq as [Hq _]. now apply S1.
    + intros q Hq. apply filter_In in Hq as [Hq _]. now apply S1.
  - (* TryRecv *)
    destruct (step w (TryRecv h port buflen)) as [w' o] eqn:E. cbn [fst].
    pose proof (try_recv_spec _ _ _ _ _ _ E) as Sp.
    destruct (get_bind w h port) as [b|] eqn:G; [|destruct Sp as [-> _]; exact S].
    destruct (held b) as [|d rest] eqn:Hb; [destruct Sp as [-> _]; exact S|].
    destruct Sp as (_ & GB & R & I & _ & St).
    assert (Nx : next_sid w' = next_sid w).
    { cbn [step] in E. unfold with_bind in E. destruct (find_host w h) as [hs|]; [|now injection E as <- _].
      destruct (find_bind hs port) as [b1|]; [|now injection E as <- _].
      destruct (match b_stash b1 with Some d0 => _ | None => _ end) as [[d0 q]|]; now injection E as <- _. }
    split; rewrite ?I, ?St, ?R, ?Nx; try assumption.
    + intros h' port' b' d'. rewrite GB. destruct (_ && _) eqn:Q; [|apply S2].
      apply Bool.andb_true_iff in Q as [Q1 Q2]. apply N.eqb_eq in Q1, Q2. subst.
      intros [= <-] Hd. apply (S2 _ _ _ _ G). rewrite Hb. right. unfold held in Hd. exact Hd.
    + intros sid h' port' Hr. apply in_app_or in Hr as [Hr|[[= <- <- <-]|[]]]; [now apply S3|].
      destruct (S2 _ _ _ d G) as (sr & A & B1 & _ & _ & B4); [rewrite Hb; now left|]. eauto.
  - (* Readable *)
    destruct (step w (Readable h port)) as [w' o] eqn:E. cbn [fst].
    pose proof (readable_spec _ _ _ _ _ E) as Sp.
    destruct (get_bind w h port) as [b|] eqn:G; [|destruct Sp as [-> _]; exact S].
    destruct Sp as (_ & GB & R & I & _).
    assert (Oth : sent w' = sent w /\ next_sid w' = next_sid w).
    { cbn [step] in E. unfold with_bind in E. destruct (find_host w h) as [hs|]; [|now injection E as <- _].
      destruct (find_bind hs port) as [b1|]; [|now injection E as <- _].
      destruct (b_stash b1); [now injection E as <- _|]. destruct (b_queue b1); now injection E as <- _. }
    destruct Oth as [St Nx].
    split; rewrite ?I, ?St, ?R, ?Nx; try assumption.
    intros h' port' b' d' G' Hd. specialize (GB h' port'). rewrite G' in GB. cbn in GB.
    destruct (get_bind w h' port') as [b0|] eqn:G0; [|discriminate]. cbn in GB. injection GB as GB.
    apply (S2 _ _ _ _ G0). now rewrite <- GB.
  - (* DropSock *)
    cbn [step]. unfold with_bind. destruct (find_host w h) as [hs|]; [|exact S]. destruct (find_bind hs port) as [b|]; [|exact S].
    cbn [fst]. change (fun hs0 : hostst => {| h_id := h_id hs0; h_binds := _ |}) with (del_bind port).
    split; try assumption.
    intros h' port' b' d'. rewrite (get_bind_del (set_groups w (grp_leave_all (groups w) (h, port)))).
    destruct (_ && _); [discriminate|apply S2].
Qed.

Lemma run_inv es : forall w, wf w -> sound w -> wf (fst (run w es)) /\ sound (fst (run w es)).
Proof.
  induction es as [|e es IH]; intros w W S; cbn; [auto|].
  pose proof (step_wf w e W) as W1. pose proof (step_sound w e W S) as S1.
  destruct (step w e) as [w1 o]. cbn in W1, S1.
  specialize (IH w1 W1 S1). destruct (run w1 es) as [w2 os]. exact IH.
Qed.
