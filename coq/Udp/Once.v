(* At most once, over every history: for each send id and each destination
   socket address, the datagram is in at most one place — in flight, held by the
   socket, or already handed to the application — and at most once there. *)
From TV.Lib Require Import Base.
From TV.Udp Require Import Model Spec Routes Recv Groups Inv.
Open Scope N_scope.

Definition key := (N * N * N)%type.       (* (send id, host, port) *)

Definition key_eqb (a b : key) : bool :=
  (fst (fst a) =? fst (fst b)) && (snd (fst a) =? snd (fst b)) && (snd a =? snd b).

Lemma key_eqb_eq a b : key_eqb a b = true <-> a = b.
Proof.
  destruct a as [[a1 a2] a3], b as [[b1 b2] b3]. unfold key_eqb; cbn.
  rewrite !Bool.andb_true_iff, !N.eqb_eq. split; [intros [[-> ->] ->]; reflexivity|intros [= -> -> ->]; auto].
Qed.

Definition pkt_key (p : pkt) : key := (fst (p_gid p), p_host p, snd (p_dst p)).

Definition cnt {A} (f : A -> bool) (l : list A) : nat := length (filter f l).

Arguments cnt : simpl never.

Lemma cnt_app {A} (f : A -> bool) l1 l2 : cnt f (l1 ++ l2) = (cnt f l1 + cnt f l2)%nat.
Proof. unfold cnt. now rewrite filter_app, app_length. Qed.

Lemma cnt_cons {A} (f : A -> bool) a l : cnt f (a :: l) = ((if f a then 1 else 0) + cnt f l)%nat.
Proof. unfold cnt. cbn. now destruct (f a). Qed.

Lemma cnt_zero {A} (f : A -> bool) l : (forall x, In x l -> f x = false) -> cnt f l = O.
Proof.
  unfold cnt. induction l as [|a l IH]; intros H; cbn; [reflexivity|].
  rewrite (H a (or_introl eq_refl)). apply IH. intros; apply H; now right.
Qed.

Lemma cnt_split {A} (f q : A -> bool) l :
  cnt f l = (cnt f (filter q l) + cnt f (filter (fun x => negb (q x)) l))%nat.
Proof.
  induction l as [|a l IH]; [reflexivity|]. rewrite cnt_cons. cbn.
  destruct (q a); cbn; rewrite cnt_cons, IH; lia.
Qed.

Lemma cnt_NoDup_map {A B} (g : A -> B) (eqb : B -> B -> bool) (Heq : forall a b, eqb a b = true <-> a = b) k l :
  NoDup (map g l) -> (cnt (fun x => eqb (g x) k) l <= 1)%nat.
Proof.
  induction l as [|a l IH]; cbn; [intros; unfold cnt; cbn; lia|]. intros ND. inversion ND as [|? ? Hn Hd]; subst.
  rewrite cnt_cons. destruct (eqb (g a) k) eqn:Q; [|specialize (IH Hd); lia].
  apply Heq in Q. rewrite cnt_zero; [lia|]. intros x Hx.
  destruct (eqb (g x) k) eqn:Q2; [|reflexivity]. apply Heq in Q2. exfalso. apply Hn.
  apply in_map_iff. exists x. split; [congruence|assumption].
Qed.

Lemma take_pkt_cnt (f g : pkt -> bool) l o rest : take_pkt f l = (o, rest) ->
  cnt g l = (cnt g rest + match o with Some p => if g p then 1 else 0 | None => 0 end)%nat.
Proof.
  revert o rest. induction l as [|a l IH]; intros o rest E; cbn in E.
  - injection E as <- <-. reflexivity.
  - destruct (f a).
    + injection E as <- <-. rewrite cnt_cons. lia.
    + destruct (take_pkt f l) as [o1 r1] eqn:E1. injection E as <- <-.
      rewrite !cnt_cons, (IH _ _ eq_refl). lia.
Qed.

(* the three places a datagram of key k can be *)
Definition cI (w : world) (k : key) : nat := cnt (fun p => key_eqb (pkt_key p) k) (inflight w).
Definition cH (w : world) (k : key) : nat :=
  match get_bind w (snd (fst k)) (snd k) with
  | Some b => cnt (fun d => d_sid d =? fst (fst k)) (held b)
  | None => O
  end.
Definition cR (w : world) (k : key) : nat := cnt (fun x => key_eqb x k) (received w).

Definition once (w : world) : Prop := forall k, (cI w k + cH w k + cR w k <= 1)%nat.

Lemma once_init n c : once (init n c).
Proof.
  intros k. unfold cI, cH, cR; cbn. replace (get_bind (init n c) (snd (fst k)) (snd k)) with (@None bind); [unfold cnt; cbn; lia|].
  unfold get_bind, find_host; cbn. induction (seq 0 n) as [|x l IH]; cbn; [reflexivity|].
  destruct (N.of_nat x =? snd (fst k)); [reflexivity|exact IH].
Qed.

(* delivering a packet that is not (any more) in the in-flight list: its key moves
   from "pending" into the addressed socket, or disappears *)
Lemma deliver_counts w p k :
  cI (deliver_pkt w p) k = cI w k /\ cR (deliver_pkt w p) k = cR w k /\
  (cH (deliver_pkt w p) k <= cH w k + (if key_eqb (pkt_key p) k then 1 else 0))%nat.
Proof.
  destruct (deliver_fields w p) as (_ & _ & I & _ & _ & R & _).
  unfold cI, cR, cH. rewrite I, R. repeat split.
  destruct k as [[sid h] port]. cbn [fst snd]. rewrite deliver_get_bind.
  destruct (get_bind w h port) as [b|] eqn:G; [|lia].
  destruct ((h =? p_host p) && (port =? snd (p_dst p)) && accepts (cap w) b (p_src p) (p_dst p)) eqn:Q; [|lia].
  rewrite held_enqueue, cnt_app, cnt_cons. cbn [d_sid mk_dgram].
  apply Bool.andb_true_iff in Q as [Q _]. apply Bool.andb_true_iff in Q as [Q1 Q2].
  unfold key_eqb, pkt_key; cbn [fst snd]. rewrite (N.eqb_sym (p_host p) h), Q1, (N.eqb_sym (snd (p_dst p)) port), Q2.
  rewrite !Bool.andb_true_r. change (cnt (fun d : dgram => d_sid d =? sid) []) with O. lia.
Qed.

Lemma fold_deliver_once l : forall w,
  (forall k, (cnt (fun p => key_eqb (pkt_key p) k) l + cI w k + cH w k + cR w k <= 1)%nat) ->
  once (fold_left deliver_pkt l w).
Proof.
  induction l as [|p l IH]; intros w H; cbn.
  - intros k. specialize (H k). unfold cnt in H at 1; cbn in H. lia.
  - apply IH. intros k. specialize (H k). rewrite cnt_cons in H.
    destruct (deliver_counts w p k) as (A & B & C). lia.
Qed.

Lemma cH_same_held w w' k :
  (forall h port, option_map held (get_bind w' h port) = option_map held (get_bind w h port)) -> cH w' k = cH w k.
Proof.
  intros H. unfold cH. specialize (H (snd (fst k)) (snd k)).
  destruct (get_bind w' _ _), (get_bind w _ _); cbn in H; try discriminate; [|reflexivity]. injection H as ->. reflexivity.
Qed.

Lemma cH_upd w h port f k :
  (forall b, b_port (f b) = b_port b) -> (forall b, held (f b) = held b) ->
  cH (upd_host w h (fun hs => upd_bind hs port f)) k = cH w k.
Proof.
  intros Hp Hh. apply cH_same_held. intros h' port'. rewrite get_bind_upd by exact Hp.
  destruct (_ && _); [|reflexivity]. destruct (get_bind w h' port'); cbn; [now rewrite Hh|reflexivity].
Qed.

Theorem step_once w e : wf w -> sound w -> once w -> once (fst (step w e)).
Proof.
  intros W S Hon. pose proof S as [S1 S2 S3 S4].
  destruct e as [h port lip|h port peer|h port on|h port on|h port g|h port g|h port dst payload|gid|gid|h bound|h port buflen|h port|h port].
  - (* Bind *) cbn [step].
    destruct (find_host w h) as [hs|] eqn:Fh; [|exact Hon].
    destruct (negb (is_unspec lip || is_loop lip)); [exact Hon|].
    destruct (port_assigned hs port) eqn:Pa; [exact Hon|]. cbn [fst].
    set (nb := {| b_port := port; b_ip := lip; b_target := None; b_bcast := false; b_mloop := true;
                  b_queue := []; b_stash := None |}).
    change (upd_host w h _) with (upd_host w h (add_bind nb)).
    assert (Free : get_bind w h (b_port nb) = None).
    { unfold get_bind. rewrite Fh. now apply port_assigned_find. }
    intros k. specialize (Hon k). unfold cI, cH, cR in *. cbn [inflight received upd_host set_hosts].
    rewrite (get_bind_add w h nb _ _ Free), Fh.
    destruct (_ && _) eqn:Q; [|exact Hon]. cbn. unfold cnt at 2. cbn. lia.
  - cbn [step]. unfold with_bind. destruct (find_host w h) as [hs|]; [|exact Hon]. destruct (find_bind hs port); [|exact Hon].
    cbn [fst]. intros k. specialize (Hon k). unfold cI, cR in *. cbn [inflight received upd_host set_hosts]. now rewrite cH_upd.
  - cbn [step]. unfold with_bind. destruct (find_host w h) as [hs|]; [|exact Hon]. destruct (find_bind hs port); [|exact Hon].
    cbn [fst]. intros k. specialize (Hon k). unfold cI, cR in *. cbn [inflight received upd_host set_hosts]. now rewrite cH_upd.
  - cbn [step]. unfold with_bind. destruct (find_host w h) as [hs|]; [|exact Hon]. destruct (find_bind hs port); [|exact Hon].
    cbn [fst]. intros k. specialize (Hon k). unfold cI, cR in *. cbn [inflight received upd_host set_hosts]. now rewrite cH_upd.
  - cbn [step]. unfold with_bind. destruct (find_host w h) as [hs|]; [|exact Hon]. destruct (find_bind hs port); [|exact Hon].
    cbn [fst]. exact Hon.
  - cbn [step]. unfold with_bind. destruct (find_host w h) as [hs|]; [|exact Hon]. destruct (find_bind hs port); [|exact Hon].
    destruct (grp_contains _ _ _); [|exact Hon]. cbn [fst]. exact Hon.
  - (* Send *)
    cbn [step]. unfold with_bind. destruct (find_host w h) as [hs|] eqn:Fh; [|exact Hon].
    destruct (find_bind hs port) as [b|] eqn:Fb; [|exact Hon].
    destruct (send_routes w hs b dst) as [res rs] eqn:E. cbn [fst].
    pose proof (send_routes_nodup w hs b dst res rs W E) as ND.
    intros k. specialize (Hon k). unfold cI, cH, cR in *. cbn [inflight received hosts].
    change (get_bind _ (snd (fst k)) (snd k)) with (get_bind w (snd (fst k)) (snd k)).
    rewrite cnt_app.
    destruct (N.eqb_spec (fst (fst k)) (next_sid w)) as [Eq|Ne].
    + (* nothing of this (fresh) send id exists yet *)
      assert (Z1 : cnt (fun p => key_eqb (pkt_key p) k) (inflight w) = O).
      { apply cnt_zero. intros p Hp. destruct (S1 p Hp) as (sr & Hs & (A & _)). specialize (S4 sr Hs).
        destruct (key_eqb (pkt_key p) k) eqn:Q; [|reflexivity]. apply key_eqb_eq in Q. subst k. cbn in Eq. lia. }
      assert (Z2 : match get_bind w (snd (fst k)) (snd k) with
                   | Some b0 => cnt (fun d => d_sid d =? fst (fst k)) (held b0) | None => O end = O).
      { destruct (get_bind w (snd (fst k)) (snd k)) as [b0|] eqn:G; [|reflexivity]. apply cnt_zero. intros d Hd.
        destruct (S2 _ _ _ _ G Hd) as (sr & Hs & (A & _)). specialize (S4 sr Hs). apply N.eqb_neq. lia. }
      assert (Z3 : cnt (fun x => key_eqb x k) (received w) = O).
      { apply cnt_zero. intros [[sid h'] port'] Hr. destruct (S3 _ _ _ Hr) as (sr & Hs & A & _). specialize (S4 sr Hs).
        destruct (key_eqb (sid, h', port') k) eqn:Q; [|reflexivity]. apply key_eqb_eq in Q. subst k. cbn in Eq. lia. }
      rewrite Z1, Z2, Z3.
      assert (C : (cnt (fun p => key_eqb (pkt_key p) k) (number_routes (next_sid w) 0 1000 payload rs)
                   <= cnt (fun r => mem_eqb (rkey r) (snd (fst k), snd k)) rs)%nat).
      { clear. generalize 0 1000. induction rs as [|r rs IH]; intros kn kl; cbn [number_routes]; [unfold cnt; cbn; lia|].
        rewrite !cnt_cons. unfold pkt_key at 1, key_eqb at 1, rkey at 1, mem_eqb at 1. cbn [fst snd p_gid p_host p_dst].
        destruct (r_via r); specialize (IH (kn + 1) kl) as I1; specialize (IH kn (kl + 1)) as I2;
          destruct (next_sid w =? fst (fst k)); cbn [andb]; lia. }
      assert (C2 : (cnt (fun r => mem_eqb (rkey r) (snd (fst k), snd k)) rs <= 1)%nat).
      { apply (cnt_NoDup_map rkey mem_eqb mem_eqb_eq (snd (fst k), snd k) rs ND). }
      lia.
    + rewrite (cnt_zero _ (number_routes _ _ _ _ _)); [lia|].
      intros p Hp. destruct (number_routes_spec _ _ _ _ _ _ Hp) as (A & _).
      destruct (key_eqb (pkt_key p) k) eqn:Q; [|reflexivity]. apply key_eqb_eq in Q. subst k. cbn in Ne. congruence.
  - (* Deliver *)
    cbn [step]. destruct (take_pkt _ (inflight w)) as [[p|] rest] eqn:T; [|exact Hon]. cbn [fst].
    intros k. specialize (Hon k). pose proof (take_pkt_cnt _ (fun p => key_eqb (pkt_key p) k) _ _ _ T) as C.
    destruct (deliver_counts (set_inflight w rest) p k) as (A & B & D).
    unfold cI in *. cbn [inflight set_inflight] in *. unfold cH, cR in *. cbn [received set_inflight] in *.
    change (get_bind (set_inflight w rest)) with (get_bind w) in D. lia.
  - cbn [step]. destruct (take_pkt _ (inflight w)) as [[p|] rest] eqn:T; [|exact Hon]. cbn [fst].
    intros k. specialize (Hon k). pose proof (take_pkt_cnt _ (fun p => key_eqb (pkt_key p) k) _ _ _ T) as C.
    unfold cI, cH, cR in *. cbn [inflight received set_inflight]. change (get_bind (set_inflight w rest)) with (get_bind w). lia.
  - (* LoopFlush *)
    cbn [step fst]. unfold flush_loop. apply fold_deliver_once. intros k. specialize (Hon k).
    unfold cI, cH, cR in *. cbn [inflight received set_inflight].
    change (get_bind (set_inflight w _)) with (get_bind w).
    rewrite (cnt_split _ (is_loop_of h bound) (inflight w)) in Hon. lia.
  - (* TryRecv *)
    destruct (step w (TryRecv h port buflen)) as [w' o] eqn:E. cbn [fst].
    pose proof (try_recv_spec _ _ _ _ _ _ E) as Sp.
    destruct (get_bind w h port) as [b|] eqn:G; [|destruct Sp as [-> _]; exact Hon].
    destruct (held b) as [|d rest] eqn:Hb; [destruct Sp as [-> _]; exact Hon|].
    destruct Sp as (_ & GB & R & I & _).
    intros k. specialize (Hon k). unfold cI, cH, cR in *. rewrite I, R, GB, cnt_app, cnt_cons.
    destruct k as [[sid h'] port']. cbn [fst snd] in *.
    destruct ((h' =? h) && (port' =? port)) eqn:Q.
    + apply Bool.andb_true_iff in Q as [Q1 Q2]. apply N.eqb_eq in Q1, Q2. subst h' port'.
      rewrite G, Hb, cnt_cons in Hon. unfold held at 1; cbn [b_stash b_queue set_queue].
      replace (key_eqb (d_sid d, h, port) (sid, h, port)) with (d_sid d =? sid).
      2:{ unfold key_eqb; cbn. now rewrite !N.eqb_refl, !Bool.andb_true_r. }
      change (cnt (fun x : key => key_eqb x (sid, h, port)) []) with 0%nat. lia.
    + replace (key_eqb (d_sid d, h, port) (sid, h', port')) with false.
      2:{ unfold key_eqb; cbn. rewrite (N.eqb_sym h h'), (N.eqb_sym port port').
          destruct (d_sid d =? sid); cbn; [|reflexivity]. destruct (h' =? h); cbn in *; [now rewrite Q|reflexivity]. }
      change (cnt (fun x : key => key_eqb x (sid, h', port')) []) with 0%nat. lia.
  - (* Readable *)
    destruct (step w (Readable h port)) as [w' o] eqn:E. cbn [fst].
    pose proof (readable_spec _ _ _ _ _ E) as Sp.
    destruct (get_bind w h port) as [b|] eqn:G; [|destruct Sp as [-> _]; exact Hon].
    destruct Sp as (_ & GB & R & I & _).
    intros k. specialize (Hon k). rewrite (cH_same_held w w' k GB). unfold cI, cR in *. now rewrite I, R.
  - (* DropSock *)
    cbn [step]. unfold with_bind. destruct (find_host w h) as [hs|]; [|exact Hon]. destruct (find_bind hs port) as [b|]; [|exact Hon].
    cbn [fst]. change (fun hs0 : hostst => {| h_id := h_id hs0; h_binds := _ |}) with (del_bind port).
    intros k. specialize (Hon k). unfold cI, cH, cR in *. cbn [inflight received upd_host set_hosts set_groups].
    rewrite (get_bind_del (set_groups w (grp_leave_all (groups w) (h, port)))).
    change (get_bind (set_groups w _)) with (get_bind w).
    destruct (_ && _); [|exact Hon]. destruct (get_bind w (snd (fst k)) (snd k)); lia.
Qed.

Lemma run_once es : forall w, wf w -> sound w -> once w -> once (fst (run w es)).
Proof.
  induction es as [|e es IH]; intros w W S Hon; cbn; [assumption|].
  pose proof (step_wf w e W) as W1. pose proof (step_sound w e W S) as S1. pose proof (step_once w e W S Hon) as O1.
  destruct (step w e) as [w1 o]. cbn in W1, S1, O1.
  specialize (IH w1 W1 S1 O1). destruct (run w1 es) as [w2 os]. exact IH.
Qed.

Lemma cnt_le1_NoDup (l : list key) : (forall k, (cnt (fun x => key_eqb x k) l <= 1)%nat) -> NoDup l.
Proof.
  induction l as [|a l IH]; intros H; constructor.
  - intros Hin. specialize (H a). rewrite cnt_cons in H.
    replace (key_eqb a a) with true in H by (symmetry; now apply key_eqb_eq).
    assert (cnt (fun x => key_eqb x a) l >= 1)%nat; [|lia].
    clear - Hin. induction l as [|b l IH]; [contradiction|]. rewrite cnt_cons. destruct Hin as [->|Hin].
    + replace (key_eqb a a) with true by (symmetry; now apply key_eqb_eq). lia.
    + specialize (IH Hin). lia.
  - apply IH. intros k. specialize (H k). rewrite cnt_cons in H. lia.
Qed.
