(* TV.Fs.Facts — elementary facts about paths, byte vectors, the association
   lists of FsImpl / FsSpec, and sorting of listings. *)
From TV.Lib Require Import Base.
From TV.Fs Require Import FsImpl FsSpec.
Open Scope N_scope.

(* ---- paths ----------------------------------------------------------------- *)
Lemma path_eqb_eq : forall p q, path_eqb p q = true <-> p = q.
Proof.
  induction p as [|a p IH]; destruct q as [|b q]; cbn; split; intro H; try congruence; try discriminate.
  - apply andb_true_iff in H as [H1 H2]. apply N.eqb_eq in H1. apply IH in H2. congruence.
  - inversion H; subst. rewrite N.eqb_refl. cbn. apply IH. reflexivity.
Qed.
Lemma path_eqb_refl : forall p, path_eqb p p = true.
Proof. intro p. apply path_eqb_eq. reflexivity. Qed.
Lemma path_eqb_neq : forall p q, path_eqb p q = false <-> p <> q.
Proof.
  intros p q. destruct (path_eqb p q) eqn:E; split; intro H; try congruence; try discriminate.
  - apply path_eqb_eq in E. contradiction.
  - intro Hq. apply path_eqb_eq in Hq. congruence.
Qed.
Lemma path_eqb_sym : forall p q, path_eqb p q = path_eqb q p.
Proof.
  intros p q. destruct (path_eqb p q) eqn:E.
  - apply path_eqb_eq in E. subst. symmetry. apply path_eqb_refl.
  - destruct (path_eqb q p) eqn:E2; [|reflexivity]. apply path_eqb_eq in E2. subst.
    rewrite path_eqb_refl in E. discriminate.
Qed.

Ltac peq p q := let E := fresh "E" in
  destruct (path_eqb p q) eqn:E;
  [apply path_eqb_eq in E; try subst | pose proof (proj1 (path_eqb_neq _ _) E)].

Lemma mem_path_In : forall p l, mem_path p l = true <-> In p l.
Proof.
  intros p l. unfold mem_path. rewrite existsb_exists. split.
  - intros (x & Hx & E). apply path_eqb_eq in E. subst. exact Hx.
  - intro H. exists p. split; [exact H|apply path_eqb_refl].
Qed.

(* ---- generic folds ----------------------------------------------------------- *)
Lemma fold_left_ext_in {A B} (f g : A -> B -> A) : forall l a,
  (forall a o, In o l -> f a o = g a o) -> fold_left f l a = fold_left g l a.
Proof.
  induction l as [|o l IH]; intros a H; cbn; [reflexivity|].
  rewrite H by (left; reflexivity). apply IH. intros; apply H; right; assumption.
Qed.

Lemma fold_left_id_in {A B} (f : A -> B -> A) : forall l a,
  (forall a o, In o l -> f a o = a) -> fold_left f l a = a.
Proof.
  induction l as [|o l IH]; intros a H; cbn; [reflexivity|].
  rewrite H by (left; reflexivity). apply IH. intros; apply H; right; assumption.
Qed.

(* ---- byte vectors ------------------------------------------------------------- *)
Lemma nth_firstn {A} : forall (l : list A) n i d,
  nth i (firstn n l) d = if (i <? n)%nat then nth i l d else d.
Proof.
  induction l as [|a l IH]; intros [|n] [|i] d; cbn [firstn nth]; try reflexivity;
    try (destruct (_ <? _)%nat; reflexivity).
  rewrite IH. reflexivity.
Qed.
Lemma nth_skipn {A} : forall (l : list A) m i d, nth i (skipn m l) d = nth (m + i) l d.
Proof.
  induction l as [|a l IH]; intros [|m] i d; cbn; try reflexivity.
  - destruct i; reflexivity.
  - apply IH.
Qed.
Lemma length_zeros n : length (zeros n) = n.
Proof. apply repeat_length. Qed.
Lemma nth_zeros i n : nth i (zeros n) 0 = 0.
Proof.
  unfold zeros. revert i. induction n as [|n IH]; intros [|i]; cbn; auto.
Qed.

Lemma length_resize c n : length (resize c n) = n.
Proof. unfold resize. rewrite app_length, firstn_length, length_zeros. lia. Qed.

Lemma nth_resize c n i : nth i (resize c n) 0 = if (i <? n)%nat then nth i c 0 else 0.
Proof.
  unfold resize. destruct (Nat.ltb_spec i n).
  - destruct (Nat.lt_ge_cases i (length c)).
    + rewrite app_nth1 by (rewrite firstn_length; lia). rewrite nth_firstn.
      destruct (Nat.ltb_spec i n); [reflexivity|lia].
    + rewrite app_nth2 by (rewrite firstn_length; lia). rewrite nth_zeros.
      symmetry. apply nth_overflow. lia.
  - rewrite app_nth2 by (rewrite firstn_length; lia). apply nth_zeros.
Qed.

Lemma length_write_bytes c off d :
  length (write_bytes c off d) = Nat.max (length c) (off + length d).
Proof.
  unfold write_bytes.
  destruct (Nat.ltb_spec (length c) (off + length d)).
  - rewrite !app_length, firstn_length, skipn_length, length_resize. lia.
  - rewrite !app_length, firstn_length, skipn_length. lia.
Qed.

Lemma nth_write_bytes c off d i :
  nth i (write_bytes c off d) 0 =
  if (off <=? i)%nat && (i <? off + length d)%nat then nth (i - off) d 0 else nth i c 0.
Proof.
  unfold write_bytes.
  set (e := (off + length d)%nat).
  set (c' := if (length c <? e)%nat then resize c e else c).
  assert (Hc' : forall k, nth k c' 0 = nth k c 0).
  { intro k. unfold c'. destruct (Nat.ltb_spec (length c) e); [|reflexivity].
    rewrite nth_resize. destruct (Nat.ltb_spec k e); [reflexivity|].
    symmetry. apply nth_overflow. lia. }
  assert (Hl : (e <= length c')%nat).
  { unfold c'. destruct (Nat.ltb_spec (length c) e); [rewrite length_resize; lia|lia]. }
  destruct (Nat.leb_spec off i); cbn [andb].
  - destruct (Nat.ltb_spec i e).
    + rewrite app_nth2 by (rewrite firstn_length; lia).
      rewrite firstn_length, Nat.min_l by (unfold e in Hl; lia).
      rewrite app_nth1 by (unfold e in *; lia). reflexivity.
    + rewrite app_nth2 by (rewrite firstn_length; lia).
      rewrite firstn_length, Nat.min_l by (unfold e in Hl; lia).
      rewrite app_nth2 by (unfold e in *; lia).
      rewrite nth_skipn. rewrite <- Hc'. f_equal. unfold e in *. lia.
  - rewrite app_nth1 by (rewrite firstn_length; unfold e in Hl; lia).
    rewrite nth_firstn. destruct (Nat.ltb_spec i off); [apply Hc'|lia].
Qed.

(* the window [off, off+n) of a byte vector, padded with zeros *)
Definition win (c : bytes) (off n : nat) : bytes := firstn n (skipn off c ++ zeros n).

Lemma length_win c off n : length (win c off n) = n.
Proof. unfold win. rewrite firstn_length, app_length, length_zeros. lia. Qed.

Lemma nth_win c off n j :
  nth j (win c off n) 0 = if (j <? n)%nat then nth (off + j) c 0 else 0.
Proof.
  unfold win. rewrite nth_firstn. destruct (Nat.ltb_spec j n); [|reflexivity].
  destruct (Nat.lt_ge_cases j (length (skipn off c))) as [Hj|Hj].
  - rewrite app_nth1 by exact Hj. apply nth_skipn.
  - rewrite app_nth2 by exact Hj. rewrite nth_zeros. symmetry. apply nth_overflow.
    rewrite skipn_length in Hj. lia.
Qed.

Lemma length_overlay_from : forall buf j boff woff d,
  length (overlay_from j buf boff woff d) = length buf.
Proof. induction buf as [|b buf IH]; intros; cbn; [reflexivity|]. rewrite IH. reflexivity. Qed.

Lemma nth_overlay_from : forall buf j k boff woff d,
  nth k (overlay_from j buf boff woff d) 0 =
  if (k <? length buf)%nat then
    (if (woff <=? boff + j + k)%nat && (boff + j + k <? woff + length d)%nat
     then nth (boff + j + k - woff) d 0 else nth k buf 0)
  else 0.
Proof.
  induction buf as [|b buf IH]; intros j k boff woff d; cbn [overlay_from length].
  - destruct k; reflexivity.
  - destruct k as [|k].
    + cbn [nth]. rewrite Nat.add_0_r. reflexivity.
    + cbn [nth]. rewrite IH. replace (boff + S j + k)%nat with (boff + j + S k)%nat by lia.
      destruct (Nat.ltb_spec k (length buf)); destruct (Nat.ltb_spec (S k) (S (length buf))); try lia; reflexivity.
Qed.

Lemma length_zero_from buf k : length (zero_from buf k) = length buf.
Proof. unfold zero_from. rewrite app_length, firstn_length, length_zeros. lia. Qed.

Lemma nth_zero_from buf k j :
  nth j (zero_from buf k) 0 = if (j <? k)%nat then nth j buf 0 else 0.
Proof.
  unfold zero_from. destruct (Nat.ltb_spec j k).
  - destruct (Nat.lt_ge_cases j (length buf)).
    + rewrite app_nth1 by (rewrite firstn_length; lia). rewrite nth_firstn.
      destruct (Nat.ltb_spec j k); [reflexivity|lia].
    + rewrite app_nth2 by (rewrite firstn_length; lia). rewrite nth_zeros.
      symmetry. apply nth_overflow. lia.
  - rewrite app_nth2 by (rewrite firstn_length; lia). apply nth_zeros.
Qed.

Lemma overlay_win c off n woff d :
  overlay (win c off n) off woff d = win (write_bytes c woff d) off n.
Proof.
  apply nth_ext with (d := 0) (d' := 0).
  - unfold overlay. rewrite length_overlay_from, !length_win. reflexivity.
  - intros k Hk. unfold overlay in *. rewrite length_overlay_from, length_win in Hk.
    rewrite nth_overlay_from, length_win, !nth_win, nth_write_bytes.
    destruct (Nat.ltb_spec k n); [|lia]. rewrite Nat.add_0_r. reflexivity.
Qed.

Lemma zero_from_win c off n m :
  zero_from (win c off n) (Nat.min (m - off) n) = win (resize c m) off n.
Proof.
  apply nth_ext with (d := 0) (d' := 0).
  - rewrite length_zero_from, !length_win. reflexivity.
  - intros k Hk. rewrite length_zero_from, length_win in Hk.
    rewrite nth_zero_from, !nth_win, nth_resize.
    destruct (Nat.ltb_spec k n); [|lia].
    destruct (Nat.ltb_spec k (Nat.min (m - off) n)); destruct (Nat.ltb_spec (off + k) m); try lia; reflexivity.
Qed.

Lemma win_nil off n : win [] off n = zeros n.
Proof.
  unfold win. rewrite skipn_nil. cbn [app]. rewrite <- (length_zeros n) at 1. apply firstn_all.
Qed.

Lemma firstn_min_length {A} (l : list A) n : firstn (Nat.min n (length l)) l = firstn n l.
Proof.
  destruct (Nat.le_ge_cases n (length l)).
  - rewrite Nat.min_l by assumption. reflexivity.
  - rewrite Nat.min_r by assumption. rewrite firstn_all. symmetry. apply firstn_all2. assumption.
Qed.

Lemma win_slice c off n :
  win c off (Nat.min n (length c - off)) = firstn n (skipn off c).
Proof.
  unfold win. rewrite firstn_app.
  replace (Nat.min n (length c - off) - length (skipn off c))%nat with 0%nat
    by (rewrite skipn_length; lia).
  cbn [firstn]. rewrite app_nil_r. rewrite <- skipn_length. apply firstn_min_length.
Qed.

(* ---- association lists of FsImpl ------------------------------------------------ *)
Ltac pe := repeat match goal with
  | H : path_eqb _ _ = true |- _ => apply path_eqb_eq in H
  | H : path_eqb _ _ = false |- _ => apply path_eqb_neq in H
  end; subst; try congruence; try reflexivity.
Ltac dpe := repeat match goal with
  | |- context[path_eqb ?a ?b] => let E := fresh "E" in destruct (path_eqb a b) eqn:E; cbn
  end.

Lemma fget_fset m p c q : fget (fset m p c) q = if path_eqb p q then Some c else fget m q.
Proof.
  induction m as [|[r d] m IH]; cbn.
  - reflexivity.
  - destruct (path_eqb r p) eqn:E1; cbn.
    + destruct (path_eqb r q) eqn:E2; destruct (path_eqb p q) eqn:E3; pe.
    + rewrite IH. destruct (path_eqb r q) eqn:E2; destruct (path_eqb p q) eqn:E3; pe.
Qed.

Lemma fget_fdel m p q : fget (fdel m p) q = if path_eqb p q then None else fget m q.
Proof.
  unfold fdel. induction m as [|[r d] m IH]; cbn.
  - destruct (path_eqb p q); reflexivity.
  - destruct (path_eqb r p) eqn:E1; cbn.
    + rewrite IH. destruct (path_eqb r q) eqn:E2; destruct (path_eqb p q) eqn:E3; pe.
    + rewrite IH. destruct (path_eqb r q) eqn:E2; destruct (path_eqb p q) eqn:E3; pe.
Qed.

Lemma fget_app_new m p q : fget (m ++ [(p, [])]) q =
  match fget m q with Some c => Some c | None => if path_eqb p q then Some [] else None end.
Proof.
  induction m as [|[r d] m IH]; cbn.
  - reflexivity.
  - destruct (path_eqb r q); [reflexivity|exact IH].
Qed.

Lemma mem_padd l p q : mem_path q (padd l p) = mem_path q l || path_eqb q p.
Proof.
  unfold padd. destruct (mem_path p l) eqn:E.
  - destruct (path_eqb q p) eqn:E1; [|rewrite orb_false_r; reflexivity].
    apply path_eqb_eq in E1. subst. rewrite E. reflexivity.
  - unfold mem_path. rewrite existsb_app. cbn. rewrite orb_false_r. reflexivity.
Qed.

Lemma mem_pdel l p q : mem_path q (pdel l p) = mem_path q l && negb (path_eqb q p).
Proof.
  unfold pdel, mem_path. induction l as [|r l IH]; cbn; [reflexivity|].
  destruct (path_eqb r p) eqn:E1; cbn.
  - rewrite IH. destruct (path_eqb q r) eqn:E2; destruct (path_eqb q p) eqn:E3; cbn; pe.
    rewrite andb_false_r. reflexivity.
  - rewrite IH. destruct (path_eqb q r) eqn:E2; destruct (path_eqb q p) eqn:E3; cbn; pe.
Qed.

(* ---- association lists of FsSpec --------------------------------------------------- *)
Lemma nget_ndel m p q : nget (ndel m p) q = if path_eqb p q then None else nget m q.
Proof.
  unfold ndel. induction m as [|[r e] m IH]; cbn.
  - destruct (path_eqb p q); reflexivity.
  - destruct (path_eqb r p) eqn:E1; cbn.
    + rewrite IH. destruct (path_eqb r q) eqn:E2; destruct (path_eqb p q) eqn:E3; pe.
    + rewrite IH. destruct (path_eqb r q) eqn:E2; destruct (path_eqb p q) eqn:E3; pe.
Qed.

Lemma nget_nset m p e q : nget (nset m p e) q = if path_eqb p q then Some e else nget m q.
Proof. unfold nset. cbn. destruct (path_eqb p q) eqn:E; [reflexivity|]. rewrite nget_ndel, E. reflexivity. Qed.

Lemma iget_iset m i c j : iget (iset m i c) j = if i =? j then c else iget m j.
Proof.
  unfold iset. cbn. destruct (N.eqb_spec i j); [reflexivity|].
  induction m as [|[k d] m IH]; cbn; [reflexivity|].
  destruct (N.eqb_spec k i); cbn.
  - subst. destruct (N.eqb_spec i j); [contradiction|exact IH].
  - destruct (k =? j); [reflexivity|exact IH].
Qed.

Lemma hget_hdel l k j : hget (hdel l k) j = if k =? j then None else hget l j.
Proof.
  unfold hdel. induction l as [|[i x] l IH]; cbn.
  - destruct (k =? j); reflexivity.
  - destruct (N.eqb_spec i k); cbn.
    + subst. rewrite IH. destruct (N.eqb_spec k j); reflexivity.
    + rewrite IH. destruct (N.eqb_spec i j); [|reflexivity].
      subst. destruct (N.eqb_spec k j); [congruence|reflexivity].
Qed.
Lemma hget_hset l k h j : hget (hset l k h) j = if k =? j then Some h else hget l j.
Proof.
  unfold hset. cbn. destruct (N.eqb_spec k j); [reflexivity|].
  rewrite hget_hdel. destruct (N.eqb_spec k j); [contradiction|reflexivity].
Qed.
Lemma sget_sdel l k j : sget (sdel l k) j = if k =? j then None else sget l j.
Proof.
  unfold sdel. induction l as [|[i x] l IH]; cbn.
  - destruct (k =? j); reflexivity.
  - destruct (N.eqb_spec i k); cbn.
    + subst. rewrite IH. destruct (N.eqb_spec k j); reflexivity.
    + rewrite IH. destruct (N.eqb_spec i j); [|reflexivity].
      subst. destruct (N.eqb_spec k j); [congruence|reflexivity].
Qed.
Lemma sget_sset l k h j : sget (sset l k h) j = if k =? j then Some h else sget l j.
Proof.
  unfold sset. cbn. destruct (N.eqb_spec k j); [reflexivity|].
  rewrite sget_sdel. destruct (N.eqb_spec k j); [contradiction|reflexivity].
Qed.

(* ---- listings: sort_names yields a canonical form of the set of names ---------------- *)
From Coq Require Import Sorted.

Lemma in_insert_sorted x : forall l y, In y (insert_sorted x l) <-> y = x \/ In y l.
Proof.
  induction l as [|a l IH]; intro y; cbn.
  - intuition.
  - destruct (N.ltb_spec x a); cbn.
    + intuition.
    + destruct (N.eqb_spec x a); cbn.
      * subst. intuition.
      * rewrite IH. intuition.
Qed.

Lemma insert_sorted_sorted x : forall l, StronglySorted N.lt l -> StronglySorted N.lt (insert_sorted x l).
Proof.
  induction l as [|a l IH]; intro H; cbn.
  - constructor; constructor.
  - inversion H as [|? ? Hs Hf]; subst.
    destruct (N.ltb_spec x a).
    + constructor; [exact H|]. constructor; [assumption|].
      rewrite Forall_forall in *. intros y Hy. specialize (Hf y Hy). lia.
    + destruct (N.eqb_spec x a); [exact H|].
      constructor; [apply IH; exact Hs|].
      rewrite Forall_forall in *. intros y Hy. apply in_insert_sorted in Hy as [->|Hy]; [lia|auto].
Qed.

Lemma sort_names_sorted l : StronglySorted N.lt (sort_names l).
Proof.
  unfold sort_names. induction l as [|a l IH]; cbn; [constructor|]. apply insert_sorted_sorted. exact IH.
Qed.

Lemma in_sort_names l y : In y (sort_names l) <-> In y l.
Proof.
  unfold sort_names. induction l as [|a l IH]; cbn; [tauto|].
  rewrite in_insert_sorted, IH. intuition.
Qed.

Lemma sorted_unique : forall l1 l2,
  StronglySorted N.lt l1 -> StronglySorted N.lt l2 -> (forall x, In x l1 <-> In x l2) -> l1 = l2.
Proof.
  induction l1 as [|a l1 IH]; intros l2 H1 H2 Heq.
  - destruct l2 as [|b l2]; [reflexivity|]. exfalso. apply (proj2 (Heq b)). left; reflexivity.
  - destruct l2 as [|b l2]; [exfalso; apply (proj1 (Heq a)); left; reflexivity|].
    inversion H1 as [|? ? Hs1 Hf1]; inversion H2 as [|? ? Hs2 Hf2]; subst.
    rewrite Forall_forall in Hf1, Hf2.
    assert (a = b).
    { destruct (proj1 (Heq a) (or_introl eq_refl)) as [E|Ha]; [congruence|].
      destruct (proj2 (Heq b) (or_introl eq_refl)) as [E|Hb]; [congruence|].
      specialize (Hf1 b Hb). specialize (Hf2 a Ha). lia. }
    subst b. f_equal. apply IH; auto.
    intro x. split; intro Hx.
    + destruct (proj1 (Heq x) (or_intror Hx)) as [E|H]; [|exact H].
      subst x. specialize (Hf1 a Hx). lia.
    + destruct (proj2 (Heq x) (or_intror Hx)) as [E|H]; [|exact H].
      subst x. specialize (Hf2 a Hx). lia.
Qed.

Lemma sort_names_ext l1 l2 : (forall x, In x l1 <-> In x l2) -> sort_names l1 = sort_names l2.
Proof.
  intro H. apply sorted_unique; try apply sort_names_sorted.
  intro x. rewrite !in_sort_names. apply H.
Qed.
