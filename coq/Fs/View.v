(* TV.Fs.View — what the implementation's view functions compute when no rename
   is pending (the known classes RenameFile / RenameDir are the histories with a
   pending rename): per-path folds over the pending log, and how push / sync_file
   / sync_dir act on them. *)
From TV.Lib Require Import Base.
From TV.Fs Require Import FsImpl FsSpec Facts.
Open Scope N_scope.

Definition not_rename (o : pop) : bool := match o with PRename _ _ => false | _ => true end.
Definition norename (s : fs) : Prop := forallb not_rename (pending s) = true.

Definition fx_step (p : path) (ex : bool) (o : pop) : bool :=
  match o with
  | CreateFile q => if path_eqb q p then true else ex
  | PRemoveFile q => if path_eqb q p then false else ex
  | _ => ex
  end.
Definition dx_step (p : path) (ex : bool) (o : pop) : bool :=
  match o with
  | CreateDir q => if path_eqb q p then true else ex
  | PRemoveDir q => if path_eqb q p then false else ex
  | _ => ex
  end.
Definition cstep (p : path) (c : bytes) (o : pop) : bytes :=
  match o with
  | PWrite q off d => if path_eqb q p then write_bytes c off d else c
  | PSetLen q n => if path_eqb q p then resize c n else c
  | _ => c
  end.
Definition cont (x : option bytes) : bytes := match x with Some c => c | None => [] end.
Definition some {A} (x : option A) : bool := match x with Some _ => true | None => false end.

(* the contents the implementation shows for path p *)
Definition fcontent (s : fs) (p : path) : bytes :=
  fold_left (cstep p) (pending s) (cont (fget (pfiles s) p)).

(* ---- generic fold lemmas -------------------------------------------------------- *)
Lemma fold_filter_skip {A B} (f : A -> B -> A) (h : B -> bool) : forall l a,
  (forall o, In o l -> h o = false -> forall a, f a o = a) ->
  fold_left f (filter h l) a = fold_left f l a.
Proof.
  induction l as [|o l IH]; intros a H; cbn; [reflexivity|].
  destruct (h o) eqn:E; cbn.
  - apply IH. intros; apply H; auto. right; assumption.
  - rewrite (H o (or_introl eq_refl) E). apply IH. intros; apply H; auto. right; assumption.
Qed.

(* all ops relevant to f are on the flushed side *)
Lemma fold_partition_flush {A B} (f : A -> B -> A) (g : B -> bool) : forall l a,
  (forall o, In o l -> g o = false -> forall a, f a o = a) ->
  fold_left f (filter (fun o => negb (g o)) l) (fold_left f (filter g l) a) = fold_left f l a.
Proof.
  intros l a H. rewrite (fold_left_id_in f).
  - apply fold_filter_skip. exact H.
  - intros b o Ho. apply filter_In in Ho as [Ho Hg]. apply H; auto.
    destruct (g o); [discriminate|reflexivity].
Qed.

(* all ops relevant to f are on the kept side *)
Lemma fold_partition_keep {A B} (f : A -> B -> A) (g : B -> bool) : forall l a,
  (forall o, In o l -> g o = true -> forall a, f a o = a) ->
  fold_left f (filter (fun o => negb (g o)) l) (fold_left f (filter g l) a) = fold_left f l a.
Proof.
  intros l a H. rewrite (fold_left_id_in f (filter g l)).
  - apply fold_filter_skip. intros o Ho Hg. apply H; auto. destruct (g o); [reflexivity|discriminate].
  - intros b o Ho. apply filter_In in Ho as [Ho Hg]. apply H; auto.
Qed.

(* ---- views without a pending rename ----------------------------------------------- *)
Lemma norename_in s : norename s -> forall o, In o (pending s) -> not_rename o = true.
Proof. unfold norename. intros H o Ho. rewrite forallb_forall in H. auto. Qed.

Lemma resolve_nr s p : norename s -> resolve s p = p.
Proof.
  intro H. unfold resolve. apply fold_left_id_in. intros a o Ho.
  apply in_rev in Ho. apply (norename_in s H) in Ho. destruct o; try reflexivity; discriminate.
Qed.

Lemma renamed_to_nr s q cp : norename s -> renamed_to s q cp = path_eqb q cp.
Proof.
  intro H. unfold renamed_to. rewrite fold_left_id_in; [reflexivity|].
  intros a o Ho. apply (norename_in s H) in Ho. destruct o; try reflexivity; discriminate.
Qed.

Lemma applies_nr s cp q : norename s -> applies s cp q = path_eqb q cp.
Proof. intro H. unfold applies. rewrite renamed_to_nr by exact H. apply orb_diag. Qed.

Lemma file_exists_nr s p : norename s ->
  file_exists s p = fold_left (fx_step p) (pending s) (has_file (pfiles s) p).
Proof.
  intro H. unfold file_exists. apply fold_left_ext_in. intros a o Ho.
  apply (norename_in s H) in Ho. destruct o; try reflexivity; discriminate.
Qed.

Lemma dir_exists_nr s p : norename s ->
  dir_exists s p = fold_left (dx_step p) (pending s) (mem_path p (pdirs s)).
Proof.
  intro H. unfold dir_exists. apply fold_left_ext_in. intros a o Ho.
  apply (norename_in s H) in Ho. destruct o; try reflexivity; discriminate.
Qed.

Lemma length_cstep_fold p : forall l c,
  fold_left (fun len o =>
    match o with
    | PWrite q off data => if path_eqb q p then Nat.max len (off + length data) else len
    | PSetLen q n => if path_eqb q p then n else len
    | _ => len
    end) l (length c) = length (fold_left (cstep p) l c).
Proof.
  induction l as [|o l IH]; intro c; cbn [fold_left]; [reflexivity|].
  destruct o; cbn [cstep]; try apply IH.
  - destruct (path_eqb p0 p); [|apply IH]. rewrite <- length_write_bytes. apply IH.
  - destruct (path_eqb p0 p); [|apply IH]. rewrite <- (length_resize c len) at 1. apply IH.
Qed.

Lemma file_len_nr s p : norename s -> file_len s p = length (fcontent s p).
Proof.
  intro H. unfold file_len, fcontent. rewrite resolve_nr by exact H.
  rewrite <- length_cstep_fold.
  replace (match fget (pfiles s) p with Some c => length c | None => 0%nat end)
    with (length (cont (fget (pfiles s) p))) by (destruct (fget (pfiles s) p); reflexivity).
  apply fold_left_ext_in. intros a o Ho.
  destruct o; try reflexivity; rewrite applies_nr by exact H; reflexivity.
Qed.

Lemma buf_fold p off n : forall l c,
  fold_left (fun buf o =>
    match o with
    | PWrite q woff data => if path_eqb q p then overlay buf off woff data else buf
    | PSetLen q m => if path_eqb q p then zero_from buf (Nat.min (m - off) n) else buf
    | _ => buf
    end) l (win c off n) = win (fold_left (cstep p) l c) off n.
Proof.
  induction l as [|o l IH]; intro c; cbn [fold_left]; [reflexivity|].
  destruct o; cbn [cstep]; try apply IH.
  - destruct (path_eqb p0 p); [|apply IH]. rewrite overlay_win. apply IH.
  - destruct (path_eqb p0 p); [|apply IH]. rewrite zero_from_win. apply IH.
Qed.

Lemma read_file_nr s p n off : norename s ->
  read_file s p n off = firstn n (skipn off (fcontent s p)).
Proof.
  intro H. unfold read_file.
  destruct (Nat.eqb_spec n 0) as [->|Hn]; [reflexivity|].
  rewrite file_len_nr by exact H.
  destruct (Nat.leb_spec (length (fcontent s p)) off) as [Hle|Hlt].
  - rewrite skipn_all2 by exact Hle. destruct n; reflexivity.
  - rewrite resolve_nr by exact H.
    set (tr := Nat.min n (length (fcontent s p) - off)).
    replace (match fget (pfiles s) p with
             | Some c => firstn tr (skipn off c ++ zeros tr)
             | None => zeros tr end) with (win (cont (fget (pfiles s) p)) off tr)
      by (destruct (fget (pfiles s) p); [reflexivity|apply win_nil]).
    rewrite <- (win_slice (fcontent s p) off n). fold tr.
    unfold fcontent. rewrite <- buf_fold.
    apply fold_left_ext_in. intros a o Ho.
    destruct o; try reflexivity; rewrite applies_nr by exact H; reflexivity.
Qed.

(* ---- push ----------------------------------------------------------------------------- *)
Lemma pending_push s o : pending (push s o) = pending s ++ [o].
Proof. reflexivity. Qed.

Lemma norename_push s o : norename s -> not_rename o = true -> norename (push s o).
Proof.
  unfold norename. intros H Ho. rewrite pending_push, forallb_app, H. cbn. rewrite Ho. reflexivity.
Qed.

Lemma file_exists_push s o p : not_rename o = true ->
  file_exists (push s o) p = fx_step p (file_exists s p) o.
Proof.
  intro H. unfold file_exists. rewrite pending_push, fold_left_app. cbn [fold_left pfiles push set_pending].
  destruct o; try reflexivity; discriminate.
Qed.

Lemma dir_exists_push s o p : not_rename o = true ->
  dir_exists (push s o) p = dx_step p (dir_exists s p) o.
Proof.
  intro H. unfold dir_exists. rewrite pending_push, fold_left_app. cbn [fold_left pdirs push set_pending].
  destruct o; try reflexivity; discriminate.
Qed.

Lemma fcontent_push s o p : fcontent (push s o) p = cstep p (fcontent s p) o.
Proof. unfold fcontent. rewrite pending_push, fold_left_app. reflexivity. Qed.

(* ---- apply_op on the persisted tables ------------------------------------------------- *)
Definition aop_f (p : path) (st : option bytes) (o : pop) : option bytes :=
  match o with
  | CreateFile q => if path_eqb q p then (match st with Some c => Some c | None => Some [] end) else st
  | PWrite q off d => if path_eqb q p then option_map (fun c => write_bytes c off d) st else st
  | PSetLen q n => if path_eqb q p then option_map (fun c => resize c n) st else st
  | PRemoveFile q => if path_eqb q p then None else st
  | _ => st
  end.

Lemma fget_apply_op s o p : not_rename o = true ->
  fget (pfiles (apply_op s o)) p = aop_f p (fget (pfiles s) p) o.
Proof.
  intro H. destruct o; cbn [apply_op aop_f]; try discriminate; try reflexivity.
  - unfold has_file. destruct (fget (pfiles s) p0) eqn:E0.
    + destruct (path_eqb p0 p) eqn:E; [|reflexivity]. apply path_eqb_eq in E; subst.
      rewrite E0. reflexivity.
    + cbn [pfiles]. rewrite fget_app_new.
      destruct (path_eqb p0 p) eqn:E.
      * apply path_eqb_eq in E; subst. rewrite E0. reflexivity.
      * destruct (fget (pfiles s) p); reflexivity.
  - destruct (fget (pfiles s) p0) eqn:E0; cbn [pfiles].
    + rewrite fget_fset. destruct (path_eqb p0 p) eqn:E; [|reflexivity].
      apply path_eqb_eq in E; subst. rewrite E0. reflexivity.
    + destruct (path_eqb p0 p) eqn:E; [|reflexivity].
      apply path_eqb_eq in E; subst. rewrite E0. reflexivity.
  - destruct (fget (pfiles s) p0) eqn:E0; cbn [pfiles].
    + rewrite fget_fset. destruct (path_eqb p0 p) eqn:E; [|reflexivity].
      apply path_eqb_eq in E; subst. rewrite E0. reflexivity.
    + destruct (path_eqb p0 p) eqn:E; [|reflexivity].
      apply path_eqb_eq in E; subst. rewrite E0. reflexivity.
  - cbn [pfiles]. rewrite fget_fdel. reflexivity.
Qed.

Lemma mem_pdirs_apply_op s o p : not_rename o = true ->
  mem_path p (pdirs (apply_op s o)) = dx_step p (mem_path p (pdirs s)) o.
Proof.
  intro H. destruct o; cbn [apply_op dx_step]; try discriminate; try reflexivity.
  - destruct (has_file (pfiles s) p0); reflexivity.
  - cbn [pdirs]. rewrite mem_padd. rewrite (path_eqb_sym p p0).
    destruct (path_eqb p0 p); [apply orb_true_r|apply orb_false_r].
  - destruct (fget (pfiles s) p0); reflexivity.
  - destruct (fget (pfiles s) p0); reflexivity.
  - cbn [pdirs]. rewrite mem_pdel. rewrite (path_eqb_sym p p0).
    destruct (path_eqb p0 p); cbn; [apply andb_false_r|apply andb_true_r].
Qed.

Lemma apply_op_frame s o :
  pending (apply_op s o) = pending s /\ synced (apply_op s o) = synced s /\ bsize (apply_op s o) = bsize s.
Proof.
  destruct o; cbn [apply_op]; auto.
  - destruct (has_file (pfiles s) p); auto.
  - destruct (fget (pfiles s) p); auto.
  - destruct (fget (pfiles s) p); auto.
  - destruct (fget (pfiles s) from); auto. destruct (mem_path from (pdirs s)); auto.
Qed.

Lemma some_aop_f p st o : some (aop_f p st o) = fx_step p (some st) o.
Proof.
  destruct o; cbn; try reflexivity; destruct (path_eqb _ p); try reflexivity; destruct st; reflexivity.
Qed.

(* fold of apply_op (possibly interleaved with synced bookkeeping) on the tables *)
Section ApplyFold.
  Variable mark : fs -> pop -> fs.
  Hypothesis mark_files : forall s o, pfiles (mark s o) = pfiles s.
  Hypothesis mark_dirs : forall s o, pdirs (mark s o) = pdirs s.
  Hypothesis mark_pending : forall s o, pending (mark s o) = pending s.

  Lemma fold_apply_files p : forall l s, forallb not_rename l = true ->
    fget (pfiles (fold_left (fun st o => apply_op (mark st o) o) l s)) p =
    fold_left (aop_f p) l (fget (pfiles s) p).
  Proof.
    induction l as [|o l IH]; intros s H; cbn [fold_left]; [reflexivity|].
    cbn in H. apply andb_true_iff in H as [Ho Hl].
    rewrite IH by exact Hl. f_equal. rewrite fget_apply_op by exact Ho. rewrite mark_files. reflexivity.
  Qed.

  Lemma fold_apply_dirs p : forall l s, forallb not_rename l = true ->
    mem_path p (pdirs (fold_left (fun st o => apply_op (mark st o) o) l s)) =
    fold_left (dx_step p) l (mem_path p (pdirs s)).
  Proof.
    induction l as [|o l IH]; intros s H; cbn [fold_left]; [reflexivity|].
    cbn in H. apply andb_true_iff in H as [Ho Hl].
    rewrite IH by exact Hl. f_equal. rewrite mem_pdirs_apply_op by exact Ho. rewrite mark_dirs. reflexivity.
  Qed.

  Lemma fold_apply_pending : forall l s,
    pending (fold_left (fun st o => apply_op (mark st o) o) l s) = pending s.
  Proof.
    induction l as [|o l IH]; intros s; cbn [fold_left]; [reflexivity|].
    rewrite IH. destruct (apply_op_frame (mark s o) o) as [A _]. rewrite A. apply mark_pending.
  Qed.
End ApplyFold.

(* ---- helper facts on the folds ---------------------------------------------------------- *)
Lemma fx_fold_true p : forall l b, fold_left (fx_step p) l b = true -> fold_left (fx_step p) l true = true.
Proof.
  induction l as [|o l IH]; intros b H; cbn in *; [reflexivity|].
  destruct o; cbn in *; try (eapply IH; exact H).
  - destruct (path_eqb p0 p); [exact H|eapply IH; exact H].
  - destruct (path_eqb p0 p); [exact H|eapply IH; exact H].
Qed.

Lemma fx_fold_src p : forall l b, fold_left (fx_step p) l b = true -> b = true \/ In (CreateFile p) l.
Proof.
  induction l as [|o l IH]; intros b H; cbn in *; [left; exact H|].
  apply IH in H as [H|H]; [|right; right; exact H].
  destruct o; cbn in H; auto.
  - destruct (path_eqb p0 p) eqn:E; auto. apply path_eqb_eq in E. subst. right; left; reflexivity.
  - destruct (path_eqb p0 p) eqn:E; auto. discriminate.
Qed.

Lemma dx_fold_src p : forall l b, fold_left (dx_step p) l b = true -> b = true \/ In (CreateDir p) l.
Proof.
  induction l as [|o l IH]; intros b H; cbn in *; [left; exact H|].
  apply IH in H as [H|H]; [|right; right; exact H].
  destruct o; cbn in H; auto.
  - destruct (path_eqb p0 p) eqn:E; auto. apply path_eqb_eq in E. subst. right; left; reflexivity.
  - destruct (path_eqb p0 p) eqn:E; auto. discriminate.
Qed.

Lemma some_fold_aop_f p : forall l st, some (fold_left (aop_f p) l st) = fold_left (fx_step p) l (some st).
Proof.
  induction l as [|o l IH]; intro st; cbn [fold_left]; [reflexivity|].
  rewrite IH, some_aop_f. reflexivity.
Qed.

Lemma fold_aop_data p : forall l c, (forall o, In o l -> is_data_op p o = true) ->
  fold_left (aop_f p) l (Some c) = Some (fold_left (cstep p) l c).
Proof.
  induction l as [|o l IH]; intros c H; cbn [fold_left]; [reflexivity|].
  assert (Ho := H o (or_introl eq_refl)).
  destruct o; cbn in Ho; try discriminate; cbn [aop_f cstep]; rewrite Ho; cbn [option_map];
    apply IH; intros; apply H; right; assumption.
Qed.

Lemma fold_aop_other p q : forall l st, q <> p -> (forall o, In o l -> is_data_op p o = true) ->
  fold_left (aop_f q) l st = st.
Proof.
  intros l st Hq H. apply fold_left_id_in. intros a o Ho. apply H in Ho.
  destruct o; cbn in Ho; try discriminate; cbn [aop_f];
    (destruct (path_eqb p0 q) eqn:E; [|reflexivity]);
    apply path_eqb_eq in E; apply path_eqb_eq in Ho; congruence.
Qed.

Lemma cont_fold_aop p : forall l st,
  (forall o, In o l -> is_data_op p o = false /\ o <> PRemoveFile p) ->
  cont (fold_left (aop_f p) l st) = cont st.
Proof.
  induction l as [|o l IH]; intros st H; cbn [fold_left]; [reflexivity|].
  rewrite IH by (intros; apply H; right; assumption).
  destruct (H o (or_introl eq_refl)) as [Hd Hr].
  destruct o; cbn in Hd; cbn [aop_f]; try reflexivity.
  - destruct (path_eqb p0 p); [|reflexivity]. destruct st; reflexivity.
  - rewrite Hd. reflexivity.
  - rewrite Hd. reflexivity.
  - destruct (path_eqb p0 p) eqn:E; [|reflexivity]. apply path_eqb_eq in E. subst. congruence.
Qed.

Lemma cstep_not_data p q o : is_data_op p o = false -> p = q -> forall c, cstep q c o = c.
Proof.
  intros H <- c. destruct o; cbn in *; try reflexivity; rewrite H; reflexivity.
Qed.
Lemma cstep_other_data p q o : is_data_op p o = true -> p <> q -> forall c, cstep q c o = c.
Proof.
  intros H Hn c. destruct o; cbn in *; try discriminate;
    (destruct (path_eqb p0 q) eqn:E; [|reflexivity]);
    apply path_eqb_eq in E; apply path_eqb_eq in H; congruence.
Qed.
Lemma fx_step_data p q o : is_data_op p o = true -> forall a, fx_step q a o = a.
Proof. destruct o; cbn; intros; try reflexivity; discriminate. Qed.
Lemma dx_step_data p q o : is_data_op p o = true -> forall a, dx_step q a o = a.
Proof. destruct o; cbn; intros; try reflexivity; discriminate. Qed.

Lemma forallb_filter {A} (f g : A -> bool) l : forallb f l = true -> forallb f (filter g l) = true.
Proof.
  rewrite !forallb_forall. intros H x Hx. apply filter_In in Hx as [Hx _]. auto.
Qed.

Lemma fold_apply_frame : forall l s,
  synced (fold_left apply_op l s) = synced s /\ bsize (fold_left apply_op l s) = bsize s.
Proof.
  induction l as [|o l IH]; intro s; cbn [fold_left]; [auto|].
  destruct (IH (apply_op s o)) as [A B]. destruct (apply_op_frame s o) as (_ & C & D).
  split; congruence.
Qed.

(* ---- sync_file preserves every view -------------------------------------------------------- *)
Lemma sync_file_views s p : norename s -> file_exists s p = true ->
  let s' := fst (sync_file s p) in
  snd (sync_file s p) = None /\ norename s' /\
  (forall q, file_exists s' q = file_exists s q) /\
  (forall q, dir_exists s' q = dir_exists s q) /\
  (forall q, fcontent s' q = fcontent s q) /\
  pending s' = filter (fun o => negb (is_data_op p o)) (pending s) /\
  synced s' = synced s /\ bsize s' = bsize s /\
  fget (pfiles s') p = Some (fcontent s p) /\
  (forall q, q <> p -> fget (pfiles s') q = fget (pfiles s) q) /\
  (forall q, mem_path q (pdirs s') = mem_path q (pdirs s)).
Proof.
  intros Hnr Hex. unfold sync_file. rewrite Hex. cbn [negb fst snd].
  set (flush := filter (is_data_op p) (pending s)).
  set (keep := filter (fun o => negb (is_data_op p o)) (pending s)).
  set (s1 := {| pfiles := if has_file (pfiles s) p then pfiles s else pfiles s ++ [(p, [])];
                pdirs := pdirs s; synced := synced s; pending := keep; bsize := bsize s |}).
  set (s' := fold_left apply_op flush s1).
  assert (Hfl : forallb not_rename flush = true) by (apply forallb_filter; exact Hnr).
  assert (Hflush : forall o, In o flush -> is_data_op p o = true)
    by (intros o Ho; apply filter_In in Ho; tauto).
  pose (mark := fun (st : fs) (_ : pop) => st).
  assert (Hs' : s' = fold_left (fun st o => apply_op (mark st o) o) flush s1) by reflexivity.
  assert (Hpend : pending s' = keep).
  { rewrite Hs', fold_apply_pending by reflexivity. reflexivity. }
  assert (Hfiles : forall q, fget (pfiles s') q = fold_left (aop_f q) flush (fget (pfiles s1) q)).
  { intro q. rewrite Hs'. apply fold_apply_files; auto. }
  assert (Hdirs : forall q, mem_path q (pdirs s') = mem_path q (pdirs s)).
  { intro q. rewrite Hs', fold_apply_dirs by auto. cbn [pdirs s1].
    apply fold_left_id_in. intros a o Ho. apply (dx_step_data p). auto. }
  assert (Hs1p : fget (pfiles s1) p = Some (cont (fget (pfiles s) p))).
  { cbn [pfiles s1]. unfold has_file. destruct (fget (pfiles s) p) eqn:E; [exact E|].
    rewrite fget_app_new, E, path_eqb_refl. reflexivity. }
  assert (Hs1q : forall q, q <> p -> fget (pfiles s1) q = fget (pfiles s) q).
  { intros q Hq. cbn [pfiles s1]. destruct (has_file (pfiles s) p); [reflexivity|].
    rewrite fget_app_new. destruct (fget (pfiles s) q); [reflexivity|].
    destruct (path_eqb p q) eqn:E; [apply path_eqb_eq in E; congruence|reflexivity]. }
  assert (Hp : fget (pfiles s') p = Some (fcontent s p)).
  { rewrite Hfiles, Hs1p, fold_aop_data by exact Hflush. f_equal. unfold fcontent, flush.
    apply fold_filter_skip. intros o _ Ho c. apply (cstep_not_data p); auto. }
  assert (Hq : forall q, q <> p -> fget (pfiles s') q = fget (pfiles s) q).
  { intros q Hq. rewrite Hfiles, (fold_aop_other p q) by auto. apply Hs1q; exact Hq. }
  assert (Hnr' : norename s').
  { unfold norename. rewrite Hpend. apply forallb_filter. exact Hnr. }
  assert (Hsy : synced s' = synced s /\ bsize s' = bsize s).
  { unfold s'. destruct (fold_apply_frame flush s1) as [A B]. rewrite A, B. split; reflexivity. }
  split; [reflexivity|]. split; [exact Hnr'|].
  split; [|split; [|split; [|split; [exact Hpend|split; [|split; [|split; [exact Hp|split; [exact Hq|exact Hdirs]]]]]]]].
  - intro q. rewrite (file_exists_nr s' q Hnr'), (file_exists_nr s q Hnr), Hpend.
    unfold keep. rewrite fold_filter_skip
      by (intros o _ Ho a; apply (fx_step_data p); destruct (is_data_op p o); [reflexivity|discriminate]).
    destruct (path_eqb q p) eqn:E.
    + apply path_eqb_eq in E. subst q. unfold has_file at 1. rewrite Hp.
      rewrite (file_exists_nr s p Hnr) in Hex. rewrite Hex. eapply fx_fold_true. exact Hex.
    + apply path_eqb_neq in E. unfold has_file. rewrite Hq by exact E. reflexivity.
  - intro q. rewrite (dir_exists_nr s' q Hnr'), (dir_exists_nr s q Hnr), Hpend, Hdirs.
    unfold keep. apply fold_filter_skip.
    intros o _ Ho a; apply (dx_step_data p); destruct (is_data_op p o); [reflexivity|discriminate].
  - intro q. unfold fcontent at 1. rewrite Hpend.
    destruct (path_eqb q p) eqn:E.
    + apply path_eqb_eq in E. subst q. rewrite Hp. cbn [cont]. unfold keep.
      apply fold_left_id_in. intros a o Ho. apply filter_In in Ho as [_ Ho].
      apply (cstep_not_data p); auto. destruct (is_data_op p o); [discriminate|reflexivity].
    + apply path_eqb_neq in E. rewrite Hq by exact E. unfold fcontent, keep.
      apply fold_filter_skip. intros o _ Ho c. apply (cstep_other_data p); auto.
      destruct (is_data_op p o); [reflexivity|discriminate].
  - apply Hsy.
  - apply Hsy.
Qed.

(* ---- sync_dir preserves every view ------------------------------------------------------------ *)
Definition sd_mark (d : path) (st : fs) (o : pop) : fs := set_synced st (mark_synced d (synced st) o).

Lemma fx_step_entry d q o a : (is_entry_op d o = negb (child_of q d)) -> fx_step q a o = a.
Proof.
  destruct o; cbn; intros H; try reflexivity;
    (destruct (path_eqb p q) eqn:E; [|reflexivity]); apply path_eqb_eq in E; subst;
    destruct (child_of q d); discriminate.
Qed.

Lemma dx_step_entry d q o a :
  (is_entry_op d o = negb (path_eqb q d || child_of q d)) -> dx_step q a o = a.
Proof.
  destruct o; cbn; intros H; try reflexivity;
    (destruct (path_eqb p q) eqn:E; [|reflexivity]); apply path_eqb_eq in E; subst;
    destruct (path_eqb q d || child_of q d); discriminate.
Qed.

Lemma entry_not_data d p o : is_entry_op d o = true -> is_data_op p o = false.
Proof. destruct o; cbn; intros; try reflexivity; discriminate. Qed.

Lemma sync_dir_views s d : norename s -> dir_exists s d = true ->
  let s' := fst (sync_dir s d) in
  let flush := filter (is_entry_op d) (pending s) in
  snd (sync_dir s d) = None /\ norename s' /\
  (forall q, file_exists s' q = file_exists s q) /\
  (forall q, dir_exists s' q = dir_exists s q) /\
  (forall q, ~ In (PRemoveFile q) (pending s) -> fcontent s' q = fcontent s q) /\
  pending s' = filter (fun o => negb (is_entry_op d o)) (pending s) /\
  (forall q, fget (pfiles s') q = fold_left (aop_f q) flush (fget (pfiles s) q)) /\
  (forall q, mem_path q (pdirs s') = fold_left (dx_step q) flush (mem_path q (pdirs s))).
Proof.
  intros Hnr Hex. unfold sync_dir. rewrite Hex. cbn [negb fst snd].
  set (flush := filter (is_entry_op d) (pending s)).
  set (keep := filter (fun o => negb (is_entry_op d o)) (pending s)).
  set (s' := fold_left (fun st o => apply_op (set_synced st (mark_synced d (synced st) o)) o)
                       flush (set_pending s keep)).
  assert (Hfl : forallb not_rename flush = true) by (apply forallb_filter; exact Hnr).
  assert (Hs' : s' = fold_left (fun st o => apply_op (sd_mark d st o) o) flush (set_pending s keep))
    by reflexivity.
  assert (Hpend : pending s' = keep).
  { rewrite Hs', fold_apply_pending by reflexivity. reflexivity. }
  assert (Hfiles : forall q, fget (pfiles s') q = fold_left (aop_f q) flush (fget (pfiles s) q)).
  { intro q. rewrite Hs'. rewrite fold_apply_files by (auto; reflexivity). reflexivity. }
  assert (Hdirs : forall q, mem_path q (pdirs s') = fold_left (dx_step q) flush (mem_path q (pdirs s))).
  { intro q. rewrite Hs'. rewrite fold_apply_dirs by (auto; reflexivity). reflexivity. }
  assert (Hnr' : norename s').
  { unfold norename. rewrite Hpend. apply forallb_filter. exact Hnr. }
  split; [reflexivity|]. split; [exact Hnr'|].
  split; [|split; [|split; [|split; [exact Hpend|split; [exact Hfiles|exact Hdirs]]]]].
  - intro q. rewrite (file_exists_nr s' q Hnr'), (file_exists_nr s q Hnr), Hpend.
    unfold has_file at 1. fold (some (fget (pfiles s') q)). rewrite Hfiles, some_fold_aop_f.
    fold (has_file (pfiles s) q). unfold keep, flush.
    destruct (child_of q d) eqn:Ec.
    + apply fold_partition_flush. intros o _ Ho a. apply (fx_step_entry d). rewrite Ho, Ec. reflexivity.
    + apply fold_partition_keep. intros o _ Ho a. apply (fx_step_entry d). rewrite Ho, Ec. reflexivity.
  - intro q. rewrite (dir_exists_nr s' q Hnr'), (dir_exists_nr s q Hnr), Hpend, Hdirs.
    unfold keep, flush.
    destruct (path_eqb q d || child_of q d) eqn:Ec.
    + apply fold_partition_flush. intros o _ Ho a. apply (dx_step_entry d). rewrite Ho, Ec. reflexivity.
    + apply fold_partition_keep. intros o _ Ho a. apply (dx_step_entry d). rewrite Ho, Ec. reflexivity.
  - intros q Hrm. unfold fcontent at 1. rewrite Hpend, Hfiles.
    rewrite cont_fold_aop.
    + unfold fcontent, keep. apply fold_filter_skip. intros o _ Ho c.
      apply (cstep_not_data q); [|reflexivity]. apply (entry_not_data d).
      destruct (is_entry_op d o); [reflexivity|discriminate].
    + intros o Ho. apply filter_In in Ho as [Ho He]. split; [apply (entry_not_data d); exact He|].
      intro Heq. subst o. contradiction.
Qed.

(* ---- where existence comes from --------------------------------------------------------------- *)
Lemma fget_In : forall m q c, fget m q = Some c -> In (q, c) m.
Proof.
  induction m as [|[r d] m IH]; intros q c H; cbn in *; [discriminate|].
  destruct (path_eqb r q) eqn:E.
  - apply path_eqb_eq in E. inversion H; subst. left; reflexivity.
  - right. apply IH. exact H.
Qed.

Lemma file_exists_src s q : norename s -> file_exists s q = true ->
  has_file (pfiles s) q = true \/ In (CreateFile q) (pending s).
Proof. intros H. rewrite file_exists_nr by exact H. apply fx_fold_src. Qed.

Lemma dir_exists_src s q : norename s -> dir_exists s q = true ->
  mem_path q (pdirs s) = true \/ In (CreateDir q) (pending s).
Proof. intros H. rewrite dir_exists_nr by exact H. apply dx_fold_src. Qed.

Lemma dir_entries_iff s d q : norename s ->
  (In q (dir_entries s d) <->
   child_of q d = true /\ (file_exists s q = true \/ dir_exists s q = true)).
Proof.
  intro Hnr. unfold dir_entries. rewrite !in_app_iff. split.
  - intros [H|[H|H]].
    + apply in_map_iff in H as ([r c] & <- & H). apply filter_In in H as [_ H].
      apply andb_true_iff in H as [A B]. cbn in *. auto.
    + apply filter_In in H as [_ H]. apply andb_true_iff in H as [A B]. auto.
    + apply in_flat_map in H as (o & Ho & H). pose proof (norename_in s Hnr o Ho) as Hr.
      destruct o; cbn in H; try contradiction; try discriminate.
      * destruct (child_of p d && file_exists s p) eqn:E; [|contradiction].
        destruct H as [<-|[]]. apply andb_true_iff in E as [A B]. auto.
      * destruct (child_of p d && dir_exists s p) eqn:E; [|contradiction].
        destruct H as [<-|[]]. apply andb_true_iff in E as [A B]. auto.
  - intros [Hc [Hf|Hd]].
    + destruct (file_exists_src s q Hnr Hf) as [H|H].
      * left. unfold has_file in H. destruct (fget (pfiles s) q) as [c|] eqn:E; [|discriminate].
        apply fget_In in E. apply in_map_iff. exists (q, c). split; [reflexivity|].
        apply filter_In. split; [exact E|]. cbn. rewrite Hc, Hf. reflexivity.
      * right; right. apply in_flat_map. exists (CreateFile q). split; [exact H|].
        cbn. rewrite Hc, Hf. left; reflexivity.
    + destruct (dir_exists_src s q Hnr Hd) as [H|H].
      * right; left. apply filter_In. split; [apply mem_path_In; exact H|]. rewrite Hc, Hd. reflexivity.
      * right; right. apply in_flat_map. exists (CreateDir q). split; [exact H|].
        cbn. rewrite Hc, Hd. left; reflexivity.
Qed.

Lemma has_children_iff s d : norename s ->
  (has_children s d = true <->
   exists q, child_of q d = true /\ (file_exists s q = true \/ dir_exists s q = true)).
Proof.
  intro Hnr. unfold has_children. rewrite !orb_true_iff, !existsb_exists. split.
  - intros [[([r c] & _ & H)|(r & _ & H)]|(o & Ho & H)].
    + apply andb_true_iff in H as [A B]. exists r. cbn in *. auto.
    + apply andb_true_iff in H as [A B]. exists r. auto.
    + destruct o; try discriminate; apply andb_true_iff in H as [A B]; exists p; auto.
  - intros (q & Hc & [Hf|Hd]).
    + destruct (file_exists_src s q Hnr Hf) as [H|H].
      * left; left. unfold has_file in H. destruct (fget (pfiles s) q) as [c|] eqn:E; [|discriminate].
        exists (q, c). split; [apply fget_In; exact E|]. cbn. rewrite Hc, Hf. reflexivity.
      * right. exists (CreateFile q). split; [exact H|]. rewrite Hc, Hf. reflexivity.
    + destruct (dir_exists_src s q Hnr Hd) as [H|H].
      * left; right. exists q. split; [apply mem_path_In; exact H|]. rewrite Hc, Hd. reflexivity.
      * right. exists (CreateDir q). split; [exact H|]. rewrite Hc, Hd. reflexivity.
Qed.

(* ---- the durable-entry set after sync_dir ------------------------------------------------------- *)
(* any-kind toggle of the entry q *)
Definition ex_step (q : path) (b : bool) (o : pop) : bool :=
  match o with
  | CreateFile p | CreateDir p => if path_eqb p q then true else b
  | PRemoveFile p | PRemoveDir p => if path_eqb p q then false else b
  | _ => b
  end.

Lemma fold_sd_synced d : forall l st,
  synced (fold_left (fun st o => apply_op (set_synced st (mark_synced d (synced st) o)) o) l st) =
  fold_left (mark_synced d) l (synced st).
Proof.
  induction l as [|o l IH]; intro st; cbn [fold_left]; [reflexivity|].
  rewrite IH. f_equal.
  destruct (apply_op_frame (set_synced st (mark_synced d (synced st) o)) o) as (_ & A & _). rewrite A. reflexivity.
Qed.

Definition not_rmdir (o : pop) : bool := match o with PRemoveDir _ => false | _ => true end.

Lemma mem_mark_synced d q l o : not_rename o = true -> not_rmdir o = true -> is_entry_op d o = true ->
  mem_path q (mark_synced d l o) = ex_step q (mem_path q l) o.
Proof.
  intros Hr Hd He. destruct o; cbn [mark_synced ex_step is_entry_op not_rename not_rmdir] in *; try discriminate.
  - rewrite He. rewrite mem_padd, (path_eqb_sym q p). destruct (path_eqb p q); [apply orb_true_r|apply orb_false_r].
  - rewrite He. rewrite mem_padd, (path_eqb_sym q p). destruct (path_eqb p q); [apply orb_true_r|apply orb_false_r].
  - rewrite He. rewrite mem_pdel, (path_eqb_sym q p). destruct (path_eqb p q); cbn; [apply andb_false_r|apply andb_true_r].
Qed.

Lemma fold_mark_synced d q : forall l sy,
  (forall o, In o l -> not_rename o = true /\ not_rmdir o = true /\ is_entry_op d o = true) ->
  mem_path q (fold_left (mark_synced d) l sy) = fold_left (ex_step q) l (mem_path q sy).
Proof.
  induction l as [|o l IH]; intros sy H; cbn [fold_left]; [reflexivity|].
  rewrite IH by (intros; apply H; right; assumption).
  destruct (H o (or_introl eq_refl)) as (A & B & C). rewrite mem_mark_synced by assumption. reflexivity.
Qed.
