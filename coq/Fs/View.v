(* TV.Fs.View — what the implementation's view functions compute: per-path folds
   over the pending log, and how push / sync_file / sync_dir act on them.  Pending
   renames of regular files are admitted in the well-formed shape [RWf] that the
   complement of the known classes RenameFile / RenameDir guarantees (distinct
   names, the source created before and untouched after, the target at most
   unlinked after, no data operation pending on either name). *)
From TV.Lib Require Import Base.
From TV.Fs Require Import FsImpl FsSpec Facts.
Open Scope N_scope.

Definition not_rename (o : pop) : bool := match o with PRename _ _ => false | _ => true end.
Definition norename (s : fs) : Prop := forallb not_rename (pending s) = true.
(* the operation is not a rename that names p *)
Definition ren_off (p : path) (o : pop) : bool :=
  match o with PRename f t => negb (path_eqb f p) && negb (path_eqb t p) | _ => true end.
Lemma not_rename_off p o : not_rename o = true -> ren_off p o = true.
Proof. destruct o; try reflexivity; discriminate. Qed.

Definition fx_step (p : path) (ex : bool) (o : pop) : bool :=
  match o with
  | CreateFile q => if path_eqb q p then true else ex
  | PRemoveFile q => if path_eqb q p then false else ex
  | PRename f t => if path_eqb f p then false else if path_eqb t p then true else ex
  | _ => ex
  end.
Definition dx_step (p : path) (ex : bool) (o : pop) : bool :=
  match o with
  | CreateDir q => if path_eqb q p then true else ex
  | PRemoveDir q => if path_eqb q p then false else ex
  | _ => ex
  end.
Definition cstep (p : path) (c : bytes) (o : pop) : bytes :=
  match o with
  | PWrite q off d => if path_eqb q p then write_bytes c off d else c
  | PSetLen q n => if path_eqb q p then resize c n else c
  | _ => c
  end.
Definition cont (x : option bytes) : bytes := match x with Some c => c | None => [] end.
Definition some {A} (x : option A) : bool := match x with Some _ => true | None => false end.

(* the contents the implementation holds under the (persisted-side) key p *)
Definition fcontent (s : fs) (p : path) : bytes :=
  fold_left (cstep p) (pending s) (cont (fget (pfiles s) p)).

(* ---- generic fold lemmas -------------------------------------------------------- *)
Lemma fold_filter_skip {A B} (f : A -> B -> A) (h : B -> bool) : forall l a,
  (forall o, In o l -> h o = false -> forall a, f a o = a) ->
  fold_left f (filter h l) a = fold_left f l a.
Proof.
  induction l as [|o l IH]; intros a H; cbn; [reflexivity|].
  destruct (h o) eqn:E; cbn.
  - apply IH. intros; apply H; auto. right; assumption.
  - rewrite (H o (or_introl eq_refl) E). apply IH. intros; apply H; auto. right; assumption.
Qed.

(* all ops relevant to f are on the flushed side *)
Lemma fold_partition_flush {A B} (f : A -> B -> A) (g : B -> bool) : forall l a,
  (forall o, In o l -> g o = false -> forall a, f a o = a) ->
  fold_left f (filter (fun o => negb (g o)) l) (fold_left f (filter g l) a) = fold_left f l a.
Proof.
  intros l a H. rewrite (fold_left_id_in f).
  - apply fold_filter_skip. exact H.
  - intros b o Ho. apply filter_In in Ho as [Ho Hg]. apply H; auto.
    destruct (g o); [discriminate|reflexivity].
Qed.

(* all ops relevant to f are on the kept side *)
Lemma fold_partition_keep {A B} (f : A -> B -> A) (g : B -> bool) : forall l a,
  (forall o, In o l -> g o = true -> forall a, f a o = a) ->
  fold_left f (filter (fun o => negb (g o)) l) (fold_left f (filter g l) a) = fold_left f l a.
Proof.
  intros l a H. rewrite (fold_left_id_in f (filter g l)).
  - apply fold_filter_skip. intros o Ho Hg. apply H; auto. destruct (g o); [reflexivity|discriminate].
  - intros b o Ho. apply filter_In in Ho as [Ho Hg]. apply H; auto.
Qed.

Lemma forallb_filter {A} (f g : A -> bool) l : forallb f l = true -> forallb f (filter g l) = true.
Proof.
  rewrite !forallb_forall. intros H x Hx. apply filter_In in Hx as [Hx _]. auto.
Qed.

(* ---- the names of the pending renames -------------------------------------------- *)
Fixpoint rnames (l : list pop) : list path :=
  match l with
  | [] => []
  | PRename f t :: l' => f :: t :: rnames l'
  | _ :: l' => rnames l'
  end.

Lemma rnames_in : forall l f t, In (PRename f t) l -> In f (rnames l) /\ In t (rnames l).
Proof.
  induction l as [|o l IH]; intros f t H; [contradiction|].
  destruct H as [H|H].
  - subst o. cbn. auto.
  - destruct (IH f t H) as [A B]. destruct o; cbn; auto.
Qed.

Lemma in_rnames : forall l p, In p (rnames l) -> exists f t, In (PRename f t) l /\ (p = f \/ p = t).
Proof.
  induction l as [|o l IH]; intros p H; [contradiction|].
  destruct o; cbn in H; try (destruct (IH p H) as (f & t & A & B); exists f, t; split; [right; exact A|exact B]).
  destruct H as [H|[H|H]].
  - exists from, to. split; [left; reflexivity|left; auto].
  - exists from, to. split; [left; reflexivity|right; auto].
  - destruct (IH p H) as (f & t & A & B). exists f, t. split; [right; exact A|exact B].
Qed.

Lemma rnames_app : forall l1 l2, rnames (l1 ++ l2) = rnames l1 ++ rnames l2.
Proof.
  induction l1 as [|o l1 IH]; intro l2; [reflexivity|].
  destruct o; cbn; rewrite ?IH; reflexivity.
Qed.

Lemma rnames_filter_in (h : pop -> bool) : forall l p, In p (rnames (filter h l)) -> In p (rnames l).
Proof.
  intros l p H. apply in_rnames in H as (f & t & A & B). apply filter_In in A as [A _].
  destruct (rnames_in l f t A). destruct B; subst; assumption.
Qed.

Lemma NoDup_rnames_filter (h : pop -> bool) : forall l, NoDup (rnames l) -> NoDup (rnames (filter h l)).
Proof.
  induction l as [|o l IH]; intro H; [constructor|].
  destruct o; cbn in *; try (destruct (h _); cbn; apply IH; exact H).
  inversion H as [|? ? H1 H2]; subst. inversion H2 as [|? ? H3 H4]; subst.
  destruct (h (PRename from to)); cbn; [|apply IH; exact H4].
  constructor.
  - intros [Hx|Hx]; [apply H1; left; exact Hx|]. apply H1. right. eapply rnames_filter_in. exact Hx.
  - constructor; [|apply IH; exact H4]. intro Hx. apply H3. eapply rnames_filter_in. exact Hx.
Qed.

Lemma norename_rnames l : forallb not_rename l = true -> rnames l = [].
Proof.
  induction l as [|o l IH]; intro H; [reflexivity|]. cbn in H. apply andb_true_iff in H as [Ho Hl].
  destruct o; cbn; try (apply IH; exact Hl). discriminate.
Qed.

Lemma norename_in s : norename s -> forall o, In o (pending s) -> not_rename o = true.
Proof. unfold norename. intros H o Ho. rewrite forallb_forall in H. auto. Qed.

Lemma path_dec (p q : path) : {p = q} + {p <> q}.
Proof. apply list_eq_dec. apply N.eq_dec. Qed.

(* p is the new name of some rename in l, or of none *)
Lemma tgt_dec : forall l p, (exists f, In (PRename f p) l) \/ (forall f, ~ In (PRename f p) l).
Proof.
  induction l as [|o l IH]; intro p; [right; intros f []|].
  destruct (IH p) as [[f H]|H]; [left; exists f; right; exact H|].
  destruct o; try (right; intros f [Hf|Hf]; [discriminate|eapply H; exact Hf]).
  destruct (path_dec to p) as [->|Hn].
  - left. exists from. left. reflexivity.
  - right. intros f [Hf|Hf]; [inversion Hf; congruence|eapply H; exact Hf].
Qed.
Lemma src_dec : forall l p, (exists t, In (PRename p t) l) \/ (forall t, ~ In (PRename p t) l).
Proof.
  induction l as [|o l IH]; intro p; [right; intros f []|].
  destruct (IH p) as [[f H]|H]; [left; exists f; right; exact H|].
  destruct o; try (right; intros f [Hf|Hf]; [discriminate|eapply H; exact Hf]).
  destruct (path_dec from p) as [->|Hn].
  - left. exists to. left. reflexivity.
  - right. intros f [Hf|Hf]; [inversion Hf; congruence|eapply H; exact Hf].
Qed.

(* ---- resolve: a new name resolves to the old one ---------------------------------- *)
Definition rstep (cur : path) (o : pop) : path :=
  match o with PRename f t => if path_eqb t cur then f else cur | _ => cur end.
Definition rres (l : list pop) (p : path) : path := fold_right (fun o cur => rstep cur o) p l.

Lemma resolve_fold s p : resolve s p = rres (pending s) p.
Proof.
  unfold resolve, rres.
  pose proof (fold_left_rev_right (fun o cur => rstep cur o) (rev (pending s)) p) as H.
  rewrite rev_involutive in H. symmetry. exact H.
Qed.

Lemma rres_other : forall l p, (forall f, ~ In (PRename f p) l) -> rres l p = p.
Proof.
  induction l as [|o l IH]; intros p H; [reflexivity|].
  cbn [rres fold_right]. fold (rres l p). rewrite IH by (intros f Hf; apply (H f); right; exact Hf).
  destruct o; try reflexivity. cbn [rstep].
  destruct (path_eqb to p) eqn:E; [|reflexivity]. apply path_eqb_eq in E. subst to.
  exfalso. apply (H from). left. reflexivity.
Qed.

Lemma rres_tgt : forall l f t, NoDup (rnames l) -> In (PRename f t) l -> rres l t = f.
Proof.
  induction l as [|o l IH]; intros f t Hnd Hin; [contradiction|].
  cbn [rres fold_right]. fold (rres l t).
  destruct Hin as [Hin|Hin].
  - subst o. cbn in Hnd. inversion Hnd as [|? ? H1 H2]; subst. inversion H2 as [|? ? H3 H4]; subst.
    rewrite rres_other.
    + cbn [rstep]. rewrite path_eqb_refl. reflexivity.
    + intros f' Hf'. apply H3. apply (rnames_in l f' t Hf').
  - assert (Hnd' : NoDup (rnames l)).
    { destruct o; cbn in Hnd; try exact Hnd. inversion Hnd as [|? ? _ H2]; subst. inversion H2; assumption. }
    rewrite (IH f t Hnd' Hin). destruct o; try reflexivity. cbn [rstep].
    destruct (path_eqb to f) eqn:E; [|reflexivity]. apply path_eqb_eq in E. subst to. exfalso.
    cbn in Hnd. inversion Hnd as [|? ? _ H2]; subst. inversion H2 as [|? ? H3 _]; subst.
    apply H3. apply (rnames_in l f t Hin).
Qed.

Lemma resolve_other s p : (forall f, ~ In (PRename f p) (pending s)) -> resolve s p = p.
Proof. intro H. rewrite resolve_fold. apply rres_other. exact H. Qed.
Lemma resolve_tgt s f t : NoDup (rnames (pending s)) -> In (PRename f t) (pending s) -> resolve s t = f.
Proof. intros H1 H2. rewrite resolve_fold. apply rres_tgt; assumption. Qed.

(* what a path resolves to is never the new name of a pending rename *)
Lemma resolve_not_tgt s p : NoDup (rnames (pending s)) ->
  forall f, ~ In (PRename f (resolve s p)) (pending s).
Proof.
  intros Hnd f' Hf'. destruct (tgt_dec (pending s) p) as [[f Hf]|Hn].
  - rewrite (resolve_tgt s f p Hnd Hf) in Hf'.
    (* f is a source and a target *)
    clear - Hnd Hf Hf'. revert Hnd Hf Hf'. generalize (pending s) as l.
    induction l as [|o l IH]; intros Hnd Hf Hf'; [contradiction|].
    assert (Hnd' : NoDup (rnames l)).
    { destruct o; cbn in Hnd; try exact Hnd. inversion Hnd as [|? ? _ H2]; subst. inversion H2; assumption. }
    destruct Hf as [Hf|Hf]; destruct Hf' as [Hf'|Hf'].
    + subst o. inversion Hf'; subst. cbn in Hnd. inversion Hnd as [|? ? H1 _]; subst. apply H1. left. reflexivity.
    + subst o. cbn in Hnd. inversion Hnd as [|? ? H1 _]; subst. apply H1. right. apply (rnames_in l f' f Hf').
    + subst o. cbn in Hnd. inversion Hnd as [|? ? _ H2]; subst. inversion H2 as [|? ? H3 _]; subst.
      apply H3. apply (rnames_in l f p Hf).
    + apply IH; assumption.
  - rewrite (resolve_other s p Hn) in Hf'. eapply Hn. exact Hf'.
Qed.

(* ---- renamed_to ----------------------------------------------------------------------- *)
Definition fstep (cur : path) (o : pop) : path :=
  match o with PRename f t => if path_eqb f cur then t else cur | _ => cur end.

Lemma renamed_to_fold s q cp : renamed_to s q cp = path_eqb (fold_left fstep (pending s) q) cp.
Proof. reflexivity. Qed.

Lemma fwd_tgt : forall l q, fold_left fstep l q <> q -> exists f, In (PRename f (fold_left fstep l q)) l.
Proof.
  induction l as [|o l IH]; intros q H; [exfalso; apply H; reflexivity|].
  cbn [fold_left] in *.
  destruct (path_dec (fstep q o) q) as [E|E].
  - rewrite E in *. destruct (IH q H) as [f Hf]. exists f. right. exact Hf.
  - destruct o; cbn [fstep] in *; try congruence.
    destruct (path_eqb from q) eqn:E1; [|congruence].
    destruct (path_dec (fold_left fstep l to) to) as [E2|E2].
    + rewrite E2. exists from. left. reflexivity.
    + destruct (IH to E2) as [f Hf]. exists f. right. exact Hf.
Qed.

Lemma applies_nt s cp q : (forall f, ~ In (PRename f cp) (pending s)) -> applies s cp q = path_eqb q cp.
Proof.
  intro H. unfold applies. rewrite renamed_to_fold.
  destruct (path_eqb q cp) eqn:E; [reflexivity|]. cbn [orb].
  destruct (path_eqb (fold_left fstep (pending s) q) cp) eqn:E2; [|reflexivity].
  apply path_eqb_eq in E2. exfalso.
  destruct (path_dec (fold_left fstep (pending s) q) q) as [E3|E3].
  - rewrite E3 in E2. subst cp. rewrite path_eqb_refl in E. discriminate.
  - destruct (fwd_tgt _ _ E3) as [f Hf]. rewrite E2 in Hf. eapply H. exact Hf.
Qed.

(* ---- the views as folds ---------------------------------------------------------------- *)
Lemma file_exists_fold s p :
  file_exists s p = fold_left (fx_step p) (pending s) (has_file (pfiles s) p).
Proof. reflexivity. Qed.

(* no pending rename has a persisted directory as its source *)
Definition rdirs_off (s : fs) : Prop :=
  forall f t, In (PRename f t) (pending s) -> mem_path f (pdirs s) = false.

Lemma dir_exists_fold s p : rdirs_off s ->
  dir_exists s p = fold_left (dx_step p) (pending s) (mem_path p (pdirs s)).
Proof.
  intro H. unfold dir_exists. apply fold_left_ext_in. intros a o Ho.
  destruct o; try reflexivity. cbn [dx_step]. rewrite (H _ _ Ho), !andb_false_r. reflexivity.
Qed.

Lemma norename_rdirs_off s : norename s -> rdirs_off s.
Proof. intros H f t Hin. apply (norename_in s H) in Hin. discriminate. Qed.

Lemma length_cstep_fold p : forall l c,
  fold_left (fun len o =>
    match o with
    | PWrite q off data => if path_eqb q p then Nat.max len (off + length data) else len
    | PSetLen q n => if path_eqb q p then n else len
    | _ => len
    end) l (length c) = length (fold_left (cstep p) l c).
Proof.
  induction l as [|o l IH]; intro c; cbn [fold_left]; [reflexivity|].
  destruct o; cbn [cstep]; try apply IH.
  - destruct (path_eqb p0 p); [|apply IH]. rewrite <- length_write_bytes. apply IH.
  - destruct (path_eqb p0 p); [|apply IH]. rewrite <- (length_resize c len) at 1. apply IH.
Qed.

Lemma file_len_res s p : NoDup (rnames (pending s)) ->
  file_len s p = length (fcontent s (resolve s p)).
Proof.
  intro H. unfold file_len, fcontent. set (cp := resolve s p).
  rewrite <- length_cstep_fold.
  replace (match fget (pfiles s) cp with Some c => length c | None => 0%nat end)
    with (length (cont (fget (pfiles s) cp))) by (destruct (fget (pfiles s) cp); reflexivity).
  apply fold_left_ext_in. intros a o Ho.
  destruct o; try reflexivity; rewrite applies_nt by (apply resolve_not_tgt; exact H); reflexivity.
Qed.

Lemma buf_fold p off n : forall l c,
  fold_left (fun buf o =>
    match o with
    | PWrite q woff data => if path_eqb q p then overlay buf off woff data else buf
    | PSetLen q m => if path_eqb q p then zero_from buf (Nat.min (m - off) n) else buf
    | _ => buf
    end) l (win c off n) = win (fold_left (cstep p) l c) off n.
Proof.
  induction l as [|o l IH]; intro c; cbn [fold_left]; [reflexivity|].
  destruct o; cbn [cstep]; try apply IH.
  - destruct (path_eqb p0 p); [|apply IH]. rewrite overlay_win. apply IH.
  - destruct (path_eqb p0 p); [|apply IH]. rewrite zero_from_win. apply IH.
Qed.

Lemma read_file_res s p n off : NoDup (rnames (pending s)) ->
  read_file s p n off = firstn n (skipn off (fcontent s (resolve s p))).
Proof.
  intro H. unfold read_file.
  destruct (Nat.eqb_spec n 0) as [->|Hn]; [reflexivity|].
  rewrite file_len_res by exact H. set (cp := resolve s p).
  destruct (Nat.leb_spec (length (fcontent s cp)) off) as [Hle|Hlt].
  - rewrite skipn_all2 by exact Hle. destruct n; reflexivity.
  - set (tr := Nat.min n (length (fcontent s cp) - off)).
    replace (match fget (pfiles s) cp with
             | Some c => firstn tr (skipn off c ++ zeros tr)
             | None => zeros tr end) with (win (cont (fget (pfiles s) cp)) off tr)
      by (destruct (fget (pfiles s) cp); [reflexivity|apply win_nil]).
    rewrite <- (win_slice (fcontent s cp) off n). fold tr.
    unfold fcontent. rewrite <- buf_fold.
    apply fold_left_ext_in. intros a o Ho.
    destruct o; try reflexivity; rewrite applies_nt by (apply resolve_not_tgt; exact H); reflexivity.
Qed.

(* ---- the rename-free special case ---------------------------------------------------------- *)
Lemma norename_nodup s : norename s -> NoDup (rnames (pending s)).
Proof. intro H. rewrite (norename_rnames _ H). constructor. Qed.

Lemma resolve_nr s p : norename s -> resolve s p = p.
Proof. intro H. apply resolve_other. intros f Hf. apply (norename_in s H) in Hf. discriminate. Qed.

Lemma file_exists_nr s p : norename s ->
  file_exists s p = fold_left (fx_step p) (pending s) (has_file (pfiles s) p).
Proof. intros _. reflexivity. Qed.

Lemma dir_exists_nr s p : norename s ->
  dir_exists s p = fold_left (dx_step p) (pending s) (mem_path p (pdirs s)).
Proof. intro H. apply dir_exists_fold. apply norename_rdirs_off. exact H. Qed.

Lemma file_len_nr s p : norename s -> file_len s p = length (fcontent s p).
Proof. intro H. rewrite file_len_res by (apply norename_nodup; exact H). rewrite resolve_nr by exact H. reflexivity. Qed.

Lemma read_file_nr s p n off : norename s ->
  read_file s p n off = firstn n (skipn off (fcontent s p)).
Proof. intro H. rewrite read_file_res by (apply norename_nodup; exact H). rewrite resolve_nr by exact H. reflexivity. Qed.

(* ---- push ----------------------------------------------------------------------------- *)
Lemma pending_push s o : pending (push s o) = pending s ++ [o].
Proof. reflexivity. Qed.

Lemma norename_push s o : norename s -> not_rename o = true -> norename (push s o).
Proof.
  unfold norename. intros H Ho. rewrite pending_push, forallb_app, H. cbn. rewrite Ho. reflexivity.
Qed.

Lemma file_exists_push s o p : file_exists (push s o) p = fx_step p (file_exists s p) o.
Proof.
  unfold file_exists. rewrite pending_push, fold_left_app. reflexivity.
Qed.

Lemma dir_exists_push s o p :
  match o with PRename f _ => mem_path f (pdirs s) = false | _ => True end ->
  dir_exists (push s o) p = dx_step p (dir_exists s p) o.
Proof.
  intro H. unfold dir_exists. rewrite pending_push, fold_left_app. cbn [fold_left pdirs push set_pending].
  destruct o; try reflexivity. cbn [dx_step]. rewrite H, !andb_false_r. reflexivity.
Qed.

Lemma fcontent_push s o p : fcontent (push s o) p = cstep p (fcontent s p) o.
Proof. unfold fcontent. rewrite pending_push, fold_left_app. reflexivity. Qed.

(* ---- apply_op on the persisted tables ------------------------------------------------- *)
Definition aop_f (p : path) (st : option bytes) (o : pop) : option bytes :=
  match o with
  | CreateFile q => if path_eqb q p then (match st with Some c => Some c | None => Some [] end) else st
  | PWrite q off d => if path_eqb q p then option_map (fun c => write_bytes c off d) st else st
  | PSetLen q n => if path_eqb q p then option_map (fun c => resize c n) st else st
  | PRemoveFile q => if path_eqb q p then None else st
  | _ => st
  end.

(* the rename moves a persisted regular file, or nothing at all *)
Definition ren_files_only (s : fs) (o : pop) : Prop :=
  match o with PRename f _ => mem_path f (pdirs s) = false | _ => True end.

Lemma fget_apply_op s o p : ren_off p o = true -> ren_files_only s o ->
  fget (pfiles (apply_op s o)) p = aop_f p (fget (pfiles s) p) o.
Proof.
  intros H Hd. destruct o; cbn [apply_op aop_f]; try reflexivity.
  - unfold has_file. destruct (fget (pfiles s) p0) eqn:E0.
    + destruct (path_eqb p0 p) eqn:E; [|reflexivity]. apply path_eqb_eq in E; subst.
      rewrite E0. reflexivity.
    + cbn [pfiles]. rewrite fget_app_new.
      destruct (path_eqb p0 p) eqn:E.
      * apply path_eqb_eq in E; subst. rewrite E0. reflexivity.
      * destruct (fget (pfiles s) p); reflexivity.
  - destruct (fget (pfiles s) p0) eqn:E0; cbn [pfiles].
    + rewrite fget_fset. destruct (path_eqb p0 p) eqn:E; [|reflexivity].
      apply path_eqb_eq in E; subst. rewrite E0. reflexivity.
    + destruct (path_eqb p0 p) eqn:E; [|reflexivity].
      apply path_eqb_eq in E; subst. rewrite E0. reflexivity.
  - destruct (fget (pfiles s) p0) eqn:E0; cbn [pfiles].
    + rewrite fget_fset. destruct (path_eqb p0 p) eqn:E; [|reflexivity].
      apply path_eqb_eq in E; subst. rewrite E0. reflexivity.
    + destruct (path_eqb p0 p) eqn:E; [|reflexivity].
      apply path_eqb_eq in E; subst. rewrite E0. reflexivity.
  - cbn [ren_off] in H. apply andb_true_iff in H as [H1 H2].
    apply negb_true_iff in H1, H2. cbn [ren_files_only] in Hd.
    destruct (fget (pfiles s) from) eqn:E0; cbn [pfiles].
    + rewrite fget_fset, H2, fget_fdel, H1. reflexivity.
    + rewrite Hd. reflexivity.
  - cbn [pfiles]. rewrite fget_fdel. reflexivity.
Qed.

Lemma mem_pdirs_apply_op s o p : ren_files_only s o ->
  mem_path p (pdirs (apply_op s o)) = dx_step p (mem_path p (pdirs s)) o.
Proof.
  intro H. destruct o; cbn [apply_op dx_step]; try reflexivity.
  - destruct (has_file (pfiles s) p0); reflexivity.
  - cbn [pdirs]. rewrite mem_padd. rewrite (path_eqb_sym p p0).
    destruct (path_eqb p0 p); [apply orb_true_r|apply orb_false_r].
  - destruct (fget (pfiles s) p0); reflexivity.
  - destruct (fget (pfiles s) p0); reflexivity.
  - cbn [ren_files_only] in H. destruct (fget (pfiles s) from); [reflexivity|]. rewrite H. reflexivity.
  - cbn [pdirs]. rewrite mem_pdel. rewrite (path_eqb_sym p p0).
    destruct (path_eqb p0 p); cbn; [apply andb_false_r|apply andb_true_r].
Qed.

Lemma apply_op_frame s o :
  pending (apply_op s o) = pending s /\ synced (apply_op s o) = synced s /\ bsize (apply_op s o) = bsize s.
Proof.
  destruct o; cbn [apply_op]; auto.
  - destruct (has_file (pfiles s) p); auto.
  - destruct (fget (pfiles s) p); auto.
  - destruct (fget (pfiles s) p); auto.
  - destruct (fget (pfiles s) from); auto. destruct (mem_path from (pdirs s)); auto.
Qed.

Lemma some_aop_f p st o : ren_off p o = true -> some (aop_f p st o) = fx_step p (some st) o.
Proof.
  intro H. destruct o; cbn in *; try reflexivity; try (destruct (path_eqb _ p); try reflexivity; destruct st; reflexivity).
  apply andb_true_iff in H as [H1 H2]. apply negb_true_iff in H1, H2. rewrite H1, H2. reflexivity.
Qed.

(* no rename of the list has a persisted directory as its source, now or once the
   list is being applied *)
Definition rens_files_only (s : fs) (l : list pop) : Prop :=
  forall f t, In (PRename f t) l -> mem_path f (pdirs s) = false /\ ~ In (CreateDir f) l.

(* fold of apply_op (possibly interleaved with synced bookkeeping) on the tables *)
Section ApplyFold.
  Variable mark : fs -> pop -> fs.
  Hypothesis mark_files : forall s o, pfiles (mark s o) = pfiles s.
  Hypothesis mark_dirs : forall s o, pdirs (mark s o) = pdirs s.
  Hypothesis mark_pending : forall s o, pending (mark s o) = pending s.

  Lemma rens_files_only_tail s o l : rens_files_only s (o :: l) ->
    rens_files_only (apply_op (mark s o) o) l.
  Proof.
    intros H f t Hin. destruct (H f t (or_intror Hin)) as [A B]. split.
    - rewrite mem_pdirs_apply_op.
      + rewrite mark_dirs, A. destruct o; cbn [dx_step]; try reflexivity.
        * destruct (path_eqb p f) eqn:E; [|reflexivity]. apply path_eqb_eq in E. subst p.
          exfalso. apply B. left. reflexivity.
        * destruct (path_eqb p f); reflexivity.
      + destruct o; cbn; auto. rewrite mark_dirs. apply (H from to). left. reflexivity.
    - intro Hc. apply B. right. exact Hc.
  Qed.

  Lemma fold_apply_files p : forall l s, forallb (ren_off p) l = true -> rens_files_only s l ->
    fget (pfiles (fold_left (fun st o => apply_op (mark st o) o) l s)) p =
    fold_left (aop_f p) l (fget (pfiles s) p).
  Proof.
    induction l as [|o l IH]; intros s H Hd; cbn [fold_left]; [reflexivity|].
    cbn in H. apply andb_true_iff in H as [Ho Hl].
    rewrite IH by (try exact Hl; apply rens_files_only_tail; exact Hd). f_equal.
    rewrite fget_apply_op; [rewrite mark_files; reflexivity|exact Ho|].
    destruct o; cbn; auto. rewrite mark_dirs. apply (Hd from to). left. reflexivity.
  Qed.

  Lemma fold_apply_dirs p : forall l s, rens_files_only s l ->
    mem_path p (pdirs (fold_left (fun st o => apply_op (mark st o) o) l s)) =
    fold_left (dx_step p) l (mem_path p (pdirs s)).
  Proof.
    induction l as [|o l IH]; intros s Hd; cbn [fold_left]; [reflexivity|].
    rewrite IH by (apply rens_files_only_tail; exact Hd). f_equal.
    rewrite mem_pdirs_apply_op; [rewrite mark_dirs; reflexivity|].
    destruct o; cbn; auto. rewrite mark_dirs. apply (Hd from to). left. reflexivity.
  Qed.

  Lemma rens_files_only_app s : forall A B, rens_files_only s (A ++ B) ->
    rens_files_only s A /\ rens_files_only (fold_left (fun st o => apply_op (mark st o) o) A s) B.
  Proof.
    intros A. revert s. induction A as [|o A IH]; intros s B H.
    - split; [intros f t []|exact H].
    - cbn [app fold_left] in *. destruct (IH _ B (rens_files_only_tail s o _ H)) as [X Y]. split; [|exact Y].
      intros f t Hin. destruct (H f t) as [P Q].
      { destruct Hin as [Hin|Hin]; [left; exact Hin|right; apply in_or_app; left; exact Hin]. }
      split; [exact P|]. intro Hc. apply Q. destruct Hc as [Hc|Hc]; [left; exact Hc|right; apply in_or_app; left; exact Hc].
  Qed.

  (* a flushed rename whose source is persisted when its turn comes *)
  Lemma fold_apply_rename f t c A B s : f <> t ->
    forallb (ren_off f) A = true -> forallb (ren_off f) B = true -> forallb (ren_off t) B = true ->
    rens_files_only s (A ++ PRename f t :: B) ->
    fold_left (aop_f f) A (fget (pfiles s) f) = Some c ->
    let s' := fold_left (fun st o => apply_op (mark st o) o) (A ++ PRename f t :: B) s in
    fget (pfiles s') f = fold_left (aop_f f) B None /\ fget (pfiles s') t = fold_left (aop_f t) B (Some c).
  Proof.
    intros Hne HA HBf HBt Hd Hc. cbv zeta. rewrite fold_left_app. cbn [fold_left].
    destruct (rens_files_only_app s A _ Hd) as [HdA HdB].
    set (s1 := fold_left (fun st o => apply_op (mark st o) o) A s) in *.
    assert (H1 : fget (pfiles s1) f = Some c) by (unfold s1; rewrite fold_apply_files by assumption; exact Hc).
    pose proof (rens_files_only_tail s1 _ _ HdB) as Hd2.
    set (s2 := apply_op (mark s1 (PRename f t)) (PRename f t)) in *.
    assert (H2 : pfiles s2 = fset (fdel (pfiles s1) f) t c).
    { unfold s2. cbn [apply_op]. rewrite mark_files, H1. reflexivity. }
    rewrite !fold_apply_files by assumption. rewrite H2, !fget_fset, fget_fdel, !path_eqb_refl.
    destruct (path_eqb t f) eqn:E; [apply path_eqb_eq in E; congruence|]. split; reflexivity.
  Qed.

  Lemma fold_apply_pending : forall l s,
    pending (fold_left (fun st o => apply_op (mark st o) o) l s) = pending s.
  Proof.
    induction l as [|o l IH]; intros s; cbn [fold_left]; [reflexivity|].
    rewrite IH. destruct (apply_op_frame (mark s o) o) as [A _]. rewrite A. apply mark_pending.
  Qed.
End ApplyFold.

Lemma rens_files_only_nr s l : forallb not_rename l = true -> rens_files_only s l.
Proof. intros H f t Hin. rewrite forallb_forall in H. apply H in Hin. discriminate. Qed.
Lemma forallb_ren_off_nr p l : forallb not_rename l = true -> forallb (ren_off p) l = true.
Proof. rewrite !forallb_forall. intros H o Ho. apply not_rename_off. auto. Qed.

(* ---- helper facts on the folds ---------------------------------------------------------- *)
Lemma fx_fold_true p : forall l b, fold_left (fx_step p) l b = true -> fold_left (fx_step p) l true = true.
Proof.
  induction l as [|o l IH]; intros b H; cbn in *; [reflexivity|].
  destruct o; cbn in *; try (eapply IH; exact H).
  - destruct (path_eqb p0 p); [exact H|eapply IH; exact H].
  - destruct (path_eqb from p); [exact H|]. destruct (path_eqb to p); [exact H|eapply IH; exact H].
  - destruct (path_eqb p0 p); [exact H|eapply IH; exact H].
Qed.

Lemma fx_fold_src p : forall l b, fold_left (fx_step p) l b = true ->
  b = true \/ In (CreateFile p) l \/ exists f, In (PRename f p) l.
Proof.
  induction l as [|o l IH]; intros b H; cbn in *; [left; exact H|].
  apply IH in H as [H|[H|[f H]]]; [|right; left; right; exact H|right; right; exists f; right; exact H].
  destruct o; cbn in H; auto.
  - destruct (path_eqb p0 p) eqn:E; auto. apply path_eqb_eq in E. subst. right; left; left; reflexivity.
  - destruct (path_eqb from p) eqn:E; [discriminate|].
    destruct (path_eqb to p) eqn:E2; auto. apply path_eqb_eq in E2. subst. right; right. exists from. left; reflexivity.
  - destruct (path_eqb p0 p) eqn:E; auto. discriminate.
Qed.

Lemma dx_fold_src p : forall l b, fold_left (dx_step p) l b = true -> b = true \/ In (CreateDir p) l.
Proof.
  induction l as [|o l IH]; intros b H; cbn in *; [left; exact H|].
  apply IH in H as [H|H]; [|right; right; exact H].
  destruct o; cbn in H; auto.
  - destruct (path_eqb p0 p) eqn:E; auto. apply path_eqb_eq in E. subst. right; left; reflexivity.
  - destruct (path_eqb p0 p) eqn:E; auto. discriminate.
Qed.

Lemma some_fold_aop_f p : forall l st, forallb (ren_off p) l = true ->
  some (fold_left (aop_f p) l st) = fold_left (fx_step p) l (some st).
Proof.
  induction l as [|o l IH]; intros st H; cbn [fold_left]; [reflexivity|].
  cbn in H. apply andb_true_iff in H as [Ho Hl]. rewrite IH by exact Hl. rewrite some_aop_f by exact Ho. reflexivity.
Qed.

Lemma fold_aop_data p : forall l c, (forall o, In o l -> is_data_op p o = true) ->
  fold_left (aop_f p) l (Some c) = Some (fold_left (cstep p) l c).
Proof.
  induction l as [|o l IH]; intros c H; cbn [fold_left]; [reflexivity|].
  assert (Ho := H o (or_introl eq_refl)).
  destruct o; cbn in Ho; try discriminate; cbn [aop_f cstep]; rewrite Ho; cbn [option_map];
    apply IH; intros; apply H; right; assumption.
Qed.

Lemma fold_aop_other p q : forall l st, q <> p -> (forall o, In o l -> is_data_op p o = true) ->
  fold_left (aop_f q) l st = st.
Proof.
  intros l st Hq H. apply fold_left_id_in. intros a o Ho. apply H in Ho.
  destruct o; cbn in Ho; try discriminate; cbn [aop_f];
    (destruct (path_eqb p0 q) eqn:E; [|reflexivity]);
    apply path_eqb_eq in E; apply path_eqb_eq in Ho; congruence.
Qed.

Lemma cont_fold_aop p : forall l st,
  (forall o, In o l -> is_data_op p o = false /\ o <> PRemoveFile p) ->
  cont (fold_left (aop_f p) l st) = cont st.
Proof.
  induction l as [|o l IH]; intros st H; cbn [fold_left]; [reflexivity|].
  rewrite IH by (intros; apply H; right; assumption).
  destruct (H o (or_introl eq_refl)) as [Hd Hr].
  destruct o; cbn in Hd; cbn [aop_f]; try reflexivity.
  - destruct (path_eqb p0 p); [|reflexivity]. destruct st; reflexivity.
  - rewrite Hd. reflexivity.
  - rewrite Hd. reflexivity.
  - destruct (path_eqb p0 p) eqn:E; [|reflexivity]. apply path_eqb_eq in E. subst. congruence.
Qed.

Lemma cstep_not_data p q o : is_data_op p o = false -> p = q -> forall c, cstep q c o = c.
Proof.
  intros H <- c. destruct o; cbn in *; try reflexivity; rewrite H; reflexivity.
Qed.
Lemma cstep_other_data p q o : is_data_op p o = true -> p <> q -> forall c, cstep q c o = c.
Proof.
  intros H Hn c. destruct o; cbn in *; try discriminate;
    (destruct (path_eqb p0 q) eqn:E; [|reflexivity]);
    apply path_eqb_eq in E; apply path_eqb_eq in H; congruence.
Qed.
Lemma fx_step_data p q o : is_data_op p o = true -> forall a, fx_step q a o = a.
Proof. destruct o; cbn; intros; try reflexivity; discriminate. Qed.
Lemma dx_step_data p q o : is_data_op p o = true -> forall a, dx_step q a o = a.
Proof. destruct o; cbn; intros; try reflexivity; discriminate. Qed.

Lemma fold_apply_frame : forall l s,
  synced (fold_left apply_op l s) = synced s /\ bsize (fold_left apply_op l s) = bsize s.
Proof.
  induction l as [|o l IH]; intro s; cbn [fold_left]; [auto|].
  destruct (IH (apply_op s o)) as [A B]. destruct (apply_op_frame s o) as (_ & C & D).
  split; congruence.
Qed.

(* ---- operations on a key ---------------------------------------------------------------------- *)
Definition on_key (q : path) (o : pop) : bool :=
  match o with
  | CreateFile p | CreateDir p | PWrite p _ _ | PSetLen p _ | PRemoveFile p | PRemoveDir p => path_eqb p q
  | PRename f t => path_eqb f q || path_eqb t q
  end.

Lemma off_key_fx q o a : on_key q o = false -> fx_step q a o = a.
Proof.
  destruct o; cbn; intro H; try reflexivity; try (rewrite H; reflexivity).
  apply orb_false_iff in H as [-> ->]. reflexivity.
Qed.
Lemma off_key_dx q o a : on_key q o = false -> dx_step q a o = a.
Proof. destruct o; cbn; intro H; try reflexivity; rewrite H; reflexivity. Qed.
Lemma off_key_cstep q o c : on_key q o = false -> cstep q c o = c.
Proof. destruct o; cbn; intro H; try reflexivity; rewrite H; reflexivity. Qed.
Lemma off_key_aop q o st : on_key q o = false -> aop_f q st o = st.
Proof. destruct o; cbn; intro H; try reflexivity; rewrite H; reflexivity. Qed.
Lemma off_key_ren_off q o : on_key q o = false -> ren_off q o = true.
Proof.
  destruct o; cbn; intro H; try reflexivity. apply orb_false_iff in H as [-> ->]. reflexivity.
Qed.
Lemma off_key_data q o : on_key q o = false -> is_data_op q o = false.
Proof. destruct o; cbn; intro H; try reflexivity; exact H. Qed.

Lemma on_key_cases q o : on_key q o = true ->
  o = CreateFile q \/ o = CreateDir q \/ o = PRemoveFile q \/ o = PRemoveDir q \/ is_data_op q o = true \/
  exists f t, o = PRename f t /\ (f = q \/ t = q).
Proof.
  destruct o; cbn; intro H; try (apply path_eqb_eq in H; subst; auto 7).
  - right; right; right; right; left. subst. apply path_eqb_refl.
  - right; right; right; right; left. subst. apply path_eqb_refl.
  - right; right; right; right; right. exists from, to. split; [reflexivity|].
    apply orb_true_iff in H as [H|H]; apply path_eqb_eq in H; auto.
Qed.

(* ---- the shape of a pending rename ------------------------------------------------------------- *)
Definition rshape (l : list pop) (f t : path) : Prop :=
  exists l1 l2, l = l1 ++ PRename f t :: l2 /\
    (forall o, In o l1 -> on_key f o = true -> o = CreateFile f) /\
    (forall o, In o l1 -> on_key t o = true -> o = CreateFile t \/ o = CreateDir t \/ o = PRemoveDir t) /\
    (forall o, In o l2 -> on_key f o = false) /\
    (forall o, In o l2 -> on_key t o = true -> o = PRemoveFile t).

Record RWf (s : fs) : Prop := {
  rw_nodup : NoDup (rnames (pending s));
  rw_shape : forall f t, In (PRename f t) (pending s) -> rshape (pending s) f t;
  rw_nd : rdirs_off s;
  rw_src : forall f t, In (PRename f t) (pending s) ->
             has_file (pfiles s) f = true \/ In (CreateFile f) (pending s)
}.

Lemma RWf_norename s : norename s -> RWf s.
Proof.
  intro H. constructor.
  - apply norename_nodup. exact H.
  - intros f t Hin. apply (norename_in s H) in Hin. discriminate.
  - apply norename_rdirs_off. exact H.
  - intros f t Hin. apply (norename_in s H) in Hin. discriminate.
Qed.

Lemma nodup_ren_ne l f t : NoDup (rnames l) -> In (PRename f t) l -> f <> t.
Proof.
  induction l as [|o l IH]; intros Hnd Hin; [contradiction|].
  destruct Hin as [Hin|Hin].
  - subst o. cbn in Hnd. inversion Hnd as [|? ? H1 _]; subst. intro E. subst. apply H1. left. reflexivity.
  - apply IH; [|exact Hin]. destruct o; cbn in Hnd; try exact Hnd.
    inversion Hnd as [|? ? _ H2]; subst. inversion H2; assumption.
Qed.

(* what the shape says about the whole log *)
Lemma rshape_in l f t o : rshape l f t -> In o l ->
  (on_key f o = true -> o = CreateFile f \/ o = PRename f t) /\
  (on_key t o = true -> o = CreateFile t \/ o = CreateDir t \/ o = PRemoveDir t \/ o = PRename f t \/ o = PRemoveFile t).
Proof.
  intros (l1 & l2 & -> & A & B & C & D) Hin. apply in_app_iff in Hin as [Hin|[Hin|Hin]].
  - split; intro K; [left; apply A; assumption|]. destruct (B o Hin K) as [X|[X|X]]; auto.
  - subst o. split; intros _; auto.
  - split; intro K; [rewrite (C o Hin) in K; discriminate|]. right; right; right; right. apply D; assumption.
Qed.

Lemma rshape_no_data l f t o : rshape l f t -> In o l -> is_data_op f o = false /\ is_data_op t o = false.
Proof.
  intros Hs Hin. destruct (rshape_in l f t o Hs Hin) as [A B].
  split.
  - destruct (on_key f o) eqn:K; [|apply off_key_data; exact K].
    destruct (A eq_refl) as [->| ->]; reflexivity.
  - destruct (on_key t o) eqn:K; [|apply off_key_data; exact K].
    destruct (B eq_refl) as [->|[->|[->|[->| ->]]]]; reflexivity.
Qed.

Lemma rshape_fx_src l f t b : rshape l f t -> fold_left (fx_step f) l b = false.
Proof.
  intros (l1 & l2 & -> & A & B & C & D). rewrite fold_left_app. cbn [fold_left fx_step].
  rewrite path_eqb_refl. apply fold_left_id_in. intros a o Ho. apply off_key_fx. apply C. exact Ho.
Qed.

Lemma pop_dec (a b : pop) : {a = b} + {a <> b}.
Proof. decide equality; try apply path_dec; try apply Nat.eq_dec; apply (list_eq_dec N.eq_dec). Qed.

(* folds over a list whose operations on the key are removals only *)
Lemma fx_fold_rm_only q : forall l b, (forall o, In o l -> on_key q o = true -> o = PRemoveFile q) ->
  (In (PRemoveFile q) l -> fold_left (fx_step q) l b = false) /\
  (~ In (PRemoveFile q) l -> fold_left (fx_step q) l b = b).
Proof.
  induction l as [|o l IH]; intros b H; cbn [fold_left]; [split; [intros []|reflexivity]|].
  assert (Hl : forall o0, In o0 l -> on_key q o0 = true -> o0 = PRemoveFile q) by (intros; apply H; auto; right; assumption).
  destruct (on_key q o) eqn:K.
  - rewrite (H o (or_introl eq_refl) K). cbn [fx_step]. rewrite path_eqb_refl. split.
    + intros _. destruct (IH false Hl) as [X1 X2].
      destruct (in_dec pop_dec (PRemoveFile q) l) as [Hi|Hi]; [apply X1; exact Hi|apply X2; exact Hi].
    + intro Hn. exfalso. apply Hn. left. reflexivity.
  - rewrite (off_key_fx q o b K). destruct (IH b Hl) as [X Y]. split.
    + intros [Hi|Hi]; [subst o; cbn in K; rewrite path_eqb_refl in K; discriminate|apply X; exact Hi].
    + intro Hn. apply Y. intro Hi. apply Hn. right. exact Hi.
Qed.

Lemma aop_fold_rm_only q : forall l st, (forall o, In o l -> on_key q o = true -> o = PRemoveFile q) ->
  (In (PRemoveFile q) l -> fold_left (aop_f q) l st = None) /\
  (~ In (PRemoveFile q) l -> fold_left (aop_f q) l st = st).
Proof.
  induction l as [|o l IH]; intros st H; cbn [fold_left]; [split; [intros []|reflexivity]|].
  assert (Hl : forall o0, In o0 l -> on_key q o0 = true -> o0 = PRemoveFile q) by (intros; apply H; auto; right; assumption).
  destruct (on_key q o) eqn:K.
  - rewrite (H o (or_introl eq_refl) K). cbn [aop_f]. rewrite path_eqb_refl. split.
    + intros _. destruct (IH None Hl) as [X1 X2].
      destruct (in_dec pop_dec (PRemoveFile q) l) as [Hi|Hi]; [apply X1; exact Hi|apply X2; exact Hi].
    + intro Hn. exfalso. apply Hn. left. reflexivity.
  - rewrite (off_key_aop q o st K). destruct (IH st Hl) as [X Y]. split.
    + intros [Hi|Hi]; [subst o; cbn in K; rewrite path_eqb_refl in K; discriminate|apply X; exact Hi].
    + intro Hn. apply Y. intro Hi. apply Hn. right. exact Hi.
Qed.

(* a list whose operations on the key are creations only *)
Lemma aop_fold_create_only q : forall l st, (forall o, In o l -> on_key q o = true -> o = CreateFile q) ->
  some st = true \/ In (CreateFile q) l -> fold_left (aop_f q) l st = Some (cont st).
Proof.
  induction l as [|o l IH]; intros st H Hs; cbn [fold_left].
  - destruct Hs as [Hs|[]]. destruct st; [reflexivity|discriminate].
  - assert (Hl : forall o0, In o0 l -> on_key q o0 = true -> o0 = CreateFile q) by (intros; apply H; auto; right; assumption).
    destruct (on_key q o) eqn:K.
    + rewrite (H o (or_introl eq_refl) K). cbn [aop_f]. rewrite path_eqb_refl.
      rewrite IH; [destruct st; reflexivity|exact Hl|left; destruct st; reflexivity].
    + rewrite (off_key_aop q o st K). apply IH; [exact Hl|].
      destruct Hs as [Hs|[Hs|Hs]]; [left; exact Hs| |right; exact Hs].
      subst o. cbn in K. rewrite path_eqb_refl in K. discriminate.
Qed.

Lemma rshape_rm_in_l2 l1 l2 f t :
  (forall o, In o l1 -> on_key t o = true -> o = CreateFile t \/ o = CreateDir t \/ o = PRemoveDir t) ->
  In (PRemoveFile t) (l1 ++ PRename f t :: l2) <-> In (PRemoveFile t) l2.
Proof.
  intro B. split.
  - intro H. apply in_app_iff in H as [H|[H|H]]; [|discriminate|exact H].
    assert (K : on_key t (PRemoveFile t) = true) by (cbn; apply path_eqb_refl).
    destruct (B _ H K) as [X|[X|X]]; discriminate.
  - intro H. apply in_or_app. right. right. exact H.
Qed.

Lemma rshape_fx_tgt l f t b : rshape l f t -> f <> t ->
  (In (PRemoveFile t) l -> fold_left (fx_step t) l b = false) /\
  (~ In (PRemoveFile t) l -> fold_left (fx_step t) l b = true).
Proof.
  intros (l1 & l2 & -> & A & B & C & D) Hne. rewrite fold_left_app. cbn [fold_left fx_step].
  destruct (path_eqb f t) eqn:E; [apply path_eqb_eq in E; congruence|]. rewrite path_eqb_refl.
  rewrite (rshape_rm_in_l2 l1 l2 f t B). apply fx_fold_rm_only. exact D.
Qed.

Lemma rshape_no_createdir_src l f t : rshape l f t -> ~ In (CreateDir f) l.
Proof.
  intros Hs Hin. destruct (rshape_in l f t _ Hs Hin) as [A _].
  destruct A as [X|X]; [cbn; apply path_eqb_refl|discriminate|discriminate].
Qed.

Lemma rshape_no_remove_src l f t : rshape l f t -> ~ In (PRemoveFile f) l.
Proof.
  intros Hs Hin. destruct (rshape_in l f t _ Hs Hin) as [A _].
  destruct A as [X|X]; [cbn; apply path_eqb_refl|discriminate|discriminate].
Qed.

(* the shape survives filtering the log *)
Lemma rshape_filter (h : pop -> bool) l f t : rshape l f t -> h (PRename f t) = true -> rshape (filter h l) f t.
Proof.
  intros (l1 & l2 & -> & A & B & C & D) Hh. exists (filter h l1), (filter h l2).
  split; [rewrite filter_app; cbn [filter]; rewrite Hh; reflexivity|].
  split; [intros o Ho; apply filter_In in Ho as [Ho _]; auto|].
  split; [intros o Ho; apply filter_In in Ho as [Ho _]; auto|].
  split; intros o Ho; apply filter_In in Ho as [Ho _]; auto.
Qed.

Lemma rshape_snoc l f t o : rshape l f t -> on_key f o = false -> (on_key t o = true -> o = PRemoveFile t) ->
  rshape (l ++ [o]) f t.
Proof.
  intros (l1 & l2 & -> & A & B & C & D) Hf Ht. exists l1, (l2 ++ [o]).
  split; [rewrite <- app_assoc; reflexivity|]. split; [exact A|]. split; [exact B|].
  split; intros o' Ho'; apply in_app_iff in Ho' as [Ho'|[Ho'|[]]]; subst; auto.
Qed.

Lemma rnames_snoc l o : rnames (l ++ [o]) = rnames l ++ match o with PRename f t => [f; t] | _ => [] end.
Proof. rewrite rnames_app. destruct o; reflexivity. Qed.

(* pushing an operation that is not a rename *)
Lemma RWf_push s o : RWf s -> not_rename o = true ->
  (forall f t, In (PRename f t) (pending s) -> on_key f o = false /\ (on_key t o = true -> o = PRemoveFile t)) ->
  RWf (push s o).
Proof.
  intros [A B C D] Hnr Hk. constructor; cbn [pending pfiles pdirs push set_pending].
  - rewrite rnames_snoc. destruct o; try (rewrite app_nil_r; exact A). discriminate.
  - intros f t Hin. apply in_app_iff in Hin as [Hin|[Hin|[]]]; [|subst o; discriminate].
    destruct (Hk f t Hin). apply rshape_snoc; auto.
  - intros f t Hin. apply in_app_iff in Hin as [Hin|[Hin|[]]]; [|subst o; discriminate]. eapply C; eauto.
  - intros f t Hin. apply in_app_iff in Hin as [Hin|[Hin|[]]]; [|subst o; discriminate].
    destruct (D f t Hin) as [X|X]; [left; exact X|right; apply in_or_app; left; exact X].
Qed.

(* pushing a clean rename *)
Lemma RWf_push_rename s f t : RWf s -> f <> t ->
  ~ In f (rnames (pending s)) -> ~ In t (rnames (pending s)) ->
  (forall o, In o (pending s) -> on_key f o = true -> o = CreateFile f) ->
  (forall o, In o (pending s) -> on_key t o = true -> o = CreateFile t \/ o = CreateDir t \/ o = PRemoveDir t) ->
  mem_path f (pdirs s) = false ->
  has_file (pfiles s) f = true \/ In (CreateFile f) (pending s) ->
  RWf (push s (PRename f t)).
Proof.
  intros [A B C D] Hne Hf Ht Kf Kt Hd Hs. constructor; cbn [pending pfiles pdirs push set_pending].
  - rewrite rnames_snoc. apply NoDup_app_iff. split; [exact A|]. split.
    + constructor; [intros [E|[]]; congruence|]. constructor; [intros []|constructor].
    + intros x Hx [E|[E|[]]]; subst; contradiction.
  - intros f' t' Hin. apply in_app_iff in Hin as [Hin|[Hin|[]]].
    + destruct (rnames_in _ _ _ Hin) as [X Y]. apply rshape_snoc; [apply B; exact Hin| |].
      * cbn. apply orb_false_iff. split; apply path_eqb_neq; intro E; subst; contradiction.
      * cbn. intro K. apply orb_true_iff in K as [K|K]; apply path_eqb_eq in K; subst; contradiction.
    + inversion Hin; subst f' t'. exists (pending s), []. split; [reflexivity|]. split; [exact Kf|]. split; [exact Kt|].
      split; intros o [].
  - intros f' t' Hin. apply in_app_iff in Hin as [Hin|[Hin|[]]]; [eapply C; eauto|]. inversion Hin; subst. exact Hd.
  - intros f' t' Hin. apply in_app_iff in Hin as [Hin|[Hin|[]]].
    + destruct (D f' t' Hin) as [X|X]; [left; exact X|right; apply in_or_app; left; exact X].
    + inversion Hin; subst f' t'. destruct Hs as [X|X]; [left; exact X|right; apply in_or_app; left; exact X].
Qed.

(* a sublog (sync_file / sync_dir keep a filtered log) *)
Lemma RWf_filter (h : pop -> bool) s s' : RWf s -> pending s' = filter h (pending s) ->
  (forall f t, In (PRename f t) (pending s') -> mem_path f (pdirs s') = false) ->
  (forall f t, In (PRename f t) (pending s') -> has_file (pfiles s') f = true \/ In (CreateFile f) (pending s')) ->
  RWf s'.
Proof.
  intros [A B C D] Hp Hd Hs. constructor.
  - rewrite Hp. apply NoDup_rnames_filter. exact A.
  - intros f t Hin. rewrite Hp in *. apply filter_In in Hin as [Hin Hh]. apply rshape_filter; auto.
  - exact Hd.
  - exact Hs.
Qed.

Lemma norename_filter (h : pop -> bool) s s' : norename s -> pending s' = filter h (pending s) -> norename s'.
Proof. unfold norename. intros H ->. apply forallb_filter. exact H. Qed.

(* removing operations that are not renames does not change what a name resolves to *)
Lemma rres_filter (h : pop -> bool) : forall l p,
  (forall o, In o l -> h o = false -> not_rename o = true) -> rres (filter h l) p = rres l p.
Proof.
  induction l as [|o l IH]; intros p H; [reflexivity|]. cbn [filter].
  assert (Hl : forall o0, In o0 l -> h o0 = false -> not_rename o0 = true) by (intros; apply H; auto; right; assumption).
  destruct (h o) eqn:E.
  - cbn [rres fold_right]. fold (rres (filter h l) p). fold (rres l p). rewrite IH by exact Hl. reflexivity.
  - cbn [rres fold_right]. fold (rres l p). rewrite IH by exact Hl.
    pose proof (H o (or_introl eq_refl) E) as Hn. destruct o; try reflexivity. discriminate.
Qed.

(* ---- sync_file preserves every view -------------------------------------------------------- *)
Lemma sync_file_views s p : RWf s -> file_exists s p = true ->
  let s' := fst (sync_file s p) in
  snd (sync_file s p) = None /\ RWf s' /\
  (forall q, file_exists s' q = file_exists s q) /\
  (forall q, dir_exists s' q = dir_exists s q) /\
  (forall q, fcontent s' q = fcontent s q) /\
  pending s' = filter (fun o => negb (is_data_op p o)) (pending s) /\
  synced s' = synced s /\ bsize s' = bsize s /\
  fget (pfiles s') p = Some (fcontent s p) /\
  (forall q, q <> p -> fget (pfiles s') q = fget (pfiles s) q) /\
  (forall q, mem_path q (pdirs s') = mem_path q (pdirs s)) /\
  (forall q, resolve s' q = resolve s q).
Proof.
  intros Hw Hex. unfold sync_file. rewrite Hex. cbn [negb fst snd].
  set (flush := filter (is_data_op p) (pending s)).
  set (keep := filter (fun o => negb (is_data_op p o)) (pending s)).
  set (s1 := {| pfiles := if has_file (pfiles s) p then pfiles s else pfiles s ++ [(p, [])];
                pdirs := pdirs s; synced := synced s; pending := keep; bsize := bsize s |}).
  set (s' := fold_left apply_op flush s1).
  assert (Hflush : forall o, In o flush -> is_data_op p o = true)
    by (intros o Ho; apply filter_In in Ho; tauto).
  assert (Hfl : forallb not_rename flush = true).
  { apply forallb_forall. intros o Ho. apply Hflush in Ho. destruct o; try reflexivity; discriminate. }
  pose (mark := fun (st : fs) (_ : pop) => st).
  assert (Hs' : s' = fold_left (fun st o => apply_op (mark st o) o) flush s1) by reflexivity.
  assert (Hpend : pending s' = keep).
  { rewrite Hs', fold_apply_pending by reflexivity. reflexivity. }
  assert (Hfiles : forall q, fget (pfiles s') q = fold_left (aop_f q) flush (fget (pfiles s1) q)).
  { intro q. rewrite Hs'. apply fold_apply_files; auto; [apply forallb_ren_off_nr; exact Hfl|apply rens_files_only_nr; exact Hfl]. }
  assert (Hdirs : forall q, mem_path q (pdirs s') = mem_path q (pdirs s)).
  { intro q. rewrite Hs', fold_apply_dirs by (auto; apply rens_files_only_nr; exact Hfl). cbn [pdirs s1].
    apply fold_left_id_in. intros a o Ho. apply (dx_step_data p). auto. }
  assert (Hs1p : fget (pfiles s1) p = Some (cont (fget (pfiles s) p))).
  { cbn [pfiles s1]. unfold has_file. destruct (fget (pfiles s) p) eqn:E; [exact E|].
    rewrite fget_app_new, E, path_eqb_refl. reflexivity. }
  assert (Hs1q : forall q, q <> p -> fget (pfiles s1) q = fget (pfiles s) q).
  { intros q Hq. cbn [pfiles s1]. destruct (has_file (pfiles s) p); [reflexivity|].
    rewrite fget_app_new. destruct (fget (pfiles s) q); [reflexivity|].
    destruct (path_eqb p q) eqn:E; [apply path_eqb_eq in E; congruence|reflexivity]. }
  assert (Hp : fget (pfiles s') p = Some (fcontent s p)).
  { rewrite Hfiles, Hs1p, fold_aop_data by exact Hflush. f_equal. unfold fcontent, flush.
    apply fold_filter_skip. intros o _ Ho c. apply (cstep_not_data p); auto. }
  assert (Hq : forall q, q <> p -> fget (pfiles s') q = fget (pfiles s) q).
  { intros q Hq. rewrite Hfiles, (fold_aop_other p q) by auto. apply Hs1q; exact Hq. }
  assert (Hkeepren : forall f t, In (PRename f t) (pending s') <-> In (PRename f t) (pending s)).
  { intros f t. rewrite Hpend. unfold keep. rewrite filter_In. cbn. tauto. }
  assert (Hw' : RWf s').
  { apply (RWf_filter (fun o => negb (is_data_op p o)) s s' Hw Hpend).
    - intros f t Hin. rewrite Hdirs. apply (rw_nd s Hw f t). apply Hkeepren. exact Hin.
    - intros f t Hin. apply Hkeepren in Hin. destruct (rw_src s Hw f t Hin) as [X|X].
      + left. unfold has_file in *. destruct (path_dec f p) as [->|Hn]; [rewrite Hp; reflexivity|rewrite Hq by exact Hn; exact X].
      + right. rewrite Hpend. apply filter_In. split; [exact X|reflexivity]. }
  assert (Hsy : synced s' = synced s /\ bsize s' = bsize s).
  { unfold s'. destruct (fold_apply_frame flush s1) as [A B]. rewrite A, B. split; reflexivity. }
  split; [reflexivity|]. split; [exact Hw'|].
  split; [|split; [|split; [|split; [exact Hpend|split; [|split; [|split; [exact Hp|split; [exact Hq|split; [exact Hdirs|]]]]]]]]].
  - intro q. rewrite !file_exists_fold, Hpend.
    unfold keep. rewrite fold_filter_skip
      by (intros o _ Ho a; apply (fx_step_data p); destruct (is_data_op p o); [reflexivity|discriminate]).
    destruct (path_eqb q p) eqn:E.
    + apply path_eqb_eq in E. subst q. unfold has_file at 1. rewrite Hp.
      rewrite file_exists_fold in Hex. rewrite Hex. eapply fx_fold_true. exact Hex.
    + apply path_eqb_neq in E. unfold has_file. rewrite Hq by exact E. reflexivity.
  - intro q. rewrite (dir_exists_fold s' q (rw_nd s' Hw')), (dir_exists_fold s q (rw_nd s Hw)), Hpend, Hdirs.
    unfold keep. apply fold_filter_skip.
    intros o _ Ho a; apply (dx_step_data p); destruct (is_data_op p o); [reflexivity|discriminate].
  - intro q. unfold fcontent at 1. rewrite Hpend.
    destruct (path_eqb q p) eqn:E.
    + apply path_eqb_eq in E. subst q. rewrite Hp. cbn [cont]. unfold keep.
      apply fold_left_id_in. intros a o Ho. apply filter_In in Ho as [_ Ho].
      apply (cstep_not_data p); auto. destruct (is_data_op p o); [discriminate|reflexivity].
    + apply path_eqb_neq in E. rewrite Hq by exact E. unfold fcontent, keep.
      apply fold_filter_skip. intros o _ Ho c. apply (cstep_other_data p); auto.
      destruct (is_data_op p o); [reflexivity|discriminate].
  - apply Hsy.
  - apply Hsy.
  - intro q. rewrite !resolve_fold, Hpend. unfold keep. apply rres_filter.
    intros o _ Ho. destruct o; try reflexivity. discriminate.
Qed.

(* ---- sync_dir preserves every view ------------------------------------------------------------ *)
Definition sd_mark (d : path) (st : fs) (o : pop) : fs := set_synced st (mark_synced d (synced st) o).

(* both names of the rename are in the directory, or neither *)
Definition same_side (d : path) (o : pop) : Prop :=
  match o with PRename f t => child_of f d = child_of t d | _ => True end.

Lemma fx_step_entry d q o a : same_side d o -> (is_entry_op d o = negb (child_of q d)) -> fx_step q a o = a.
Proof.
  destruct o; cbn; intros Hs H; try reflexivity;
    try ((destruct (path_eqb p q) eqn:E; [|reflexivity]); apply path_eqb_eq in E; subst;
         destruct (child_of q d); discriminate).
  destruct (path_eqb from q) eqn:E1.
  - apply path_eqb_eq in E1. subst from. rewrite <- Hs in H. destruct (child_of q d); discriminate.
  - destruct (path_eqb to q) eqn:E2; [|reflexivity].
    apply path_eqb_eq in E2. subst to. rewrite Hs in H. destruct (child_of q d); discriminate.
Qed.

Lemma dx_step_entry d q o a :
  (is_entry_op d o = negb (path_eqb q d || child_of q d)) -> dx_step q a o = a.
Proof.
  destruct o; cbn; intros H; try reflexivity;
    (destruct (path_eqb p q) eqn:E; [|reflexivity]); apply path_eqb_eq in E; subst;
    destruct (path_eqb q d || child_of q d); discriminate.
Qed.

Lemma entry_not_data d p o : is_entry_op d o = true -> is_data_op p o = false.
Proof. destruct o; cbn; intros; try reflexivity; discriminate. Qed.

Lemma dx_fold_false q : forall l, ~ In (CreateDir q) l -> fold_left (dx_step q) l false = false.
Proof.
  intros l H. destruct (fold_left (dx_step q) l false) eqn:E; [|reflexivity].
  apply dx_fold_src in E as [E|E]; [discriminate|contradiction].
Qed.

Lemma sync_dir_views s d : RWf s ->
  (forall f t, In (PRename f t) (pending s) -> child_of f d = child_of t d) ->
  dir_exists s d = true ->
  let s' := fst (sync_dir s d) in
  let flush := filter (is_entry_op d) (pending s) in
  snd (sync_dir s d) = None /\ RWf s' /\
  (forall q, file_exists s' q = file_exists s q) /\
  (forall q, dir_exists s' q = dir_exists s q) /\
  (forall q, ~ In (PRemoveFile q) (pending s) -> (forall t, ~ In (PRename q t) (pending s)) ->
             fcontent s' (resolve s' q) = fcontent s (resolve s q)) /\
  pending s' = filter (fun o => negb (is_entry_op d o)) (pending s) /\
  (forall q, child_of q d = false -> fget (pfiles s') q = fget (pfiles s) q) /\
  (forall q, child_of q d = true -> (In (PRemoveFile q) (pending s) -> file_exists s q = false) ->
             fget (pfiles s') q = if file_exists s q then Some (cont (fget (pfiles s) (resolve s q))) else None) /\
  (forall q, child_of q d = true -> has_file (pfiles s') q = file_exists s q) /\
  (forall q, mem_path q (pdirs s') = fold_left (dx_step q) flush (mem_path q (pdirs s))) /\
  (forall q, child_of q d = true -> resolve s' q = q) /\
  (forall q, child_of q d = false -> resolve s' q = resolve s q).
Proof.
  intros Hw Hsd Hex. unfold sync_dir. rewrite Hex. cbn [negb fst snd].
  set (flush := filter (is_entry_op d) (pending s)).
  set (keep := filter (fun o => negb (is_entry_op d o)) (pending s)).
  set (s' := fold_left (fun st o => apply_op (set_synced st (mark_synced d (synced st) o)) o)
                       flush (set_pending s keep)).
  assert (Hs' : s' = fold_left (fun st o => apply_op (sd_mark d st o) o) flush (set_pending s keep))
    by reflexivity.
  assert (Hpend : pending s' = keep).
  { rewrite Hs', fold_apply_pending by reflexivity. reflexivity. }
  assert (Hfl_in : forall o, In o flush -> In o (pending s) /\ is_entry_op d o = true)
    by (intros o Ho; apply filter_In in Ho; exact Ho).
  assert (Hkeep_in : forall o, In o keep -> In o (pending s) /\ is_entry_op d o = false).
  { intros o Ho. apply filter_In in Ho as [X Y]. split; [exact X|]. destruct (is_entry_op d o); [discriminate|reflexivity]. }
  assert (Hside : forall o, In o (pending s) -> same_side d o).
  { intros o Ho. destruct o; cbn; auto. }
  assert (Hrfo : rens_files_only (set_pending s keep) flush).
  { intros f t Hin. apply Hfl_in in Hin as [Hin _]. split; [apply (rw_nd s Hw f t Hin)|].
    intro Hc. apply Hfl_in in Hc as [Hc _]. apply (rshape_no_createdir_src _ f t (rw_shape s Hw f t Hin)). exact Hc. }
  assert (Hfiles_off : forall q, (forall f t, In (PRename f t) flush -> f <> q /\ t <> q) ->
            fget (pfiles s') q = fold_left (aop_f q) flush (fget (pfiles s) q)).
  { intros q Hq. rewrite Hs'. rewrite fold_apply_files; try reflexivity; [|exact Hrfo].
    apply forallb_forall. intros o Ho. destruct o; try reflexivity. destruct (Hq _ _ Ho) as [X Y].
    cbn. apply path_eqb_neq in X, Y. rewrite X, Y. reflexivity. }
  assert (Hdirs : forall q, mem_path q (pdirs s') = fold_left (dx_step q) flush (mem_path q (pdirs s))).
  { intro q. rewrite Hs'. rewrite fold_apply_dirs by (try reflexivity; exact Hrfo). reflexivity. }
  (* a rename is flushed or kept with both its names *)
  assert (Hren_side : forall f t, In (PRename f t) (pending s) ->
            (child_of f d = true /\ child_of t d = true /\ In (PRename f t) flush) \/
            (child_of f d = false /\ child_of t d = false /\ In (PRename f t) keep)).
  { intros f t Hin. pose proof (Hsd f t Hin) as E. destruct (child_of f d) eqn:Ef.
    - left. split; [reflexivity|]. split; [symmetry; exact E|]. apply filter_In. split; [exact Hin|]. cbn. rewrite Ef. reflexivity.
    - right. split; [reflexivity|]. split; [symmetry; exact E|]. apply filter_In. split; [exact Hin|]. cbn. rewrite Ef, <- E. reflexivity. }
  assert (Hnokey : forall q, child_of q d = false -> forall o st, In o flush -> aop_f q st o = st).
  { intros q Hc o st Ho. apply Hfl_in in Ho as [_ He].
    destruct o; cbn in He |- *; try reflexivity; try discriminate;
      (destruct (path_eqb p q) eqn:E; [|reflexivity]); apply path_eqb_eq in E; subst p; congruence. }
  (* the two names of a flushed rename *)
  assert (Hinv : forall f t, In (PRename f t) (pending s) -> child_of f d = true ->
            fget (pfiles s') f = None /\
            fget (pfiles s') t = (if file_exists s t then Some (cont (fget (pfiles s) f)) else None) /\
            file_exists s f = false).
  { intros f t Hin Hcf.
    assert (Hct : child_of t d = true) by (rewrite <- (Hsd f t Hin); exact Hcf).
    assert (Hne : f <> t) by (apply (nodup_ren_ne _ f t (rw_nodup s Hw) Hin)).
    pose proof (rw_shape s Hw f t Hin) as Hsh.
    pose proof (rshape_fx_tgt _ f t (has_file (pfiles s) t) Hsh Hne) as [Ft1 Ft2].
    pose proof (rshape_fx_src _ f t (has_file (pfiles s) f) Hsh) as Ff.
    destruct Hsh as (l1 & l2 & El & A & B & C & D).
    assert (Efl : flush = filter (is_entry_op d) l1 ++ PRename f t :: filter (is_entry_op d) l2).
    { unfold flush. rewrite El, filter_app. cbn [filter is_entry_op]. rewrite Hcf. reflexivity. }
    assert (Hrm : In (PRemoveFile t) (filter (is_entry_op d) l2) <-> In (PRemoveFile t) (pending s)).
    { rewrite El, (rshape_rm_in_l2 l1 l2 f t B), filter_In. cbn. rewrite Hct. tauto. }
    assert (Hc : fold_left (aop_f f) (filter (is_entry_op d) l1) (fget (pfiles (set_pending s keep)) f) =
                 Some (cont (fget (pfiles s) f))).
    { cbn [pfiles set_pending]. apply aop_fold_create_only.
      - intros o Ho. apply filter_In in Ho as [Ho _]. apply A. exact Ho.
      - destruct (rw_src s Hw f t Hin) as [X|X]; [left; exact X|right].
        apply filter_In. split; [|cbn; exact Hcf].
        rewrite El in X. apply in_app_iff in X as [X|[X|X]]; [exact X|discriminate|].
        pose proof (C _ X) as K. cbn in K. rewrite path_eqb_refl in K. discriminate. }
    rewrite Hs', Efl.
    destruct (fold_apply_rename (sd_mark d) ltac:(reflexivity) ltac:(reflexivity) f t (cont (fget (pfiles s) f))
                (filter (is_entry_op d) l1) (filter (is_entry_op d) l2) (set_pending s keep) Hne) as [R1 R2].
    - apply forallb_forall. intros o Ho. apply filter_In in Ho as [Ho _].
      destruct (on_key f o) eqn:K; [rewrite (A o Ho K); reflexivity|apply off_key_ren_off; exact K].
    - apply forallb_forall. intros o Ho. apply filter_In in Ho as [Ho _]. apply off_key_ren_off. apply C. exact Ho.
    - apply forallb_forall. intros o Ho. apply filter_In in Ho as [Ho _].
      destruct (on_key t o) eqn:K; [rewrite (D o Ho K); reflexivity|apply off_key_ren_off; exact K].
    - rewrite <- Efl. exact Hrfo.
    - exact Hc.
    - cbv zeta in R1, R2. rewrite R1, R2. split; [|split].
      + apply fold_left_id_in. intros a o Ho. apply filter_In in Ho as [Ho _]. apply off_key_aop. apply C. exact Ho.
      + assert (D' : forall o, In o (filter (is_entry_op d) l2) -> on_key t o = true -> o = PRemoveFile t)
          by (intros o Ho; apply filter_In in Ho as [Ho _]; apply D; exact Ho).
        destruct (aop_fold_rm_only t _ (Some (cont (fget (pfiles s) f))) D') as [X1 X2].
        rewrite file_exists_fold.
        destruct (in_dec pop_dec (PRemoveFile t) (pending s)) as [Hi|Hi].
        * rewrite (Ft1 Hi). apply X1. apply Hrm. exact Hi.
        * rewrite (Ft2 Hi). apply X2. intro Hx. apply Hi. apply Hrm. exact Hx.
      + rewrite file_exists_fold. exact Ff. }
  (* keys no flushed rename names *)
  assert (Hunin : forall q, ~ In q (rnames (pending s)) -> forall f t, In (PRename f t) flush -> f <> q /\ t <> q).
  { intros q Hq f t Hin. apply Hfl_in in Hin as [Hin _]. destruct (rnames_in _ _ _ Hin). split; intro; subst; contradiction. }
  assert (Hskip_child : forall q b, child_of q d = true ->
            fold_left (fx_step q) flush b = fold_left (fx_step q) (pending s) b).
  { intros q b Hc. unfold flush. apply fold_filter_skip. intros o Ho He a.
    apply (fx_step_entry d); [apply Hside; exact Ho|]. rewrite He, Hc. reflexivity. }
  assert (Hhas : forall q, child_of q d = true -> has_file (pfiles s') q = file_exists s q).
  { intros q Hc. destruct (in_dec path_dec q (rnames (pending s))) as [Hi|Hi].
    - apply in_rnames in Hi as (f & t & Hin & [->| ->]).
      + destruct (Hinv f t Hin Hc) as (X1 & _ & X3). unfold has_file. rewrite X1, X3. reflexivity.
      + assert (Hcf : child_of f d = true) by (rewrite (Hsd f t Hin); exact Hc).
        destruct (Hinv f t Hin Hcf) as (_ & X2 & _). unfold has_file. rewrite X2.
        destruct (file_exists s t); reflexivity.
    - unfold has_file. fold (some (fget (pfiles s') q)). rewrite (Hfiles_off q (Hunin q Hi)).
      rewrite some_fold_aop_f.
      + change (some (fget (pfiles s) q)) with (has_file (pfiles s) q). rewrite Hskip_child by exact Hc. reflexivity.
      + apply forallb_forall. intros o Ho. destruct o; try reflexivity. destruct (Hunin q Hi _ _ Ho) as [X Y].
        cbn. apply path_eqb_neq in X, Y. rewrite X, Y. reflexivity. }
  assert (Hother : forall q, child_of q d = false -> fget (pfiles s') q = fget (pfiles s) q).
  { intros q Hc. rewrite Hfiles_off.
    - apply fold_left_id_in. intros a o Ho. apply Hnokey; assumption.
    - intros f t Hin. pose proof (Hfl_in _ Hin) as [Hin' He]. cbn in He.
      destruct (Hren_side f t Hin') as [(X & Y & _)|(X & Y & Z)].
      + split; intro; subst; congruence.
      + rewrite X, Y in He. discriminate. }
  assert (Hchild : forall q, child_of q d = true -> (In (PRemoveFile q) (pending s) -> file_exists s q = false) ->
            fget (pfiles s') q = if file_exists s q then Some (cont (fget (pfiles s) (resolve s q))) else None).
  { intros q Hc Hrm. destruct (in_dec path_dec q (rnames (pending s))) as [Hi|Hi].
    - apply in_rnames in Hi as (f & t & Hin & [->| ->]).
      + destruct (Hinv f t Hin Hc) as (X1 & _ & X3). rewrite X1, X3. reflexivity.
      + assert (Hcf : child_of f d = true) by (rewrite (Hsd f t Hin); exact Hc).
        destruct (Hinv f t Hin Hcf) as (_ & X2 & _). rewrite X2.
        rewrite (resolve_tgt s f t (rw_nodup s Hw) Hin). reflexivity.
    - assert (Hres : resolve s q = q).
      { apply resolve_other. intros f Hf. apply Hi. apply (rnames_in _ _ _ Hf). }
      rewrite Hres. pose proof (Hhas q Hc) as Hh. unfold has_file in Hh.
      destruct (file_exists s q) eqn:Ef.
      + destruct (fget (pfiles s') q) as [c|] eqn:Eg; [|discriminate]. f_equal.
        change c with (cont (Some c)). rewrite <- Eg, (Hfiles_off q (Hunin q Hi)).
        apply cont_fold_aop. intros o Ho. apply Hfl_in in Ho as [Ho He]. split; [apply (entry_not_data d); exact He|].
        intro; subst o. apply Hrm in Ho. congruence.
      + destruct (fget (pfiles s') q); [discriminate|reflexivity]. }
  assert (Hnd' : forall f t, In (PRename f t) keep -> mem_path f (pdirs s') = false).
  { intros f t Hin. apply Hkeep_in in Hin as [Hin _]. rewrite Hdirs, (rw_nd s Hw f t Hin).
    apply dx_fold_false. intro Hc. apply Hfl_in in Hc as [Hc _].
    apply (rshape_no_createdir_src _ f t (rw_shape s Hw f t Hin)). exact Hc. }
  assert (Hw' : RWf s').
  { apply (RWf_filter (fun o => negb (is_entry_op d o)) s s' Hw Hpend).
    - rewrite Hpend. exact Hnd'.
    - rewrite Hpend. intros f t Hin. pose proof (Hkeep_in _ Hin) as [Hin' He]. cbn in He. apply orb_false_iff in He as [Hcf _].
      destruct (rw_src s Hw f t Hin') as [X|X].
      + left. unfold has_file. rewrite Hother by exact Hcf. exact X.
      + right. apply filter_In. split; [exact X|]. cbn. rewrite Hcf. reflexivity. }
  split; [reflexivity|]. split; [exact Hw'|].
  assert (Hres_c : forall q, child_of q d = true -> resolve s' q = q).
  { intros q Hc. apply resolve_other. intros f' Hf'. rewrite Hpend in Hf'. apply Hkeep_in in Hf' as [_ He]. cbn in He.
    rewrite Hc, orb_true_r in He. discriminate. }
  assert (Hres_o : forall q, child_of q d = false -> resolve s' q = resolve s q).
  { intros q Hc. destruct (tgt_dec (pending s) q) as [[f Hf]|Hnt].
    - rewrite (resolve_tgt s f q (rw_nodup s Hw) Hf).
      destruct (Hren_side f q Hf) as [(_ & Y & _)|(_ & _ & Z)]; [congruence|].
      apply resolve_tgt; [apply (rw_nodup s' Hw')|rewrite Hpend; exact Z].
    - rewrite (resolve_other s q Hnt). apply resolve_other. intros f Hf. rewrite Hpend in Hf.
      apply Hkeep_in in Hf as [Hf _]. eapply Hnt. exact Hf. }
  split; [|split; [|split; [|split; [exact Hpend|split; [exact Hother|split; [exact Hchild|split; [exact Hhas|split; [exact Hdirs|split; [exact Hres_c|exact Hres_o]]]]]]]]].
  - (* file_exists *)
    intro q. rewrite (file_exists_fold s' q), Hpend. destruct (child_of q d) eqn:Hc.
    + rewrite (Hhas q Hc). apply fold_left_id_in. intros a o Ho. apply Hkeep_in in Ho as [Ho He].
      apply (fx_step_entry d); [apply Hside; exact Ho|]. rewrite He, Hc. reflexivity.
    + unfold has_file. rewrite (Hother q Hc). rewrite file_exists_fold. unfold keep. apply fold_filter_skip.
      intros o Ho He a. apply (fx_step_entry d); [apply Hside; exact Ho|]. rewrite Hc. cbn.
      destruct (is_entry_op d o); [reflexivity|discriminate].
  - (* dir_exists *)
    intro q. rewrite (dir_exists_fold s' q (rw_nd s' Hw')), (dir_exists_fold s q (rw_nd s Hw)), Hpend, Hdirs.
    unfold keep, flush.
    destruct (path_eqb q d || child_of q d) eqn:Ec.
    + apply fold_partition_flush. intros o _ Ho a. apply (dx_step_entry d). rewrite Ho, Ec. reflexivity.
    + apply fold_partition_keep. intros o _ Ho a. apply (dx_step_entry d). rewrite Ho, Ec. reflexivity.
  - (* contents *)
    intros q Hrm Hsrc.
    assert (Hdata_keep : forall k, child_of k d = false -> fcontent s' k = fcontent s k).
    { intros k Hc. unfold fcontent. rewrite Hpend, (Hother k Hc). unfold keep. apply fold_filter_skip.
      intros o _ Ho c. apply (cstep_not_data k); [|reflexivity]. apply (entry_not_data d).
      destruct (is_entry_op d o); [reflexivity|discriminate]. }
    destruct (tgt_dec (pending s) q) as [[f Hf]|Hnt].
    + rewrite (resolve_tgt s f q (rw_nodup s Hw) Hf).
      destruct (Hren_side f q Hf) as [(X & Y & Z)|(X & Y & Z)].
      * assert (Hres' : resolve s' q = q).
        { apply resolve_other. intros f' Hf'. rewrite Hpend in Hf'. apply Hkeep_in in Hf' as [_ He]. cbn in He.
          rewrite Y, orb_true_r in He. discriminate. }
        rewrite Hres'. unfold fcontent. rewrite Hpend.
        assert (Hne : f <> q) by (apply (nodup_ren_ne _ f q (rw_nodup s Hw) Hf)).
        destruct (Hinv f q Hf X) as (_ & X2 & _). rewrite X2.
        destruct (rshape_fx_tgt _ f q (has_file (pfiles s) q) (rw_shape s Hw f q Hf) Hne) as [_ Ft2].
        rewrite file_exists_fold, (Ft2 Hrm). cbn [cont].
        rewrite fold_left_id_in; [symmetry; apply fold_left_id_in|].
        -- intros a o Ho. apply (cstep_not_data f); [|reflexivity].
           apply (rshape_no_data _ f q o (rw_shape s Hw f q Hf) Ho).
        -- intros a o Ho. apply Hkeep_in in Ho as [Ho _]. apply (cstep_not_data q); [|reflexivity].
           apply (rshape_no_data _ f q o (rw_shape s Hw f q Hf) Ho).
      * assert (Hres' : resolve s' q = f).
        { apply resolve_tgt; [apply (rw_nodup s' Hw')|rewrite Hpend; exact Z]. }
        rewrite Hres'. apply Hdata_keep. exact X.
    + assert (Hres : resolve s q = q) by (apply resolve_other; exact Hnt).
      assert (Hres' : resolve s' q = q).
      { apply resolve_other. intros f Hf. rewrite Hpend in Hf. apply Hkeep_in in Hf as [Hf _]. eapply Hnt. exact Hf. }
      rewrite Hres, Hres'. destruct (child_of q d) eqn:Hc; [|apply Hdata_keep; exact Hc].
      assert (Hi : ~ In q (rnames (pending s))).
      { intro Hi. apply in_rnames in Hi as (f & t & Hin & [->| ->]); [eapply Hsrc; exact Hin|eapply Hnt; exact Hin]. }
      unfold fcontent at 1. rewrite Hpend, (Hfiles_off q (Hunin q Hi)).
      rewrite cont_fold_aop.
      * unfold fcontent, keep. apply fold_filter_skip. intros o _ Ho c.
        apply (cstep_not_data q); [|reflexivity]. apply (entry_not_data d).
        destruct (is_entry_op d o); [reflexivity|discriminate].
      * intros o Ho. apply Hfl_in in Ho as [Ho He]. split; [apply (entry_not_data d); exact He|].
        intro Heq. subst o. contradiction.
Qed.

(* ---- where existence comes from --------------------------------------------------------------- *)
Lemma fget_In : forall m q c, fget m q = Some c -> In (q, c) m.
Proof.
  induction m as [|[r d] m IH]; intros q c H; cbn in *; [discriminate|].
  destruct (path_eqb r q) eqn:E.
  - apply path_eqb_eq in E. inversion H; subst. left; reflexivity.
  - right. apply IH. exact H.
Qed.

Lemma file_exists_src s q : file_exists s q = true ->
  has_file (pfiles s) q = true \/ In (CreateFile q) (pending s) \/ exists f, In (PRename f q) (pending s).
Proof. rewrite file_exists_fold. apply fx_fold_src. Qed.

Lemma dir_exists_src s q : rdirs_off s -> dir_exists s q = true ->
  mem_path q (pdirs s) = true \/ In (CreateDir q) (pending s).
Proof. intros H. rewrite dir_exists_fold by exact H. apply dx_fold_src. Qed.

Lemma dir_entries_iff s d q : rdirs_off s ->
  (In q (dir_entries s d) <->
   child_of q d = true /\ (file_exists s q = true \/ dir_exists s q = true)).
Proof.
  intro Hnr. unfold dir_entries. rewrite !in_app_iff. split.
  - intros [H|[H|H]].
    + apply in_map_iff in H as ([r c] & <- & H). apply filter_In in H as [_ H].
      apply andb_true_iff in H as [A B]. cbn in *. auto.
    + apply filter_In in H as [_ H]. apply andb_true_iff in H as [A B]. auto.
    + apply in_flat_map in H as (o & Ho & H).
      destruct o; cbn in H; try contradiction.
      * destruct (child_of p d && file_exists s p) eqn:E; [|contradiction].
        destruct H as [<-|[]]. apply andb_true_iff in E as [A B]. auto.
      * destruct (child_of p d && dir_exists s p) eqn:E; [|contradiction].
        destruct H as [<-|[]]. apply andb_true_iff in E as [A B]. auto.
      * destruct (child_of to d && (file_exists s to || dir_exists s to)) eqn:E; [|contradiction].
        destruct H as [<-|[]]. apply andb_true_iff in E as [A B]. apply orb_true_iff in B. auto.
  - intros [Hc [Hf|Hd]].
    + destruct (file_exists_src s q Hf) as [H|[H|[f H]]].
      * left. unfold has_file in H. destruct (fget (pfiles s) q) as [c|] eqn:E; [|discriminate].
        apply fget_In in E. apply in_map_iff. exists (q, c). split; [reflexivity|].
        apply filter_In. split; [exact E|]. cbn. rewrite Hc, Hf. reflexivity.
      * right; right. apply in_flat_map. exists (CreateFile q). split; [exact H|].
        cbn. rewrite Hc, Hf. left; reflexivity.
      * right; right. apply in_flat_map. exists (PRename f q). split; [exact H|].
        cbn. rewrite Hc, Hf. left; reflexivity.
    + destruct (dir_exists_src s q Hnr Hd) as [H|H].
      * right; left. apply filter_In. split; [apply mem_path_In; exact H|]. rewrite Hc, Hd. reflexivity.
      * right; right. apply in_flat_map. exists (CreateDir q). split; [exact H|].
        cbn. rewrite Hc, Hd. left; reflexivity.
Qed.

(* the emptiness check does not see a file that a pending rename moved into the directory *)
Lemma has_children_iff s d : rdirs_off s ->
  (forall f t, In (PRename f t) (pending s) -> child_of t d = false) ->
  (has_children s d = true <->
   exists q, child_of q d = true /\ (file_exists s q = true \/ dir_exists s q = true)).
Proof.
  intros Hnr Hrt. unfold has_children. rewrite !orb_true_iff, !existsb_exists. split.
  - intros [[([r c] & _ & H)|(r & _ & H)]|(o & Ho & H)].
    + apply andb_true_iff in H as [A B]. exists r. cbn in *. auto.
    + apply andb_true_iff in H as [A B]. exists r. auto.
    + destruct o; try discriminate; apply andb_true_iff in H as [A B]; exists p; auto.
  - intros (q & Hc & [Hf|Hd]).
    + destruct (file_exists_src s q Hf) as [H|[H|[f H]]].
      * left; left. unfold has_file in H. destruct (fget (pfiles s) q) as [c|] eqn:E; [|discriminate].
        exists (q, c). split; [apply fget_In; exact E|]. cbn. rewrite Hc, Hf. reflexivity.
      * right. exists (CreateFile q). split; [exact H|]. rewrite Hc, Hf. reflexivity.
      * rewrite (Hrt f q H) in Hc. discriminate.
    + destruct (dir_exists_src s q Hnr Hd) as [H|H].
      * left; right. exists q. split; [apply mem_path_In; exact H|]. rewrite Hc, Hd. reflexivity.
      * right. exists (CreateDir q). split; [exact H|]. rewrite Hc, Hd. reflexivity.
Qed.

(* ---- the durable-entry set after sync_dir ------------------------------------------------------- *)
Lemma fold_sd_synced d : forall l st,
  synced (fold_left (fun st o => apply_op (set_synced st (mark_synced d (synced st) o)) o) l st) =
  fold_left (mark_synced d) l (synced st).
Proof.
  induction l as [|o l IH]; intro st; cbn [fold_left]; [reflexivity|].
  rewrite IH. f_equal.
  destruct (apply_op_frame (set_synced st (mark_synced d (synced st) o)) o) as (_ & A & _). rewrite A. reflexivity.
Qed.

(* ---- resolve after a push -------------------------------------------------------------------------- *)
Lemma rres_snoc l o p : rres (l ++ [o]) p = rres l (rstep p o).
Proof. unfold rres. rewrite fold_right_app. reflexivity. Qed.

Lemma resolve_push_nr s o q : not_rename o = true -> resolve (push s o) q = resolve s q.
Proof.
  intro H. rewrite !resolve_fold, pending_push, rres_snoc. destruct o; try reflexivity. discriminate.
Qed.

Lemma resolve_push_ren s f t q :
  resolve (push s (PRename f t)) q = resolve s (if path_eqb t q then f else q).
Proof. rewrite !resolve_fold, pending_push, rres_snoc. reflexivity. Qed.

Lemma not_tgt_of_rnames l p : ~ In p (rnames l) -> forall f, ~ In (PRename f p) l.
Proof. intros H f Hf. apply H. apply (rnames_in _ _ _ Hf). Qed.
