(* Lemmas behind the C10 theorems that do not need the refinement invariant:
   structure of [run] / [hrun], time, host isolation, and the refutation
   witnesses of the known classes. *)
From TV.Lib Require Import Base.
From TV.Fs Require Import FsImpl FsSpec.
Open Scope N_scope.

Lemma run_app : forall l1 l2 w,
  run w (l1 ++ l2) =
  (fst (run (fst (run w l1)) l2), snd (run w l1) ++ snd (run (fst (run w l1)) l2)).
Proof.
  induction l1 as [|o l1 IH]; intros l2 w; cbn [run app].
  - cbn. destruct (run w l2); reflexivity.
  - destruct (step w o) as [w1 x] eqn:E. rewrite IH.
    destruct (run w1 l1) as [w2 xs]; cbn. reflexivity.
Qed.

Lemma srun_app : forall l1 l2 t,
  srun t (l1 ++ l2) =
  (fst (srun (fst (srun t l1)) l2), snd (srun t l1) ++ snd (srun (fst (srun t l1)) l2)).
Proof.
  induction l1 as [|o l1 IH]; intros l2 t; cbn [srun app].
  - cbn. destruct (srun t l2); reflexivity.
  - destruct (sstep t o) as [t1 x] eqn:E. rewrite IH.
    destruct (srun t1 l1) as [t2 xs]; cbn. reflexivity.
Qed.

(* ---- time ------------------------------------------------------------------ *)
Lemma time_is_invisible_lemma : forall w l1 l2,
  fst (run w (l1 ++ Tick :: l2)) = fst (run w (l1 ++ l2)) /\
  snd (run w (l1 ++ Tick :: l2)) =
    snd (run w l1) ++ OOk :: snd (run (fst (run w l1)) l2) /\
  snd (run w (l1 ++ l2)) = snd (run w l1) ++ snd (run (fst (run w l1)) l2).
Proof.
  intros. rewrite !run_app. cbn [run step fst snd].
  destruct (run (fst (run w l1)) l2) as [w2 xs]. cbn. auto.
Qed.

(* ---- host isolation -------------------------------------------------------- *)
Definition ops_of (h : nat) (l : list (nat * op)) : list op :=
  map snd (filter (fun e => Nat.eqb (fst e) h) l).
(* outputs of host h's events, in order *)
Fixpoint outs_of (h : nat) (l : list (nat * op)) (xs : list out) : list out :=
  match l, xs with
  | e :: l', x :: xs' => if Nat.eqb (fst e) h then x :: outs_of h l' xs' else outs_of h l' xs'
  | _, _ => []
  end.

Lemma nth_error_set_nth_eq {A} : forall (l : list A) k x,
  (k < length l)%nat -> nth_error (set_nth l k x) k = Some x.
Proof.
  induction l as [|y l IH]; intros [|k] x H; cbn in *; try lia; auto. apply IH; lia.
Qed.
Lemma nth_error_set_nth_neq {A} : forall (l : list A) k j x,
  k <> j -> nth_error (set_nth l k x) j = nth_error l j.
Proof.
  induction l as [|y l IH]; intros [|k] [|j] x H; cbn in *; try congruence; auto.
Qed.
Lemma length_set_nth {A} : forall (l : list A) k x, length (set_nth l k x) = length l.
Proof. induction l as [|y l IH]; intros [|k] x; cbn; auto. Qed.

Lemma hosts_isolated_lemma : forall l ws h w,
  nth_error ws h = Some w ->
  nth_error (fst (hrun ws l)) h = Some (fst (run w (ops_of h l))) /\
  outs_of h l (snd (hrun ws l)) = snd (run w (ops_of h l)).
Proof.
  induction l as [|[k o] l IH]; intros ws h w Hw; cbn [hrun ops_of filter map run outs_of fst snd].
  - cbn. auto.
  - unfold hstep; cbn [fst snd].
    destruct (nth_error ws k) as [wk|] eqn:Ek.
    + destruct (step wk o) as [wk1 x] eqn:Es.
      destruct (hrun (set_nth ws k wk1) l) as [ws2 xs] eqn:Er.
      cbn [fst snd outs_of]. destruct (Nat.eqb k h) eqn:Ekh.
      * apply Nat.eqb_eq in Ekh; subst k. rewrite Hw in Ek; inversion Ek; subst wk.
        cbn [map run snd]. rewrite Es.
        assert (Hlt : (h < length ws)%nat) by (apply nth_error_Some; congruence).
        destruct (IH (set_nth ws h wk1) h wk1 (nth_error_set_nth_eq ws h wk1 Hlt)) as [A B].
        rewrite Er in A, B. cbn in A, B. fold (ops_of h l).
        destruct (run wk1 (ops_of h l)) as [w3 ys]; cbn in *. split; congruence.
      * apply Nat.eqb_neq in Ekh.
        assert (Hw' : nth_error (set_nth ws k wk1) h = Some w)
          by (rewrite nth_error_set_nth_neq; auto).
        destruct (IH _ h w Hw') as [A B]. rewrite Er in A, B. cbn in A, B.
        fold (ops_of h l). auto.
    + destruct (hrun ws l) as [ws2 xs] eqn:Er. cbn [fst snd outs_of].
      destruct (Nat.eqb k h) eqn:Ekh.
      * apply Nat.eqb_eq in Ekh; subst k. congruence.
      * destruct (IH ws h w Hw) as [A B]. rewrite Er in A, B. fold (ops_of h l). auto.
Qed.

(* ---- refutation witnesses of the known classes ------------------------------
   Each witness is in its class, and the implementation's observation at the
   marked step differs from the reference tree's (both values are shown). *)
From TV.Fs Require Import FsSafe.

Definition O_RWC slot p := Open slot p true true false false true false.
Definition O_RW slot p := Open slot p true true false false false false.
Definition O_WCN slot p := Open slot p false true false false true true.

(* write after a pending rename is invisible under the new name *)
Definition w_rename_file : list op :=
  [Spit [1] [65; 66; 67] false; Rename [1] [2]; O_RW 1 [2]; WriteAt 1 1 [88] false; Slurp [2]].
(* a twice-renamed unsynced file loses its contents when the directories are synced *)
Definition w_rename_twice : list op :=
  [Mkdir [4]; Spit [4; 1] [65; 66] false; Rename [4; 1] [1]; Rename [1] [2];
   SyncDir [4]; SyncDir []; Slurp [2]].
(* rename onto itself deletes the file *)
Definition w_rename_self : list op := [Spit [1] [65] false; Rename [1] [1]; Exists [1]].
(* a renamed directory leaves its children behind (and, unsynced, becomes a file) *)
Definition w_rename_dir : list op :=
  [Mkdir [4]; Spit [4; 1] [65] false; Rename [4] [5]; Stat [5; 1]; Stat [4; 1]; Stat [5]].
(* a handle follows the path, not the inode *)
Definition w_stale_handle : list op :=
  [O_RWC 1 [1]; WriteAt 1 0 [65; 66] false; Unlink [1]; SyncAll 1; FLen 1].
(* remove then re-create shows the old length *)
Definition w_recreate : list op :=
  [Spit [1] [65; 66; 67; 68; 69; 70] false; Unlink [1]; O_WCN 1 [1]; FLen 1].
(* the root directory can be removed *)
Definition w_root_op : list op := [Rmdir []; Exists []].

(* clean (data-synced) file, prefix shared by the rename witnesses below *)
Definition clean_file_d_a : list op :=
  [Mkdir [4]; Mkdir [6]; SyncDir []; O_RWC 1 [4; 1]; WriteAt 1 0 [65; 66] false; SyncAll 1; Close 1].
(* cross-directory rename out of a directory whose entry for the file is not durable: after the
   destination's sync_dir the old name is a file again *)
Definition w_rename_cross_resurrect : list op :=
  clean_file_d_a ++ [Rename [4; 1] [6; 1]; Exists [4; 1]; SyncDir [6]; Exists [4; 1]].
(* rmdir does not see a file renamed into the directory *)
Definition w_rename_rmdir : list op :=
  clean_file_d_a ++ [Rename [4; 1] [6; 1]; Rmdir [6]].
(* a second rename before the first one is flushed *)
Definition w_rename_again : list op :=
  clean_file_d_a ++ [Rename [4; 1] [4; 2]; Rename [4; 2] [2]; SyncDir []; Exists [2]].
(* a rename the crate gets right: data synced, same directory, left alone until sync_dir *)
Definition w_rename_clean : list op :=
  clean_file_d_a ++ [Rename [4; 1] [4; 2]; Slurp [4; 2]; SyncDir [4]; Slurp [4; 2]; Exists [4; 1];
                     O_RW 1 [4; 2]; WriteAt 1 1 [88] false; Slurp [4; 2]].

Definition impl_out (l : list op) (k : nat) : out := nth k (snd (run (init_world 0) l)) ONoSlot.
Definition spec_out (l : list op) (k : nat) : out := nth k (snd (srun init_sworld l)) ONoSlot.

Lemma rename_file_refuted_lemma :
  in_class KRenameFile w_rename_file = true /\
  spec_out w_rename_file 4 = OBytes [65; 88; 67] /\ impl_out w_rename_file 4 = OBytes [65; 66; 67].
Proof. vm_compute. auto. Qed.

Lemma rename_twice_refuted_lemma :
  in_class KRenameFile w_rename_twice = true /\
  spec_out w_rename_twice 6 = OBytes [65; 66] /\ impl_out w_rename_twice 6 = OBytes [].
Proof. vm_compute. auto. Qed.

Lemma rename_self_refuted_lemma :
  in_class KRenameSelf w_rename_self = true /\
  spec_out w_rename_self 2 = OBool true /\ impl_out w_rename_self 2 = OBool false.
Proof. vm_compute. auto. Qed.

Lemma rename_dir_refuted_lemma :
  in_class KRenameDir w_rename_dir = true /\
  spec_out w_rename_dir 3 = OFile 1 /\ impl_out w_rename_dir 3 = OErr ENOENT /\
  spec_out w_rename_dir 4 = OErr ENOENT /\ impl_out w_rename_dir 4 = OFile 1 /\
  spec_out w_rename_dir 5 = ODir /\ impl_out w_rename_dir 5 = OFile 0.
Proof. vm_compute. repeat split; reflexivity. Qed.

Lemma rename_cross_resurrect_refuted_lemma :
  spec_out w_rename_cross_resurrect 8 = OBool false /\ impl_out w_rename_cross_resurrect 8 = OBool false /\
  spec_out w_rename_cross_resurrect 10 = OBool false /\ impl_out w_rename_cross_resurrect 10 = OBool true.
Proof. vm_compute. repeat split; reflexivity. Qed.

Lemma rename_rmdir_refuted_lemma :
  spec_out w_rename_rmdir 8 = OErr ENOTEMPTY /\ impl_out w_rename_rmdir 8 = OOk.
Proof. vm_compute. auto. Qed.

Lemma rename_again_refuted_lemma :
  spec_out w_rename_again 10 = OBool true /\ impl_out w_rename_again 10 = OBool false.
Proof. vm_compute. auto. Qed.

Lemma rename_clean_example_lemma :
  Forall2 obs_ok (snd (srun init_sworld w_rename_clean)) (snd (run (init_world 0) w_rename_clean)) /\
  impl_out w_rename_clean 14 = OBytes [65; 88].
Proof. vm_compute. split; [repeat constructor|reflexivity]. Qed.

Lemma stale_handle_refuted_lemma :
  in_class KStaleHandle w_stale_handle = true /\
  spec_out w_stale_handle 3 = OOk /\ impl_out w_stale_handle 3 = OErr ENOENT.
Proof. vm_compute. auto. Qed.

Lemma recreate_refuted_lemma :
  in_class KRecreate w_recreate = true /\
  spec_out w_recreate 3 = ONum 0 /\ impl_out w_recreate 3 = ONum 6.
Proof. vm_compute. auto. Qed.

Lemma root_op_refuted_lemma :
  in_class KRootOp w_root_op = true /\
  spec_out w_root_op 0 = OErr EINVAL /\ impl_out w_root_op 0 = OOk /\
  spec_out w_root_op 1 = OBool true /\ impl_out w_root_op 1 = OBool false.
Proof. vm_compute. repeat split; reflexivity. Qed.

(* ---- sync is invisible (corollary of the refinement) ---------------------------------------- *)
From TV.Fs Require Import Facts View Refine.

Definition is_sync (o : op) : bool :=
  match o with SyncAll _ | SyncData _ | SyncDir _ => true | _ => false end.

Lemma sstep_sync t o : is_sync o = true -> fst (sstep t o) = t.
Proof.
  destruct o; try discriminate; intros _; cbn [sstep].
  - destruct (sget (shs t) slot); reflexivity.
  - destruct (sget (shs t) slot); reflexivity.
  - destruct (nget (names t) p) as [[|i]|]; reflexivity.
Qed.

Lemma gone_sync t g o : is_sync o = true -> gone_after t g o = g.
Proof. destruct o; try discriminate; reflexivity. Qed.

Lemma classes_from_app : forall l1 l2 t g,
  classes_from t g (l1 ++ l2) = [] ->
  classes_from t g l1 = [] /\
  exists t' g', fst (srun t l1) = t' /\ classes_from t' g' l2 = [] /\
    (forall l3, classes_from t g l1 = [] -> classes_from t' g' l3 = [] -> classes_from t g (l1 ++ l3) = []).
Proof.
  induction l1 as [|o l1 IH]; intros l2 t g H; cbn [app classes_from srun] in *.
  - split; [reflexivity|]. exists t, g. cbn. auto.
  - apply app_eq_nil in H as [H1 H2]. destruct (IH l2 _ _ H2) as [A (t' & g' & B & C & D)].
    split; [rewrite H1, A; reflexivity|].
    exists t', g'. destruct (sstep t o) as [t1 y]; cbn [fst] in *. destruct (srun t1 l1) as [t2 ys]; cbn [fst] in *.
    split; [exact B|]. split; [exact C|]. intros l3 E1 E2. rewrite H1. cbn. apply D; auto.
Qed.

Lemma Forall2_len {A B} (R : A -> B -> Prop) : forall l1 l2, Forall2 R l1 l2 -> length l1 = length l2.
Proof. induction 1; cbn; congruence. Qed.

Lemma length_srun : forall l t, length (snd (srun t l)) = length l.
Proof.
  induction l as [|a l IH]; intro t; cbn; [reflexivity|].
  destruct (sstep t a) as [t1 y]. specialize (IH t1). destruct (srun t1 l). cbn in *. lia.
Qed.

Lemma sync_is_invisible_lemma : forall l1 o l2,
  is_sync o = true ->
  forallb c10_op (l1 ++ o :: l2) = true -> known_free (l1 ++ o :: l2) = true ->
  let ref := snd (srun init_sworld (l1 ++ l2)) in
  let with_sync := snd (run (init_world 0) (l1 ++ o :: l2)) in
  let without := snd (run (init_world 0) (l1 ++ l2)) in
  known_free (l1 ++ l2) = true /\
  Forall2 obs_ok ref without /\
  Forall2 obs_ok ref (firstn (length l1) with_sync ++ skipn (S (length l1)) with_sync).
Proof.
  intros l1 o l2 Hs Hal Hk ref with_sync without.
  assert (Hal' : forallb c10_op (l1 ++ l2) = true).
  { rewrite forallb_app in *. cbn in Hal. apply andb_true_iff in Hal as [A B]. apply andb_true_iff in B as [_ B].
    rewrite A, B. reflexivity. }
  assert (Hk0 : classes_from init_sworld [] (l1 ++ o :: l2) = []).
  { unfold known_free, classes in Hk. destruct (classes_from init_sworld [] (l1 ++ o :: l2)); [reflexivity|discriminate]. }
  destruct (classes_from_app l1 (o :: l2) _ _ Hk0) as [A (t' & g' & B & C & D)].
  cbn [classes_from] in C. apply app_eq_nil in C as [C1 C2].
  rewrite (sstep_sync t' o Hs), (gone_sync t' g' o Hs) in C2.
  assert (Hk' : known_free (l1 ++ l2) = true).
  { unfold known_free, classes. rewrite (D l2 A C2). reflexivity. }
  split; [exact Hk'|]. split; [apply refines_lemma; assumption|].
  pose proof (refines_lemma _ Hal Hk) as HR.
  unfold ref, with_sync. rewrite run_app in *. rewrite srun_app in *. cbn [snd fst] in *.
  cbn [srun run] in HR |- *.
  destruct (sstep (fst (srun init_sworld l1)) o) as [t1 y] eqn:Es.
  assert (Ht1 : t1 = fst (srun init_sworld l1)).
  { pose proof (sstep_sync (fst (srun init_sworld l1)) o Hs) as E. rewrite Es in E. exact E. }
  subst t1.
  destruct (step (fst (run (init_world 0) l1)) o) as [w1 x] eqn:Ew.
  destruct (srun (fst (srun init_sworld l1)) l2) as [t2 ys] eqn:Er2.
  destruct (run w1 l2) as [w2 xs] eqn:Er3. cbn [fst snd] in *.
  apply Forall2_app_inv_l in HR as (xa & xb & H1 & H2 & Heq).
  inversion H2 as [|? x' ? xb' Hy Hrest]; subst.
  assert (Hlen : length xa = length l1).
  { apply Forall2_len in H1. rewrite <- H1. apply length_srun. }
  rewrite Heq. rewrite <- Hlen.
  rewrite firstn_app, Nat.sub_diag, firstn_all. cbn [firstn]. rewrite app_nil_r.
  replace (S (length xa)) with (length xa + 1)%nat by lia.
  rewrite skipn_app, skipn_all2 by lia. replace (length xa + 1 - length xa)%nat with 1%nat by lia.
  cbn [skipn app]. apply Forall2_app; assumption.
Qed.

(* a non-trivial history inside the proven alphabet *)
Definition h_demo : list op :=
  [Mkdir [4]; O_RWC 1 [4; 1]; WriteAt 1 0 [65; 66; 67; 68] false; SetLen 1 2 false; SyncDir [];
   WriteAt 1 4 [69] true; SyncDir [4]; Open 2 [4; 1] true false false false false false;
   Read 2 8; Unlink [4; 1]; Readdir [4]; Spit [2] [70; 71] false; Slurp [2]; Rmdir [4]; Exists [4]].

(* ---- a history with a clean rename (non-vacuity of the rename-inclusive theorem) -------------------------- *)
From TV.Fs Require Import FsDurable FsKnown.
Definition h_rename : list op :=
  [Open 1 [2] true true false false true false; WriteAt 1 0 [65] false; SyncAll 1; Close 1;
   Rename [2] [3]; Stat [2]; Slurp [3]; Readdir []; Open 2 [3] true false false false false false; ReadAt 2 0 4;
   SyncDir []; Slurp [3]].
Lemma rename_nonvacuous_lemma :
  forallb c10r_op h_rename = true /\ ksafe 0 h_rename = true /\
  snd (run (init_world 0) h_rename) =
    [OOk; ONum 1; OOk; OOk; OOk; OErr ENOENT; OBytes [65]; ONames [3]; OOk; OBytes [65]; OOk; OBytes [65]].
Proof. vm_compute. repeat split; reflexivity. Qed.
