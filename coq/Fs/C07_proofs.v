(* Lemmas behind the C07 theorems that are not part of the simulation proof
   (Durable.v): what the durable image says, refutation witnesses, non-vacuity. *)
From TV.Lib Require Import Base.
From TV.Fs Require Import FsImpl FsSpec FsSafe FsDurable Facts View Refine Durable C10_proofs.
Open Scope N_scope.

Definition dimpl_out (bs : nat) (l : list op) (k : nat) : out := nth k (snd (run (init_world bs) l)) ONoSlot.
Definition dspec_out (bs : nat) (l : list op) (k : nat) : out := nth k (snd (drun (init_dworld bs) l)) ONoSlot.

(* ---- what the image contains ------------------------------------------------------------------ *)
Lemma image_names d draws : dangling d = false -> names (dw (dcrash d draws)) = dents d.
Proof.
  intro H. unfold dcrash. cbn [dw names]. apply filter_all.
  unfold dangling in H. apply negb_false_iff in H. exact H.
Qed.

Lemma synced_never_lost_lemma : forall d p i draws,
  dbs d = 0%nat -> dangling d = false -> nget (dents d) p = Some (EFile i) ->
  snd (sstep (dw (dcrash d draws)) (Slurp p)) = OBytes (iget (ddata d) i).
Proof.
  intros d p i draws Hb Hd Hp. cbn [sstep]. rewrite (image_names d draws Hd), Hp. cbn [snd]. f_equal.
  unfold dcrash. rewrite Hb. cbn [Nat.eqb dw inodes].
  assert (Hents : filter (fun x => reachable (dents d) (fst x)) (dents d) = dents d).
  { apply filter_all. unfold dangling in Hd. apply negb_false_iff in Hd. exact Hd. }
  rewrite Hents. fold (image_files (ddata d) (dents d)).
  rewrite iget_image, (nget_has_ino _ p i Hp). reflexivity.
Qed.

Lemma unsynced_entry_gone_lemma : forall d p draws,
  dangling d = false -> nget (dents d) p = None ->
  snd (sstep (dw (dcrash d draws)) (Exists p)) = OBool false.
Proof. intros d p draws Hd Hp. cbn [sstep]. rewrite (image_names d draws Hd), Hp. reflexivity. Qed.

(* a background-sync coin is exactly a data sync right after the write *)
Lemma coin_is_sync_lemma : forall d slot off data h,
  sget (shs (dw d)) slot = Some h -> sw h = true ->
  fst (dstep d (WriteAt slot off data true)) =
  data_sync (fst (dstep d (WriteAt slot off data false))) (sino h).
Proof.
  intros d slot off data h Hs Hw. unfold dstep. cbn [sstep]. rewrite Hs, Hw. cbn [negb is_err fst]. reflexivity.
Qed.

(* ---- refutation witnesses (known classes, durability side) ------------------------------------------- *)
Definition O_RW1 p := Open 1 p true true false false false false.
Definition O_RW2 p := Open 2 p true true false false false false.

(* writes issued before a rename are lost although data and entry were synced afterwards *)
Definition wd_rename_file : list op :=
  [O_RWC 1 [1]; SyncDir []; WriteAt 1 0 [65; 66] false; Close 1; Rename [1] [2]; O_RW2 [2]; SyncAll 2;
   SyncDir []; Crash []; Slurp [2]].
(* a path re-created while its removal is pending loses synced data *)
Definition wd_recreate : list op :=
  [Spit [1] [65; 66; 67] false; O_RW1 [1]; SyncAll 1; SyncDir []; Close 1; Unlink [1]; O_WCN 2 [1];
   WriteAt 2 0 [88] false; SyncAll 2; SyncDir []; Crash []; Slurp [1]].
(* a never-synced file survives the crash on the durable entry of a removed directory *)
Definition wd_kind_swap : list op :=
  [Mkdir [1]; SyncDir []; Rmdir [1]; O_RWC 1 [1]; WriteAt 1 0 [65] false; SyncAll 1; Crash []; Stat [1]].

(* cross-directory rename of a data-synced file, old parent synced before the new one: lost *)
Definition wd_rename_cross_src_first : list op :=
  clean_file_d_a ++ [Rename [4; 1] [6; 1]; SyncDir [4]; SyncDir [6]; Crash []; Slurp [6; 1]].
(* the same with the new parent synced (the seeded scenario): the crate is right *)
Definition wd_rename_cross_clean : list op :=
  clean_file_d_a ++ [Rename [4; 1] [6; 1]; SyncDir [6]; Crash []; Slurp [6; 1]; Exists [4; 1]].

Lemma c07_rename_cross_src_first_refuted_lemma :
  dspec_out 0 wd_rename_cross_src_first 11 = OBytes [65; 66] /\
  dimpl_out 0 wd_rename_cross_src_first 11 = OErr ENOENT.
Proof. vm_compute. auto. Qed.

Lemma c07_rename_cross_clean_example_lemma :
  Forall2 obs_ok (snd (drun (init_dworld 0) wd_rename_cross_clean)) (snd (run (init_world 0) wd_rename_cross_clean)) /\
  dimpl_out 0 wd_rename_cross_clean 10 = OBytes [65; 66] /\ dimpl_out 0 wd_rename_cross_clean 11 = OBool false.
Proof. vm_compute. split; [repeat constructor|split; reflexivity]. Qed.

Lemma c07_rename_file_refuted_lemma :
  d_in_class 0 KRenameFile wd_rename_file = true /\
  dspec_out 0 wd_rename_file 9 = OBytes [65; 66] /\ dimpl_out 0 wd_rename_file 9 = OBytes [].
Proof. vm_compute. auto. Qed.

Lemma c07_recreate_refuted_lemma :
  d_in_class 0 KRecreate wd_recreate = true /\
  dspec_out 0 wd_recreate 11 = OBytes [88] /\ dimpl_out 0 wd_recreate 11 = OBytes [].
Proof. vm_compute. auto. Qed.

Lemma c07_kind_swap_refuted_lemma :
  dsafe 0 wd_kind_swap = false /\
  dspec_out 0 wd_kind_swap 7 = ODir /\ dimpl_out 0 wd_kind_swap 7 = OFile 1.
Proof. vm_compute. auto. Qed.

(* ---- a non-trivial history inside the theorem ------------------------------------------------------------ *)
Definition hd_demo : list op :=
  [Mkdir [4]; SyncDir []; O_RWC 1 [4; 1]; WriteAt 1 0 [65; 66; 67] false; SyncAll 1;
   WriteAt 1 1 [88] false; SyncDir [4]; O_RWC 2 [4; 2]; WriteAt 2 0 [70] true; Crash [];
   Slurp [4; 1]; Exists [4; 2]; O_RW1 [4; 1]; WriteAt 1 3 [89] true; Unlink [4; 1]; Mkdir [6]; Rmdir [6];
   Mkdir [6]; SyncDir [6]; Crash []; Slurp [4; 1]; Stat [6]].

(* a torn write: block size 2, the pending 3-byte write keeps its first block, the
   pending truncation is dropped *)
Definition hd_torn : list op :=
  [O_RWC 1 [1]; SyncDir []; WriteAt 1 0 [65; 66; 67; 68; 69] false; SyncAll 1;
   WriteAt 1 1 [88; 89; 90] false; SetLen 1 2 false; Crash [1%nat]; Slurp [1]].

(* ---- bytes that were never written never appear ----------------------------------------------- *)
(* all data bytes handed to a write operation of the history *)
Definition op_data (o : op) : bytes :=
  match o with
  | WriteAt _ _ data _ | Write _ data _ | Spit _ data _ => data
  | _ => []
  end.
Definition written (l : list op) : bytes := flat_map op_data l.

Definition okb (W c : bytes) : Prop := Forall (fun b => b = 0 \/ In b W) c.

Lemma okb_nil W : okb W [].
Proof. constructor. Qed.
Lemma okb_mono W X c : okb W c -> okb (W ++ X) c.
Proof.
  unfold okb. rewrite !Forall_forall. intros H b Hb. destruct (H b Hb); [left; assumption|right; apply in_or_app; left; assumption].
Qed.
Lemma okb_self W c : okb (W ++ c) c.
Proof. unfold okb. rewrite Forall_forall. intros b Hb. right. apply in_or_app. right. exact Hb. Qed.
Lemma okb_app W a b : okb W a -> okb W b -> okb W (a ++ b).
Proof. unfold okb. intros. apply Forall_app. split; assumption. Qed.
Lemma okb_zeros W n : okb W (zeros n).
Proof. unfold okb, zeros. rewrite Forall_forall. intros b Hb. apply repeat_spec in Hb. left. exact Hb. Qed.
Lemma okb_firstn W n c : okb W c -> okb W (firstn n c).
Proof.
  unfold okb. rewrite !Forall_forall. intros H b Hb. apply H.
  rewrite <- (firstn_skipn n c). apply in_or_app. left. exact Hb.
Qed.
Lemma okb_skipn W n c : okb W c -> okb W (skipn n c).
Proof.
  unfold okb. rewrite !Forall_forall. intros H b Hb. apply H.
  rewrite <- (firstn_skipn n c). apply in_or_app. right. exact Hb.
Qed.
Lemma okb_resize W c n : okb W c -> okb W (resize c n).
Proof. intro H. unfold resize. apply okb_app; [apply okb_firstn; exact H|apply okb_zeros]. Qed.
Lemma okb_write_bytes W c off d : okb W c -> okb W d -> okb W (write_bytes c off d).
Proof.
  intros Hc Hd. unfold write_bytes.
  assert (Hc' : okb W (if (length c <? off + length d)%nat then resize c (off + length d) else c))
    by (destruct (length c <? off + length d)%nat; [apply okb_resize|]; exact Hc).
  apply okb_app; [apply okb_firstn; exact Hc'|]. apply okb_app; [exact Hd|apply okb_skipn; exact Hc'].
Qed.
Lemma okb_pwrite W c off d : okb W c -> okb W d -> okb W (pwrite c off d).
Proof. intros Hc Hd. unfold pwrite. destruct d; [exact Hc|apply okb_write_bytes; assumption]. Qed.

Lemma okb_iget W m i : (forall j, okb W (iget m j)) -> okb W (iget m i).
Proof. auto. Qed.
Lemma okb_iset W m i c : (forall j, okb W (iget m j)) -> okb W c -> forall j, okb W (iget (iset m i c) j).
Proof. intros H Hc j. rewrite iget_iset. destruct (i =? j); auto. Qed.

(* every stored byte vector of the reference holds only written bytes and zeros *)
Record Clean (W : bytes) (d : dworld) : Prop := {
  cl_ino : forall i, okb W (iget (inodes (dw d)) i);
  cl_dur : forall i, okb W (iget (ddata d) i);
  cl_pend : forall w, In w (dpend d) -> okb W (snd w)
}.

Lemma Clean_mono W X d : Clean W d -> Clean (W ++ X) d.
Proof. intros [A B C]. constructor; intros; apply okb_mono; auto. Qed.

Lemma torn_clean W bs m : forall ws cont draws,
  (forall i, okb W (iget cont i)) -> (forall w, In w ws -> okb W (snd w)) ->
  forall i, okb W (iget (torn bs m cont ws draws) i).
Proof.
  induction ws as [|[[j off] data] ws IH]; intros cont draws Hc Hw i; cbn [torn]; [apply Hc|].
  destruct (durable_ino m j && negb (length data =? 0)%nat).
  - apply IH; [|intros; apply Hw; right; assumption].
    destruct (Nat.min (hd 0%nat draws * bs) (length data) =? 0)%nat; [exact Hc|].
    apply okb_iset; [exact Hc|]. apply okb_write_bytes; [apply Hc|].
    apply okb_firstn. apply (Hw (j, off, data)). left; reflexivity.
  - apply IH; [exact Hc|intros; apply Hw; right; assumption].
Qed.

Lemma iget_flat_image W cont : forall ents,
  (forall i, okb W (iget cont i)) ->
  forall i, okb W (iget (flat_map (fun x : path * entry => match snd x with EFile j => [(j, iget cont j)] | EDir => [] end) ents) i).
Proof.
  induction ents as [|[p e] ents IH]; intros H i; cbn; [apply okb_nil|].
  destruct e as [|j]; cbn; [apply IH; exact H|]. destruct (j =? i); [apply H|apply IH; exact H].
Qed.

Lemma sstep_clean W t o :
  (forall i, okb W (iget (inodes t) i)) ->
  forall i, okb (W ++ op_data o) (iget (inodes (fst (sstep t o))) i).
Proof.
  intros H i.
  assert (Hm : forall j, okb (W ++ op_data o) (iget (inodes t) j)) by (intro; apply okb_mono; apply H).
  destruct o; cbn [sstep op_data] in *; try (rewrite ?app_nil_r in *; apply Hm).
  - (* Open *)
    unfold sopen. destruct (valid_open r w a t0 c n); cbn [negb fst inodes set_shs]; [|apply Hm].
    destruct (parent_is_dir t p); cbn [negb fst inodes set_shs]; [|apply Hm].
    destruct (nget (names t) p) as [[|j]|]; cbn [fst inodes set_shs]; try apply Hm.
    + destruct n; cbn [fst inodes set_shs]; [apply Hm|].
      destruct t0; cbn [inodes set_shs set_inode]; [|apply Hm]. apply okb_iset; [exact Hm|apply okb_nil].
    + destruct (c || n); cbn [fst inodes set_shs]; [|apply Hm]. apply okb_iset; [exact Hm|apply okb_nil].
  - destruct (sget (shs t) slot); apply Hm.
  - (* WriteAt *)
    destruct (sget (shs t) slot) as [h|]; [|apply Hm]. destruct (sw h); cbn [negb fst inodes set_inode]; [|apply Hm].
    apply okb_iset; [exact Hm|]. apply okb_pwrite; [apply Hm|apply okb_self].
  - destruct (sget (shs t) slot) as [h|]; [|apply Hm]. destruct (sr h); apply Hm.
  - (* Write *)
    destruct (sget (shs t) slot) as [h|]; [|apply Hm]. destruct (sw h); cbn [negb fst inodes set_inode set_shs]; [|apply Hm].
    apply okb_iset; [exact Hm|]. apply okb_pwrite; [apply Hm|apply okb_self].
  - destruct (sget (shs t) slot) as [h|]; [|apply Hm]. destruct (sr h); apply Hm.
  - destruct (sget (shs t) slot) as [h|]; [|apply Hm].
    match goal with |- context[(?b + off <? 0)%Z] => destruct (b + off <? 0)%Z end; apply Hm.
  - (* SetLen *)
    destruct (sget (shs t) slot) as [h|]; [|apply Hm]. destruct (sw h); cbn [negb fst inodes set_inode]; [|apply Hm].
    apply okb_iset; [exact Hm|]. apply okb_resize. apply Hm.
  - destruct (sget (shs t) slot); apply Hm.
  - destruct (sget (shs t) slot); apply Hm.
  - destruct (sget (shs t) slot); apply Hm.
  - destruct (nget (names t) p) as [[|j]|]; apply Hm.
  - destruct (parent_is_dir t p); cbn; [|apply Hm]. destruct (nget (names t) p); apply Hm.
  - (* MkdirAll *)
    generalize (@nil name). revert t H Hm. induction p as [|a p IH]; intros t H Hm pre; cbn [smkdir_all]; [apply Hm|].
    destruct (nget (names t) (pre ++ [a])) as [[|j]|]; [apply IH; assumption|apply Hm|].
    apply (IH (set_names t (nset (names t) (pre ++ [a]) EDir))); assumption.
  - destruct (nget (names t) p) as [[|j]|]; try apply Hm. destruct p; [apply Hm|]. destruct (children t (n :: p)); apply Hm.
  - destruct (nget (names t) p) as [[|j]|]; try apply Hm. destruct p; apply Hm.
  - destruct (nget (names t) p) as [[|j]|]; apply Hm.
  - (* Rename *)
    unfold srename. destruct f as [|a f]; [apply Hm|]. destruct t0 as [|b t0]; [apply Hm|].
    destruct (nget (names t) (a :: f)) as [[|j]|]; [| |apply Hm].
    + destruct (parent_is_dir t (b :: t0)); cbn [negb]; [|apply Hm].
      destruct (is_prefix (a :: f) (b :: t0)); [apply Hm|].
      destruct (nget (names t) (b :: t0)) as [[|k]|]; try apply Hm.
      destruct (path_eqb (a :: f) (b :: t0)); [apply Hm|].
      destruct (children t (b :: t0)); apply Hm.
    + destruct (parent_is_dir t (b :: t0)); cbn [negb]; [|apply Hm].
      destruct (nget (names t) (b :: t0)) as [[|k]|]; try apply Hm;
        destruct (path_eqb (a :: f) (b :: t0)); apply Hm.
  - destruct (nget (names t) p) as [[|j]|]; apply Hm.
  - destruct (nget (names t) p) as [[|j]|]; apply Hm.
  - destruct (nget (names t) p) as [[|j]|]; apply Hm.
  - (* Spit *)
    destruct (parent_is_dir t p); cbn [negb fst]; [|apply Hm].
    destruct (nget (names t) p) as [[|j]|]; cbn [fst inodes set_inode]; [apply Hm| |];
      (apply okb_iset; [exact Hm|apply okb_self]).
Qed.

Ltac brk Hb :=
  repeat (match type of Hb with
          | context[match ?x with _ => _ end] => destruct x eqn:?; cbn [fst snd] in Hb
          | context[if ?x then _ else _] => destruct x eqn:?; cbn [fst snd] in Hb
          end);
  try discriminate.

Lemma smkdir_all_out t pre p b : snd (smkdir_all t pre p) <> OBytes b.
Proof.
  revert t pre. induction p as [|a p IH]; intros t pre; cbn [smkdir_all]; [discriminate|].
  destruct (nget (names t) (pre ++ [a])) as [[|j]|]; [apply IH|discriminate|apply IH].
Qed.

Lemma sstep_out_clean W t o b :
  (forall i, okb W (iget (inodes t) i)) -> snd (sstep t o) = OBytes b -> okb W b.
Proof.
  intros H Hb. destruct o; cbn [sstep] in Hb.
  - unfold sopen in Hb. brk Hb.
  - brk Hb.
  - brk Hb.
  - destruct (sget (shs t) slot) as [h|]; [|discriminate]. destruct (sr h); cbn in Hb; [|discriminate].
    inversion Hb; subst. apply okb_firstn, okb_skipn, H.
  - brk Hb.
  - destruct (sget (shs t) slot) as [h|]; [|discriminate]. destruct (sr h); cbn in Hb; [|discriminate].
    inversion Hb; subst. apply okb_firstn, okb_skipn, H.
  - brk Hb.
  - brk Hb.
  - brk Hb.
  - brk Hb.
  - brk Hb.
  - brk Hb.
  - brk Hb.
  - exfalso. eapply smkdir_all_out. exact Hb.
  - brk Hb.
  - brk Hb.
  - brk Hb.
  - unfold srename in Hb. brk Hb.
  - brk Hb.
  - brk Hb.
  - brk Hb.
  - destruct (nget (names t) p) as [[|j]|]; cbn in Hb; try discriminate. inversion Hb; subst. apply H.
  - brk Hb.
  - discriminate.
  - discriminate.
  - discriminate.
Qed.

Lemma Clean_data_sync W d i : Clean W d -> Clean W (data_sync d i).
Proof.
  intros [A B C]. constructor; cbn [dw ddata dpend data_sync]; auto.
  - apply okb_iset; auto.
  - intros w Hw. apply filter_In in Hw as [Hw _]. auto.
Qed.
Lemma Clean_add_pend W d i off data : Clean W d -> okb W data -> Clean W (add_pend d i off data).
Proof.
  intros [A B C] Hd. unfold add_pend. destruct data as [|b data]; [constructor; auto|].
  constructor; cbn [dw ddata dpend]; auto.
  intros w Hw. apply in_app_iff in Hw as [Hw|[<-|[]]]; [auto|exact Hd].
Qed.

Lemma dstep_clean W d o : Clean W d -> Clean (W ++ op_data o) (fst (dstep d o)).
Proof.
  intros HC. pose proof HC as [A B C].
  destruct (match o with Crash _ => true | _ => false end) eqn:Hcr.
  - destruct o; try discriminate. cbn [op_data dstep fst]. rewrite app_nil_r.
    unfold dcrash.
    set (cont := if (dbs d =? 0)%nat then ddata d else torn (dbs d) (dents d) (ddata d) (dpend d) draws).
    assert (Hc : forall i, okb W (iget cont i)).
    { unfold cont. destruct (dbs d =? 0)%nat; [exact B|]. apply torn_clean; assumption. }
    constructor; cbn [dw inodes ddata dpend].
    + apply iget_flat_image. exact Hc.
    + apply iget_flat_image. exact Hc.
    + intros w [].
  - pose proof (sstep_clean W (dw d) o A) as Hs.
    assert (Hbase : Clean (W ++ op_data o) (with_dw d (fst (sstep (dw d) o)))).
    { constructor; cbn [dw with_dw ddata dpend]; [exact Hs| |]; intros; apply okb_mono; auto. }
    unfold dstep. destruct o; try discriminate;
      destruct (sstep (dw d) _) as [t1 x] eqn:Es; cbn [fst snd] in *;
      destruct (is_err x); cbn [fst]; try exact Hbase.
    + destruct (sget (shs (dw d)) slot) as [h|]; [|exact Hbase].
      assert (H1 : Clean (W ++ data) (add_pend (with_dw d t1) (sino h) (N.to_nat off) data))
        by (apply Clean_add_pend; [exact Hbase|apply okb_self]).
      destruct coin; [apply Clean_data_sync|]; exact H1.
    + destruct (sget (shs (dw d)) slot) as [h|]; [|exact Hbase].
      match goal with |- context[add_pend ?a ?b ?c data] =>
        assert (H1 : Clean (W ++ data) (add_pend a b c data)) by (apply Clean_add_pend; [exact Hbase|apply okb_self]) end.
      destruct coin; [apply Clean_data_sync|]; exact H1.
    + destruct (sget (shs (dw d)) slot) as [h|]; [|exact Hbase]. destruct coin; [apply Clean_data_sync|]; exact Hbase.
    + destruct (sget (shs (dw d)) slot) as [h|]; [apply Clean_data_sync|]; exact Hbase.
    + destruct (sget (shs (dw d)) slot) as [h|]; [apply Clean_data_sync|]; exact Hbase.
    + destruct Hbase as [X Y Z]. constructor; auto.
    + destruct data as [|b data]; [exact Hbase|]. destruct (nget (names t1) p) as [[|i]|]; try exact Hbase.
      assert (H1 : Clean (W ++ b :: data) (add_pend (with_dw d t1) i 0 (b :: data)))
        by (apply Clean_add_pend; [exact Hbase|apply okb_self]).
      destruct coin; [apply Clean_data_sync|]; exact H1.
Qed.

Lemma dstep_out_clean W d o b : Clean W d -> snd (dstep d o) = OBytes b -> okb W b.
Proof.
  intros HC Hb.
  destruct (match o with Crash _ => true | _ => false end) eqn:Hcr.
  - destruct o; try discriminate; cbn in Hb; discriminate.
  - assert (Hnc : forall x, o <> Crash x) by (intros x Hx; subst o; discriminate).
    destruct (dstep_tree d o Hnc) as [_ Hx]. rewrite Hx in Hb.
    eapply sstep_out_clean; [apply HC|exact Hb].
Qed.

Lemma drun_clean : forall l W d k b,
  Clean W d -> nth k (snd (drun d l)) ONoSlot = OBytes b -> okb (W ++ written l) b.
Proof.
  induction l as [|o l IH]; intros W d k b HC Hb; cbn [drun] in Hb.
  - destruct k; discriminate.
  - destruct (dstep d o) as [d1 x] eqn:Es. destruct (drun d1 l) as [d2 xs] eqn:Er. cbn [snd] in Hb.
    destruct k as [|k]; cbn [nth] in Hb.
    + subst x. apply okb_mono. eapply dstep_out_clean; [exact HC|]. rewrite Es. reflexivity.
    + unfold written. cbn [flat_map]. rewrite app_assoc. fold (written l).
      apply (IH (W ++ op_data o) d1 k b).
      * pose proof (dstep_clean W d o HC) as X. rewrite Es in X. exact X.
      * rewrite Er. exact Hb.
Qed.

Lemma no_unwritten_bytes_lemma : forall bs l k b,
  nth k (snd (drun (init_dworld bs) l)) ONoSlot = OBytes b -> okb (written l) b.
Proof.
  intros bs l k b H. apply (drun_clean l [] (init_dworld bs) k b); [|exact H].
  constructor; cbn; intros; try apply okb_nil. contradiction.
Qed.

(* ---- histories with clean renames (non-vacuity of the rename-inclusive theorem) ------------------------- *)
From TV.Fs Require Import FsKnown.
(* a file renamed within its directory, the rename flushed, then a crash: the new name is durable *)
Definition hd_rename_flushed : list op :=
  [Mkdir [1]; SyncDir []; Open 1 [1;2] true true false false true false; WriteAt 1 0 [65;66] false; SyncAll 1; Close 1;
   SyncDir [1]; Rename [1;2] [1;3]; Stat [1;3]; SyncDir [1]; Crash []; Slurp [1;3]; Stat [1;2]].
(* a file renamed over another one, crash before any directory sync: both old files are back *)
Definition hd_rename_over_rolled_back : list op :=
  [Open 1 [2] true true false false true false; WriteAt 1 0 [65] false; SyncAll 1; Close 1;
   Open 2 [3] true true false false true false; WriteAt 2 0 [66;67] false; SyncAll 2; Close 2; SyncDir [];
   Rename [2] [3]; Slurp [3]; Readdir []; Crash []; Slurp [3]; Slurp [2]; SyncDir []].

Lemma renames_nonvacuous_lemma :
  forallb c07r_op hd_rename_flushed = true /\ ksafe 0 hd_rename_flushed = true /\
  snd (run (init_world 0) hd_rename_flushed) =
    [OOk; OOk; OOk; ONum 2; OOk; OOk; OOk; OOk; OFile 2; OOk; OOk; OBytes [65; 66]; OErr ENOENT] /\
  forallb c07r_op hd_rename_over_rolled_back = true /\ ksafe 0 hd_rename_over_rolled_back = true /\
  snd (run (init_world 0) hd_rename_over_rolled_back) =
    [OOk; ONum 1; OOk; OOk; OOk; ONum 2; OOk; OOk; OOk; OOk; OBytes [65]; ONames [3]; OOk; OBytes [66; 67]; OBytes [65]; OOk].
Proof. vm_compute. repeat split; reflexivity. Qed.
