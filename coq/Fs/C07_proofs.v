(* Lemmas behind the C07 theorems that are not part of the simulation proof
   (Durable.v): what the durable image says, refutation witnesses, non-vacuity. *)
From TV.Lib Require Import Base.
From TV.Fs Require Import FsImpl FsSpec FsSafe FsDurable Facts View Refine Durable C10_proofs.
Open Scope N_scope.

Definition dimpl_out (bs : nat) (l : list op) (k : nat) : out := nth k (snd (run (init_world bs) l)) ONoSlot.
Definition dspec_out (bs : nat) (l : list op) (k : nat) : out := nth k (snd (drun (init_dworld bs) l)) ONoSlot.

(* ---- what the image contains ------------------------------------------------------------------ *)
Lemma image_names d draws : dangling d = false -> names (dw (dcrash d draws)) = dents d.
Proof.
  intro H. unfold dcrash. cbn [dw names]. apply filter_all.
  unfold dangling in H. apply negb_false_iff in H. exact H.
Qed.

Lemma synced_never_lost_lemma : forall d p i draws,
  dbs d = 0%nat -> dangling d = false -> nget (dents d) p = Some (EFile i) ->
  snd (sstep (dw (dcrash d draws)) (Slurp p)) = OBytes (iget (ddata d) i).
Proof.
  intros d p i draws Hb Hd Hp. cbn [sstep]. rewrite (image_names d draws Hd), Hp. cbn [snd]. f_equal.
  unfold dcrash. rewrite Hb. cbn [Nat.eqb dw inodes].
  assert (Hents : filter (fun x => reachable (dents d) (fst x)) (dents d) = dents d).
  { apply filter_all. unfold dangling in Hd. apply negb_false_iff in Hd. exact Hd. }
  rewrite Hents. fold (image_files (ddata d) (dents d)).
  rewrite iget_image, (nget_has_ino _ p i Hp). reflexivity.
Qed.

Lemma unsynced_entry_gone_lemma : forall d p draws,
  dangling d = false -> nget (dents d) p = None ->
  snd (sstep (dw (dcrash d draws)) (Exists p)) = OBool false.
Proof. intros d p draws Hd Hp. cbn [sstep]. rewrite (image_names d draws Hd), Hp. reflexivity. Qed.

(* a background-sync coin is exactly a data sync right after the write *)
Lemma coin_is_sync_lemma : forall d slot off data h,
  sget (shs (dw d)) slot = Some h -> sw h = true ->
  fst (dstep d (WriteAt slot off data true)) =
  data_sync (fst (dstep d (WriteAt slot off data false))) (sino h).
Proof.
  intros d slot off data h Hs Hw. unfold dstep. cbn [sstep]. rewrite Hs, Hw. cbn [negb is_err fst]. reflexivity.
Qed.

(* ---- refutation witnesses (known classes, durability side) ------------------------------------------- *)
Definition O_RW1 p := Open 1 p true true false false false false.
Definition O_RW2 p := Open 2 p true true false false false false.

(* writes issued before a rename are lost although data and entry were synced afterwards *)
Definition wd_rename_file : list op :=
  [O_RWC 1 [1]; SyncDir []; WriteAt 1 0 [65; 66] false; Close 1; Rename [1] [2]; O_RW2 [2]; SyncAll 2;
   SyncDir []; Crash []; Slurp [2]].
(* a path re-created while its removal is pending loses synced data *)
Definition wd_recreate : list op :=
  [Spit [1] [65; 66; 67] false; O_RW1 [1]; SyncAll 1; SyncDir []; Close 1; Unlink [1]; O_WCN 2 [1];
   WriteAt 2 0 [88] false; SyncAll 2; SyncDir []; Crash []; Slurp [1]].
(* a never-synced file survives the crash on the durable entry of a removed directory *)
Definition wd_kind_swap : list op :=
  [Mkdir [1]; SyncDir []; Rmdir [1]; O_RWC 1 [1]; WriteAt 1 0 [65] false; SyncAll 1; Crash []; Stat [1]].

Lemma c07_rename_file_refuted_lemma :
  d_in_class 0 KRenameFile wd_rename_file = true /\
  dspec_out 0 wd_rename_file 9 = OBytes [65; 66] /\ dimpl_out 0 wd_rename_file 9 = OBytes [].
Proof. vm_compute. auto. Qed.

Lemma c07_recreate_refuted_lemma :
  d_in_class 0 KRecreate wd_recreate = true /\
  dspec_out 0 wd_recreate 11 = OBytes [88] /\ dimpl_out 0 wd_recreate 11 = OBytes [].
Proof. vm_compute. auto. Qed.

Lemma c07_kind_swap_refuted_lemma :
  dspec_out 0 wd_kind_swap 7 = ODir /\ dimpl_out 0 wd_kind_swap 7 = OFile 1.
Proof. vm_compute. auto. Qed.

(* ---- a non-trivial history inside the theorem ------------------------------------------------------------ *)
Definition hd_demo : list op :=
  [Mkdir [4]; SyncDir []; O_RWC 1 [4; 1]; WriteAt 1 0 [65; 66; 67] false; SyncAll 1;
   WriteAt 1 1 [88] false; SyncDir [4]; O_RWC 2 [4; 2]; WriteAt 2 0 [70] true; Crash [];
   Slurp [4; 1]; Exists [4; 2]; O_RW1 [4; 1]; WriteAt 1 3 [89] true; Unlink [4; 1]; Crash []; Slurp [4; 1]].
