(* Lemmas behind the C07 theorems. *)
From TV.Lib Require Import Base.
From TV.Fs Require Import FsImpl FsSpec FsSafe FsDurable C10_proofs.
Open Scope N_scope.

Definition dimpl_out (bs : nat) (l : list op) (k : nat) : out := nth k (snd (run (init_world bs) l)) ONoSlot.
Definition dspec_out (bs : nat) (l : list op) (k : nat) : out := nth k (snd (drun (init_dworld bs) l)) ONoSlot.
