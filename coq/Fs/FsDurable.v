(* TV.Fs.FsDurable — the durable image, computed from the history exactly as
   property C07 words it, on top of the reference tree FsSpec:

     * a directory entry (file or directory) is durable iff its parent directory
       was synced (sync_dir) while the entry existed, and is not durable any more
       once the parent was synced after the entry was removed;
     * syncing a directory also makes that directory's own creation durable
       (independently of its parent — the crate's model);
     * the durable contents of a file are its contents at its last data sync:
       sync_all, sync_data, or a background-sync coin that came up after a
       write / set_len (the coin is an input of the event);
     * a crash replaces the tree by the durable image: durable entries all of
       whose ancestors are durable, files with their durable contents (empty if
       never data-synced); every open handle is gone; with a torn-write block
       size b > 0 each write issued since the file's last data sync to a file
       with a durable entry contributes the first k*b bytes (k = the draw, an
       input of the Crash event), applied in issue order.
   No proofs in this file. *)
From TV.Lib Require Import Base.
From TV.Fs Require Import FsImpl FsSpec FsSafe.
Open Scope N_scope.

Record dworld := mkDw {
  dw : sworld;                          (* the current tree *)
  dents : list (path * entry);          (* durable directory entries *)
  ddata : list (N * bytes);             (* inode -> contents at the last data sync *)
  dpend : list (N * nat * bytes);       (* writes since that inode's last data sync *)
  dbs : nat;                            (* torn-write block size, 0 = none *)
  dunspec : bool                        (* a crash met a dangling durable subtree: unspecified *)
}.

Definition init_dworld (b : nat) : dworld :=
  {| dw := init_sworld; dents := [([], EDir)]; ddata := []; dpend := []; dbs := b; dunspec := false |}.

Definition with_dw (d : dworld) (t : sworld) : dworld :=
  {| dw := t; dents := dents d; ddata := ddata d; dpend := dpend d; dbs := dbs d; dunspec := dunspec d |}.

Fixpoint dget (m : list (N * bytes)) (i : N) : option bytes :=
  match m with [] => None | (j, c) :: m' => if j =? i then Some c else dget m' i end.

(* the file's contents become its durable contents *)
Definition data_sync (d : dworld) (i : N) : dworld :=
  {| dw := dw d; dents := dents d;
     ddata := iset (ddata d) i (iget (inodes (dw d)) i);
     dpend := filter (fun w => negb (fst (fst w) =? i)) (dpend d); dbs := dbs d;
     dunspec := dunspec d |}.

Definition add_pend (d : dworld) (i : N) (off : nat) (data : bytes) : dworld :=
  match data with
  | [] => d
  | _ => {| dw := dw d; dents := dents d; ddata := ddata d;
            dpend := dpend d ++ [(i, off, data)]; dbs := dbs d; dunspec := dunspec d |}
  end.

(* sync_dir d: d's own entry, and exactly d's current children, are durable.
   A regular file has one durable name: when an entry for inode i becomes
   durable under a new name (a rename made durable), the old durable name of i
   is dropped with it. *)
Definition taken (t : sworld) (p : path) (x : path * entry) : bool :=
  match snd x with
  | EFile i => existsb (fun q => negb (path_eqb q (fst x))
                                 && match nget (names t) q with Some (EFile j) => j =? i | _ => false end)
                       (children t p)
  | EDir => false
  end.

Definition dir_sync (d : dworld) (p : path) : dworld :=
  let t := dw d in
  let kept := filter (fun x => negb (child_of (fst x) p) || match nget (names t) (fst x) with Some _ => true | None => false end)
                     (dents d) in
  let kept1 := filter (fun x => negb (taken t p x)) kept in
  let own := nset kept1 p EDir in
  {| dw := t;
     dents := fold_left (fun m q => match nget (names t) q with Some e => nset m q e | None => m end)
                        (children t p) own;
     ddata := ddata d; dpend := dpend d; dbs := dbs d; dunspec := dunspec d |}.

(* the proper prefixes of p: its ancestors *)
Fixpoint ancestors (p : path) : list path :=
  match p with [] => [] | a :: p' => [] :: map (cons a) (ancestors p') end.
(* every proper ancestor of p is a durable directory *)
Definition reachable (m : list (path * entry)) (p : path) : bool :=
  forallb (fun q => match nget m q with Some EDir => true | _ => false end) (ancestors p).

Definition durable_ino (m : list (path * entry)) (i : N) : bool :=
  existsb (fun x => match snd x with EFile j => j =? i | EDir => false end) m.

(* torn writes: fold over the pending writes with the draws *)
Fixpoint torn (bs : nat) (m : list (path * entry)) (cont : list (N * bytes))
         (ws : list (N * nat * bytes)) (draws : list nat) : list (N * bytes) :=
  match ws with
  | [] => cont
  | (i, off, data) :: ws' =>
      if durable_ino m i && negb (length data =? 0)%nat then
        let k := hd 0%nat draws in
        let n := Nat.min (k * bs) (length data) in
        let cont' := if (n =? 0)%nat then cont
                     else iset cont i (write_bytes (iget cont i) off (firstn n data)) in
        torn bs m cont' ws' (tl draws)
      else torn bs m cont ws' draws
  end.

(* a durable entry with a non-durable ancestor exists: the image is unspecified there *)
Definition dangling (d : dworld) : bool :=
  negb (forallb (fun x => reachable (dents d) (fst x)) (dents d)).

Definition dcrash (d : dworld) (draws : list nat) : dworld :=
  let cont0 := ddata d in
  let cont := if (dbs d =? 0)%nat then cont0 else torn (dbs d) (dents d) cont0 (dpend d) draws in
  let ents := filter (fun x => reachable (dents d) (fst x)) (dents d) in
  let files := flat_map (fun x => match snd x with EFile i => [(i, iget cont i)] | EDir => [] end) ents in
  {| dw := {| names := ents; inodes := files; next_ino := next_ino (dw d); shs := [] |};
     dents := ents; ddata := files; dpend := []; dbs := dbs d;
     dunspec := dunspec d || dangling d |}.

Definition is_err (x : out) : bool :=
  match x with OErr _ | ONoSlot => true | _ => false end.

Definition dstep (d : dworld) (o : op) : dworld * out :=
  match o with
  | Crash draws => (dcrash d draws, OOk)
  | _ =>
    let t := dw d in
    let (t1, x) := sstep t o in
    let d1 := with_dw d t1 in
    if is_err x then (d1, x) else
    let d2 :=
      match o with
      | WriteAt slot off data coin =>
          match sget (shs t) slot with
          | Some h => let d' := add_pend d1 (sino h) (N.to_nat off) data in
                      if coin then data_sync d' (sino h) else d'
          | None => d1
          end
      | Write slot data coin =>
          match sget (shs t) slot with
          | Some h =>
              let off := if sa h then length (iget (inodes t) (sino h)) else spos h in
              let d' := add_pend d1 (sino h) off data in
              if coin then data_sync d' (sino h) else d'
          | None => d1
          end
      | Spit p data coin =>
          (* fs::write issues no write (and draws no coin) for empty contents *)
          match data, nget (names t1) p with
          | _ :: _, Some (EFile i) => let d' := add_pend d1 i 0 data in
                                      if coin then data_sync d' i else d'
          | _, _ => d1
          end
      | SetLen slot _ coin =>
          match sget (shs t) slot with
          | Some h => if coin then data_sync d1 (sino h) else d1
          | None => d1
          end
      | SyncAll slot | SyncData slot =>
          match sget (shs t) slot with Some h => data_sync d1 (sino h) | None => d1 end
      | SyncDir p => dir_sync d1 p
      | _ => d1
      end in
    (d2, x)
  end.

Fixpoint drun (d : dworld) (l : list op) : dworld * list out :=
  match l with
  | [] => (d, [])
  | o :: l' => let (d1, x) := dstep d o in let (d2, xs) := drun d1 l' in (d2, x :: xs)
  end.

Definition hdstep (ds : list dworld) (e : nat * op) : list dworld * out :=
  match nth_error ds (fst e) with
  | None => (ds, ONoSlot)
  | Some d => let (d1, x) := dstep d (snd e) in (set_nth ds (fst e) d1, x)
  end.
Fixpoint hdrun (ds : list dworld) (l : list (nat * op)) : list dworld * list out :=
  match l with
  | [] => (ds, [])
  | e :: l' => let (ds1, x) := hdstep ds e in let (ds2, xs) := hdrun ds1 l' in (ds2, x :: xs)
  end.
(* observations, and for every step whether the host's image was already unspecified *)
Fixpoint hdrun_flags (ds : list dworld) (l : list (nat * op)) : list bool :=
  match l with
  | [] => []
  | e :: l' =>
      let (ds1, _) := hdstep ds e in
      (match nth_error ds1 (fst e) with Some d => dunspec d | None => false end)
      :: hdrun_flags ds1 l'
  end.
Definition hdrun_enc (nhosts bs : nat) (l : list (nat * op)) :=
  (map enc_out (snd (hdrun (repeat (init_dworld bs) nhosts) l)),
   hdrun_flags (repeat (init_dworld bs) nhosts) l).

(* the known classes along a history with crashes (reference = the durable run) *)
Fixpoint dclasses_from (d : dworld) (gone : list path) (l : list op) : list klass :=
  match l with
  | [] => []
  | o :: l' => op_classes (dw d) gone o ++ dclasses_from (fst (dstep d o)) (gone_after (dw d) gone o) l'
  end.
Definition dclasses (bs : nat) (l : list op) : list klass := dclasses_from (init_dworld bs) [] l.
Definition d_in_class (bs : nat) (k : klass) (l : list op) : bool := existsb (klass_eqb k) (dclasses bs l).
(* every crash of the history happens with all durable entries reachable *)
Fixpoint no_dangling_crash (d : dworld) (l : list op) : bool :=
  match l with
  | [] => true
  | o :: l' =>
      (match o with Crash _ => negb (dangling d) | _ => true end)
      && no_dangling_crash (fst (dstep d o)) l'
  end.

Definition hdclasses_enc (nhosts bs : nat) (l : list (nat * op)) : list N :=
  flat_map (fun h => map klass_id (dclasses bs (host_ops h l))) (seq 0 nhosts).

(* ---- the alphabet and the side conditions of the C07 theorem ------------------------------- *)
(* everything except the recursive conveniences create_dir_all / remove_dir_all *)
Definition c07_op (o : op) : bool :=
  match o with MkdirAll _ | RmdirAll _ => false | _ => true end.
(* directories removed since the last crash *)
Definition gd_after (t : sworld) (gd : list path) (o : op) : list path :=
  match o with
  | Rmdir p => match nget (names t) p with Some EDir => p :: gd | _ => gd end
  | Crash _ => []
  | _ => gd
  end.
(* KindSwap (C07 only): an entry of one kind is created where an entry of the
   other kind was removed since the last crash *)
Definition kind_swap (t : sworld) (gone gd : list path) (o : op) : bool :=
  match o with
  | Mkdir p => mem_path p gone
  | Open _ p _ _ _ _ c n => match nget (names t) p with None => (c || n) && mem_path p gd | _ => false end
  | Spit p _ _ => match nget (names t) p with None => mem_path p gd | _ => false end
  | _ => false
  end.
(* no known class, no KindSwap, and every crash finds all durable entries reachable *)
Fixpoint dsafe_from (d : dworld) (gone gd : list path) (l : list op) : bool :=
  match l with
  | [] => true
  | o :: l' =>
      (match op_classes (dw d) gone o with [] => true | _ => false end)
      && negb (kind_swap (dw d) gone gd o)
      && (match o with Crash _ => negb (dangling d) | _ => true end)
      && dsafe_from (fst (dstep d o)) (gone_after (dw d) gone o) (gd_after (dw d) gd o) l'
  end.
Definition dsafe (bs : nat) (l : list op) : bool := dsafe_from (init_dworld bs) [] [] l.

(* plain-data rendering of the theorem's side condition for a one-host script *)
Definition dsafe_enc (bs : nat) (l : list (nat * op)) : bool :=
  forallb c07_op (host_ops 0 l) && dsafe bs (host_ops 0 l).
