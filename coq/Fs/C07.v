(* Property C07 — after a crash the filesystem holds exactly the durable image.
   This file only states the theorems and closes them with the lemmas of
   Durable.v / C07_proofs.v; see DESIGN.md section 5 (C07).

   FsDurable = the durable image computed from the history as the property words
   it (entry durable iff its parent was synced while it existed; contents = the
   contents at the last data sync; a background-sync coin is a data sync). *)
From TV.Lib Require Import Base.
From TV.Fs Require Import FsImpl FsSpec FsSafe FsDurable FsKnown Durable Known C10_proofs C07_proofs.
Open Scope N_scope.

(* Crash image: for EVERY history with crashes at arbitrary points and arbitrarily
   many crash - continue - crash rounds, for every value of every background-sync
   coin, for every torn-write block size bs (0 = none) and every sequence of
   torn-write draws, over the whole alphabet except create_dir_all /
   remove_dir_all, that meets no known class (FsSafe), creates no entry of one
   kind where an entry of the other kind was removed since the last crash
   (KindSwap) and whose
   crashes find every durable entry reachable through durable ancestors: every
   observation of the implementation — before, between and after the crashes —
   is the observation of the reference tree with the durable image substituted
   at each crash.
   Hence after a crash a file is present iff its entry was made durable by a
   sync of its parent and not durably removed; its contents are those of its last
   data sync (explicit, or a coin), overlaid in issue order by the first k*bs
   bytes of each write issued since then (k = the draw of that write; nothing
   with bs = 0); unsynced creates, truncations and removals are rolled back.
   _partial: create_dir_all / remove_dir_all and successful renames of regular
   files are not covered by this statement (FsSafe.KRenameFile).  The renames within one
   directory that the crate gets right are covered by c07_crash_image_renames_partial below;
   those across directories (new parent synced first) are asserted by the oracle on
   generated histories (c07_rename_cross_clean_example is one of them); the others
   are the narrow known classes RenameFile / RenameCrossDir. *)
Theorem c07_crash_image_partial : forall bs l,
  forallb c07_op l = true -> dsafe bs l = true ->
  Forall2 obs_ok (snd (drun (init_dworld bs) l)) (snd (run (init_world bs) l)).
Proof. exact crash_image_lemma. Qed.

(* Crash image with renames: the same statement for the histories that meet NO KNOWN CLASS - FsKnown.kclasses,
   the narrow classes of known_findings.txt as gen/fam_fs.py decides them (RootOp, RenameSelf, RenameDir,
   StaleHandle, RenameFile (a)-(f), RenameCrossDir, Recreate, KindSwap) - over the alphabet that also has the
   renames of regular files, onto a fresh name or over an existing file, followed by
   anything the classes allow: reads and data syncs through the new name, unlink of the new name, further
   renames of other files, directory syncs in any order, crashes at any point.  A rename not yet flushed by a
   sync of the directory is rolled back by a crash; flushed, it is durable with the contents of the file's
   last data sync, and a replaced file is durably gone.
   _partial - what [ksafe] / [c07r_op] exclude beyond the known classes (FsKnown.v, end of file):
   create_dir_all / remove_dir_all; a sync of exactly one of the two directories of an unflushed rename
   between different directories (such a rename is covered while no directory sync touches it - a crash
   rolls it back -; its flush from the new directory's side is covered by the oracle and the narrow class
   RenameCrossDir only); any creation of a file at a name a file left since the last
   crash (FsSafe.KRecreate; the known finding Recreate is narrower, the re-creations outside it are asserted
   by the oracle only); a rename onto a name a directory was removed from since the last crash; a crash on
   a dangling durable subtree. *)
Theorem c07_crash_image_renames_partial : forall bs l,
  forallb c07r_op l = true -> ksafe bs l = true ->
  Forall2 obs_ok (snd (drun (init_dworld bs) l)) (snd (run (init_world bs) l)).
Proof. exact crash_image_known. Qed.

(* Torn writes: what a crash with block size bs > 0 does to the durable contents
   (the definition read back): the contents of the last data sync, overlaid in
   issue order by a block-aligned prefix (first min (k*bs) len bytes, k the draw)
   of each pending write of a file with a durable entry; pending truncations are
   dropped.  c07_crash_image_partial (any bs) says the implementation does exactly this. *)
Theorem c07_torn : forall bs m cont i off data ws draws,
  durable_ino m i = true -> data <> [] ->
  torn bs m cont ((i, off, data) :: ws) draws =
  torn bs m (let n := Nat.min (hd 0%nat draws * bs) (length data) in
             if (n =? 0)%nat then cont else iset cont i (write_bytes (iget cont i) off (firstn n data)))
       ws (tl draws).
Proof.
  intros bs m cont i off data ws draws Hd Hne. cbn [torn]. rewrite Hd.
  destruct data; [congruence|]. reflexivity.
Qed.

(* What the image says (the definitions read back): a durable file entry carries
   exactly the contents of its last data sync; a path without a durable entry does
   not exist after the crash. *)
Theorem c07_synced_never_lost : forall d p i draws,
  dbs d = 0%nat -> dangling d = false -> nget (dents d) p = Some (EFile i) ->
  snd (sstep (dw (dcrash d draws)) (Slurp p)) = OBytes (iget (ddata d) i).
Proof. exact synced_never_lost_lemma. Qed.

Theorem c07_unsynced_entry_gone : forall d p draws,
  dangling d = false -> nget (dents d) p = None ->
  snd (sstep (dw (dcrash d draws)) (Exists p)) = OBool false.
Proof. exact unsynced_entry_gone_lemma. Qed.

(* Bytes that were never written never appear: in EVERY history (any operations,
   any crashes, any coins, any torn-write block size and draws) every byte the
   reference ever returns from a read is 0 or one of the bytes handed to a write
   operation of that history.  Together with c07_crash_image_partial the same holds for
   the implementation's reads. *)
Theorem c07_no_unwritten_bytes : forall bs l k b,
  nth k (snd (drun (init_dworld bs) l)) ONoSlot = OBytes b -> okb (written l) b.
Proof. exact no_unwritten_bytes_lemma. Qed.

(* Random background sync: a coin that comes up true is a data sync of that file
   right after the write, nothing else (so the post-crash contents are the
   contents at a sync point not earlier than the last explicit one). *)
Theorem c07_random_sync : forall d slot off data h,
  sget (shs (dw d)) slot = Some h -> sw h = true ->
  fst (dstep d (WriteAt slot off data true)) =
  data_sync (fst (dstep d (WriteAt slot off data false))) (sino h).
Proof. exact coin_is_sync_lemma. Qed.

(* Known classes on the durability side. *)
Theorem c07_rename_file_refuted :
  d_in_class 0 KRenameFile wd_rename_file = true /\
  dspec_out 0 wd_rename_file 9 = OBytes [65; 66] /\ dimpl_out 0 wd_rename_file 9 = OBytes [].
Proof. exact c07_rename_file_refuted_lemma. Qed.

Theorem c07_rename_cross_src_first_refuted :
  dspec_out 0 wd_rename_cross_src_first 11 = OBytes [65; 66] /\
  dimpl_out 0 wd_rename_cross_src_first 11 = OErr ENOENT.
Proof. exact c07_rename_cross_src_first_refuted_lemma. Qed.

Example c07_rename_cross_clean_example :
  Forall2 obs_ok (snd (drun (init_dworld 0) wd_rename_cross_clean)) (snd (run (init_world 0) wd_rename_cross_clean)) /\
  dimpl_out 0 wd_rename_cross_clean 10 = OBytes [65; 66] /\ dimpl_out 0 wd_rename_cross_clean 11 = OBool false.
Proof. exact c07_rename_cross_clean_example_lemma. Qed.

Theorem c07_recreate_refuted :
  d_in_class 0 KRecreate wd_recreate = true /\
  dspec_out 0 wd_recreate 11 = OBytes [88] /\ dimpl_out 0 wd_recreate 11 = OBytes [].
Proof. exact c07_recreate_refuted_lemma. Qed.

Theorem c07_kind_swap_refuted :
  dsafe 0 wd_kind_swap = false /\
  dspec_out 0 wd_kind_swap 7 = ODir /\ dimpl_out 0 wd_kind_swap 7 = OFile 1.
Proof. exact c07_kind_swap_refuted_lemma. Qed.

(* Non-vacuity: two crashes, a coin, a durable and a non-durable file, an
   unsynced overwrite and an unsynced unlink that are rolled back, a directory
   removed, re-created and made durable by its own sync. *)
Example c07_nonvacuous :
  forallb c07_op hd_demo = true /\ dsafe 0 hd_demo = true /\
  dimpl_out 0 hd_demo 10 = OBytes [65; 66; 67] /\ dimpl_out 0 hd_demo 11 = OBool false /\
  dimpl_out 0 hd_demo 20 = OBytes [65; 66; 67; 89] /\ dimpl_out 0 hd_demo 21 = ODir.
Proof. vm_compute. repeat split; reflexivity. Qed.

Example c07_torn_nonvacuous :
  forallb c07_op hd_torn = true /\ dsafe 2 hd_torn = true /\
  dimpl_out 2 hd_torn 7 = OBytes [65; 88; 89; 68; 69] /\ dspec_out 2 hd_torn 7 = OBytes [65; 88; 89; 68; 69].
Proof. vm_compute. repeat split; reflexivity. Qed.

(* Non-vacuity of the rename-inclusive theorem: a rename within a directory that is flushed and survives the
   crash under the new name only; a rename over an existing file that a crash before any directory sync
   rolls back (both files are back with their synced contents). *)
Example c07_renames_nonvacuous :
  forallb c07r_op hd_rename_flushed = true /\ ksafe 0 hd_rename_flushed = true /\
  snd (run (init_world 0) hd_rename_flushed) =
    [OOk; OOk; OOk; ONum 2; OOk; OOk; OOk; OOk; OFile 2; OOk; OOk; OBytes [65; 66]; OErr ENOENT] /\
  forallb c07r_op hd_rename_over_rolled_back = true /\ ksafe 0 hd_rename_over_rolled_back = true /\
  snd (run (init_world 0) hd_rename_over_rolled_back) =
    [OOk; ONum 1; OOk; OOk; OOk; ONum 2; OOk; OOk; OOk; OOk; OBytes [65]; ONames [3]; OOk; OBytes [66; 67]; OBytes [65]; OOk].
Proof. exact renames_nonvacuous_lemma. Qed.

Print Assumptions c07_crash_image_partial.
Print Assumptions c07_crash_image_renames_partial.
Print Assumptions c07_torn.
Print Assumptions c07_synced_never_lost.
Print Assumptions c07_unsynced_entry_gone.
Print Assumptions c07_no_unwritten_bytes.
Print Assumptions c07_random_sync.
Print Assumptions c07_rename_file_refuted.
Print Assumptions c07_rename_cross_src_first_refuted.
Print Assumptions c07_rename_cross_clean_example.
Print Assumptions c07_recreate_refuted.
Print Assumptions c07_kind_swap_refuted.
Print Assumptions c07_nonvacuous.
Print Assumptions c07_torn_nonvacuous.
Print Assumptions c07_renames_nonvacuous.
