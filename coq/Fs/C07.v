(* Property C07 — after a crash the filesystem holds exactly the durable image.
   This file only states the theorems; see DESIGN.md section 5 (C07). *)
From TV.Lib Require Import Base.
From TV.Fs Require Import FsImpl FsSpec FsSafe FsDurable C07_proofs.
Open Scope N_scope.
