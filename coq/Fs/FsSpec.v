(* TV.Fs.FsSpec — the reference: a plain in-memory POSIX file tree.
     names  : path -> Dir | inode      (a flat, parent-closed map of absolute paths)
     inodes : inode -> bytes
     handle : slot  -> inode, access mode, cursor
   It interprets the same [op] alphabet as FsImpl and produces the same [out]
   type.  Sync operations and Tick change nothing.  No proofs in this file.

   Errors are POSIX errnos; where POSIX says ENOTDIR / EISDIR for a lookup that
   meets an entry of the wrong kind, an implementation answering ENOENT is
   accepted by [obs_ok] (the comparison used by the C10 theorems and by the
   python oracle). *)
From TV.Lib Require Import Base.
From TV.Fs Require Import FsImpl.
Open Scope N_scope.

Inductive entry := EDir | EFile (ino : N).

Record shnd := mkSh { spath : path;      (* ghost: the path the handle was opened with *)
                      sino : N; sr : bool; sw : bool; sa : bool; spos : nat }.

Record sworld := mkSw {
  names : list (path * entry);
  inodes : list (N * bytes);
  next_ino : N;
  shs : list (N * shnd)
}.

Definition init_sworld : sworld :=
  {| names := [([], EDir)]; inodes := []; next_ino := 1; shs := [] |}.

Fixpoint nget (m : list (path * entry)) (p : path) : option entry :=
  match m with [] => None | (q, e) :: m' => if path_eqb q p then Some e else nget m' p end.
Definition ndel (m : list (path * entry)) (p : path) : list (path * entry) :=
  filter (fun x => negb (path_eqb (fst x) p)) m.
Definition nset (m : list (path * entry)) (p : path) (e : entry) : list (path * entry) :=
  (p, e) :: ndel m p.

Fixpoint iget (m : list (N * bytes)) (i : N) : bytes :=
  match m with [] => [] | (j, c) :: m' => if j =? i then c else iget m' i end.
Definition iset (m : list (N * bytes)) (i : N) (c : bytes) : list (N * bytes) :=
  (i, c) :: filter (fun x => negb (fst x =? i)) m.

Fixpoint sget (l : list (N * shnd)) (k : N) : option shnd :=
  match l with [] => None | (j, h) :: l' => if j =? k then Some h else sget l' k end.
Definition sdel (l : list (N * shnd)) (k : N) : list (N * shnd) :=
  filter (fun e => negb (fst e =? k)) l.
Definition sset (l : list (N * shnd)) (k : N) (h : shnd) : list (N * shnd) := (k, h) :: sdel l k.

Definition is_dir (t : sworld) (p : path) : bool :=
  match nget (names t) p with Some EDir => true | _ => false end.
Definition is_file (t : sworld) (p : path) : bool :=
  match nget (names t) p with Some (EFile _) => true | _ => false end.
Definition parent_is_dir (t : sworld) (p : path) : bool :=
  match parent p with None => true | Some q => is_dir t q end.

Definition children (t : sworld) (d : path) : list path :=
  map fst (filter (fun x => child_of (fst x) d) (names t)).
Definition slisting (t : sworld) (d : path) : list name := sort_names (map base (children t d)).

(* proper prefix: d is an ancestor of p *)
Fixpoint is_prefix (d p : path) : bool :=
  match d, p with
  | [], _ :: _ => true
  | a :: d', b :: p' => (a =? b) && is_prefix d' p'
  | _, _ => false
  end.
(* replace the prefix [f] of [p] by [t] *)
Definition reroot (f t p : path) : path := t ++ skipn (length f) p.

Definition set_names (t : sworld) (m : list (path * entry)) : sworld :=
  {| names := m; inodes := inodes t; next_ino := next_ino t; shs := shs t |}.
Definition set_inode (t : sworld) (i : N) (c : bytes) : sworld :=
  {| names := names t; inodes := iset (inodes t) i c; next_ino := next_ino t; shs := shs t |}.
Definition set_shs (t : sworld) (l : list (N * shnd)) : sworld :=
  {| names := names t; inodes := inodes t; next_ino := next_ino t; shs := l |}.

(* pwrite on a byte vector: nothing for empty data *)
Definition pwrite (c : bytes) (off : nat) (data : bytes) : bytes :=
  match data with [] => c | _ => write_bytes c off data end.

Definition sopen (t : sworld) (slot : N) (p : path) (r w a tr c n : bool) : sworld * out :=
  let t0 := set_shs t (sdel (shs t) slot) in
  if negb (valid_open r w a tr c n) then (t0, OErr EINVAL)
  else if negb (parent_is_dir t p) then (t0, OErr ENOENT)
  else
    match nget (names t) p with
    | Some EDir => (t0, OErr EISDIR)
    | Some (EFile i) =>
        if n then (t0, OErr EEXIST)
        else
          let t1 := if tr then set_inode t0 i [] else t0 in
          (set_shs t1 (sset (shs t) slot
             {| spath := p; sino := i; sr := r; sw := w || a; sa := a; spos := 0 |}), OOk)
    | None =>
        if c || n then
          let i := next_ino t in
          ({| names := nset (names t) p (EFile i); inodes := iset (inodes t) i [];
              next_ino := i + 1;
              shs := sset (shs t) slot
                {| spath := p; sino := i; sr := r; sw := w || a; sa := a; spos := 0 |} |}, OOk)
        else (t0, OErr ENOENT)
    end.

Definition sset_pos (h : shnd) (n : nat) : shnd :=
  {| spath := spath h; sino := sino h; sr := sr h; sw := sw h; sa := sa h; spos := n |}.

Definition sdump_row (t : sworld) (p : path) : N * bytes * bool * N :=
  match nget (names t) p with
  | Some (EFile i) => (1, iget (inodes t) i, true, N.of_nat (length (iget (inodes t) i)))
  | Some EDir => (2, slisting t p, true, 0)
  | None => (0, [], false, 0)
  end.

(* POSIX rename(2) on the flat map *)
Definition srename (t : sworld) (f g : path) : sworld * out :=
  match f, g with
  | [], _ | _, [] => (t, OErr EINVAL)
  | _, _ =>
    match nget (names t) f with
    | None => (t, OErr ENOENT)
    | Some (EFile i) =>
        if negb (parent_is_dir t g) then (t, OErr ENOENT)
        else match nget (names t) g with
             | Some EDir => (t, OErr EISDIR)
             | _ => if path_eqb f g then (t, OOk)
                    else (set_names t (nset (ndel (names t) f) g (EFile i)), OOk)
             end
    | Some EDir =>
        if negb (parent_is_dir t g) then (t, OErr ENOENT)
        else if is_prefix f g then (t, OErr EINVAL)
        else match nget (names t) g with
             | Some (EFile _) => (t, OErr ENOTDIR)
             | Some EDir =>
                 if path_eqb f g then (t, OOk)
                 else if negb (match children t g with [] => true | _ => false end)
                 then (t, OErr ENOTEMPTY)
                 else (set_names t
                         (map (fun x => if path_eqb (fst x) f || is_prefix f (fst x)
                                        then (reroot f g (fst x), snd x) else x)
                              (ndel (names t) g)), OOk)
             | None =>
                 (set_names t
                    (map (fun x => if path_eqb (fst x) f || is_prefix f (fst x)
                                   then (reroot f g (fst x), snd x) else x) (names t)), OOk)
             end
    end
  end.

Fixpoint smkdir_all (t : sworld) (pre : path) (rest : path) : sworld * out :=
  match rest with
  | [] => (t, OOk)
  | a :: rest' =>
      let p := pre ++ [a] in
      match nget (names t) p with
      | Some EDir => smkdir_all t p rest'
      | Some (EFile _) => (t, OErr EEXIST)
      | None => smkdir_all (set_names t (nset (names t) p EDir)) p rest'
      end
  end.

Definition sstep (t : sworld) (o : op) : sworld * out :=
  let on_handle slot (f : shnd -> sworld * out) : sworld * out :=
    match sget (shs t) slot with None => (t, ONoSlot) | Some h => f h end in
  match o with
  | Open slot p r w a tr c n => sopen t slot p r w a tr c n
  | Close slot =>
      match sget (shs t) slot with
      | None => (t, ONoSlot)
      | Some _ => (set_shs t (sdel (shs t) slot), OOk)
      end
  | WriteAt slot off data _ =>
      on_handle slot (fun h =>
        if negb (sw h) then (t, OErr EBADF)
        else (set_inode t (sino h) (pwrite (iget (inodes t) (sino h)) (N.to_nat off) data),
              ONum (N.of_nat (length data))))
  | ReadAt slot off len =>
      on_handle slot (fun h =>
        if negb (sr h) then (t, OErr EBADF)
        else (t, OBytes (firstn (N.to_nat len) (skipn (N.to_nat off) (iget (inodes t) (sino h))))))
  | Write slot data _ =>
      on_handle slot (fun h =>
        if negb (sw h) then (t, OErr EBADF)
        else
          let c := iget (inodes t) (sino h) in
          let off := if sa h then length c else spos h in
          let t1 := set_inode t (sino h) (pwrite c off data) in
          (set_shs t1 (sset (shs t) slot (sset_pos h (off + length data))),
           ONum (N.of_nat (length data))))
  | Read slot len =>
      on_handle slot (fun h =>
        if negb (sr h) then (t, OErr EBADF)
        else
          let b := firstn (N.to_nat len) (skipn (spos h) (iget (inodes t) (sino h))) in
          (set_shs t (sset (shs t) slot (sset_pos h (spos h + length b))), OBytes b))
  | Seek slot whence off =>
      on_handle slot (fun h =>
        let basepos :=
          if whence =? 0 then 0%Z
          else if whence =? 1 then Z.of_nat (spos h)
          else Z.of_nat (length (iget (inodes t) (sino h))) in
        let np := (basepos + off)%Z in
        if (np <? 0)%Z then (t, OErr EINVAL)
        else (set_shs t (sset (shs t) slot (sset_pos h (Z.to_nat np))), ONum (Z.to_N np)))
  | SetLen slot n _ =>
      on_handle slot (fun h =>
        if negb (sw h) then (t, OErr EBADF)
        else (set_inode t (sino h) (resize (iget (inodes t) (sino h)) (N.to_nat n)), OOk))
  | SyncAll slot | SyncData slot => on_handle slot (fun _ => (t, OOk))
  | FLen slot =>
      on_handle slot (fun h => (t, ONum (N.of_nat (length (iget (inodes t) (sino h))))))
  | SyncDir p =>
      match nget (names t) p with
      | Some EDir => (t, OOk)
      | Some (EFile _) => (t, OErr ENOTDIR)
      | None => (t, OErr ENOENT)
      end
  | Mkdir p =>
      if negb (parent_is_dir t p) then (t, OErr ENOENT)
      else match nget (names t) p with
           | Some _ => (t, OErr EEXIST)
           | None => (set_names t (nset (names t) p EDir), OOk)
           end
  | MkdirAll p => smkdir_all t [] p
  | Rmdir p =>
      match nget (names t) p with
      | None => (t, OErr ENOENT)
      | Some (EFile _) => (t, OErr ENOTDIR)
      | Some EDir =>
          match p with
          | [] => (t, OErr EINVAL)
          | _ => match children t p with
                 | [] => (set_names t (ndel (names t) p), OOk)
                 | _ => (t, OErr ENOTEMPTY)
                 end
          end
      end
  | RmdirAll p =>
      match nget (names t) p with
      | None => (t, OErr ENOENT)
      | Some (EFile _) => (t, OErr ENOTDIR)
      | Some EDir =>
          match p with
          | [] => (t, OErr EINVAL)
          | _ => (set_names t (filter (fun x => negb (path_eqb (fst x) p || is_prefix p (fst x)))
                                      (names t)), OOk)
          end
      end
  | Unlink p =>
      match nget (names t) p with
      | None => (t, OErr ENOENT)
      | Some EDir => (t, OErr EISDIR)
      | Some (EFile _) => (set_names t (ndel (names t) p), OOk)
      end
  | Rename f g => srename t f g
  | Stat p =>
      match nget (names t) p with
      | Some (EFile i) => (t, OFile (N.of_nat (length (iget (inodes t) i))))
      | Some EDir => (t, ODir)
      | None => (t, OErr ENOENT)
      end
  | Exists p => (t, OBool (match nget (names t) p with Some _ => true | None => false end))
  | Readdir p =>
      match nget (names t) p with
      | Some EDir => (t, ONames (slisting t p))
      | Some (EFile _) => (t, OErr ENOTDIR)
      | None => (t, OErr ENOENT)
      end
  | Slurp p =>
      match nget (names t) p with
      | Some (EFile i) => (t, OBytes (iget (inodes t) i))
      | Some EDir => (t, OErr EISDIR)
      | None => (t, OErr ENOENT)
      end
  | Spit p data _ =>
      (* File::create (write, create, truncate) then one pwrite at 0; the handle is dropped *)
      if negb (parent_is_dir t p) then (t, OErr ENOENT)
      else match nget (names t) p with
           | Some EDir => (t, OErr EISDIR)
           | Some (EFile i) => (set_inode t i data, OOk)
           | None =>
               let i := next_ino t in
               ({| names := nset (names t) p (EFile i); inodes := iset (inodes t) i data;
                   next_ino := i + 1; shs := shs t |}, OOk)
           end
  | Dump universe => (t, ODump (map (sdump_row t) universe))
  | Crash _ => (t, OOk)          (* no crash in the plain tree; see FsDurable *)
  | Tick => (t, OOk)
  end.

Fixpoint srun (t : sworld) (l : list op) : sworld * list out :=
  match l with
  | [] => (t, [])
  | o :: l' => let (t1, x) := sstep t o in let (t2, xs) := srun t1 l' in (t2, x :: xs)
  end.

(* comparison of a reference observation with an implementation observation *)
Definition err_ok (spec impl : N) : bool :=
  (spec =? impl) || (((spec =? ENOTDIR) || (spec =? EISDIR)) && (impl =? ENOENT)).

Definition obs_ok (spec impl : out) : Prop :=
  match spec, impl with
  | OErr e, OErr e' => err_ok e e' = true
  | _, _ => spec = impl
  end.

(* several hosts: one independent tree each *)
Definition hsstep (ts : list sworld) (e : nat * op) : list sworld * out :=
  match nth_error ts (fst e) with
  | None => (ts, ONoSlot)
  | Some t => let (t1, x) := sstep t (snd e) in (set_nth ts (fst e) t1, x)
  end.

Fixpoint hsrun (ts : list sworld) (l : list (nat * op)) : list sworld * list out :=
  match l with
  | [] => (ts, [])
  | e :: l' => let (ts1, x) := hsstep ts e in let (ts2, xs) := hsrun ts1 l' in (ts2, x :: xs)
  end.

Definition hsrun_enc (nhosts : nat) (l : list (nat * op)) :=
  map enc_out (snd (hsrun (repeat init_sworld nhosts) l)).
