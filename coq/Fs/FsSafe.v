(* TV.Fs.FsSafe — the known-finding classes of C10 / C07 as decidable predicates
   over operation histories (mirrored literally by gen/fam_fs.py
   [history_features] / [known_class] and listed in known_findings.txt).

   A class is a pattern of the history evaluated against the reference tree
   (FsSpec) as the history unfolds:
     KRootOp           open/spit/unlink/mkdir/rmdir/rename naming "/" itself
     KRenameSelf       rename of a regular file onto its own path
     KRenameFile       rename whose source is a regular file.  This is what the theorems EXCLUDE; the
                       known findings RenameFile / RenameCrossDir (known_findings.txt, decided by
                       gen/fam_fs.py history_features) are narrower: renames of a file with unsynced data,
                       onto a file with unsynced data or a recently removed name, renamed again or written
                       or whose new directory is removed before the rename is flushed; and the three
                       cross-directory patterns.  Renames of data-synced files left alone until a
                       directory sync flushes them are correct on the crate and asserted by the oracle
                       only (the theorems are _partial for them)
     KRenameDir        rename whose source is a directory
     KStaleHandle      use of a handle whose opening path no longer names its inode
     KRecreate         creation of a file at a path where a file was unlinked or
                       renamed (away or onto) earlier since the last crash
   No proofs in this file. *)
From TV.Lib Require Import Base.
From TV.Fs Require Import FsImpl FsSpec.
Open Scope N_scope.

Inductive klass :=
| KRootOp | KRenameSelf | KRenameFile | KRenameDir | KStaleHandle | KRecreate.

Definition klass_eqb (a b : klass) : bool :=
  match a, b with
  | KRootOp, KRootOp | KRenameSelf, KRenameSelf
  | KRenameFile, KRenameFile | KRenameDir, KRenameDir | KStaleHandle, KStaleHandle
  | KRecreate, KRecreate => true
  | _, _ => false
  end.

Definition is_root (p : path) : bool := match p with [] => true | _ => false end.

Definition stale (t : sworld) (slot : N) : bool :=
  match sget (shs t) slot with
  | None => false
  | Some h =>
      match nget (names t) (spath h) with
      | Some (EFile i) => negb (i =? sino h)
      | _ => true
      end
  end.

Definition when (b : bool) (k : klass) : list klass := if b then [k] else [].

(* classes an operation falls into, given the reference tree [t] before it and
   the set [gone] of paths at which a file disappeared since the last crash *)
Definition op_classes (t : sworld) (gone : list path) (o : op) : list klass :=
  match o with
  | Open _ p r w a tr c n =>
      when (is_root p) KRootOp
      ++ when (match nget (names t) p with None => (c || n) && mem_path p gone | _ => false end) KRecreate
  | Spit p _ _ =>
      when (is_root p) KRootOp
      ++ when (match nget (names t) p with None => mem_path p gone | _ => false end) KRecreate
  | Unlink p | Mkdir p | Rmdir p | RmdirAll p => when (is_root p) KRootOp
  | Rename f g =>
      when (is_root f || is_root g) KRootOp
      ++ match nget (names t) f with
         | Some (EFile _) => KRenameFile :: when (path_eqb f g) KRenameSelf
         | Some EDir => [KRenameDir]
         | None => []
         end
  | WriteAt slot _ _ _ | ReadAt slot _ _ | Write slot _ _ | Read slot _ | Seek slot _ _
  | SetLen slot _ _ | SyncAll slot | SyncData slot | FLen slot => when (stale t slot) KStaleHandle
  | _ => []
  end.

(* the spec says the rename succeeds *)
Definition rename_ok (t : sworld) (f g : path) : bool :=
  match snd (srename t f g) with OOk => true | _ => false end.

Definition gone_after (t : sworld) (gone : list path) (o : op) : list path :=
  match o with
  | Unlink p => match nget (names t) p with Some (EFile _) => p :: gone | _ => gone end
  | Rename f g => match nget (names t) f with Some (EFile _) => if rename_ok t f g then f :: gone else gone | _ => gone end
  | Crash _ => []
  | _ => gone
  end.

(* all classes met by a history, run from reference state [t] *)
Fixpoint classes_from (t : sworld) (gone : list path) (l : list op) : list klass :=
  match l with
  | [] => []
  | o :: l' => op_classes t gone o ++ classes_from (fst (sstep t o)) (gone_after t gone o) l'
  end.

Definition classes (l : list op) : list klass := classes_from init_sworld [] l.
Definition in_class (k : klass) (l : list op) : bool := existsb (klass_eqb k) (classes l).
(* the history meets no known class *)
Definition known_free (l : list op) : bool :=
  match classes l with [] => true | _ => false end.

(* the operations covered by the refinement theorem: everything except a crash
   (C07) and the two recursive conveniences create_dir_all / remove_dir_all *)
Definition c10_op (o : op) : bool :=
  match o with Crash _ | MkdirAll _ | RmdirAll _ => false | _ => true end.

(* plain-data rendering of the classes of a multi-host script (correspondence
   cross-check against gen/fam_fs.py history_features) *)
Definition klass_id (k : klass) : N :=
  match k with
  | KRootOp => 1 | KRenameSelf => 2 | KRenameFile => 3
  | KRenameDir => 4 | KStaleHandle => 5 | KRecreate => 6
  end.
Definition host_ops (h : nat) (l : list (nat * op)) : list op :=
  map snd (filter (fun e => Nat.eqb (fst e) h) l).
Definition hclasses_enc (nhosts : nat) (l : list (nat * op)) : list N :=
  flat_map (fun h => map klass_id (classes (host_ops h l))) (seq 0 nhosts).
