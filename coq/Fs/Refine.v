(* TV.Fs.Refine — the simulation between FsImpl and FsSpec on histories that
   meet no known class: invariant, preservation by every operation, and the
   refinement theorem behind C10. *)
From TV.Lib Require Import Base.
From TV.Fs Require Import FsImpl FsSpec FsSafe Facts View.
Open Scope N_scope.

Definition hrel (h : hnd) (sh : shnd) : Prop :=
  hpath h = spath sh /\ hr h = sr sh /\ hw h = sw sh /\ ha h = sa sh /\ hpos h = spos sh.

Definition HRel (hs : list (N * hnd)) (ss : list (N * shnd)) : Prop :=
  forall slot, match hget hs slot, sget ss slot with
               | Some h, Some sh => hrel h sh
               | None, None => True
               | _, _ => False
               end.

Record InvF (s : fs) (t : sworld) (gone : list path) : Prop := {
  inv_rw : RWf s;
  inv_fx : forall p, file_exists s p = is_file t p;
  inv_dx : forall p, dir_exists s p = is_dir t p;
  inv_ct : forall p i, nget (names t) p = Some (EFile i) -> fcontent s (resolve s p) = iget (inodes t) i;
  inv_fresh : forall p, mem_path p gone = false -> file_exists s p = false -> fcontent s p = [];
  inv_rm : forall p, In (PRemoveFile p) (pending s) -> mem_path p gone = true;
  inv_gone : forall p, mem_path p gone = true -> is_file t p = false;
  inv_inj : forall p q i, nget (names t) p = Some (EFile i) -> nget (names t) q = Some (EFile i) -> p = q;
  inv_bound : forall p i, nget (names t) p = Some (EFile i) -> i < next_ino t;
  inv_pc : forall p e, nget (names t) p = Some e -> parent_is_dir t p = true;
  (* pending renames: the old name is gone, the new name is a file or was unlinked again, neither is a directory *)
  inv_rs : forall f r, In (PRename f r) (pending s) -> mem_path f gone = true;
  inv_rt : forall f r, In (PRename f r) (pending s) -> is_file t r = true \/ mem_path r gone = true;
  inv_rd : forall f r, In (PRename f r) (pending s) -> is_dir t f = false /\ is_dir t r = false
}.

Definition Inv (w : world) (t : sworld) (gone : list path) : Prop :=
  InvF (wfs w) t gone /\ HRel (whs w) (shs t).

Lemma obs_ok_refl x : obs_ok x x.
Proof. destruct x; cbn; try reflexivity. unfold err_ok. rewrite N.eqb_refl. reflexivity. Qed.

Lemma is_file_iff t p : is_file t p = true <-> exists i, nget (names t) p = Some (EFile i).
Proof.
  unfold is_file. destruct (nget (names t) p) as [[|i]|]; split; intro H; try discriminate;
    try (destruct H as [j H]; discriminate); eauto.
Qed.
Lemma is_dir_iff t p : is_dir t p = true <-> nget (names t) p = Some EDir.
Proof.
  unfold is_dir. destruct (nget (names t) p) as [[|i]|]; split; intro H; try discriminate; auto.
Qed.
Lemma nget_none_iff t p : nget (names t) p = None <-> is_file t p = false /\ is_dir t p = false.
Proof.
  unfold is_file, is_dir. destruct (nget (names t) p) as [[|i]|]; split; intro H;
    try discriminate; try (destruct H; discriminate); auto.
Qed.

(* ---- the invariant does not look at the handle table -------------------------------------- *)
Lemma InvF_shs s t g l : InvF s t g -> InvF s (set_shs t l) g.
Proof. intros [A B C D E F G H I J K L M]. constructor; auto. Qed.

(* ---- same views, same invariant (sync operations) ------------------------------------------ *)
Lemma not_src_of_file s t g p : InvF s t g -> is_file t p = true -> forall r, ~ In (PRename p r) (pending s).
Proof.
  intros HI Hf r Hin. apply (inv_rs _ _ _ HI) in Hin. apply (inv_gone _ _ _ HI) in Hin. congruence.
Qed.

Lemma not_tgt_fresh s t g p : InvF s t g -> mem_path p g = false -> is_file t p = false ->
  forall f, ~ In (PRename f p) (pending s).
Proof.
  intros HI Hg Hf f Hin. destruct (inv_rt _ _ _ HI f p Hin); congruence.
Qed.

Lemma InvF_sameviews s s' t g :
  InvF s t g -> RWf s' ->
  (forall q, file_exists s' q = file_exists s q) ->
  (forall q, dir_exists s' q = dir_exists s q) ->
  (forall q, ~ In (PRemoveFile q) (pending s) -> (forall r, ~ In (PRename q r) (pending s)) ->
             fcontent s' (resolve s' q) = fcontent s (resolve s q)) ->
  (forall o, In o (pending s') -> In o (pending s)) ->
  InvF s' t g.
Proof.
  intros HI Hnr Hf Hd Hc Hp. pose proof HI as [A B C D E F G H I J K L M].
  assert (Hnorm : forall q, mem_path q g = false -> ~ In (PRemoveFile q) (pending s)).
  { intros q Hq Hin. apply F in Hin. congruence. }
  assert (Hnsrc : forall q, mem_path q g = false -> forall r, ~ In (PRename q r) (pending s)).
  { intros q Hq r Hin. apply K in Hin. congruence. }
  constructor; auto.
  - intro p. rewrite Hf. apply B.
  - intro p. rewrite Hd. apply C.
  - intros p i Hn. assert (Hfp : is_file t p = true) by (apply is_file_iff; eauto).
    assert (Hg : mem_path p g = false) by (destruct (mem_path p g) eqn:E0; [apply G in E0; congruence|reflexivity]).
    rewrite Hc; [apply D; exact Hn|apply Hnorm; exact Hg|apply Hnsrc; exact Hg].
  - intros p Hg Hx. rewrite Hf, B in Hx.
    assert (R1 : resolve s p = p) by (apply resolve_other; eapply not_tgt_fresh; eauto).
    assert (R2 : resolve s' p = p).
    { apply resolve_other. intros f Hin. apply Hp in Hin. revert Hin. eapply not_tgt_fresh; eauto. }
    rewrite <- R2 at 1. rewrite Hc; [|apply Hnorm; exact Hg|apply Hnsrc; exact Hg].
    rewrite R1. apply E; [exact Hg|]. rewrite B. exact Hx.
  - intros f r Hin. apply Hp in Hin. eapply K; eauto.
  - intros f r Hin. apply Hp in Hin. apply (L f r Hin).
Qed.

(* ---- a data operation on an existing file --------------------------------------------------- *)
Lemma InvF_data s s' t g p i c' :
  InvF s t g -> nget (names t) p = Some (EFile i) -> RWf s' ->
  (forall f, ~ In (PRename f p) (pending s)) ->
  (forall q, file_exists s' q = file_exists s q) ->
  (forall q, dir_exists s' q = dir_exists s q) ->
  fcontent s' p = c' ->
  (forall q, q <> p -> fcontent s' q = fcontent s q) ->
  (forall q, In (PRemoveFile q) (pending s') -> In (PRemoveFile q) (pending s)) ->
  (forall f r, In (PRename f r) (pending s') <-> In (PRename f r) (pending s)) ->
  (forall q, resolve s' q = resolve s q) ->
  InvF s' (set_inode t i c') g.
Proof.
  intros HI Hn Hnr Hnt Hf Hd Hcp Hcq Hp Hren Hres. pose proof HI as [A B C D E F G H I J K L M].
  assert (Hfp : is_file t p = true) by (apply is_file_iff; eauto).
  constructor; cbn [names inodes next_ino set_inode]; auto.
  - intro q. rewrite Hf. apply B.
  - intro q. rewrite Hd. apply C.
  - intros q j Hq. rewrite iget_iset, Hres. destruct (N.eqb_spec i j).
    + subst j. assert (q = p) by (eapply H; eauto). subst q. rewrite (resolve_other s p Hnt). exact Hcp.
    + rewrite Hcq; [apply D; exact Hq|]. intro Heq.
      (* resolve s q = p: q = p or p is the source of a pending rename *)
      destruct (tgt_dec (pending s) q) as [[f Hin]|Hno].
      * rewrite (resolve_tgt s f q (rw_nodup s A) Hin) in Heq. subst f.
        eapply (not_src_of_file s t g p HI Hfp). exact Hin.
      * rewrite (resolve_other s q Hno) in Heq. subst q. congruence.
  - intros q Hg Hx. rewrite Hcq; [apply E; auto; rewrite <- Hf; exact Hx|].
    intro Heq. subst q. rewrite Hf, B in Hx. congruence.
  - intros f r Hin. apply Hren in Hin. eapply K; eauto.
  - intros f r Hin. apply Hren in Hin. apply (L f r Hin).
  - intros f r Hin. apply Hren in Hin. apply (M f r Hin).
Qed.

Lemma in_push_ren s o f r : not_rename o = true ->
  (In (PRename f r) (pending (push s o)) <-> In (PRename f r) (pending s)).
Proof.
  intro H. rewrite pending_push, in_app_iff. split; [|auto].
  intros [X|[X|[]]]; [exact X|]. subst o. discriminate.
Qed.

Lemma InvF_push_data s t g p i o c' :
  InvF s t g -> nget (names t) p = Some (EFile i) -> is_data_op p o = true ->
  (forall f, ~ In (PRename f p) (pending s)) ->
  cstep p (iget (inodes t) i) o = c' ->
  InvF (push s o) (set_inode t i c') g.
Proof.
  intros HI Hn Hdo Hnt Hc.
  assert (Hnro : not_rename o = true) by (destruct o; try reflexivity; discriminate).
  assert (Hfp : is_file t p = true) by (apply is_file_iff; eauto).
  assert (Hkey : forall q, q <> p -> on_key q o = false).
  { intros q Hq. destruct o; cbn in *; try discriminate; apply path_eqb_eq in Hdo; subst; apply path_eqb_neq; congruence. }
  eapply InvF_data; eauto.
  - apply RWf_push; [apply HI|exact Hnro|]. intros f r Hin. split.
    + apply Hkey. intro; subst f. eapply (not_src_of_file s t g p HI Hfp). exact Hin.
    + intro Hk. rewrite Hkey in Hk; [discriminate|]. intro; subst r. eapply Hnt. exact Hin.
  - intro q. rewrite file_exists_push. apply (fx_step_data p). exact Hdo.
  - intro q. rewrite dir_exists_push by (destruct o; try exact I; discriminate). apply (dx_step_data p). exact Hdo.
  - rewrite fcontent_push. rewrite <- Hc. f_equal.
    pose proof (inv_ct _ _ _ HI p i Hn) as X. rewrite (resolve_other s p Hnt) in X. exact X.
  - intros q Hq. rewrite fcontent_push. apply (cstep_other_data p); auto.
  - intros q Hin. rewrite pending_push in Hin. apply in_app_iff in Hin as [Hin|[Heq|[]]]; [exact Hin|].
    subst o. discriminate.
  - intros f r. apply in_push_ren. exact Hnro.
  - intro q. apply resolve_push_nr. exact Hnro.
Qed.

Lemma InvF_same_inode s t g i : InvF s t g -> InvF s (set_inode t i (iget (inodes t) i)) g.
Proof.
  intros [A B C D E F G H I J K L M]. constructor; cbn [names inodes next_ino set_inode]; auto.
  intros q j Hq. rewrite iget_iset. destruct (N.eqb_spec i j); [subst; apply D; exact Hq|apply D; exact Hq].
Qed.

(* ---- sync_file / sync_dir --------------------------------------------------------------------- *)
Lemma InvF_sync_file s t g p : InvF s t g -> file_exists s p = true ->
  InvF (fst (sync_file s p)) t g /\ snd (sync_file s p) = None.
Proof.
  intros HI Hex.
  destruct (sync_file_views s p (inv_rw _ _ _ HI) Hex) as (A & B & C & D & E & F & _ & _ & _ & _ & _ & R).
  split; [|exact A].
  eapply InvF_sameviews; eauto.
  - intros q _ _. rewrite R. apply E.
  - intros o Ho. rewrite F in Ho. apply filter_In in Ho. tauto.
Qed.

Lemma InvF_sync_dir s t g d : InvF s t g -> dir_exists s d = true ->
  (forall f r, In (PRename f r) (pending s) -> child_of f d = child_of r d) ->
  InvF (fst (sync_dir s d)) t g /\ snd (sync_dir s d) = None.
Proof.
  intros HI Hex Hsd.
  destruct (sync_dir_views s d (inv_rw _ _ _ HI) Hsd Hex) as (A & B & C & D & E & F & _).
  split; [|exact A].
  eapply InvF_sameviews; eauto.
  intros o Ho. rewrite F in Ho. apply filter_In in Ho. tauto.
Qed.

(* ---- namespace operations ------------------------------------------------------------------------ *)
Lemma parent_exists_inv s t g p : InvF s t g -> parent_exists s p = parent_is_dir t p.
Proof.
  intro HI. unfold parent_exists, parent_is_dir. destruct (parent p); [apply HI|reflexivity].
Qed.

Lemma is_file_nset t p e q :
  is_file (set_names t (nset (names t) p e)) q =
  if path_eqb p q then (match e with EFile _ => true | EDir => false end) else is_file t q.
Proof. unfold is_file. cbn [names set_names]. rewrite nget_nset. destruct (path_eqb p q); [destruct e|]; reflexivity. Qed.
Lemma is_dir_nset t p e q :
  is_dir (set_names t (nset (names t) p e)) q =
  if path_eqb p q then (match e with EFile _ => false | EDir => true end) else is_dir t q.
Proof. unfold is_dir. cbn [names set_names]. rewrite nget_nset. destruct (path_eqb p q); [destruct e|]; reflexivity. Qed.
Lemma is_file_ndel t p q :
  is_file (set_names t (ndel (names t) p)) q = if path_eqb p q then false else is_file t q.
Proof. unfold is_file. cbn [names set_names]. rewrite nget_ndel. destruct (path_eqb p q); reflexivity. Qed.
Lemma is_dir_ndel t p q :
  is_dir (set_names t (ndel (names t) p)) q = if path_eqb p q then false else is_dir t q.
Proof. unfold is_dir. cbn [names set_names]. rewrite nget_ndel. destruct (path_eqb p q); reflexivity. Qed.

(* pushing an operation that is not a rename: the parts of the invariant that only look at the log *)
Lemma RWf_push_key s t g o p : InvF s t g -> not_rename o = true ->
  (forall q, q <> p -> on_key q o = false) ->
  (forall f r, In (PRename f r) (pending s) -> f <> p /\ (r = p -> o = PRemoveFile r)) ->
  RWf (push s o).
Proof.
  intros HI Hnr Hk Hr. apply RWf_push; [apply HI|exact Hnr|]. intros f r Hin. destruct (Hr f r Hin) as [X Y]. split.
  - apply Hk. exact X.
  - intro K. destruct (path_dec r p) as [E|E]; [apply Y; exact E|]. rewrite (Hk r E) in K. discriminate.
Qed.

(* creating a file at a fresh path *)
Lemma InvF_create s t g p :
  InvF s t g -> nget (names t) p = None -> parent_is_dir t p = true -> mem_path p g = false ->
  InvF (push s (CreateFile p))
       {| names := nset (names t) p (EFile (next_ino t)); inodes := iset (inodes t) (next_ino t) [];
          next_ino := next_ino t + 1; shs := shs t |} g.
Proof.
  intros HI Hn Hpar Hg. pose proof HI as [A B C D E F G H I J K L M].
  assert (Hfx : file_exists s p = false) by (rewrite B; apply nget_none_iff; exact Hn).
  assert (Hnf : is_file t p = false) by (apply nget_none_iff; exact Hn).
  assert (Hnt : forall f, ~ In (PRename f p) (pending s)) by (eapply not_tgt_fresh; eauto).
  assert (Hns : forall r, ~ In (PRename p r) (pending s)) by (intros r Hin; apply K in Hin; congruence).
  constructor; cbn [names inodes next_ino].
  - apply (RWf_push_key s t g (CreateFile p) p HI eq_refl).
    + intros q Hq. cbn. apply path_eqb_neq. congruence.
    + intros f r Hin. split; [intro; subst f; eapply Hns; exact Hin|intro; subst r; exfalso; eapply Hnt; exact Hin].
  - intro q. rewrite file_exists_push. cbn [fx_step].
    unfold is_file. cbn [names]. rewrite nget_nset. destruct (path_eqb p q); [reflexivity|apply B].
  - intro q. rewrite dir_exists_push by exact Logic.I. cbn [dx_step].
    unfold is_dir. cbn [names]. rewrite nget_nset. destruct (path_eqb p q) eqn:Epq; [|apply C].
    apply path_eqb_eq in Epq. subst q. rewrite C. apply nget_none_iff. exact Hn.
  - intros q j. rewrite nget_nset, resolve_push_nr by reflexivity. rewrite fcontent_push. cbn [cstep]. rewrite iget_iset.
    destruct (path_eqb p q) eqn:Epq.
    + apply path_eqb_eq in Epq. subst q. intro Hj. inversion Hj; subst j. rewrite N.eqb_refl.
      rewrite (resolve_other s p Hnt). apply E; auto.
    + intro Hq. destruct (N.eqb_spec (next_ino t) j).
      * subst j. apply I in Hq. lia.
      * apply D. exact Hq.
  - intros q Hq. rewrite file_exists_push. cbn [fx_step]. rewrite fcontent_push. cbn [cstep].
    destruct (path_eqb p q); [discriminate|]. apply E. exact Hq.
  - intros q Hin. rewrite pending_push in Hin. apply in_app_iff in Hin as [Hin|[Heq|[]]]; [auto|discriminate].
  - intros q Hq. unfold is_file. cbn [names]. rewrite nget_nset. destruct (path_eqb p q) eqn:Epq.
    + apply path_eqb_eq in Epq. subst q. congruence.
    + apply G. exact Hq.
  - intros q r j. rewrite !nget_nset.
    destruct (path_eqb p q) eqn:E1; destruct (path_eqb p r) eqn:E2; intros H1 H2.
    + apply path_eqb_eq in E1, E2. congruence.
    + inversion H1; subst j. apply I in H2. lia.
    + inversion H2; subst j. apply I in H1. lia.
    + eapply H; eauto.
  - intros q j. rewrite nget_nset. destruct (path_eqb p q).
    + intro Hj. inversion Hj. lia.
    + intro Hq. apply I in Hq. lia.
  - intros q e. rewrite nget_nset. unfold parent_is_dir in *. intro Hq.
    assert (Hq' : parent_is_dir t q = true).
    { destruct (path_eqb p q) eqn:Epq; [apply path_eqb_eq in Epq; subst; exact Hpar|eapply J; exact Hq]. }
    unfold parent_is_dir in Hq'. destruct (parent q) as [r|] eqn:Er; [|reflexivity].
    unfold is_dir in *. cbn [names]. rewrite nget_nset. destruct (path_eqb p r) eqn:Epr; [|exact Hq'].
    apply path_eqb_eq in Epr. subst r. rewrite Hn in Hq'. discriminate.
  - intros f r Hin. apply in_push_ren in Hin; [|reflexivity]. eapply K; eauto.
  - intros f r Hin. apply in_push_ren in Hin; [|reflexivity]. destruct (L f r Hin) as [X|X]; [left|right; exact X].
    unfold is_file in *. cbn [names]. rewrite nget_nset. destruct (path_eqb p r); [reflexivity|exact X].
  - intros f r Hin. apply in_push_ren in Hin; [|reflexivity]. destruct (M f r Hin) as [X Y].
    unfold is_dir in *. cbn [names]. rewrite !nget_nset. split.
    + destruct (path_eqb p f); [reflexivity|exact X].
    + destruct (path_eqb p r); [reflexivity|exact Y].
Qed.

Lemma mem_path_cons q p g : mem_path q (p :: g) = path_eqb q p || mem_path q g.
Proof. reflexivity. Qed.

Lemma InvF_unlink s t g p i :
  InvF s t g -> nget (names t) p = Some (EFile i) ->
  InvF (push s (PRemoveFile p)) (set_names t (ndel (names t) p)) (p :: g).
Proof.
  intros HI Hn. pose proof HI as [A B C D E F G H I J K L M].
  assert (Hfp : is_file t p = true) by (apply is_file_iff; eauto).
  constructor; cbn [names inodes next_ino set_names].
  - apply (RWf_push_key s t g (PRemoveFile p) p HI eq_refl).
    + intros q Hq. cbn. apply path_eqb_neq. congruence.
    + intros f r Hin. split; [intro; subst f; eapply (not_src_of_file s t g p HI Hfp); exact Hin|intro; subst r; reflexivity].
  - intro q. rewrite file_exists_push. cbn [fx_step]. rewrite is_file_ndel.
    destruct (path_eqb p q); [reflexivity|apply B].
  - intro q. rewrite dir_exists_push by exact Logic.I. cbn [dx_step]. rewrite is_dir_ndel.
    destruct (path_eqb p q) eqn:Epq; [|apply C]. apply path_eqb_eq in Epq. subst q.
    rewrite C. unfold is_dir. rewrite Hn. reflexivity.
  - intros q j. rewrite nget_ndel, resolve_push_nr by reflexivity. rewrite fcontent_push. cbn [cstep].
    destruct (path_eqb p q); [discriminate|apply D].
  - intros q Hq. rewrite mem_path_cons in Hq. apply orb_false_iff in Hq as [Hqp Hq].
    rewrite file_exists_push. cbn [fx_step]. rewrite fcontent_push. cbn [cstep].
    rewrite path_eqb_sym, Hqp. apply E. exact Hq.
  - intros q Hin. rewrite pending_push in Hin. rewrite mem_path_cons.
    apply in_app_iff in Hin as [Hin|[Heq|[]]].
    + rewrite (F q Hin). apply orb_true_r.
    + inversion Heq; subst. rewrite path_eqb_refl. reflexivity.
  - intros q Hq. rewrite is_file_ndel. destruct (path_eqb p q) eqn:Epq; [reflexivity|].
    rewrite mem_path_cons, path_eqb_sym, Epq in Hq. apply G. exact Hq.
  - intros q r j. rewrite !nget_ndel. destruct (path_eqb p q); [discriminate|].
    destruct (path_eqb p r); [discriminate|]. apply H.
  - intros q j. rewrite nget_ndel. destruct (path_eqb p q); [discriminate|apply I].
  - intros q e. rewrite nget_ndel. destruct (path_eqb p q) eqn:Epq; [discriminate|]. intro Hq.
    pose proof (J q e Hq) as Hpq. unfold parent_is_dir in *. destruct (parent q) as [r|]; [|reflexivity].
    rewrite is_dir_ndel. destruct (path_eqb p r) eqn:Epr; [|exact Hpq].
    apply path_eqb_eq in Epr. subst r. unfold is_dir in Hpq. rewrite Hn in Hpq. discriminate.
  - intros f r Hin. apply in_push_ren in Hin; [|reflexivity]. rewrite mem_path_cons, (K f r Hin). apply orb_true_r.
  - intros f r Hin. apply in_push_ren in Hin; [|reflexivity]. rewrite is_file_ndel, mem_path_cons.
    destruct (path_eqb p r) eqn:Epr.
    + right. rewrite path_eqb_sym, Epr. reflexivity.
    + destruct (L f r Hin) as [X|X]; [left; exact X|right; rewrite X; apply orb_true_r].
  - intros f r Hin. apply in_push_ren in Hin; [|reflexivity]. destruct (M f r Hin) as [X Y]. rewrite !is_dir_ndel. split.
    + destruct (path_eqb p f); [reflexivity|exact X].
    + destruct (path_eqb p r); [reflexivity|exact Y].
Qed.

(* with renames pending a directory is not created at a name a file left since the last crash *)
Lemma InvF_mkdir s t g p :
  InvF s t g -> nget (names t) p = None -> parent_is_dir t p = true ->
  (forall f r, In (PRename f r) (pending s) -> mem_path p g = false) ->
  InvF (push s (CreateDir p)) (set_names t (nset (names t) p EDir)) g.
Proof.
  intros HI Hn Hpar Hmk. pose proof HI as [A B C D E F G H I J K L M].
  assert (Hnf : is_file t p = false) by (apply nget_none_iff; exact Hn).
  constructor; cbn [names inodes next_ino set_names].
  - apply (RWf_push_key s t g (CreateDir p) p HI eq_refl).
    + intros q Hq. cbn. apply path_eqb_neq. congruence.
    + intros f r Hin. pose proof (Hmk f r Hin) as Hg. split.
      * intro; subst f. apply K in Hin. congruence.
      * intro; subst r. exfalso. eapply (not_tgt_fresh s t g p HI Hg Hnf). exact Hin.
  - intro q. rewrite file_exists_push. cbn [fx_step]. rewrite is_file_nset.
    destruct (path_eqb p q) eqn:Epq; [|apply B]. apply path_eqb_eq in Epq. subst q.
    rewrite B. exact Hnf.
  - intro q. rewrite dir_exists_push by exact Logic.I. cbn [dx_step]. rewrite is_dir_nset.
    destruct (path_eqb p q); [reflexivity|apply C].
  - intros q j. rewrite nget_nset, resolve_push_nr by reflexivity. rewrite fcontent_push. cbn [cstep].
    destruct (path_eqb p q); [discriminate|apply D].
  - intros q Hq. rewrite file_exists_push. cbn [fx_step]. rewrite fcontent_push. apply E. exact Hq.
  - intros q Hin. rewrite pending_push in Hin. apply in_app_iff in Hin as [Hin|[Heq|[]]]; [auto|discriminate].
  - intros q Hq. rewrite is_file_nset. destruct (path_eqb p q); [reflexivity|apply G; exact Hq].
  - intros q r j. rewrite !nget_nset. destruct (path_eqb p q); [discriminate|].
    destruct (path_eqb p r); [discriminate|]. apply H.
  - intros q j. rewrite nget_nset. destruct (path_eqb p q); [discriminate|apply I].
  - intros q e. rewrite nget_nset. intro Hq.
    assert (Hq' : parent_is_dir t q = true).
    { destruct (path_eqb p q) eqn:Epq; [apply path_eqb_eq in Epq; subst; exact Hpar|eapply J; exact Hq]. }
    unfold parent_is_dir in *. destruct (parent q) as [r|]; [|reflexivity].
    rewrite is_dir_nset. destruct (path_eqb p r); [reflexivity|exact Hq'].
  - intros f r Hin. apply in_push_ren in Hin; [|reflexivity]. eapply K; eauto.
  - intros f r Hin. apply in_push_ren in Hin; [|reflexivity]. destruct (L f r Hin) as [X|X]; [left|right; exact X].
    rewrite is_file_nset. destruct (path_eqb p r) eqn:Epr; [|exact X].
    apply path_eqb_eq in Epr. subst r. congruence.
  - intros f r Hin. apply in_push_ren in Hin; [|reflexivity]. pose proof (Hmk f r Hin) as Hg.
    destruct (M f r Hin) as [X Y]. rewrite !is_dir_nset. split.
    + destruct (path_eqb p f) eqn:Epf; [|exact X]. apply path_eqb_eq in Epf. subst f. apply K in Hin. congruence.
    + destruct (path_eqb p r) eqn:Epr; [|exact Y]. apply path_eqb_eq in Epr. subst r. exfalso.
      eapply (not_tgt_fresh s t g p HI Hg Hnf). exact Hin.
Qed.

Lemma nget_In : forall m p e, nget m p = Some e -> In (p, e) m.
Proof.
  induction m as [|[r x] m IH]; intros p e H; cbn in *; [discriminate|].
  destruct (path_eqb r p) eqn:E.
  - apply path_eqb_eq in E. inversion H; subst. left; reflexivity.
  - right. apply IH. exact H.
Qed.
Lemma In_nget : forall m p e, In (p, e) m -> exists e', nget m p = Some e'.
Proof.
  induction m as [|[r x] m IH]; intros p e H; cbn in *; [contradiction|].
  destruct (path_eqb r p) eqn:E; [eauto|].
  destruct H as [H|H]; [inversion H; subst; rewrite path_eqb_refl in E; discriminate|eauto].
Qed.

Lemma in_children t d q : In q (children t d) <-> child_of q d = true /\ nget (names t) q <> None.
Proof.
  unfold children. rewrite in_map_iff. split.
  - intros ([r e] & <- & H). apply filter_In in H as [H Hc]. cbn in *. split; [exact Hc|].
    apply In_nget in H as [e' H]. congruence.
  - intros [Hc Hn]. destruct (nget (names t) q) as [e|] eqn:E; [|congruence].
    exists (q, e). split; [reflexivity|]. apply filter_In. split; [apply nget_In; exact E|exact Hc].
Qed.

Lemma exists_inv s t g q : InvF s t g ->
  (file_exists s q = true \/ dir_exists s q = true) <-> nget (names t) q <> None.
Proof.
  intro HI. rewrite (inv_fx _ _ _ HI), (inv_dx _ _ _ HI). unfold is_file, is_dir.
  destruct (nget (names t) q) as [[|i]|]; split; intro H; try congruence; auto.
  - destruct H; discriminate.
Qed.

Lemma has_children_inv s t g d : InvF s t g ->
  (forall f r, In (PRename f r) (pending s) -> child_of r d = false) ->
  has_children s d = match children t d with [] => false | _ => true end.
Proof.
  intros HI Hrt. pose proof (rw_nd _ (inv_rw _ _ _ HI)) as Hnd. destruct (has_children s d) eqn:Hc.
  - apply (has_children_iff s d Hnd Hrt) in Hc as (q & Hq & Hex).
    apply (exists_inv s t g q HI) in Hex.
    assert (Hin : In q (children t d)) by (apply in_children; auto).
    destruct (children t d); [contradiction|reflexivity].
  - destruct (children t d) as [|q l] eqn:E; [reflexivity|].
    assert (Hin : In q (children t d)) by (rewrite E; left; reflexivity).
    apply in_children in Hin as [Hq Hn]. apply (exists_inv s t g q HI) in Hn.
    assert (has_children s d = true) by (apply has_children_iff; eauto). congruence.
Qed.

Lemma InvF_rmdir s t g p :
  InvF s t g -> nget (names t) p = Some EDir -> children t p = [] ->
  InvF (push s (PRemoveDir p)) (set_names t (ndel (names t) p)) g.
Proof.
  intros HI Hn Hch. pose proof HI as [A B C D E F G H I J K L M].
  assert (Hpd : is_dir t p = true) by (apply is_dir_iff; exact Hn).
  constructor; cbn [names inodes next_ino set_names].
  - apply (RWf_push_key s t g (PRemoveDir p) p HI eq_refl).
    + intros q Hq. cbn. apply path_eqb_neq. congruence.
    + intros f r Hin. destruct (M f r Hin) as [X Y]. split; [intro; subst f; congruence|intro; subst r; congruence].
  - intro q. rewrite file_exists_push. cbn [fx_step]. rewrite is_file_ndel.
    destruct (path_eqb p q) eqn:Epq; [|apply B]. apply path_eqb_eq in Epq. subst q.
    rewrite B. unfold is_file. rewrite Hn. reflexivity.
  - intro q. rewrite dir_exists_push by exact Logic.I. cbn [dx_step]. rewrite is_dir_ndel.
    destruct (path_eqb p q); [reflexivity|apply C].
  - intros q j. rewrite nget_ndel, resolve_push_nr by reflexivity. rewrite fcontent_push. cbn [cstep].
    destruct (path_eqb p q); [discriminate|apply D].
  - intros q Hq. rewrite file_exists_push. cbn [fx_step]. rewrite fcontent_push. apply E. exact Hq.
  - intros q Hin. rewrite pending_push in Hin. apply in_app_iff in Hin as [Hin|[Heq|[]]]; [auto|discriminate].
  - intros q Hq. rewrite is_file_ndel. destruct (path_eqb p q); [reflexivity|apply G; exact Hq].
  - intros q r j. rewrite !nget_ndel. destruct (path_eqb p q); [discriminate|].
    destruct (path_eqb p r); [discriminate|]. apply H.
  - intros q j. rewrite nget_ndel. destruct (path_eqb p q); [discriminate|apply I].
  - intros q e. rewrite nget_ndel. destruct (path_eqb p q) eqn:Epq; [discriminate|]. intro Hq.
    pose proof (J q e Hq) as Hpq. unfold parent_is_dir in *. destruct (parent q) as [r|] eqn:Er; [|reflexivity].
    rewrite is_dir_ndel. destruct (path_eqb p r) eqn:Epr; [|exact Hpq].
    apply path_eqb_eq in Epr. subst r. exfalso.
    assert (Hin : In q (children t p)).
    { apply in_children. split; [|congruence]. unfold child_of. rewrite Er. apply path_eqb_refl. }
    rewrite Hch in Hin. contradiction.
  - intros f r Hin. apply in_push_ren in Hin; [|reflexivity]. eapply K; eauto.
  - intros f r Hin. apply in_push_ren in Hin; [|reflexivity]. destruct (L f r Hin) as [X|X]; [left|right; exact X].
    rewrite is_file_ndel. destruct (path_eqb p r) eqn:Epr; [|exact X].
    apply path_eqb_eq in Epr. subst r. unfold is_file in X. rewrite Hn in X. discriminate.
  - intros f r Hin. apply in_push_ren in Hin; [|reflexivity]. destruct (M f r Hin) as [X Y]. rewrite !is_dir_ndel. split.
    + destruct (path_eqb p f); [reflexivity|exact X].
    + destruct (path_eqb p r); [reflexivity|exact Y].
Qed.

(* ---- handles ------------------------------------------------------------------------------------------ *)
Lemma HRel_cases hs ss slot : HRel hs ss ->
  (hget hs slot = None /\ sget ss slot = None) \/
  (exists h sh, hget hs slot = Some h /\ sget ss slot = Some sh /\ hrel h sh).
Proof.
  intro H. specialize (H slot). destruct (hget hs slot) as [h|], (sget ss slot) as [sh|]; try contradiction.
  - right. eauto.
  - left. auto.
Qed.

Lemma HRel_set hs ss k h sh : HRel hs ss -> hrel h sh -> HRel (hset hs k h) (sset ss k sh).
Proof.
  intros H Hh slot. rewrite hget_hset, sget_sset. destruct (k =? slot); [exact Hh|apply H].
Qed.
Lemma HRel_del hs ss k : HRel hs ss -> HRel (hdel hs k) (sdel ss k).
Proof.
  intros H slot. rewrite hget_hdel, sget_sdel. destruct (k =? slot); [exact I|apply H].
Qed.

Lemma when_nil b k : when b k = [] -> b = false.
Proof. destruct b; [discriminate|reflexivity]. Qed.

Lemma not_stale t slot sh : sget (shs t) slot = Some sh -> stale t slot = false ->
  nget (names t) (spath sh) = Some (EFile (sino sh)).
Proof.
  unfold stale. intros -> H. destruct (nget (names t) (spath sh)) as [[|i]|]; try discriminate.
  apply negb_false_iff in H. apply N.eqb_eq in H. subst. reflexivity.
Qed.

Lemma err_ok_refl e : err_ok e e = true.
Proof. unfold err_ok. rewrite N.eqb_refl. reflexivity. Qed.

(* write_at on a live handle (whose path is not the new name of a pending rename, unless nothing is written) *)
Lemma write_at_refines s t g h sh off data coin :
  InvF s t g -> hrel h sh -> nget (names t) (spath sh) = Some (EFile (sino sh)) -> hw h = true ->
  (data <> [] -> forall f, ~ In (PRename f (spath sh)) (pending s)) ->
  InvF (fst (write_at s h off data coin)) (set_inode t (sino sh) (pwrite (iget (inodes t) (sino sh)) off data)) g /\
  snd (write_at s h off data coin) = inl (length data).
Proof.
  intros HI (Hp & _ & _ & _ & _) Hn Hw Hnt. unfold write_at. rewrite Hw. cbn [negb fst snd]. rewrite Hp.
  split; [|reflexivity].
  set (s1 := match data with [] => s | _ :: _ => push s (PWrite (spath sh) off data) end).
  assert (H1 : InvF s1 (set_inode t (sino sh) (pwrite (iget (inodes t) (sino sh)) off data)) g).
  { unfold s1, pwrite. destruct data as [|b data]; [apply InvF_same_inode; exact HI|].
    eapply InvF_push_data; eauto; [cbn; apply path_eqb_refl|apply Hnt; discriminate|cbn; rewrite path_eqb_refl; reflexivity]. }
  destruct coin; [|exact H1].
  apply InvF_sync_file; [exact H1|].
  rewrite (inv_fx _ _ _ H1). apply is_file_iff. cbn [names set_inode]. eauto.
Qed.

(* ---- what a step must leave alone while renames are pending ------------------------------------------
   (the complement of the known classes RenameFile (e) (f), KindSwap, and - for this development - the
   restriction to renames within one directory) *)
Definition quiet (s : fs) (t : sworld) (g : list path) (o : op) : Prop :=
  match o with
  | Open _ p r w a tr c n =>
      is_file t p = true -> tr && w = true -> n = false -> valid_open r w a tr c n = true ->
      forall f, ~ In (PRename f p) (pending s)
  | Spit p _ _ => is_file t p = true -> forall f, ~ In (PRename f p) (pending s)
  | WriteAt slot _ data _ | Write slot data _ =>
      forall h, sget (shs t) slot = Some h -> sw h = true -> data <> [] -> forall f, ~ In (PRename f (spath h)) (pending s)
  | SetLen slot _ _ =>
      forall h, sget (shs t) slot = Some h -> sw h = true -> forall f, ~ In (PRename f (spath h)) (pending s)
  | Mkdir p => forall f r, In (PRename f r) (pending s) -> mem_path p g = false
  | Rmdir p => forall f r, In (PRename f r) (pending s) -> child_of r p = false
  | SyncDir p => is_dir t p = true -> forall f r, In (PRename f r) (pending s) -> child_of f p = child_of r p
  | _ => True
  end.

Lemma quiet_norename s t g o : norename s -> quiet s t g o.
Proof.
  intro H. assert (X : forall f r, ~ In (PRename f r) (pending s)).
  { intros f r Hin. apply (norename_in s H) in Hin. discriminate. }
  destruct o; cbn; auto; try (intros; intro Hin; eapply X; exact Hin); try (intros f r Hin; exfalso; eapply X; exact Hin).
  intros _ f r Hin. exfalso. eapply X. exact Hin.
Qed.

(* ---- one step ------------------------------------------------------------------------------------------- *)
Definition StepOk (w : world) (t : sworld) (g : list path) (o : op) : Prop :=
  Inv (fst (step w o)) (fst (sstep t o)) (gone_after t g o) /\ obs_ok (snd (sstep t o)) (snd (step w o)).

Lemma valid_trunc_write r w a tr c n : valid_open r w a tr c n = true -> n = false -> tr = true -> w = true.
Proof. unfold valid_open. destruct r, w, a, tr, c, n; cbn; intros; try discriminate; reflexivity. Qed.

Lemma resize_0 c : resize c 0 = [].
Proof. reflexivity. Qed.

Lemma InvF_trunc s t g p i :
  InvF s t g -> nget (names t) p = Some (EFile i) -> (forall f, ~ In (PRename f p) (pending s)) ->
  InvF (push s (PSetLen p 0)) (set_inode t i []) g.
Proof.
  intros HI Hn Hnt. eapply InvF_push_data; eauto; cbn; rewrite path_eqb_refl; reflexivity.
Qed.

Lemma not_tgt_push s o p : not_rename o = true -> (forall f, ~ In (PRename f p) (pending s)) ->
  forall f, ~ In (PRename f p) (pending (push s o)).
Proof. intros Ho H f Hin. apply in_push_ren in Hin; [|exact Ho]. eapply H. exact Hin. Qed.

Lemma step_open s hs t g slot p r w a tr c n :
  InvF s t g -> HRel hs (shs t) -> op_classes t g (Open slot p r w a tr c n) = [] ->
  quiet s t g (Open slot p r w a tr c n) ->
  StepOk (mkWorld s hs) t g (Open slot p r w a tr c n).
Proof.
  intros HF HH Hcl Hqt. cbn [op_classes] in Hcl. cbn [quiet] in Hqt.
  apply app_eq_nil in Hcl as [_ Hrc]. apply when_nil in Hrc.
  assert (Hh0 : HRel (hdel hs slot) (sdel (shs t) slot)) by (apply HRel_del; exact HH).
  unfold StepOk. cbn [step sstep gone_after wfs whs]. unfold sopen, open_file.
  destruct (valid_open r w a tr c n) eqn:Hv; cbn [negb];
    [|cbn [fst snd wfs whs]; split; [split; [apply InvF_shs; exact HF|exact Hh0]|apply err_ok_refl]].
  rewrite (inv_fx _ _ _ HF p).
  destruct (nget (names t) p) as [[|i]|] eqn:En.
  - (* a directory *)
    assert (Hpar : parent_is_dir t p = true) by (eapply inv_pc; eauto).
    rewrite Hpar. cbn [negb].
    assert (Hf : is_file t p = false) by (unfold is_file; rewrite En; reflexivity).
    assert (Hd : dir_exists s p = true) by (rewrite (inv_dx _ _ _ HF); unfold is_dir; rewrite En; reflexivity).
    rewrite Hf, andb_false_r. rewrite Hd.
    destruct (c || n) eqn:Ecn; cbn [fst snd wfs whs].
    + split; [split; [apply InvF_shs; exact HF|exact Hh0]|apply err_ok_refl].
    + split; [split; [apply InvF_shs; exact HF|exact Hh0]|reflexivity].
  - (* an existing file *)
    assert (Hpar : parent_is_dir t p = true) by (eapply inv_pc; eauto).
    rewrite Hpar. cbn [negb].
    assert (Hf : is_file t p = true) by (unfold is_file; rewrite En; reflexivity).
    rewrite Hf, andb_true_r.
    destruct n; cbn [fst snd wfs whs].
    + split; [split; [apply InvF_shs; exact HF|exact Hh0]|apply err_ok_refl].
    + assert (Htw : tr && w = tr).
      { destruct tr; [|reflexivity]. rewrite (valid_trunc_write _ _ _ _ _ _ Hv eq_refl eq_refl). reflexivity. }
      rewrite Htw. split; [|reflexivity]. split.
      * destruct tr.
        -- cbn [wfs]. apply InvF_shs.
           change (InvF (push s (PSetLen p 0)) (set_inode (set_shs t (sdel (shs t) slot)) i []) g).
           apply InvF_trunc; [apply InvF_shs; exact HF|exact En|].
           exact (Hqt Hf Htw eq_refl eq_refl).
        -- cbn [wfs]. apply InvF_shs. apply InvF_shs. exact HF.
      * cbn [whs shs set_shs set_inode]. destruct tr; cbn [shs set_shs set_inode];
          (apply HRel_set; [exact HH|repeat split]).
  - (* nothing there *)
    assert (Hf : is_file t p = false) by (unfold is_file; rewrite En; reflexivity).
    assert (Hd : dir_exists s p = false) by (rewrite (inv_dx _ _ _ HF); unfold is_dir; rewrite En; reflexivity).
    rewrite Hf, andb_false_r, Hd, andb_false_r. rewrite (parent_exists_inv s t g p HF).
    destruct (parent_is_dir t p) eqn:Hpar; cbn [negb].
    + destruct (c || n) eqn:Ecn; cbn [fst snd wfs whs].
      * cbn in Hrc.
        split; [|reflexivity]. split.
        -- pose proof (InvF_create s t g p HF En Hpar Hrc) as HC.
           destruct (tr && w); cbn [wfs].
           ++ set (t1 := {| names := nset (names t) p (EFile (next_ino t));
                            inodes := iset (inodes t) (next_ino t) []; next_ino := next_ino t + 1; shs := shs t |}) in *.
              assert (Hn1 : nget (names t1) p = Some (EFile (next_ino t))) by (cbn [names t1]; rewrite nget_nset, path_eqb_refl; reflexivity).
              assert (Hnt1 : forall f, ~ In (PRename f p) (pending (push s (CreateFile p)))).
              { apply not_tgt_push; [reflexivity|]. eapply not_tgt_fresh; eauto. }
              pose proof (InvF_trunc _ _ _ p (next_ino t) HC Hn1 Hnt1) as HD.
              destruct HD as [A B C0 D E F G H I J K L M]. constructor; auto.
              intros q j Hq. rewrite (D q j Hq). cbn [inodes set_inode t1]. rewrite !iget_iset.
              destruct (next_ino t =? j); reflexivity.
           ++ destruct HC as [A B C0 D E F G H I J K L M]. constructor; auto.
        -- cbn [whs shs]. apply HRel_set; [exact HH|repeat split].
      * split; [split; [apply InvF_shs; exact HF|exact Hh0]|apply err_ok_refl].
    + assert (Hcn : (if c || n then @None fs else None) = None) by (destruct (c || n); reflexivity).
      rewrite Hcn. cbn [fst snd wfs whs].
      split; [split; [apply InvF_shs; exact HF|exact Hh0]|].
      destruct (c || n); apply err_ok_refl.
Qed.

Lemma hrel_pos h sh n : hrel h sh -> hrel (set_pos h n) (sset_pos sh n).
Proof. intros (A & B & C & D & E). repeat split; assumption. Qed.

Lemma InvF_len s t g p i : InvF s t g -> nget (names t) p = Some (EFile i) ->
  file_len s p = length (iget (inodes t) i).
Proof. intros HI Hn. rewrite file_len_res by apply HI. rewrite (inv_ct _ _ _ HI p i Hn). reflexivity. Qed.

Lemma InvF_read s t g p i n off : InvF s t g -> nget (names t) p = Some (EFile i) ->
  read_file s p n off = firstn n (skipn off (iget (inodes t) i)).
Proof. intros HI Hn. rewrite read_file_res by apply HI. rewrite (inv_ct _ _ _ HI p i Hn). reflexivity. Qed.

Ltac noslot HH slot :=
  destruct (HRel_cases _ _ slot HH) as [[Hh Hs]|(h & sh & Hh & Hs & Hrel)];
  [rewrite Hh, Hs; split; [split; assumption|reflexivity]|].

Lemma step_handle_ops s hs t g o :
  InvF s t g -> HRel hs (shs t) -> op_classes t g o = [] -> quiet s t g o ->
  match o with
  | Close _ | WriteAt _ _ _ _ | ReadAt _ _ _ | Write _ _ _ | Read _ _ | Seek _ _ _ | SetLen _ _ _
  | SyncAll _ | SyncData _ | FLen _ => True
  | _ => False
  end ->
  StepOk (mkWorld s hs) t g o.
Proof.
  intros HF HH Hcl Hqt Hop. unfold StepOk.
  destruct o; try contradiction; clear Hop; cbn [op_classes] in Hcl; try apply when_nil in Hcl; cbn [quiet] in Hqt;
    cbn [step sstep gone_after wfs whs fst snd].
  - (* Close *)
    destruct (HRel_cases _ _ slot HH) as [[Hh Hs]|(h & sh & Hh & Hs & Hrel)]; rewrite Hh, Hs; cbn [fst snd wfs whs].
    + split; [split; assumption|reflexivity].
    + split; [split; [apply InvF_shs; exact HF|apply HRel_del; exact HH]|reflexivity].
  - (* WriteAt *)
    noslot HH slot. rewrite Hh, Hs.
    pose proof (not_stale t slot sh Hs Hcl) as Hn.
    pose proof Hrel as (Hp & Hr & Hw & Ha & Hpos). rewrite <- Hw.
    destruct (hw h) eqn:Ehw; cbn [negb].
    + destruct (write_at_refines s t g h sh (N.to_nat off) data coin HF Hrel Hn Ehw (Hqt sh Hs (eq_sym Hw))) as [A B].
      destruct (write_at s h (N.to_nat off) data coin) as [s1 [k|e]]; cbn [fst snd] in *; [|discriminate].
      inversion B; subst k. cbn [fst snd wfs whs with_fs].
      split; [split; [exact A|exact HH]|reflexivity].
    + unfold write_at. rewrite Ehw. cbn [negb fst snd wfs whs with_fs].
      split; [split; assumption|apply err_ok_refl].
  - (* ReadAt *)
    noslot HH slot. rewrite Hh, Hs.
    pose proof (not_stale t slot sh Hs Hcl) as Hn.
    destruct Hrel as (Hp & Hr & Hw & Ha & Hpos). rewrite <- Hr.
    destruct (hr h); cbn [negb fst snd].
    + split; [split; assumption|]. cbn. f_equal. rewrite Hp. symmetry. eapply InvF_read; eauto.
    + split; [split; assumption|apply err_ok_refl].
  - (* Write *)
    noslot HH slot. rewrite Hh, Hs.
    pose proof (not_stale t slot sh Hs Hcl) as Hn.
    pose proof Hrel as (Hp & Hr & Hw & Ha & Hpos). rewrite <- Hw.
    assert (Hoff : (if ha h then file_len s (hpath h) else hpos h) =
                   (if sa sh then length (iget (inodes t) (sino sh)) else spos sh)).
    { rewrite Ha, Hpos, Hp. rewrite (InvF_len s t g _ _ HF Hn). reflexivity. }
    rewrite Hoff. set (off := if sa sh then length (iget (inodes t) (sino sh)) else spos sh).
    destruct (hw h) eqn:Ehw; cbn [negb].
    + destruct (write_at_refines s t g h sh off data coin HF Hrel Hn Ehw (Hqt sh Hs (eq_sym Hw))) as [A B].
      destruct (write_at s h off data coin) as [s1 [k|e]]; cbn [fst snd] in *; [|discriminate].
      inversion B; subst k. cbn [fst snd wfs whs].
      split; [|reflexivity]. split.
      * apply InvF_shs. exact A.
      * cbn [shs set_shs set_inode]. apply HRel_set; [exact HH|apply hrel_pos; exact Hrel].
    + unfold write_at. rewrite Ehw. cbn [negb fst snd wfs whs with_fs].
      split; [split; assumption|apply err_ok_refl].
  - (* Read *)
    noslot HH slot. rewrite Hh, Hs.
    pose proof (not_stale t slot sh Hs Hcl) as Hn.
    pose proof Hrel as (Hp & Hr & Hw & Ha & Hpos). rewrite <- Hr.
    destruct (hr h); cbn [negb fst snd wfs whs].
    + rewrite Hp, Hpos, (InvF_read s t g _ _ _ _ HF Hn).
      split; [|reflexivity]. split; [apply InvF_shs; exact HF|].
      cbn [shs set_shs]. apply HRel_set; [exact HH|]. rewrite <- Hpos. apply hrel_pos. exact Hrel.
    + split; [split; assumption|apply err_ok_refl].
  - (* Seek *)
    noslot HH slot. rewrite Hh, Hs.
    pose proof (not_stale t slot sh Hs Hcl) as Hn.
    pose proof Hrel as (Hp & Hr & Hw & Ha & Hpos).
    rewrite Hpos, Hp, (InvF_len s t g _ _ HF Hn).
    match goal with |- context[(?b + off <? 0)%Z] => destruct (b + off <? 0)%Z end; cbn [fst snd wfs whs].
    + split; [split; assumption|apply err_ok_refl].
    + split; [|reflexivity]. split; [apply InvF_shs; exact HF|].
      cbn [shs set_shs]. apply HRel_set; [exact HH|apply hrel_pos; exact Hrel].
  - (* SetLen *)
    noslot HH slot. rewrite Hh, Hs.
    pose proof (not_stale t slot sh Hs Hcl) as Hn.
    pose proof Hrel as (Hp & Hr & Hw & Ha & Hpos). rewrite <- Hw.
    destruct (hw h) eqn:Ehw; cbn [negb fst snd wfs whs with_fs].
    + pose proof (Hqt sh Hs (eq_sym Hw)) as Hnt.
      split; [|reflexivity]. split; [|exact HH]. rewrite Hp.
      assert (H1 : InvF (push s (PSetLen (spath sh) (N.to_nat n)))
                        (set_inode t (sino sh) (resize (iget (inodes t) (sino sh)) (N.to_nat n))) g).
      { eapply InvF_push_data; eauto; [cbn; apply path_eqb_refl|cbn; rewrite path_eqb_refl; reflexivity]. }
      destruct coin; [|exact H1].
      apply InvF_sync_file; [exact H1|].
      rewrite (inv_fx _ _ _ H1). apply is_file_iff. cbn [names set_inode]. eauto.
    + split; [split; assumption|apply err_ok_refl].
  - (* SyncAll *)
    noslot HH slot. rewrite Hh, Hs.
    pose proof (not_stale t slot sh Hs Hcl) as Hn.
    destruct Hrel as (Hp & _). rewrite Hp.
    assert (Hex : file_exists s (spath sh) = true) by (rewrite (inv_fx _ _ _ HF); apply is_file_iff; eauto).
    destruct (InvF_sync_file s t g _ HF Hex) as [A B]. unfold res. rewrite B. cbn [fst snd wfs whs].
    split; [split; assumption|reflexivity].
  - (* SyncData *)
    noslot HH slot. rewrite Hh, Hs.
    pose proof (not_stale t slot sh Hs Hcl) as Hn.
    destruct Hrel as (Hp & _). rewrite Hp.
    assert (Hex : file_exists s (spath sh) = true) by (rewrite (inv_fx _ _ _ HF); apply is_file_iff; eauto).
    destruct (InvF_sync_file s t g _ HF Hex) as [A B]. unfold res. rewrite B. cbn [fst snd wfs whs].
    split; [split; assumption|reflexivity].
  - (* FLen *)
    noslot HH slot. rewrite Hh, Hs.
    pose proof (not_stale t slot sh Hs Hcl) as Hn.
    destruct Hrel as (Hp & _). rewrite Hp, (InvF_len s t g _ _ HF Hn). cbn [fst snd].
    split; [split; assumption|reflexivity].
Qed.

Lemma listing_inv s t g d : InvF s t g -> listing s d = slisting t d.
Proof.
  intro HI. unfold listing, slisting. apply sort_names_ext. intro x. rewrite !in_map_iff.
  split; intros (q & Hb & Hq); exists q; (split; [exact Hb|]).
  - apply (dir_entries_iff s d q (rw_nd _ (inv_rw _ _ _ HI))) in Hq as [Hc Hex].
    apply in_children. split; [exact Hc|]. apply (exists_inv s t g q HI). exact Hex.
  - apply in_children in Hq as [Hc Hn]. apply (dir_entries_iff s d q (rw_nd _ (inv_rw _ _ _ HI))).
    split; [exact Hc|]. apply (exists_inv s t g q HI). exact Hn.
Qed.

Lemma slurp_inv s t g p i : InvF s t g -> nget (names t) p = Some (EFile i) ->
  read_file s p (file_len s p) 0 = iget (inodes t) i.
Proof.
  intros HI Hn. rewrite (InvF_len s t g p i HI Hn), (InvF_read s t g p i _ _ HI Hn).
  cbn [skipn]. apply firstn_all.
Qed.

Lemma dump_row_inv s t g p : InvF s t g -> dump_row s p = sdump_row t p.
Proof.
  intro HI. unfold dump_row, sdump_row. rewrite (inv_fx _ _ _ HI), (inv_dx _ _ _ HI).
  unfold is_file, is_dir. destruct (nget (names t) p) as [[|i]|] eqn:En; cbn.
  - rewrite (listing_inv s t g p HI). reflexivity.
  - rewrite (slurp_inv s t g p i HI En), (InvF_len s t g p i HI En). reflexivity.
  - reflexivity.
Qed.

Lemma write_bytes_nil0 d : write_bytes [] 0 d = d.
Proof.
  unfold write_bytes. cbn [length Nat.add].
  destruct (Nat.ltb_spec 0 (length d)).
  - cbn [firstn app]. rewrite skipn_all2; [apply app_nil_r|]. rewrite length_resize. lia.
  - destruct d; [reflexivity|cbn in *; lia].
Qed.

Lemma step_path_ops s hs t g o :
  InvF s t g -> HRel hs (shs t) -> op_classes t g o = [] -> quiet s t g o ->
  match o with
  | SyncDir _ | Mkdir _ | Rmdir _ | Unlink _ | Rename _ _ | Stat _ | Exists _ | Readdir _ | Slurp _
  | Dump _ | Tick => True
  | _ => False
  end ->
  StepOk (mkWorld s hs) t g o.
Proof.
  intros HF HH Hcl Hqt Hop. unfold StepOk.
  destruct o; try contradiction; clear Hop; cbn [op_classes] in Hcl; cbn [quiet] in Hqt;
    cbn [step sstep gone_after wfs whs fst snd].
  - (* SyncDir *)
    destruct (nget (names t) p) as [[|i]|] eqn:En.
    + assert (Hd : dir_exists s p = true) by (rewrite (inv_dx _ _ _ HF); apply is_dir_iff; exact En).
      destruct (InvF_sync_dir s t g p HF Hd (Hqt (proj2 (is_dir_iff t p) En))) as [A B]. unfold res. rewrite B. cbn [fst snd wfs whs].
      split; [split; assumption|reflexivity].
    + assert (Hd : dir_exists s p = false) by (rewrite (inv_dx _ _ _ HF); unfold is_dir; rewrite En; reflexivity).
      unfold sync_dir, res. rewrite Hd. cbn [negb fst snd wfs whs].
      split; [split; assumption|reflexivity].
    + assert (Hd : dir_exists s p = false) by (rewrite (inv_dx _ _ _ HF); unfold is_dir; rewrite En; reflexivity).
      unfold sync_dir, res. rewrite Hd. cbn [negb fst snd wfs whs].
      split; [split; assumption|apply err_ok_refl].
  - (* Mkdir *)
    unfold mkdir, res. rewrite (parent_exists_inv s t g p HF).
    destruct (parent_is_dir t p) eqn:Hpar; cbn [negb fst snd wfs whs].
    + rewrite (inv_fx _ _ _ HF), (inv_dx _ _ _ HF). unfold is_dir, is_file.
      destruct (nget (names t) p) as [[|i]|] eqn:En; cbn [orb fst snd wfs whs].
      * split; [split; assumption|apply err_ok_refl].
      * split; [split; assumption|apply err_ok_refl].
      * split; [split; [apply InvF_mkdir; assumption|exact HH]|reflexivity].
    + split; [split; assumption|apply err_ok_refl].
  - (* Rmdir *)
    apply when_nil in Hcl.
    unfold rmdir, res. rewrite (inv_dx _ _ _ HF). unfold is_dir.
    destruct (nget (names t) p) as [[|i]|] eqn:En; cbn [negb fst snd wfs whs].
    + destruct p as [|a p]; [discriminate|].
      rewrite (has_children_inv s t g _ HF Hqt).
      destruct (children t (a :: p)) eqn:Ech; cbn [fst snd wfs whs].
      * split; [split; [apply InvF_rmdir; assumption|exact HH]|reflexivity].
      * split; [split; assumption|apply err_ok_refl].
    + split; [split; assumption|reflexivity].
    + split; [split; assumption|apply err_ok_refl].
  - (* Unlink *)
    unfold unlink, res. rewrite (inv_fx _ _ _ HF). unfold is_file.
    destruct (nget (names t) p) as [[|i]|] eqn:En; cbn [negb fst snd wfs whs].
    + split; [split; assumption|reflexivity].
    + split; [split; [eapply InvF_unlink; eassumption|exact HH]|reflexivity].
    + split; [split; assumption|apply err_ok_refl].
  - (* Rename: outside the known classes the source does not exist *)
    apply app_eq_nil in Hcl as [Hroot Hcl]. apply when_nil in Hroot. apply orb_false_iff in Hroot as [Hrf Hrt].
    destruct (nget (names t) f) as [[|i]|] eqn:En; try discriminate.
    unfold srename. destruct f as [|a f]; [discriminate|]. destruct t0 as [|b t0]; [discriminate|].
    rewrite En. cbn [fst snd].
    assert (Hf : file_exists s (a :: f) = false) by (rewrite (inv_fx _ _ _ HF); unfold is_file; rewrite En; reflexivity).
    assert (Hd : dir_exists s (a :: f) = false) by (rewrite (inv_dx _ _ _ HF); unfold is_dir; rewrite En; reflexivity).
    unfold rename, res. rewrite Hf, Hd.
    destruct (parent_exists s (b :: t0)); cbn [negb fst snd wfs whs];
      (split; [split; assumption|apply err_ok_refl]).
  - (* Stat *)
    rewrite (inv_fx _ _ _ HF), (inv_dx _ _ _ HF). unfold is_file, is_dir.
    destruct (nget (names t) p) as [[|i]|] eqn:En; cbn [fst snd].
    + split; [split; assumption|reflexivity].
    + split; [split; assumption|]. cbn. rewrite (InvF_len s t g p i HF En). reflexivity.
    + split; [split; assumption|apply err_ok_refl].
  - (* Exists *)
    rewrite (inv_fx _ _ _ HF), (inv_dx _ _ _ HF). unfold is_file, is_dir.
    destruct (nget (names t) p) as [[|i]|] eqn:En; cbn [fst snd orb];
      (split; [split; assumption|reflexivity]).
  - (* Readdir *)
    rewrite (inv_dx _ _ _ HF). unfold is_dir.
    destruct (nget (names t) p) as [[|i]|] eqn:En; cbn [fst snd].
    + split; [split; assumption|]. cbn. rewrite (listing_inv s t g p HF). reflexivity.
    + split; [split; assumption|reflexivity].
    + split; [split; assumption|apply err_ok_refl].
  - (* Slurp *)
    unfold slurp. rewrite (inv_fx _ _ _ HF). unfold is_file.
    destruct (nget (names t) p) as [[|i]|] eqn:En; cbn [fst snd].
    + split; [split; assumption|reflexivity].
    + split; [split; assumption|]. cbn. rewrite (slurp_inv s t g p i HF En). reflexivity.
    + split; [split; assumption|apply err_ok_refl].
  - (* Dump *)
    split; [split; assumption|]. cbn. f_equal. apply map_ext. intro p. symmetry. apply (dump_row_inv s t g p HF).
  - (* Tick *)
    split; [split; assumption|reflexivity].
Qed.

Lemma step_spit s hs t g p data coin :
  InvF s t g -> HRel hs (shs t) -> op_classes t g (Spit p data coin) = [] ->
  quiet s t g (Spit p data coin) ->
  StepOk (mkWorld s hs) t g (Spit p data coin).
Proof.
  intros HF HH Hcl Hqt. cbn [op_classes] in Hcl. apply app_eq_nil in Hcl as [_ Hrc]. apply when_nil in Hrc.
  cbn [quiet] in Hqt.
  unfold StepOk. cbn [step sstep gone_after wfs whs]. unfold open_file.
  rewrite (inv_fx _ _ _ HF p). cbn [andb orb].
  (* what the two writes do to an existing (possibly just created) file *)
  assert (Hwr : forall s0 t0 i, InvF s0 t0 g -> nget (names t0) p = Some (EFile i) ->
     (forall f, ~ In (PRename f p) (pending s0)) ->
     InvF (match data with
           | [] => push s0 (PSetLen p 0)
           | _ :: _ => fst (write_at (push s0 (PSetLen p 0))
                              {| hpath := p; hr := false; hw := true; ha := false; hpos := 0 |} 0 data coin)
           end) (set_inode t0 i data) g).
  { intros s0 t0 i H0 Hn0 Hnt0.
    assert (H1 : InvF (push s0 (PSetLen p 0)) (set_inode t0 i []) g) by (apply InvF_trunc; assumption).
    assert (Hnt1 : forall f, ~ In (PRename f p) (pending (push s0 (PSetLen p 0)))) by (apply not_tgt_push; [reflexivity|exact Hnt0]).
    destruct data as [|b data]; [exact H1|].
    set (h := {| hpath := p; hr := false; hw := true; ha := false; hpos := 0 |}).
    set (sh := {| spath := p; sino := i; sr := false; sw := true; sa := false; spos := 0 |}).
    assert (Hn1 : nget (names (set_inode t0 i [])) (spath sh) = Some (EFile (sino sh))) by exact Hn0.
    destruct (write_at_refines _ _ g h sh 0 (b :: data) coin H1 ltac:(repeat split) Hn1 eq_refl (fun _ => Hnt1)) as [A _].
    cbn [sino sh set_inode inodes] in A. rewrite iget_iset, N.eqb_refl in A.
    unfold pwrite in A. rewrite write_bytes_nil0 in A.
    destruct A as [A1 B C D E F G H I J K L M]. constructor; auto.
    intros q j Hq. rewrite (D q j Hq). cbn [inodes set_inode]. rewrite !iget_iset.
    destruct (i =? j); reflexivity. }
  destruct (nget (names t) p) as [[|i]|] eqn:En.
  - (* directory *)
    assert (Hpar : parent_is_dir t p = true) by (eapply inv_pc; eauto).
    assert (Hf : is_file t p = false) by (unfold is_file; rewrite En; reflexivity).
    assert (Hd : dir_exists s p = true) by (rewrite (inv_dx _ _ _ HF); unfold is_dir; rewrite En; reflexivity).
    rewrite Hpar, Hf, Hd. cbn [negb fst snd wfs whs with_fs].
    split; [split; assumption|apply err_ok_refl].
  - (* existing file *)
    assert (Hpar : parent_is_dir t p = true) by (eapply inv_pc; eauto).
    assert (Hf : is_file t p = true) by (unfold is_file; rewrite En; reflexivity).
    rewrite Hpar, Hf. cbn [negb fst snd wfs whs with_fs].
    specialize (Hwr s t i HF En (Hqt Hf)).
    destruct data as [|b data]; cbn [fst snd wfs whs with_fs];
      (split; [split; [exact Hwr|exact HH]|reflexivity]).
  - (* new file *)
    assert (Hf : is_file t p = false) by (unfold is_file; rewrite En; reflexivity).
    assert (Hd : dir_exists s p = false) by (rewrite (inv_dx _ _ _ HF); unfold is_dir; rewrite En; reflexivity).
    rewrite Hf, Hd. rewrite (parent_exists_inv s t g p HF).
    destruct (parent_is_dir t p) eqn:Hpar; cbn [negb fst snd wfs whs with_fs].
    + pose proof (InvF_create s t g p HF En Hpar Hrc) as HC.
      set (t1 := {| names := nset (names t) p (EFile (next_ino t));
                    inodes := iset (inodes t) (next_ino t) []; next_ino := next_ino t + 1; shs := shs t |}) in *.
      assert (Hn1 : nget (names t1) p = Some (EFile (next_ino t))) by (cbn [names t1]; rewrite nget_nset, path_eqb_refl; reflexivity).
      specialize (Hwr _ t1 _ HC Hn1 (not_tgt_push s (CreateFile p) p eq_refl (not_tgt_fresh s t g p HF Hrc Hf))).
      assert (Hfin : InvF (match data with
           | [] => push (push s (CreateFile p)) (PSetLen p 0)
           | _ :: _ => fst (write_at (push (push s (CreateFile p)) (PSetLen p 0))
                              {| hpath := p; hr := false; hw := true; ha := false; hpos := 0 |} 0 data coin)
           end)
           {| names := nset (names t) p (EFile (next_ino t)); inodes := iset (inodes t) (next_ino t) data;
              next_ino := next_ino t + 1; shs := shs t |} g).
      { destruct Hwr as [A1 B C D E F G H I J K L M]. constructor; auto.
        intros q j Hq. rewrite (D q j Hq). cbn [inodes set_inode t1]. rewrite !iget_iset.
        destruct (next_ino t =? j); reflexivity. }
      destruct data as [|b data]; cbn [fst snd wfs whs with_fs];
        (split; [split; [exact Hfin|exact HH]|reflexivity]).
    + split; [split; assumption|apply err_ok_refl].
Qed.

(* ---- the pending renames after a step (no invariant needed) ------------------------------------------ *)
Lemma sync_file_rens s p f r :
  In (PRename f r) (pending (fst (sync_file s p))) <-> In (PRename f r) (pending s).
Proof.
  unfold sync_file. destruct (file_exists s p); cbn [negb fst]; [|reflexivity].
  pose (mark := fun (st : fs) (_ : pop) => st).
  change (fold_left apply_op ?l ?s0) with (fold_left (fun st o => apply_op (mark st o) o) l s0).
  rewrite fold_apply_pending by reflexivity. cbn [pending]. rewrite filter_In. cbn. tauto.
Qed.

Lemma sync_dir_rens s p f r :
  In (PRename f r) (pending (fst (sync_dir s p))) <->
  In (PRename f r) (pending s) /\ (dir_exists s p = true -> child_of f p = false /\ child_of r p = false).
Proof.
  unfold sync_dir. destruct (dir_exists s p); cbn [negb fst].
  - change (fold_left (fun st o => apply_op (set_synced st (mark_synced p (synced st) o)) o) ?l ?s0)
      with (fold_left (fun st o => apply_op (sd_mark p st o) o) l s0).
    rewrite fold_apply_pending by reflexivity. cbn [pending set_pending]. rewrite filter_In. cbn.
    split.
    + intros [A B]. split; [exact A|]. intros _. apply negb_true_iff, orb_false_iff in B. exact B.
    + intros [A B]. split; [exact A|]. destruct (B eq_refl) as [-> ->]. reflexivity.
  - split; [intro H; split; [exact H|discriminate]|tauto].
Qed.

Lemma write_at_rens s h off data coin f r :
  In (PRename f r) (pending (fst (write_at s h off data coin))) <-> In (PRename f r) (pending s).
Proof.
  unfold write_at. destruct (hw h); cbn [negb fst]; [|reflexivity].
  set (s1 := match data with [] => s | _ :: _ => push s (PWrite (hpath h) off data) end).
  assert (H1 : In (PRename f r) (pending s1) <-> In (PRename f r) (pending s)).
  { unfold s1. destruct data; [reflexivity|]. apply in_push_ren. reflexivity. }
  destruct coin; [rewrite sync_file_rens|]; exact H1.
Qed.

Lemma open_file_rens s p r0 w a t c n f r :
  In (PRename f r) (pending (fst (open_file s p r0 w a t c n))) <-> In (PRename f r) (pending s).
Proof.
  unfold open_file. destruct (negb (valid_open r0 w a t c n)); [reflexivity|].
  destruct (n && file_exists s p); [reflexivity|].
  destruct (file_exists s p).
  - destruct (t && w); cbn [fst]; [apply in_push_ren; reflexivity|reflexivity].
  - destruct (c || n); [|reflexivity]. destruct (dir_exists s p); [reflexivity|].
    destruct (parent_exists s p); [|reflexivity].
    destruct (t && w); cbn [fst]; [rewrite in_push_ren by reflexivity|]; apply in_push_ren; reflexivity.
Qed.

Definition rens_after (s : fs) (o : op) (f r : path) : Prop :=
  match o with
  | SyncDir p => In (PRename f r) (pending s) /\ (dir_exists s p = true -> child_of f p = false /\ child_of r p = false)
  | Rename a b => In (PRename f r) (pending s) \/ (PRename f r = PRename a b /\ snd (rename s a b) = None)
  | Crash _ => False
  | _ => In (PRename f r) (pending s)
  end.

Definition plain_op (o : op) : bool := match o with MkdirAll _ | RmdirAll _ => false | _ => true end.

Lemma res_fs r w : wfs (fst (res r w)) = fst r.
Proof. unfold res. destruct (snd r); reflexivity. Qed.

Lemma step_rens w o f r : plain_op o = true ->
  In (PRename f r) (pending (wfs (fst (step w o)))) <-> rens_after (wfs w) o f r.
Proof.
  intro Hp. destruct o; try discriminate; cbn [step rens_after].
  - (* Open *)
    pose proof (open_file_rens (wfs w) p r0 w0 a t c n f r) as H.
    destruct (open_file (wfs w) p r0 w0 a t c n) as [s1 [h|e]]; cbn [fst wfs] in *; exact H.
  - destruct (hget (whs w) slot); reflexivity.
  - (* WriteAt *)
    destruct (hget (whs w) slot) as [h|]; [|reflexivity].
    pose proof (write_at_rens (wfs w) h (N.to_nat off) data coin f r) as H.
    destruct (write_at (wfs w) h (N.to_nat off) data coin) as [s1 [k|e]]; cbn [fst wfs with_fs] in *; exact H.
  - destruct (hget (whs w) slot) as [h|]; [|reflexivity]. destruct (hr h); reflexivity.
  - (* Write *)
    destruct (hget (whs w) slot) as [h|]; [|reflexivity].
    match goal with |- context[write_at ?s0 ?h0 ?o0 ?d0 ?c0] => pose proof (write_at_rens s0 h0 o0 d0 c0 f r) as H;
      destruct (write_at s0 h0 o0 d0 c0) as [s1 [k|e]] end; cbn [fst wfs with_fs] in *; exact H.
  - destruct (hget (whs w) slot) as [h|]; [|reflexivity]. destruct (hr h); reflexivity.
  - destruct (hget (whs w) slot) as [h|]; [|reflexivity].
    match goal with |- context[(?b + off <? 0)%Z] => destruct (b + off <? 0)%Z end; reflexivity.
  - (* SetLen *)
    destruct (hget (whs w) slot) as [h|]; [|reflexivity]. destruct (hw h); cbn [negb fst wfs with_fs]; [|reflexivity].
    destruct coin; [rewrite sync_file_rens|]; apply in_push_ren; reflexivity.
  - destruct (hget (whs w) slot) as [h|]; [|reflexivity]. rewrite res_fs. apply sync_file_rens.
  - destruct (hget (whs w) slot) as [h|]; [|reflexivity]. rewrite res_fs. apply sync_file_rens.
  - destruct (hget (whs w) slot); reflexivity.
  - rewrite res_fs. apply sync_dir_rens.
  - rewrite res_fs. unfold mkdir. destruct (negb (parent_exists (wfs w) p)); [reflexivity|].
    destruct (dir_exists (wfs w) p || file_exists (wfs w) p); [reflexivity|]. apply in_push_ren. reflexivity.
  - rewrite res_fs. unfold rmdir. destruct (negb (dir_exists (wfs w) p)); [reflexivity|].
    destruct (has_children (wfs w) p); [reflexivity|]. apply in_push_ren. reflexivity.
  - rewrite res_fs. unfold unlink. destruct (negb (file_exists (wfs w) p)); [reflexivity|]. apply in_push_ren. reflexivity.
  - (* Rename *)
    rewrite res_fs.
    assert (Hpush : In (PRename f r) (pending (push (wfs w) (PRename f0 t))) <->
                    In (PRename f r) (pending (wfs w)) \/ PRename f r = PRename f0 t).
    { rewrite pending_push, in_app_iff. cbn. split; [intros [X|[X|[]]]; auto|intros [X|X]; auto]. }
    unfold rename. destruct (negb (parent_exists (wfs w) t)); cbn [fst snd]; [split; [auto|intros [X|[_ X]]; [exact X|discriminate]]|].
    destruct (file_exists (wfs w) f0).
    + destruct (dir_exists (wfs w) t); cbn [fst snd]; [split; [auto|intros [X|[_ X]]; [exact X|discriminate]]|].
      rewrite Hpush. split; [intros [X|X]; auto|intros [X|[X _]]; auto].
    + destruct (dir_exists (wfs w) f0); [|cbn [fst snd]; split; [auto|intros [X|[_ X]]; [exact X|discriminate]]].
      destruct (file_exists (wfs w) t); cbn [fst snd]; [split; [auto|intros [X|[_ X]]; [exact X|discriminate]]|].
      destruct (dir_exists (wfs w) t && has_children (wfs w) t); cbn [fst snd]; [split; [auto|intros [X|[_ X]]; [exact X|discriminate]]|].
      rewrite Hpush. split; [intros [X|X]; auto|intros [X|[X _]]; auto].
  - destruct (file_exists (wfs w) p); [reflexivity|]. destruct (dir_exists (wfs w) p); reflexivity.
  - reflexivity.
  - destruct (dir_exists (wfs w) p); reflexivity.
  - reflexivity.
  - (* Spit *)
    pose proof (open_file_rens (wfs w) p false true false true true false f r) as H.
    destruct (open_file (wfs w) p false true false true true false) as [s1 [h|e]] eqn:Eo; cbn [fst wfs with_fs] in *; [|exact H].
    destruct data as [|b data]; cbn [fst wfs with_fs]; [exact H|]. rewrite write_at_rens. exact H.
  - reflexivity.
  - cbn. tauto.
  - reflexivity.
Qed.

(* ---- every operation of the C10 alphabet ----------------------------------------------------------- *)
Lemma step_refines_q w t g o :
  Inv w t g -> c10_op o = true -> op_classes t g o = [] -> quiet (wfs w) t g o -> StepOk w t g o.
Proof.
  intros [HF HH] Hop Hcl Hq. destruct w as [s hs]. cbn [wfs whs] in *.
  destruct o; try discriminate;
    try (apply step_handle_ops; auto; exact I);
    try (apply step_path_ops; auto; exact I).
  - apply step_open; auto.
  - apply step_spit; auto.
Qed.

Lemma norename_of_none s : (forall f r, ~ In (PRename f r) (pending s)) -> norename s.
Proof.
  intro H. apply forallb_forall. intros o Ho. destruct o; try reflexivity. exfalso. eapply H. exact Ho.
Qed.

(* without a pending rename: the classes of FsSafe exclude every successful rename of a file *)
Lemma step_refines w t g o :
  Inv w t g -> norename (wfs w) -> c10_op o = true -> op_classes t g o = [] ->
  StepOk w t g o /\ norename (wfs (fst (step w o))).
Proof.
  intros HI Hnr Hop Hcl. split; [apply step_refines_q; auto; apply quiet_norename; exact Hnr|].
  apply norename_of_none. intros f r Hin.
  assert (Hnone : forall f r, ~ In (PRename f r) (pending (wfs w))).
  { intros f' r' H. apply (norename_in _ Hnr) in H. discriminate. }
  apply step_rens in Hin; [|destruct o; try reflexivity; discriminate].
  destruct o; cbn [rens_after] in Hin; try (eapply Hnone; exact Hin); try discriminate.
  - destruct Hin as [Hin _]. eapply Hnone; exact Hin.
  - destruct Hin as [Hin|[_ Hin]]; [eapply Hnone; exact Hin|].
    destruct HI as [HF _]. cbn [op_classes] in Hcl. apply app_eq_nil in Hcl as [_ Hcl].
    destruct (nget (names t) f0) as [[|i]|] eqn:En; try discriminate.
    assert (Hf : file_exists (wfs w) f0 = false) by (rewrite (inv_fx _ _ _ HF); unfold is_file; rewrite En; reflexivity).
    assert (Hd : dir_exists (wfs w) f0 = false) by (rewrite (inv_dx _ _ _ HF); unfold is_dir; rewrite En; reflexivity).
    unfold rename in Hin. rewrite Hf, Hd in Hin. destruct (negb (parent_exists (wfs w) t0)); discriminate.
Qed.

Lemma Inv_init b : Inv (init_world b) init_sworld [].
Proof.
  split; [|intro slot; exact I]. constructor; cbn.
  - apply RWf_norename. reflexivity.
  - intro p. unfold file_exists, is_file. cbn. destruct p; reflexivity.
  - intro p. unfold dir_exists, is_dir. cbn. destruct p; reflexivity.
  - intros p i. destruct p; discriminate.
  - reflexivity.
  - intros p [].
  - discriminate.
  - intros p q i. destruct p; discriminate.
  - intros p i. destruct p; discriminate.
  - intros p e H. unfold parent_is_dir. destruct p as [|a p]; [reflexivity|discriminate].
  - intros f r [].
  - intros f r [].
  - intros f r [].
Qed.

Lemma run_refines : forall l w t g,
  Inv w t g -> norename (wfs w) -> forallb c10_op l = true -> classes_from t g l = [] ->
  Forall2 obs_ok (snd (srun t l)) (snd (run w l)).
Proof.
  induction l as [|o l IH]; intros w t g HI Hnr Hal Hcl; cbn [srun run].
  - constructor.
  - cbn in Hal. apply andb_true_iff in Hal as [Ho Hal].
    cbn [classes_from] in Hcl. apply app_eq_nil in Hcl as [Hc1 Hc2].
    destruct (step_refines w t g o HI Hnr Ho Hc1) as [[HI' Hobs] Hnr'].
    destruct (sstep t o) as [t1 y] eqn:Es. destruct (step w o) as [w1 x] eqn:Ew. cbn [fst snd] in *.
    specialize (IH w1 t1 _ HI' Hnr' Hal Hc2).
    destruct (srun t1 l) as [t2 ys]. destruct (run w1 l) as [w2 xs]. cbn [fst snd] in *.
    constructor; assumption.
Qed.

Theorem refines_lemma : forall l,
  forallb c10_op l = true -> known_free l = true ->
  Forall2 obs_ok (snd (srun init_sworld l)) (snd (run (init_world 0) l)).
Proof.
  intros l Hal Hk. apply (run_refines l _ _ [] (Inv_init 0) eq_refl Hal).
  unfold known_free, classes in Hk. destruct (classes_from init_sworld [] l); [reflexivity|discriminate].
Qed.

(* ---- a clean rename of a regular file ----------------------------------------------------------------- *)
Lemma InvF_rename s t g f r i :
  InvF s t g -> nget (names t) f = Some (EFile i) -> f <> r -> parent_is_dir t r = true ->
  is_dir t r = false -> mem_path r g = false ->
  ~ In f (rnames (pending s)) -> ~ In r (rnames (pending s)) ->
  (forall o, In o (pending s) -> on_key f o = true -> o = CreateFile f) ->
  (forall o, In o (pending s) -> on_key r o = true -> o = CreateFile r \/ o = CreateDir r \/ o = PRemoveDir r) ->
  mem_path f (pdirs s) = false ->
  InvF (push s (PRename f r)) (set_names t (nset (ndel (names t) f) r (EFile i))) (f :: g).
Proof.
  intros HI Hn Hne Hpar Hrd Hrg Hfn Hrn Kf Kr Hfd. pose proof HI as [A B C D E F G H I J K L M].
  assert (Hff : is_file t f = true) by (apply is_file_iff; eauto).
  assert (Hfe : file_exists s f = true) by (rewrite B; exact Hff).
  assert (Hw' : RWf (push s (PRename f r))).
  { apply RWf_push_rename; auto.
    destruct (file_exists_src s f Hfe) as [X|[X|[f' X]]]; [left; exact X|right; exact X|].
    exfalso. apply Hfn. apply (rnames_in _ _ _ X). }
  assert (Hnew : forall q, nget (nset (ndel (names t) f) r (EFile i)) q =
            if path_eqb r q then Some (EFile i) else if path_eqb f q then None else nget (names t) q).
  { intro q. rewrite nget_nset, nget_ndel. reflexivity. }
  assert (Hdir : forall q, is_dir (set_names t (nset (ndel (names t) f) r (EFile i))) q = is_dir t q).
  { intro q. unfold is_dir. cbn [names set_names]. rewrite Hnew.
    destruct (path_eqb r q) eqn:E1; [apply path_eqb_eq in E1; subst q; unfold is_dir in Hrd; destruct (nget (names t) r) as [[|?]|]; congruence|].
    destruct (path_eqb f q) eqn:E2; [apply path_eqb_eq in E2; subst q; rewrite Hn; reflexivity|reflexivity]. }
  assert (Hfile : forall q, is_file (set_names t (nset (ndel (names t) f) r (EFile i))) q =
            if path_eqb f q then false else if path_eqb r q then true else is_file t q).
  { intro q. unfold is_file. cbn [names set_names]. rewrite Hnew.
    destruct (path_eqb f q) eqn:E2; destruct (path_eqb r q) eqn:E1; try reflexivity.
    apply path_eqb_eq in E1, E2. congruence. }
  constructor; cbn [names inodes next_ino set_names].
  - exact Hw'.
  - intro q. rewrite file_exists_push, Hfile. cbn [fx_step]. rewrite B. reflexivity.
  - intro q. rewrite dir_exists_push by exact Hfd. cbn [dx_step]. rewrite Hdir. apply C.
  - intros q j. rewrite Hnew, resolve_push_ren, fcontent_push. cbn [cstep].
    destruct (path_eqb r q) eqn:E1.
    + intro Hj. inversion Hj; subst j. rewrite (resolve_other s f (not_tgt_of_rnames _ _ Hfn)).
      rewrite <- (resolve_other s f (not_tgt_of_rnames _ _ Hfn)) at 1. apply D. exact Hn.
    + destruct (path_eqb f q) eqn:E2; [discriminate|]. apply D.
  - intros q Hq. rewrite mem_path_cons in Hq. apply orb_false_iff in Hq as [Hqf Hq].
    rewrite file_exists_push, fcontent_push. cbn [fx_step cstep]. rewrite path_eqb_sym, Hqf.
    destruct (path_eqb r q); [discriminate|]. apply E. exact Hq.
  - intros q Hin. rewrite pending_push in Hin. apply in_app_iff in Hin as [Hin|[Heq|[]]]; [|discriminate].
    rewrite mem_path_cons, (F q Hin). apply orb_true_r.
  - intros q Hq. rewrite Hfile. destruct (path_eqb f q) eqn:E2; [reflexivity|].
    rewrite mem_path_cons, path_eqb_sym, E2 in Hq. cbn in Hq.
    destruct (path_eqb r q) eqn:E1; [apply path_eqb_eq in E1; subst q; congruence|apply G; exact Hq].
  - intros p q j. rewrite !Hnew.
    destruct (path_eqb r p) eqn:P1; destruct (path_eqb r q) eqn:Q1.
    + apply path_eqb_eq in P1, Q1. congruence.
    + intros Hj. inversion Hj; subst j. destruct (path_eqb f q) eqn:Q2; [discriminate|]. intro Hq.
      assert (f = q) by (eapply H; eauto). subst q. rewrite path_eqb_refl in Q2. discriminate.
    + intros Hp Hj. inversion Hj; subst j. destruct (path_eqb f p) eqn:P2; [discriminate|].
      assert (f = p) by (eapply H; eauto). subst p. rewrite path_eqb_refl in P2. discriminate.
    + destruct (path_eqb f p); [discriminate|]. destruct (path_eqb f q); [discriminate|]. apply H.
  - intros q j. rewrite Hnew. destruct (path_eqb r q); [intro Hj; inversion Hj; subst; eapply I; eauto|].
    destruct (path_eqb f q); [discriminate|apply I].
  - intros q e. rewrite Hnew. intro Hq.
    assert (Hq' : parent_is_dir t q = true).
    { destruct (path_eqb r q) eqn:E1; [apply path_eqb_eq in E1; subst; exact Hpar|].
      destruct (path_eqb f q); [discriminate|eapply J; exact Hq]. }
    unfold parent_is_dir in *. destruct (parent q); [|reflexivity]. rewrite Hdir. exact Hq'.
  - intros f' r' Hin. rewrite pending_push in Hin. rewrite mem_path_cons.
    apply in_app_iff in Hin as [Hin|[Heq|[]]]; [rewrite (K f' r' Hin); apply orb_true_r|].
    inversion Heq; subst. rewrite path_eqb_refl. reflexivity.
  - intros f' r' Hin. rewrite pending_push in Hin. rewrite Hfile, mem_path_cons.
    apply in_app_iff in Hin as [Hin|[Heq|[]]].
    + destruct (rnames_in _ _ _ Hin) as [_ Y].
      destruct (path_eqb f r') eqn:E2; [apply path_eqb_eq in E2; subst r'; contradiction|].
      destruct (path_eqb r r') eqn:E1; [left; reflexivity|].
      destruct (L f' r' Hin) as [X|X]; [left; exact X|right; rewrite X; apply orb_true_r].
    + inversion Heq; subst f' r'. left. destruct (path_eqb f r) eqn:Efr; [apply path_eqb_eq in Efr; congruence|].
      rewrite path_eqb_refl. reflexivity.
  - intros f' r' Hin. rewrite pending_push in Hin. rewrite !Hdir.
    apply in_app_iff in Hin as [Hin|[Heq|[]]]; [apply (M f' r' Hin)|].
    inversion Heq; subst f' r'. split; [unfold is_dir; rewrite Hn; reflexivity|exact Hrd].
Qed.

Lemma step_rename_file s hs t g f r i :
  InvF s t g -> HRel hs (shs t) -> nget (names t) f = Some (EFile i) -> f <> r ->
  is_root f = false -> is_root r = false ->
  (rename_ok t f r = true ->
     mem_path r g = false /\ ~ In f (rnames (pending s)) /\ ~ In r (rnames (pending s)) /\
     (forall o, In o (pending s) -> on_key f o = true -> o = CreateFile f) /\
     (forall o, In o (pending s) -> on_key r o = true -> o = CreateFile r \/ o = CreateDir r \/ o = PRemoveDir r) /\
     mem_path f (pdirs s) = false) ->
  StepOk (mkWorld s hs) t g (Rename f r).
Proof.
  intros HF HH Hn Hne Hrf Hrr Hok. unfold StepOk. cbn [step sstep gone_after wfs whs fst snd].
  rewrite Hn. unfold rename_ok in *. unfold srename in *.
  destruct f as [|a f]; [discriminate|]. destruct r as [|b r]; [discriminate|]. rewrite Hn in *.
  assert (Hfe : file_exists s (a :: f) = true) by (rewrite (inv_fx _ _ _ HF); apply is_file_iff; eauto).
  unfold rename, res. rewrite (parent_exists_inv s t g _ HF), Hfe, (inv_dx _ _ _ HF).
  destruct (parent_is_dir t (b :: r)) eqn:Hpar; cbn [negb fst snd wfs whs] in *.
  - unfold is_dir. destruct (nget (names t) (b :: r)) as [[|j]|] eqn:Er; cbn [fst snd wfs whs] in *.
    + split; [split; assumption|apply err_ok_refl].
    + destruct (path_eqb (a :: f) (b :: r)) eqn:E; [apply path_eqb_eq in E; congruence|]. cbn [fst snd] in *.
      destruct (Hok eq_refl) as (K1 & K2 & K3 & K4 & K5 & K6).
      split; [split; [|exact HH]|reflexivity].
      apply InvF_rename; auto. unfold is_dir. rewrite Er. reflexivity.
    + destruct (path_eqb (a :: f) (b :: r)) eqn:E; [apply path_eqb_eq in E; congruence|]. cbn [fst snd] in *.
      destruct (Hok eq_refl) as (K1 & K2 & K3 & K4 & K5 & K6).
      split; [split; [|exact HH]|reflexivity].
      apply InvF_rename; auto. unfold is_dir. rewrite Er. reflexivity.
  - split; [split; assumption|apply err_ok_refl].
Qed.
