(* TV.Fs.Refine — the simulation between FsImpl and FsSpec on histories that
   meet no known class: invariant, preservation by every operation, and the
   refinement theorem behind C10. *)
From TV.Lib Require Import Base.
From TV.Fs Require Import FsImpl FsSpec FsSafe Facts View.
Open Scope N_scope.

Definition hrel (h : hnd) (sh : shnd) : Prop :=
  hpath h = spath sh /\ hr h = sr sh /\ hw h = sw sh /\ ha h = sa sh /\ hpos h = spos sh.

Definition HRel (hs : list (N * hnd)) (ss : list (N * shnd)) : Prop :=
  forall slot, match hget hs slot, sget ss slot with
               | Some h, Some sh => hrel h sh
               | None, None => True
               | _, _ => False
               end.

Record InvF (s : fs) (t : sworld) (gone : list path) : Prop := {
  inv_nr : norename s;
  inv_fx : forall p, file_exists s p = is_file t p;
  inv_dx : forall p, dir_exists s p = is_dir t p;
  inv_ct : forall p i, nget (names t) p = Some (EFile i) -> fcontent s p = iget (inodes t) i;
  inv_fresh : forall p, mem_path p gone = false -> file_exists s p = false -> fcontent s p = [];
  inv_rm : forall p, In (PRemoveFile p) (pending s) -> mem_path p gone = true;
  inv_gone : forall p, mem_path p gone = true -> is_file t p = false;
  inv_inj : forall p q i, nget (names t) p = Some (EFile i) -> nget (names t) q = Some (EFile i) -> p = q;
  inv_bound : forall p i, nget (names t) p = Some (EFile i) -> i < next_ino t;
  inv_pc : forall p e, nget (names t) p = Some e -> parent_is_dir t p = true
}.

Definition Inv (w : world) (t : sworld) (gone : list path) : Prop :=
  InvF (wfs w) t gone /\ HRel (whs w) (shs t).

Lemma obs_ok_refl x : obs_ok x x.
Proof. destruct x; cbn; try reflexivity. unfold err_ok. rewrite N.eqb_refl. reflexivity. Qed.

Lemma is_file_iff t p : is_file t p = true <-> exists i, nget (names t) p = Some (EFile i).
Proof.
  unfold is_file. destruct (nget (names t) p) as [[|i]|]; split; intro H; try discriminate;
    try (destruct H as [j H]; discriminate); eauto.
Qed.
Lemma is_dir_iff t p : is_dir t p = true <-> nget (names t) p = Some EDir.
Proof.
  unfold is_dir. destruct (nget (names t) p) as [[|i]|]; split; intro H; try discriminate; auto.
Qed.
Lemma nget_none_iff t p : nget (names t) p = None <-> is_file t p = false /\ is_dir t p = false.
Proof.
  unfold is_file, is_dir. destruct (nget (names t) p) as [[|i]|]; split; intro H;
    try discriminate; try (destruct H; discriminate); auto.
Qed.

(* ---- the invariant does not look at the handle table -------------------------------------- *)
Lemma InvF_shs s t g l : InvF s t g -> InvF s (set_shs t l) g.
Proof. intros [A B C D E F G H I J]. constructor; auto. Qed.

(* ---- same views, same invariant (sync operations) ------------------------------------------ *)
Lemma InvF_sameviews s s' t g :
  InvF s t g -> norename s' ->
  (forall q, file_exists s' q = file_exists s q) ->
  (forall q, dir_exists s' q = dir_exists s q) ->
  (forall q, ~ In (PRemoveFile q) (pending s) -> fcontent s' q = fcontent s q) ->
  (forall o, In o (pending s') -> In o (pending s)) ->
  InvF s' t g.
Proof.
  intros [A B C D E F G H I J] Hnr Hf Hd Hc Hp.
  assert (Hnorm : forall q, mem_path q g = false -> ~ In (PRemoveFile q) (pending s)).
  { intros q Hq Hin. apply F in Hin. congruence. }
  constructor; auto.
  - intro p. rewrite Hf. apply B.
  - intro p. rewrite Hd. apply C.
  - intros p i Hn. rewrite Hc; [apply D; exact Hn|].
    intro Hin. apply F in Hin. apply G in Hin.
    assert (is_file t p = true) by (apply is_file_iff; eauto). congruence.
  - intros p Hg Hx. rewrite Hc by (apply Hnorm; exact Hg). apply E; [exact Hg|]. rewrite <- Hf. exact Hx.
Qed.

(* ---- a data operation on an existing file --------------------------------------------------- *)
Lemma InvF_data s s' t g p i c' :
  InvF s t g -> nget (names t) p = Some (EFile i) -> norename s' ->
  (forall q, file_exists s' q = file_exists s q) ->
  (forall q, dir_exists s' q = dir_exists s q) ->
  fcontent s' p = c' ->
  (forall q, q <> p -> fcontent s' q = fcontent s q) ->
  (forall q, In (PRemoveFile q) (pending s') -> In (PRemoveFile q) (pending s)) ->
  InvF s' (set_inode t i c') g.
Proof.
  intros [A B C D E F G H I J] Hn Hnr Hf Hd Hcp Hcq Hp.
  constructor; cbn [names inodes next_ino set_inode]; auto.
  - intro q. rewrite Hf. apply B.
  - intro q. rewrite Hd. apply C.
  - intros q j Hq. rewrite iget_iset. destruct (N.eqb_spec i j).
    + subst j. assert (q = p) by (eapply H; eauto). subst q. exact Hcp.
    + rewrite Hcq; [apply D; exact Hq|]. intro Heq. subst q. congruence.
  - intros q Hg Hx. rewrite Hcq; [apply E; auto; rewrite <- Hf; exact Hx|].
    intro Heq. subst q. rewrite Hf, B in Hx.
    assert (is_file t p = true) by (apply is_file_iff; eauto). congruence.
Qed.

Lemma InvF_push_data s t g p i o c' :
  InvF s t g -> nget (names t) p = Some (EFile i) -> is_data_op p o = true ->
  cstep p (iget (inodes t) i) o = c' ->
  InvF (push s o) (set_inode t i c') g.
Proof.
  intros HI Hn Hdo Hc.
  assert (Hnro : not_rename o = true) by (destruct o; try reflexivity; discriminate).
  eapply InvF_data; eauto.
  - apply norename_push; [apply HI|exact Hnro].
  - intro q. rewrite file_exists_push by exact Hnro. apply (fx_step_data p). exact Hdo.
  - intro q. rewrite dir_exists_push by exact Hnro. apply (dx_step_data p). exact Hdo.
  - rewrite fcontent_push. rewrite (inv_ct _ _ _ HI p i Hn). exact Hc.
  - intros q Hq. rewrite fcontent_push. apply (cstep_other_data p); auto.
  - intros q Hin. rewrite pending_push in Hin. apply in_app_iff in Hin as [Hin|[Heq|[]]]; [exact Hin|].
    subst o. discriminate.
Qed.

Lemma InvF_same_inode s t g i : InvF s t g -> InvF s (set_inode t i (iget (inodes t) i)) g.
Proof.
  intros [A B C D E F G H I J]. constructor; cbn [names inodes next_ino set_inode]; auto.
  intros q j Hq. rewrite iget_iset. destruct (N.eqb_spec i j); [subst; apply D; exact Hq|apply D; exact Hq].
Qed.

(* ---- sync_file / sync_dir --------------------------------------------------------------------- *)
Lemma InvF_sync_file s t g p : InvF s t g -> file_exists s p = true ->
  InvF (fst (sync_file s p)) t g /\ snd (sync_file s p) = None.
Proof.
  intros HI Hex.
  destruct (sync_file_views s p (inv_nr _ _ _ HI) Hex) as (A & B & C & D & E & F & _).
  split; [|exact A].
  eapply InvF_sameviews; eauto.
  intros o Ho. rewrite F in Ho. apply filter_In in Ho. tauto.
Qed.

Lemma InvF_sync_dir s t g d : InvF s t g -> dir_exists s d = true ->
  InvF (fst (sync_dir s d)) t g /\ snd (sync_dir s d) = None.
Proof.
  intros HI Hex.
  destruct (sync_dir_views s d (inv_nr _ _ _ HI) Hex) as (A & B & C & D & E & F & _).
  split; [|exact A].
  eapply InvF_sameviews; eauto.
  intros o Ho. rewrite F in Ho. apply filter_In in Ho. tauto.
Qed.

(* ---- namespace operations ------------------------------------------------------------------------ *)
Lemma parent_exists_inv s t g p : InvF s t g -> parent_exists s p = parent_is_dir t p.
Proof.
  intro HI. unfold parent_exists, parent_is_dir. destruct (parent p); [apply HI|reflexivity].
Qed.

Lemma is_file_nset t p e q :
  is_file (set_names t (nset (names t) p e)) q =
  if path_eqb p q then (match e with EFile _ => true | EDir => false end) else is_file t q.
Proof. unfold is_file. cbn [names set_names]. rewrite nget_nset. destruct (path_eqb p q); [destruct e|]; reflexivity. Qed.
Lemma is_dir_nset t p e q :
  is_dir (set_names t (nset (names t) p e)) q =
  if path_eqb p q then (match e with EFile _ => false | EDir => true end) else is_dir t q.
Proof. unfold is_dir. cbn [names set_names]. rewrite nget_nset. destruct (path_eqb p q); [destruct e|]; reflexivity. Qed.
Lemma is_file_ndel t p q :
  is_file (set_names t (ndel (names t) p)) q = if path_eqb p q then false else is_file t q.
Proof. unfold is_file. cbn [names set_names]. rewrite nget_ndel. destruct (path_eqb p q); reflexivity. Qed.
Lemma is_dir_ndel t p q :
  is_dir (set_names t (ndel (names t) p)) q = if path_eqb p q then false else is_dir t q.
Proof. unfold is_dir. cbn [names set_names]. rewrite nget_ndel. destruct (path_eqb p q); reflexivity. Qed.

(* creating a file at a fresh path *)
Lemma InvF_create s t g p :
  InvF s t g -> nget (names t) p = None -> parent_is_dir t p = true -> mem_path p g = false ->
  InvF (push s (CreateFile p))
       {| names := nset (names t) p (EFile (next_ino t)); inodes := iset (inodes t) (next_ino t) [];
          next_ino := next_ino t + 1; shs := shs t |} g.
Proof.
  intros HI Hn Hpar Hg. pose proof HI as [A B C D E F G H I J].
  assert (Hfx : file_exists s p = false) by (rewrite B; apply nget_none_iff; exact Hn).
  constructor; cbn [names inodes next_ino].
  - apply norename_push; auto.
  - intro q. rewrite file_exists_push by reflexivity. cbn [fx_step].
    unfold is_file. cbn [names]. rewrite nget_nset. destruct (path_eqb p q); [reflexivity|apply B].
  - intro q. rewrite dir_exists_push by reflexivity. cbn [dx_step].
    unfold is_dir. cbn [names]. rewrite nget_nset. destruct (path_eqb p q) eqn:Epq; [|apply C].
    apply path_eqb_eq in Epq. subst q. rewrite C. apply nget_none_iff. exact Hn.
  - intros q j. rewrite nget_nset, fcontent_push. cbn [cstep]. rewrite iget_iset.
    destruct (path_eqb p q) eqn:Epq.
    + apply path_eqb_eq in Epq. subst q. intro Hj. inversion Hj; subst j. rewrite N.eqb_refl.
      apply E; auto.
    + intro Hq. destruct (N.eqb_spec (next_ino t) j).
      * subst j. apply I in Hq. lia.
      * apply D. exact Hq.
  - intros q Hq. rewrite file_exists_push by reflexivity. cbn [fx_step]. rewrite fcontent_push. cbn [cstep].
    destruct (path_eqb p q); [discriminate|]. apply E. exact Hq.
  - intros q Hin. rewrite pending_push in Hin. apply in_app_iff in Hin as [Hin|[Heq|[]]]; [auto|discriminate].
  - intros q Hq. unfold is_file. cbn [names]. rewrite nget_nset. destruct (path_eqb p q) eqn:Epq.
    + apply path_eqb_eq in Epq. subst q. congruence.
    + apply G. exact Hq.
  - intros q r j. rewrite !nget_nset.
    destruct (path_eqb p q) eqn:E1; destruct (path_eqb p r) eqn:E2; intros H1 H2.
    + apply path_eqb_eq in E1, E2. congruence.
    + inversion H1; subst j. apply I in H2. lia.
    + inversion H2; subst j. apply I in H1. lia.
    + eapply H; eauto.
  - intros q j. rewrite nget_nset. destruct (path_eqb p q).
    + intro Hj. inversion Hj. lia.
    + intro Hq. apply I in Hq. lia.
  - intros q e. rewrite nget_nset. unfold parent_is_dir in *. intro Hq.
    assert (Hq' : parent_is_dir t q = true).
    { destruct (path_eqb p q) eqn:Epq; [apply path_eqb_eq in Epq; subst; exact Hpar|eapply J; exact Hq]. }
    unfold parent_is_dir in Hq'. destruct (parent q) as [r|] eqn:Er; [|reflexivity].
    unfold is_dir in *. cbn [names]. rewrite nget_nset. destruct (path_eqb p r) eqn:Epr; [|exact Hq'].
    apply path_eqb_eq in Epr. subst r. rewrite Hn in Hq'. discriminate.
Qed.

Lemma mem_path_cons q p g : mem_path q (p :: g) = path_eqb q p || mem_path q g.
Proof. reflexivity. Qed.

Lemma InvF_unlink s t g p i :
  InvF s t g -> nget (names t) p = Some (EFile i) ->
  InvF (push s (PRemoveFile p)) (set_names t (ndel (names t) p)) (p :: g).
Proof.
  intros HI Hn. pose proof HI as [A B C D E F G H I J].
  constructor; cbn [names inodes next_ino set_names].
  - apply norename_push; auto.
  - intro q. rewrite file_exists_push by reflexivity. cbn [fx_step]. rewrite is_file_ndel. 
    destruct (path_eqb p q); [reflexivity|apply B].
  - intro q. rewrite dir_exists_push by reflexivity. cbn [dx_step]. rewrite is_dir_ndel.
    destruct (path_eqb p q) eqn:Epq; [|apply C]. apply path_eqb_eq in Epq. subst q.
    rewrite C. unfold is_dir. rewrite Hn. reflexivity.
  - intros q j. rewrite nget_ndel, fcontent_push. cbn [cstep]. destruct (path_eqb p q); [discriminate|apply D].
  - intros q Hq. rewrite mem_path_cons in Hq. apply orb_false_iff in Hq as [Hqp Hq].
    rewrite file_exists_push by reflexivity. cbn [fx_step]. rewrite fcontent_push. cbn [cstep].
    rewrite path_eqb_sym, Hqp. apply E. exact Hq.
  - intros q Hin. rewrite pending_push in Hin. rewrite mem_path_cons.
    apply in_app_iff in Hin as [Hin|[Heq|[]]].
    + rewrite (F q Hin). apply orb_true_r.
    + inversion Heq; subst. rewrite path_eqb_refl. reflexivity.
  - intros q Hq. rewrite is_file_ndel. destruct (path_eqb p q) eqn:Epq; [reflexivity|].
    rewrite mem_path_cons, path_eqb_sym, Epq in Hq. apply G. exact Hq.
  - intros q r j. rewrite !nget_ndel. destruct (path_eqb p q); [discriminate|].
    destruct (path_eqb p r); [discriminate|]. apply H.
  - intros q j. rewrite nget_ndel. destruct (path_eqb p q); [discriminate|apply I].
  - intros q e. rewrite nget_ndel. destruct (path_eqb p q) eqn:Epq; [discriminate|]. intro Hq.
    pose proof (J q e Hq) as Hpq. unfold parent_is_dir in *. destruct (parent q) as [r|]; [|reflexivity].
    rewrite is_dir_ndel. destruct (path_eqb p r) eqn:Epr; [|exact Hpq].
    apply path_eqb_eq in Epr. subst r. unfold is_dir in Hpq. rewrite Hn in Hpq. discriminate.
Qed.

Lemma InvF_mkdir s t g p :
  InvF s t g -> nget (names t) p = None -> parent_is_dir t p = true ->
  InvF (push s (CreateDir p)) (set_names t (nset (names t) p EDir)) g.
Proof.
  intros HI Hn Hpar. pose proof HI as [A B C D E F G H I J].
  constructor; cbn [names inodes next_ino set_names].
  - apply norename_push; auto.
  - intro q. rewrite file_exists_push by reflexivity. cbn [fx_step]. rewrite is_file_nset.
    destruct (path_eqb p q) eqn:Epq; [|apply B]. apply path_eqb_eq in Epq. subst q.
    rewrite B. apply nget_none_iff. exact Hn.
  - intro q. rewrite dir_exists_push by reflexivity. cbn [dx_step]. rewrite is_dir_nset.
    destruct (path_eqb p q); [reflexivity|apply C].
  - intros q j. rewrite nget_nset, fcontent_push. cbn [cstep]. destruct (path_eqb p q); [discriminate|apply D].
  - intros q Hq. rewrite file_exists_push by reflexivity. cbn [fx_step]. rewrite fcontent_push. apply E. exact Hq.
  - intros q Hin. rewrite pending_push in Hin. apply in_app_iff in Hin as [Hin|[Heq|[]]]; [auto|discriminate].
  - intros q Hq. rewrite is_file_nset. destruct (path_eqb p q); [reflexivity|apply G; exact Hq].
  - intros q r j. rewrite !nget_nset. destruct (path_eqb p q); [discriminate|].
    destruct (path_eqb p r); [discriminate|]. apply H.
  - intros q j. rewrite nget_nset. destruct (path_eqb p q); [discriminate|apply I].
  - intros q e. rewrite nget_nset. intro Hq.
    assert (Hq' : parent_is_dir t q = true).
    { destruct (path_eqb p q) eqn:Epq; [apply path_eqb_eq in Epq; subst; exact Hpar|eapply J; exact Hq]. }
    unfold parent_is_dir in *. destruct (parent q) as [r|]; [|reflexivity].
    rewrite is_dir_nset. destruct (path_eqb p r); [reflexivity|exact Hq'].
Qed.

Lemma nget_In : forall m p e, nget m p = Some e -> In (p, e) m.
Proof.
  induction m as [|[r x] m IH]; intros p e H; cbn in *; [discriminate|].
  destruct (path_eqb r p) eqn:E.
  - apply path_eqb_eq in E. inversion H; subst. left; reflexivity.
  - right. apply IH. exact H.
Qed.
Lemma In_nget : forall m p e, In (p, e) m -> exists e', nget m p = Some e'.
Proof.
  induction m as [|[r x] m IH]; intros p e H; cbn in *; [contradiction|].
  destruct (path_eqb r p) eqn:E; [eauto|].
  destruct H as [H|H]; [inversion H; subst; rewrite path_eqb_refl in E; discriminate|eauto].
Qed.

Lemma in_children t d q : In q (children t d) <-> child_of q d = true /\ nget (names t) q <> None.
Proof.
  unfold children. rewrite in_map_iff. split.
  - intros ([r e] & <- & H). apply filter_In in H as [H Hc]. cbn in *. split; [exact Hc|].
    apply In_nget in H as [e' H]. congruence.
  - intros [Hc Hn]. destruct (nget (names t) q) as [e|] eqn:E; [|congruence].
    exists (q, e). split; [reflexivity|]. apply filter_In. split; [apply nget_In; exact E|exact Hc].
Qed.

Lemma exists_inv s t g q : InvF s t g ->
  (file_exists s q = true \/ dir_exists s q = true) <-> nget (names t) q <> None.
Proof.
  intro HI. rewrite (inv_fx _ _ _ HI), (inv_dx _ _ _ HI). unfold is_file, is_dir.
  destruct (nget (names t) q) as [[|i]|]; split; intro H; try congruence; auto.
  - destruct H; discriminate.
Qed.

Lemma has_children_inv s t g d : InvF s t g ->
  has_children s d = match children t d with [] => false | _ => true end.
Proof.
  intro HI. destruct (has_children s d) eqn:Hc.
  - apply (has_children_iff s d (inv_nr _ _ _ HI)) in Hc as (q & Hq & Hex).
    apply (exists_inv s t g q HI) in Hex.
    assert (Hin : In q (children t d)) by (apply in_children; auto).
    destruct (children t d); [contradiction|reflexivity].
  - destruct (children t d) as [|q l] eqn:E; [reflexivity|].
    assert (Hin : In q (children t d)) by (rewrite E; left; reflexivity).
    apply in_children in Hin as [Hq Hn]. apply (exists_inv s t g q HI) in Hn.
    assert (has_children s d = true) by (apply has_children_iff; [apply HI|eauto]). congruence.
Qed.

Lemma InvF_rmdir s t g p :
  InvF s t g -> nget (names t) p = Some EDir -> children t p = [] ->
  InvF (push s (PRemoveDir p)) (set_names t (ndel (names t) p)) g.
Proof.
  intros HI Hn Hch. pose proof HI as [A B C D E F G H I J].
  constructor; cbn [names inodes next_ino set_names].
  - apply norename_push; auto.
  - intro q. rewrite file_exists_push by reflexivity. cbn [fx_step]. rewrite is_file_ndel.
    destruct (path_eqb p q) eqn:Epq; [|apply B]. apply path_eqb_eq in Epq. subst q.
    rewrite B. unfold is_file. rewrite Hn. reflexivity.
  - intro q. rewrite dir_exists_push by reflexivity. cbn [dx_step]. rewrite is_dir_ndel.
    destruct (path_eqb p q); [reflexivity|apply C].
  - intros q j. rewrite nget_ndel, fcontent_push. cbn [cstep]. destruct (path_eqb p q); [discriminate|apply D].
  - intros q Hq. rewrite file_exists_push by reflexivity. cbn [fx_step]. rewrite fcontent_push. apply E. exact Hq.
  - intros q Hin. rewrite pending_push in Hin. apply in_app_iff in Hin as [Hin|[Heq|[]]]; [auto|discriminate].
  - intros q Hq. rewrite is_file_ndel. destruct (path_eqb p q); [reflexivity|apply G; exact Hq].
  - intros q r j. rewrite !nget_ndel. destruct (path_eqb p q); [discriminate|].
    destruct (path_eqb p r); [discriminate|]. apply H.
  - intros q j. rewrite nget_ndel. destruct (path_eqb p q); [discriminate|apply I].
  - intros q e. rewrite nget_ndel. destruct (path_eqb p q) eqn:Epq; [discriminate|]. intro Hq.
    pose proof (J q e Hq) as Hpq. unfold parent_is_dir in *. destruct (parent q) as [r|] eqn:Er; [|reflexivity].
    rewrite is_dir_ndel. destruct (path_eqb p r) eqn:Epr; [|exact Hpq].
    apply path_eqb_eq in Epr. subst r. exfalso.
    assert (Hin : In q (children t p)).
    { apply in_children. split; [|congruence]. unfold child_of. rewrite Er. apply path_eqb_refl. }
    rewrite Hch in Hin. contradiction.
Qed.

(* ---- handles ------------------------------------------------------------------------------------------ *)
Lemma HRel_cases hs ss slot : HRel hs ss ->
  (hget hs slot = None /\ sget ss slot = None) \/
  (exists h sh, hget hs slot = Some h /\ sget ss slot = Some sh /\ hrel h sh).
Proof.
  intro H. specialize (H slot). destruct (hget hs slot) as [h|], (sget ss slot) as [sh|]; try contradiction.
  - right. eauto.
  - left. auto.
Qed.

Lemma HRel_set hs ss k h sh : HRel hs ss -> hrel h sh -> HRel (hset hs k h) (sset ss k sh).
Proof.
  intros H Hh slot. rewrite hget_hset, sget_sset. destruct (k =? slot); [exact Hh|apply H].
Qed.
Lemma HRel_del hs ss k : HRel hs ss -> HRel (hdel hs k) (sdel ss k).
Proof.
  intros H slot. rewrite hget_hdel, sget_sdel. destruct (k =? slot); [exact I|apply H].
Qed.

Lemma when_nil b k : when b k = [] -> b = false.
Proof. destruct b; [discriminate|reflexivity]. Qed.

Lemma not_stale t slot sh : sget (shs t) slot = Some sh -> stale t slot = false ->
  nget (names t) (spath sh) = Some (EFile (sino sh)).
Proof.
  unfold stale. intros -> H. destruct (nget (names t) (spath sh)) as [[|i]|]; try discriminate.
  apply negb_false_iff in H. apply N.eqb_eq in H. subst. reflexivity.
Qed.

Lemma err_ok_refl e : err_ok e e = true.
Proof. unfold err_ok. rewrite N.eqb_refl. reflexivity. Qed.

(* write_at on a live handle *)
Lemma write_at_refines s t g h sh off data coin :
  InvF s t g -> hrel h sh -> nget (names t) (spath sh) = Some (EFile (sino sh)) -> hw h = true ->
  InvF (fst (write_at s h off data coin)) (set_inode t (sino sh) (pwrite (iget (inodes t) (sino sh)) off data)) g /\
  snd (write_at s h off data coin) = inl (length data).
Proof.
  intros HI (Hp & _ & _ & _ & _) Hn Hw. unfold write_at. rewrite Hw. cbn [negb fst snd]. rewrite Hp.
  split; [|reflexivity].
  set (s1 := match data with [] => s | _ :: _ => push s (PWrite (spath sh) off data) end).
  assert (H1 : InvF s1 (set_inode t (sino sh) (pwrite (iget (inodes t) (sino sh)) off data)) g).
  { unfold s1, pwrite. destruct data as [|b data]; [apply InvF_same_inode; exact HI|].
    eapply InvF_push_data; eauto; cbn; rewrite path_eqb_refl; reflexivity. }
  destruct coin; [|exact H1].
  apply InvF_sync_file; [exact H1|].
  rewrite (inv_fx _ _ _ H1). apply is_file_iff. cbn [names set_inode]. eauto.
Qed.

(* ---- one step ------------------------------------------------------------------------------------------- *)
Definition StepOk (w : world) (t : sworld) (g : list path) (o : op) : Prop :=
  Inv (fst (step w o)) (fst (sstep t o)) (gone_after t g o) /\ obs_ok (snd (sstep t o)) (snd (step w o)).

Lemma valid_trunc_write r w a tr c n : valid_open r w a tr c n = true -> n = false -> tr = true -> w = true.
Proof. unfold valid_open. destruct r, w, a, tr, c, n; cbn; intros; try discriminate; reflexivity. Qed.

Lemma resize_0 c : resize c 0 = [].
Proof. reflexivity. Qed.

Lemma step_open s hs t g slot p r w a tr c n :
  InvF s t g -> HRel hs (shs t) -> op_classes t g (Open slot p r w a tr c n) = [] ->
  StepOk (mkWorld s hs) t g (Open slot p r w a tr c n).
Proof.
  intros HF HH Hcl. cbn [op_classes] in Hcl.
  apply app_eq_nil in Hcl as [_ Hrc]. apply when_nil in Hrc.
  assert (Hh0 : HRel (hdel hs slot) (sdel (shs t) slot)) by (apply HRel_del; exact HH).
  unfold StepOk. cbn [step sstep gone_after wfs whs]. unfold sopen, open_file.
  destruct (valid_open r w a tr c n) eqn:Hv; cbn [negb];
    [|cbn [fst snd wfs whs]; split; [split; [apply InvF_shs; exact HF|exact Hh0]|apply err_ok_refl]].
  rewrite (inv_fx _ _ _ HF p).
  destruct (nget (names t) p) as [[|i]|] eqn:En.
  - (* a directory *)
    assert (Hpar : parent_is_dir t p = true) by (eapply inv_pc; eauto).
    rewrite Hpar. cbn [negb].
    assert (Hf : is_file t p = false) by (unfold is_file; rewrite En; reflexivity).
    assert (Hd : dir_exists s p = true) by (rewrite (inv_dx _ _ _ HF); unfold is_dir; rewrite En; reflexivity).
    rewrite Hf, andb_false_r. rewrite Hd.
    destruct (c || n) eqn:Ecn; cbn [fst snd wfs whs].
    + split; [split; [apply InvF_shs; exact HF|exact Hh0]|apply err_ok_refl].
    + split; [split; [apply InvF_shs; exact HF|exact Hh0]|reflexivity].
  - (* an existing file *)
    assert (Hpar : parent_is_dir t p = true) by (eapply inv_pc; eauto).
    rewrite Hpar. cbn [negb].
    assert (Hf : is_file t p = true) by (unfold is_file; rewrite En; reflexivity).
    rewrite Hf, andb_true_r.
    destruct n; cbn [fst snd wfs whs].
    + split; [split; [apply InvF_shs; exact HF|exact Hh0]|apply err_ok_refl].
    + assert (Htw : tr && w = tr).
      { destruct tr; [|reflexivity]. rewrite (valid_trunc_write _ _ _ _ _ _ Hv eq_refl eq_refl). reflexivity. }
      rewrite Htw. split; [|reflexivity]. split.
      * destruct tr.
        -- cbn [wfs]. apply InvF_shs.
           change (InvF (push s (PSetLen p 0)) (set_inode (set_shs t (sdel (shs t) slot)) i []) g).
           eapply (InvF_push_data s (set_shs t (sdel (shs t) slot)) g p i); eauto.
           ++ apply InvF_shs. exact HF.
           ++ cbn. apply path_eqb_refl.
           ++ cbn. rewrite path_eqb_refl. reflexivity.
        -- cbn [wfs]. apply InvF_shs. apply InvF_shs. exact HF.
      * cbn [whs shs set_shs set_inode]. destruct tr; cbn [shs set_shs set_inode];
          (apply HRel_set; [exact HH|repeat split]).
  - (* nothing there *)
    assert (Hf : is_file t p = false) by (unfold is_file; rewrite En; reflexivity).
    assert (Hd : dir_exists s p = false) by (rewrite (inv_dx _ _ _ HF); unfold is_dir; rewrite En; reflexivity).
    rewrite Hf, andb_false_r, Hd, andb_false_r. rewrite (parent_exists_inv s t g p HF).
    destruct (parent_is_dir t p) eqn:Hpar; cbn [negb].
    + destruct (c || n) eqn:Ecn; cbn [fst snd wfs whs].
      * cbn in Hrc.
        split; [|reflexivity]. split.
        -- pose proof (InvF_create s t g p HF En Hpar Hrc) as HC.
           destruct (tr && w); cbn [wfs].
           ++ set (t1 := {| names := nset (names t) p (EFile (next_ino t));
                            inodes := iset (inodes t) (next_ino t) []; next_ino := next_ino t + 1; shs := shs t |}) in *.
              assert (Hn1 : nget (names t1) p = Some (EFile (next_ino t))) by (cbn [names t1]; rewrite nget_nset, path_eqb_refl; reflexivity).
              pose proof (InvF_push_data _ _ _ p (next_ino t) (PSetLen p 0) [] HC Hn1) as HD.
              cbn in HD. rewrite path_eqb_refl in HD. specialize (HD eq_refl eq_refl).
              destruct HD as [A B C0 D E F G H I J]. constructor; auto.
              intros q j Hq. rewrite (D q j Hq). cbn [inodes set_inode t1]. rewrite !iget_iset.
              destruct (next_ino t =? j); reflexivity.
           ++ destruct HC as [A B C0 D E F G H I J]. constructor; auto.
        -- cbn [whs shs]. apply HRel_set; [exact HH|repeat split].
      * split; [split; [apply InvF_shs; exact HF|exact Hh0]|apply err_ok_refl].
    + assert (Hcn : (if c || n then @None fs else None) = None) by (destruct (c || n); reflexivity).
      rewrite Hcn. cbn [fst snd wfs whs].
      split; [split; [apply InvF_shs; exact HF|exact Hh0]|].
      destruct (c || n); apply err_ok_refl.
Qed.

Lemma hrel_pos h sh n : hrel h sh -> hrel (set_pos h n) (sset_pos sh n).
Proof. intros (A & B & C & D & E). repeat split; assumption. Qed.

Lemma InvF_len s t g p i : InvF s t g -> nget (names t) p = Some (EFile i) ->
  file_len s p = length (iget (inodes t) i).
Proof. intros HI Hn. rewrite file_len_nr by apply HI. rewrite (inv_ct _ _ _ HI p i Hn). reflexivity. Qed.

Lemma InvF_read s t g p i n off : InvF s t g -> nget (names t) p = Some (EFile i) ->
  read_file s p n off = firstn n (skipn off (iget (inodes t) i)).
Proof. intros HI Hn. rewrite read_file_nr by apply HI. rewrite (inv_ct _ _ _ HI p i Hn). reflexivity. Qed.

Ltac noslot HH slot :=
  destruct (HRel_cases _ _ slot HH) as [[Hh Hs]|(h & sh & Hh & Hs & Hrel)];
  [rewrite Hh, Hs; split; [split; assumption|reflexivity]|].

Lemma step_handle_ops s hs t g o :
  InvF s t g -> HRel hs (shs t) -> op_classes t g o = [] ->
  match o with
  | Close _ | WriteAt _ _ _ _ | ReadAt _ _ _ | Write _ _ _ | Read _ _ | Seek _ _ _ | SetLen _ _ _
  | SyncAll _ | SyncData _ | FLen _ => True
  | _ => False
  end ->
  StepOk (mkWorld s hs) t g o.
Proof.
  intros HF HH Hcl Hop. unfold StepOk.
  destruct o; try contradiction; clear Hop; cbn [op_classes] in Hcl; try apply when_nil in Hcl;
    cbn [step sstep gone_after wfs whs fst snd].
  - (* Close *)
    destruct (HRel_cases _ _ slot HH) as [[Hh Hs]|(h & sh & Hh & Hs & Hrel)]; rewrite Hh, Hs; cbn [fst snd wfs whs].
    + split; [split; assumption|reflexivity].
    + split; [split; [apply InvF_shs; exact HF|apply HRel_del; exact HH]|reflexivity].
  - (* WriteAt *)
    noslot HH slot. rewrite Hh, Hs.
    pose proof (not_stale t slot sh Hs Hcl) as Hn.
    pose proof Hrel as (Hp & Hr & Hw & Ha & Hpos). rewrite <- Hw.
    destruct (hw h) eqn:Ehw; cbn [negb].
    + destruct (write_at_refines s t g h sh (N.to_nat off) data coin HF Hrel Hn Ehw) as [A B].
      destruct (write_at s h (N.to_nat off) data coin) as [s1 [k|e]]; cbn [fst snd] in *; [|discriminate].
      inversion B; subst k. cbn [fst snd wfs whs with_fs].
      split; [split; [exact A|exact HH]|reflexivity].
    + unfold write_at. rewrite Ehw. cbn [negb fst snd wfs whs with_fs].
      split; [split; assumption|apply err_ok_refl].
  - (* ReadAt *)
    noslot HH slot. rewrite Hh, Hs.
    pose proof (not_stale t slot sh Hs Hcl) as Hn.
    destruct Hrel as (Hp & Hr & Hw & Ha & Hpos). rewrite <- Hr.
    destruct (hr h); cbn [negb fst snd].
    + split; [split; assumption|]. cbn. f_equal. rewrite Hp. symmetry. eapply InvF_read; eauto.
    + split; [split; assumption|apply err_ok_refl].
  - (* Write *)
    noslot HH slot. rewrite Hh, Hs.
    pose proof (not_stale t slot sh Hs Hcl) as Hn.
    pose proof Hrel as (Hp & Hr & Hw & Ha & Hpos). rewrite <- Hw.
    assert (Hoff : (if ha h then file_len s (hpath h) else hpos h) =
                   (if sa sh then length (iget (inodes t) (sino sh)) else spos sh)).
    { rewrite Ha, Hpos, Hp. rewrite (InvF_len s t g _ _ HF Hn). reflexivity. }
    rewrite Hoff. set (off := if sa sh then length (iget (inodes t) (sino sh)) else spos sh).
    destruct (hw h) eqn:Ehw; cbn [negb].
    + destruct (write_at_refines s t g h sh off data coin HF Hrel Hn Ehw) as [A B].
      destruct (write_at s h off data coin) as [s1 [k|e]]; cbn [fst snd] in *; [|discriminate].
      inversion B; subst k. cbn [fst snd wfs whs].
      split; [|reflexivity]. split.
      * apply InvF_shs. exact A.
      * cbn [shs set_shs set_inode]. apply HRel_set; [exact HH|apply hrel_pos; exact Hrel].
    + unfold write_at. rewrite Ehw. cbn [negb fst snd wfs whs with_fs].
      split; [split; assumption|apply err_ok_refl].
  - (* Read *)
    noslot HH slot. rewrite Hh, Hs.
    pose proof (not_stale t slot sh Hs Hcl) as Hn.
    pose proof Hrel as (Hp & Hr & Hw & Ha & Hpos). rewrite <- Hr.
    destruct (hr h); cbn [negb fst snd wfs whs].
    + rewrite Hp, Hpos, (InvF_read s t g _ _ _ _ HF Hn).
      split; [|reflexivity]. split; [apply InvF_shs; exact HF|].
      cbn [shs set_shs]. apply HRel_set; [exact HH|]. rewrite <- Hpos. apply hrel_pos. exact Hrel.
    + split; [split; assumption|apply err_ok_refl].
  - (* Seek *)
    noslot HH slot. rewrite Hh, Hs.
    pose proof (not_stale t slot sh Hs Hcl) as Hn.
    pose proof Hrel as (Hp & Hr & Hw & Ha & Hpos).
    rewrite Hpos, Hp, (InvF_len s t g _ _ HF Hn).
    match goal with |- context[(?b + off <? 0)%Z] => destruct (b + off <? 0)%Z end; cbn [fst snd wfs whs].
    + split; [split; assumption|apply err_ok_refl].
    + split; [|reflexivity]. split; [apply InvF_shs; exact HF|].
      cbn [shs set_shs]. apply HRel_set; [exact HH|apply hrel_pos; exact Hrel].
  - (* SetLen *)
    noslot HH slot. rewrite Hh, Hs.
    pose proof (not_stale t slot sh Hs Hcl) as Hn.
    pose proof Hrel as (Hp & Hr & Hw & Ha & Hpos). rewrite <- Hw.
    destruct (hw h); cbn [negb fst snd wfs whs with_fs].
    + split; [|reflexivity]. split; [|exact HH]. rewrite Hp.
      assert (H1 : InvF (push s (PSetLen (spath sh) (N.to_nat n)))
                        (set_inode t (sino sh) (resize (iget (inodes t) (sino sh)) (N.to_nat n))) g).
      { eapply InvF_push_data; eauto; cbn; rewrite path_eqb_refl; reflexivity. }
      destruct coin; [|exact H1].
      apply InvF_sync_file; [exact H1|].
      rewrite (inv_fx _ _ _ H1). apply is_file_iff. cbn [names set_inode]. eauto.
    + split; [split; assumption|apply err_ok_refl].
  - (* SyncAll *)
    noslot HH slot. rewrite Hh, Hs.
    pose proof (not_stale t slot sh Hs Hcl) as Hn.
    destruct Hrel as (Hp & _). rewrite Hp.
    assert (Hex : file_exists s (spath sh) = true) by (rewrite (inv_fx _ _ _ HF); apply is_file_iff; eauto).
    destruct (InvF_sync_file s t g _ HF Hex) as [A B]. unfold res. rewrite B. cbn [fst snd wfs whs].
    split; [split; assumption|reflexivity].
  - (* SyncData *)
    noslot HH slot. rewrite Hh, Hs.
    pose proof (not_stale t slot sh Hs Hcl) as Hn.
    destruct Hrel as (Hp & _). rewrite Hp.
    assert (Hex : file_exists s (spath sh) = true) by (rewrite (inv_fx _ _ _ HF); apply is_file_iff; eauto).
    destruct (InvF_sync_file s t g _ HF Hex) as [A B]. unfold res. rewrite B. cbn [fst snd wfs whs].
    split; [split; assumption|reflexivity].
  - (* FLen *)
    noslot HH slot. rewrite Hh, Hs.
    pose proof (not_stale t slot sh Hs Hcl) as Hn.
    destruct Hrel as (Hp & _). rewrite Hp, (InvF_len s t g _ _ HF Hn). cbn [fst snd].
    split; [split; assumption|reflexivity].
Qed.

Lemma listing_inv s t g d : InvF s t g -> listing s d = slisting t d.
Proof.
  intro HI. unfold listing, slisting. apply sort_names_ext. intro x. rewrite !in_map_iff.
  split; intros (q & Hb & Hq); exists q; (split; [exact Hb|]).
  - apply (dir_entries_iff s d q (inv_nr _ _ _ HI)) in Hq as [Hc Hex].
    apply in_children. split; [exact Hc|]. apply (exists_inv s t g q HI). exact Hex.
  - apply in_children in Hq as [Hc Hn]. apply (dir_entries_iff s d q (inv_nr _ _ _ HI)).
    split; [exact Hc|]. apply (exists_inv s t g q HI). exact Hn.
Qed.

Lemma slurp_inv s t g p i : InvF s t g -> nget (names t) p = Some (EFile i) ->
  read_file s p (file_len s p) 0 = iget (inodes t) i.
Proof.
  intros HI Hn. rewrite (InvF_len s t g p i HI Hn), (InvF_read s t g p i _ _ HI Hn).
  cbn [skipn]. apply firstn_all.
Qed.

Lemma dump_row_inv s t g p : InvF s t g -> dump_row s p = sdump_row t p.
Proof.
  intro HI. unfold dump_row, sdump_row. rewrite (inv_fx _ _ _ HI), (inv_dx _ _ _ HI).
  unfold is_file, is_dir. destruct (nget (names t) p) as [[|i]|] eqn:En; cbn.
  - rewrite (listing_inv s t g p HI). reflexivity.
  - rewrite (slurp_inv s t g p i HI En), (InvF_len s t g p i HI En). reflexivity.
  - reflexivity.
Qed.

Lemma write_bytes_nil0 d : write_bytes [] 0 d = d.
Proof.
  unfold write_bytes. cbn [length Nat.add].
  destruct (Nat.ltb_spec 0 (length d)).
  - cbn [firstn app]. rewrite skipn_all2; [apply app_nil_r|]. rewrite length_resize. lia.
  - destruct d; [reflexivity|cbn in *; lia].
Qed.

Lemma step_path_ops s hs t g o :
  InvF s t g -> HRel hs (shs t) -> op_classes t g o = [] ->
  match o with
  | SyncDir _ | Mkdir _ | Rmdir _ | Unlink _ | Rename _ _ | Stat _ | Exists _ | Readdir _ | Slurp _
  | Dump _ | Tick => True
  | _ => False
  end ->
  StepOk (mkWorld s hs) t g o.
Proof.
  intros HF HH Hcl Hop. unfold StepOk.
  destruct o; try contradiction; clear Hop; cbn [op_classes] in Hcl;
    cbn [step sstep gone_after wfs whs fst snd].
  - (* SyncDir *)
    destruct (nget (names t) p) as [[|i]|] eqn:En.
    + assert (Hd : dir_exists s p = true) by (rewrite (inv_dx _ _ _ HF); apply is_dir_iff; exact En).
      destruct (InvF_sync_dir s t g p HF Hd) as [A B]. unfold res. rewrite B. cbn [fst snd wfs whs].
      split; [split; assumption|reflexivity].
    + assert (Hd : dir_exists s p = false) by (rewrite (inv_dx _ _ _ HF); unfold is_dir; rewrite En; reflexivity).
      unfold sync_dir, res. rewrite Hd. cbn [negb fst snd wfs whs].
      split; [split; assumption|reflexivity].
    + assert (Hd : dir_exists s p = false) by (rewrite (inv_dx _ _ _ HF); unfold is_dir; rewrite En; reflexivity).
      unfold sync_dir, res. rewrite Hd. cbn [negb fst snd wfs whs].
      split; [split; assumption|apply err_ok_refl].
  - (* Mkdir *)
    unfold mkdir, res. rewrite (parent_exists_inv s t g p HF).
    destruct (parent_is_dir t p) eqn:Hpar; cbn [negb fst snd wfs whs].
    + rewrite (inv_fx _ _ _ HF), (inv_dx _ _ _ HF). unfold is_dir, is_file.
      destruct (nget (names t) p) as [[|i]|] eqn:En; cbn [orb fst snd wfs whs].
      * split; [split; assumption|apply err_ok_refl].
      * split; [split; assumption|apply err_ok_refl].
      * split; [split; [apply InvF_mkdir; assumption|exact HH]|reflexivity].
    + split; [split; assumption|apply err_ok_refl].
  - (* Rmdir *)
    apply when_nil in Hcl.
    unfold rmdir, res. rewrite (inv_dx _ _ _ HF). unfold is_dir.
    destruct (nget (names t) p) as [[|i]|] eqn:En; cbn [negb fst snd wfs whs].
    + destruct p as [|a p]; [discriminate|].
      rewrite (has_children_inv s t g _ HF).
      destruct (children t (a :: p)) eqn:Ech; cbn [fst snd wfs whs].
      * split; [split; [apply InvF_rmdir; assumption|exact HH]|reflexivity].
      * split; [split; assumption|apply err_ok_refl].
    + split; [split; assumption|reflexivity].
    + split; [split; assumption|apply err_ok_refl].
  - (* Unlink *)
    unfold unlink, res. rewrite (inv_fx _ _ _ HF). unfold is_file.
    destruct (nget (names t) p) as [[|i]|] eqn:En; cbn [negb fst snd wfs whs].
    + split; [split; assumption|reflexivity].
    + split; [split; [eapply InvF_unlink; eassumption|exact HH]|reflexivity].
    + split; [split; assumption|apply err_ok_refl].
  - (* Rename: outside the known classes the source does not exist *)
    apply app_eq_nil in Hcl as [Hroot Hcl]. apply when_nil in Hroot. apply orb_false_iff in Hroot as [Hrf Hrt].
    destruct (nget (names t) f) as [[|i]|] eqn:En; try discriminate.
    unfold srename. destruct f as [|a f]; [discriminate|]. destruct t0 as [|b t0]; [discriminate|].
    rewrite En. cbn [fst snd].
    assert (Hf : file_exists s (a :: f) = false) by (rewrite (inv_fx _ _ _ HF); unfold is_file; rewrite En; reflexivity).
    assert (Hd : dir_exists s (a :: f) = false) by (rewrite (inv_dx _ _ _ HF); unfold is_dir; rewrite En; reflexivity).
    unfold rename, res. rewrite Hf, Hd.
    destruct (parent_exists s (b :: t0)); cbn [negb fst snd wfs whs];
      (split; [split; assumption|apply err_ok_refl]).
  - (* Stat *)
    rewrite (inv_fx _ _ _ HF), (inv_dx _ _ _ HF). unfold is_file, is_dir.
    destruct (nget (names t) p) as [[|i]|] eqn:En; cbn [fst snd].
    + split; [split; assumption|reflexivity].
    + split; [split; assumption|]. cbn. rewrite (InvF_len s t g p i HF En). reflexivity.
    + split; [split; assumption|apply err_ok_refl].
  - (* Exists *)
    rewrite (inv_fx _ _ _ HF), (inv_dx _ _ _ HF). unfold is_file, is_dir.
    destruct (nget (names t) p) as [[|i]|] eqn:En; cbn [fst snd orb];
      (split; [split; assumption|reflexivity]).
  - (* Readdir *)
    rewrite (inv_dx _ _ _ HF). unfold is_dir.
    destruct (nget (names t) p) as [[|i]|] eqn:En; cbn [fst snd].
    + split; [split; assumption|]. cbn. rewrite (listing_inv s t g p HF). reflexivity.
    + split; [split; assumption|reflexivity].
    + split; [split; assumption|apply err_ok_refl].
  - (* Slurp *)
    unfold slurp. rewrite (inv_fx _ _ _ HF). unfold is_file.
    destruct (nget (names t) p) as [[|i]|] eqn:En; cbn [fst snd].
    + split; [split; assumption|reflexivity].
    + split; [split; assumption|]. cbn. rewrite (slurp_inv s t g p i HF En). reflexivity.
    + split; [split; assumption|apply err_ok_refl].
  - (* Dump *)
    split; [split; assumption|]. cbn. f_equal. apply map_ext. intro p. symmetry. apply (dump_row_inv s t g p HF).
  - (* Tick *)
    split; [split; assumption|reflexivity].
Qed.

Lemma step_spit s hs t g p data coin :
  InvF s t g -> HRel hs (shs t) -> op_classes t g (Spit p data coin) = [] ->
  StepOk (mkWorld s hs) t g (Spit p data coin).
Proof.
  intros HF HH Hcl. cbn [op_classes] in Hcl. apply app_eq_nil in Hcl as [_ Hrc]. apply when_nil in Hrc.
  unfold StepOk. cbn [step sstep gone_after wfs whs]. unfold open_file.
  rewrite (inv_fx _ _ _ HF p). cbn [andb orb].
  (* what the two writes do to an existing (possibly just created) file *)
  assert (Hwr : forall s0 t0 i, InvF s0 t0 g -> nget (names t0) p = Some (EFile i) ->
     InvF (match data with
           | [] => push s0 (PSetLen p 0)
           | _ :: _ => fst (write_at (push s0 (PSetLen p 0))
                              {| hpath := p; hr := false; hw := true; ha := false; hpos := 0 |} 0 data coin)
           end) (set_inode t0 i data) g).
  { intros s0 t0 i H0 Hn0.
    assert (H1 : InvF (push s0 (PSetLen p 0)) (set_inode t0 i []) g).
    { eapply InvF_push_data; eauto; cbn; rewrite path_eqb_refl; reflexivity. }
    destruct data as [|b data]; [exact H1|].
    set (h := {| hpath := p; hr := false; hw := true; ha := false; hpos := 0 |}).
    set (sh := {| spath := p; sino := i; sr := false; sw := true; sa := false; spos := 0 |}).
    assert (Hn1 : nget (names (set_inode t0 i [])) (spath sh) = Some (EFile (sino sh))) by exact Hn0.
    destruct (write_at_refines _ _ g h sh 0 (b :: data) coin H1 ltac:(repeat split) Hn1 eq_refl) as [A _].
    cbn [sino sh set_inode inodes] in A. rewrite iget_iset, N.eqb_refl in A.
    unfold pwrite in A. rewrite write_bytes_nil0 in A.
    destruct A as [A1 B C D E F G H I J]. constructor; auto.
    intros q j Hq. rewrite (D q j Hq). cbn [inodes set_inode]. rewrite !iget_iset.
    destruct (i =? j); reflexivity. }
  destruct (nget (names t) p) as [[|i]|] eqn:En.
  - (* directory *)
    assert (Hpar : parent_is_dir t p = true) by (eapply inv_pc; eauto).
    assert (Hf : is_file t p = false) by (unfold is_file; rewrite En; reflexivity).
    assert (Hd : dir_exists s p = true) by (rewrite (inv_dx _ _ _ HF); unfold is_dir; rewrite En; reflexivity).
    rewrite Hpar, Hf, Hd. cbn [negb fst snd wfs whs with_fs].
    split; [split; assumption|apply err_ok_refl].
  - (* existing file *)
    assert (Hpar : parent_is_dir t p = true) by (eapply inv_pc; eauto).
    assert (Hf : is_file t p = true) by (unfold is_file; rewrite En; reflexivity).
    rewrite Hpar, Hf. cbn [negb fst snd wfs whs with_fs].
    specialize (Hwr s t i HF En).
    destruct data as [|b data]; cbn [fst snd wfs whs with_fs];
      (split; [split; [exact Hwr|exact HH]|reflexivity]).
  - (* new file *)
    assert (Hf : is_file t p = false) by (unfold is_file; rewrite En; reflexivity).
    assert (Hd : dir_exists s p = false) by (rewrite (inv_dx _ _ _ HF); unfold is_dir; rewrite En; reflexivity).
    rewrite Hf, Hd. rewrite (parent_exists_inv s t g p HF).
    destruct (parent_is_dir t p) eqn:Hpar; cbn [negb fst snd wfs whs with_fs].
    + pose proof (InvF_create s t g p HF En Hpar Hrc) as HC.
      set (t1 := {| names := nset (names t) p (EFile (next_ino t));
                    inodes := iset (inodes t) (next_ino t) []; next_ino := next_ino t + 1; shs := shs t |}) in *.
      assert (Hn1 : nget (names t1) p = Some (EFile (next_ino t))) by (cbn [names t1]; rewrite nget_nset, path_eqb_refl; reflexivity).
      specialize (Hwr _ t1 _ HC Hn1).
      assert (Hfin : InvF (match data with
           | [] => push (push s (CreateFile p)) (PSetLen p 0)
           | _ :: _ => fst (write_at (push (push s (CreateFile p)) (PSetLen p 0))
                              {| hpath := p; hr := false; hw := true; ha := false; hpos := 0 |} 0 data coin)
           end)
           {| names := nset (names t) p (EFile (next_ino t)); inodes := iset (inodes t) (next_ino t) data;
              next_ino := next_ino t + 1; shs := shs t |} g).
      { destruct Hwr as [A1 B C D E F G H I J]. constructor; auto.
        intros q j Hq. rewrite (D q j Hq). cbn [inodes set_inode t1]. rewrite !iget_iset.
        destruct (next_ino t =? j); reflexivity. }
      destruct data as [|b data]; cbn [fst snd wfs whs with_fs];
        (split; [split; [exact Hfin|exact HH]|reflexivity]).
    + split; [split; assumption|apply err_ok_refl].
Qed.

(* ---- every operation of the C10 alphabet ----------------------------------------------------------- *)
Lemma step_refines w t g o :
  Inv w t g -> c10_op o = true -> op_classes t g o = [] -> StepOk w t g o.
Proof.
  intros [HF HH] Hop Hcl. destruct w as [s hs]. cbn [wfs whs] in *.
  destruct o; try discriminate;
    try (apply step_handle_ops; auto; exact I);
    try (apply step_path_ops; auto; exact I).
  - apply step_open; auto.
  - apply step_spit; auto.
Qed.

Lemma Inv_init b : Inv (init_world b) init_sworld [].
Proof.
  split; [|intro slot; exact I]. constructor; cbn.
  - reflexivity.
  - intro p. unfold file_exists, is_file. cbn. destruct p; reflexivity.
  - intro p. unfold dir_exists, is_dir. cbn. destruct p; reflexivity.
  - intros p i. destruct p; discriminate.
  - reflexivity.
  - intros p [].
  - discriminate.
  - intros p q i. destruct p; discriminate.
  - intros p i. destruct p; discriminate.
  - intros p e H. unfold parent_is_dir. destruct p as [|a p]; [reflexivity|discriminate].
Qed.

Lemma run_refines : forall l w t g,
  Inv w t g -> forallb c10_op l = true -> classes_from t g l = [] ->
  Forall2 obs_ok (snd (srun t l)) (snd (run w l)).
Proof.
  induction l as [|o l IH]; intros w t g HI Hal Hcl; cbn [srun run].
  - constructor.
  - cbn in Hal. apply andb_true_iff in Hal as [Ho Hal].
    cbn [classes_from] in Hcl. apply app_eq_nil in Hcl as [Hc1 Hc2].
    destruct (step_refines w t g o HI Ho Hc1) as [HI' Hobs].
    destruct (sstep t o) as [t1 y] eqn:Es. destruct (step w o) as [w1 x] eqn:Ew. cbn [fst snd] in *.
    specialize (IH w1 t1 _ HI' Hal Hc2).
    destruct (srun t1 l) as [t2 ys]. destruct (run w1 l) as [w2 xs]. cbn [fst snd] in *.
    constructor; assumption.
Qed.

Theorem refines_lemma : forall l,
  forallb c10_op l = true -> known_free l = true ->
  Forall2 obs_ok (snd (srun init_sworld l)) (snd (run (init_world 0) l)).
Proof.
  intros l Hal Hk. apply (run_refines l _ _ [] (Inv_init 0) Hal).
  unfold known_free, classes in Hk. destruct (classes_from init_sworld [] l); [reflexivity|discriminate].
Qed.
