(* TV.Fs.Durable — the simulation between FsImpl and FsDurable across crashes:
   on top of the C10 invariant (Refine.InvF) the persisted tables and the set of
   synced entries of the implementation are the durable shadow of the reference. *)
From TV.Lib Require Import Base.
From TV.Fs Require Import FsImpl FsSpec FsSafe FsDurable Facts View Refine.
Open Scope N_scope.

(* pending writes of the implementation vs the reference's writes since the last data sync *)
Definition is_pwrite (o : pop) : bool := match o with PWrite _ _ _ => true | _ => false end.
Definition pwrites (l : list pop) : list pop := filter is_pwrite l.

(* inode i is the file that path p names, or named when it was unlinked (since the last crash) *)
Definition owner (d : dworld) (g : list path) (p : path) (i : N) : Prop :=
  i < next_ino (dw d) /\
  (nget (names (dw d)) p = Some (EFile i) \/
   (mem_path p g = true /\ (forall q, nget (names (dw d)) q <> Some (EFile i)) /\
    (nget (dents d) p = Some (EFile i) \/
     (nget (dents d) p = None /\ forall q, nget (dents d) q <> Some (EFile i))))).

Definition wrel (d : dworld) (g : list path) (o : pop) (w : N * nat * bytes) : Prop :=
  exists p off data i, o = PWrite p off data /\ w = (i, off, data) /\ data <> [] /\ owner d g p i.

Lemma Forall2_impl {A B} (R R' : A -> B -> Prop) : forall l1 l2,
  (forall a b, R a b -> R' a b) -> Forall2 R l1 l2 -> Forall2 R' l1 l2.
Proof. intros l1 l2 H. induction 1; constructor; auto. Qed.

Lemma Forall2_filter {A B} (R : A -> B -> Prop) (f : A -> bool) (h : B -> bool) : forall l1 l2,
  Forall2 R l1 l2 -> (forall a b, R a b -> f a = h b) -> Forall2 R (filter f l1) (filter h l2).
Proof.
  intros l1 l2 H Hfh. induction H as [|a b l1 l2 Hab Hl IH]; cbn; [constructor|].
  rewrite (Hfh a b Hab). destruct (h b); [constructor; assumption|assumption].
Qed.

Lemma filter_comm {A} (f g : A -> bool) l : filter f (filter g l) = filter g (filter f l).
Proof.
  induction l as [|a l IH]; cbn; [reflexivity|].
  destruct (g a) eqn:Eg; destruct (f a) eqn:Ef; cbn; rewrite ?Eg, ?Ef, IH; reflexivity.
Qed.

Record Dur (s : fs) (d : dworld) (g gd : list path) : Prop := {
  du_bs : bsize s = dbs d;
  du_pend : Forall2 (wrel d g) (pwrites (pending s)) (dpend d);
  du_nodup : NoDup (map fst (dents d));
  du_sy : forall p, mem_path p (synced s) = some (nget (dents d) p);
  du_df : forall p i, nget (dents d) p = Some (EFile i) -> fget (pfiles s) p = Some (iget (ddata d) i);
  du_dd : forall p, nget (dents d) p = Some EDir -> mem_path p (pdirs s) = true;
  du_cur : forall p i, nget (names (dw d)) p = Some (EFile i) -> cont (fget (pfiles s) (resolve s p)) = iget (ddata d) i;
  du_pf : forall p, has_file (pfiles s) p = true -> is_file (dw d) p = true \/ mem_path p g = true;
  du_pd : forall p, mem_path p (pdirs s) = true -> is_dir (dw d) p = true \/ mem_path p gd = true;
  du_kd : forall p, mem_path p gd = true -> is_file (dw d) p = false;
  du_k2 : forall p, mem_path p g = true -> mem_path p gd = false;
  du_ef : forall p i, nget (dents d) p = Some (EFile i) ->
            nget (names (dw d)) p = Some (EFile i) \/ mem_path p g = true \/ (exists f, In (PRename f p) (pending s));
  du_k : forall p, mem_path p g = true -> is_dir (dw d) p = false;
  du_u : forall p q i, nget (dents d) q = Some (EFile i) -> nget (names (dw d)) p = Some (EFile i) -> q = resolve s p;
  du_u2 : forall p q i, nget (dents d) p = Some (EFile i) -> nget (dents d) q = Some (EFile i) -> p = q;
  du_b : forall p i, nget (dents d) p = Some (EFile i) -> i < next_ino (dw d);
  du_b2 : forall i, next_ino (dw d) <= i -> iget (ddata d) i = [];
  du_z1 : forall p, has_file (pfiles s) p = true ->
            In (CreateFile p) (pending s) \/ mem_path p (synced s) = true \/ (exists f, In (PRename f p) (pending s));
  du_z2 : forall p, mem_path p (pdirs s) = true -> mem_path p (synced s) = true;
  du_g1 : forall p, mem_path p g = true ->
            In (PRemoveFile p) (pending s) \/ (exists r, In (PRename p r) (pending s)) \/
            (~ In (CreateFile p) (pending s) /\ mem_path p (synced s) = false /\ has_file (pfiles s) p = false);
  du_rl : forall p b, In (PRemoveFile p) (pending s) -> fold_left (fx_step p) (pending s) b = false;
  du_rd : forall p, In (PRemoveDir p) (pending s) -> mem_path p gd = true;
  (* the new name of a pending rename is not where a directory was removed since the last crash *)
  du_rtd : forall f r, In (PRename f r) (pending s) -> mem_path r gd = false
}.

(* the shadow of d restricted to what Dur reads besides the tree *)
Definition same_shadow (d d' : dworld) : Prop :=
  dents d' = dents d /\ ddata d' = ddata d /\ dbs d' = dbs d.
(* what pushing o does to the reference's list of unsynced writes *)
Definition pend_step (o : pop) (d d' : dworld) : Prop :=
  match o with
  | PWrite p off data =>
      exists i, nget (names (dw d')) p = Some (EFile i) /\ data <> [] /\ dpend d' = dpend d ++ [(i, off, data)]
  | _ => dpend d' = dpend d
  end.

(* ---- push-only transitions --------------------------------------------------------------------- *)
Lemma Forall2_impl_in {A B} (R R' : A -> B -> Prop) : forall l1 l2,
  (forall a b, In a l1 -> R a b -> R' a b) -> Forall2 R l1 l2 -> Forall2 R' l1 l2.
Proof.
  intros l1 l2 H Hf. induction Hf as [|a b l1 l2 Hab Hl IH]; constructor.
  - apply H; [left; reflexivity|exact Hab].
  - apply IH. intros a' b' Hin. apply H. right. exact Hin.
Qed.

Lemma in_pwrites o l : In o (pwrites l) -> In o l /\ is_pwrite o = true.
Proof. unfold pwrites. apply filter_In. Qed.

(* generic: the persisted tables do not move, the log grows by an operation that is not a rename *)
Lemma Dur_push_gen s d g gd o d' g' gd' :
  Dur s d g gd -> same_shadow d d' -> not_rename o = true ->
  (forall p, o = PRemoveDir p -> mem_path p gd' = true) ->
  (forall p, mem_path p gd = true -> mem_path p gd' = true) ->
  (* conditions on the new log entry *)
  (forall p, o = CreateFile p -> mem_path p g = false /\ ~ In (PRemoveFile p) (pending s)) ->
  (* the tree-dependent fields, re-established by the caller *)
  (forall p i, nget (names (dw d')) p = Some (EFile i) -> cont (fget (pfiles s) (resolve s p)) = iget (ddata d) i) ->
  (forall p, has_file (pfiles s) p = true -> is_file (dw d') p = true \/ mem_path p g' = true) ->
  (forall p, mem_path p (pdirs s) = true -> is_dir (dw d') p = true \/ mem_path p gd' = true) ->
  (forall p, mem_path p gd' = true -> is_file (dw d') p = false) ->
  (forall p, mem_path p g' = true -> mem_path p gd' = false) ->
  (forall p i, nget (dents d) p = Some (EFile i) ->
     nget (names (dw d')) p = Some (EFile i) \/ mem_path p g' = true \/ (exists f, In (PRename f p) (pending s))) ->
  (forall p, mem_path p g' = true -> is_dir (dw d') p = false) ->
  (forall p q i, nget (dents d) q = Some (EFile i) -> nget (names (dw d')) p = Some (EFile i) -> q = resolve s p) ->
  (forall p i, nget (dents d) p = Some (EFile i) -> i < next_ino (dw d')) ->
  (forall i, next_ino (dw d') <= i -> iget (ddata d) i = []) ->
  (forall p, mem_path p g' = true -> mem_path p g = true \/ o = PRemoveFile p) ->
  pend_step o d d' ->
  (forall p i, owner d g p i -> (exists off data, In (PWrite p off data) (pending s)) -> owner d' g' p i) ->
  (forall p off data i, o = PWrite p off data -> nget (names (dw d')) p = Some (EFile i) -> i < next_ino (dw d')) ->
  (forall f r, In (PRename f r) (pending s) -> mem_path r gd' = false) ->
  Dur (push s o) d' g' gd'.
Proof.
  intros [A Ap And B C D E F G Gd G2 H I J K L M N O P Q R Rt] (S1 & S2 & S3) Hnr Hrd Hgdm Hcf Hcur Hpf Hpd Hkd Hk2 Hef Hk Hu Hb Hb2 Hg Hps Hown Hnew Hrtd.
  assert (Hmono : Forall2 (wrel d' g') (pwrites (pending s)) (dpend d)).
  { eapply Forall2_impl_in; [|exact Ap]. intros o0 w Hin (p0 & off0 & data0 & i0 & X1 & X2 & X3 & X4).
    exists p0, off0, data0, i0. split; [exact X1|]. split; [exact X2|]. split; [exact X3|]. apply Hown; [exact X4|].
    apply in_pwrites in Hin as [Hin _]. subst o0. eauto. }
  assert (Hren : forall f r, In (PRename f r) (pending s ++ [o]) <-> In (PRename f r) (pending s)).
  { intros f r. rewrite in_app_iff. split; [|auto]. intros [X|[X|[]]]; [exact X|]. subst o. discriminate. }
  constructor; cbn [pfiles pdirs synced pending bsize push set_pending]; rewrite ?S1, ?S2, ?S3; auto.
  - unfold pwrites. rewrite filter_app. cbn [filter]. destruct o; cbn [is_pwrite pend_step] in *;
      try (rewrite app_nil_r, Hps; exact Hmono).
    destruct Hps as (i & X1 & X2 & X3). rewrite X3. apply Forall2_app; [exact Hmono|].
    constructor; [|constructor]. exists p, off, data, i.
    split; [reflexivity|]. split; [reflexivity|]. split; [exact X2|].
    split; [eapply Hnew; eauto|left; exact X1].
  - intros p i Hn. change (resolve (push s o) p) with (resolve (push s o) p). rewrite resolve_push_nr by exact Hnr. apply Hcur. exact Hn.
  - intros p i Hp. destruct (Hef p i Hp) as [X|[X|[f X]]]; auto. right; right. exists f. apply Hren. exact X.
  - intros p q i Hq Hp. change (resolve (push s o) p) with (resolve (push s o) p). rewrite resolve_push_nr by exact Hnr. eapply Hu; eauto.
  - intros p Hp. destruct (N p Hp) as [X|[X|[f X]]]; [left; apply in_or_app; left; exact X|right; left; exact X|].
    right; right. exists f. apply Hren. exact X.
  - intros p Hp. destruct (Hg p Hp) as [X|X].
    + destruct (P p X) as [Y|[[r Y]|(Y1 & Y2 & Y3)]]; [left; apply in_or_app; left; exact Y|right; left; exists r; apply Hren; exact Y|].
      right; right. split; [|split; assumption]. intro Hin. apply in_app_iff in Hin as [Hin|[Hin|[]]]; [contradiction|].
      destruct (Hcf p Hin). congruence.
    + left. apply in_or_app. right. left. exact X.
  - intros p b Hin. rewrite fold_left_app. cbn [fold_left].
    apply in_app_iff in Hin as [Hin|[Hin|[]]].
    + rewrite (Q p b Hin). destruct o; cbn [fx_step]; try reflexivity; try discriminate.
      * destruct (path_eqb p0 p) eqn:Epp; [|reflexivity]. apply path_eqb_eq in Epp. subst p0.
        destruct (Hcf p eq_refl). contradiction.
      * destruct (path_eqb p0 p); reflexivity.
    + subst o. cbn [fx_step]. rewrite path_eqb_refl. reflexivity.
  - intros p Hin. apply in_app_iff in Hin as [Hin|[Hin|[]]]; [apply Hgdm; eapply R; exact Hin|]. eapply Hrd. exact Hin.
  - intros f r Hin. apply Hren in Hin. eapply Hrtd. exact Hin.
Qed.

Lemma owner_ext d d' g p i :
  dents d' = dents d -> names (dw d') = names (dw d) -> next_ino (dw d') = next_ino (dw d) ->
  owner d g p i -> owner d' g p i.
Proof. unfold owner. intros -> -> ->. auto. Qed.

Lemma Dur_ext s d d' g gd :
  Dur s d g gd -> same_shadow d d' -> dpend d' = dpend d ->
  names (dw d') = names (dw d) -> next_ino (dw d') = next_ino (dw d) ->
  Dur s d' g gd.
Proof.
  intros [A Ap And B C D E F G Gd G2 H I J K L M N O P Q R Rt] (S1 & S2 & S3) S4 Hn Hx.
  constructor; unfold is_file, is_dir in *; rewrite ?S1, ?S2, ?S3, ?S4, ?Hn, ?Hx; auto.
  eapply Forall2_impl; [|exact Ap]. intros o w (p0 & off0 & data0 & i0 & X1 & X2 & X3 & X4).
  exists p0, off0, data0, i0. split; [exact X1|]. split; [exact X2|]. split; [exact X3|].
  eapply owner_ext; eauto.
Qed.

(* a data operation (write / set_len) on an existing file *)
Lemma Dur_data s d g gd o d' p :
  Dur s d g gd -> same_shadow d d' -> names (dw d') = names (dw d) -> next_ino (dw d') = next_ino (dw d) ->
  is_data_op p o = true -> pend_step o d d' ->
  (forall q j, nget (names (dw d)) q = Some (EFile j) -> j < next_ino (dw d)) ->
  Dur (push s o) d' g gd.
Proof.
  intros HD HS Hn Hx Hdo Hps Hbound. pose proof HD as [A Ap And B C D E F G Gd G2 H I J K L M N O P Q R Rt].
  pose proof HS as (S1 & S2 & S3).
  assert (Hnr : not_rename o = true) by (destruct o; try reflexivity; discriminate).
  eapply (Dur_push_gen s d g gd o d' g gd HD HS Hnr); unfold is_file, is_dir in *; rewrite ?Hn, ?Hx; auto.
  - intros q Hq. subst o. discriminate.
  - intros q Hq. subst o. discriminate.
  - intros q i Hq _. eapply owner_ext; eauto.
  - intros q off data i _ Hq. apply (Hbound q i Hq).
Qed.

Lemma Dur_create s d g gd p :
  InvF s (dw d) g -> Dur s d g gd -> nget (names (dw d)) p = None -> mem_path p g = false ->
  mem_path p gd = false ->
  Dur (push s (CreateFile p))
      (with_dw d {| names := nset (names (dw d)) p (EFile (next_ino (dw d)));
                    inodes := iset (inodes (dw d)) (next_ino (dw d)) [];
                    next_ino := next_ino (dw d) + 1; shs := shs (dw d) |}) g gd.
Proof.
  intros HI HD Hn Hg Hgd. pose proof HD as [A Ap And B C D E F G Gd G2 H I J K L M N O P Q R Rt].
  assert (Hnf : is_file (dw d) p = false) by (unfold is_file; rewrite Hn; reflexivity).
  assert (Hnd : is_dir (dw d) p = false) by (unfold is_dir; rewrite Hn; reflexivity).
  assert (Hpf : has_file (pfiles s) p = false).
  { destruct (has_file (pfiles s) p) eqn:E0; [|reflexivity]. destruct (F p E0); congruence. }
  assert (Hnt : forall f, ~ In (PRename f p) (pending s)) by (eapply not_tgt_fresh; eauto).
  eapply (Dur_push_gen s d g gd (CreateFile p) _ g gd HD); cbn [dw with_dw names next_ino dents].
  - repeat split.
  - reflexivity.
  - intros q Hq. discriminate.
  - auto.
  - intros q Hq. inversion Hq; subst q. split; [exact Hg|]. intro Hin. apply (inv_rm _ _ _ HI) in Hin. congruence.
  - intros q i. rewrite nget_nset. destruct (path_eqb p q) eqn:Epq.
    + apply path_eqb_eq in Epq. subst q. intro Hi. inversion Hi; subst i. rewrite (resolve_other s p Hnt).
      unfold has_file in Hpf. destruct (fget (pfiles s) p); [discriminate|]. cbn [cont].
      symmetry. apply M. lia.
    + apply E.
  - intros q Hq. destruct (F q Hq) as [X|X]; [left|right; exact X].
    unfold is_file in *. cbn [names]. rewrite nget_nset. destruct (path_eqb p q) eqn:Epq; [reflexivity|exact X].
  - intros q Hq. destruct (G q Hq) as [X|X]; [left|right; exact X]. unfold is_dir in *. cbn [names]. rewrite nget_nset.
    destruct (path_eqb p q) eqn:Epq; [|exact X]. apply path_eqb_eq in Epq. subst q. congruence.
  - intros q Hq. unfold is_file. cbn [names]. rewrite nget_nset. destruct (path_eqb p q) eqn:Epq.
    + apply path_eqb_eq in Epq. subst q. congruence.
    + apply Gd. exact Hq.
  - exact G2.
  - intros q i Hq. destruct (H q i Hq) as [X|X]; [|right; exact X]. left. rewrite nget_nset.
    destruct (path_eqb p q) eqn:Epq; [|exact X]. apply path_eqb_eq in Epq. subst q. congruence.
  - intros q Hq. pose proof (I q Hq) as X. unfold is_dir in *. cbn [names]. rewrite nget_nset.
    destruct (path_eqb p q); [reflexivity|exact X].
  - intros q r i Hr. rewrite nget_nset. destruct (path_eqb p q) eqn:Epq.
    + intro Hi. inversion Hi; subst i. apply L in Hr. lia.
    + apply J. exact Hr.
  - intros q i Hq. apply L in Hq. lia.
  - intros i Hi. apply M. lia.
  - auto.
  - reflexivity.
  - intros q i (Hlt & Hown) _. unfold owner. cbn [dw with_dw names next_ino dents]. split; [lia|].
    destruct Hown as [X|(X1 & X2 & X3)].
    + left. rewrite nget_nset. destruct (path_eqb p q) eqn:Epq; [|exact X].
      apply path_eqb_eq in Epq. subst q. congruence.
    + right. split; [exact X1|]. split; [|exact X3].
      intros r. rewrite nget_nset. destruct (path_eqb p r); [|apply X2].
      intro Hr. inversion Hr. lia.
  - intros q off data i Hq. discriminate.
  - exact Rt.
Qed.

Lemma rshape_no_pwrite l f t p off data : rshape l f t -> In (PWrite p off data) l -> p <> f /\ p <> t.
Proof.
  intros Hs Hin. destruct (rshape_no_data l f t _ Hs Hin) as [A B]. cbn in A, B.
  split; intro; subst p; rewrite path_eqb_refl in *; discriminate.
Qed.

Lemma Dur_unlink s d g gd p i :
  InvF s (dw d) g -> Dur s d g gd -> nget (names (dw d)) p = Some (EFile i) ->
  Dur (push s (PRemoveFile p)) (with_dw d (set_names (dw d) (ndel (names (dw d)) p))) (p :: g) gd.
Proof.
  intros HI HD Hn. pose proof HD as [A Ap And B C D E F G Gd G2 H I J K L M N O P Q R Rt].
  assert (Hpgd : mem_path p gd = false).
  { destruct (mem_path p gd) eqn:E0; [|reflexivity]. apply Gd in E0. unfold is_file in E0. rewrite Hn in E0. discriminate. }
  eapply (Dur_push_gen s d g gd (PRemoveFile p) _ (p :: g) gd HD); cbn [dw with_dw names next_ino set_names dents].
  - repeat split.
  - reflexivity.
  - intros q Hq. discriminate.
  - auto.
  - intros q Hq. discriminate.
  - intros q j. rewrite nget_ndel. destruct (path_eqb p q); [discriminate|apply E].
  - intros q Hq. rewrite mem_path_cons. destruct (path_eqb q p) eqn:Eqp; [right; reflexivity|].
    destruct (F q Hq) as [X|X]; [left|right; exact X].
    rewrite is_file_ndel. rewrite path_eqb_sym, Eqp. exact X.
  - intros q Hq. destruct (G q Hq) as [X|X]; [left|right; exact X]. rewrite is_dir_ndel.
    destruct (path_eqb p q) eqn:Epq; [|exact X]. apply path_eqb_eq in Epq. subst q.
    unfold is_dir in X. rewrite Hn in X. discriminate.
  - intros q Hq. rewrite is_file_ndel. destruct (path_eqb p q); [reflexivity|apply Gd; exact Hq].
  - intros q Hq. rewrite mem_path_cons in Hq. destruct (path_eqb q p) eqn:Eqp.
    + apply path_eqb_eq in Eqp. subst q. exact Hpgd.
    + apply G2. exact Hq.
  - intros q j Hq. rewrite mem_path_cons. destruct (path_eqb q p) eqn:Eqp; [right; left; reflexivity|].
    destruct (H q j Hq) as [X|[X|X]]; [left|right; left; exact X|right; right; exact X].
    rewrite nget_ndel, path_eqb_sym, Eqp. exact X.
  - intros q Hq. rewrite is_dir_ndel. destruct (path_eqb p q) eqn:Epq; [reflexivity|].
    rewrite mem_path_cons, path_eqb_sym, Epq in Hq. apply I. exact Hq.
  - intros q r j Hr. rewrite nget_ndel. destruct (path_eqb p q); [discriminate|]. apply J. exact Hr.
  - exact L.
  - exact M.
  - intros q Hq. rewrite mem_path_cons in Hq. destruct (path_eqb q p) eqn:Eqp.
    + apply path_eqb_eq in Eqp. subst q. right. reflexivity.
    + left. exact Hq.
  - reflexivity.
  - intros q j (Hlt & Hown) (off & data & Hpw). unfold owner. cbn [dw with_dw names next_ino dents set_names]. split; [exact Hlt|].
    (* a path with a pending write is no name of a pending rename *)
    assert (Hqt : forall f, ~ In (PRename f q) (pending s)).
    { intros f Hin. destruct (rshape_no_pwrite _ f q _ _ _ (rw_shape _ (inv_rw _ _ _ HI) f q Hin) Hpw) as [_ X]. congruence. }
    destruct Hown as [X|(X1 & X2 & X3)].
    + destruct (path_eqb p q) eqn:Epq.
      * apply path_eqb_eq in Epq. subst q. rewrite Hn in X. inversion X; subst j.
        right. split; [rewrite mem_path_cons, path_eqb_refl; reflexivity|]. split.
        -- intros r. rewrite nget_ndel. destruct (path_eqb p r) eqn:Epr; [discriminate|].
           intro Hr. apply path_eqb_neq in Epr. apply Epr. eapply (inv_inj _ _ _ HI); eauto.
        -- destruct (nget (dents d) p) as [[|j']|] eqn:Ed.
           ++ exfalso. apply D in Ed. destruct (G p Ed) as [Y|Y]; [unfold is_dir in Y; rewrite Hn in Y; discriminate|congruence].
           ++ left. destruct (H p j' Ed) as [Y|[Y|[f Y]]].
              ** rewrite Hn in Y. inversion Y. reflexivity.
              ** apply (inv_gone _ _ _ HI) in Y. unfold is_file in Y. rewrite Hn in Y. discriminate.
              ** exfalso. eapply Hqt. exact Y.
           ++ right. split; [reflexivity|]. intros r Hr. pose proof (J p r i Hr Hn) as Y.
              rewrite (resolve_other s p Hqt) in Y. subst r. congruence.
      * left. rewrite nget_ndel, Epq. exact X.
    + right. split; [rewrite mem_path_cons, X1; apply orb_true_r|]. split; [|exact X3].
      intros r. rewrite nget_ndel. destruct (path_eqb p r); [discriminate|apply X2].
  - intros q off data j Hq. discriminate.
  - exact Rt.
Qed.

Lemma Dur_mkdir s d g gd p :
  Dur s d g gd -> nget (names (dw d)) p = None -> mem_path p g = false ->
  Dur (push s (CreateDir p)) (with_dw d (set_names (dw d) (nset (names (dw d)) p EDir))) g gd.
Proof.
  intros HD Hn Hg. pose proof HD as [A Ap And B C D E F G Gd G2 H I J K L M N O P Q R Rt].
  eapply (Dur_push_gen s d g gd (CreateDir p) _ g gd HD); cbn [dw with_dw names next_ino set_names dents].
  - repeat split.
  - reflexivity.
  - intros q Hq. discriminate.
  - auto.
  - intros q Hq. discriminate.
  - intros q j. rewrite nget_nset. destruct (path_eqb p q); [discriminate|apply E].
  - intros q Hq. destruct (F q Hq) as [X|X]; [left|right; exact X]. rewrite is_file_nset.
    destruct (path_eqb p q) eqn:Epq; [|exact X]. apply path_eqb_eq in Epq. subst q.
    unfold is_file in X. rewrite Hn in X. discriminate.
  - intros q Hq. destruct (G q Hq) as [X|X]; [left|right; exact X]. rewrite is_dir_nset. destruct (path_eqb p q); [reflexivity|exact X].
  - intros q Hq. rewrite is_file_nset. destruct (path_eqb p q); [reflexivity|apply Gd; exact Hq].
  - exact G2.
  - intros q j Hq. destruct (H q j Hq) as [X|X]; [left|right; exact X]. rewrite nget_nset.
    destruct (path_eqb p q) eqn:Epq; [|exact X]. apply path_eqb_eq in Epq. subst q. congruence.
  - intros q Hq. rewrite is_dir_nset. destruct (path_eqb p q) eqn:Epq; [|apply I; exact Hq].
    apply path_eqb_eq in Epq. subst q. congruence.
  - intros q r j Hr. rewrite nget_nset. destruct (path_eqb p q); [discriminate|]. apply J. exact Hr.
  - exact L.
  - exact M.
  - auto.
  - reflexivity.
  - intros q j (Hlt & Hown) _. unfold owner. cbn [dw with_dw names next_ino dents set_names]. split; [exact Hlt|].
    destruct Hown as [X|(X1 & X2 & X3)].
    + left. rewrite nget_nset. destruct (path_eqb p q) eqn:Epq; [|exact X].
      apply path_eqb_eq in Epq. subst q. congruence.
    + right. split; [exact X1|]. split; [|exact X3].
      intros r. rewrite nget_nset. destruct (path_eqb p r); [discriminate|apply X2].
  - intros q off data j Hq. discriminate.
  - exact Rt.
Qed.

Lemma Dur_rmdir s d g gd p :
  InvF s (dw d) g -> Dur s d g gd -> nget (names (dw d)) p = Some EDir ->
  Dur (push s (PRemoveDir p)) (with_dw d (set_names (dw d) (ndel (names (dw d)) p))) g (p :: gd).
Proof.
  intros HI HD Hn. pose proof HD as [A Ap And B C D E F G Gd G2 H I J K L M N O P Q R Rt].
  assert (Hpd : is_dir (dw d) p = true) by (apply is_dir_iff; exact Hn).
  assert (Hpg : mem_path p g = false).
  { destruct (mem_path p g) eqn:E0; [|reflexivity]. apply I in E0. congruence. }
  eapply (Dur_push_gen s d g gd (PRemoveDir p) _ g (p :: gd) HD); cbn [dw with_dw names next_ino set_names dents].
  - repeat split.
  - reflexivity.
  - intros q Hq. inversion Hq; subst q. rewrite mem_path_cons, path_eqb_refl. reflexivity.
  - intros q Hq. rewrite mem_path_cons, Hq. apply orb_true_r.
  - intros q Hq. discriminate.
  - intros q j. rewrite nget_ndel. destruct (path_eqb p q); [discriminate|apply E].
  - intros q Hq. destruct (F q Hq) as [X|X]; [left|right; exact X]. rewrite is_file_ndel.
    destruct (path_eqb p q) eqn:Epq; [|exact X]. apply path_eqb_eq in Epq. subst q.
    unfold is_file in X. rewrite Hn in X. discriminate.
  - intros q Hq. rewrite mem_path_cons. destruct (path_eqb q p) eqn:Eqp; [right; reflexivity|].
    destruct (G q Hq) as [X|X]; [left|right; exact X]. rewrite is_dir_ndel, path_eqb_sym, Eqp. exact X.
  - intros q Hq. rewrite is_file_ndel. destruct (path_eqb p q) eqn:Epq; [reflexivity|].
    rewrite mem_path_cons, path_eqb_sym, Epq in Hq. apply Gd. exact Hq.
  - intros q Hq. rewrite mem_path_cons. destruct (path_eqb q p) eqn:Eqp.
    + apply path_eqb_eq in Eqp. subst q. congruence.
    + apply G2. exact Hq.
  - intros q j Hq. destruct (H q j Hq) as [X|X]; [left|right; exact X]. rewrite nget_ndel.
    destruct (path_eqb p q) eqn:Epq; [|exact X]. apply path_eqb_eq in Epq. subst q. congruence.
  - intros q Hq. rewrite is_dir_ndel. destruct (path_eqb p q); [reflexivity|apply I; exact Hq].
  - intros q r j Hr. rewrite nget_ndel. destruct (path_eqb p q); [discriminate|]. apply J. exact Hr.
  - exact L.
  - exact M.
  - auto.
  - reflexivity.
  - intros q j (Hlt & Hown) _. unfold owner. cbn [dw with_dw names next_ino dents set_names]. split; [exact Hlt|].
    destruct Hown as [X|(X1 & X2 & X3)].
    + left. rewrite nget_ndel. destruct (path_eqb p q) eqn:Epq; [|exact X].
      apply path_eqb_eq in Epq. subst q. congruence.
    + right. split; [exact X1|]. split; [|exact X3].
      intros r. rewrite nget_ndel. destruct (path_eqb p r); [discriminate|apply X2].
  - intros q off data j Hq. discriminate.
  - intros f r Hin. rewrite mem_path_cons, (Rt f r Hin), orb_false_r. apply path_eqb_neq. intro; subst r.
    destruct (inv_rd _ _ _ HI f p Hin). congruence.
Qed.

(* ---- sync_file: the file's contents become its durable contents ---------------------------- *)
(* the file behind the new name of a pending rename has no unsynced data *)
Lemma clean_target s d g gd f r i :
  InvF s (dw d) g -> Dur s d g gd -> In (PRename f r) (pending s) -> nget (names (dw d)) r = Some (EFile i) ->
  iget (ddata d) i = iget (inodes (dw d)) i /\ fcontent s f = cont (fget (pfiles s) f).
Proof.
  intros HI HD Hin Hn. pose proof (inv_rw _ _ _ HI) as Hw.
  assert (Hc : fcontent s f = cont (fget (pfiles s) f)).
  { unfold fcontent. apply fold_left_id_in. intros a o Ho. apply (cstep_not_data f); [|reflexivity].
    apply (rshape_no_data _ f r o (rw_shape _ Hw f r Hin) Ho). }
  split; [|exact Hc].
  rewrite <- (du_cur _ _ _ _ HD r i Hn), <- (inv_ct _ _ _ HI r i Hn), (resolve_tgt s f r (rw_nodup _ Hw) Hin). symmetry. exact Hc.
Qed.

Lemma Dur_sync_file s d g gd p i :
  InvF s (dw d) g -> Dur s d g gd -> nget (names (dw d)) p = Some (EFile i) ->
  Dur (fst (sync_file s p)) (data_sync d i) g gd.
Proof.
  intros HI HD Hn. pose proof HD as [A Ap And B C D E F G Gd G2 H I J K L M N O P Q R Rt].
  pose proof (inv_rw _ _ _ HI) as Hw.
  assert (Hfp : is_file (dw d) p = true) by (apply is_file_iff; eauto).
  assert (Hex : file_exists s p = true) by (rewrite (inv_fx _ _ _ HI); exact Hfp).
  destruct (sync_file_views s p Hw Hex) as (_ & V1 & V2 & V3 & V4 & V5 & V6 & V7 & V8 & V9 & V10 & V11).
  set (s' := fst (sync_file s p)) in *.
  assert (Hpg : mem_path p g = false).
  { destruct (mem_path p g) eqn:E0; [|reflexivity]. apply (inv_gone _ _ _ HI) in E0. congruence. }
  assert (Hkeep : forall o, In o (pending s) -> is_data_op p o = false -> In o (pending s')).
  { intros o Ho Hd. rewrite V5. apply filter_In. split; [exact Ho|]. rewrite Hd. reflexivity. }
  assert (Hsub : forall o, In o (pending s') -> In o (pending s)).
  { intros o Ho. rewrite V5 in Ho. apply filter_In in Ho. tauto. }
  assert (Hnsrc : forall r, ~ In (PRename p r) (pending s)) by (eapply not_src_of_file; eauto).
  (* what p resolves to holds the file's contents once synced *)
  assert (Hrp : cont (fget (pfiles s') (resolve s p)) = iget (inodes (dw d)) i).
  { destruct (tgt_dec (pending s) p) as [[f Hf]|Hnt].
    - rewrite (resolve_tgt s f p (rw_nodup _ Hw) Hf).
      assert (f <> p) by (apply (nodup_ren_ne _ f p (rw_nodup _ Hw) Hf)).
      destruct (clean_target s d g gd f p i HI HD Hf Hn) as [X _].
      rewrite V9 by assumption. rewrite <- X, <- (E p i Hn), (resolve_tgt s f p (rw_nodup _ Hw) Hf). reflexivity.
    - rewrite (resolve_other s p Hnt), V8. cbn [cont].
      rewrite <- (inv_ct _ _ _ HI p i Hn), (resolve_other s p Hnt). reflexivity. }
  constructor; cbn [dw dents ddata dbs dpend data_sync]; rewrite ?V6, ?V7; auto.
  - (* du_pend *)
    rewrite V5. unfold pwrites. rewrite filter_comm. fold (pwrites (pending s)).
    apply Forall2_filter.
    + eapply Forall2_impl; [|exact Ap]. intros o w (p0 & off0 & data0 & i0 & X1 & X2 & X3 & X4).
      exists p0, off0, data0, i0. split; [exact X1|]. split; [exact X2|]. split; [exact X3|].
      eapply owner_ext; eauto.
    + intros o w (p0 & off0 & data0 & i0 & X1 & X2 & X3 & (_ & X4)). subst o w. cbn [is_data_op fst].
      cbn [dw data_sync dents] in X4.
      f_equal. destruct X4 as [Y|(Y1 & Y2 & _)].
      * destruct (path_eqb p0 p) eqn:Epp.
        -- apply path_eqb_eq in Epp. subst p0. rewrite Hn in Y. inversion Y. symmetry. apply N.eqb_refl.
        -- destruct (N.eqb_spec i0 i); [|reflexivity]. subst i0. apply path_eqb_neq in Epp. exfalso. apply Epp.
           eapply (inv_inj _ _ _ HI); eauto.
      * destruct (path_eqb p0 p) eqn:Epp.
        -- apply path_eqb_eq in Epp. subst p0. congruence.
        -- destruct (N.eqb_spec i0 i); [|reflexivity]. subst i0. exfalso. apply (Y2 p). exact Hn.
  - (* du_df *)
    intros q j Hq. rewrite iget_iset. destruct (N.eqb_spec i j) as [Eij|Eij].
    + subst j. pose proof (J p q i Hq Hn) as Hqr. subst q. rewrite <- Hrp.
      destruct (fget (pfiles s') (resolve s p)) as [c|] eqn:Eg; [reflexivity|]. exfalso.
      (* the durable name of i is persisted *)
      destruct (path_dec (resolve s p) p) as [Er|Er]; [rewrite Er, V8 in Eg; discriminate|].
      rewrite V9 in Eg by exact Er. rewrite (C _ _ Hq) in Eg. discriminate.
    + destruct (path_dec q p) as [->|Eqp].
      * (* the replaced file behind the new name of a pending rename *)
        rewrite V8. destruct (H p j Hq) as [X|[X|[f X]]]; [congruence|congruence|].
        f_equal. unfold fcontent. rewrite (C p j Hq). cbn [cont]. apply fold_left_id_in. intros a o Ho.
        apply (cstep_not_data p); [|reflexivity]. apply (rshape_no_data _ f p o (rw_shape _ Hw f p X) Ho).
      * rewrite V9 by exact Eqp. apply C. exact Hq.
  - (* du_dd *) intros q Hq. rewrite V10. apply D. exact Hq.
  - (* du_cur *)
    intros q j Hq. rewrite iget_iset, V11. destruct (N.eqb_spec i j) as [Eij|Eij].
    + subst j. assert (q = p) by (eapply (inv_inj _ _ _ HI); eauto). subst q. exact Hrp.
    + assert (Hr : resolve s q <> p).
      { intro Hr. destruct (tgt_dec (pending s) q) as [[f Hf]|Hnt].
        - rewrite (resolve_tgt s f q (rw_nodup _ Hw) Hf) in Hr. subst f. eapply Hnsrc. exact Hf.
        - rewrite (resolve_other s q Hnt) in Hr. subst q. congruence. }
      rewrite V9 by exact Hr. apply E. exact Hq.
  - (* du_pf *)
    intros q Hq. destruct (path_eqb q p) eqn:Eqp.
    + apply path_eqb_eq in Eqp. subst q. left. exact Hfp.
    + apply path_eqb_neq in Eqp. unfold has_file in Hq. rewrite V9 in Hq by exact Eqp. apply F. exact Hq.
  - (* du_pd *) intros q Hq. rewrite V10 in Hq. apply G. exact Hq.
  - (* du_ef *)
    intros q j Hq. destruct (H q j Hq) as [X|[X|[f X]]]; auto. right; right. exists f.
    apply Hkeep; [exact X|reflexivity].
  - (* du_u *) intros q r j Hr Hq. rewrite V11. eapply J; eauto.
  - (* du_b2 *)
    intros j Hj. rewrite iget_iset. destruct (N.eqb_spec i j); [|apply M; exact Hj].
    subst j. apply (inv_bound _ _ _ HI) in Hn. lia.
  - (* du_z1 *)
    intros q Hq. destruct (path_eqb q p) eqn:Eqp.
    + apply path_eqb_eq in Eqp. subst q.
      destruct (file_exists_src s p Hex) as [X|[X|[f X]]].
      * destruct (N p X) as [Y|[Y|[f Y]]]; [left; apply Hkeep; [exact Y|reflexivity]|right; left; exact Y|].
        right; right. exists f. apply Hkeep; [exact Y|reflexivity].
      * left. apply Hkeep; [exact X|reflexivity].
      * right; right. exists f. apply Hkeep; [exact X|reflexivity].
    + apply path_eqb_neq in Eqp. unfold has_file in Hq. rewrite V9 in Hq by exact Eqp.
      destruct (N q Hq) as [Y|[Y|[f Y]]]; [left; apply Hkeep; [exact Y|reflexivity]|right; left; exact Y|].
      right; right. exists f. apply Hkeep; [exact Y|reflexivity].
  - (* du_z2 *) intros q Hq. rewrite V10 in Hq. apply O. exact Hq.
  - (* du_g1 *)
    intros q Hq. destruct (P q Hq) as [X|[[r X]|(X1 & X2 & X3)]].
    + left. apply Hkeep; [exact X|reflexivity].
    + right; left. exists r. apply Hkeep; [exact X|reflexivity].
    + right; right. split; [intro Y; apply X1; apply Hsub; exact Y|]. split; [exact X2|].
      assert (q <> p) by (intro; subst q; congruence). unfold has_file. rewrite V9 by assumption. exact X3.
  - (* du_rl *)
    intros q b Hin. rewrite V5. rewrite fold_filter_skip.
    + apply Q. apply Hsub. exact Hin.
    + intros o _ Ho a. apply (fx_step_data p). destruct (is_data_op p o); [reflexivity|discriminate].
  - (* du_rtd *) intros f r Hin. eapply Rt. apply Hsub. exact Hin.
Qed.

(* ---- sync_dir: the entries of the directory become durable ------------------------------------ *)
Lemma length_removelast {A} (l : list A) : l <> [] -> length (removelast l) = pred (length l).
Proof.
  induction l as [|a l IH]; [congruence|]. intros _. destruct l as [|b l]; [reflexivity|].
  cbn [removelast length] in *. rewrite IH by discriminate. reflexivity.
Qed.

Lemma child_of_irrefl d : child_of d d = false.
Proof.
  unfold child_of, parent. destruct d as [|a d]; [reflexivity|].
  destruct (path_eqb (removelast (a :: d)) (a :: d)) eqn:E; [|reflexivity].
  apply path_eqb_eq in E. assert (L := length_removelast (a :: d) ltac:(discriminate)).
  rewrite E in L. cbn in L. lia.
Qed.

Lemma nget_filter_key (f : path -> bool) : forall m q,
  nget (filter (fun x => f (fst x)) m) q = if f q then nget m q else None.
Proof.
  induction m as [|[r e] m IH]; intro q; cbn.
  - destruct (f q); reflexivity.
  - destruct (f r) eqn:Er; cbn.
    + destruct (path_eqb r q) eqn:E; [apply path_eqb_eq in E; subst; rewrite Er; reflexivity|apply IH].
    + rewrite IH. destruct (path_eqb r q) eqn:E; [apply path_eqb_eq in E; subst; rewrite Er; reflexivity|reflexivity].
Qed.

Lemma nget_fold_kids (nm : list (path * entry)) : forall l m q,
  nget (fold_left (fun m q => match nget nm q with Some e => nset m q e | None => m end) l m) q =
  if mem_path q l then (match nget nm q with Some e => Some e | None => nget m q end) else nget m q.
Proof.
  induction l as [|r l IH]; intros m q; cbn [fold_left mem_path existsb]; [reflexivity|].
  rewrite IH. fold (mem_path q l).
  destruct (path_eqb q r) eqn:E.
  - apply path_eqb_eq in E. subst r. cbn [orb].
    destruct (nget nm q) as [e|] eqn:En.
    + rewrite nget_nset, path_eqb_refl. destruct (mem_path q l); reflexivity.
    + destruct (mem_path q l); reflexivity.
  - cbn [orb]. destruct (nget nm r) as [e|] eqn:En; [|reflexivity].
    rewrite nget_nset, path_eqb_sym, E. reflexivity.
Qed.

Lemma pwrites_filter_keep (f : pop -> bool) l :
  (forall o, is_pwrite o = true -> f o = true) -> pwrites (filter f l) = pwrites l.
Proof.
  intro H. unfold pwrites. induction l as [|o l IH]; cbn; [reflexivity|].
  destruct (f o) eqn:Ef; cbn; destruct (is_pwrite o) eqn:Ep; rewrite ?IH; try reflexivity.
  rewrite (H o Ep) in Ef. discriminate.
Qed.

Lemma nodup_filter_keys {B} (f : path * B -> bool) : forall m, NoDup (map fst m) -> NoDup (map fst (filter f m)).
Proof.
  induction m as [|x m IH]; cbn; intro H; [constructor|]. inversion H; subst.
  destruct (f x); cbn; [|apply IH; assumption]. constructor; [|apply IH; assumption].
  intro Hin. apply in_map_iff in Hin as (y & Hy & Hin). apply filter_In in Hin as [Hin _].
  apply H2. apply in_map_iff. exists y. split; assumption.
Qed.

Lemma nodup_nset m p e : NoDup (map fst m) -> NoDup (map fst (nset m p e)).
Proof.
  intro H. unfold nset. cbn [map fst]. constructor.
  - intro Hin. unfold ndel in Hin. apply in_map_iff in Hin as ([q x] & Hq & Hin). cbn in Hq. subst q.
    apply filter_In in Hin as [_ Hf]. cbn in Hf. rewrite path_eqb_refl in Hf. discriminate.
  - apply nodup_filter_keys. exact H.
Qed.

Lemma nodup_fold_kids (nm : list (path * entry)) : forall l m, NoDup (map fst m) ->
  NoDup (map fst (fold_left (fun m q => match nget nm q with Some e => nset m q e | None => m end) l m)).
Proof.
  induction l as [|q l IH]; intros m H; cbn [fold_left]; [exact H|].
  apply IH. destruct (nget nm q); [apply nodup_nset|]; exact H.
Qed.

Lemma nget_filter_nodup (f : path * entry -> bool) : forall m q, NoDup (map fst m) ->
  nget (filter f m) q = match nget m q with Some e => if f (q, e) then Some e else None | None => None end.
Proof.
  induction m as [|[r e] m IH]; intros q Hnd; cbn; [reflexivity|].
  cbn [map fst] in Hnd. inversion Hnd; subst.
  destruct (f (r, e)) eqn:Ef; cbn.
  - destruct (path_eqb r q) eqn:E; [apply path_eqb_eq in E; subst; rewrite Ef; reflexivity|apply IH; assumption].
  - rewrite IH by assumption. destruct (path_eqb r q) eqn:E; [|reflexivity].
    apply path_eqb_eq in E. subst r. rewrite Ef.
    destruct (nget m q) as [e'|] eqn:En; [|reflexivity]. exfalso. apply H1.
    apply nget_In in En. apply in_map_iff. exists (q, e'). split; [reflexivity|exact En].
Qed.

(* the durable entries after dir_sync, in general *)
Lemma nget_dir_sync d dd q : NoDup (map fst (dents d)) ->
  nget (dents (dir_sync d dd)) q =
  if child_of q dd then nget (names (dw d)) q
  else if path_eqb q dd then Some EDir
  else match nget (dents d) q with
       | Some e => if taken (dw d) dd (q, e) then None else Some e
       | None => None
       end.
Proof.
  intro Hnd. unfold dir_sync. cbn [dents]. rewrite nget_fold_kids.
  destruct (mem_path q (children (dw d) dd)) eqn:Em.
  - apply mem_path_In in Em. apply in_children in Em as [Hc Hn]. rewrite Hc.
    destruct (nget (names (dw d)) q); [reflexivity|congruence].
  - rewrite nget_nset, path_eqb_sym.
    destruct (path_eqb q dd) eqn:Eqd.
    + apply path_eqb_eq in Eqd. subst q. rewrite child_of_irrefl. reflexivity.
    + rewrite (nget_filter_nodup (fun x => negb (taken (dw d) dd x)))
        by (apply nodup_filter_keys; exact Hnd).
      rewrite (nget_filter_key (fun r => negb (child_of r dd) || match nget (names (dw d)) r with Some _ => true | None => false end)).
      destruct (child_of q dd) eqn:Ec; cbn [negb orb].
      * destruct (nget (names (dw d)) q) eqn:En; [|reflexivity].
        exfalso. assert (In q (children (dw d) dd)) by (apply in_children; split; [exact Ec|congruence]).
        apply mem_path_In in H. congruence.
      * destruct (nget (dents d) q) as [e|]; [|reflexivity]. destruct (taken (dw d) dd (q, e)); reflexivity.
Qed.

(* a durable name outside the directory is not displaced by one of the directory's current names *)
Lemma nget_dir_sync_nr d dd q : NoDup (map fst (dents d)) ->
  (forall k r i, nget (dents d) r = Some (EFile i) -> nget (names (dw d)) k = Some (EFile i) ->
                 child_of k dd = true -> child_of r dd = false -> r = k) ->
  nget (dents (dir_sync d dd)) q =
  if child_of q dd then nget (names (dw d)) q
  else if path_eqb q dd then Some EDir else nget (dents d) q.
Proof.
  intros Hnd Hu. rewrite nget_dir_sync by exact Hnd.
  destruct (child_of q dd) eqn:Hcq; [reflexivity|]. destruct (path_eqb q dd); [reflexivity|].
  destruct (nget (dents d) q) as [[|i]|] eqn:Ed; try reflexivity.
  assert (Ht : taken (dw d) dd (q, EFile i) = false); [|rewrite Ht; reflexivity].
  unfold taken. cbn [snd fst].
  destruct (existsb _ (children (dw d) dd)) eqn:Ee; [|reflexivity]. exfalso.
  apply existsb_exists in Ee as (k & Hk0 & Hk). apply andb_true_iff in Hk as [Hne Hk].
  destruct (nget (names (dw d)) k) as [[|j]|] eqn:Ek; try discriminate.
  apply N.eqb_eq in Hk. subst j. apply in_children in Hk0 as [Hck _].
  assert (q = k) by (eapply Hu; eauto). subst k.
  rewrite path_eqb_refl in Hne. discriminate.
Qed.

(* a fold of fx_step either ignores its start value or returns it *)
Lemma fx_step_cases q o : (forall b, fx_step q b o = b) \/ (exists c, forall b, fx_step q b o = c).
Proof.
  destruct o; cbn; auto.
  - destruct (path_eqb p q); [right; exists true; reflexivity|left; reflexivity].
  - destruct (path_eqb from q); [right; exists false; reflexivity|].
    destruct (path_eqb to q); [right; exists true; reflexivity|left; reflexivity].
  - destruct (path_eqb p q); [right; exists false; reflexivity|left; reflexivity].
Qed.

Lemma fx_fold_cases q : forall l,
  (forall b, fold_left (fx_step q) l b = b) \/ (forall b1 b2, fold_left (fx_step q) l b1 = fold_left (fx_step q) l b2).
Proof.
  induction l as [|o l IH]; [left; reflexivity|].
  destruct (fx_step_cases q o) as [Hid|[c Hc]].
  - destruct IH as [IH|IH].
    + left. intro b. cbn [fold_left]. rewrite Hid. apply IH.
    + right. intros b1 b2. cbn [fold_left]. apply IH.
  - right. intros b1 b2. cbn [fold_left]. rewrite !Hc. reflexivity.
Qed.

(* folds over a list that holds no removal of q *)
Lemma fx_fold_noremove q : forall l b, ~ In (PRemoveFile q) l -> (forall r, ~ In (PRename q r) l) ->
  (b = true \/ In (CreateFile q) l \/ exists f, In (PRename f q) l) -> fold_left (fx_step q) l b = true.
Proof.
  induction l as [|o l IH]; intros b Hn Hs H; cbn [fold_left].
  - destruct H as [H|[[]|[f []]]]. exact H.
  - apply IH; [intro; apply Hn; right; assumption|intros r Hr; apply (Hs r); right; exact Hr|].
    destruct H as [H|[[H|H]|[f [H|H]]]];
      [|subst o; left; cbn; rewrite path_eqb_refl; reflexivity|right; left; exact H| |right; right; exists f; exact H].
    + left. subst b. destruct o; cbn; try reflexivity.
      * destruct (path_eqb p q); reflexivity.
      * destruct (path_eqb from q) eqn:E; [apply path_eqb_eq in E; subst from; exfalso; apply (Hs to); left; reflexivity|].
        destruct (path_eqb to q); reflexivity.
      * destruct (path_eqb p q) eqn:E; [|reflexivity]. apply path_eqb_eq in E. subst p. exfalso. apply Hn. left; reflexivity.
    + subst o. left. cbn. destruct (path_eqb f q) eqn:E; [apply path_eqb_eq in E; subst f; exfalso; apply (Hs q); left; reflexivity|].
      rewrite path_eqb_refl. reflexivity.
Qed.

Lemma dx_fold_noremove q : forall l b, ~ In (PRemoveDir q) l ->
  (b = true \/ In (CreateDir q) l) -> fold_left (dx_step q) l b = true.
Proof.
  induction l as [|o l IH]; intros b Hn H; cbn [fold_left].
  - destruct H as [H|[]]. exact H.
  - apply IH; [intro; apply Hn; right; assumption|].
    destruct H as [H|[H|H]]; [|subst o; left; cbn; rewrite path_eqb_refl; reflexivity|right; exact H].
    left. subst b. destruct o; cbn; try reflexivity.
    + destruct (path_eqb p q); reflexivity.
    + destruct (path_eqb p q) eqn:E; [|reflexivity]. apply path_eqb_eq in E. subst p. exfalso. apply Hn. left; reflexivity.
Qed.

(* any-kind toggle of the entry q *)
Definition ex_step (q : path) (b : bool) (o : pop) : bool :=
  match o with
  | CreateFile p | CreateDir p => if path_eqb p q then true else b
  | PRemoveFile p | PRemoveDir p => if path_eqb p q then false else b
  | PRename f t => if path_eqb t q then true else if path_eqb f q then false else b
  | _ => b
  end.

Lemma ex_fold_src q : forall l b, fold_left (ex_step q) l b = true ->
  b = true \/ In (CreateFile q) l \/ In (CreateDir q) l \/ exists f, In (PRename f q) l.
Proof.
  induction l as [|o l IH]; intros b H; cbn [fold_left] in *; [left; exact H|].
  apply IH in H as [H|[H|[H|[f H]]]];
    [|right; left; right; exact H|right; right; left; right; exact H|right; right; right; exists f; right; exact H].
  destruct o; cbn in H; auto.
  - destruct (path_eqb p q) eqn:E; auto. apply path_eqb_eq in E. subst. right; left; left; reflexivity.
  - destruct (path_eqb p q) eqn:E; auto. apply path_eqb_eq in E. subst. right; right; left; left; reflexivity.
  - destruct (path_eqb to q) eqn:E; [apply path_eqb_eq in E; subst; right; right; right; exists from; left; reflexivity|].
    destruct (path_eqb from q); [discriminate|auto].
  - destruct (path_eqb p q) eqn:E; auto. discriminate.
  - destruct (path_eqb p q) eqn:E; auto. discriminate.
Qed.

(* ex_step and fx_step agree on lists without directory operations on the key (renames of q onto itself aside) *)
Lemma ex_fold_fx q : forall l b, ~ In (CreateDir q) l -> ~ In (PRemoveDir q) l -> ~ In (PRename q q) l ->
  fold_left (ex_step q) l b = fold_left (fx_step q) l b.
Proof.
  induction l as [|o l IH]; intros b H1 H2 H3; cbn [fold_left]; [reflexivity|].
  rewrite IH by (intro; first [apply H1; right; assumption|apply H2; right; assumption|apply H3; right; assumption]). f_equal.
  destruct o; cbn; try reflexivity;
    try (destruct (path_eqb p q) eqn:E; try reflexivity;
         apply path_eqb_eq in E; subst p; exfalso;
         first [apply H1; left; reflexivity|apply H2; left; reflexivity]).
  destruct (path_eqb to q) eqn:E1; destruct (path_eqb from q) eqn:E2; try reflexivity.
  apply path_eqb_eq in E1, E2. subst. exfalso. apply H3. left. reflexivity.
Qed.

(* ex_step and dx_step agree on lists without file operations on the key *)
Lemma ex_fold_dx q : forall l b, ~ In (CreateFile q) l -> ~ In (PRemoveFile q) l -> ~ In q (rnames l) ->
  fold_left (ex_step q) l b = fold_left (dx_step q) l b.
Proof.
  induction l as [|o l IH]; intros b H1 H2 H3; cbn [fold_left]; [reflexivity|].
  rewrite IH; [f_equal|intro; apply H1; right; assumption|intro; apply H2; right; assumption|
               intro X; apply H3; destruct o; cbn; auto].
  destruct o; cbn; try reflexivity;
    try (destruct (path_eqb p q) eqn:E; try reflexivity;
         apply path_eqb_eq in E; subst p; exfalso;
         first [apply H1; left; reflexivity|apply H2; left; reflexivity]).
  destruct (path_eqb to q) eqn:E1; [apply path_eqb_eq in E1; subst; exfalso; apply H3; cbn; auto|].
  destruct (path_eqb from q) eqn:E2; [apply path_eqb_eq in E2; subst; exfalso; apply H3; cbn; auto|reflexivity].
Qed.

Lemma fx_fold_nokey q : forall l b, (forall o, In o l -> on_key q o = false) -> fold_left (fx_step q) l b = b.
Proof. intros l b H. apply fold_left_id_in. intros a o Ho. apply off_key_fx. auto. Qed.
Lemma dx_fold_nokey q : forall l b,
  (forall o, In o l -> o <> CreateDir q /\ o <> PRemoveDir q) -> fold_left (dx_step q) l b = b.
Proof.
  intros l b H. apply fold_left_id_in. intros a o Ho. destruct (H o Ho) as (A & C).
  destruct o; cbn; try reflexivity; destruct (path_eqb p q) eqn:E; try reflexivity;
    apply path_eqb_eq in E; subst p; congruence.
Qed.

Lemma fold_sd_bsize dd : forall l st,
  bsize (fold_left (fun st o => apply_op (set_synced st (mark_synced dd (synced st) o)) o) l st) = bsize st.
Proof.
  induction l as [|o l IH]; intro st; cbn [fold_left]; [reflexivity|].
  rewrite IH. destruct (apply_op_frame (set_synced st (mark_synced dd (synced st) o)) o) as (_ & _ & X).
  rewrite X. reflexivity.
Qed.

(* membership in the synced set after one flushed op, for every kind of op *)
Definition sy_step (dd q : path) (b : bool) (o : pop) : bool :=
  match o with
  | CreateFile p => if child_of p dd && path_eqb p q then true else b
  | CreateDir p => if (path_eqb p dd || child_of p dd) && path_eqb p q then true else b
  | PRemoveFile p | PRemoveDir p => if child_of p dd && path_eqb p q then false else b
  | PRename f t => if child_of t dd && path_eqb t q then true else if child_of f dd && path_eqb f q then false else b
  | _ => b
  end.

Lemma mem_mark_synced_gen dd q l o :
  mem_path q (mark_synced dd l o) = sy_step dd q (mem_path q l) o.
Proof.
  destruct o; cbn [mark_synced sy_step] in *; try reflexivity.
  - destruct (child_of p dd); cbn [andb]; [|reflexivity].
    rewrite mem_padd, (path_eqb_sym q p). destruct (path_eqb p q); [apply orb_true_r|apply orb_false_r].
  - destruct (path_eqb p dd || child_of p dd); cbn [andb]; [|reflexivity].
    rewrite mem_padd, (path_eqb_sym q p). destruct (path_eqb p q); [apply orb_true_r|apply orb_false_r].
  - destruct (child_of to dd); cbn [andb].
    + rewrite mem_padd, (path_eqb_sym q to). destruct (path_eqb to q); [apply orb_true_r|]. rewrite orb_false_r.
      destruct (child_of from dd); cbn [andb]; [|reflexivity].
      rewrite mem_pdel, (path_eqb_sym q from). destruct (path_eqb from q); cbn; [apply andb_false_r|apply andb_true_r].
    + destruct (child_of from dd); cbn [andb]; [|reflexivity].
      rewrite mem_pdel, (path_eqb_sym q from). destruct (path_eqb from q); cbn; [apply andb_false_r|apply andb_true_r].
  - destruct (child_of p dd); cbn [andb]; [|reflexivity].
    rewrite mem_pdel, (path_eqb_sym q p). destruct (path_eqb p q); cbn; [apply andb_false_r|apply andb_true_r].
  - destruct (child_of p dd); cbn [andb]; [|reflexivity].
    rewrite mem_pdel, (path_eqb_sym q p). destruct (path_eqb p q); cbn; [apply andb_false_r|apply andb_true_r].
Qed.

Lemma fold_mark_synced_gen dd q : forall l sy,
  mem_path q (fold_left (mark_synced dd) l sy) = fold_left (sy_step dd q) l (mem_path q sy).
Proof.
  induction l as [|o l IH]; intros sy; cbn [fold_left]; [reflexivity|].
  rewrite IH. rewrite mem_mark_synced_gen. reflexivity.
Qed.

(* for a child of the directory, over a list whose renames have both names in the directory or neither *)
Lemma sy_fold_child dd q : child_of q dd = true -> forall l b,
  (forall f r, In (PRename f r) l -> child_of f dd = child_of r dd) ->
  fold_left (sy_step dd q) l b = fold_left (ex_step q) l b.
Proof.
  intros Hc l. induction l as [|o l IH]; intros b Hs; cbn [fold_left]; [reflexivity|].
  rewrite IH by (intros f r Hin; apply Hs; right; exact Hin). f_equal. destruct o; cbn; try reflexivity;
    try (destruct (path_eqb p q) eqn:E; rewrite ?andb_false_r; try reflexivity;
         apply path_eqb_eq in E; subst p; rewrite Hc, ?orb_true_r; reflexivity).
  pose proof (Hs from to (or_introl eq_refl)) as Hft.
  destruct (path_eqb to q) eqn:E1.
  - apply path_eqb_eq in E1. subst to. rewrite Hc. reflexivity.
  - rewrite andb_false_r. destruct (path_eqb from q) eqn:E2; [|rewrite andb_false_r; reflexivity].
    apply path_eqb_eq in E2. subst from. rewrite Hc. reflexivity.
Qed.

Lemma sy_step_own dd b o :
  sy_step dd dd b o = match o with CreateDir p => if path_eqb p dd then true else b | _ => b end.
Proof.
  destruct o; cbn [sy_step]; try reflexivity;
    try (destruct (path_eqb p dd) eqn:E; rewrite ?andb_false_r; try reflexivity;
         apply path_eqb_eq in E; subst p; rewrite child_of_irrefl; reflexivity).
  destruct (path_eqb to dd) eqn:E1; [apply path_eqb_eq in E1; subst to; rewrite child_of_irrefl|rewrite andb_false_r]; cbn [andb];
    (destruct (path_eqb from dd) eqn:E2; [apply path_eqb_eq in E2; subst from; rewrite child_of_irrefl|rewrite andb_false_r]; reflexivity).
Qed.

Lemma sy_fold_own dd : forall l b,
  fold_left (sy_step dd dd) l b = true <-> (b = true \/ In (CreateDir dd) l).
Proof.
  induction l as [|o l IH]; intro b; cbn [fold_left].
  - split; [auto|intros [H|[]]; exact H].
  - rewrite IH, sy_step_own. destruct o; try (split; [intros [H|H]; auto; right; right; exact H|intros [H|[H|H]]; auto; discriminate]).
    destruct (path_eqb p dd) eqn:E.
    + apply path_eqb_eq in E. subst p. split; [intros _; right; left; reflexivity|intros _; left; reflexivity].
    + split; [intros [H|H]; auto; right; right; exact H|].
      intros [H|[H|H]]; auto. inversion H; subst p. rewrite path_eqb_refl in E. discriminate.
Qed.

Lemma sy_fold_other dd q : child_of q dd = false -> path_eqb q dd = false -> forall l b,
  fold_left (sy_step dd q) l b = b.
Proof.
  intros Hc Hq l b. apply fold_left_id_in. intros a o _.
  destruct o; cbn; try reflexivity;
    try (destruct (path_eqb p q) eqn:E; rewrite ?andb_false_r; try reflexivity;
         apply path_eqb_eq in E; subst p; rewrite Hc, ?Hq; reflexivity).
  destruct (path_eqb to q) eqn:E1; [apply path_eqb_eq in E1; subst to; rewrite Hc|rewrite andb_false_r]; cbn [andb];
    (destruct (path_eqb from q) eqn:E2; [apply path_eqb_eq in E2; subst from; rewrite Hc|rewrite andb_false_r]; reflexivity).
Qed.

(* operations that are not flushed do not touch the entries of the directory *)
Lemma ex_step_entry d q o a : same_side d o -> is_entry_op d o = false -> child_of q d = true -> ex_step q a o = a.
Proof.
  destruct o; cbn; intros Hs H Hc; try reflexivity;
    try ((destruct (path_eqb p q) eqn:E; [|reflexivity]); apply path_eqb_eq in E; subst;
         rewrite Hc, ?orb_true_r in H; discriminate).
  apply orb_false_iff in H as [H1 H2].
  destruct (path_eqb to q) eqn:E1; [apply path_eqb_eq in E1; subst; congruence|].
  destruct (path_eqb from q) eqn:E2; [apply path_eqb_eq in E2; subst; congruence|reflexivity].
Qed.

(* ---- facts about the log that the invariants give --------------------------------------------------- *)
Section LogFacts.
  Variables (s : fs) (d : dworld) (g gd : list path).
  Hypothesis HI : InvF s (dw d) g.
  Hypothesis HD : Dur s d g gd.

  Lemma log_no_remove q : mem_path q g = false -> ~ In (PRemoveFile q) (pending s).
  Proof. intros Hq Hin. apply (inv_rm _ _ _ HI) in Hin. congruence. Qed.
  Lemma log_no_rmdir q : mem_path q gd = false -> ~ In (PRemoveDir q) (pending s).
  Proof. intros Hq Hin. apply (du_rd _ _ _ _ HD) in Hin. congruence. Qed.
  Lemma log_no_src q : mem_path q g = false -> forall r, ~ In (PRename q r) (pending s).
  Proof. intros Hq r Hin. apply (inv_rs _ _ _ HI) in Hin. congruence. Qed.
  Lemma gone_none q : mem_path q g = true -> nget (names (dw d)) q = None.
  Proof. intro Hq. apply nget_none_iff. split; [apply (inv_gone _ _ _ HI); exact Hq|apply (du_k _ _ _ _ HD); exact Hq]. Qed.

  Lemma log_createfile q : In (CreateFile q) (pending s) -> mem_path q g = false -> is_file (dw d) q = true.
  Proof.
    intros Hin Hq. rewrite <- (inv_fx _ _ _ HI), file_exists_fold.
    apply fx_fold_noremove; [apply log_no_remove; exact Hq|apply log_no_src; exact Hq|right; left; exact Hin].
  Qed.
  Lemma log_createdir q : In (CreateDir q) (pending s) -> mem_path q gd = false -> is_dir (dw d) q = true.
  Proof.
    intros Hin Hq. rewrite <- (inv_dx _ _ _ HI), (dir_exists_fold s q (rw_nd _ (inv_rw _ _ _ HI))).
    apply dx_fold_noremove; [apply log_no_rmdir; exact Hq|right; exact Hin].
  Qed.

  (* kinds exclude each other *)
  Lemma log_kfile q : is_dir (dw d) q = true \/ mem_path q gd = true ->
    ~ In (CreateFile q) (pending s) /\ ~ In (PRemoveFile q) (pending s).
  Proof.
    intro Hk.
    assert (Hqg : mem_path q g = false).
    { destruct (mem_path q g) eqn:E0; [|reflexivity].
      destruct Hk as [X|X]; [apply (du_k _ _ _ _ HD) in E0; congruence|apply (du_k2 _ _ _ _ HD) in E0; congruence]. }
    split; [|apply log_no_remove; exact Hqg].
    intro Hin. apply log_createfile in Hin; [|exact Hqg]. destruct Hk as [X|X].
    - unfold is_file, is_dir in *. destruct (nget (names (dw d)) q) as [[|?]|]; discriminate.
    - apply (du_kd _ _ _ _ HD) in X. congruence.
  Qed.
  Lemma log_kdir q : is_file (dw d) q = true \/ mem_path q g = true ->
    ~ In (CreateDir q) (pending s) /\ ~ In (PRemoveDir q) (pending s).
  Proof.
    intro Hk.
    assert (Hqg : mem_path q gd = false).
    { destruct (mem_path q gd) eqn:E0; [|reflexivity].
      destruct Hk as [X|X]; [apply (du_kd _ _ _ _ HD) in E0; congruence|apply (du_k2 _ _ _ _ HD) in X; congruence]. }
    split; [|apply log_no_rmdir; exact Hqg].
    intro Hin. apply log_createdir in Hin; [|exact Hqg]. destruct Hk as [X|X].
    - unfold is_file, is_dir in *. destruct (nget (names (dw d)) q) as [[|?]|]; discriminate.
    - apply (du_k _ _ _ _ HD) in X. congruence.
  Qed.
  (* a directory-kind path is the name of no pending rename *)
  Lemma log_kren q : is_dir (dw d) q = true \/ mem_path q gd = true -> ~ In q (rnames (pending s)).
  Proof.
    intros Hk Hin. apply in_rnames in Hin as (f & r & Hin & [->| ->]).
    - pose proof (inv_rs _ _ _ HI f r Hin) as X. destruct (inv_rd _ _ _ HI f r Hin) as [Y _].
      destruct Hk as [Z|Z]; [congruence|apply (du_k2 _ _ _ _ HD) in X; congruence].
    - destruct (inv_rd _ _ _ HI f r Hin) as [_ Y]. pose proof (du_rtd _ _ _ _ HD f r Hin) as X.
      destruct Hk as [Z|Z]; congruence.
  Qed.
  (* for a directory-kind path the entry is synced iff the directory is persisted *)
  Lemma log_dirkind q : is_dir (dw d) q = true \/ mem_path q gd = true -> mem_path q (synced s) = mem_path q (pdirs s).
  Proof.
    intro Hk. destruct (mem_path q (pdirs s)) eqn:Ep; [apply (du_z2 _ _ _ _ HD); exact Ep|].
    rewrite (du_sy _ _ _ _ HD). destruct (nget (dents d) q) as [[|i]|] eqn:Ed; cbn [some]; [|exfalso|reflexivity].
    - apply (du_dd _ _ _ _ HD) in Ed. congruence.
    - destruct (du_ef _ _ _ _ HD q i Ed) as [X|[X|[f X]]].
      + destruct Hk as [Y|Y]; [unfold is_dir in Y; rewrite X in Y; discriminate|].
        apply (du_kd _ _ _ _ HD) in Y. unfold is_file in Y. rewrite X in Y. discriminate.
      + destruct Hk as [Y|Y]; [apply (du_k _ _ _ _ HD) in X; congruence|apply (du_k2 _ _ _ _ HD) in X; congruence].
      + apply (log_kren q Hk). apply (rnames_in _ _ _ X).
  Qed.
  Lemma log_rm_gone q : In (PRemoveFile q) (pending s) -> file_exists s q = false.
  Proof.
    intro Hin. apply (inv_rm _ _ _ HI) in Hin. rewrite (inv_fx _ _ _ HI). apply (inv_gone _ _ _ HI). exact Hin.
  Qed.
End LogFacts.

Lemma Dur_sync_dir s d g gd dd :
  InvF s (dw d) g -> Dur s d g gd -> nget (names (dw d)) dd = Some EDir ->
  (forall f r, In (PRename f r) (pending s) -> child_of f dd = child_of r dd) ->
  Dur (fst (sync_dir s dd)) (dir_sync d dd) g gd.
Proof.
  intros HI HD Hdd Hsd. pose proof HD as [A Ap And B C D E F G Gd G2 H I J K L M N O P Q R Rt].
  pose proof HI as [iA iB iC iD iE iF iG iH iI iJ iK iL iM].
  assert (Hex : dir_exists s dd = true) by (rewrite iC; apply is_dir_iff; exact Hdd).
  destruct (sync_dir_views s dd iA Hsd Hex) as (_ & V1 & V2 & V3 & V4 & V5 & Wo & Wc0 & Wh & V7 & Rc & Ro).
  set (flush := filter (is_entry_op dd) (pending s)) in *.
  set (s' := fst (sync_dir s dd)) in *.
  assert (Wc : forall q, child_of q dd = true ->
            fget (pfiles s') q = if file_exists s q then Some (cont (fget (pfiles s) (resolve s q))) else None).
  { intros q Hc. apply Wc0; [exact Hc|]. apply (log_rm_gone s d g HI). }
  assert (Hnd := rw_nodup _ iA).
  (* a durable name outside the directory is not displaced *)
  assert (Hu' : forall k r i, nget (dents d) r = Some (EFile i) -> nget (names (dw d)) k = Some (EFile i) ->
            child_of k dd = true -> child_of r dd = false -> r = k).
  { intros k r i Hr Hk Hck Hcr. pose proof (J k r i Hr Hk) as X.
    destruct (tgt_dec (pending s) k) as [[f Hf]|Hnt].
    - rewrite (resolve_tgt s f k Hnd Hf) in X. subst r. rewrite (Hsd f k Hf) in Hcr. congruence.
    - rewrite (resolve_other s k Hnt) in X. exact X. }
  assert (NDS := fun q => nget_dir_sync_nr d dd q And Hu').
  assert (Vsy : forall q, mem_path q (synced s') = fold_left (sy_step dd q) flush (mem_path q (synced s))).
  { intro q. unfold s', sync_dir. rewrite Hex. cbn [negb fst]. rewrite fold_sd_synced. cbn [synced set_pending].
    apply fold_mark_synced_gen. }
  assert (Vbs : bsize s' = bsize s).
  { unfold s', sync_dir. rewrite Hex. cbn [negb fst]. rewrite fold_sd_bsize. reflexivity. }
  assert (Hfl_in : forall o, In o flush -> In o (pending s) /\ is_entry_op dd o = true)
    by (intros o Ho; apply filter_In in Ho; exact Ho).
  assert (Hfl_of : forall o, In o (pending s) -> is_entry_op dd o = true -> In o flush)
    by (intros o Ho He; apply filter_In; split; assumption).
  assert (Hkeep_in : forall o, In o (pending s') -> In o (pending s) /\ is_entry_op dd o = false).
  { intros o Ho. rewrite V5 in Ho. apply filter_In in Ho as [X Y]. split; [exact X|]. destruct (is_entry_op dd o); [discriminate|reflexivity]. }
  assert (Hkeep_of : forall o, In o (pending s) -> is_entry_op dd o = false -> In o (pending s')).
  { intros o Ho He. rewrite V5. apply filter_In. split; [exact Ho|]. rewrite He. reflexivity. }
  assert (Hside : forall o, In o (pending s) -> same_side dd o) by (intros o Ho; destruct o; cbn; auto).
  assert (Hgn := gone_none s d g gd HI HD).
  (* the synced mark of a child is the any-kind toggle over the whole log *)
  assert (Hsy_child : forall q, child_of q dd = true ->
            mem_path q (synced s') = fold_left (ex_step q) (pending s) (mem_path q (synced s))).
  { intros q Hc. rewrite Vsy, (sy_fold_child dd q Hc) by (intros f r Hin; apply Hfl_in in Hin as [Hin _]; apply Hsd; exact Hin).
    unfold flush. apply fold_filter_skip. intros o Ho He a. apply (ex_step_entry dd); auto. }
  assert (Wpd_all : forall q, path_eqb q dd || child_of q dd = true -> mem_path q (pdirs s') = dir_exists s q).
  { intros q Hc. rewrite V7, (dir_exists_fold s q (rw_nd _ iA)). unfold flush. apply fold_filter_skip.
    intros o _ Ho a. apply (dx_step_entry dd). rewrite Ho, Hc. reflexivity. }
  assert (Wsy_child : forall q, child_of q dd = true -> mem_path q (synced s') = some (nget (names (dw d)) q)).
  { intros q Hc. rewrite (Hsy_child q Hc).
    destruct (nget (names (dw d)) q) as [[|i]|] eqn:En; cbn [some].
    - (* directory *)
      assert (Hk : is_dir (dw d) q = true \/ mem_path q gd = true) by (left; apply is_dir_iff; exact En).
      destruct (log_kfile s d g gd HI HD q Hk) as [X1 X2]. pose proof (log_kren s d g gd HI HD q Hk) as X3.
      rewrite ex_fold_dx by assumption.
      rewrite (log_dirkind s d g gd HI HD q Hk), <- (dir_exists_fold s q (rw_nd _ iA)), iC. apply is_dir_iff. exact En.
    - (* file *)
      assert (Hf : is_file (dw d) q = true) by (apply is_file_iff; eauto).
      assert (Hq : mem_path q g = false) by (destruct (mem_path q g) eqn:E0; [rewrite (Hgn q E0) in En; discriminate|reflexivity]).
      destruct (log_kdir s d g gd HI HD q (or_introl Hf)) as [X1 X2].
      assert (X3 : ~ In (PRename q q) (pending s)) by (apply (log_no_src s d g HI q Hq)).
      rewrite ex_fold_fx by assumption.
      assert (Hfe : fold_left (fx_step q) (pending s) (has_file (pfiles s) q) = true) by (rewrite <- file_exists_fold, iB; exact Hf).
      destruct (fx_fold_cases q (pending s)) as [Hid|Hcst].
      + rewrite Hid in *. destruct (N q Hfe) as [Y|[Y|[f Y]]]; [|exact Y|]; exfalso.
        * assert (Z : fold_left (fx_step q) (pending s) false = true).
          { apply fx_fold_noremove; [apply (log_no_remove s d g HI q Hq)|apply (log_no_src s d g HI q Hq)|right; left; exact Y]. }
          rewrite Hid in Z. discriminate.
        * assert (Z : fold_left (fx_step q) (pending s) false = true).
          { apply fx_fold_noremove; [apply (log_no_remove s d g HI q Hq)|apply (log_no_src s d g HI q Hq)|right; right; exists f; exact Y]. }
          rewrite Hid in Z. discriminate.
      + rewrite (Hcst _ (has_file (pfiles s) q)). exact Hfe.
    - (* nothing *)
      destruct (mem_path q g) eqn:Hq.
      + destruct (log_kdir s d g gd HI HD q (or_intror Hq)) as [X1 X2].
        assert (X3 : ~ In (PRename q q) (pending s)).
        { intro Hin. apply (nodup_ren_ne _ q q Hnd Hin). reflexivity. }
        rewrite ex_fold_fx by assumption.
        destruct (P q Hq) as [X|[[r X]|(Y1 & Y2 & Y3)]].
        * apply Q. exact X.
        * apply (rshape_fx_src _ q r). apply (rw_shape _ iA q r X).
        * rewrite Y2. destruct (fold_left (fx_step q) (pending s) false) eqn:E0; [|reflexivity]. exfalso.
          pose proof (iB q) as Z. rewrite file_exists_fold, Y3, E0 in Z. unfold is_file in Z. rewrite En in Z. discriminate.
      + destruct (mem_path q gd) eqn:Hqd.
        * assert (Hk : is_dir (dw d) q = true \/ mem_path q gd = true) by (right; exact Hqd).
          destruct (log_kfile s d g gd HI HD q Hk) as [X1 X2]. pose proof (log_kren s d g gd HI HD q Hk) as X3.
          rewrite ex_fold_dx by assumption.
          rewrite (log_dirkind s d g gd HI HD q Hk), <- (dir_exists_fold s q (rw_nd _ iA)), iC.
          unfold is_dir. rewrite En. reflexivity.
        * destruct (fold_left (ex_step q) (pending s) (mem_path q (synced s))) eqn:E0; [|reflexivity]. exfalso.
          apply ex_fold_src in E0 as [X|[X|[X|[f X]]]].
          -- rewrite B in X. destruct (nget (dents d) q) as [[|j]|] eqn:Ed; try discriminate.
             ++ apply D in Ed. destruct (G q Ed) as [Y|Y]; [unfold is_dir in Y; rewrite En in Y; discriminate|congruence].
             ++ destruct (H q j Ed) as [Y|[Y|[f Y]]]; [congruence|congruence|].
                destruct (iL f q Y) as [Z|Z]; [unfold is_file in Z; rewrite En in Z; discriminate|congruence].
          -- apply (log_createfile s d g HI) in X; [|exact Hq]. unfold is_file in X. rewrite En in X. discriminate.
          -- apply (log_createdir s d g gd HI HD) in X; [|exact Hqd]. unfold is_dir in X. rewrite En in X. discriminate.
          -- destruct (iL f q X) as [Z|Z]; [unfold is_file in Z; rewrite En in Z; discriminate|congruence]. }
  assert (Wsy_own : mem_path dd (synced s') = true).
  { rewrite Vsy. apply sy_fold_own.
    destruct (dir_exists_src s dd (rw_nd _ iA) Hex) as [X|X].
    - left. apply O. exact X.
    - right. apply Hfl_of; [exact X|]. cbn. rewrite path_eqb_refl. reflexivity. }
  assert (Wsy_other : forall q, child_of q dd = false -> path_eqb q dd = false ->
            mem_path q (synced s') = mem_path q (synced s)).
  { intros q Hc Hq. rewrite Vsy. apply sy_fold_other; assumption. }
  assert (Wpd : forall q, mem_path q (pdirs s') = true -> is_dir (dw d) q = true \/ mem_path q gd = true).
  { intros q Hq. rewrite V7 in Hq. apply dx_fold_src in Hq as [X|X]; [apply G; exact X|].
    apply Hfl_in in X as [X _]. destruct (mem_path q gd) eqn:Hqd; [right; reflexivity|left; apply (log_createdir s d g gd HI HD); assumption]. }
  assert (Wpd_other : forall q, child_of q dd = false -> path_eqb q dd = false ->
            mem_path q (pdirs s') = mem_path q (pdirs s)).
  { intros q Hc Hq. rewrite V7. apply dx_fold_nokey. intros o Ho. apply Hfl_in in Ho as [_ He].
    split; intro; subst o; cbn in He; rewrite Hc, Hq in He; discriminate. }
  (* what a name resolves to stays on its side of the directory *)
  assert (Hres_side : forall q, child_of (resolve s q) dd = child_of q dd).
  { intro q. destruct (tgt_dec (pending s) q) as [[f Hf]|Hnt].
    - rewrite (resolve_tgt s f q Hnd Hf). apply Hsd. exact Hf.
    - rewrite (resolve_other s q Hnt). reflexivity. }
  assert (Wres : forall q i, nget (names (dw d)) q = Some (EFile i) ->
            cont (fget (pfiles s') (resolve s' q)) = cont (fget (pfiles s) (resolve s q))).
  { intros q i Hn. assert (Hfe : file_exists s q = true) by (rewrite iB; apply is_file_iff; eauto).
    destruct (child_of q dd) eqn:Hc.
    - rewrite (Rc q Hc), (Wc q Hc), Hfe. reflexivity.
    - rewrite (Ro q Hc). rewrite Wo; [reflexivity|]. rewrite Hres_side. exact Hc. }
  assert (Hkept_ren : forall f r, In (PRename f r) (pending s) -> child_of r dd = false -> In (PRename f r) (pending s')).
  { intros f r Hin Hc. apply Hkeep_of; [exact Hin|]. cbn. rewrite (Hsd f r Hin), Hc. reflexivity. }
  constructor; cbn [dw dir_sync ddata dbs dpend].
  - (* du_bs *) rewrite Vbs. exact A.
  - (* du_pend *)
    rewrite V5, pwrites_filter_keep by (intros o Ho; destruct o; try discriminate; reflexivity).
    eapply Forall2_impl; [|exact Ap]. intros o w (p0 & off0 & data0 & i0 & X1 & X2 & X3 & (Hlt & X4)).
    exists p0, off0, data0, i0. split; [exact X1|]. split; [exact X2|]. split; [exact X3|].
    split; [exact Hlt|]. cbn [dw dir_sync].
    destruct X4 as [Y|(Y1 & Y2 & Y3)]; [left; exact Y|right].
    split; [exact Y1|]. split; [exact Y2|].
    assert (Hother_q : forall q, child_of q dd = false -> path_eqb q dd = false ->
              nget (dents d) q = Some (EFile i0) -> nget (dents d) p0 = Some (EFile i0) -> child_of p0 dd = true -> False).
    { intros q Hc Hq Hdq Hdp Hcp. assert (p0 = q) by (eapply K; eauto). subst q. congruence. }
    assert (Hall : (nget (dents d) p0 = Some (EFile i0) /\ child_of p0 dd = true) \/ (forall q, nget (dents d) q <> Some (EFile i0)) ->
              forall q, nget (dents (dir_sync d dd)) q <> Some (EFile i0)).
    { intros Hcase q. rewrite NDS. destruct (child_of q dd) eqn:Hcq; [apply Y2|].
      destruct (path_eqb q dd) eqn:Hqd; [discriminate|].
      destruct Hcase as [[Hdp Hcp]|Hno]; [|apply Hno]. intro Hdq. eapply Hother_q; eauto. }
    rewrite NDS.
    destruct (child_of p0 dd) eqn:Hcp.
    + right. split; [apply Hgn; exact Y1|]. apply Hall.
      destruct Y3 as [Z|[_ Z]]; [left; split; [exact Z|reflexivity]|right; exact Z].
    + destruct (path_eqb p0 dd) eqn:Hpd.
      * apply path_eqb_eq in Hpd. subst p0. rewrite (Hgn dd Y1) in Hdd. discriminate.
      * destruct Y3 as [Z|[Z1 Z2]]; [left; exact Z|right]. split; [exact Z1|]. apply Hall. right. exact Z2.
  - (* du_nodup *)
    unfold dir_sync. cbn [dents]. apply nodup_fold_kids. apply nodup_nset. apply nodup_filter_keys. apply nodup_filter_keys. exact And.
  - (* du_sy *)
    intro q. rewrite NDS. destruct (child_of q dd) eqn:Hc.
    + apply Wsy_child. exact Hc.
    + destruct (path_eqb q dd) eqn:Hq.
      * apply path_eqb_eq in Hq. subst q. exact Wsy_own.
      * rewrite Wsy_other by assumption. apply B.
  - (* du_df *)
    intros q i. rewrite NDS. destruct (child_of q dd) eqn:Hc.
    + intro Hn. assert (Hfe : file_exists s q = true) by (rewrite iB; apply is_file_iff; eauto).
      rewrite (Wc q Hc), Hfe, (E q i Hn). reflexivity.
    + destruct (path_eqb q dd); [discriminate|]. intro Hn. rewrite Wo by exact Hc. apply C. exact Hn.
  - (* du_dd *)
    intros q. rewrite NDS. destruct (child_of q dd) eqn:Hc.
    + intro Hn. rewrite Wpd_all by (rewrite Hc; apply orb_true_r). rewrite iC. apply is_dir_iff. exact Hn.
    + destruct (path_eqb q dd) eqn:Hq.
      * intros _. rewrite Wpd_all by (rewrite Hq; reflexivity). apply path_eqb_eq in Hq. subst q. exact Hex.
      * intro Hn. rewrite Wpd_other by assumption. apply D. exact Hn.
  - (* du_cur *) intros q i Hn. rewrite (Wres q i Hn). apply E. exact Hn.
  - (* du_pf *)
    intros q Hq. destruct (child_of q dd) eqn:Hc.
    + left. rewrite (Wh q Hc), iB in Hq. exact Hq.
    + unfold has_file in Hq. rewrite Wo in Hq by exact Hc. apply F. exact Hq.
  - (* du_pd *) exact Wpd.
  - (* du_kd *) exact Gd.
  - (* du_k2 *) exact G2.
  - (* du_ef *)
    intros q i. rewrite NDS. destruct (child_of q dd) eqn:Hc; [intro Hn; left; exact Hn|].
    destruct (path_eqb q dd); [discriminate|]. intro Hn.
    destruct (H q i Hn) as [X|[X|[f X]]]; auto. right; right. exists f. apply Hkept_ren; assumption.
  - (* du_k *) exact I.
  - (* du_u *)
    intros p q i. rewrite NDS. destruct (child_of q dd) eqn:Hcq.
    + intros Hq Hp. assert (q = p) by (eapply iH; eauto). subst p. symmetry. apply Rc. exact Hcq.
    + destruct (path_eqb q dd); [discriminate|]. intros Hq Hp. pose proof (J p q i Hq Hp) as X.
      destruct (child_of p dd) eqn:Hcp.
      * exfalso. rewrite X, Hres_side in Hcq. congruence.
      * rewrite (Ro p Hcp). exact X.
  - (* du_u2 *)
    intros p q i. rewrite !NDS.
    destruct (child_of p dd) eqn:Hcp; destruct (child_of q dd) eqn:Hcq.
    + intros; eapply iH; eauto.
    + destruct (path_eqb q dd); [discriminate|]. intros Hp Hq. exfalso.
      pose proof (J p q i Hq Hp) as X. rewrite X, Hres_side in Hcq. congruence.
    + destruct (path_eqb p dd); [discriminate|]. intros Hp Hq. exfalso.
      pose proof (J q p i Hp Hq) as X. rewrite X, Hres_side in Hcp. congruence.
    + destruct (path_eqb p dd); [discriminate|]. destruct (path_eqb q dd); [discriminate|]. apply K.
  - (* du_b *)
    intros q i. rewrite NDS. destruct (child_of q dd); [apply iI|].
    destruct (path_eqb q dd); [discriminate|]. apply L.
  - (* du_b2 *) exact M.
  - (* du_z1 *)
    intros q Hq. destruct (child_of q dd) eqn:Hc.
    + right; left. rewrite (Wh q Hc), iB in Hq. apply is_file_iff in Hq as [i Hq].
      rewrite (Wsy_child q Hc), Hq. reflexivity.
    + unfold has_file in Hq. rewrite Wo in Hq by exact Hc.
      destruct (N q Hq) as [X|[X|[f X]]].
      * left. apply Hkeep_of; [exact X|]. cbn. exact Hc.
      * right; left. destruct (path_eqb q dd) eqn:Eq; [apply path_eqb_eq in Eq; subst q; exact Wsy_own|].
        rewrite Wsy_other by assumption. exact X.
      * right; right. exists f. apply Hkept_ren; assumption.
  - (* du_z2 *)
    intros q Hq. destruct (child_of q dd) eqn:Hc.
    + rewrite (Wsy_child q Hc). rewrite Wpd_all in Hq by (rewrite Hc; apply orb_true_r).
      rewrite iC in Hq. apply is_dir_iff in Hq. rewrite Hq. reflexivity.
    + destruct (path_eqb q dd) eqn:Eq; [apply path_eqb_eq in Eq; subst q; exact Wsy_own|].
      rewrite Wsy_other by assumption. apply O. rewrite <- Wpd_other by assumption. exact Hq.
  - (* du_g1 *)
    intros q Hq. destruct (child_of q dd) eqn:Hc.
    + right; right. split; [|split].
      * intro Hin. apply Hkeep_in in Hin as [_ He]. cbn in He. congruence.
      * rewrite (Wsy_child q Hc), (Hgn q Hq). reflexivity.
      * rewrite (Wh q Hc), iB. apply iG. exact Hq.
    + destruct (P q Hq) as [X|[[r X]|(X1 & X2 & X3)]].
      * left. apply Hkeep_of; [exact X|]. cbn. exact Hc.
      * right; left. exists r. apply Hkept_ren; [exact X|]. rewrite <- (Hsd q r X). exact Hc.
      * right; right. split; [intro Hin; apply X1; apply Hkeep_in in Hin; tauto|]. split.
        -- destruct (path_eqb q dd) eqn:Eq.
           ++ apply path_eqb_eq in Eq. subst q. apply I in Hq. unfold is_dir in Hq. rewrite Hdd in Hq. discriminate.
           ++ rewrite Wsy_other by assumption. exact X2.
        -- unfold has_file. rewrite Wo by exact Hc. exact X3.
  - (* du_rl *)
    intros q b Hin. pose proof (Hkeep_in _ Hin) as [Hp He]. cbn in He.
    rewrite V5. rewrite fold_filter_skip; [apply Q; exact Hp|].
    intros o Ho Hne a. apply (fx_step_entry dd); [apply Hside; exact Ho|]. rewrite He. cbn.
    destruct (is_entry_op dd o); [reflexivity|discriminate].
  - (* du_rd *) intros q Hin. apply Hkeep_in in Hin as [Hin _]. apply R. exact Hin.
  - (* du_rtd *) intros f r Hin. apply Hkeep_in in Hin as [Hin _]. eapply Rt. exact Hin.
Qed.

(* ---- crash ------------------------------------------------------------------------------------------ *)
Lemma fget_filter_key (f : path -> bool) : forall m q,
  fget (filter (fun e => f (fst e)) m) q = if f q then fget m q else None.
Proof.
  induction m as [|[r c] m IH]; intro q; cbn.
  - destruct (f q); reflexivity.
  - destruct (f r) eqn:Er; cbn.
    + destruct (path_eqb r q) eqn:E; [apply path_eqb_eq in E; subst; rewrite Er; reflexivity|apply IH].
    + rewrite IH. destruct (path_eqb r q) eqn:E; [apply path_eqb_eq in E; subst; rewrite Er; reflexivity|reflexivity].
Qed.

Lemma mem_path_filter (f : path -> bool) : forall l q, mem_path q (filter f l) = mem_path q l && f q.
Proof.
  unfold mem_path. induction l as [|r l IH]; intro q; cbn; [reflexivity|].
  destruct (f r) eqn:Er; cbn.
  - rewrite IH. destruct (path_eqb q r) eqn:E; [apply path_eqb_eq in E; subst; rewrite Er; reflexivity|reflexivity].
  - rewrite IH. destruct (path_eqb q r) eqn:E; [apply path_eqb_eq in E; subst; rewrite Er, andb_false_r; reflexivity|reflexivity].
Qed.

Lemma filter_all {A} (f : A -> bool) l : forallb f l = true -> filter f l = l.
Proof.
  induction l as [|a l IH]; cbn; [reflexivity|]. intro H. apply andb_true_iff in H as [Ha Hl].
  rewrite Ha, IH by exact Hl. reflexivity.
Qed.

Definition image_files (cont : list (N * bytes)) (ents : list (path * entry)) : list (N * bytes) :=
  flat_map (fun x => match snd x with EFile i => [(i, iget cont i)] | EDir => [] end) ents.

Lemma iget_image cont : forall ents i,
  iget (image_files cont ents) i =
  if existsb (fun x => match snd x with EFile j => j =? i | EDir => false end) ents then iget cont i else [].
Proof.
  induction ents as [|[p e] ents IH]; intro i; cbn; [reflexivity|].
  destruct e as [|j]; cbn; [apply IH|].
  destruct (N.eqb_spec j i); [subst; reflexivity|apply IH].
Qed.

Lemma nget_has_ino : forall m p i, nget m p = Some (EFile i) ->
  existsb (fun x => match snd x with EFile j => j =? i | EDir => false end) m = true.
Proof.
  intros m p i H. apply nget_In in H. apply existsb_exists. exists (p, EFile i). split; [exact H|]. cbn. apply N.eqb_refl.
Qed.

Lemma in_ancestors_parent : forall p q, parent p = Some q -> In q (ancestors p).
Proof.
  induction p as [|a p IH]; intros q H; [discriminate|].
  cbn [parent] in H. inversion H; subst q. clear H. cbn [ancestors].
  destruct p as [|b p]; [left; reflexivity|].
  right. change (removelast (a :: b :: p)) with (a :: removelast (b :: p)).
  apply in_map. apply IH. reflexivity.
Qed.

Lemma In_nget_nodup : forall (m : list (path * entry)) q e,
  NoDup (map fst m) -> In (q, e) m -> nget m q = Some e.
Proof.
  induction m as [|[r x] m IH]; intros q e Hnd Hin; [contradiction|].
  cbn [map fst] in Hnd. inversion Hnd; subst. cbn [nget].
  destruct Hin as [Heq|Hin].
  - inversion Heq; subst. rewrite path_eqb_refl. reflexivity.
  - destruct (path_eqb r q) eqn:E.
    + apply path_eqb_eq in E. subst r. exfalso. apply H1. apply in_map_iff. exists (q, e). split; [reflexivity|exact Hin].
    + apply IH; assumption.
Qed.

Lemma durable_ino_iff m i : NoDup (map fst m) ->
  (durable_ino m i = true <-> exists q, nget m q = Some (EFile i)).
Proof.
  intro Hnd. unfold durable_ino. split.
  - intro H. apply existsb_exists in H as ([q e] & Hin & He). destruct e as [|j]; [discriminate|].
    cbn in He. apply N.eqb_eq in He. subst j. exists q. apply In_nget_nodup; assumption.
  - intros [q Hq]. eapply nget_has_ino. exact Hq.
Qed.

(* the relation between a pending write and its reference entry, as the crash sees it *)
Definition crel (s : fs) (d : dworld) (o : pop) (w : N * nat * bytes) : Prop :=
  exists p off data i, o = PWrite p off data /\ w = (i, off, data) /\ data <> [] /\
    mem_path p (synced s) = durable_ino (dents d) i /\
    (mem_path p (synced s) = true -> nget (dents d) p = Some (EFile i)).

Lemma wrel_crel s d g gd o w : InvF s (dw d) g -> Dur s d g gd -> In o (pending s) -> wrel d g o w -> crel s d o w.
Proof.
  intros HI HD Hin (p & off & data & i & X1 & X2 & X3 & (Hlt & X4)).
  pose proof HD as [A Ap And B C D E F G Gd G2 H I J K L M N O P Q R Rt].
  subst o.
  (* a path with a pending write is no name of a pending rename *)
  assert (Hpt : forall f, ~ In (PRename f p) (pending s)).
  { intros f Hf. destruct (rshape_no_pwrite _ f p _ _ _ (rw_shape _ (inv_rw _ _ _ HI) f p Hf) Hin) as [_ X]. congruence. }
  exists p, off, data, i. split; [reflexivity|]. split; [exact X2|]. split; [exact X3|].
  rewrite B. destruct X4 as [Y|(Y1 & Y2 & [Y3|[Y3 Y4]])].
  - destruct (nget (dents d) p) as [[|j]|] eqn:Ed; cbn [some].
    + exfalso. apply D in Ed. destruct (G p Ed) as [Z|Z].
      * unfold is_dir in Z. rewrite Y in Z. discriminate.
      * apply Gd in Z. unfold is_file in Z. rewrite Y in Z. discriminate.
    + destruct (H p j Ed) as [Z|[Z|[f Z]]].
      * rewrite Y in Z. inversion Z; subst j. split; [|reflexivity].
        symmetry. apply durable_ino_iff; [exact And|eauto].
      * apply (inv_gone _ _ _ HI) in Z. unfold is_file in Z. rewrite Y in Z. discriminate.
      * exfalso. eapply Hpt. exact Z.
    + split; [|discriminate]. destruct (durable_ino (dents d) i) eqn:Edi; [|reflexivity].
      apply durable_ino_iff in Edi as [q Hq]; [|exact And]. pose proof (J p q i Hq Y) as Z.
      rewrite (resolve_other s p Hpt) in Z. subst q. congruence.
  - rewrite Y3. cbn [some]. split; [|reflexivity]. symmetry. apply durable_ino_iff; [exact And|eauto].
  - rewrite Y3. cbn [some]. split; [|discriminate]. destruct (durable_ino (dents d) i) eqn:Edi; [|reflexivity].
    apply durable_ino_iff in Edi as [q Hq]; [|exact And]. exfalso. eapply Y4. exact Hq.
Qed.

Lemma torn_writes_pwrites : forall ops s draws, torn_writes s (pwrites ops) draws = torn_writes s ops draws.
Proof.
  induction ops as [|o ops IH]; intros s draws; [reflexivity|].
  unfold pwrites in *. destruct o; cbn [filter is_pwrite torn_writes]; try apply IH.
  destruct (negb (mem_path p (synced s)) || (((length data + bsize s - 1) / bsize s) =? 0)%nat); [apply IH|].
  apply IH.
Qed.

Lemma apply_pwrite_frame s p off data :
  let s' := apply_op s (PWrite p off data) in
  synced s' = synced s /\ pdirs s' = pdirs s /\ pending s' = pending s /\ bsize s' = bsize s /\
  (forall q, has_file (pfiles s') q = has_file (pfiles s) q).
Proof.
  cbn [apply_op]. destruct (fget (pfiles s) p) as [c|] eqn:Ef; cbn; repeat split; auto.
  intro q. unfold has_file. cbn [pfiles]. rewrite fget_fset. destruct (path_eqb p q) eqn:E; [|reflexivity].
  apply path_eqb_eq in E. subst q. rewrite Ef. reflexivity.
Qed.

Lemma torn_writes_frame : forall ops s draws,
  let s' := torn_writes s ops draws in
  synced s' = synced s /\ pdirs s' = pdirs s /\ pending s' = pending s /\ bsize s' = bsize s /\
  (forall q, has_file (pfiles s') q = has_file (pfiles s) q).
Proof.
  induction ops as [|o ops IH]; intros s draws; cbn [torn_writes]; [repeat split; auto|].
  destruct o; try apply IH.
  destruct (negb (mem_path p (synced s)) || (((length data + bsize s - 1) / bsize s) =? 0)%nat); [apply IH|].
  destruct (hd 0%nat draws =? 0)%nat; [apply IH|].
  match goal with |- context[torn_writes ?s1 ops ?dr] => destruct (IH s1 dr) as (A & B & C & D & E) end.
  destruct (apply_pwrite_frame s p off (firstn (Nat.min (hd 0%nat draws * bsize s) (length data)) data)) as (A' & B' & C' & D' & E').
  cbv zeta in *. split; [congruence|]. split; [congruence|]. split; [congruence|]. split; [congruence|].
  intro q. rewrite E. apply E'.
Qed.

Lemma div_ceil_zero n b : (0 < b)%nat -> (((n + b - 1) / b =? 0) = (n =? 0))%nat.
Proof.
  intro Hb. destruct (Nat.eqb_spec n 0) as [->|Hn].
  - replace (0 + b - 1)%nat with (b - 1)%nat by lia. rewrite Nat.div_small by lia. reflexivity.
  - apply Nat.eqb_neq. intro H. apply Nat.div_small_iff in H; lia.
Qed.

(* the torn-write loop: the implementation's persisted files of durable paths track
   the reference's contents *)
Lemma torn_sim s0 d bs : (0 < bs)%nat ->
  (forall p q i, nget (dents d) p = Some (EFile i) -> nget (dents d) q = Some (EFile i) -> p = q) ->
  forall ops ws, Forall2 (crel s0 d) ops ws ->
  forall s1 cont draws, bsize s1 = bs -> synced s1 = synced s0 ->
  (forall p i, nget (dents d) p = Some (EFile i) -> fget (pfiles s1) p = Some (iget cont i)) ->
  forall p i, nget (dents d) p = Some (EFile i) ->
  fget (pfiles (torn_writes s1 ops draws)) p = Some (iget (torn bs (dents d) cont ws draws) i).
Proof.
  intros Hbs Hinj ops ws H. induction H as [|o w ops ws Hrel Hrest IH]; intros s1 cont draws Hb Hsy HLI p i Hp.
  - cbn. apply HLI. exact Hp.
  - destruct Hrel as (q & off & data & j & -> & -> & Hne & Hsd & Himp).
    cbn [torn_writes torn]. rewrite Hb, Hsy, (div_ceil_zero _ _ Hbs).
    assert (Hlen : (length data =? 0)%nat = false) by (destruct data; [congruence|reflexivity]).
    rewrite Hlen, orb_false_r. cbn [negb]. rewrite andb_true_r. rewrite Hsd.
    destruct (durable_ino (dents d) j) eqn:Edj; cbn [negb].
    + assert (Hq : nget (dents d) q = Some (EFile j)) by (apply Himp; rewrite Hsd; reflexivity).
      destruct (Nat.eqb_spec (hd 0%nat draws) 0) as [Hk|Hk].
      * rewrite Hk. cbn [Nat.mul Nat.min Nat.eqb]. apply IH; auto.
      * assert (Hn : (Nat.min (hd 0%nat draws * bs) (length data) =? 0)%nat = false).
        { apply Nat.eqb_neq. destruct data; [congruence|]. cbn [length]. nia. }
        rewrite Hn. 
        set (dd := firstn (Nat.min (hd 0%nat draws * bs) (length data)) data).
        destruct (apply_pwrite_frame s1 q off dd) as (F1 & F2 & F3 & F4 & F5). cbv zeta in *.
        apply IH; try congruence.
        intros p' i' Hp'. cbn [apply_op]. rewrite (HLI q j Hq). cbn [pfiles]. rewrite fget_fset, iget_iset.
        destruct (path_eqb q p') eqn:Eqp.
        -- apply path_eqb_eq in Eqp. subst p'. rewrite Hq in Hp'. inversion Hp'; subst i'. rewrite N.eqb_refl. reflexivity.
        -- destruct (N.eqb_spec j i'); [|apply HLI; exact Hp'].
           subst i'. apply path_eqb_neq in Eqp. exfalso. apply Eqp. eapply Hinj; eauto.
    + apply IH; auto.
Qed.

Lemma crash_refines s d g gd draws :
  InvF s (dw d) g -> Dur s d g gd -> dangling d = false ->
  InvF (crash s draws) (dw (dcrash d draws)) [] /\ Dur (crash s draws) (dcrash d draws) [] [].
Proof.
  intros HI HD Hdg. pose proof HD as [A Ap And B C D E F G Gd G2 H I J K L M N O P Q R Rt].
  assert (Hents : filter (fun x => reachable (dents d) (fst x)) (dents d) = dents d).
  { apply filter_all. unfold dangling in Hdg. apply negb_false_iff in Hdg. exact Hdg. }
  assert (Hreach : forall p e, nget (dents d) p = Some e -> reachable (dents d) p = true).
  { intros p e Hp. apply nget_In in Hp. unfold dangling in Hdg. apply negb_false_iff in Hdg.
    rewrite forallb_forall in Hdg. apply (Hdg (p, e) Hp). }
  (* the state after the torn writes, and the reference contents *)
  set (s1 := if (bsize s =? 0)%nat then s else set_pending (torn_writes s (pending s) draws) (pending s)).
  set (cnt := if (dbs d =? 0)%nat then ddata d else torn (dbs d) (dents d) (ddata d) (dpend d) draws).
  assert (Hfr : synced s1 = synced s /\ pdirs s1 = pdirs s /\ bsize s1 = bsize s /\
                (forall q, has_file (pfiles s1) q = has_file (pfiles s) q)).
  { unfold s1. destruct (bsize s =? 0)%nat; [repeat split; auto|].
    destruct (torn_writes_frame (pending s) s draws) as (X1 & X2 & X3 & X4 & X5). cbv zeta in *.
    cbn [synced pdirs bsize pfiles set_pending]. repeat split; auto. }
  destruct Hfr as (Fsy & Fpd & Fbs & Fhf).
  assert (HLI : forall p i, nget (dents d) p = Some (EFile i) -> fget (pfiles s1) p = Some (iget cnt i)).
  { unfold s1, cnt. rewrite <- A. destruct (Nat.eqb_spec (bsize s) 0) as [Hz|Hnz]; [exact C|].
    cbn [pfiles set_pending]. rewrite <- torn_writes_pwrites.
    apply (torn_sim s d (bsize s)); auto; try lia.
    eapply Forall2_impl_in; [|exact Ap]. intros o w Ho Hw. apply in_pwrites in Ho as [Ho _]. eapply wrel_crel; eauto. }
  assert (Hcrash : crash s draws =
    {| pfiles := filter (fun e => mem_path (fst e) (synced s1)) (pfiles s1);
       pdirs := filter (fun q => mem_path q (synced s1)) (pdirs s1);
       synced := synced s1; pending := []; bsize := bsize s1 |}) by reflexivity.
  rewrite Hcrash. clear Hcrash.
  assert (Hdcrash : dcrash d draws =
    {| dw := {| names := dents d; inodes := image_files cnt (dents d); next_ino := next_ino (dw d); shs := [] |};
       dents := dents d; ddata := image_files cnt (dents d); dpend := []; dbs := dbs d;
       dunspec := dunspec d || dangling d |}).
  { unfold dcrash. fold cnt. rewrite Hents. reflexivity. }
  rewrite Hdcrash. clear Hdcrash.
  rewrite Fsy, Fpd, Fbs.
  set (s' := {| pfiles := filter (fun e => mem_path (fst e) (synced s)) (pfiles s1);
                pdirs := filter (fun q => mem_path q (synced s)) (pdirs s);
                synced := synced s; pending := []; bsize := bsize s |}).
  assert (Hpf : forall q, fget (pfiles s') q = if mem_path q (synced s) then fget (pfiles s1) q else None).
  { intro q. cbn [pfiles s']. apply (fget_filter_key (fun r => mem_path r (synced s))). }
  assert (Hpd : forall q, mem_path q (pdirs s') = mem_path q (pdirs s) && mem_path q (synced s)).
  { intro q. cbn [pdirs s']. apply mem_path_filter. }
  assert (Hfx : forall q, file_exists s' q = match nget (dents d) q with Some (EFile _) => true | _ => false end).
  { intro q. unfold file_exists. cbn [pending s' fold_left]. unfold has_file. rewrite Hpf, B.
    destruct (nget (dents d) q) as [[|i]|] eqn:Ed; cbn [some].
    - pose proof (Fhf q) as Xh. unfold has_file in Xh.
      destruct (fget (pfiles s1) q) eqn:Ef; [|reflexivity]. exfalso.
      pose proof (G q (D q Ed)) as Hdir.
      destruct (F q) as [X|X]; [unfold has_file; destruct (fget (pfiles s) q); [reflexivity|discriminate]| |];
        destruct Hdir as [Y|Y].
      + unfold is_file, is_dir in *. destruct (nget (names (dw d)) q) as [[|?]|]; discriminate.
      + apply Gd in Y. congruence.
      + apply I in X. congruence.
      + apply G2 in X. congruence.
    - rewrite (HLI q i Ed). reflexivity.
    - reflexivity. }
  assert (Hdx : forall q, dir_exists s' q = match nget (dents d) q with Some EDir => true | _ => false end).
  { intro q. unfold dir_exists. cbn [pending s' fold_left]. rewrite Hpd, B.
    destruct (nget (dents d) q) as [[|i]|] eqn:Ed; cbn [some].
    - rewrite (D q Ed). reflexivity.
    - rewrite andb_true_r. destruct (mem_path q (pdirs s)) eqn:Em; [|reflexivity]. exfalso.
      pose proof (G q Em) as Hdir.
      destruct (H q i Ed) as [X|[X|[f X]]]; destruct Hdir as [Y|Y].
      + unfold is_dir in Y. rewrite X in Y. discriminate.
      + apply Gd in Y. unfold is_file in Y. rewrite X in Y. discriminate.
      + apply I in X. congruence.
      + apply G2 in X. congruence.
      + destruct (inv_rd _ _ _ HI f q X). congruence.
      + pose proof (Rt f q X). congruence.
    - apply andb_false_r. }
  assert (Himg : forall q i, nget (dents d) q = Some (EFile i) -> iget (image_files cnt (dents d)) i = iget cnt i).
  { intros q i Hq. rewrite iget_image, (nget_has_ino _ q i Hq). reflexivity. }
  assert (Hct : forall q i, nget (dents d) q = Some (EFile i) ->
            fcontent s' q = iget (image_files cnt (dents d)) i).
  { intros q i Hq. unfold fcontent. cbn [pending s' fold_left]. rewrite Hpf, B, Hq. cbn [some].
    rewrite (HLI q i Hq). cbn [cont]. symmetry. eapply Himg. exact Hq. }
  split.
  - assert (Hres : forall q, resolve s' q = q) by (intro q; apply resolve_other; intros f []).
    constructor; cbn [dw names inodes next_ino].
    + apply RWf_norename. reflexivity.
    + intro q. rewrite Hfx. reflexivity.
    + intro q. rewrite Hdx. reflexivity.
    + intros q i Hq. rewrite Hres. apply Hct. exact Hq.
    + intros q _ Hq. unfold fcontent. cbn [pending s' fold_left].
      unfold file_exists in Hq. cbn [pending s' fold_left] in Hq. unfold has_file in Hq.
      destruct (fget (pfiles s') q); [discriminate|reflexivity].
    + intros q [].
    + discriminate.
    + intros p q i. apply K.
    + intros p i. apply L.
    + intros p e Hp. unfold parent_is_dir. destruct (parent p) as [q|] eqn:Epar; [|reflexivity].
      unfold is_dir. cbn [names]. pose proof (Hreach p e Hp) as Hr. unfold reachable in Hr.
      rewrite forallb_forall in Hr. specialize (Hr q (in_ancestors_parent p q Epar)).
      destruct (nget (dents d) q) as [[|?]|]; try discriminate. reflexivity.
    + intros f r [].
    + intros f r [].
    + intros f r [].
  - assert (Hres : forall q, resolve s' q = q) by (intro q; apply resolve_other; intros f []).
    constructor; cbn [dw names inodes next_ino dents ddata dbs dpend bsize pending synced pfiles pdirs s'].
    + exact A.
    + constructor.
    + exact And.
    + exact B.
    + intros q i Hq. change (fget (pfiles s') q = Some (iget (image_files cnt (dents d)) i)).
      rewrite Hpf, B, Hq. cbn [some]. rewrite (HLI q i Hq), (Himg q i Hq). reflexivity.
    + intros q Hq. change (mem_path q (pdirs s') = true). rewrite Hpd, B, Hq, (D q Hq). reflexivity.
    + intros q i Hq. rewrite Hres. change (cont (fget (pfiles s') q) = iget (image_files cnt (dents d)) i).
      rewrite Hpf, B, Hq. cbn [some]. rewrite (HLI q i Hq), (Himg q i Hq). reflexivity.
    + intros q Hq. left. change (has_file (pfiles s') q = true) in Hq.
      pose proof (Hfx q) as X. unfold file_exists in X. cbn [pending s' fold_left] in X. rewrite Hq in X.
      unfold is_file. cbn [names]. destruct (nget (dents d) q) as [[|?]|]; try discriminate. reflexivity.
    + intros q Hq. left. change (mem_path q (pdirs s') = true) in Hq.
      pose proof (Hdx q) as X. unfold dir_exists in X. cbn [pending s' fold_left] in X. rewrite Hq in X.
      unfold is_dir. cbn [names]. destruct (nget (dents d) q) as [[|?]|]; try discriminate. reflexivity.
    + discriminate.
    + discriminate.
    + intros q i Hq. left. exact Hq.
    + discriminate.
    + intros p q i Hq Hp. rewrite Hres. eapply K; eauto.
    + exact K.
    + exact L.
    + intros i Hi. rewrite iget_image.
      destruct (existsb _ (dents d)) eqn:Ee; [|reflexivity]. exfalso.
      assert (Hdi : durable_ino (dents d) i = true) by exact Ee.
      apply durable_ino_iff in Hdi as [q Hq]; [|exact And]. apply L in Hq. lia.
    + intros q Hq. right; left. change (has_file (pfiles s') q = true) in Hq. unfold has_file in Hq. rewrite Hpf in Hq.
      destruct (mem_path q (synced s)); [reflexivity|discriminate].
    + intros q Hq. change (mem_path q (pdirs s') = true) in Hq. rewrite Hpd in Hq.
      apply andb_true_iff in Hq. tauto.
    + discriminate.
    + intros q b [].
    + intros q [].
    + intros f r [].
Qed.

(* ---- one step of the durable simulation ------------------------------------------------------------ *)
Definition DInv (w : world) (d : dworld) (g gd : list path) : Prop :=
  InvF (wfs w) (dw d) g /\ HRel (whs w) (shs (dw d)) /\ Dur (wfs w) d g gd.

Lemma with_dw_id d : with_dw d (dw d) = d.
Proof. destruct d; reflexivity. Qed.

Lemma same_shadow_refl d : same_shadow d d.
Proof. repeat split. Qed.
Lemma same_shadow_with_dw d t : same_shadow d (with_dw d t).
Proof. repeat split. Qed.
Lemma same_shadow_add_pend d i off data : same_shadow d (add_pend d i off data).
Proof. unfold add_pend. destruct data; repeat split. Qed.
Lemma dw_add_pend d i off data : dw (add_pend d i off data) = dw d.
Proof. unfold add_pend. destruct data; reflexivity. Qed.

Lemma Dur_tree s d g gd t1 :
  Dur s d g gd -> names t1 = names (dw d) -> next_ino t1 = next_ino (dw d) -> Dur s (with_dw d t1) g gd.
Proof. intros HD Hn Hx. exact (Dur_ext s d (with_dw d t1) g gd HD (same_shadow_with_dw d t1) eq_refl Hn Hx). Qed.

Lemma dstep_tree d o : (forall x, o <> Crash x) ->
  dw (fst (dstep d o)) = fst (sstep (dw d) o) /\ snd (dstep d o) = snd (sstep (dw d) o).
Proof.
  intro Hc. unfold dstep. destruct o; try (exfalso; eapply Hc; reflexivity);
    destruct (sstep (dw d) _) as [t1 x] eqn:Es; cbn [fst snd];
    destruct (is_err x); cbn [fst snd dw with_dw]; try (split; reflexivity).
  - destruct (sget (shs (dw d)) slot); [|split; reflexivity]. destruct coin; cbn [dw data_sync]; rewrite ?dw_add_pend; split; reflexivity.
  - destruct (sget (shs (dw d)) slot); [|split; reflexivity]. destruct coin; cbn [dw data_sync]; rewrite ?dw_add_pend; split; reflexivity.
  - destruct (sget (shs (dw d)) slot); [|split; reflexivity]. destruct coin; split; reflexivity.
  - destruct (sget (shs (dw d)) slot); split; reflexivity.
  - destruct (sget (shs (dw d)) slot); split; reflexivity.
  - destruct data; [split; reflexivity|]. destruct (nget (names t1) p) as [[|i]|]; try (split; reflexivity).
    destruct coin; cbn [dw data_sync]; rewrite ?dw_add_pend; split; reflexivity.
Qed.

(* operations that leave the implementation's tables and the reference namespace alone *)
Definition readonly_op (o : op) : bool :=
  match o with
  | Close _ | ReadAt _ _ _ | Read _ _ | Seek _ _ _ | FLen _ | Stat _ | Exists _ | Readdir _ | Slurp _
  | Dump _ | Tick => true
  | _ => false
  end.

Lemma step_readonly w o : readonly_op o = true -> wfs (fst (step w o)) = wfs w.
Proof.
  destruct o; try discriminate; intros _; cbn [step].
  - destruct (hget (whs w) slot); reflexivity.
  - destruct (hget (whs w) slot) as [h|]; [|reflexivity]. destruct (hr h); reflexivity.
  - destruct (hget (whs w) slot) as [h|]; [|reflexivity]. destruct (hr h); reflexivity.
  - destruct (hget (whs w) slot) as [h|]; [|reflexivity].
    match goal with |- context[(?b + off <? 0)%Z] => destruct (b + off <? 0)%Z end; reflexivity.
  - destruct (hget (whs w) slot); reflexivity.
  - destruct (file_exists (wfs w) p); [reflexivity|]. destruct (dir_exists (wfs w) p); reflexivity.
  - reflexivity.
  - destruct (dir_exists (wfs w) p); reflexivity.
  - reflexivity.
  - reflexivity.
  - reflexivity.
Qed.

Lemma dstep_readonly d o : readonly_op o = true ->
  same_shadow d (fst (dstep d o)) /\ names (dw (fst (dstep d o))) = names (dw d) /\
  next_ino (dw (fst (dstep d o))) = next_ino (dw d) /\ dpend (fst (dstep d o)) = dpend d.
Proof.
  intro Hr. unfold dstep. destruct o; try discriminate; cbn [sstep].
  - destruct (sget (shs (dw d)) slot); cbn; repeat split.
  - destruct (sget (shs (dw d)) slot) as [h|]; [|cbn; repeat split]. destruct (sr h); cbn; repeat split.
  - destruct (sget (shs (dw d)) slot) as [h|]; [|cbn; repeat split]. destruct (sr h); cbn; repeat split.
  - destruct (sget (shs (dw d)) slot) as [h|]; [|cbn; repeat split].
    match goal with |- context[(?b + off <? 0)%Z] => destruct (b + off <? 0)%Z end; cbn; repeat split.
  - destruct (sget (shs (dw d)) slot); cbn; repeat split.
  - destruct (nget (names (dw d)) p) as [[|i]|]; cbn; repeat split.
  - cbn; repeat split.
  - destruct (nget (names (dw d)) p) as [[|i]|]; cbn; repeat split.
  - destruct (nget (names (dw d)) p) as [[|i]|]; cbn; repeat split.
  - cbn; repeat split.
  - cbn; repeat split.
Qed.

Ltac same_tree HD := apply Dur_tree; [exact HD|reflexivity|reflexivity].

Lemma dur_open s hs d g gd slot p r w a tr c n :
  InvF s (dw d) g -> Dur s d g gd -> op_classes (dw d) g (Open slot p r w a tr c n) = [] ->
  kind_swap (dw d) g gd (Open slot p r w a tr c n) = false ->
  Dur (wfs (fst (step (mkWorld s hs) (Open slot p r w a tr c n)))) (fst (dstep d (Open slot p r w a tr c n))) g gd.
Proof.
  intros HF HD Hcl Hks. cbn [op_classes] in Hcl. cbn [kind_swap] in Hks.
  apply app_eq_nil in Hcl as [_ Hrc]. apply when_nil in Hrc.
  set (t := dw d) in *.
  assert (Hd : fst (dstep d (Open slot p r w a tr c n)) = with_dw d (fst (sstep t (Open slot p r w a tr c n)))).
  { unfold dstep. fold t. destruct (sstep t (Open slot p r w a tr c n)) as [t1 x]. cbn [fst]. destruct (is_err x); reflexivity. }
  rewrite Hd. clear Hd. cbn [step sstep wfs whs]. unfold sopen, open_file.
  destruct (valid_open r w a tr c n) eqn:Hv; cbn [negb]; [|cbn [fst snd wfs]; same_tree HD].
  rewrite (inv_fx _ _ _ HF p). fold t.
  destruct (nget (names t) p) as [[|i]|] eqn:En.
  - assert (Hpar : parent_is_dir t p = true) by (eapply inv_pc; eauto).
    rewrite Hpar. cbn [negb].
    assert (Hf : is_file t p = false) by (unfold is_file; rewrite En; reflexivity).
    assert (Hdx : dir_exists s p = true) by (rewrite (inv_dx _ _ _ HF); unfold is_dir; fold t; rewrite En; reflexivity).
    rewrite Hf, andb_false_r, Hdx. destruct (c || n); cbn [fst snd wfs]; same_tree HD.
  - assert (Hpar : parent_is_dir t p = true) by (eapply inv_pc; eauto).
    rewrite Hpar. cbn [negb].
    assert (Hf : is_file t p = true) by (unfold is_file; rewrite En; reflexivity).
    rewrite Hf, andb_true_r. destruct n; cbn [fst snd wfs]; [same_tree HD|].
    assert (Htw : tr && w = tr).
    { destruct tr; [|reflexivity]. rewrite (valid_trunc_write _ _ _ _ _ _ Hv eq_refl eq_refl). reflexivity. }
    rewrite Htw. destruct tr; cbn [wfs fst].
    + eapply (Dur_data s d g gd (PSetLen p 0) _ p HD);
        [apply same_shadow_with_dw|reflexivity|reflexivity|cbn; apply path_eqb_refl|reflexivity|apply (inv_bound _ _ _ HF)].
    + same_tree HD.
  - assert (Hf : is_file t p = false) by (unfold is_file; rewrite En; reflexivity).
    assert (Hdx : dir_exists s p = false) by (rewrite (inv_dx _ _ _ HF); unfold is_dir; fold t; rewrite En; reflexivity).
    rewrite Hf, andb_false_r, Hdx, andb_false_r. rewrite (parent_exists_inv s t g p HF).
    destruct (parent_is_dir t p) eqn:Hpar; cbn [negb].
    + destruct (c || n) eqn:Ecn; cbn [fst snd wfs]; [|same_tree HD].
      cbn in Hrc. cbn in Hks.
      pose proof (Dur_create s d g gd p HF HD En Hrc Hks) as HC. fold t in HC.
      destruct (tr && w); cbn [wfs fst].
      * eapply (Dur_data _ _ g gd (PSetLen p 0) _ p HC);
          [repeat split|reflexivity|reflexivity|cbn; apply path_eqb_refl|reflexivity|].
        apply (inv_bound _ _ _ (InvF_create s t g p HF En Hpar Hrc)).
      * eapply Dur_ext; [exact HC|repeat split|reflexivity|reflexivity|reflexivity].
    + assert (Hcn : (if c || n then @None fs else None) = None) by (destruct (c || n); reflexivity).
      rewrite Hcn. cbn [fst snd wfs]. same_tree HD.
Qed.

Lemma dur_write_at s d g gd h sh off data coin t1 :
  Dur s d g gd -> hrel h sh -> hw h = true ->
  names t1 = names (dw d) -> next_ino t1 = next_ino (dw d) ->
  nget (names (dw d)) (spath sh) = Some (EFile (sino sh)) ->
  InvF (fst (write_at s h off data false)) t1 g ->
  Dur (fst (write_at s h off data coin))
      (let d' := add_pend (with_dw d t1) (sino sh) off data in if coin then data_sync d' (sino sh) else d') g gd.
Proof.
  intros HD (Hp & _) Hw Hn Hx Hino HI1. unfold write_at in *. rewrite Hw in *. cbn [negb fst snd] in *. rewrite Hp in *.
  set (s1 := match data with [] => s | _ :: _ => push s (PWrite (spath sh) off data) end) in *.
  set (d' := add_pend (with_dw d t1) (sino sh) off data).
  assert (H1 : Dur s1 d' g gd).
  { unfold s1, d'. destruct data as [|b data].
    - cbn [add_pend]. apply Dur_tree; assumption.
    - eapply (Dur_data s d g gd _ _ (spath sh) HD); [repeat split|exact Hn|exact Hx|cbn; apply path_eqb_refl| |].
      + cbn [pend_step add_pend dw with_dw dpend]. exists (sino sh). split; [rewrite Hn; exact Hino|].
        split; [discriminate|reflexivity].
      + intros q j Hq. rewrite <- Hn in Hq. rewrite <- Hx. apply (inv_bound _ _ _ HI1 q j Hq). }
  cbv zeta. destruct coin; [|exact H1].
  apply Dur_sync_file; [unfold d'; rewrite dw_add_pend; exact HI1|exact H1|].
  unfold d'. rewrite dw_add_pend. cbn [dw with_dw]. rewrite Hn. exact Hino.
Qed.

Lemma dur_handle_ops s hs d g gd o :
  InvF s (dw d) g -> HRel hs (shs (dw d)) -> Dur s d g gd -> op_classes (dw d) g o = [] -> quiet s (dw d) g o ->
  match o with
  | WriteAt _ _ _ _ | Write _ _ _ | SetLen _ _ _ | SyncAll _ | SyncData _ => True
  | _ => False
  end ->
  Dur (wfs (fst (step (mkWorld s hs) o))) (fst (dstep d o)) g gd.
Proof.
  intros HF HH HD Hcl Hqt Hop. set (t := dw d) in *.
  destruct o; try contradiction; clear Hop; cbn [op_classes] in Hcl; apply when_nil in Hcl; cbn [quiet] in Hqt;
    unfold dstep; fold t; cbn [step sstep wfs whs].
  - (* WriteAt *)
    destruct (HRel_cases _ _ slot HH) as [[Hh Hs]|(h & sh & Hh & Hs & Hrel)]; rewrite Hh, Hs.
    + cbn [fst snd is_err wfs]. same_tree HD.
    + pose proof (not_stale t slot sh Hs Hcl) as Hn.
      pose proof Hrel as (Hp & Hr & Hw & Ha & Hpos). rewrite <- Hw.
      destruct (hw h) eqn:Ehw; cbn [negb].
      * destruct (write_at_refines s t g h sh (N.to_nat off) data false HF Hrel Hn Ehw (Hqt sh Hs (eq_sym Hw))) as [A _].
        pose proof (dur_write_at s d g gd h sh (N.to_nat off) data coin
                      (set_inode t (sino sh) (pwrite (iget (inodes t) (sino sh)) (N.to_nat off) data))
                      HD Hrel Ehw eq_refl eq_refl Hn A) as X.
        destruct (write_at s h (N.to_nat off) data coin) as [s1 [k|e]] eqn:Ew; cbn [fst snd is_err wfs with_fs] in *.
        -- exact X.
        -- exfalso. unfold write_at in Ew. rewrite Ehw in Ew. cbn in Ew. inversion Ew.
      * unfold write_at. rewrite Ehw. cbn [negb fst snd is_err wfs with_fs]. same_tree HD.
  - (* Write *)
    destruct (HRel_cases _ _ slot HH) as [[Hh Hs]|(h & sh & Hh & Hs & Hrel)]; rewrite Hh, Hs.
    + cbn [fst snd is_err wfs]. same_tree HD.
    + pose proof (not_stale t slot sh Hs Hcl) as Hn.
      pose proof Hrel as (Hp & Hr & Hw & Ha & Hpos). rewrite <- Hw.
      assert (Hoff : (if ha h then file_len s (hpath h) else hpos h) =
                     (if sa sh then length (iget (inodes t) (sino sh)) else spos sh)).
      { rewrite Ha, Hpos, Hp. rewrite (InvF_len s t g _ _ HF Hn). reflexivity. }
      rewrite Hoff. set (off := if sa sh then length (iget (inodes t) (sino sh)) else spos sh).
      destruct (hw h) eqn:Ehw; cbn [negb].
      * destruct (write_at_refines s t g h sh off data false HF Hrel Hn Ehw (Hqt sh Hs (eq_sym Hw))) as [A _].
        set (t1 := set_shs (set_inode t (sino sh) (pwrite (iget (inodes t) (sino sh)) off data))
                           (sset (shs t) slot (sset_pos sh (off + length data)))).
        assert (A1 : InvF (fst (write_at s h off data false)) t1 g) by (apply InvF_shs; exact A).
        pose proof (dur_write_at s d g gd h sh off data coin t1 HD Hrel Ehw eq_refl eq_refl Hn A1) as X.
        destruct (write_at s h off data coin) as [s1 [k|e]] eqn:Ew; cbn [fst snd is_err wfs with_fs] in *.
        -- exact X.
        -- exfalso. unfold write_at in Ew. rewrite Ehw in Ew. cbn in Ew. inversion Ew.
      * unfold write_at. rewrite Ehw. cbn [negb fst snd is_err wfs with_fs]. same_tree HD.
  - (* SetLen *)
    destruct (HRel_cases _ _ slot HH) as [[Hh Hs]|(h & sh & Hh & Hs & Hrel)]; rewrite Hh, Hs.
    + cbn [fst snd is_err wfs]. same_tree HD.
    + pose proof (not_stale t slot sh Hs Hcl) as Hn.
      pose proof Hrel as (Hp & Hr & Hw & Ha & Hpos). rewrite <- Hw.
      destruct (hw h) eqn:Ehw; cbn [negb fst snd is_err wfs with_fs]; [|same_tree HD].
      pose proof (Hqt sh Hs (eq_sym Hw)) as Hnt.
      rewrite Hp.
      set (t1 := set_inode t (sino sh) (resize (iget (inodes t) (sino sh)) (N.to_nat n))).
      assert (H1 : Dur (push s (PSetLen (spath sh) (N.to_nat n))) (with_dw d t1) g gd).
      { eapply (Dur_data s d g gd _ _ (spath sh) HD);
          [repeat split|reflexivity|reflexivity|cbn; apply path_eqb_refl|reflexivity|apply (inv_bound _ _ _ HF)]. }
      destruct coin; [|exact H1].
      apply Dur_sync_file; [|exact H1|exact Hn].
      cbn [dw with_dw]. eapply InvF_push_data; eauto; [cbn; apply path_eqb_refl|cbn; rewrite path_eqb_refl; reflexivity].
  - (* SyncAll *)
    destruct (HRel_cases _ _ slot HH) as [[Hh Hs]|(h & sh & Hh & Hs & Hrel)]; rewrite Hh, Hs.
    + cbn [fst snd is_err wfs]. same_tree HD.
    + pose proof (not_stale t slot sh Hs Hcl) as Hn. destruct Hrel as (Hp & _). rewrite Hp.
      cbn [fst snd is_err]. unfold res.
      assert (Hex : file_exists s (spath sh) = true) by (rewrite (inv_fx _ _ _ HF); apply is_file_iff; eauto).
      destruct (InvF_sync_file s t g _ HF Hex) as [_ B]. rewrite B. cbn [fst wfs].
      replace (with_dw d t) with d by (symmetry; apply with_dw_id).
      apply Dur_sync_file; assumption.
  - (* SyncData *)
    destruct (HRel_cases _ _ slot HH) as [[Hh Hs]|(h & sh & Hh & Hs & Hrel)]; rewrite Hh, Hs.
    + cbn [fst snd is_err wfs]. same_tree HD.
    + pose proof (not_stale t slot sh Hs Hcl) as Hn. destruct Hrel as (Hp & _). rewrite Hp.
      cbn [fst snd is_err]. unfold res.
      assert (Hex : file_exists s (spath sh) = true) by (rewrite (inv_fx _ _ _ HF); apply is_file_iff; eauto).
      destruct (InvF_sync_file s t g _ HF Hex) as [_ B]. rewrite B. cbn [fst wfs].
      replace (with_dw d t) with d by (symmetry; apply with_dw_id).
      apply Dur_sync_file; assumption.
Qed.

Lemma dur_path_ops s hs d g gd o :
  InvF s (dw d) g -> Dur s d g gd -> op_classes (dw d) g o = [] -> kind_swap (dw d) g gd o = false ->
  quiet s (dw d) g o ->
  match o with SyncDir _ | Mkdir _ | Rmdir _ | Unlink _ | Rename _ _ => True | _ => False end ->
  Dur (wfs (fst (step (mkWorld s hs) o))) (fst (dstep d o)) (gone_after (dw d) g o) (gd_after (dw d) gd o).
Proof.
  intros HF HD Hcl Hks Hqt Hop. set (t := dw d) in *.
  destruct o; try contradiction; clear Hop; cbn [op_classes] in Hcl; cbn [quiet] in Hqt;
    unfold dstep; fold t; cbn [step sstep wfs whs gone_after gd_after].
  - (* SyncDir *)
    destruct (nget (names t) p) as [[|i]|] eqn:En; cbn [fst snd is_err].
    + assert (Hd : dir_exists s p = true) by (rewrite (inv_dx _ _ _ HF); apply is_dir_iff; exact En).
      assert (Hqt' := Hqt (proj2 (is_dir_iff t p) En)).
      destruct (InvF_sync_dir s t g p HF Hd Hqt') as [_ B]. unfold res. rewrite B. cbn [fst wfs].
      replace (with_dw d t) with d by (symmetry; apply with_dw_id).
      apply Dur_sync_dir; assumption.
    + assert (Hd : dir_exists s p = false) by (rewrite (inv_dx _ _ _ HF); unfold is_dir; fold t; rewrite En; reflexivity).
      unfold sync_dir, res. rewrite Hd. cbn [negb fst snd wfs]. same_tree HD.
    + assert (Hd : dir_exists s p = false) by (rewrite (inv_dx _ _ _ HF); unfold is_dir; fold t; rewrite En; reflexivity).
      unfold sync_dir, res. rewrite Hd. cbn [negb fst snd wfs]. same_tree HD.
  - (* Mkdir *)
    cbn [kind_swap] in Hks.
    unfold mkdir, res. rewrite (parent_exists_inv s t g p HF).
    destruct (parent_is_dir t p) eqn:Hpar; cbn [negb fst snd is_err wfs]; [|same_tree HD].
    rewrite (inv_fx _ _ _ HF), (inv_dx _ _ _ HF). unfold is_dir, is_file. fold t.
    destruct (nget (names t) p) as [[|i]|] eqn:En; cbn [orb fst snd is_err wfs]; try same_tree HD.
    apply Dur_mkdir; assumption.
  - (* Rmdir *)
    apply when_nil in Hcl.
    unfold rmdir, res. rewrite (inv_dx _ _ _ HF). unfold is_dir. fold t.
    destruct (nget (names t) p) as [[|i]|] eqn:En; cbn [negb fst snd is_err wfs]; try same_tree HD.
    destruct p as [|a p]; [discriminate|].
    rewrite (has_children_inv s t g _ HF Hqt).
    destruct (children t (a :: p)) eqn:Ech; cbn [fst snd is_err wfs].
    + apply Dur_rmdir; assumption.
    + (* not empty: nothing changes, but the path is recorded as a removed directory *)
      pose proof HD as [A Ap And B C D E F G Gd G2 H I J K L M N O P Q R Rt].
      assert (Hpd : is_dir t (a :: p) = true) by (apply is_dir_iff; exact En).
      apply Dur_tree; [|reflexivity|reflexivity].
      constructor; auto.
      * intros q Hq. destruct (G q Hq) as [X|X]; [left; exact X|right; rewrite mem_path_cons, X; apply orb_true_r].
      * intros q Hq. rewrite mem_path_cons in Hq. destruct (path_eqb q (a :: p)) eqn:Eq.
        -- apply path_eqb_eq in Eq. subst q. fold t. unfold is_file. rewrite En. reflexivity.
        -- apply Gd. exact Hq.
      * intros q Hq. rewrite mem_path_cons. destruct (path_eqb q (a :: p)) eqn:Eq.
        -- apply path_eqb_eq in Eq. subst q. apply I in Hq. fold t in Hq. congruence.
        -- apply G2. exact Hq.
      * intros q Hq. rewrite mem_path_cons, (R q Hq). apply orb_true_r.
      * intros f r Hin. rewrite mem_path_cons, (Rt f r Hin), orb_false_r. apply path_eqb_neq. intro; subst r.
        destruct (inv_rd _ _ _ HF f _ Hin). congruence.
  - (* Unlink *)
    unfold unlink, res. rewrite (inv_fx _ _ _ HF). unfold is_file. fold t.
    destruct (nget (names t) p) as [[|i]|] eqn:En; cbn [negb fst snd is_err wfs]; try same_tree HD.
    eapply Dur_unlink; eassumption.
  - (* Rename: the source does not exist *)
    apply app_eq_nil in Hcl as [Hroot Hcl]. apply when_nil in Hroot. apply orb_false_iff in Hroot as [Hrf Hrt].
    destruct (nget (names t) f) as [[|i]|] eqn:En; try discriminate.
    unfold srename. destruct f as [|a f]; [discriminate|]. destruct t0 as [|b t0]; [discriminate|].
    rewrite En. cbn [fst snd is_err].
    assert (Hf : file_exists s (a :: f) = false) by (rewrite (inv_fx _ _ _ HF); unfold is_file; fold t; rewrite En; reflexivity).
    assert (Hd : dir_exists s (a :: f) = false) by (rewrite (inv_dx _ _ _ HF); unfold is_dir; fold t; rewrite En; reflexivity).
    unfold rename, res. rewrite Hf, Hd.
    destruct (parent_exists s (b :: t0)); cbn [negb fst snd wfs]; same_tree HD.
Qed.

Lemma dur_spit s hs d g gd p data coin :
  InvF s (dw d) g -> Dur s d g gd -> op_classes (dw d) g (Spit p data coin) = [] ->
  kind_swap (dw d) g gd (Spit p data coin) = false -> quiet s (dw d) g (Spit p data coin) ->
  Dur (wfs (fst (step (mkWorld s hs) (Spit p data coin)))) (fst (dstep d (Spit p data coin))) g gd.
Proof.
  intros HF HD Hcl Hks Hqt. cbn [quiet] in Hqt. cbn [op_classes] in Hcl. apply app_eq_nil in Hcl as [_ Hrc]. apply when_nil in Hrc.
  cbn [kind_swap] in Hks.
  set (t := dw d) in *. unfold dstep. fold t. cbn [step sstep wfs whs]. unfold open_file.
  rewrite (inv_fx _ _ _ HF p). fold t. cbn [andb orb].
  (* the durable effect of truncate + write + coin on a file that exists in (s0, d0) *)
  assert (Hwr : forall s0 d0 i t1, InvF s0 (dw d0) g -> Dur s0 d0 g gd -> nget (names (dw d0)) p = Some (EFile i) ->
     names t1 = names (dw d0) -> next_ino t1 = next_ino (dw d0) ->
     InvF (push s0 (PSetLen p 0)) (set_inode (dw d0) i []) g ->
     (forall b l, data = b :: l ->
        InvF (push (push s0 (PSetLen p 0)) (PWrite p 0 data)) t1 g) ->
     Dur (match data with
          | [] => push s0 (PSetLen p 0)
          | _ :: _ => fst (write_at (push s0 (PSetLen p 0))
                             {| hpath := p; hr := false; hw := true; ha := false; hpos := 0 |} 0 data coin)
          end)
         (match data with
          | [] => with_dw d0 t1
          | _ :: _ => let d' := add_pend (with_dw d0 t1) i 0 data in if coin then data_sync d' i else d'
          end) g gd).
  { intros s0 d0 i t1 H0 HD0 Hn0 Hn1 Hx1 HIa HIb.
    assert (H1 : Dur (push s0 (PSetLen p 0)) (with_dw d0 (set_inode (dw d0) i [])) g gd).
    { eapply (Dur_data s0 d0 g gd _ _ p HD0);
        [repeat split|reflexivity|reflexivity|cbn; apply path_eqb_refl|reflexivity|apply (inv_bound _ _ _ H0)]. }
    destruct data as [|b data].
    - eapply Dur_ext; [exact H1|repeat split|reflexivity|exact Hn1|exact Hx1].
    - set (h := {| hpath := p; hr := false; hw := true; ha := false; hpos := 0 |}).
      set (sh := {| spath := p; sino := i; sr := false; sw := true; sa := false; spos := 0 |}).
      pose proof (dur_write_at (push s0 (PSetLen p 0)) (with_dw d0 (set_inode (dw d0) i [])) g gd h sh 0 (b :: data) coin t1
                    H1 ltac:(repeat split) eq_refl Hn1 Hx1 Hn0) as X.
      cbn [sino sh] in X. specialize (X (HIb b data eq_refl)).
      cbn [with_dw dw] in X.
      replace (with_dw (with_dw d0 (set_inode (dw d0) i [])) t1) with (with_dw d0 t1) in X by reflexivity.
      exact X. }
  destruct (nget (names t) p) as [[|i]|] eqn:En.
  - assert (Hpar : parent_is_dir t p = true) by (eapply inv_pc; eauto).
    assert (Hf : is_file t p = false) by (unfold is_file; rewrite En; reflexivity).
    assert (Hdx : dir_exists s p = true) by (rewrite (inv_dx _ _ _ HF); unfold is_dir; fold t; rewrite En; reflexivity).
    rewrite Hpar, Hf, Hdx. cbn [negb fst snd is_err wfs with_fs]. same_tree HD.
  - assert (Hpar : parent_is_dir t p = true) by (eapply inv_pc; eauto).
    assert (Hf : is_file t p = true) by (unfold is_file; rewrite En; reflexivity).
    rewrite Hpar, Hf. cbn [negb fst snd is_err].
    pose proof (Hqt Hf) as Hnt.
    assert (HIa : InvF (push s (PSetLen p 0)) (set_inode t i []) g) by (apply InvF_trunc; assumption).
    assert (HIb : forall b l, data = b :: l -> InvF (push (push s (PSetLen p 0)) (PWrite p 0 data)) (set_inode t i data) g).
    { intros b l Hd. assert (Hn1 : nget (names (set_inode t i [])) p = Some (EFile i)) by exact En.
      pose proof (InvF_push_data _ _ g p i (PWrite p 0 data) (write_bytes [] 0 data) HIa Hn1) as X.
      assert (P0 : forall f, ~ In (PRename f p) (pending (push s (PSetLen p 0)))) by (apply not_tgt_push; [reflexivity|exact Hnt]).
      assert (P1 : is_data_op p (PWrite p 0 data) = true) by (cbn; apply path_eqb_refl).
      assert (P2 : cstep p (iget (inodes (set_inode t i [])) i) (PWrite p 0 data) = write_bytes [] 0 data)
        by (cbn [cstep inodes set_inode]; rewrite path_eqb_refl, iget_iset, N.eqb_refl; reflexivity).
      specialize (X P1 P0 P2). rewrite write_bytes_nil0 in X.
      destruct X as [A1 B C D E F G H I J K L M]. constructor; auto.
      intros q j Hq. rewrite (D q j Hq). cbn [inodes set_inode]. rewrite !iget_iset. destruct (i =? j); reflexivity. }
    specialize (Hwr s d i (set_inode t i data) HF HD En eq_refl eq_refl HIa HIb).
    cbn [names set_inode]. rewrite En.
    destruct data as [|b data]; cbn [fst snd wfs with_fs]; exact Hwr.
  - assert (Hf : is_file t p = false) by (unfold is_file; rewrite En; reflexivity).
    assert (Hdx : dir_exists s p = false) by (rewrite (inv_dx _ _ _ HF); unfold is_dir; fold t; rewrite En; reflexivity).
    rewrite Hf, Hdx. rewrite (parent_exists_inv s t g p HF).
    destruct (parent_is_dir t p) eqn:Hpar; cbn [negb fst snd is_err wfs with_fs]; [|same_tree HD].
    pose proof (InvF_create s t g p HF En Hpar Hrc) as HC.
    pose proof (Dur_create s d g gd p HF HD En Hrc Hks) as HDC. fold t in HDC.
    set (t0 := {| names := nset (names t) p (EFile (next_ino t));
                  inodes := iset (inodes t) (next_ino t) []; next_ino := next_ino t + 1; shs := shs t |}) in *.
    set (t1 := {| names := nset (names t) p (EFile (next_ino t));
                  inodes := iset (inodes t) (next_ino t) data; next_ino := next_ino t + 1; shs := shs t |}).
    assert (Hn0 : nget (names t0) p = Some (EFile (next_ino t))) by (cbn [names t0]; rewrite nget_nset, path_eqb_refl; reflexivity).
    assert (Hnt1 : forall f, ~ In (PRename f p) (pending (push s (CreateFile p)))).
    { apply not_tgt_push; [reflexivity|]. apply (not_tgt_fresh s t g p HF Hrc Hf). }
    assert (HIa : InvF (push (push s (CreateFile p)) (PSetLen p 0)) (set_inode t0 (next_ino t) []) g) by (apply InvF_trunc; assumption).
    assert (HIb : forall b l, data = b :: l ->
              InvF (push (push (push s (CreateFile p)) (PSetLen p 0)) (PWrite p 0 data)) t1 g).
    { intros b l Hd. assert (Hn1 : nget (names (set_inode t0 (next_ino t) [])) p = Some (EFile (next_ino t))) by exact Hn0.
      pose proof (InvF_push_data _ _ g p (next_ino t) (PWrite p 0 data) (write_bytes [] 0 data) HIa Hn1) as X.
      assert (P0 : forall f, ~ In (PRename f p) (pending (push (push s (CreateFile p)) (PSetLen p 0)))) by (apply not_tgt_push; [reflexivity|exact Hnt1]).
      assert (P1 : is_data_op p (PWrite p 0 data) = true) by (cbn; apply path_eqb_refl).
      assert (P2 : cstep p (iget (inodes (set_inode t0 (next_ino t) [])) (next_ino t)) (PWrite p 0 data) = write_bytes [] 0 data)
        by (cbn [cstep inodes set_inode]; rewrite path_eqb_refl, iget_iset, N.eqb_refl; reflexivity).
      specialize (X P1 P0 P2). rewrite write_bytes_nil0 in X.
      destruct X as [A1 B C D E F G H I J K L M]. constructor; auto.
      intros q j Hq. rewrite (D q j Hq). cbn [inodes set_inode t0 t1]. rewrite !iget_iset.
      destruct (next_ino t =? j); reflexivity. }
    specialize (Hwr (push s (CreateFile p)) (with_dw d t0) (next_ino t) t1 HC HDC Hn0 eq_refl eq_refl HIa HIb).
    assert (Hn1 : nget (names t1) p = Some (EFile (next_ino t))) by (cbn [names t1]; rewrite nget_nset, path_eqb_refl; reflexivity).
    fold t0. fold t1. rewrite Hn1.
    change (with_dw (with_dw d t0) t1) with (with_dw d t1) in Hwr.
    destruct data as [|b data]; cbn [fst snd wfs with_fs]; exact Hwr.
Qed.

(* ---- a clean rename of a regular file ------------------------------------------------------------------ *)
Lemma Dur_rename s d g gd f r i :
  InvF s (dw d) g -> Dur s d g gd -> nget (names (dw d)) f = Some (EFile i) -> f <> r ->
  is_dir (dw d) r = false -> mem_path r g = false -> mem_path r gd = false ->
  ~ In f (rnames (pending s)) -> ~ In r (rnames (pending s)) ->
  (forall o, In o (pending s) -> is_data_op f o = false /\ is_data_op r o = false) ->
  Dur (push s (PRename f r)) (with_dw d (set_names (dw d) (nset (ndel (names (dw d)) f) r (EFile i)))) (f :: g) gd.
Proof.
  intros HI HD Hn Hne Hrd Hrg Hrgd Hfn Hrn Hdata.
  pose proof HD as [A Ap And B C D E F G Gd G2 H I J K L M N O P Q R Rt].
  assert (Hff : is_file (dw d) f = true) by (apply is_file_iff; eauto).
  assert (Hfg : mem_path f g = false).
  { destruct (mem_path f g) eqn:E0; [|reflexivity]. apply (inv_gone _ _ _ HI) in E0. congruence. }
  assert (Hfgd : mem_path f gd = false).
  { destruct (mem_path f gd) eqn:E0; [|reflexivity]. apply Gd in E0. congruence. }
  assert (Hnew : forall q, nget (nset (ndel (names (dw d)) f) r (EFile i)) q =
            if path_eqb r q then Some (EFile i) else if path_eqb f q then None else nget (names (dw d)) q).
  { intro q. rewrite nget_nset, nget_ndel. reflexivity. }
  assert (Hdir : forall q, is_dir (set_names (dw d) (nset (ndel (names (dw d)) f) r (EFile i))) q = is_dir (dw d) q).
  { intro q. unfold is_dir. cbn [names set_names]. rewrite Hnew.
    destruct (path_eqb r q) eqn:E1; [apply path_eqb_eq in E1; subst q; unfold is_dir in Hrd; destruct (nget (names (dw d)) r) as [[|?]|]; congruence|].
    destruct (path_eqb f q) eqn:E2; [apply path_eqb_eq in E2; subst q; rewrite Hn; reflexivity|reflexivity]. }
  assert (Hfile : forall q, is_file (set_names (dw d) (nset (ndel (names (dw d)) f) r (EFile i))) q =
            if path_eqb f q then false else if path_eqb r q then true else is_file (dw d) q).
  { intro q. unfold is_file. cbn [names set_names]. rewrite Hnew.
    destruct (path_eqb f q) eqn:E2; destruct (path_eqb r q) eqn:E1; try reflexivity.
    apply path_eqb_eq in E1, E2. congruence. }
  assert (Hres : forall q, resolve (push s (PRename f r)) q = if path_eqb r q then f else resolve s q).
  { intro q. rewrite resolve_push_ren. destruct (path_eqb r q); [|reflexivity].
    apply resolve_other. apply not_tgt_of_rnames. exact Hfn. }
  assert (Hren : forall f' r', In (PRename f' r') (pending s ++ [PRename f r]) <->
            In (PRename f' r') (pending s) \/ (f' = f /\ r' = r)).
  { intros f' r'. rewrite in_app_iff. cbn. split; [intros [X|[X|[]]]; [left; exact X|inversion X; right; auto]|].
    intros [X|[-> ->]]; auto. }
  constructor; cbn [pfiles pdirs synced pending bsize push set_pending dw with_dw dents ddata dbs dpend names next_ino set_names].
  - exact A.
  - (* du_pend *)
    unfold pwrites. rewrite filter_app. cbn [filter is_pwrite]. rewrite app_nil_r. fold (pwrites (pending s)).
    eapply Forall2_impl_in; [|exact Ap]. intros o w Hin (p0 & off0 & data0 & i0 & X1 & X2 & X3 & (Hlt & X4)).
    apply in_pwrites in Hin as [Hin _]. subst o. destruct (Hdata _ Hin) as [D1 D2]. cbn in D1, D2.
    exists p0, off0, data0, i0. split; [reflexivity|]. split; [exact X2|]. split; [exact X3|].
    split; [exact Hlt|]. cbn [dw with_dw names set_names dents].
    destruct X4 as [Y|(Y1 & Y2 & Y3)].
    + left. rewrite Hnew. rewrite (path_eqb_sym r p0), D2, (path_eqb_sym f p0), D1. exact Y.
    + right. split; [rewrite mem_path_cons, Y1; apply orb_true_r|]. split; [|exact Y3].
      intro q. rewrite Hnew. destruct (path_eqb r q); [intro Hq; inversion Hq; subst i0; eapply Y2; exact Hn|].
      destruct (path_eqb f q); [discriminate|apply Y2].
  - exact And.
  - exact B.
  - exact C.
  - exact D.
  - (* du_cur *)
    intros q j. rewrite Hnew, Hres. destruct (path_eqb r q) eqn:E1.
    + intro Hj. inversion Hj; subst j. rewrite <- (E f i Hn). rewrite (resolve_other s f (not_tgt_of_rnames _ _ Hfn)). reflexivity.
    + destruct (path_eqb f q); [discriminate|apply E].
  - (* du_pf *)
    intros q Hq. rewrite Hfile, mem_path_cons. destruct (path_eqb f q) eqn:E2; [right; rewrite path_eqb_sym, E2; reflexivity|].
    destruct (path_eqb r q); [left; reflexivity|]. destruct (F q Hq) as [X|X]; [left; exact X|right; rewrite X; apply orb_true_r].
  - (* du_pd *) intros q Hq. rewrite Hdir. apply G. exact Hq.
  - (* du_kd *)
    intros q Hq. rewrite Hfile. destruct (path_eqb f q); [reflexivity|].
    destruct (path_eqb r q) eqn:E1; [apply path_eqb_eq in E1; subst q; congruence|apply Gd; exact Hq].
  - (* du_k2 *)
    intros q Hq. rewrite mem_path_cons in Hq. destruct (path_eqb q f) eqn:E2; [apply path_eqb_eq in E2; subst q; exact Hfgd|apply G2; exact Hq].
  - (* du_ef *)
    intros q j Hq. rewrite Hnew, mem_path_cons. destruct (H q j Hq) as [X|[X|[f' X]]].
    + destruct (path_eqb r q) eqn:E1.
      * apply path_eqb_eq in E1. subst q. right; right. exists f. apply Hren. right. auto.
      * destruct (path_eqb f q) eqn:E2; [right; left; rewrite path_eqb_sym, E2; reflexivity|left; exact X].
    + right; left. rewrite X. apply orb_true_r.
    + right; right. exists f'. apply Hren. left. exact X.
  - (* du_k *)
    intros q Hq. rewrite Hdir. rewrite mem_path_cons in Hq. destruct (path_eqb q f) eqn:E2.
    + apply path_eqb_eq in E2. subst q. unfold is_dir. rewrite Hn. reflexivity.
    + apply I. exact Hq.
  - (* du_u *)
    intros p q j Hq. rewrite Hnew, Hres. destruct (path_eqb r p) eqn:E1.
    + intro Hj. inversion Hj; subst j. pose proof (J f q i Hq Hn) as X.
      rewrite (resolve_other s f (not_tgt_of_rnames _ _ Hfn)) in X. exact X.
    + destruct (path_eqb f p); [discriminate|]. apply J. exact Hq.
  - exact K.
  - exact L.
  - exact M.
  - (* du_z1 *)
    intros q Hq. destruct (N q Hq) as [X|[X|[f' X]]]; [left; apply in_or_app; left; exact X|right; left; exact X|].
    right; right. exists f'. apply Hren. left. exact X.
  - exact O.
  - (* du_g1 *)
    intros q Hq. rewrite mem_path_cons in Hq. destruct (path_eqb q f) eqn:E2.
    + apply path_eqb_eq in E2. subst q. right; left. exists r. apply Hren. right. auto.
    + destruct (P q Hq) as [X|[[r' X]|(X1 & X2 & X3)]].
      * left. apply in_or_app. left. exact X.
      * right; left. exists r'. apply Hren. left. exact X.
      * right; right. split; [|split; assumption]. intro Hin. apply in_app_iff in Hin as [Hin|[Hin|[]]]; [contradiction|discriminate].
  - (* du_rl *)
    intros q b Hin. apply in_app_iff in Hin as [Hin|[Hin|[]]]; [|discriminate].
    rewrite fold_left_app. cbn [fold_left]. rewrite (Q q b Hin). cbn [fx_step].
    destruct (path_eqb f q); [reflexivity|].
    destruct (path_eqb r q) eqn:E1; [|reflexivity]. apply path_eqb_eq in E1. subst q.
    apply (inv_rm _ _ _ HI) in Hin. congruence.
  - (* du_rd *)
    intros q Hin. apply in_app_iff in Hin as [Hin|[Hin|[]]]; [apply R; exact Hin|discriminate].
  - (* du_rtd *)
    intros f' r' Hin. apply Hren in Hin as [Hin|[-> ->]]; [eapply Rt; exact Hin|exact Hrgd].
Qed.

(* what the log holds on the two names of a clean rename *)
Lemma rename_keys s d g gd f r i :
  InvF s (dw d) g -> Dur s d g gd -> nget (names (dw d)) f = Some (EFile i) ->
  mem_path r g = false -> ~ In f (rnames (pending s)) -> ~ In r (rnames (pending s)) ->
  (forall o, In o (pending s) -> is_data_op f o = false /\ is_data_op r o = false) ->
  (forall o, In o (pending s) -> on_key f o = true -> o = CreateFile f) /\
  (forall o, In o (pending s) -> on_key r o = true -> o = CreateFile r \/ o = CreateDir r \/ o = PRemoveDir r) /\
  mem_path f (pdirs s) = false.
Proof.
  intros HI HD Hn Hrg Hfn Hrn Hdata.
  assert (Hff : is_file (dw d) f = true) by (apply is_file_iff; eauto).
  assert (Hfg : mem_path f g = false).
  { destruct (mem_path f g) eqn:E0; [|reflexivity]. apply (inv_gone _ _ _ HI) in E0. congruence. }
  destruct (log_kdir s d g gd HI HD f (or_introl Hff)) as [K1 K2].
  split; [|split].
  - intros o Ho Kf. destruct (on_key_cases f o Kf) as [->|[->|[->|[->|[Y|(f' & r' & -> & Y)]]]]]; auto; try contradiction.
    + exfalso. apply (log_no_remove s d g HI f Hfg). exact Ho.
    + destruct (Hdata o Ho). congruence.
    + exfalso. apply Hfn. destruct (rnames_in _ _ _ Ho). destruct Y; subst; assumption.
  - intros o Ho Kr. destruct (on_key_cases r o Kr) as [->|[->|[->|[->|[Y|(f' & r' & -> & Y)]]]]]; auto.
    + exfalso. apply (log_no_remove s d g HI r Hrg). exact Ho.
    + destruct (Hdata o Ho). congruence.
    + exfalso. apply Hrn. destruct (rnames_in _ _ _ Ho). destruct Y; subst; assumption.
  - destruct (mem_path f (pdirs s)) eqn:E0; [|reflexivity]. exfalso.
    destruct (du_pd _ _ _ _ HD f E0) as [X|X].
    + unfold is_dir in X. rewrite Hn in X. discriminate.
    + apply (du_kd _ _ _ _ HD) in X. congruence.
Qed.

(* the side conditions of a clean rename: what the complement of RenameFile (a)-(d), of KindSwap and the
   restriction to names no directory left give *)
Definition rename_hyp (s : fs) (d : dworld) (g gd : list path) (f r : path) : Prop :=
  is_root f = false /\ is_root r = false /\ f <> r /\
  (rename_ok (dw d) f r = true ->
     mem_path r g = false /\ mem_path r gd = false /\
     ~ In f (rnames (pending s)) /\ ~ In r (rnames (pending s)) /\
     (forall o, In o (pending s) -> is_data_op f o = false /\ is_data_op r o = false)).

Lemma rename_file_refines s hs d g gd f r i :
  InvF s (dw d) g -> HRel hs (shs (dw d)) -> Dur s d g gd ->
  nget (names (dw d)) f = Some (EFile i) -> rename_hyp s d g gd f r ->
  DInv (fst (step (mkWorld s hs) (Rename f r))) (fst (dstep d (Rename f r)))
       (gone_after (dw d) g (Rename f r)) gd /\
  obs_ok (snd (dstep d (Rename f r))) (snd (step (mkWorld s hs) (Rename f r))).
Proof.
  intros HF HH HD Hn (Hrf & Hrr & Hne & Hok).
  assert (Hstep : StepOk (mkWorld s hs) (dw d) g (Rename f r)).
  { apply (step_rename_file s hs (dw d) g f r i HF HH Hn Hne Hrf Hrr). intro Hk.
    destruct (Hok Hk) as (K1 & K2 & K3 & K4 & K5).
    destruct (rename_keys s d g gd f r i HF HD Hn K1 K3 K4 K5) as (A & B & C). auto 7. }
  destruct Hstep as [[HF' HH'] Hobs].
  destruct (dstep_tree d (Rename f r)) as [Ht Hx]; [intros x; discriminate|].
  rewrite Hx. split; [|exact Hobs]. unfold DInv. rewrite Ht. split; [exact HF'|]. split; [exact HH'|].
  (* the durable side *)
  assert (Hd : fst (dstep d (Rename f r)) = with_dw d (fst (sstep (dw d) (Rename f r)))).
  { unfold dstep. destruct (sstep (dw d) (Rename f r)) as [t1 x]. cbn [fst]. destruct (is_err x); reflexivity. }
  rewrite Hd. clear Hd Ht Hx HF' HH' Hobs. cbn [step sstep gone_after wfs whs fst]. rewrite Hn.
  unfold rename_ok in *. unfold srename in *.
  destruct f as [|a f]; [discriminate|]. destruct r as [|b r]; [discriminate|]. rewrite Hn in *.
  assert (Hfe : file_exists s (a :: f) = true) by (rewrite (inv_fx _ _ _ HF); apply is_file_iff; eauto).
  rewrite res_fs. unfold rename. rewrite (parent_exists_inv s (dw d) g _ HF), Hfe, (inv_dx _ _ _ HF).
  destruct (parent_is_dir (dw d) (b :: r)) eqn:Hpar; cbn [negb fst snd] in *; [|same_tree HD].
  unfold is_dir. destruct (nget (names (dw d)) (b :: r)) as [[|j]|] eqn:Er; cbn [fst snd] in *; [same_tree HD| |].
  - destruct (path_eqb (a :: f) (b :: r)) eqn:E0; [apply path_eqb_eq in E0; congruence|]. cbn [fst snd] in *.
    destruct (Hok eq_refl) as (K1 & K2 & K3 & K4 & K5).
    apply Dur_rename; auto. unfold is_dir. rewrite Er. reflexivity.
  - destruct (path_eqb (a :: f) (b :: r)) eqn:E0; [apply path_eqb_eq in E0; congruence|]. cbn [fst snd] in *.
    destruct (Hok eq_refl) as (K1 & K2 & K3 & K4 & K5).
    apply Dur_rename; auto. unfold is_dir. rewrite Er. reflexivity.
Qed.

(* ---- one step ------------------------------------------------------------------------------------------- *)
Definition step_hyp (s : fs) (d : dworld) (g gd : list path) (o : op) : Prop :=
  match o with
  | Rename f r =>
      match nget (names (dw d)) f with
      | Some (EFile _) => rename_hyp s d g gd f r
      | _ => op_classes (dw d) g o = []
      end
  | _ => op_classes (dw d) g o = [] /\ kind_swap (dw d) g gd o = false /\ quiet s (dw d) g o
  end.

Lemma dstep_refines w d g gd o :
  DInv w d g gd -> c07_op o = true -> step_hyp (wfs w) d g gd o ->
  (forall x, o = Crash x -> dangling d = false) ->
  DInv (fst (step w o)) (fst (dstep d o)) (gone_after (dw d) g o) (gd_after (dw d) gd o) /\
  obs_ok (snd (dstep d o)) (snd (step w o)).
Proof.
  intros (HF & HH & HD) Hop Hhyp Hdg.
  destruct (match o with Crash _ => true | _ => false end) eqn:Hcr.
  - destruct o; try discriminate. cbn [step dstep fst snd gone_after gd_after wfs whs].
    destruct (crash_refines (wfs w) d g gd draws HF HD (Hdg draws eq_refl)) as [A B].
    split; [|reflexivity]. split; [exact A|]. split; [|exact B].
    intro slot. cbn. exact I.
  - destruct w as [s hs]. cbn [wfs whs] in *.
    (* a rename of a regular file *)
    destruct (match o with Rename f _ => match nget (names (dw d)) f with Some (EFile _) => true | _ => false end | _ => false end) eqn:Hrn.
    { destruct o; try discriminate. cbn [step_hyp] in Hhyp.
      destruct (nget (names (dw d)) f) as [[|i]|] eqn:En; try discriminate.
      cbn [gd_after]. exact (rename_file_refines s hs d g gd f t i HF HH HD En Hhyp). }
    assert (Hcl : op_classes (dw d) g o = [] /\ kind_swap (dw d) g gd o = false /\ quiet s (dw d) g o).
    { destruct o; cbn [step_hyp] in Hhyp; try exact Hhyp.
      destruct (nget (names (dw d)) f) as [[|i]|] eqn:En; try discriminate; (split; [exact Hhyp|split; [reflexivity|exact Logic.I]]). }
    destruct Hcl as (Hcl & Hks & Hqt).
    assert (Hnc : forall x, o <> Crash x) by (intros x Hx; subst o; discriminate).
    assert (Hc10 : c10_op o = true) by (destruct o; try reflexivity; discriminate).
    destruct (step_refines_q (mkWorld s hs) (dw d) g o (conj HF HH) Hc10 Hcl Hqt) as [[HF' HH'] Hobs].
    destruct (dstep_tree d o Hnc) as [Ht Hx]. rewrite Hx. split; [|exact Hobs].
    unfold DInv. rewrite Ht. split; [exact HF'|]. split; [exact HH'|].
    destruct (readonly_op o) eqn:Hro.
    + rewrite (step_readonly _ o Hro). cbn [wfs].
      destruct (dstep_readonly d o Hro) as (S1 & S2 & S3 & S4).
      replace (gone_after (dw d) g o) with g by (destruct o; try discriminate; reflexivity).
      replace (gd_after (dw d) gd o) with gd by (destruct o; try discriminate; reflexivity).
      eapply Dur_ext; eauto.
    + destruct o; try discriminate.
      * exact (dur_open s hs d g gd slot p r w a t c n HF HD Hcl Hks).
      * exact (dur_handle_ops s hs d g gd _ HF HH HD Hcl Hqt I).
      * exact (dur_handle_ops s hs d g gd _ HF HH HD Hcl Hqt I).
      * exact (dur_handle_ops s hs d g gd _ HF HH HD Hcl Hqt I).
      * exact (dur_handle_ops s hs d g gd _ HF HH HD Hcl Hqt I).
      * exact (dur_handle_ops s hs d g gd _ HF HH HD Hcl Hqt I).
      * exact (dur_path_ops s hs d g gd _ HF HD Hcl Hks Hqt I).
      * exact (dur_path_ops s hs d g gd _ HF HD Hcl Hks Hqt I).
      * exact (dur_path_ops s hs d g gd _ HF HD Hcl Hks Hqt I).
      * exact (dur_path_ops s hs d g gd _ HF HD Hcl Hks Hqt I).
      * exact (dur_path_ops s hs d g gd _ HF HD Hcl Hks Hqt I).
      * exact (dur_spit s hs d g gd p data coin HF HD Hcl Hks Hqt).
Qed.

Lemma DInv_init b : DInv (init_world b) (init_dworld b) [] [].
Proof.
  destruct (Inv_init b) as [A B]. split; [exact A|]. split; [exact B|].
  constructor; cbn; try discriminate.
  - reflexivity.
  - constructor.
  - constructor; [intros []|constructor].
  - intro p. destruct p; reflexivity.
  - intros p i. destruct p; discriminate.
  - intros p. destruct p; [reflexivity|discriminate].
  - intros p i. destruct p; discriminate.
  - intros p Hp. left. unfold is_dir. cbn. destruct p; [reflexivity|discriminate].
  - intros p i. destruct p; discriminate.
  - intros p q i. destruct q; discriminate.
  - intros p q i. destruct p; discriminate.
  - intros p i. destruct p; discriminate.
  - reflexivity.
  - intros p H. exact H.
  - intros p b0 [].
  - intros p [].
  - intros f r [].
Qed.

(* without a pending rename: the classes of FsSafe (which exclude every rename of a regular file) suffice *)
Lemma step_hyp_norename s d g gd o : norename s ->
  op_classes (dw d) g o = [] -> kind_swap (dw d) g gd o = false -> step_hyp s d g gd o.
Proof.
  intros Hnr Hcl Hks. destruct o; cbn [step_hyp]; try (split; [exact Hcl|split; [exact Hks|apply quiet_norename; exact Hnr]]).
  destruct (nget (names (dw d)) f) as [[|i]|] eqn:En; try exact Hcl.
  cbn [op_classes] in Hcl. rewrite En in Hcl. apply app_eq_nil in Hcl as [_ Hcl]. discriminate.
Qed.

Lemma dstep_norename w d g gd o : DInv w d g gd -> norename (wfs w) -> c07_op o = true ->
  op_classes (dw d) g o = [] -> norename (wfs (fst (step w o))).
Proof.
  intros (HF & HH & _) Hnr Hop Hcl. destruct (match o with Crash _ => true | _ => false end) eqn:Hcr.
  - destruct o; try discriminate. reflexivity.
  - assert (Hc10 : c10_op o = true) by (destruct o; try reflexivity; discriminate).
    apply (step_refines w (dw d) g o (conj HF HH) Hnr Hc10 Hcl).
Qed.

Lemma drun_refines : forall l w d g gd,
  DInv w d g gd -> norename (wfs w) -> forallb c07_op l = true -> dsafe_from d g gd l = true ->
  Forall2 obs_ok (snd (drun d l)) (snd (run w l)).
Proof.
  induction l as [|o l IH]; intros w d g gd HI Hnr Hal Hs; cbn [drun run].
  - constructor.
  - cbn in Hal. apply andb_true_iff in Hal as [Ho Hal].
    cbn [dsafe_from] in Hs. apply andb_true_iff in Hs as [Hs Hs4]. apply andb_true_iff in Hs as [Hs Hs3].
    apply andb_true_iff in Hs as [Hs1 Hs2].
    assert (Hcl : op_classes (dw d) g o = []) by (destruct (op_classes (dw d) g o); [reflexivity|discriminate]).
    apply negb_true_iff in Hs2.
    assert (Hdg : forall x, o = Crash x -> dangling d = false).
    { intros x Hx. subst o. apply negb_true_iff in Hs3. exact Hs3. }
    destruct (dstep_refines w d g gd o HI Ho (step_hyp_norename _ d g gd o Hnr Hcl Hs2) Hdg) as [HI' Hobs].
    pose proof (dstep_norename w d g gd o HI Hnr Ho Hcl) as Hnr'.
    destruct (dstep d o) as [d1 y] eqn:Es. destruct (step w o) as [w1 x] eqn:Ew. cbn [fst snd] in *.
    specialize (IH w1 d1 _ _ HI' Hnr' Hal Hs4).
    destruct (drun d1 l) as [d2 ys]. destruct (run w1 l) as [w2 xs]. cbn [fst snd] in *.
    constructor; assumption.
Qed.

Theorem crash_image_lemma : forall bs l,
  forallb c07_op l = true -> dsafe bs l = true ->
  Forall2 obs_ok (snd (drun (init_dworld bs) l)) (snd (run (init_world bs) l)).
Proof. intros bs l Hal Hs. exact (drun_refines l _ _ [] [] (DInv_init bs) eq_refl Hal Hs). Qed.
