(* TV.Fs.FsImpl — executable transcription of crates/turmoil-fs (struct Fs in
   src/lib.rs and the std shim in src/shim/std/fs/mod.rs; the tokio shim
   forwards to the std shim call by call).  No proofs in this file.

   Scope: regular files and directories.  Symlinks, hard links, permissions,
   timestamps, page cache, capacity, io errors, short reads, corruption are not
   modelled (their tables are empty / their probabilities 0 in every scenario).

   Correspondence of names (Rust -> here):
     Fs::file_exists / dir_exists            file_exists / dir_exists
     Fs::resolve_persisted_path              resolve
     Fs::path_renamed_to                     renamed_to
     Fs::file_len / read_file                file_len / read_file
     Fs::mkdir_with_mode / rmdir / unlink / rename / dir_has_children / dir_entries
                                             mkdir / rmdir / unlink / rename / has_children / dir_entries
     Fs::write_file / set_file_len / create_file_with_mode
                                             push (PWrite ..) / push (PSetLen ..) / push (CreateFile ..)
     Fs::apply_op_to_persisted               apply_op
     Fs::sync_file = Fs::sync_file_data      sync_file
     Fs::sync_dir                            sync_dir
     Fs::crash / apply_torn_writes           crash / torn_writes   (block draws are inputs)
     OpenOptions::open, File::{read,write,seek,set_len,sync_all,sync_data,metadata},
     FileExt::{read_at,write_at}, create_dir(_all), remove_dir(_all), remove_file,
     rename, metadata, exists, read_dir, read, write, sync_dir
                                             step (one constructor of [op] each)
   Randomness: the background sync coin of write/set_len and the torn-write block
   draws are arguments of the events.  IndexMap/IndexSet iteration order of the
   persisted tables is not observable (listings are compared as sets), so the
   tables are association lists with replace-or-append insertion. *)
From TV.Lib Require Import Base.
Open Scope N_scope.

Definition name := N.
Definition path := list name.          (* [] is "/" *)
Definition bytes := list N.

Fixpoint path_eqb (p q : path) : bool :=
  match p, q with
  | [], [] => true
  | a :: p', b :: q' => (a =? b) && path_eqb p' q'
  | _, _ => false
  end.

(* Path::parent: None for "/" *)
Definition parent (p : path) : option path :=
  match p with [] => None | _ => Some (removelast p) end.
(* `p.parent() == Some(d)` *)
Definition child_of (p d : path) : bool :=
  match parent p with Some q => path_eqb q d | None => false end.
Definition mem_path (p : path) (l : list path) : bool := existsb (path_eqb p) l.

(* ---- byte vectors ------------------------------------------------------- *)
Definition zeros (n : nat) : bytes := repeat 0 n.
(* Vec::resize(n, 0) *)
Definition resize (c : bytes) (n : nat) : bytes := firstn n c ++ zeros (n - length c).
(* the Write arm of apply_op_to_persisted on the content vector *)
Definition write_bytes (c : bytes) (off : nat) (data : bytes) : bytes :=
  let e := (off + length data)%nat in
  let c' := if (length c <? e)%nat then resize c e else c in
  firstn off c' ++ data ++ skipn e c'.

(* ---- pending operations and the Fs state -------------------------------- *)
Inductive pop :=
| CreateFile (p : path)
| CreateDir (p : path)
| PWrite (p : path) (off : nat) (data : bytes)
| PSetLen (p : path) (len : nat)
| PRename (from to : path)
| PRemoveFile (p : path)
| PRemoveDir (p : path).

Record fs := mkFs {
  pfiles : list (path * bytes);      (* persisted_files (content only) *)
  pdirs : list path;                 (* persisted_dirs *)
  synced : list path;                (* synced_entries *)
  pending : list pop;
  bsize : nat                        (* block_size, 0 = None *)
}.

Definition init_fs (b : nat) : fs :=
  {| pfiles := []; pdirs := [[]]; synced := [[]]; pending := []; bsize := b |}.

Definition set_pending (s : fs) (l : list pop) : fs :=
  {| pfiles := pfiles s; pdirs := pdirs s; synced := synced s; pending := l; bsize := bsize s |}.
Definition push (s : fs) (o : pop) : fs := set_pending s (pending s ++ [o]).

Fixpoint fget (m : list (path * bytes)) (p : path) : option bytes :=
  match m with
  | [] => None
  | (q, c) :: m' => if path_eqb q p then Some c else fget m' p
  end.
(* IndexMap::insert: replace in place or append *)
Fixpoint fset (m : list (path * bytes)) (p : path) (c : bytes) : list (path * bytes) :=
  match m with
  | [] => [(p, c)]
  | (q, d) :: m' => if path_eqb q p then (q, c) :: m' else (q, d) :: fset m' p c
  end.
Definition fdel (m : list (path * bytes)) (p : path) : list (path * bytes) :=
  filter (fun e => negb (path_eqb (fst e) p)) m.
Definition has_file (m : list (path * bytes)) (p : path) : bool :=
  match fget m p with Some _ => true | None => false end.
Definition padd (l : list path) (p : path) : list path := if mem_path p l then l else l ++ [p].
Definition pdel (l : list path) (p : path) : list path := filter (fun q => negb (path_eqb q p)) l.

(* ---- views --------------------------------------------------------------- *)

(* Fs::file_exists *)
Definition file_exists (s : fs) (p : path) : bool :=
  fold_left (fun ex o =>
    match o with
    | CreateFile q => if path_eqb q p then true else ex
    | PRemoveFile q => if path_eqb q p then false else ex
    | PRename f t => if path_eqb f p then false else if path_eqb t p then true else ex
    | _ => ex
    end) (pending s) (has_file (pfiles s) p).

(* Fs::dir_exists *)
Definition dir_exists (s : fs) (p : path) : bool :=
  fold_left (fun ex o =>
    match o with
    | CreateDir q => if path_eqb q p then true else ex
    | PRemoveDir q => if path_eqb q p then false else ex
    | PRename f t =>
        if path_eqb f p && mem_path f (pdirs s) then false
        else if path_eqb t p && mem_path f (pdirs s) then true else ex
    | _ => ex
    end) (pending s) (mem_path p (pdirs s)).

(* Fs::resolve_persisted_path (= resolve_content_path: no hard links) *)
Definition resolve (s : fs) (p : path) : path :=
  fold_left (fun cur o =>
    match o with PRename f t => if path_eqb t cur then f else cur | _ => cur end)
    (rev (pending s)) p.

(* Fs::path_renamed_to *)
Definition renamed_to (s : fs) (from to : path) : bool :=
  path_eqb (fold_left (fun cur o =>
    match o with PRename f t => if path_eqb f cur then t else cur | _ => cur end)
    (pending s) from) to.

Definition applies (s : fs) (cp q : path) : bool := path_eqb q cp || renamed_to s q cp.

(* Fs::file_len *)
Definition file_len (s : fs) (p : path) : nat :=
  let cp := resolve s p in
  fold_left (fun len o =>
    match o with
    | PWrite q off data => if applies s cp q then Nat.max len (off + length data) else len
    | PSetLen q n => if applies s cp q then n else len
    | _ => len
    end) (pending s) (match fget (pfiles s) cp with Some c => length c | None => 0%nat end).

(* the overlay of one pending write on the read buffer (buffer starts at file
   offset [boff]) *)
Fixpoint overlay_from (j : nat) (buf : bytes) (boff woff : nat) (data : bytes) : bytes :=
  match buf with
  | [] => []
  | b :: buf' =>
      let i := (boff + j)%nat in
      (if (woff <=? i)%nat && (i <? woff + length data)%nat then nth (i - woff) data 0 else b)
      :: overlay_from (S j) buf' boff woff data
  end.
Definition overlay (buf : bytes) (boff woff : nat) (data : bytes) : bytes :=
  overlay_from 0 buf boff woff data.
(* buf[keep..].fill(0) *)
Definition zero_from (buf : bytes) (keep : nat) : bytes :=
  firstn keep buf ++ zeros (length buf - keep).

(* Fs::read_file with a buffer of [buflen] bytes: the bytes returned *)
Definition read_file (s : fs) (p : path) (buflen offset : nat) : bytes :=
  if (buflen =? 0)%nat then [] else
  let fl := file_len s p in
  if (fl <=? offset)%nat then [] else
  let to_read := Nat.min buflen (fl - offset) in
  let cp := resolve s p in
  let buf0 :=
    match fget (pfiles s) cp with
    | Some c => firstn to_read (skipn offset c ++ zeros to_read)
    | None => zeros to_read
    end in
  fold_left (fun buf o =>
    match o with
    | PWrite q woff data => if applies s cp q then overlay buf offset woff data else buf
    | PSetLen q n => if applies s cp q then zero_from buf (Nat.min (n - offset) to_read) else buf
    | _ => buf
    end) (pending s) buf0.

(* Fs::parent_exists *)
Definition parent_exists (s : fs) (p : path) : bool :=
  match parent p with None => true | Some q => dir_exists s q end.

(* Fs::dir_has_children *)
Definition has_children (s : fs) (d : path) : bool :=
  existsb (fun e => child_of (fst e) d && file_exists s (fst e)) (pfiles s)
  || existsb (fun q => child_of q d && dir_exists s q) (pdirs s)
  || existsb (fun o =>
       match o with
       | CreateFile q => child_of q d && file_exists s q
       | CreateDir q => child_of q d && dir_exists s q
       | _ => false
       end) (pending s).

(* Fs::dir_entries (a set: the shim collects into a HashSet) *)
Definition dir_entries (s : fs) (d : path) : list path :=
  map fst (filter (fun e => child_of (fst e) d && file_exists s (fst e)) (pfiles s))
  ++ filter (fun q => child_of q d && dir_exists s q) (pdirs s)
  ++ flat_map (fun o =>
       match o with
       | CreateFile q => if child_of q d && file_exists s q then [q] else []
       | CreateDir q => if child_of q d && dir_exists s q then [q] else []
       | PRename _ t => if child_of t d && (file_exists s t || dir_exists s t) then [t] else []
       | _ => []
       end) (pending s).

(* ---- mutators ------------------------------------------------------------- *)
Definition ENOENT : N := 1.  Definition EEXIST : N := 2.  Definition ENOTEMPTY : N := 3.
Definition EISDIR : N := 4.  Definition ENOTDIR : N := 5. Definition EBADF : N := 6.
Definition EINVAL : N := 7.

(* Fs::mkdir_with_mode *)
Definition mkdir (s : fs) (p : path) : fs * option N :=
  if negb (parent_exists s p) then (s, Some ENOENT)
  else if dir_exists s p || file_exists s p then (s, Some EEXIST)
  else (push s (CreateDir p), None).

(* Fs::rmdir *)
Definition rmdir (s : fs) (p : path) : fs * option N :=
  if negb (dir_exists s p) then (s, Some ENOENT)
  else if has_children s p then (s, Some ENOTEMPTY)
  else (push s (PRemoveDir p), None).

(* Fs::unlink *)
Definition unlink (s : fs) (p : path) : fs * option N :=
  if negb (file_exists s p) then (s, Some ENOENT) else (push s (PRemoveFile p), None).

(* Fs::rename *)
Definition rename (s : fs) (f t : path) : fs * option N :=
  if negb (parent_exists s t) then (s, Some ENOENT)
  else if file_exists s f then
    if dir_exists s t then (s, Some EISDIR) else (push s (PRename f t), None)
  else if dir_exists s f then
    if file_exists s t then (s, Some ENOTDIR)
    else if dir_exists s t && has_children s t then (s, Some ENOTEMPTY)
    else (push s (PRename f t), None)
  else (s, Some ENOENT).

(* Fs::apply_op_to_persisted *)
Definition apply_op (s : fs) (o : pop) : fs :=
  let upd f d := {| pfiles := f; pdirs := d; synced := synced s; pending := pending s; bsize := bsize s |} in
  match o with
  | CreateFile p => if has_file (pfiles s) p then s else upd (pfiles s ++ [(p, [])]) (pdirs s)
  | CreateDir p => upd (pfiles s) (padd (pdirs s) p)
  | PWrite p off data =>
      match fget (pfiles s) p with
      | Some c => upd (fset (pfiles s) p (write_bytes c off data)) (pdirs s)
      | None => s
      end
  | PSetLen p n =>
      match fget (pfiles s) p with
      | Some c => upd (fset (pfiles s) p (resize c n)) (pdirs s)
      | None => s
      end
  | PRename f t =>
      match fget (pfiles s) f with
      | Some c => upd (fset (fdel (pfiles s) f) t c) (pdirs s)
      | None => if mem_path f (pdirs s) then upd (pfiles s) (padd (pdel (pdirs s) f) t) else s
      end
  | PRemoveFile p => upd (fdel (pfiles s) p) (pdirs s)
  | PRemoveDir p => upd (pfiles s) (pdel (pdirs s) p)
  end.

Definition is_data_op (p : path) (o : pop) : bool :=
  match o with
  | PWrite q _ _ => path_eqb q p
  | PSetLen q _ => path_eqb q p
  | _ => false
  end.

(* Fs::sync_file and Fs::sync_file_data (same body) *)
Definition sync_file (s : fs) (p : path) : fs * option N :=
  if negb (file_exists s p) then (s, Some ENOENT) else
  let flush := filter (is_data_op p) (pending s) in
  let keep := filter (fun o => negb (is_data_op p o)) (pending s) in
  let s1 := {| pfiles := if has_file (pfiles s) p then pfiles s else pfiles s ++ [(p, [])];
               pdirs := pdirs s; synced := synced s; pending := keep; bsize := bsize s |} in
  (fold_left apply_op flush s1, None).

Definition is_entry_op (d : path) (o : pop) : bool :=
  match o with
  | CreateDir q => path_eqb q d || child_of q d
  | CreateFile q => child_of q d
  | PRemoveFile q => child_of q d
  | PRemoveDir q => path_eqb q d || child_of q d
  | PRename f t => child_of f d || child_of t d
  | _ => false
  end.

Definition set_synced (s : fs) (l : list path) : fs :=
  {| pfiles := pfiles s; pdirs := pdirs s; synced := l; pending := pending s; bsize := bsize s |}.

(* the synced_entries bookkeeping of one flushed op in Fs::sync_dir *)
Definition mark_synced (d : path) (l : list path) (o : pop) : list path :=
  match o with
  | CreateFile q => if child_of q d then padd l q else l
  | CreateDir q => if path_eqb q d || child_of q d then padd l q else l
  | PRemoveFile q => if child_of q d then pdel l q else l
  | PRemoveDir q => if child_of q d then pdel l q else l
  | PRename f t =>
      let l1 := if child_of f d then pdel l f else l in
      if child_of t d then padd l1 t else l1
  | _ => l
  end.

(* Fs::sync_dir *)
Definition sync_dir (s : fs) (d : path) : fs * option N :=
  if negb (dir_exists s d) then (s, Some ENOENT) else
  let flush := filter (is_entry_op d) (pending s) in
  let keep := filter (fun o => negb (is_entry_op d o)) (pending s) in
  (fold_left (fun st o => apply_op (set_synced st (mark_synced d (synced st) o)) o)
     flush (set_pending s keep), None).

(* Fs::apply_torn_writes: [draws] = the surviving block count of every pending
   write to a path with a durable entry that spans at least one block, in order *)
Fixpoint torn_writes (s : fs) (ops : list pop) (draws : list nat) : fs :=
  match ops with
  | [] => s
  | PWrite p off data :: ops' =>
      let total := ((length data + bsize s - 1) / bsize s)%nat in
      if negb (mem_path p (synced s)) || (total =? 0)%nat then torn_writes s ops' draws
      else
        let k := hd 0%nat draws in
        let s' :=
          if (k =? 0)%nat then s
          else apply_op s (PWrite p off (firstn (Nat.min (k * bsize s) (length data)) data)) in
        torn_writes s' ops' (tl draws)
  | _ :: ops' => torn_writes s ops' draws
  end.

(* how many draws Fs::crash consumes (used by the harness adapter) *)
Definition torn_draws (s : fs) : nat :=
  if (bsize s =? 0)%nat then 0%nat else
  length (filter (fun o => match o with
                           | PWrite p _ data => mem_path p (synced s) && negb (length data =? 0)%nat
                           | _ => false end) (pending s)).

(* Fs::crash *)
Definition crash (s : fs) (draws : list nat) : fs :=
  let s1 := if (bsize s =? 0)%nat then s else
            (* torn writes are computed against the synced set of the crashing state and
               applied to persisted files only (apply_op on a missing file is a no-op) *)
            set_pending (torn_writes s (pending s) draws) (pending s) in
  {| pfiles := filter (fun e => mem_path (fst e) (synced s1)) (pfiles s1);
     pdirs := filter (fun q => mem_path q (synced s1)) (pdirs s1);
     synced := synced s1; pending := []; bsize := bsize s1 |}.

(* ---- the std shim --------------------------------------------------------- *)
Record hnd := mkHnd { hpath : path; hr : bool; hw : bool; ha : bool; hpos : nat }.
Record world := mkWorld { wfs : fs; whs : list (N * hnd) }.

Definition init_world (b : nat) : world := {| wfs := init_fs b; whs := [] |}.

Fixpoint hget (l : list (N * hnd)) (k : N) : option hnd :=
  match l with [] => None | (j, h) :: l' => if j =? k then Some h else hget l' k end.
Definition hdel (l : list (N * hnd)) (k : N) : list (N * hnd) :=
  filter (fun e => negb (fst e =? k)) l.
Definition hset (l : list (N * hnd)) (k : N) (h : hnd) : list (N * hnd) := (k, h) :: hdel l k.

Inductive op :=
| Open (slot : N) (p : path) (r w a t c n : bool)
| Close (slot : N)
| WriteAt (slot : N) (off : N) (data : bytes) (coin : bool)
| ReadAt (slot : N) (off len : N)
| Write (slot : N) (data : bytes) (coin : bool)
| Read (slot : N) (len : N)
| Seek (slot : N) (whence : N) (off : Z)
| SetLen (slot : N) (n : N) (coin : bool)
| SyncAll (slot : N) | SyncData (slot : N) | FLen (slot : N)
| SyncDir (p : path) | Mkdir (p : path) | MkdirAll (p : path) | Rmdir (p : path)
| RmdirAll (p : path) | Unlink (p : path) | Rename (f t : path)
| Stat (p : path) | Exists (p : path) | Readdir (p : path) | Slurp (p : path)
| Spit (p : path) (data : bytes) (coin : bool)
| Dump (universe : list path)
| Crash (draws : list nat)
| Tick.

Inductive out :=
| OOk | ONum (n : N) | OBytes (b : bytes) | ONames (l : list name) | OBool (b : bool)
| OFile (len : N) | ODir | OErr (e : N) | ONoSlot
| ODump (rows : list (N * bytes * bool * N)).   (* kind 0 none 1 file 2 dir, data/names, exists(), len *)

Definition res (r : fs * option N) (w : world) : world * out :=
  match snd r with
  | None => ({| wfs := fst r; whs := whs w |}, OOk)
  | Some e => ({| wfs := fst r; whs := whs w |}, OErr e)
  end.

Definition with_fs (w : world) (s : fs) : world := {| wfs := s; whs := whs w |}.

(* the option validation of std::fs::OpenOptions (get_access_mode / get_creation_mode),
   repeated at the top of the shim's OpenOptions::open *)
Definition valid_open (r w a t c n : bool) : bool :=
  (r || w || a)
  && (w || a || negb (t || c || n))
  && negb (a && t && negb n).

(* OpenOptions::open; returns the new fs and the handle *)
Definition open_file (s : fs) (p : path) (r w a t c n : bool) : fs * (hnd + N) :=
  let ex := file_exists s p in
  if negb (valid_open r w a t c n) then (s, inr EINVAL)
  else if n && ex then (s, inr EEXIST)
  else
    let created :=
      if ex then Some s
      else if c || n then
        if dir_exists s p then None
        else if parent_exists s p then Some (push s (CreateFile p)) else None
      else None in
    match created with
    | None => (s, inr (if (c || n) && dir_exists s p then EISDIR else ENOENT))
    | Some s1 =>
        let s2 := if t && w then push s1 (PSetLen p 0) else s1 in
        (s2, inl {| hpath := p; hr := r; hw := w || a; ha := a; hpos := 0 |})
    end.

(* File::write_at_internal *)
Definition write_at (s : fs) (h : hnd) (off : nat) (data : bytes) (coin : bool) : fs * (nat + N) :=
  if negb (hw h) then (s, inr EBADF)
  else
    let s1 := match data with [] => s | _ => push s (PWrite (hpath h) off data) end in
    let s2 := if coin then fst (sync_file s1 (hpath h)) else s1 in
    (s2, inl (length data)).

(* last path component *)
Definition base (p : path) : name := last p 0.

Fixpoint insert_sorted (x : N) (l : list N) : list N :=
  match l with
  | [] => [x]
  | y :: l' => if x <? y then x :: l else if x =? y then l else y :: insert_sorted x l'
  end.
Definition sort_names (l : list N) : list N := fold_right insert_sorted [] l.

Fixpoint insert_path (x : path) (l : list path) : list path :=
  match l with
  | [] => [x]
  | y :: l' => if base x <? base y then x :: l else if path_eqb x y then l else y :: insert_path x l'
  end.
Definition sort_paths (l : list path) : list path := fold_right insert_path [] l.

Definition listing (s : fs) (d : path) : list name := sort_names (map base (dir_entries s d)).

(* std::fs::read *)
Definition slurp (s : fs) (p : path) : out :=
  if file_exists s p then OBytes (read_file s p (file_len s p) 0) else OErr ENOENT.

(* create_dir_all *)
Fixpoint ancestors_to_create (s : fs) (fuel : nat) (p : path) : list path :=
  match fuel with
  | O => []
  | S f =>
      if dir_exists s p then []
      else match parent p with
           | None => [p]
           | Some q => ancestors_to_create s f q ++ [p]
           end
  end.
Fixpoint mkdir_each (s : fs) (l : list path) : fs * option N :=
  match l with
  | [] => (s, None)
  | d :: l' =>
      if dir_exists s d then mkdir_each s l'
      else match mkdir s d with
           | (s1, None) => mkdir_each s1 l'
           | (s1, Some e) => (s1, Some e)
           end
  end.
Definition mkdir_all (s : fs) (p : path) : fs * option N :=
  mkdir_each s (ancestors_to_create s (S (length p)) p).

(* remove_dir_contents_recursive (entries visited in sorted order) *)
Fixpoint remove_contents (fuel : nat) (s : fs) (d : path) : fs * option N :=
  match fuel with
  | O => (s, None)
  | S f =>
      fold_left (fun acc e =>
        match acc with
        | (st, Some err) => (st, Some err)
        | (st, None) =>
            if dir_exists st e then
              match remove_contents f st e with
              | (st1, Some err) => (st1, Some err)
              | (st1, None) => rmdir st1 e
              end
            else if file_exists st e then unlink st e
            else (st, None)
        end) (sort_paths (dir_entries s d)) (s, None)
  end.
Definition rmdir_all (s : fs) (p : path) : fs * option N :=
  if negb (dir_exists s p) then (s, Some ENOENT)
  else match remove_contents 8 s p with
       | (s1, Some e) => (s1, Some e)
       | (s1, None) => rmdir s1 p
       end.

Definition dump_row (s : fs) (p : path) : N * bytes * bool * N :=
  let ex := file_exists s p || dir_exists s p in
  if file_exists s p then
    (1, read_file s p (file_len s p) 0, ex, N.of_nat (file_len s p))
  else if dir_exists s p then (2, listing s p, ex, 0)
  else (0, [], ex, 0).

Definition set_pos (h : hnd) (n : nat) : hnd :=
  {| hpath := hpath h; hr := hr h; hw := hw h; ha := ha h; hpos := n |}.

Definition step (w : world) (o : op) : world * out :=
  let s := wfs w in
  let on_handle slot (f : hnd -> world * out) : world * out :=
    match hget (whs w) slot with None => (w, ONoSlot) | Some h => f h end in
  match o with
  | Open slot p r wr a t c n =>
      let w0 := {| wfs := s; whs := hdel (whs w) slot |} in
      match open_file s p r wr a t c n with
      | (s1, inl h) => ({| wfs := s1; whs := hset (whs w) slot h |}, OOk)
      | (s1, inr e) => ({| wfs := s1; whs := whs w0 |}, OErr e)
      end
  | Close slot =>
      match hget (whs w) slot with
      | None => (w, ONoSlot)
      | Some _ => ({| wfs := s; whs := hdel (whs w) slot |}, OOk)
      end
  | WriteAt slot off data coin =>
      on_handle slot (fun h =>
        match write_at s h (N.to_nat off) data coin with
        | (s1, inl n) => (with_fs w s1, ONum (N.of_nat n))
        | (s1, inr e) => (with_fs w s1, OErr e)
        end)
  | ReadAt slot off len =>
      on_handle slot (fun h =>
        if negb (hr h) then (w, OErr EBADF)
        else (w, OBytes (read_file s (hpath h) (N.to_nat len) (N.to_nat off))))
  | Write slot data coin =>
      on_handle slot (fun h =>
        let off := if ha h then file_len s (hpath h) else hpos h in
        match write_at s h off data coin with
        | (s1, inl n) =>
            ({| wfs := s1; whs := hset (whs w) slot (set_pos h (off + n)) |}, ONum (N.of_nat n))
        | (s1, inr e) => (with_fs w s1, OErr e)
        end)
  | Read slot len =>
      on_handle slot (fun h =>
        if negb (hr h) then (w, OErr EBADF)
        else
          let b := read_file s (hpath h) (N.to_nat len) (hpos h) in
          ({| wfs := s; whs := hset (whs w) slot (set_pos h (hpos h + length b)) |}, OBytes b))
  | Seek slot whence off =>
      on_handle slot (fun h =>
        let basepos :=
          if whence =? 0 then 0%Z
          else if whence =? 1 then Z.of_nat (hpos h)
          else Z.of_nat (file_len s (hpath h)) in
        let np := (basepos + off)%Z in
        if (np <? 0)%Z then (w, OErr EINVAL)
        else ({| wfs := s; whs := hset (whs w) slot (set_pos h (Z.to_nat np)) |},
              ONum (Z.to_N np)))
  | SetLen slot n coin =>
      on_handle slot (fun h =>
        if negb (hw h) then (w, OErr EBADF)
        else
          let s1 := push s (PSetLen (hpath h) (N.to_nat n)) in
          let s2 := if coin then fst (sync_file s1 (hpath h)) else s1 in
          (with_fs w s2, OOk))
  | SyncAll slot | SyncData slot =>
      on_handle slot (fun h => res (sync_file s (hpath h)) w)
  | FLen slot =>
      on_handle slot (fun h => (w, ONum (N.of_nat (file_len s (hpath h)))))
  | SyncDir p => res (sync_dir s p) w
  | Mkdir p => res (mkdir s p) w
  | MkdirAll p => res (mkdir_all s p) w
  | Rmdir p => res (rmdir s p) w
  | RmdirAll p => res (rmdir_all s p) w
  | Unlink p => res (unlink s p) w
  | Rename f t => res (rename s f t) w
  | Stat p =>
      if file_exists s p then (w, OFile (N.of_nat (file_len s p)))
      else if dir_exists s p then (w, ODir) else (w, OErr ENOENT)
  | Exists p => (w, OBool (file_exists s p || dir_exists s p))
  | Readdir p => if dir_exists s p then (w, ONames (listing s p)) else (w, OErr ENOENT)
  | Slurp p => (w, slurp s p)
  | Spit p data coin =>
      match open_file s p false true false true true false with
      | (s1, inr e) => (with_fs w s1, OErr e)
      | (s1, inl h) =>
          match data with
          | [] => (with_fs w s1, OOk)
          | _ => (with_fs w (fst (write_at s1 h 0 data coin)), OOk)
          end
      end
  | Dump universe => (w, ODump (map (dump_row s) universe))
  | Crash draws => ({| wfs := crash s draws; whs := [] |}, OOk)
  | Tick => (w, OOk)
  end.

Fixpoint run (w : world) (l : list op) : world * list out :=
  match l with
  | [] => (w, [])
  | o :: l' => let (w1, x) := step w o in let (w2, xs) := run w1 l' in (w2, x :: xs)
  end.

(* ---- several hosts: one independent world each --------------------------- *)
Fixpoint set_nth {A} (l : list A) (k : nat) (x : A) : list A :=
  match l, k with
  | [], _ => []
  | _ :: l', O => x :: l'
  | y :: l', S k' => y :: set_nth l' k' x
  end.

Definition hstep (ws : list world) (e : nat * op) : list world * out :=
  match nth_error ws (fst e) with
  | None => (ws, ONoSlot)
  | Some w => let (w1, x) := step w (snd e) in (set_nth ws (fst e) w1, x)
  end.

Fixpoint hrun (ws : list world) (l : list (nat * op)) : list world * list out :=
  match l with
  | [] => (ws, [])
  | e :: l' => let (ws1, x) := hstep ws e in let (ws2, xs) := hrun ws1 l' in (ws2, x :: xs)
  end.

(* ---- observations as plain data (correspondence) ------------------------- *)
Definition enc_out (x : out) : N * N * list N * list (N * bytes * bool * N) :=
  match x with
  | OOk => (0, 0, [], [])
  | ONum n => (1, n, [], [])
  | OBytes b => (2, 0, b, [])
  | ONames l => (3, 0, l, [])
  | OBool b => (4, if b then 1 else 0, [], [])
  | OFile len => (5, len, [], [])
  | ODir => (6, 0, [], [])
  | OErr e => (7, e, [], [])
  | ONoSlot => (8, 0, [], [])
  | ODump rows => (9, 0, [], rows)
  end.

Definition hrun_enc (nhosts bs : nat) (l : list (nat * op)) :=
  map enc_out (snd (hrun (repeat (init_world bs) nhosts) l)).
(* number of torn-write draws a Crash at the end of [l] on host [h] would consume *)
Definition hrun_draws (nhosts bs : nat) (l : list (nat * op)) (h : nat) : N :=
  match nth_error (fst (hrun (repeat (init_world bs) nhosts) l)) h with
  | Some w => N.of_nat (torn_draws (wfs w))
  | None => 0
  end.
