(* TV.Fs.FsKnown — the known-finding classes (known_findings.txt) as decidable
   predicates over histories, evaluated along the reference run FsDurable.
   Mirrored literally by gen/fam_fs.py (class Ghost: classes / update, and the
   dirty set of class Durable); the correspondence run compares the two on
   every generated history.

     NRootOp          open/spit/unlink/mkdir/rmdir/rename naming "/" itself
     NRenameSelf      rename of a regular file onto its own path
     NRenameDir       rename whose source is a directory
     NStaleHandle     use of a handle whose opening path no longer names its inode
     NRecreate        since the last crash:
                        (a) creation, without truncation, of a file at a name a file left (unlink / rename)
                            while it had unsynced data, or
                        (b) while that removal is unflushed (no sync_dir of the parent - of one of the two
                            parents for a rename) and the file that left has non-empty durable data
                            (a creation that truncates - open with truncate, fs::write - hides both, unless
                            a torn-write block size is configured), or
                        (c) a data sync (sync_all / sync_data / coin) of a file created at a name whose removal
                            is unflushed, or
                        (d) creation with truncation (open with truncate, fs::write) at the old or new name of
                            an unflushed clean rename, or a later data operation on a file created there, or
                        (e) with a torn-write block size: a non-empty write to a file created at a name whose
                            removal is unflushed while the name's old entry is durable
                      (any creation at a name a file left since the last crash is FsSafe.KRecreate, which the
                      theorems exclude)
     NKindSwap        an entry of one kind created where an entry of the other kind was removed since the last crash
     NRenameFile      a successful rename f -> t (f <> t) of a regular file that
                        (a) has unsynced data (write / set_len / truncate since its last data sync), or
                        (b) replaces a file with unsynced data, or
                        (c) takes a name whose file was removed, or that was the target of a rename, since the last crash, or
                        (d) is itself still under an unflushed rename;
                      or, while the rename is unflushed (no sync_dir of one of the two parents, no crash),
                        (e) a data operation on the file, or a data sync of it while its new name still carries
                            the durable mark of a removed directory or of an earlier flush (i), or
                        (f) rmdir / remove_dir_all of a directory the file was renamed into
     NRenameCrossDir  for such a rename with different parents:
                        (g) sync_dir(old parent) before sync_dir(new parent);
                        (h) sync_dir(new parent) first while the old entry is not durable: at once if the
                            inode never reached the disk, else every operation until the next crash;
                        (i) sync_dir(new parent) first with a durable old entry: at once if a file was
                            created at the old name meanwhile, else any later creation of a file at the old
                            name (also after crashes);
                        (j) sync_dir(new parent) first with a durable old entry after the file was unlinked
                            at its new name
   No proofs in this file. *)
From TV.Lib Require Import Base.
From TV.Fs Require Import FsImpl FsSpec FsSafe FsDurable.
Open Scope N_scope.

Inductive known :=
| NRootOp | NRenameSelf | NStaleHandle | NRenameDir | NRenameFile | NRenameCrossDir | NRecreate | NKindSwap.

Definition known_id (k : known) : N :=
  match k with
  | NRootOp => 1 | NRenameSelf => 2 | NRenameDir => 4 | NStaleHandle => 5 | NRecreate => 6
  | NRenameFile => 7 | NRenameCrossDir => 8 | NKindSwap => 9
  end.

Record ghost := mkGhost {
  ggone : list path;               (* files unlinked / renamed away since the last crash *)
  ggdirs : list path;              (* directories removed since the last crash *)
  grt : list path;                 (* new names of file renames since the last crash *)
  gpren : list (N * path * path);  (* (inode, old, new): clean renames not yet flushed *)
  ghalf : bool;                    (* a cross-directory rename was flushed on the new parent's side only *)
  gstale : list path;              (* old names left marked durable by such a flush (survives crashes) *)
  gdirty : list N;                 (* inodes with a write / set_len / truncation since their last data sync *)
  gleft : list path;               (* names a file left (unlink / rename) while it had unsynced data *)
  gunfl : list (path * N * option path);   (* name a file left, its inode, other parent of a rename: removal unflushed *)
  grecr : list (path * N);         (* such a name, inode of the file created there meanwhile *)
  grren : list (path * N)          (* name of an unflushed rename, inode of a file created there meanwhile *)
}.

Definition ghost0 : ghost :=
  {| ggone := []; ggdirs := []; grt := []; gpren := []; ghalf := false; gstale := []; gdirty := [];
     gleft := []; gunfl := []; grecr := []; grren := [] |}.

Definition mem_ino (i : N) (l : list N) : bool := existsb (N.eqb i) l.
Definition in_pren (i : N) (l : list (N * path * path)) : bool := existsb (fun r => fst (fst r) =? i) l.
Definition kwhen (b : bool) (k : known) : list known := if b then [k] else [].

Definition is_nil {A} (l : list A) : bool := match l with [] => true | _ => false end.
Definition in_unfl (gh : ghost) (p : path) : bool := existsb (fun u => path_eqb (fst (fst u)) p) (gunfl gh).
(* a file created at p now would show bytes of the file that left p *)
Definition leaves_bytes (d : dworld) (gh : ghost) (p : path) : bool :=
  mem_path p (gleft gh)
  || match find (fun u => path_eqb (fst (fst u)) p) (gunfl gh) with
     | Some u => negb (is_nil (iget (ddata d) (snd (fst u))))
     | None => false
     end.
Definition under_rename (gh : ghost) (p : path) : bool :=
  existsb (fun r => let '(i, f, g) := r in path_eqb p f || path_eqb p g) (gpren gh).
Definition has_ino (i : N) (l : list (path * N)) : bool := existsb (fun e => snd e =? i) l.

(* the inode reached the disk at least once *)
Definition persisted (d : dworld) (i : N) : bool :=
  existsb (fun x => fst x =? i) (ddata d) || durable_ino (dents d) i.

Definition parent_eqb (p : path) (d : path) : bool := child_of p d.

(* non-root prefixes of p, p included *)
Definition nprefixes (p : path) : list path := tl (ancestors p) ++ [p].

(* the inode a data operation of this step lands on *)
Definition touched (t : sworld) (o : op) : option N :=
  match o with
  | Open _ p r w a tr c n =>
      match nget (names t) p with
      | Some (EFile i) => if tr && w && negb n && valid_open r w a tr c n then Some i else None
      | _ => None
      end
  | Spit p _ _ => match nget (names t) p with Some (EFile i) => Some i | _ => None end
  | WriteAt slot _ data _ | Write slot data _ =>
      match sget (shs t) slot with
      | Some h => if sw h && negb (match data with [] => true | _ => false end) then Some (sino h) else None
      | None => None
      end
  | SetLen slot _ _ =>
      match sget (shs t) slot with Some h => if sw h then Some (sino h) else None | None => None end
  | _ => None
  end.

(* the inode a non-empty write of this step lands on *)
Definition written_ino (t : sworld) (o : op) : option N :=
  match o with
  | WriteAt slot _ data _ | Write slot data _ =>
      match sget (shs t) slot with
      | Some h => if sw h && negb (is_nil data) then Some (sino h) else None
      | None => None
      end
  | Spit p data _ =>
      match nget (names t) p with
      | Some (EFile i) => if negb (is_nil data) then Some i else None
      | _ => None
      end
  | _ => None
  end.

(* the inode this step data-syncs *)
Definition synced_ino (t : sworld) (o : op) : option N :=
  match o with
  | SyncAll slot | SyncData slot => match sget (shs t) slot with Some h => Some (sino h) | None => None end
  | WriteAt slot _ _ coin | Write slot _ coin | SetLen slot _ coin =>
      match sget (shs t) slot with Some h => if coin && sw h then Some (sino h) else None | None => None end
  | Spit p data coin =>
      match nget (names t) p with
      | Some (EFile i) => if coin && negb (is_nil data) then Some i else None
      | _ => None
      end
  | _ => None
  end.

Definition kclasses (d : dworld) (gh : ghost) (o : op) : list known :=
  let t := dw d in
  match o with
  | Crash _ | Tick => []
  | _ =>
    kwhen (ghalf gh) NRenameCrossDir
    ++ match o with
       | Dump _ | Tick => []
       | _ =>
         kwhen (match o with
                | Open _ p _ _ _ _ _ _ | Spit p _ _ | Unlink p | Mkdir p | Rmdir p | RmdirAll p => is_root p
                | Rename f g => is_root f || is_root g
                | _ => false end) NRootOp
         ++ kwhen (match o with
                   | WriteAt slot _ _ _ | ReadAt slot _ _ | Write slot _ _ | Read slot _ | Seek slot _ _
                   | SetLen slot _ _ | SyncAll slot | SyncData slot | FLen slot => stale t slot
                   | _ => false end) NStaleHandle
         ++ match o with
            | Open _ p r w a tr c n =>
                let fresh := match nget (names t) p with None => c || n | _ => false end in
                kwhen (fresh && leaves_bytes d gh p
                       && negb (tr && w && negb n && valid_open r w a tr c n && (dbs d =? 0)%nat)) NRecreate
                ++ kwhen (fresh && under_rename gh p && tr && w && valid_open r w a tr c n) NRecreate
                ++ kwhen (fresh && mem_path p (ggdirs gh)) NKindSwap
                ++ kwhen (fresh && mem_path p (gstale gh)) NRenameCrossDir
            | Spit p data coin =>
                let fresh := match nget (names t) p with None => true | _ => false end in
                kwhen (fresh && (under_rename gh p || (negb (dbs d =? 0)%nat && leaves_bytes d gh p))) NRecreate
                ++ kwhen (fresh && in_unfl gh p && negb (is_nil data) && coin) NRecreate
                ++ kwhen (fresh && in_unfl gh p && negb (is_nil data) && negb (dbs d =? 0)%nat
                          && match nget (dents d) p with Some _ => true | None => false end) NRecreate
                ++ kwhen (fresh && mem_path p (ggdirs gh)) NKindSwap
                ++ kwhen (fresh && mem_path p (gstale gh)) NRenameCrossDir
            | _ => []
            end
         ++ kwhen (match synced_ino t o with Some i => has_ino i (grecr gh) | None => false end) NRecreate
         ++ kwhen (match written_ino t o with
                   | Some i => negb (dbs d =? 0)%nat
                               && existsb (fun e => (snd e =? i) && match nget (dents d) (fst e) with Some _ => true | None => false end)
                                          (grecr gh)
                   | None => false end) NRecreate
         ++ kwhen (match touched t o with Some i => has_ino i (grren gh) | None => false end) NRecreate
         ++ kwhen (match touched t o with Some i => in_pren i (gpren gh) | None => false end) NRenameFile
         ++ kwhen (match o with
                   | SyncAll slot | SyncData slot =>
                       match sget (shs t) slot with
                       | Some h => existsb (fun r => let '(i, f, g) := r in
                                              (i =? sino h)
                                              && ((match nget (dents d) g with Some EDir => true | _ => false end)
                                                  || mem_path g (gstale gh))) (gpren gh)
                       | None => false
                       end
                   | _ => false end) NRenameFile
         ++ kwhen (match o with
                   | Rmdir p | RmdirAll p => existsb (fun r => is_prefix p (snd r)) (gpren gh)
                   | _ => false end) NRenameFile
         ++ match o with
            | SyncDir p =>
                match nget (names t) p with
                | Some EDir =>
                    flat_map (fun r =>
                      let '(i, f, g) := r in
                      let pf := child_of f p in let pg := child_of g p in
                      if (pf || pg) && negb (pf && pg) then
                        if pf then [NRenameCrossDir]
                        else
                          let srcdur := match nget (dents d) f with Some (EFile j) => j =? i | _ => false end in
                          kwhen (negb srcdur && negb (persisted d i)) NRenameCrossDir
                          ++ kwhen (srcdur && negb (match nget (names t) g with Some (EFile j) => j =? i | _ => false end))
                                   NRenameCrossDir
                          ++ kwhen (srcdur && (match nget (names t) g with Some (EFile j) => j =? i | _ => false end)
                                    && is_file t f) NRenameCrossDir
                      else []) (gpren gh)
                | _ => []
                end
            | Rename f g =>
                match nget (names t) f with
                | Some (EFile i) =>
                    if path_eqb f g then [NRenameSelf]
                    else kwhen (rename_ok t f g
                                && (mem_ino i (gdirty gh)
                                    || match nget (names t) g with Some (EFile j) => mem_ino j (gdirty gh) | _ => false end
                                    || existsb (fun r => let '(j, f0, g0) := r in
                                                 (j =? i) && negb (match parent g with
                                                                   | Some q => child_of f0 q && child_of g0 q
                                                                   | None => false end)) (gpren gh)
                                    || mem_path g (ggone gh) || mem_path g (grt gh))) NRenameFile
                | Some EDir => [NRenameDir]
                | None => []
                end
            | Mkdir p => kwhen (match nget (names t) p with None => mem_path p (ggone gh) | _ => false end) NKindSwap
            | MkdirAll p =>
                match nget (names t) p with
                | None => flat_map (fun q => kwhen (match nget (names t) q with None => mem_path q (ggone gh) | _ => false end)
                                                  NKindSwap) (nprefixes p)
                | _ => []
                end
            | _ => []
            end
       end
  end.

(* the step is a rename outside NRenameFile / NRenameSelf: it joins the pending renames *)
Definition clean_rename (d : dworld) (gh : ghost) (o : op) : bool :=
  match o with
  | Rename f g =>
      match nget (names (dw d)) f with
      | Some (EFile _) =>
          negb (path_eqb f g) && rename_ok (dw d) f g
          && negb (existsb (fun k => match k with NRenameFile => true | _ => false end) (kclasses d gh o))
      | _ => false
      end
  | _ => false
  end.

Definition del_ino (i : N) (l : list N) : list N := filter (fun j => negb (j =? i)) l.

(* the dirty set after the step: d before, d' after, x the reference observation *)
Definition dirty_after (d d' : dworld) (l : list N) (o : op) (x : out) : list N :=
  if is_err x then l else
  let t := dw d in let t' := dw d' in
  match o with
  | Crash _ => []
  | Open slot _ _ w _ tr _ _ =>
      match sget (shs t') slot with Some h => if tr && w then sino h :: l else l | None => l end
  | WriteAt slot _ data coin | Write slot data coin =>
      match sget (shs t) slot with
      | Some h =>
          let l1 := match data with [] => l | _ => sino h :: l end in
          if coin then del_ino (sino h) l1 else l1
      | None => l
      end
  | Spit p data coin =>
      match nget (names t') p with
      | Some (EFile i) =>
          let l1 := i :: l in
          match data with [] => l1 | _ => if coin then del_ino i l1 else l1 end
      | _ => l
      end
  | SetLen slot _ coin =>
      match sget (shs t) slot with
      | Some h => if coin then del_ino (sino h) (sino h :: l) else sino h :: l
      | None => l
      end
  | SyncAll slot | SyncData slot =>
      match sget (shs t) slot with Some h => del_ino (sino h) l | None => l end
  | _ => l
  end.

Definition has_key (p : path) (l : list (path * N)) : bool := existsb (fun e => path_eqb (fst e) p) l.

(* the re-creation ghosts after the step *)
Definition recr_after (d d' : dworld) (gh : ghost) (o : op) : list path * list (path * N * option path) * list (path * N) * list (path * N) :=
  let t := dw d in let t' := dw d' in
  let same := (gleft gh, gunfl gh, grecr gh, grren gh) in
  let left_file p i :=
    ((if mem_ino i (gdirty gh) then p :: gleft gh else gleft gh),
     filter (fun u => negb (path_eqb (fst (fst u)) p)) (gunfl gh),
     filter (fun e => negb (path_eqb (fst e) p)) (grecr gh)) in
  let created p :=
    match nget (names t') p with
    | Some (EFile j) =>
        (gleft gh, gunfl gh,
         (if in_unfl gh p && negb (has_key p (grecr gh)) then (p, j) :: grecr gh else grecr gh),
         (if under_rename gh p && negb (in_pren j (gpren gh))
          then (p, j) :: filter (fun e => negb (path_eqb (fst e) p)) (grren gh) else grren gh))
    | _ => same
    end in
  match o with
  | Crash _ => ([], [], [], [])
  | SyncDir p =>
      match nget (names t) p with
      | Some EDir =>
          let hit r := let '(i, f, g) := r in child_of f p || child_of g p in
          let flushed := filter hit (gpren gh) in
          let gone_u (u : path * N * option path) :=
            child_of (fst (fst u)) p || match snd u with Some q => path_eqb q p | None => false end in
          (gleft gh,
           filter (fun u => negb (gone_u u)) (gunfl gh),
           filter (fun e => negb (existsb (fun u => gone_u u && path_eqb (fst (fst u)) (fst e)) (gunfl gh))) (grecr gh),
           filter (fun e => negb (existsb (fun r => let '(i, f, g) := r in path_eqb (fst e) f || path_eqb (fst e) g) flushed))
                  (grren gh))
      | _ => same
      end
  | Rename f g =>
      match nget (names t) f with
      | Some (EFile i) =>
          if rename_ok t f g then
            let '(l, u, r) := left_file f i in (l, (f, i, parent g) :: u, r, grren gh)
          else same
      | _ => same
      end
  | Unlink p =>
      match nget (names t) p with
      | Some (EFile i) => let '(l, u, r) := left_file p i in (l, (p, i, None) :: u, r, grren gh)
      | _ => same
      end
  | Open _ p _ _ _ _ _ _ | Spit p _ _ => created p
  | _ => same
  end.

Definition with_recr (g0 : ghost) (x : list path * list (path * N * option path) * list (path * N) * list (path * N)) : ghost :=
  let '(l, u, r, rr) := x in
  {| ggone := ggone g0; ggdirs := ggdirs g0; grt := grt g0; gpren := gpren g0; ghalf := ghalf g0; gstale := gstale g0;
     gdirty := gdirty g0; gleft := l; gunfl := u; grecr := r; grren := rr |}.

Definition kupdate0 (d d' : dworld) (gh : ghost) (o : op) (x : out) : ghost :=
  let t := dw d in
  let dirty' := dirty_after d d' (gdirty gh) o x in
  match o with
  | Crash _ =>
      {| ggone := []; ggdirs := []; grt := []; gpren := []; ghalf := false; gstale := gstale gh; gdirty := []; gleft := gleft gh; gunfl := gunfl gh; grecr := grecr gh; grren := grren gh |}
  | SyncDir p =>
      match nget (names t) p with
      | Some EDir =>
          let hit r := let '(i, f, g) := r in child_of f p || child_of g p in
          let cross r := let '(i, f, g) := r in negb (child_of f p && child_of g p) && child_of g p in
          let src_durable r := let '(i, f, g) := r in
                               match nget (dents d) f with Some (EFile j) => j =? i | _ => false end in
          let flushed := filter hit (gpren gh) in
          {| ggone := ggone gh; ggdirs := ggdirs gh; grt := grt gh;
             gpren := filter (fun r => negb (hit r)) (gpren gh);
             ghalf := ghalf gh || existsb (fun r => cross r && negb (src_durable r)
                                                   && persisted d (fst (fst r))) flushed;
             gstale := map (fun r => snd (fst r)) (filter (fun r => cross r && src_durable r) flushed) ++ gstale gh;
             gdirty := dirty'; gleft := gleft gh; gunfl := gunfl gh; grecr := grecr gh; grren := grren gh |}
      | _ => {| ggone := ggone gh; ggdirs := ggdirs gh; grt := grt gh; gpren := gpren gh; ghalf := ghalf gh;
                gstale := gstale gh; gdirty := dirty'; gleft := gleft gh; gunfl := gunfl gh; grecr := grecr gh; grren := grren gh |}
      end
  | Rename f g =>
      match nget (names t) f with
      | Some (EFile i) =>
          {| ggone := if rename_ok t f g then f :: ggone gh else ggone gh; ggdirs := ggdirs gh;
             grt := if rename_ok t f g then g :: grt gh else grt gh;
             gpren := if clean_rename d gh o then gpren gh ++ [(i, f, g)] else gpren gh;
             ghalf := ghalf gh; gstale := gstale gh; gdirty := dirty'; gleft := gleft gh; gunfl := gunfl gh; grecr := grecr gh; grren := grren gh |}
      | _ => {| ggone := ggone gh; ggdirs := ggdirs gh; grt := grt gh; gpren := gpren gh; ghalf := ghalf gh;
                gstale := gstale gh; gdirty := dirty'; gleft := gleft gh; gunfl := gunfl gh; grecr := grecr gh; grren := grren gh |}
      end
  | Unlink p =>
      {| ggone := match nget (names t) p with Some (EFile _) => p :: ggone gh | _ => ggone gh end;
         ggdirs := ggdirs gh; grt := grt gh; gpren := gpren gh; ghalf := ghalf gh; gstale := gstale gh;
         gdirty := dirty'; gleft := gleft gh; gunfl := gunfl gh; grecr := grecr gh; grren := grren gh |}
  | Rmdir p =>
      {| ggone := ggone gh;
         ggdirs := match nget (names t) p with Some EDir => p :: ggdirs gh | _ => ggdirs gh end;
         grt := grt gh; gpren := gpren gh; ghalf := ghalf gh; gstale := gstale gh; gdirty := dirty'; gleft := gleft gh; gunfl := gunfl gh; grecr := grecr gh; grren := grren gh |}
  | RmdirAll p =>
      match nget (names t) p with
      | Some EDir =>
          let below := filter (fun x => is_prefix p (fst x)) (names t) in
          {| ggone := map fst (filter (fun x => match snd x with EFile _ => true | EDir => false end) below) ++ ggone gh;
             ggdirs := p :: map fst (filter (fun x => match snd x with EDir => true | _ => false end) below) ++ ggdirs gh;
             grt := grt gh; gpren := gpren gh; ghalf := ghalf gh; gstale := gstale gh; gdirty := dirty'; gleft := gleft gh; gunfl := gunfl gh; grecr := grecr gh; grren := grren gh |}
      | _ => {| ggone := ggone gh; ggdirs := ggdirs gh; grt := grt gh; gpren := gpren gh; ghalf := ghalf gh;
                gstale := gstale gh; gdirty := dirty'; gleft := gleft gh; gunfl := gunfl gh; grecr := grecr gh; grren := grren gh |}
      end
  | _ => {| ggone := ggone gh; ggdirs := ggdirs gh; grt := grt gh; gpren := gpren gh; ghalf := ghalf gh;
            gstale := gstale gh; gdirty := dirty'; gleft := gleft gh; gunfl := gunfl gh; grecr := grecr gh; grren := grren gh |}
  end.

Definition kupdate (d d' : dworld) (gh : ghost) (o : op) (x : out) : ghost :=
  with_recr (kupdate0 d d' gh o x) (recr_after d d' gh o).

(* all known classes met by a history *)
Fixpoint known_from (d : dworld) (gh : ghost) (l : list op) : list known :=
  match l with
  | [] => []
  | o :: l' =>
      let (d', x) := dstep d o in
      kclasses d gh o ++ known_from d' (kupdate d d' gh o x) l'
  end.

Definition known_classes (bs : nat) (l : list op) : list known := known_from (init_dworld bs) ghost0 l.

Definition hknown_enc (nhosts bs : nat) (l : list (nat * op)) : list N :=
  flat_map (fun h => map known_id (known_classes bs (host_ops h l))) (seq 0 nhosts).

(* ---- the side condition of the rename-inclusive theorems (Known.v) ----------------------------------------
   Besides the known classes those theorems exclude: create_dir_all / remove_dir_all; renames between two
   different directories once one of the two directories is synced while the rename is unflushed (a rename that
   a crash meets unflushed is covered); any creation of a file at a name a file left since the last crash (FsSafe.KRecreate -
   the known finding Recreate above is narrower); a rename of a file still under an unflushed rename (chained renames: the known finding RenameFile (d) covers only chains that leave the directory); a rename onto a name a directory was removed from since the
   last crash; a crash while a durable entry has a non-durable ancestor. *)
Definition c07r_op (o : op) : bool :=
  match o with MkdirAll _ | RmdirAll _ => false | _ => true end.

Definition extra_excluded (d : dworld) (gh : ghost) (o : op) : bool :=
  match o with
  | Open _ p _ _ _ _ c n =>
      match nget (names (dw d)) p with None => (c || n) && mem_path p (ggone gh) | _ => false end
  | Spit p _ _ => match nget (names (dw d)) p with None => mem_path p (ggone gh) | _ => false end
  | Rename f r =>
      match nget (names (dw d)) f with
      | Some (EFile i) => rename_ok (dw d) f r && (mem_path r (ggdirs gh) || in_pren i (gpren gh))
      | _ => false
      end
  | SyncDir p =>
      match nget (names (dw d)) p with
      | Some EDir => existsb (fun r => let '(i, f, g) := r in negb (Bool.eqb (child_of f p) (child_of g p))) (gpren gh)
      | _ => false
      end
  | _ => false
  end.

Fixpoint ksafe_from (d : dworld) (gh : ghost) (l : list op) : bool :=
  match l with
  | [] => true
  | o :: l' =>
      let (d', x) := dstep d o in
      is_nil (kclasses d gh o) && negb (extra_excluded d gh o)
      && (match o with Crash _ => negb (dangling d) | _ => true end)
      && ksafe_from d' (kupdate d d' gh o x) l'
  end.
Definition ksafe (bs : nat) (l : list op) : bool := ksafe_from (init_dworld bs) ghost0 l.

Definition c10r_op (o : op) : bool := match o with Crash _ => false | _ => c07r_op o end.

(* plain-data rendering for a one-host script (correspondence cross-check against gen/fam_fs.py) *)
Definition ksafe_enc (bs : nat) (l : list (nat * op)) : bool :=
  forallb c07r_op (host_ops 0 l) && ksafe bs (host_ops 0 l).
