(* Property C10 — without a crash the simulated filesystem behaves like a plain
   POSIX file tree.  This file only states the theorems and closes them with the
   lemmas of C10_proofs.v / Refine.v; see DESIGN.md section 5 (C10).

   FsImpl = transcription of crates/turmoil-fs (checked against the crate by the
   correspondence run), FsSpec = the reference tree, FsSafe = the known classes. *)
From TV.Lib Require Import Base.
From TV.Fs Require Import FsImpl FsSpec FsSafe FsDurable FsKnown Refine Known C10_proofs.
Open Scope N_scope.

(* Refinement: for EVERY history (any length, any interleaving of handles, syncs
   and sync coins) over the whole operation alphabet except Crash (C07) and the
   two recursive conveniences create_dir_all / remove_dir_all, that meets none of
   the known classes of FsSafe, every observation of the implementation is the
   observation of the plain POSIX tree (errors up to [err_ok]).
   Covered: open with every valid option combination, read/write/seek through
   cursors, read_at/write_at at arbitrary offsets (holes, overlaps), set_len
   shrinking and extending, sync_all / sync_data / sync_dir / background-sync
   coins anywhere, remove_file, create_dir, remove_dir, metadata, exists,
   read_dir (as sets), fs::read, fs::write, failing renames.
   Not covered (hence _partial; named in partial_note): create_dir_all,
   remove_dir_all, and renames of regular files that succeed.  Of the latter the
   crate gets right those of data-synced files left alone until a directory sync
   flushes the rename (c10_rename_clean_example; asserted on generated histories by
   the oracle, which uses the narrow classes RenameFile / RenameCrossDir); the
   others are refuted below, as are re-creation of removed paths and handles used
   after their path was removed. *)
Theorem c10_refines_partial : forall l,
  forallb c10_op l = true -> known_free l = true ->
  Forall2 obs_ok (snd (srun init_sworld l)) (snd (run (init_world 0) l)).
Proof. exact refines_lemma. Qed.

(* Refinement with renames: the same statement for the crash-free histories that meet NO KNOWN CLASS
   (FsKnown.kclasses - the narrow classes of known_findings.txt as gen/fam_fs.py decides them), over the
   alphabet that also has the renames of regular files (onto a fresh name or over an existing file): while
   the rename is pending, and after a sync of the common directory flushed it, every observation -
   lookups of both names, listings, reads through handles opened on the new name, data syncs, unlink of
   the new name - is the observation of the plain POSIX tree.
   _partial - excluded beyond the known classes (FsKnown.v, [ksafe] / [c10r_op]): create_dir_all /
   remove_dir_all; a sync of exactly one of the two directories of an unflushed rename between different
   directories; any creation of a file at a name a file
   left earlier (FsSafe.KRecreate; the known finding Recreate is narrower); a rename onto a name a
   directory was removed from. *)
Theorem c10_refines_renames_partial : forall l,
  forallb c10r_op l = true -> ksafe 0 l = true ->
  Forall2 obs_ok (snd (srun init_sworld l)) (snd (run (init_world 0) l)).
Proof. exact refines_known. Qed.

(* Sync operations never change anything observable: dropping any sync_all /
   sync_data / sync_dir from a history leaves every other observation equal to
   the same reference observation. *)
Theorem c10_sync_is_invisible : forall l1 o l2,
  is_sync o = true ->
  forallb c10_op (l1 ++ o :: l2) = true -> known_free (l1 ++ o :: l2) = true ->
  let ref := snd (srun init_sworld (l1 ++ l2)) in
  let with_sync := snd (run (init_world 0) (l1 ++ o :: l2)) in
  let without := snd (run (init_world 0) (l1 ++ l2)) in
  known_free (l1 ++ l2) = true /\
  Forall2 obs_ok ref without /\
  Forall2 obs_ok ref (firstn (length l1) with_sync ++ skipn (S (length l1)) with_sync).
Proof. exact sync_is_invisible_lemma. Qed.

(* Non-vacuity: a history with truncation, holes, a sync coin, unlink, listing,
   fs::write and rmdir satisfies the hypotheses, and its observations carry data. *)
Example c10_nonvacuous :
  forallb c10_op h_demo = true /\ known_free h_demo = true /\
  impl_out h_demo 8 = OBytes [65; 66; 0; 0; 69] /\ impl_out h_demo 10 = ONames [] /\
  impl_out h_demo 12 = OBytes [70; 71] /\ impl_out h_demo 14 = OBool false.
Proof. vm_compute. repeat split; reflexivity. Qed.

(* The passage of time changes nothing observable: a Tick anywhere in any
   history leaves the final state and every other observation unchanged. *)
Theorem c10_time_is_invisible : forall w l1 l2,
  fst (run w (l1 ++ Tick :: l2)) = fst (run w (l1 ++ l2)) /\
  snd (run w (l1 ++ Tick :: l2)) = snd (run w l1) ++ OOk :: snd (run (fst (run w l1)) l2) /\
  snd (run w (l1 ++ l2)) = snd (run w l1) ++ snd (run (fst (run w l1)) l2).
Proof. exact time_is_invisible_lemma. Qed.

(* Hosts are isolated: in any interleaving of operations on several hosts, the
   final tree of host h and the observations of host h's operations are those of
   running host h's operations alone. *)
Theorem c10_hosts_isolated : forall l ws h w,
  nth_error ws h = Some w ->
  nth_error (fst (hrun ws l)) h = Some (fst (run w (ops_of h l))) /\
  outs_of h l (snd (hrun ws l)) = snd (run w (ops_of h l)).
Proof. exact hosts_isolated_lemma. Qed.

(* Known classes: the code as it is violates C10 on these histories (each
   witness is a corpus case and is replayed against the real crate). *)
Theorem c10_rename_file_refuted :
  in_class KRenameFile w_rename_file = true /\
  spec_out w_rename_file 4 = OBytes [65; 88; 67] /\ impl_out w_rename_file 4 = OBytes [65; 66; 67].
Proof. exact rename_file_refuted_lemma. Qed.

Theorem c10_rename_twice_refuted :
  in_class KRenameFile w_rename_twice = true /\
  spec_out w_rename_twice 6 = OBytes [65; 66] /\ impl_out w_rename_twice 6 = OBytes [].
Proof. exact rename_twice_refuted_lemma. Qed.

Theorem c10_rename_self_refuted :
  in_class KRenameSelf w_rename_self = true /\
  spec_out w_rename_self 2 = OBool true /\ impl_out w_rename_self 2 = OBool false.
Proof. exact rename_self_refuted_lemma. Qed.

Theorem c10_rename_dir_refuted :
  in_class KRenameDir w_rename_dir = true /\
  spec_out w_rename_dir 3 = OFile 1 /\ impl_out w_rename_dir 3 = OErr ENOENT /\
  spec_out w_rename_dir 4 = OErr ENOENT /\ impl_out w_rename_dir 4 = OFile 1 /\
  spec_out w_rename_dir 5 = ODir /\ impl_out w_rename_dir 5 = OFile 0.
Proof. exact rename_dir_refuted_lemma. Qed.

Theorem c10_rename_cross_resurrect_refuted :
  spec_out w_rename_cross_resurrect 8 = OBool false /\ impl_out w_rename_cross_resurrect 8 = OBool false /\
  spec_out w_rename_cross_resurrect 10 = OBool false /\ impl_out w_rename_cross_resurrect 10 = OBool true.
Proof. exact rename_cross_resurrect_refuted_lemma. Qed.

Theorem c10_rename_rmdir_refuted :
  spec_out w_rename_rmdir 8 = OErr ENOTEMPTY /\ impl_out w_rename_rmdir 8 = OOk.
Proof. exact rename_rmdir_refuted_lemma. Qed.

Theorem c10_rename_again_refuted :
  spec_out w_rename_again 10 = OBool true /\ impl_out w_rename_again 10 = OBool false.
Proof. exact rename_again_refuted_lemma. Qed.

(* A rename outside the narrow classes: the model (= the crate, by correspondence)
   agrees with the reference on every observation. *)
Example c10_rename_clean_example :
  Forall2 obs_ok (snd (srun init_sworld w_rename_clean)) (snd (run (init_world 0) w_rename_clean)) /\
  impl_out w_rename_clean 14 = OBytes [65; 88].
Proof. exact rename_clean_example_lemma. Qed.

Theorem c10_stale_handle_refuted :
  in_class KStaleHandle w_stale_handle = true /\
  spec_out w_stale_handle 3 = OOk /\ impl_out w_stale_handle 3 = OErr ENOENT.
Proof. exact stale_handle_refuted_lemma. Qed.

Theorem c10_recreate_refuted :
  in_class KRecreate w_recreate = true /\
  spec_out w_recreate 3 = ONum 0 /\ impl_out w_recreate 3 = ONum 6.
Proof. exact recreate_refuted_lemma. Qed.

Theorem c10_root_op_refuted :
  in_class KRootOp w_root_op = true /\
  spec_out w_root_op 0 = OErr EINVAL /\ impl_out w_root_op 0 = OOk /\
  spec_out w_root_op 1 = OBool true /\ impl_out w_root_op 1 = OBool false.
Proof. exact root_op_refuted_lemma. Qed.

(* Non-vacuity of the rename-inclusive theorem: a data-synced file is renamed, looked up, listed, read
   through a handle opened on the new name, and the rename is flushed. *)
Example c10_renames_nonvacuous :
  forallb c10r_op h_rename = true /\ ksafe 0 h_rename = true /\
  snd (run (init_world 0) h_rename) =
    [OOk; ONum 1; OOk; OOk; OOk; OErr ENOENT; OBytes [65]; ONames [3]; OOk; OBytes [65]; OOk; OBytes [65]].
Proof. exact rename_nonvacuous_lemma. Qed.

Print Assumptions c10_refines_partial.
Print Assumptions c10_refines_renames_partial.
Print Assumptions c10_sync_is_invisible.
Print Assumptions c10_nonvacuous.
Print Assumptions c10_time_is_invisible.
Print Assumptions c10_hosts_isolated.
Print Assumptions c10_rename_file_refuted.
Print Assumptions c10_rename_twice_refuted.
Print Assumptions c10_rename_self_refuted.
Print Assumptions c10_rename_dir_refuted.
Print Assumptions c10_rename_cross_resurrect_refuted.
Print Assumptions c10_rename_rmdir_refuted.
Print Assumptions c10_rename_again_refuted.
Print Assumptions c10_rename_clean_example.
Print Assumptions c10_stale_handle_refuted.
Print Assumptions c10_recreate_refuted.
Print Assumptions c10_root_op_refuted.
Print Assumptions c10_renames_nonvacuous.
