(* Property C10 — without a crash the simulated filesystem behaves like a plain
   POSIX file tree.  This file only states the theorems and closes them with the
   lemmas of C10_proofs.v / Refine.v; see DESIGN.md section 5 (C10).

   FsImpl = transcription of crates/turmoil-fs (checked against the crate by the
   correspondence run), FsSpec = the reference tree, FsSafe = the known classes. *)
From TV.Lib Require Import Base.
From TV.Fs Require Import FsImpl FsSpec FsSafe C10_proofs.
Open Scope N_scope.

(* The passage of time changes nothing observable: a Tick anywhere in any
   history leaves the final state and every other observation unchanged. *)
Theorem c10_time_is_invisible : forall w l1 l2,
  fst (run w (l1 ++ Tick :: l2)) = fst (run w (l1 ++ l2)) /\
  snd (run w (l1 ++ Tick :: l2)) = snd (run w l1) ++ OOk :: snd (run (fst (run w l1)) l2) /\
  snd (run w (l1 ++ l2)) = snd (run w l1) ++ snd (run (fst (run w l1)) l2).
Proof. exact time_is_invisible_lemma. Qed.

(* Hosts are isolated: in any interleaving of operations on several hosts, the
   final tree of host h and the observations of host h's operations are those of
   running host h's operations alone. *)
Theorem c10_hosts_isolated : forall l ws h w,
  nth_error ws h = Some w ->
  nth_error (fst (hrun ws l)) h = Some (fst (run w (ops_of h l))) /\
  outs_of h l (snd (hrun ws l)) = snd (run w (ops_of h l)).
Proof. exact hosts_isolated_lemma. Qed.

(* Known classes: the code as it is violates C10 on these histories (each
   witness is a corpus case and is replayed against the real crate). *)
Theorem c10_rename_file_refuted :
  in_class KRenameFile w_rename_file = true /\
  spec_out w_rename_file 4 = OBytes [65; 88; 67] /\ impl_out w_rename_file 4 = OBytes [65; 66; 67].
Proof. exact rename_file_refuted_lemma. Qed.

Theorem c10_rename_twice_refuted :
  in_class KRenameFile w_rename_twice = true /\
  spec_out w_rename_twice 6 = OBytes [65; 66] /\ impl_out w_rename_twice 6 = OBytes [].
Proof. exact rename_twice_refuted_lemma. Qed.

Theorem c10_rename_self_refuted :
  in_class KRenameSelf w_rename_self = true /\
  spec_out w_rename_self 2 = OBool true /\ impl_out w_rename_self 2 = OBool false.
Proof. exact rename_self_refuted_lemma. Qed.

Theorem c10_rename_dir_refuted :
  in_class KRenameDir w_rename_dir = true /\
  spec_out w_rename_dir 3 = OFile 1 /\ impl_out w_rename_dir 3 = OErr ENOENT /\
  spec_out w_rename_dir 4 = OErr ENOENT /\ impl_out w_rename_dir 4 = OFile 1 /\
  spec_out w_rename_dir 5 = ODir /\ impl_out w_rename_dir 5 = OFile 0.
Proof. exact rename_dir_refuted_lemma. Qed.

Theorem c10_stale_handle_refuted :
  in_class KStaleHandle w_stale_handle = true /\
  spec_out w_stale_handle 3 = OOk /\ impl_out w_stale_handle 3 = OErr ENOENT.
Proof. exact stale_handle_refuted_lemma. Qed.

Theorem c10_recreate_refuted :
  in_class KRecreate w_recreate = true /\
  spec_out w_recreate 3 = ONum 0 /\ impl_out w_recreate 3 = ONum 6.
Proof. exact recreate_refuted_lemma. Qed.

Theorem c10_open_opts_refuted :
  in_class KOpenOptsInvalid w_open_opts = true /\
  spec_out w_open_opts 0 = OErr EINVAL /\ impl_out w_open_opts 0 = OOk.
Proof. exact open_opts_refuted_lemma. Qed.

Theorem c10_root_op_refuted :
  in_class KRootOp w_root_op = true /\
  spec_out w_root_op 0 = OErr EINVAL /\ impl_out w_root_op 0 = OOk /\
  spec_out w_root_op 1 = OBool true /\ impl_out w_root_op 1 = OBool false.
Proof. exact root_op_refuted_lemma. Qed.

Print Assumptions c10_time_is_invisible.
Print Assumptions c10_hosts_isolated.
Print Assumptions c10_rename_file_refuted.
Print Assumptions c10_rename_twice_refuted.
Print Assumptions c10_rename_self_refuted.
Print Assumptions c10_rename_dir_refuted.
Print Assumptions c10_stale_handle_refuted.
Print Assumptions c10_recreate_refuted.
Print Assumptions c10_open_opts_refuted.
Print Assumptions c10_root_op_refuted.
