(* TV.Fs.Known — from the known-class predicates of FsKnown.v (what known_findings.txt lists and
   gen/fam_fs.py decides) to the side conditions of the step lemmas of Durable.v: a history that
   meets no known class keeps its pending renames in the well-formed shape the simulation needs.

   Besides the known classes the theorems of this file exclude (decidably, [extra_excluded] and the
   alphabet [c07r_op]):
     - create_dir_all / remove_dir_all;
     - renames between two different directories once one of the two directories is synced while the rename
       is unflushed (a cross-directory rename that a crash meets unflushed is covered);
     - any creation of a file at a name a file left since the last crash (FsSafe.KRecreate; the known
       finding Recreate is narrower);
     - a rename onto a name a directory was removed from since the last crash;
     - a crash while a durable entry has a non-durable ancestor. *)
From TV.Lib Require Import Base.
From TV.Fs Require Import FsImpl FsSpec FsSafe FsDurable FsKnown Facts View Refine Durable.
Open Scope N_scope.

(* ---- the ghost and the implementation state ---------------------------------------------------------- *)
Record GInv (s : fs) (d : dworld) (gh : ghost) : Prop := {
  gi_pren : forall f r, In (PRename f r) (pending s) <-> exists i, In (i, f, r) (gpren gh);
  gi_tgt : forall i f r, In (i, f, r) (gpren gh) ->
             nget (names (dw d)) r = Some (EFile i) \/ mem_path r (ggone gh) = true;
  gi_dirty : forall o q, In o (pending s) -> is_data_op q o = true ->
               (exists j, nget (names (dw d)) q = Some (EFile j) /\ mem_ino j (gdirty gh) = true)
               \/ mem_path q (ggone gh) = true;
  gi_rt : forall f r, In (PRename f r) (pending s) -> mem_path r (grt gh) = true
}.

(* ---- small facts ---------------------------------------------------------------------------------------- *)
Lemma kwhen_nil b k : kwhen b k = [] -> b = false.
Proof. destruct b; [discriminate|reflexivity]. Qed.

Lemma is_nil_nil {A} (l : list A) : is_nil l = true -> l = [].
Proof. destruct l; [reflexivity|discriminate]. Qed.

Lemma mem_ino_In i l : mem_ino i l = true <-> In i l.
Proof.
  unfold mem_ino. rewrite existsb_exists. split.
  - intros (j & Hj & E). apply N.eqb_eq in E. subst. exact Hj.
  - intro H. exists i. split; [exact H|apply N.eqb_refl].
Qed.

Lemma in_pren_In i l : in_pren i l = true <-> exists f r, In (i, f, r) l.
Proof.
  unfold in_pren. rewrite existsb_exists. split.
  - intros ([[j f] r] & Hin & E). cbn in E. apply N.eqb_eq in E. subst. eauto.
  - intros (f & r & H). exists (i, f, r). split; [exact H|apply N.eqb_refl].
Qed.

Lemma mem_del_ino_other i j l : j <> i -> mem_ino j (del_ino i l) = mem_ino j l.
Proof.
  intro Hne. apply eq_true_iff_eq. rewrite !mem_ino_In. unfold del_ino. rewrite filter_In. split; [tauto|].
  intro H. split; [exact H|]. apply negb_true_iff, N.eqb_neq. exact Hne.
Qed.
Lemma mem_del_ino_self i l : mem_ino i (del_ino i l) = false.
Proof.
  destruct (mem_ino i (del_ino i l)) eqn:E; [|reflexivity]. apply mem_ino_In in E. unfold del_ino in E.
  apply filter_In in E as [_ E]. rewrite N.eqb_refl in E. discriminate.
Qed.

Lemma child_is_prefix : forall r p, child_of r p = true -> is_prefix p r = true.
Proof.
  intros r p. unfold child_of, parent. destruct r as [|a r]; [discriminate|].
  intro H. apply path_eqb_eq in H. subst p. revert a. induction r as [|b r IH]; intro a; [reflexivity|].
  change (removelast (a :: b :: r)) with (a :: removelast (b :: r)). cbn [is_prefix]. rewrite N.eqb_refl. apply IH.
Qed.

(* ---- the data operations in the log after a step (no invariant needed) --------------------------------- *)
Lemma sync_file_dataops s p o : In o (pending (fst (sync_file s p))) ->
  In o (pending s) /\ (file_exists s p = true -> is_data_op p o = false).
Proof.
  unfold sync_file. destruct (file_exists s p) eqn:Ef; cbn [negb fst]; [|intro H; split; [exact H|discriminate]].
  pose (mark := fun (st : fs) (_ : pop) => st).
  change (fold_left apply_op ?l ?s0) with (fold_left (fun st o => apply_op (mark st o) o) l s0).
  rewrite fold_apply_pending by reflexivity. cbn [pending]. intro H. apply filter_In in H as [H1 H2].
  split; [exact H1|]. intros _. destruct (is_data_op p o); [discriminate|reflexivity].
Qed.

Lemma in_push s o o' : In o' (pending (push s o)) <-> In o' (pending s) \/ o' = o.
Proof. rewrite pending_push, in_app_iff. cbn. split; [intros [H|[H|[]]]; auto|intros [H|H]; auto]. Qed.

Lemma file_exists_push_data s p o : is_data_op p o = true -> forall q, file_exists (push s o) q = file_exists s q.
Proof. intros H q. rewrite file_exists_push. apply (fx_step_data p). exact H. Qed.

Lemma write_at_dataops s h off data coin o : In o (pending (fst (write_at s h off data coin))) ->
  (In o (pending s) \/ (o = PWrite (hpath h) off data /\ data <> [] /\ hw h = true)) /\
  (coin = true -> hw h = true -> file_exists s (hpath h) = true -> is_data_op (hpath h) o = false).
Proof.
  unfold write_at. destruct (hw h) eqn:Ehw; cbn [negb fst]; [|intro H; split; [left; exact H|discriminate]].
  set (s1 := match data with [] => s | _ :: _ => push s (PWrite (hpath h) off data) end).
  assert (H1 : forall o', In o' (pending s1) -> In o' (pending s) \/ (o' = PWrite (hpath h) off data /\ data <> [] /\ true = true)).
  { unfold s1. destruct data as [|b data]; [auto|]. intros o' Ho'. apply in_push in Ho' as [X|X]; [left; exact X|right].
    split; [exact X|]. split; [discriminate|reflexivity]. }
  assert (Hfe : file_exists s1 (hpath h) = file_exists s (hpath h)).
  { unfold s1. destruct data; [reflexivity|]. apply (file_exists_push_data s (hpath h)). cbn. apply path_eqb_refl. }
  destruct coin.
  - intro Ho. apply sync_file_dataops in Ho as [A B]. split; [apply H1; exact A|].
    intros _ _ Hf. apply B. rewrite Hfe. exact Hf.
  - intro Ho. split; [apply H1; exact Ho|discriminate].
Qed.

Lemma open_file_dataops s p r w a t c n o : In o (pending (fst (open_file s p r w a t c n))) ->
  In o (pending s) \/ o = CreateFile p \/
  (o = PSetLen p 0 /\ t && w = true /\ exists h, snd (open_file s p r w a t c n) = inl h).
Proof.
  unfold open_file. destruct (negb (valid_open r w a t c n)); [auto|].
  destruct (n && file_exists s p); [auto|].
  destruct (file_exists s p).
  - destruct (t && w) eqn:Etw; cbn [fst snd]; [|auto]. intro H. apply in_push in H as [H|H]; [auto|]. right; right. eauto.
  - destruct (c || n); [|auto]. destruct (dir_exists s p); [auto|].
    destruct (parent_exists s p); [|auto].
    destruct (t && w) eqn:Etw; cbn [fst snd]; intro H.
    + apply in_push in H as [H|H]; [|right; right; eauto]. apply in_push in H as [H|H]; auto.
    + apply in_push in H as [H|H]; auto.
Qed.

(* ---- the reference tree after a step --------------------------------------------------------------------- *)
(* a file name stays, or goes to the gone set; the new name of a rename aside *)
Lemma file_name_stays t g o q j :
  plain_op o = true -> nget (names t) q = Some (EFile j) ->
  (forall f, o = Rename f q -> rename_ok t f q = false) ->
  (forall f r, o = Rename f r -> nget (names t) f <> Some EDir) ->
  nget (names (fst (sstep t o))) q = Some (EFile j) \/ mem_path q (gone_after t g o) = true.
Proof.
  intros Hp Hq Hnr Hnd. destruct o; try discriminate; cbn [sstep gone_after]; try (left; exact Hq).
  - (* Open *)
    unfold sopen. destruct (negb (valid_open r w a t0 c n)); [left; exact Hq|].
    destruct (negb (parent_is_dir t p)); [left; exact Hq|].
    destruct (nget (names t) p) as [[|i]|] eqn:En; [left; exact Hq| |].
    + destruct n; [left; exact Hq|]. destruct t0; left; exact Hq.
    + destruct (c || n); [|left; exact Hq]. left. cbn [fst names]. rewrite nget_nset.
      destruct (path_eqb p q) eqn:E; [apply path_eqb_eq in E; subst; congruence|exact Hq].
  - destruct (sget (shs t) slot); left; exact Hq.
  - destruct (sget (shs t) slot) as [h|]; [|left; exact Hq]. destruct (negb (sw h)); left; exact Hq.
  - destruct (sget (shs t) slot) as [h|]; [|left; exact Hq]. destruct (negb (sr h)); left; exact Hq.
  - destruct (sget (shs t) slot) as [h|]; [|left; exact Hq]. destruct (negb (sw h)); left; exact Hq.
  - destruct (sget (shs t) slot) as [h|]; [|left; exact Hq]. destruct (negb (sr h)); left; exact Hq.
  - destruct (sget (shs t) slot) as [h|]; [|left; exact Hq].
    match goal with |- context[(?b + off <? 0)%Z] => destruct (b + off <? 0)%Z end; left; exact Hq.
  - destruct (sget (shs t) slot) as [h|]; [|left; exact Hq]. destruct (negb (sw h)); left; exact Hq.
  - destruct (sget (shs t) slot); left; exact Hq.
  - destruct (sget (shs t) slot); left; exact Hq.
  - destruct (sget (shs t) slot); left; exact Hq.
  - destruct (nget (names t) p) as [[|?]|]; left; exact Hq.
  - (* Mkdir *)
    destruct (negb (parent_is_dir t p)); [left; exact Hq|].
    destruct (nget (names t) p) eqn:En; [left; exact Hq|]. left. cbn [fst names set_names]. rewrite nget_nset.
    destruct (path_eqb p q) eqn:E; [apply path_eqb_eq in E; subst; congruence|exact Hq].
  - (* Rmdir *)
    destruct (nget (names t) p) as [[|?]|] eqn:En; try (left; exact Hq).
    destruct p as [|a p]; [left; exact Hq|]. destruct (children t (a :: p)); [|left; exact Hq].
    left. cbn [fst names set_names]. rewrite nget_ndel.
    destruct (path_eqb (a :: p) q) eqn:E; [apply path_eqb_eq in E; subst; congruence|exact Hq].
  - (* Unlink *)
    destruct (nget (names t) p) as [[|i]|] eqn:En; try (left; exact Hq).
    cbn [fst names set_names]. rewrite nget_ndel. destruct (path_eqb p q) eqn:E.
    + right. apply path_eqb_eq in E. subst q. rewrite mem_path_cons, path_eqb_refl. reflexivity.
    + left. exact Hq.
  - (* Rename *)
    unfold rename_ok, srename. destruct f as [|a f]; [left; exact Hq|]. destruct t0 as [|b r]; [left; exact Hq|].
    destruct (nget (names t) (a :: f)) as [[|i]|] eqn:En; [exfalso; eapply Hnd; eauto| |left; exact Hq].
    destruct (negb (parent_is_dir t (b :: r))) eqn:Epar; [left; exact Hq|].
    destruct (nget (names t) (b :: r)) as [[|k]|] eqn:Er; [left; exact Hq| |].
    + destruct (path_eqb (a :: f) (b :: r)) eqn:E0; cbn [fst snd]; [left; exact Hq|].
      cbn [names set_names]. rewrite nget_nset, nget_ndel.
      destruct (path_eqb (b :: r) q) eqn:E1.
      * apply path_eqb_eq in E1. subst q. exfalso. specialize (Hnr (a :: f) eq_refl).
        unfold rename_ok, srename in Hnr. rewrite En, Epar, Er, E0 in Hnr. discriminate.
      * destruct (path_eqb (a :: f) q) eqn:E2; [right; apply path_eqb_eq in E2; subst q; rewrite mem_path_cons, path_eqb_refl; reflexivity|left; exact Hq].
    + destruct (path_eqb (a :: f) (b :: r)) eqn:E0; cbn [fst snd]; [left; exact Hq|].
      cbn [names set_names]. rewrite nget_nset, nget_ndel.
      destruct (path_eqb (b :: r) q) eqn:E1; [apply path_eqb_eq in E1; subst q; congruence|].
      destruct (path_eqb (a :: f) q) eqn:E2; [right; apply path_eqb_eq in E2; subst q; rewrite mem_path_cons, path_eqb_refl; reflexivity|left; exact Hq].
  - destruct (nget (names t) p) as [[|?]|]; left; exact Hq.
  - destruct (nget (names t) p) as [[|?]|]; left; exact Hq.
  - destruct (nget (names t) p) as [[|?]|]; left; exact Hq.
  - (* Spit *)
    destruct (negb (parent_is_dir t p)); [left; exact Hq|].
    destruct (nget (names t) p) as [[|i]|] eqn:En; try (left; exact Hq).
    left. cbn [fst names]. rewrite nget_nset.
    destruct (path_eqb p q) eqn:E; [apply path_eqb_eq in E; subst; congruence|exact Hq].
Qed.

(* ---- no known class: the side conditions of the step lemmas ------------------------------------------- *)
Ltac nils :=
  repeat match goal with
         | H : _ ++ _ = [] |- _ => apply app_eq_nil in H; destruct H
         | H : kwhen _ _ = [] |- _ => apply kwhen_nil in H
         end.

Section HypOfKnown.
  Variables (s : fs) (d : dworld) (gh : ghost).
  Hypothesis HI : InvF s (dw d) (ggone gh).
  Hypothesis HD : Dur s d (ggone gh) (ggdirs gh).
  Hypothesis HG : GInv s d gh.

  (* the inode behind the new name of a pending rename is listed *)
  Lemma tgt_in_pren f p i : In (PRename f p) (pending s) -> nget (names (dw d)) p = Some (EFile i) ->
    in_pren i (gpren gh) = true.
  Proof.
    intros Hin Hn. apply (gi_pren _ _ _ HG) in Hin as [j Hj]. apply in_pren_In.
    destruct (gi_tgt _ _ _ HG j f p Hj) as [X|X].
    - rewrite Hn in X. inversion X; subst j. eauto.
    - rewrite (gone_none s d _ _ HI HD p X) in Hn. discriminate.
  Qed.

  Lemma not_tgt_of_class p i : nget (names (dw d)) p = Some (EFile i) -> in_pren i (gpren gh) = false ->
    forall f, ~ In (PRename f p) (pending s).
  Proof. intros Hn Hc f Hin. rewrite (tgt_in_pren f p i Hin Hn) in Hc. discriminate. Qed.

  Lemma live_handle slot h : sget (shs (dw d)) slot = Some h -> stale (dw d) slot = false ->
    nget (names (dw d)) (spath h) = Some (EFile (sino h)).
  Proof. apply not_stale. Qed.

  Lemma hyp_of_known o : c07r_op o = true -> kclasses d gh o = [] -> extra_excluded d gh o = false ->
    step_hyp s d (ggone gh) (ggdirs gh) o.
  Proof.
    intros Hop Hk Hx.
    destruct o; try discriminate; cbn [kclasses step_hyp op_classes kind_swap quiet extra_excluded] in *.
    - (* Open *)
      nils.
      assert (Hr : is_root p = false) by assumption.
      assert (Hks : (match nget (names (dw d)) p with Some _ => false | None => c || n end) && mem_path p (ggdirs gh) = false) by assumption.
      assert (Ht : match touched (dw d) (Open slot p r w a t c n) with Some i => in_pren i (gpren gh) | None => false end = false) by assumption.
      rewrite Hr, Hx. split; [reflexivity|]. cbn [touched] in Ht.
      destruct (nget (names (dw d)) p) as [[|i]|] eqn:En.
      + split; [reflexivity|]. intro Hf. unfold is_file in Hf. rewrite En in Hf. discriminate.
      + split; [reflexivity|]. intros _ Htw Hn Hv. subst n. rewrite Htw, Hv in Ht. cbn [andb negb] in Ht.
        apply (not_tgt_of_class p i En Ht).
      + split; [exact Hks|]. intro Hf. unfold is_file in Hf. rewrite En in Hf. discriminate.
    - (* Close *) auto.
    - (* WriteAt *)
      nils. assert (Hst : stale (dw d) slot = false) by assumption.
      assert (Ht : match touched (dw d) (WriteAt slot off data coin) with Some i => in_pren i (gpren gh) | None => false end = false) by assumption.
      rewrite Hst. split; [reflexivity|]. split; [reflexivity|]. intros h Hs Hw Hd. cbn [touched] in Ht.
      rewrite Hs, Hw in Ht. destruct data as [|b data]; [congruence|]. cbn [andb negb] in Ht.
      apply (not_tgt_of_class _ _ (live_handle slot h Hs Hst) Ht).
    - (* ReadAt *) nils. assert (Hst : stale (dw d) slot = false) by assumption. rewrite Hst. auto.
    - (* Write *)
      nils. assert (Hst : stale (dw d) slot = false) by assumption.
      assert (Ht : match touched (dw d) (Write slot data coin) with Some i => in_pren i (gpren gh) | None => false end = false) by assumption.
      rewrite Hst. split; [reflexivity|]. split; [reflexivity|]. intros h Hs Hw Hd. cbn [touched] in Ht.
      rewrite Hs, Hw in Ht. destruct data as [|b data]; [congruence|]. cbn [andb negb] in Ht.
      apply (not_tgt_of_class _ _ (live_handle slot h Hs Hst) Ht).
    - (* Read *) nils. assert (Hst : stale (dw d) slot = false) by assumption. rewrite Hst. auto.
    - (* Seek *) nils. assert (Hst : stale (dw d) slot = false) by assumption. rewrite Hst. auto.
    - (* SetLen *)
      nils. assert (Hst : stale (dw d) slot = false) by assumption.
      assert (Ht : match touched (dw d) (SetLen slot n coin) with Some i => in_pren i (gpren gh) | None => false end = false) by assumption.
      rewrite Hst. split; [reflexivity|]. split; [reflexivity|]. intros h Hs Hw. cbn [touched] in Ht.
      rewrite Hs, Hw in Ht.
      apply (not_tgt_of_class _ _ (live_handle slot h Hs Hst) Ht).
    - (* SyncAll *) nils. assert (Hst : stale (dw d) slot = false) by assumption. rewrite Hst. auto.
    - (* SyncData *) nils. assert (Hst : stale (dw d) slot = false) by assumption. rewrite Hst. auto.
    - (* FLen *) nils. assert (Hst : stale (dw d) slot = false) by assumption. rewrite Hst. auto.
    - (* SyncDir *)
      split; [reflexivity|]. split; [reflexivity|]. intros Hdir f r Hin. apply is_dir_iff in Hdir. rewrite Hdir in Hx.
      apply (gi_pren _ _ _ HG) in Hin as [i Hi].
      destruct (Bool.eqb (child_of f p) (child_of r p)) eqn:E; [apply Bool.eqb_prop; exact E|]. exfalso.
      assert (X : existsb (fun r0 : N * path * path => let '(_, f0, g0) := r0 in negb (Bool.eqb (child_of f0 p) (child_of g0 p))) (gpren gh) = true).
      { apply existsb_exists. exists (i, f, r). split; [exact Hi|]. rewrite E. reflexivity. }
      congruence.
    - (* Mkdir *)
      nils. assert (Hr : is_root p = false) by assumption.
      assert (Hks : match nget (names (dw d)) p with Some _ => false | None => mem_path p (ggone gh) end = false) by assumption.
      assert (Hg : mem_path p (ggone gh) = false).
      { destruct (mem_path p (ggone gh)) eqn:E0; [|reflexivity].
        rewrite (gone_none s d _ _ HI HD p E0) in Hks. exact Hks. }
      rewrite Hr. split; [reflexivity|]. split; [exact Hg|]. intros; exact Hg.
    - (* Rmdir *)
      nils. assert (Hr : is_root p = false) by assumption.
      assert (Hf : existsb (fun r0 : N * path * path => is_prefix p (snd r0)) (gpren gh) = false) by assumption.
      rewrite Hr. split; [reflexivity|]. split; [reflexivity|]. intros f r Hin.
      apply (gi_pren _ _ _ HG) in Hin as [i Hi].
      destruct (child_of r p) eqn:Ec; [|reflexivity]. apply child_is_prefix in Ec.
      assert (X : existsb (fun r0 : N * path * path => is_prefix p (snd r0)) (gpren gh) = true).
      { apply existsb_exists. exists (i, f, r). split; [exact Hi|exact Ec]. }
      congruence.
    - (* Unlink *) nils. assert (Hr : is_root p = false) by assumption. rewrite Hr. auto.
    - (* Rename *)
      nils. assert (Hr : is_root f || is_root t = false) by assumption.
      destruct (nget (names (dw d)) f) as [[|i]|] eqn:En.
      + discriminate.
      + apply orb_false_iff in Hr as [Hrf Hrt].
        destruct (path_eqb f t) eqn:Eft; [discriminate|]. apply path_eqb_neq in Eft.
        split; [exact Hrf|]. split; [exact Hrt|]. split; [exact Eft|]. intro Hok. rewrite Hok in *. cbn [andb] in *.
        match goal with H : kwhen _ NRenameFile = [] |- _ => apply kwhen_nil in H; rename H into Hc end.
        apply orb_false_iff in Hc as [Hc Hc5]. apply orb_false_iff in Hc as [Hc Hc4].
        apply orb_false_iff in Hc as [Hc Hc3]. apply orb_false_iff in Hc as [Hc1 Hc2].
        assert (Hff : is_file (dw d) f = true) by (unfold is_file; rewrite En; reflexivity).
        assert (Hfg : mem_path f (ggone gh) = false).
        { destruct (mem_path f (ggone gh)) eqn:E0; [|reflexivity]. apply (inv_gone _ _ _ HI) in E0. congruence. }
        apply orb_false_iff in Hx as [Hx Hx3].
        split; [exact Hc4|]. split; [exact Hx|]. split; [|split].
        * intro Hin. apply in_rnames in Hin as (f' & r' & Hin & [<-| <-]).
          -- apply (inv_rs _ _ _ HI) in Hin. congruence.
          -- rewrite (tgt_in_pren f' f i Hin En) in Hx3. discriminate.
        * intro Hin. apply in_rnames in Hin as (f' & r' & Hin & [<-| <-]).
          -- apply (inv_rs _ _ _ HI) in Hin. congruence.
          -- apply (gi_rt _ _ _ HG) in Hin. congruence.
        * intros o Ho. split.
          -- destruct (is_data_op f o) eqn:Ed; [|reflexivity]. exfalso.
             destruct (gi_dirty _ _ _ HG o f Ho Ed) as [(j & X & Y)|X]; [|congruence].
             rewrite En in X. inversion X; subst j. congruence.
          -- destruct (is_data_op t o) eqn:Ed; [|reflexivity]. exfalso.
             destruct (gi_dirty _ _ _ HG o t Ho Ed) as [(j & X & Y)|X]; [|congruence].
             rewrite X in Hc2. congruence.
      + rewrite Hr. reflexivity.
    - (* Stat *) auto.
    - (* Exists *) auto.
    - (* Readdir *) auto.
    - (* Slurp *) auto.
    - (* Spit *)
      nils. assert (Hr : is_root p = false) by assumption.
      assert (Hks : (match nget (names (dw d)) p with Some _ => false | None => true end) && mem_path p (ggdirs gh) = false) by assumption.
      assert (Ht : match touched (dw d) (Spit p data coin) with Some i => in_pren i (gpren gh) | None => false end = false) by assumption.
      rewrite Hr, Hx. split; [reflexivity|]. cbn [touched] in Ht.
      destruct (nget (names (dw d)) p) as [[|i]|] eqn:En.
      + split; [reflexivity|]. intro Hf. unfold is_file in Hf. rewrite En in Hf. discriminate.
      + split; [reflexivity|]. intros _. apply (not_tgt_of_class p i En Ht).
      + split; [exact Hks|]. intro Hf. unfold is_file in Hf. rewrite En in Hf. discriminate.
    - (* Dump *) auto.
    - (* Crash *) auto.
    - (* Tick *) auto.
  Qed.
End HypOfKnown.

(* ---- the ghost after a step ----------------------------------------------------------------------------- *)
Lemma with_recr_proj g0 x :
  ggone (with_recr g0 x) = ggone g0 /\ ggdirs (with_recr g0 x) = ggdirs g0 /\ grt (with_recr g0 x) = grt g0 /\
  gpren (with_recr g0 x) = gpren g0 /\ gdirty (with_recr g0 x) = gdirty g0.
Proof. destruct x as [[[l u] r] rr]. cbn. auto. Qed.

Lemma ggone_kupdate d d' gh o x : plain_op o = true ->
  ggone (kupdate d d' gh o x) = gone_after (dw d) (ggone gh) o /\
  ggdirs (kupdate d d' gh o x) = gd_after (dw d) (ggdirs gh) o.
Proof.
  intro Hp. unfold kupdate. destruct (with_recr_proj (kupdate0 d d' gh o x) (recr_after d d' gh o)) as (-> & -> & _).
  destruct o; try discriminate; cbn [kupdate0 gone_after gd_after ggone ggdirs]; try (split; reflexivity);
    match goal with |- context[nget (names (dw d)) ?q] => destruct (nget (names (dw d)) q) as [[|?]|] end; split; reflexivity.
Qed.

Lemma gpren_kupdate d d' gh o x :
  gpren (kupdate d d' gh o x) = gpren (kupdate0 d d' gh o x) /\
  gdirty (kupdate d d' gh o x) = gdirty (kupdate0 d d' gh o x) /\
  grt (kupdate d d' gh o x) = grt (kupdate0 d d' gh o x).
Proof.
  unfold kupdate. destruct (with_recr_proj (kupdate0 d d' gh o x) (recr_after d d' gh o)) as (_ & _ & A & B & C). auto.
Qed.

Lemma gdirty_kupdate0 d d' gh o x : (forall dr, o <> Crash dr) ->
  gdirty (kupdate0 d d' gh o x) = dirty_after d d' (gdirty gh) o x.
Proof.
  intro Hc. destruct o; cbn [kupdate0 gdirty]; try reflexivity;
    try (match goal with |- context[nget (names (dw d)) ?q] => destruct (nget (names (dw d)) q) as [[|?]|] end; reflexivity).
  exfalso. eapply Hc. reflexivity.
Qed.

(* the gone set only grows, up to the next crash *)
Lemma gone_after_mono t g o q : (forall dr, o <> Crash dr) -> mem_path q g = true -> mem_path q (gone_after t g o) = true.
Proof.
  intros Hc H. destruct o; cbn [gone_after]; try exact H.
  - destruct (nget (names t) p) as [[|?]|]; try exact H. rewrite mem_path_cons, H. apply orb_true_r.
  - destruct (nget (names t) f) as [[|?]|]; try exact H. destruct (rename_ok t f t0); [|exact H].
    rewrite mem_path_cons, H. apply orb_true_r.
  - exfalso. eapply Hc. reflexivity.
Qed.

(* the implementation's rename succeeds iff the reference's does *)
Lemma rename_ok_iff s t g f r i : InvF s t g -> nget (names t) f = Some (EFile i) ->
  is_root f = false -> is_root r = false ->
  (snd (rename s f r) = None <-> rename_ok t f r = true).
Proof.
  intros HF Hn Hrf Hrr. unfold rename_ok, srename.
  destruct f as [|a f]; [discriminate|]. destruct r as [|b r]; [discriminate|]. rewrite Hn.
  assert (Hfe : file_exists s (a :: f) = true) by (rewrite (inv_fx _ _ _ HF); apply is_file_iff; eauto).
  unfold rename. rewrite (parent_exists_inv s t g _ HF), Hfe, (inv_dx _ _ _ HF).
  destruct (parent_is_dir t (b :: r)); cbn [negb snd]; [|split; discriminate].
  unfold is_dir. destruct (nget (names t) (b :: r)) as [[|j]|]; cbn [snd]; [split; discriminate| |].
  - destruct (path_eqb (a :: f) (b :: r)); cbn [snd]; split; reflexivity.
  - destruct (path_eqb (a :: f) (b :: r)); cbn [snd]; split; reflexivity.
Qed.

(* data operations in the log after a step that pushes none *)
Lemma step_dataops_sub w o o' q :
  match o with
  | Close _ | ReadAt _ _ _ | Read _ _ | Seek _ _ _ | FLen _ | SyncDir _ | Mkdir _ | Rmdir _ | Unlink _ | Rename _ _
  | Stat _ | Exists _ | Readdir _ | Slurp _ | Dump _ | Tick => True
  | _ => False
  end ->
  In o' (pending (wfs (fst (step w o)))) -> is_data_op q o' = true -> In o' (pending (wfs w)).
Proof.
  intros Hop Hin Hd. destruct o; try contradiction; cbn [step] in Hin.
  - destruct (hget (whs w) slot); exact Hin.
  - destruct (hget (whs w) slot) as [h|]; [|exact Hin]. destruct (hr h); exact Hin.
  - destruct (hget (whs w) slot) as [h|]; [|exact Hin]. destruct (hr h); exact Hin.
  - destruct (hget (whs w) slot) as [h|]; [|exact Hin].
    match type of Hin with context[(?b + off <? 0)%Z] => destruct (b + off <? 0)%Z end; exact Hin.
  - destruct (hget (whs w) slot); exact Hin.
  - rewrite res_fs in Hin. unfold sync_dir in Hin. destruct (dir_exists (wfs w) p); cbn [negb fst] in Hin; [|exact Hin].
    change (fold_left (fun st o => apply_op (set_synced st (mark_synced p (synced st) o)) o) ?l ?s0)
      with (fold_left (fun st o => apply_op (sd_mark p st o) o) l s0) in Hin.
    rewrite fold_apply_pending in Hin by reflexivity. cbn [pending set_pending] in Hin. apply filter_In in Hin. tauto.
  - rewrite res_fs in Hin. unfold mkdir in Hin. destruct (negb (parent_exists (wfs w) p)); [exact Hin|].
    destruct (dir_exists (wfs w) p || file_exists (wfs w) p); [exact Hin|].
    apply in_push in Hin as [Hin|Hin]; [exact Hin|subst o'; discriminate].
  - rewrite res_fs in Hin. unfold rmdir in Hin. destruct (negb (dir_exists (wfs w) p)); [exact Hin|].
    destruct (has_children (wfs w) p); [exact Hin|].
    apply in_push in Hin as [Hin|Hin]; [exact Hin|subst o'; discriminate].
  - rewrite res_fs in Hin. unfold unlink in Hin. destruct (negb (file_exists (wfs w) p)); [exact Hin|].
    apply in_push in Hin as [Hin|Hin]; [exact Hin|subst o'; discriminate].
  - rewrite res_fs in Hin. unfold rename in Hin. destruct (negb (parent_exists (wfs w) t)); [exact Hin|].
    destruct (file_exists (wfs w) f).
    + destruct (dir_exists (wfs w) t); [exact Hin|]. apply in_push in Hin as [Hin|Hin]; [exact Hin|subst o'; discriminate].
    + destruct (dir_exists (wfs w) f); [|exact Hin]. destruct (file_exists (wfs w) t); [exact Hin|].
      destruct (dir_exists (wfs w) t && has_children (wfs w) t); [exact Hin|].
      apply in_push in Hin as [Hin|Hin]; [exact Hin|subst o'; discriminate].
  - destruct (file_exists (wfs w) p); [exact Hin|]. destruct (dir_exists (wfs w) p); exact Hin.
  - exact Hin.
  - destruct (dir_exists (wfs w) p); exact Hin.
  - exact Hin.
  - exact Hin.
  - exact Hin.
Qed.

Lemma c07r_plain o : c07r_op o = true -> plain_op o = true.
Proof. destruct o; try reflexivity; discriminate. Qed.
Lemma c07r_c07 o : c07r_op o = true -> c07_op o = true.
Proof. destruct o; try reflexivity; discriminate. Qed.

(* the unflushed renames after a step: the old ones, or the step's own clean rename *)
Lemma pren_after_sub : forall o d d' gh x i ff rr, In (i, ff, rr) (gpren (kupdate0 d d' gh o x)) ->
  In (i, ff, rr) (gpren gh) \/
  (o = Rename ff rr /\ nget (names (dw d)) ff = Some (EFile i) /\ rename_ok (dw d) ff rr = true /\ ff <> rr).
Proof.
  intro o. destruct o; intros d d' gh x i f' r'; cbn [kupdate0 gpren]; auto;
    try (match goal with |- context[nget (names (dw d)) ?q] => destruct (nget (names (dw d)) q) as [[|j]|] eqn:En end;
         cbn [gpren]; auto).
  - intro H. apply filter_In in H. tauto.
  - destruct (clean_rename d gh (Rename f t)) eqn:Ec; auto. intro H. apply in_app_iff in H as [H|[H|[]]]; auto.
    inversion H; subst. right. unfold clean_rename in Ec. rewrite En in Ec.
    apply andb_true_iff in Ec as [Ec _]. apply andb_true_iff in Ec as [E1 E2]. apply negb_true_iff, path_eqb_neq in E1. auto.
  - intros [].
  - intros [].
  - intros [].
Qed.

Lemma grt_after_mono : forall o d d' gh x rr, (forall dr, o <> Crash dr) ->
  mem_path rr (grt gh) = true -> mem_path rr (grt (kupdate0 d d' gh o x)) = true.
Proof.
  intro o. destruct o; intros d d' gh x r' Hnc X; cbn [kupdate0 grt]; try exact X;
    try (match goal with |- context[nget (names (dw d)) ?q] => destruct (nget (names (dw d)) q) as [[|j]|] eqn:En end;
         cbn [grt]; try exact X).
  - destruct (rename_ok (dw d) f t); [rewrite mem_path_cons, X; apply orb_true_r|exact X].
  - exfalso. eapply Hnc. reflexivity.
Qed.

Lemma grt_after_new d d' gh x f r i : nget (names (dw d)) f = Some (EFile i) -> rename_ok (dw d) f r = true ->
  mem_path r (grt (kupdate0 d d' gh (Rename f r) x)) = true.
Proof. intros En Hok. cbn [kupdate0]. rewrite En. cbn [grt]. rewrite Hok, mem_path_cons, path_eqb_refl. reflexivity. Qed.

(* ---- more syntactic facts on single operations ------------------------------------------------------------ *)
Lemma obs_ok_is_err x y : obs_ok x y -> is_err x = is_err y.
Proof.
  unfold obs_ok. destruct x; try (intros <-; reflexivity). destruct y; try discriminate; reflexivity.
Qed.

Lemma open_file_ok s p r w a t c n h : snd (open_file s p r w a t c n) = inl h ->
  hpath h = p /\ hw h = (w || a) /\ file_exists (fst (open_file s p r w a t c n)) p = true.
Proof.
  unfold open_file. destruct (negb (valid_open r w a t c n)); [discriminate|].
  destruct (n && file_exists s p); [discriminate|].
  destruct (file_exists s p) eqn:Ef.
  - destruct (t && w); cbn [fst snd]; intro H; inversion H; (split; [reflexivity|split; [reflexivity|]]); [|exact Ef].
    rewrite file_exists_push. cbn [fx_step]. exact Ef.
  - destruct (c || n); [|discriminate]. destruct (dir_exists s p); [discriminate|].
    destruct (parent_exists s p); [|discriminate].
    destruct (t && w); cbn [fst snd]; intro H; inversion H; (split; [reflexivity|split; [reflexivity|]]);
      rewrite ?file_exists_push; cbn [fx_step]; rewrite ?file_exists_push; cbn [fx_step]; rewrite path_eqb_refl; reflexivity.
Qed.

Lemma open_file_err s p r w a t c n e : snd (open_file s p r w a t c n) = inr e -> fst (open_file s p r w a t c n) = s.
Proof.
  unfold open_file. destruct (negb (valid_open r w a t c n)); [reflexivity|].
  destruct (n && file_exists s p); [reflexivity|].
  destruct (file_exists s p).
  - destruct (t && w); discriminate.
  - destruct (c || n); [|reflexivity]. destruct (dir_exists s p); [reflexivity|].
    destruct (parent_exists s p); [|reflexivity]. destruct (t && w); discriminate.
Qed.

(* a successful open in the reference tree: the handle's inode is what the path names afterwards *)
Lemma sopen_ok t slot p r w a tr c n : snd (sopen t slot p r w a tr c n) = OOk ->
  exists i h, nget (names (fst (sopen t slot p r w a tr c n))) p = Some (EFile i) /\
              sget (shs (fst (sopen t slot p r w a tr c n))) slot = Some h /\ sino h = i.
Proof.
  unfold sopen. destruct (negb (valid_open r w a tr c n)); [discriminate|].
  destruct (negb (parent_is_dir t p)); [discriminate|].
  destruct (nget (names t) p) as [[|i]|] eqn:En; [discriminate| |].
  - destruct n; [discriminate|]. intros _. exists i. eexists. split; [|split].
    + destruct tr; cbn [fst names set_shs set_inode]; exact En.
    + cbn [fst shs set_shs]. rewrite sget_sset, N.eqb_refl. reflexivity.
    + reflexivity.
  - destruct (c || n); [|discriminate]. intros _. exists (next_ino t). eexists. split; [|split].
    + cbn [fst names]. rewrite nget_nset, path_eqb_refl. reflexivity.
    + cbn [fst shs]. rewrite sget_sset, N.eqb_refl. reflexivity.
    + reflexivity.
Qed.

Lemma obs_ok_ok x : obs_ok x OOk -> x = OOk.
Proof. unfold obs_ok. destruct x; auto. Qed.

Lemma sspit_ok t p data coin : snd (sstep t (Spit p data coin)) = OOk ->
  exists i, nget (names (fst (sstep t (Spit p data coin)))) p = Some (EFile i).
Proof.
  cbn [sstep]. destruct (negb (parent_is_dir t p)); [discriminate|].
  destruct (nget (names t) p) as [[|i]|] eqn:En; [discriminate| |]; intros _.
  - exists i. cbn [fst names set_inode]. exact En.
  - exists (next_ino t). cbn [fst names]. rewrite nget_nset, path_eqb_refl. reflexivity.
Qed.

(* names after an operation on a handle: unchanged *)
Lemma handle_op_names t o : 
  match o with
  | Close _ | WriteAt _ _ _ _ | ReadAt _ _ _ | Write _ _ _ | Read _ _ | Seek _ _ _ | SetLen _ _ _
  | SyncAll _ | SyncData _ | FLen _ => True
  | _ => False
  end -> names (fst (sstep t o)) = names t.
Proof.
  destruct o; try contradiction; intros _; cbn [sstep].
  - destruct (sget (shs t) slot); reflexivity.
  - destruct (sget (shs t) slot) as [h|]; [|reflexivity]. destruct (negb (sw h)); reflexivity.
  - destruct (sget (shs t) slot) as [h|]; [|reflexivity]. destruct (negb (sr h)); reflexivity.
  - destruct (sget (shs t) slot) as [h|]; [|reflexivity]. destruct (negb (sw h)); reflexivity.
  - destruct (sget (shs t) slot) as [h|]; [|reflexivity]. destruct (negb (sr h)); reflexivity.
  - destruct (sget (shs t) slot) as [h|]; [|reflexivity].
    match goal with |- context[(?b + off <? 0)%Z] => destruct (b + off <? 0)%Z end; reflexivity.
  - destruct (sget (shs t) slot) as [h|]; [|reflexivity]. destruct (negb (sw h)); reflexivity.
  - destruct (sget (shs t) slot); reflexivity.
  - destruct (sget (shs t) slot); reflexivity.
  - destruct (sget (shs t) slot); reflexivity.
Qed.

(* ---- the ghost relation is kept by every step --------------------------------------------------------- *)
Section GhostStep.
  Variables (w : world) (d : dworld) (gh : ghost) (o : op).
  Let s := wfs w.
  Let g := ggone gh.
  Let gd := ggdirs gh.
  Let s' := wfs (fst (step w o)).
  Let d' := fst (dstep d o).
  Let x := snd (dstep d o).
  Hypothesis HI : InvF s (dw d) g.
  Hypothesis HD : Dur s d g gd.
  Hypothesis HG : GInv s d gh.
  Hypothesis Hop : c07r_op o = true.
  Hypothesis Hk : kclasses d gh o = [].
  Hypothesis Hhyp : step_hyp s d g gd o.

  Lemma ginv_pren f r :
    In (PRename f r) (pending s') <-> exists i, In (i, f, r) (gpren (kupdate0 d d' gh o x)).
  Proof.
    unfold s'. rewrite step_rens by (apply c07r_plain; exact Hop). fold s.
    destruct o; try discriminate; cbn [rens_after kupdate0 gpren]; try (apply (gi_pren _ _ _ HG)).
    - (* SyncDir *)
      destruct (nget (names (dw d)) p) as [[|i]|] eqn:En.
      + assert (Hd : dir_exists s p = true) by (rewrite (inv_dx _ _ _ HI); apply is_dir_iff; exact En).
        rewrite Hd. cbn [gpren]. split.
        * intros [Hin Hc]. destruct (Hc eq_refl) as [C1 C2]. apply (gi_pren _ _ _ HG) in Hin as [j Hj].
          exists j. apply filter_In. split; [exact Hj|]. cbn. rewrite C1, C2. reflexivity.
        * intros [j Hj]. apply filter_In in Hj as [Hj Hh]. cbn in Hh. apply negb_true_iff, orb_false_iff in Hh.
          split; [apply (gi_pren _ _ _ HG); eauto|]. intros _. exact Hh.
      + assert (Hd : dir_exists s p = false) by (rewrite (inv_dx _ _ _ HI); unfold is_dir; rewrite En; reflexivity).
        rewrite Hd. cbn [gpren]. rewrite (gi_pren _ _ _ HG). split; [tauto|]. intro H. split; [exact H|discriminate].
      + assert (Hd : dir_exists s p = false) by (rewrite (inv_dx _ _ _ HI); unfold is_dir; rewrite En; reflexivity).
        rewrite Hd. cbn [gpren]. rewrite (gi_pren _ _ _ HG). split; [tauto|]. intro H. split; [exact H|discriminate].
    - (* Rename *)
      cbn [step_hyp] in Hhyp. destruct (nget (names (dw d)) f0) as [[|i]|] eqn:En.
      + cbn [op_classes] in Hhyp. rewrite En in Hhyp. apply app_eq_nil in Hhyp as [_ Hhyp]. discriminate.
      + destruct Hhyp as (Hrf & Hrr & Hne & _).
        assert (Hcl : clean_rename d gh (Rename f0 t) = rename_ok (dw d) f0 t).
        { unfold clean_rename. rewrite En, Hk. cbn [existsb negb]. rewrite andb_true_r.
          destruct (path_eqb f0 t) eqn:E; [apply path_eqb_eq in E; congruence|reflexivity]. }
        rewrite Hcl. pose proof (rename_ok_iff s (dw d) g f0 t i HI En Hrf Hrr) as Hiff.
        destruct (rename_ok (dw d) f0 t); cbn [gpren].
        * split.
          -- intros [Hin|[Heq _]]; [apply (gi_pren _ _ _ HG) in Hin as [j Hj]; exists j; apply in_or_app; left; exact Hj|].
             inversion Heq; subst. exists i. apply in_or_app. right. left. reflexivity.
          -- intros [j Hj]. apply in_app_iff in Hj as [Hj|[Hj|[]]]; [left; apply (gi_pren _ _ _ HG); eauto|].
             inversion Hj; subst. right. split; [reflexivity|]. apply Hiff. reflexivity.
        * rewrite (gi_pren _ _ _ HG). split; [intros [H|[_ H]]; [exact H|]|auto].
          apply Hiff in H. discriminate.
      + cbn [gpren]. rewrite (gi_pren _ _ _ HG). split; [intros [H|[_ H]]; [exact H|]|auto]. exfalso.
        assert (Hf : file_exists s f0 = false) by (rewrite (inv_fx _ _ _ HI); unfold is_file; rewrite En; reflexivity).
        assert (Hd : dir_exists s f0 = false) by (rewrite (inv_dx _ _ _ HI); unfold is_dir; rewrite En; reflexivity).
        unfold rename in H. rewrite Hf, Hd in H. destruct (negb (parent_exists s t)); discriminate.
    - (* Crash *) cbn [gpren]. split; [intros []|intros [i []]].
  Qed.
  (* a rename whose source is a directory or that names the root is excluded; one without source fails *)
  Lemma hyp_rename_src a b : o = Rename a b -> nget (names (dw d)) a <> Some EDir.
  Proof.
    intros Ho En. pose proof Hhyp as H. rewrite Ho in H. cbn [step_hyp] in H. rewrite En in H. cbn [op_classes] in H. rewrite En in H.
    apply app_eq_nil in H as [_ H]. discriminate.
  Qed.

  Lemma rename_ok_none a b : nget (names (dw d)) a = None -> rename_ok (dw d) a b = false.
  Proof. intro En. unfold rename_ok, srename. destruct a; [reflexivity|]. destruct b; [reflexivity|]. rewrite En. reflexivity. Qed.

  (* a successful rename does not take the new name of a pending one *)
  Lemma hyp_rename_tgt a r i f : o = Rename a r -> In (i, f, r) (gpren gh) -> rename_ok (dw d) a r = false.
  Proof.
    intros Ho Hin. destruct (rename_ok (dw d) a r) eqn:Hok; [|reflexivity]. exfalso.
    pose proof Hhyp as Hh. rewrite Ho in Hh. cbn [step_hyp] in Hh. destruct (nget (names (dw d)) a) as [[|j]|] eqn:En.
    - eapply hyp_rename_src; eauto.
    - destruct Hh as (_ & _ & _ & H). destruct (H Hok) as (_ & _ & _ & X & _). apply X.
      assert (Hp : In (PRename f r) (pending s)) by (apply (gi_pren _ _ _ HG); eauto).
      apply (rnames_in _ _ _ Hp).
    - rewrite (rename_ok_none a r En) in Hok. discriminate.
  Qed.

  Lemma srename_names a b i : nget (names (dw d)) a = Some (EFile i) -> rename_ok (dw d) a b = true -> a <> b ->
    nget (names (fst (srename (dw d) a b))) b = Some (EFile i).
  Proof.
    intros En Hok Hne. unfold rename_ok, srename in *. destruct a as [|a0 a]; [discriminate|]. destruct b as [|b0 b]; [discriminate|].
    rewrite En in *. destruct (negb (parent_is_dir (dw d) (b0 :: b))); [discriminate|].
    destruct (path_eqb (a0 :: a) (b0 :: b)) eqn:E; [apply path_eqb_eq in E; congruence|].
    destruct (nget (names (dw d)) (b0 :: b)) as [[|j]|]; [discriminate| |];
      cbn [fst names set_names]; rewrite nget_nset, path_eqb_refl; reflexivity.
  Qed.

  Lemma ginv_tgt i f r : (forall dr, o <> Crash dr) -> In (i, f, r) (gpren (kupdate0 d d' gh o x)) ->
    nget (names (dw d')) r = Some (EFile i) \/ mem_path r (gone_after (dw d) g o) = true.
  Proof.
    intros Hnc Hin. destruct (dstep_tree d o Hnc) as [Ht _]. unfold d'. rewrite Ht.
    destruct (pren_after_sub _ _ _ _ _ i f r Hin) as [Hold|(Ho & En & Hok & Hne)].
    - destruct (gi_tgt _ _ _ HG i f r Hold) as [X|X].
      + apply file_name_stays; [apply c07r_plain; exact Hop|exact X| |].
        * intros a Ho. eapply hyp_rename_tgt; eauto.
        * intros a b Ho. apply (hyp_rename_src a b Ho).
      + right. apply gone_after_mono; assumption.
    - left. rewrite Ho. cbn [sstep]. apply srename_names; assumption.
  Qed.

  Lemma ginv_rt f r : In (PRename f r) (pending s') -> mem_path r (grt (kupdate0 d d' gh o x)) = true.
  Proof.
    intro Hin. apply ginv_pren in Hin as [i Hi]. destruct (pren_after_sub _ _ _ _ _ i f r Hi) as [Hold|(Ho & En & Hok & Hne)].
    - assert (Hp : In (PRename f r) (pending s)) by (apply (gi_pren _ _ _ HG); eauto).
      pose proof (gi_rt _ _ _ HG f r Hp) as X.
      apply grt_after_mono; [|exact X]. intros dr Ho. revert Hi. rewrite Ho. cbn [kupdate0 gpren]. intros [].
    - revert Hi. rewrite Ho. intros _. eapply grt_after_new; eauto.
  Qed.

  (* ---- the dirty inodes ---- *)
  Hypothesis HH : HRel (whs w) (shs (dw d)).
  Hypothesis Hnc : forall dr, o <> Crash dr.
  Hypothesis HI' : InvF s' (dw d') (gone_after (dw d) g o).
  Hypothesis Hobs : obs_ok x (snd (step w o)).

  Lemma tree_after : dw d' = fst (sstep (dw d) o) /\ x = snd (sstep (dw d) o).
  Proof. apply dstep_tree. exact Hnc. Qed.

  Definition dirty_goal (q : path) (dty' : list N) : Prop :=
    (exists j, nget (names (dw d')) q = Some (EFile j) /\ mem_ino j dty' = true) \/
    mem_path q (gone_after (dw d) g o) = true.

  (* a data operation that was in the log before the step *)
  Lemma dirty_keep o' q dty' : In o' (pending s) -> is_data_op q o' = true ->
    (forall j, nget (names (dw d)) q = Some (EFile j) -> mem_ino j (gdirty gh) = true ->
               nget (names (dw d')) q = Some (EFile j) -> mem_ino j dty' = true) ->
    dirty_goal q dty'.
  Proof.
    intros Hin Hd Hsub. destruct tree_after as [Ht _]. unfold dirty_goal. rewrite Ht in *.
    destruct (gi_dirty _ _ _ HG o' q Hin Hd) as [(j & Hn & Hj)|Hq].
    - destruct (file_name_stays (dw d) g o q j (c07r_plain _ Hop) Hn) as [X|X].
      + intros a Ho. destruct (rename_ok (dw d) a q) eqn:Hok; [|reflexivity]. exfalso.
        pose proof Hhyp as Hh. rewrite Ho in Hh. cbn [step_hyp] in Hh.
        destruct (nget (names (dw d)) a) as [[|k]|] eqn:En.
        * eapply hyp_rename_src; eauto.
        * destruct Hh as (_ & _ & _ & H). destruct (H Hok) as (_ & _ & _ & _ & Y). destruct (Y o' Hin). congruence.
        * rewrite (rename_ok_none a q En) in Hok. discriminate.
      + intros a b Ho. apply (hyp_rename_src a b Ho).
      + left. exists j. split; [exact X|]. apply Hsub; assumption.
      + right. exact X.
    - right. apply gone_after_mono; assumption.
  Qed.

End GhostStep.

(* ---- the dirty inodes after a step ---------------------------------------------------------------------- *)
Lemma dirty_after_same d d' l o x :
  match o with
  | Close _ | ReadAt _ _ _ | Read _ _ | Seek _ _ _ | FLen _ | SyncDir _ | Mkdir _ | Rmdir _ | Unlink _ | Rename _ _
  | Stat _ | Exists _ | Readdir _ | Slurp _ | Dump _ | Tick => True
  | _ => False
  end -> dirty_after d d' l o x = l.
Proof. intro H. unfold dirty_after. destruct (is_err x); [reflexivity|]. destruct o; try contradiction; reflexivity. Qed.

Lemma mem_ino_cons i j l : mem_ino i (j :: l) = (i =? j) || mem_ino i l.
Proof. reflexivity. Qed.

(* a data sync / write through a live handle: every other file keeps its dirty mark *)
Lemma other_ino_kept s t g P q i j l : InvF s t g -> nget (names t) P = Some (EFile i) -> nget (names t) q = Some (EFile j) ->
  q <> P -> mem_ino j l = true -> mem_ino j (del_ino i l) = true.
Proof.
  intros HI HP Hq Hne Hj. rewrite mem_del_ino_other; [exact Hj|]. intro; subst j. apply Hne. eapply (inv_inj _ _ _ HI); eauto.
Qed.

Section DirtyHandle.
  Variables (w : world) (d : dworld) (gh : ghost) (o : op).
  Hypothesis HI : InvF (wfs w) (dw d) (ggone gh).
  Hypothesis HG : GInv (wfs w) d gh.
  Hypothesis Hop : c07r_op o = true.
  Hypothesis Hhyp : step_hyp (wfs w) d (ggone gh) (ggdirs gh) o.
  Hypothesis Hnc : forall dr, o <> Crash dr.
  Hypothesis HI' : InvF (wfs (fst (step w o))) (dw (fst (dstep d o))) (gone_after (dw d) (ggone gh) o).
  (* the step leaves the names alone and works on the live path P of inode i *)
  Variables (P : path) (i : N) (coin : bool) (l1 : list N).
  Hypothesis Hnames : names (dw (fst (dstep d o))) = names (dw d).
  Hypothesis HP : nget (names (dw d)) P = Some (EFile i).
  Hypothesis Hl1 : forall j, mem_ino j (gdirty gh) = true -> mem_ino j l1 = true.
  (* what the log holds afterwards *)
  Hypothesis Hlog : forall o' q, In o' (pending (wfs (fst (step w o)))) -> is_data_op q o' = true ->
    (In o' (pending (wfs w)) \/ (q = P /\ mem_ino i l1 = true)) /\ (coin = true -> q <> P).

  Lemma dirty_handle o' q : In o' (pending (wfs (fst (step w o)))) -> is_data_op q o' = true ->
    dirty_goal d gh o q (if coin then del_ino i l1 else l1).
  Proof.
    intros Hin Hd. destruct (Hlog o' q Hin Hd) as [[Hold|[-> Hi]] Hc].
    - apply (dirty_keep w d gh o HG Hop Hhyp Hnc HI' o' q _ Hold Hd). intros j Hq Hj _.
      destruct coin; [|apply Hl1; exact Hj].
      apply (other_ino_kept (wfs w) (dw d) (ggone gh) P q i j l1 HI HP Hq (Hc eq_refl)). apply Hl1. exact Hj.
    - left. exists i. rewrite Hnames. split; [exact HP|]. destruct coin; [exfalso; apply (Hc eq_refl); reflexivity|exact Hi].
  Qed.
End DirtyHandle.

Lemma data_op_path q p off data : is_data_op q (PWrite p off data) = true -> q = p.
Proof. cbn. intro H. apply path_eqb_eq in H. auto. Qed.
Lemma data_op_path' q p n : is_data_op q (PSetLen p n) = true -> q = p.
Proof. cbn. intro H. apply path_eqb_eq in H. auto. Qed.

Lemma stale_of_hyp (s : fs) d g gd o slot :
  match o with
  | WriteAt sl _ _ _ | Write sl _ _ | SetLen sl _ _ | SyncAll sl | SyncData sl => sl = slot
  | _ => False
  end -> step_hyp s d g gd o -> stale (dw d) slot = false.
Proof.
  intros Ho Hh. destruct o; try contradiction; subst; cbn [step_hyp op_classes] in Hh; destruct Hh as (Hc & _);
    destruct (stale (dw d) slot); try reflexivity; discriminate.
Qed.

(* the file system after an operation on a handle *)
Lemma step_writeat_fs w slot off data coin h : hget (whs w) slot = Some h ->
  wfs (fst (step w (WriteAt slot off data coin))) = fst (write_at (wfs w) h (N.to_nat off) data coin).
Proof. intro Hh. cbn [step]. rewrite Hh. destruct (write_at (wfs w) h (N.to_nat off) data coin) as [s1 [k|e]]; reflexivity. Qed.

Lemma step_write_fs w slot data coin h : hget (whs w) slot = Some h ->
  exists off, wfs (fst (step w (Write slot data coin))) = fst (write_at (wfs w) h off data coin).
Proof.
  intro Hh. cbn [step]. rewrite Hh. eexists.
  match goal with |- context[write_at ?s0 ?h0 ?o0 ?d0 ?c0] => destruct (write_at s0 h0 o0 d0 c0) as [s1 [k|e]] eqn:E end;
    cbn [fst wfs with_fs]; rewrite E; reflexivity.
Qed.

Lemma step_setlen_fs w slot n coin h : hget (whs w) slot = Some h ->
  wfs (fst (step w (SetLen slot n coin))) =
  if hw h then (let s1 := push (wfs w) (PSetLen (hpath h) (N.to_nat n)) in if coin then fst (sync_file s1 (hpath h)) else s1)
  else wfs w.
Proof. intro Hh. cbn [step]. rewrite Hh. destruct (hw h); reflexivity. Qed.

Lemma step_sync_fs w slot h : hget (whs w) slot = Some h ->
  wfs (fst (step w (SyncAll slot))) = fst (sync_file (wfs w) (hpath h)) /\
  wfs (fst (step w (SyncData slot))) = fst (sync_file (wfs w) (hpath h)).
Proof. intro Hh. cbn [step]. rewrite Hh, !res_fs. split; reflexivity. Qed.

Lemma write_at_err s h off data coin : hw h = false -> fst (write_at s h off data coin) = s.
Proof. intro H. unfold write_at. rewrite H. reflexivity. Qed.

Lemma ginv_dirty_step : forall o w d gh,
  InvF (wfs w) (dw d) (ggone gh) -> HRel (whs w) (shs (dw d)) -> GInv (wfs w) d gh -> c07r_op o = true ->
  step_hyp (wfs w) d (ggone gh) (ggdirs gh) o -> (forall dr, o <> Crash dr) ->
  InvF (wfs (fst (step w o))) (dw (fst (dstep d o))) (gone_after (dw d) (ggone gh) o) ->
  obs_ok (snd (dstep d o)) (snd (step w o)) ->
  forall o' q, In o' (pending (wfs (fst (step w o)))) -> is_data_op q o' = true ->
  dirty_goal d gh o q (dirty_after d (fst (dstep d o)) (gdirty gh) o (snd (dstep d o))).
Proof.
  intro o. destruct o; intros w0 d gh HI HH HG Hop Hhyp Hnc HI' Hobs o' q Hin Hd; try discriminate;
    pose proof (dirty_keep w0 d gh _ HG Hop Hhyp Hnc HI') as DK;
    destruct (dstep_tree d _ Hnc) as [Ht Hx];
    (* the operations that push no data operation and leave the dirty set alone *)
    try (rewrite dirty_after_same by exact I;
         apply (DK o' q); [eapply step_dataops_sub; [|exact Hin|exact Hd]; exact I|exact Hd|intros; assumption]).
  - (* Open *)
    assert (Efs : wfs (fst (step w0 (Open slot p r w a t c n))) = fst (open_file (wfs w0) p r w a t c n)).
    { cbn [step]. destruct (open_file (wfs w0) p r w a t c n) as [s1 [h|e]]; reflexivity. }
    assert (Eobs : snd (step w0 (Open slot p r w a t c n)) =
                   match snd (open_file (wfs w0) p r w a t c n) with inl _ => OOk | inr e => OErr e end).
    { cbn [step]. destruct (open_file (wfs w0) p r w a t c n) as [s1 [h|e]]; reflexivity. }
    rewrite Efs in Hin. rewrite Eobs in Hobs.
    destruct (snd (open_file (wfs w0) p r w a t c n)) as [h|e] eqn:Eo.
    + (* success *)
      apply obs_ok_ok in Hobs. pose proof Hobs as Hx'. rewrite Hx in Hx'. cbn [sstep] in Hx'.
      destruct (sopen_ok _ _ _ _ _ _ _ _ _ Hx') as (i' & h' & N1 & N2 & N3).
      assert (Edty : dirty_after d (fst (dstep d (Open slot p r w a t c n))) (gdirty gh) (Open slot p r w a t c n)
                       (snd (dstep d (Open slot p r w a t c n))) = if t && w then i' :: gdirty gh else gdirty gh).
      { unfold dirty_after. rewrite Hobs. cbn [is_err]. rewrite Ht. cbn [sstep]. rewrite N2, N3. reflexivity. }
      rewrite Edty.
      destruct (open_file_dataops _ _ _ _ _ _ _ _ _ Hin) as [Hold|[Hcf|(Hsl & Htw & _)]].
      * apply (DK o' q _ Hold Hd). intros j _ Hj _. destruct (t && w); [rewrite mem_ino_cons, Hj; apply orb_true_r|exact Hj].
      * subst o'. discriminate.
      * subst o'. apply data_op_path' in Hd. subst q. left. exists i'. rewrite Ht. cbn [sstep]. split; [exact N1|].
        rewrite Htw, mem_ino_cons, N.eqb_refl. reflexivity.
    + (* failure: nothing moves *)
      rewrite (open_file_err _ _ _ _ _ _ _ _ _ Eo) in Hin.
      assert (Edty : dirty_after d (fst (dstep d (Open slot p r w a t c n))) (gdirty gh) (Open slot p r w a t c n)
                       (snd (dstep d (Open slot p r w a t c n))) = gdirty gh).
      { unfold dirty_after. rewrite (obs_ok_is_err _ _ Hobs). reflexivity. }
      rewrite Edty. apply (DK o' q _ Hin Hd). intros; assumption.
  - (* WriteAt *)
    destruct (HRel_cases _ _ slot HH) as [[Hh Hs]|(h & sh & Hh & Hs & Hrel)].
    + (* no handle *)
      assert (E1 : wfs (fst (step w0 (WriteAt slot off data coin))) = wfs w0) by (cbn [step]; rewrite Hh; reflexivity).
      assert (E2 : dirty_after d (fst (dstep d (WriteAt slot off data coin))) (gdirty gh) (WriteAt slot off data coin) (snd (dstep d (WriteAt slot off data coin))) = gdirty gh).
      { rewrite Hx. unfold dirty_after. cbn [sstep]. rewrite Hs. reflexivity. }
      rewrite E2. rewrite E1 in Hin. apply (DK o' q _ Hin Hd). intros; assumption.
    + pose proof (not_stale (dw d) slot sh Hs (stale_of_hyp _ d _ _ (WriteAt slot off data coin) slot eq_refl Hhyp)) as Hlive.
      destruct Hrel as (Hp & Hr & Hw & Ha & Hpos).
      destruct (sw sh) eqn:Esw.
      * set (l1 := match data with [] => gdirty gh | _ :: _ => sino sh :: gdirty gh end).
        assert (Edty : dirty_after d (fst (dstep d (WriteAt slot off data coin))) (gdirty gh) (WriteAt slot off data coin) (snd (dstep d (WriteAt slot off data coin))) =
                       if coin then del_ino (sino sh) l1 else l1).
        { rewrite Hx. unfold dirty_after. cbn [sstep]. rewrite Hs, Esw. cbn [negb snd is_err]. reflexivity. }
        rewrite Edty.
        refine (dirty_handle w0 d gh _ HI HG Hop Hhyp Hnc HI' (spath sh) (sino sh) coin l1 _ Hlive _ _ o' q Hin Hd).
        -- rewrite Ht. apply handle_op_names. exact I.
        -- intros j Hj. unfold l1. destruct data; [exact Hj|]. rewrite mem_ino_cons, Hj. apply orb_true_r.
        -- intros o'' q' Hin' Hd'. rewrite (step_writeat_fs w0 slot off data coin h Hh) in Hin'.
           destruct (write_at_dataops (wfs w0) h (N.to_nat off) data coin o'' Hin') as [W1 W2]. split.
           ++ destruct W1 as [X|(X & Y & Z)]; [left; exact X|right]. subst o''. apply data_op_path in Hd'. rewrite Hp in Hd'.
              split; [exact Hd'|]. unfold l1. destruct data; [congruence|]. rewrite mem_ino_cons, N.eqb_refl. reflexivity.
           ++ intros Hc Heq. subst q'. rewrite <- Hp in Hd'. rewrite W2 in Hd'; [discriminate|exact Hc|exact Hw|].
              rewrite Hp, (inv_fx _ _ _ HI). apply is_file_iff. eauto.
      * (* not writable *)
        assert (E1 : wfs (fst (step w0 (WriteAt slot off data coin))) = wfs w0).
        { rewrite (step_writeat_fs w0 slot off data coin h Hh). apply write_at_err. exact Hw. }
        assert (E2 : dirty_after d (fst (dstep d (WriteAt slot off data coin))) (gdirty gh) (WriteAt slot off data coin) (snd (dstep d (WriteAt slot off data coin))) = gdirty gh).
        { rewrite Hx. unfold dirty_after. cbn [sstep]. rewrite Hs, Esw. reflexivity. }
        rewrite E2. rewrite E1 in Hin. apply (DK o' q _ Hin Hd). intros; assumption.
  - (* Write *)
    destruct (HRel_cases _ _ slot HH) as [[Hh Hs]|(h & sh & Hh & Hs & Hrel)].
    + (* no handle *)
      assert (E1 : wfs (fst (step w0 (Write slot data coin))) = wfs w0) by (cbn [step]; rewrite Hh; reflexivity).
      assert (E2 : dirty_after d (fst (dstep d (Write slot data coin))) (gdirty gh) (Write slot data coin) (snd (dstep d (Write slot data coin))) = gdirty gh).
      { rewrite Hx. unfold dirty_after. cbn [sstep]. rewrite Hs. reflexivity. }
      rewrite E2. rewrite E1 in Hin. apply (DK o' q _ Hin Hd). intros; assumption.
    + pose proof (not_stale (dw d) slot sh Hs (stale_of_hyp _ d _ _ (Write slot data coin) slot eq_refl Hhyp)) as Hlive.
      destruct Hrel as (Hp & Hr & Hw & Ha & Hpos).
      destruct (sw sh) eqn:Esw.
      * set (l1 := match data with [] => gdirty gh | _ :: _ => sino sh :: gdirty gh end).
        assert (Edty : dirty_after d (fst (dstep d (Write slot data coin))) (gdirty gh) (Write slot data coin) (snd (dstep d (Write slot data coin))) =
                       if coin then del_ino (sino sh) l1 else l1).
        { rewrite Hx. unfold dirty_after. cbn [sstep]. rewrite Hs, Esw. cbn [negb snd is_err]. reflexivity. }
        rewrite Edty.
        refine (dirty_handle w0 d gh _ HI HG Hop Hhyp Hnc HI' (spath sh) (sino sh) coin l1 _ Hlive _ _ o' q Hin Hd).
        -- rewrite Ht. apply handle_op_names. exact I.
        -- intros j Hj. unfold l1. destruct data; [exact Hj|]. rewrite mem_ino_cons, Hj. apply orb_true_r.
        -- intros o'' q' Hin' Hd'. destruct (step_write_fs w0 slot data coin h Hh) as [off Eoff]. rewrite Eoff in Hin'.
           destruct (write_at_dataops (wfs w0) h off data coin o'' Hin') as [W1 W2]. split.
           ++ destruct W1 as [X|(X & Y & Z)]; [left; exact X|right]. subst o''. apply data_op_path in Hd'. rewrite Hp in Hd'.
              split; [exact Hd'|]. unfold l1. destruct data; [congruence|]. rewrite mem_ino_cons, N.eqb_refl. reflexivity.
           ++ intros Hc Heq. subst q'. rewrite <- Hp in Hd'. rewrite W2 in Hd'; [discriminate|exact Hc|exact Hw|].
              rewrite Hp, (inv_fx _ _ _ HI). apply is_file_iff. eauto.
      * (* not writable *)
        assert (E1 : wfs (fst (step w0 (Write slot data coin))) = wfs w0).
        { destruct (step_write_fs w0 slot data coin h Hh) as [off Eoff]. rewrite Eoff. apply write_at_err. exact Hw. }
        assert (E2 : dirty_after d (fst (dstep d (Write slot data coin))) (gdirty gh) (Write slot data coin) (snd (dstep d (Write slot data coin))) = gdirty gh).
        { rewrite Hx. unfold dirty_after. cbn [sstep]. rewrite Hs, Esw. reflexivity. }
        rewrite E2. rewrite E1 in Hin. apply (DK o' q _ Hin Hd). intros; assumption.
  - (* SetLen *)
    destruct (HRel_cases _ _ slot HH) as [[Hh Hs]|(h & sh & Hh & Hs & Hrel)].
    + assert (E1 : wfs (fst (step w0 (SetLen slot n coin))) = wfs w0) by (cbn [step]; rewrite Hh; reflexivity).
      assert (E2 : dirty_after d (fst (dstep d (SetLen slot n coin))) (gdirty gh) (SetLen slot n coin) (snd (dstep d (SetLen slot n coin))) = gdirty gh).
      { rewrite Hx. unfold dirty_after. cbn [sstep]. rewrite Hs. reflexivity. }
      rewrite E2. rewrite E1 in Hin. apply (DK o' q _ Hin Hd). intros; assumption.
    + pose proof (not_stale (dw d) slot sh Hs (stale_of_hyp _ d _ _ (SetLen slot n coin) slot eq_refl Hhyp)) as Hlive.
      destruct Hrel as (Hp & Hr & Hw & Ha & Hpos).
      pose proof (step_setlen_fs w0 slot n coin h Hh) as Efs. rewrite Hw in Efs.
      destruct (sw sh) eqn:Esw.
      * set (l1 := sino sh :: gdirty gh).
        assert (Edty : dirty_after d (fst (dstep d (SetLen slot n coin))) (gdirty gh) (SetLen slot n coin) (snd (dstep d (SetLen slot n coin))) =
                       if coin then del_ino (sino sh) l1 else l1).
        { rewrite Hx. unfold dirty_after. cbn [sstep]. rewrite Hs, Esw. cbn [negb snd is_err]. reflexivity. }
        rewrite Edty.
        refine (dirty_handle w0 d gh _ HI HG Hop Hhyp Hnc HI' (spath sh) (sino sh) coin l1 _ Hlive _ _ o' q Hin Hd).
        -- rewrite Ht. apply handle_op_names. exact I.
        -- intros j Hj. unfold l1. rewrite mem_ino_cons, Hj. apply orb_true_r.
        -- intros o'' q' Hin' Hd'. rewrite Efs in Hin'. cbv zeta in Hin'. rewrite Hp in Hin'.
           assert (Hnew : forall o3, In o3 (pending (push (wfs w0) (PSetLen (spath sh) (N.to_nat n)))) -> is_data_op q' o3 = true ->
                     In o3 (pending (wfs w0)) \/ (q' = spath sh /\ mem_ino (sino sh) l1 = true)).
           { intros o3 H3 Hd3. apply in_push in H3 as [H3|H3]; [left; exact H3|right]. subst o3. apply data_op_path' in Hd3.
             split; [exact Hd3|]. unfold l1. rewrite mem_ino_cons, N.eqb_refl. reflexivity. }
           destruct coin.
           ++ apply sync_file_dataops in Hin' as [A B]. split; [apply Hnew; assumption|]. intros _ Heq. subst q'.
              rewrite B in Hd'; [discriminate|]. rewrite file_exists_push. cbn [fx_step].
              rewrite (inv_fx _ _ _ HI). apply is_file_iff. eauto.
           ++ split; [apply Hnew; assumption|discriminate].
      * assert (E2 : dirty_after d (fst (dstep d (SetLen slot n coin))) (gdirty gh) (SetLen slot n coin) (snd (dstep d (SetLen slot n coin))) = gdirty gh).
        { rewrite Hx. unfold dirty_after. cbn [sstep]. rewrite Hs, Esw. reflexivity. }
        rewrite E2. rewrite Efs in Hin. apply (DK o' q _ Hin Hd). intros; assumption.
  - (* SyncAll *)
    destruct (HRel_cases _ _ slot HH) as [[Hh Hs]|(h & sh & Hh & Hs & Hrel)].
    + assert (E1 : wfs (fst (step w0 (SyncAll slot))) = wfs w0) by (cbn [step]; rewrite Hh; reflexivity).
      assert (E2 : dirty_after d (fst (dstep d (SyncAll slot))) (gdirty gh) (SyncAll slot) (snd (dstep d (SyncAll slot))) = gdirty gh).
      { rewrite Hx. unfold dirty_after. cbn [sstep]. rewrite Hs. reflexivity. }
      rewrite E2. rewrite E1 in Hin. apply (DK o' q _ Hin Hd). intros; assumption.
    + pose proof (not_stale (dw d) slot sh Hs (stale_of_hyp _ d _ _ (SyncAll slot) slot eq_refl Hhyp)) as Hlive.
      destruct Hrel as (Hp & Hr & Hw & Ha & Hpos).
      assert (Edty : dirty_after d (fst (dstep d (SyncAll slot))) (gdirty gh) (SyncAll slot) (snd (dstep d (SyncAll slot))) =
                     if true then del_ino (sino sh) (gdirty gh) else gdirty gh).
      { rewrite Hx. unfold dirty_after. cbn [sstep]. rewrite Hs. cbn [snd is_err]. reflexivity. }
      rewrite Edty.
      refine (dirty_handle w0 d gh _ HI HG Hop Hhyp Hnc HI' (spath sh) (sino sh) true (gdirty gh) _ Hlive _ _ o' q Hin Hd).
      * rewrite Ht. apply handle_op_names. exact I.
      * intros; assumption.
      * intros o'' q' Hin' Hd'. destruct (step_sync_fs w0 slot h Hh) as [E1 E2]. rewrite E1, Hp in Hin'.
        apply sync_file_dataops in Hin' as [A B]. split; [left; exact A|]. intros _ Heq. subst q'.
        rewrite B in Hd'; [discriminate|]. rewrite (inv_fx _ _ _ HI). apply is_file_iff. eauto.
  - (* SyncData *)
    destruct (HRel_cases _ _ slot HH) as [[Hh Hs]|(h & sh & Hh & Hs & Hrel)].
    + assert (E1 : wfs (fst (step w0 (SyncData slot))) = wfs w0) by (cbn [step]; rewrite Hh; reflexivity).
      assert (E2 : dirty_after d (fst (dstep d (SyncData slot))) (gdirty gh) (SyncData slot) (snd (dstep d (SyncData slot))) = gdirty gh).
      { rewrite Hx. unfold dirty_after. cbn [sstep]. rewrite Hs. reflexivity. }
      rewrite E2. rewrite E1 in Hin. apply (DK o' q _ Hin Hd). intros; assumption.
    + pose proof (not_stale (dw d) slot sh Hs (stale_of_hyp _ d _ _ (SyncData slot) slot eq_refl Hhyp)) as Hlive.
      destruct Hrel as (Hp & Hr & Hw & Ha & Hpos).
      assert (Edty : dirty_after d (fst (dstep d (SyncData slot))) (gdirty gh) (SyncData slot) (snd (dstep d (SyncData slot))) =
                     if true then del_ino (sino sh) (gdirty gh) else gdirty gh).
      { rewrite Hx. unfold dirty_after. cbn [sstep]. rewrite Hs. cbn [snd is_err]. reflexivity. }
      rewrite Edty.
      refine (dirty_handle w0 d gh _ HI HG Hop Hhyp Hnc HI' (spath sh) (sino sh) true (gdirty gh) _ Hlive _ _ o' q Hin Hd).
      * rewrite Ht. apply handle_op_names. exact I.
      * intros; assumption.
      * intros o'' q' Hin' Hd'. destruct (step_sync_fs w0 slot h Hh) as [E1 E2]. rewrite E2, Hp in Hin'.
        apply sync_file_dataops in Hin' as [A B]. split; [left; exact A|]. intros _ Heq. subst q'.
        rewrite B in Hd'; [discriminate|]. rewrite (inv_fx _ _ _ HI). apply is_file_iff. eauto.
  - (* Spit *)
    assert (Eobs : snd (step w0 (Spit p data coin)) =
                   match snd (open_file (wfs w0) p false true false true true false) with inl _ => OOk | inr e => OErr e end).
    { cbn [step]. destruct (open_file (wfs w0) p false true false true true false) as [s1 [h|e]]; [destruct data|]; reflexivity. }
    rewrite Eobs in Hobs.
    destruct (snd (open_file (wfs w0) p false true false true true false)) as [h|e] eqn:Eo.
    + (* success *)
      apply obs_ok_ok in Hobs. pose proof Hobs as Hx'. rewrite Hx in Hx'.
      destruct (sspit_ok _ _ _ _ Hx') as (i' & N1).
      destruct (open_file_ok _ _ _ _ _ _ _ _ _ Eo) as (P1 & P2 & P3). cbn [orb] in P2.
      set (l1 := i' :: gdirty gh).
      assert (Edty : dirty_after d (fst (dstep d (Spit p data coin))) (gdirty gh) (Spit p data coin) (snd (dstep d (Spit p data coin))) =
                     match data with [] => l1 | _ :: _ => if coin then del_ino i' l1 else l1 end).
      { unfold dirty_after. rewrite Hobs. cbn [is_err]. cbv beta iota zeta. rewrite Ht, N1. reflexivity. }
      rewrite Edty.
      (* the log after the open *)
      assert (Hopen : forall o3, In o3 (pending (fst (open_file (wfs w0) p false true false true true false))) ->
                is_data_op q o3 = true -> In o3 (pending (wfs w0)) \/ q = p).
      { intros o3 H3 Hd3. destruct (open_file_dataops _ _ _ _ _ _ _ _ _ H3) as [Hold|[Hcf|(Hsl & _)]]; [left; exact Hold| |].
        - subst o3. discriminate.
        - subst o3. right. apply data_op_path' in Hd3. exact Hd3. }
      assert (Hnew : q = p -> dirty_goal d gh (Spit p data coin) q l1).
      { intros ->. left. exists i'. rewrite Ht. split; [exact N1|]. unfold l1. rewrite mem_ino_cons, N.eqb_refl. reflexivity. }
      assert (Hsub1 : forall j, mem_ino j (gdirty gh) = true -> mem_ino j l1 = true).
      { intros j Hj. unfold l1. rewrite mem_ino_cons, Hj. apply orb_true_r. }
      destruct data as [|b data].
      * assert (Efs : wfs (fst (step w0 (Spit p [] coin))) = fst (open_file (wfs w0) p false true false true true false)).
        { cbn [step]. destruct (open_file (wfs w0) p false true false true true false) as [s1 [h0|e]]; [reflexivity|discriminate]. }
        rewrite Efs in Hin. destruct (Hopen o' Hin Hd) as [Hold|Hq]; [|apply Hnew; exact Hq].
        apply (DK o' q _ Hold Hd). intros j _ Hj _. apply Hsub1. exact Hj.
      * assert (Efs : wfs (fst (step w0 (Spit p (b :: data) coin))) =
                      fst (write_at (fst (open_file (wfs w0) p false true false true true false)) h 0 (b :: data) coin)).
        { cbn [step]. destruct (open_file (wfs w0) p false true false true true false) as [s1 [h0|e]]; [|discriminate].
          cbn [snd] in Eo. inversion Eo; subst h0. reflexivity. }
        rewrite Efs in Hin. destruct (write_at_dataops _ _ _ _ _ _ Hin) as [W1 W2]. rewrite P1 in *.
        destruct coin.
        -- (* synced at once: nothing is left on p *)
           assert (Hqp : q <> p).
           { intro; subst q. rewrite W2 in Hd; [discriminate|reflexivity|exact P2|exact P3]. }
           destruct W1 as [W1|(W1 & _)]; [|subst o'; apply data_op_path in Hd; congruence].
           destruct (Hopen o' W1 Hd) as [Hold|Hq]; [|congruence].
           apply (DK o' q _ Hold Hd). intros j _ Hj Hn'. rewrite mem_del_ino_other; [apply Hsub1; exact Hj|].
           intro; subst j. apply Hqp. rewrite Ht in Hn'. eapply (inv_inj _ _ _ HI'); [rewrite Ht; exact Hn'|rewrite Ht; exact N1].
        -- destruct W1 as [W1|(W1 & _)]; [|subst o'; apply data_op_path in Hd; apply Hnew; exact Hd].
           destruct (Hopen o' W1 Hd) as [Hold|Hq]; [|apply Hnew; exact Hq].
           apply (DK o' q _ Hold Hd). intros j _ Hj _. apply Hsub1. exact Hj.
    + (* failure: nothing moves *)
      assert (Efs : wfs (fst (step w0 (Spit p data coin))) = wfs w0).
      { cbn [step]. pose proof (open_file_err _ _ _ _ _ _ _ _ _ Eo) as X.
        destruct (open_file (wfs w0) p false true false true true false) as [s1 [h0|e0]]; [discriminate|]. exact X. }
      rewrite Efs in Hin.
      assert (Edty : dirty_after d (fst (dstep d (Spit p data coin))) (gdirty gh) (Spit p data coin) (snd (dstep d (Spit p data coin))) = gdirty gh).
      { unfold dirty_after. rewrite (obs_ok_is_err _ _ Hobs). reflexivity. }
      rewrite Edty. apply (DK o' q _ Hin Hd). intros; assumption.
  - (* Crash *) exfalso. eapply Hnc. reflexivity.
Qed.

(* ---- one step of a history that meets no known class ------------------------------------------------------ *)
Lemma GInv_crash s d gh : GInv s d gh -> forall s' d' gh', pending s' = [] -> gpren gh' = [] -> GInv s' d' gh'.
Proof.
  intros _ s' d' gh' Hp Hg. constructor; rewrite ?Hp, ?Hg.
  - intros f r. split; [intros []|intros [i []]].
  - intros i f r [].
  - intros o q [].
  - intros f r [].
Qed.

Lemma kstep_refines w d gh o :
  DInv w d (ggone gh) (ggdirs gh) -> GInv (wfs w) d gh ->
  c07r_op o = true -> kclasses d gh o = [] -> extra_excluded d gh o = false ->
  (forall dr, o = Crash dr -> dangling d = false) ->
  let d' := fst (dstep d o) in
  let gh' := kupdate d d' gh o (snd (dstep d o)) in
  DInv (fst (step w o)) d' (ggone gh') (ggdirs gh') /\ GInv (wfs (fst (step w o))) d' gh' /\
  obs_ok (snd (dstep d o)) (snd (step w o)).
Proof.
  intros HDI HG Hop Hk Hx Hdg. cbv zeta. pose proof HDI as (HI & HH & HD).
  pose proof (hyp_of_known (wfs w) d gh HI HD HG o Hop Hk Hx) as Hhyp.
  destruct (dstep_refines w d _ _ o HDI (c07r_c07 _ Hop) Hhyp Hdg) as [HDI' Hobs].
  destruct (ggone_kupdate d (fst (dstep d o)) gh o (snd (dstep d o)) (c07r_plain _ Hop)) as [Eg Egd].
  rewrite Eg, Egd. split; [exact HDI'|]. split; [|exact Hobs].
  destruct (gpren_kupdate d (fst (dstep d o)) gh o (snd (dstep d o))) as (Ep & Edy & Ert).
  destruct (match o with Crash _ => true | _ => false end) eqn:Hcr.
  - (* crash: nothing is pending *)
    destruct o; try discriminate. apply (GInv_crash _ _ _ HG); [reflexivity|]. rewrite Ep. reflexivity.
  - assert (Hnc : forall dr, o <> Crash dr) by (intros dr E; subst o; discriminate).
    destruct HDI' as (HI' & _ & _).
    constructor.
    + intros f r. rewrite Ep. apply (ginv_pren w d gh o HI HG Hop Hk Hhyp).
    + intros i f r Hin. rewrite Ep in Hin. rewrite Eg. apply (ginv_tgt w d gh o HG Hop Hhyp i f r Hnc Hin).
    + intros o' q Hin Hd. rewrite Edy, Eg, (gdirty_kupdate0 _ _ _ _ _ Hnc).
      apply (ginv_dirty_step o w d gh HI HH HG Hop Hhyp Hnc HI' Hobs o' q Hin Hd).
    + intros f r Hin. rewrite Ert. apply (ginv_rt w d gh o HI HG Hop Hk Hhyp f r Hin).
Qed.

Lemma GInv_init b : GInv (wfs (init_world b)) (init_dworld b) ghost0.
Proof.
  constructor; cbn.
  - intros f r. split; [intros []|intros [i []]].
  - intros i f r [].
  - intros o q [].
  - intros f r [].
Qed.

Lemma krun_refines : forall l w d gh,
  DInv w d (ggone gh) (ggdirs gh) -> GInv (wfs w) d gh ->
  forallb c07r_op l = true -> ksafe_from d gh l = true ->
  Forall2 obs_ok (snd (drun d l)) (snd (run w l)).
Proof.
  induction l as [|o l IH]; intros w d gh HDI HG Hal Hs; cbn [drun run].
  - constructor.
  - cbn in Hal. apply andb_true_iff in Hal as [Ho Hal].
    cbn [ksafe_from] in Hs. destruct (dstep d o) as [d1 y] eqn:Es.
    apply andb_true_iff in Hs as [Hs Hs4]. apply andb_true_iff in Hs as [Hs Hs3].
    apply andb_true_iff in Hs as [Hs1 Hs2]. apply is_nil_nil in Hs1. apply negb_true_iff in Hs2.
    assert (Hdg : forall dr, o = Crash dr -> dangling d = false).
    { intros dr E. subst o. apply negb_true_iff in Hs3. exact Hs3. }
    destruct (kstep_refines w d gh o HDI HG Ho Hs1 Hs2 Hdg) as (HDI' & HG' & Hobs).
    rewrite Es in HDI', HG', Hobs. cbn [fst snd] in *.
    destruct (step w o) as [w1 x] eqn:Ew. cbn [fst snd] in *.
    specialize (IH w1 d1 _ HDI' HG' Hal Hs4).
    destruct (drun d1 l) as [d2 ys]. destruct (run w1 l) as [w2 xs]. cbn [fst snd] in *.
    constructor; assumption.
Qed.

Theorem crash_image_known : forall bs l,
  forallb c07r_op l = true -> ksafe bs l = true ->
  Forall2 obs_ok (snd (drun (init_dworld bs) l)) (snd (run (init_world bs) l)).
Proof.
  intros bs l Hal Hs. apply (krun_refines l _ _ ghost0); [apply DInv_init|apply GInv_init|exact Hal|exact Hs].
Qed.

(* ---- without a crash the durable run is the plain reference run (C10) ---------------------------------- *)

Lemma drun_srun : forall l d, forallb c10r_op l = true -> snd (drun d l) = snd (srun (dw d) l).
Proof.
  induction l as [|o l IH]; intros d Hal; cbn [drun srun]; [reflexivity|].
  cbn in Hal. apply andb_true_iff in Hal as [Ho Hal].
  assert (Hnc : forall dr, o <> Crash dr) by (intros dr E; subst o; discriminate).
  destruct (dstep_tree d o Hnc) as [Ht Hx].
  destruct (dstep d o) as [d1 y]. destruct (sstep (dw d) o) as [t1 y']. cbn [fst snd] in *. subst y' t1.
  pose proof (IH d1 Hal) as E. destruct (drun d1 l) as [d2 ys]. destruct (srun (dw d1) l) as [t2 ys']. cbn [snd] in *.
  subst ys'. reflexivity.
Qed.

Lemma c10r_c07r l : forallb c10r_op l = true -> forallb c07r_op l = true.
Proof.
  rewrite !forallb_forall. intros H o Ho. specialize (H o Ho). destruct o; try exact H; discriminate.
Qed.

Theorem refines_known : forall l,
  forallb c10r_op l = true -> ksafe 0 l = true ->
  Forall2 obs_ok (snd (srun init_sworld l)) (snd (run (init_world 0) l)).
Proof.
  intros l Hal Hs. pose proof (crash_image_known 0 l (c10r_c07r l Hal) Hs) as H.
  rewrite (drun_srun l (init_dworld 0) Hal) in H. exact H.
Qed.

Print Assumptions crash_image_known.
Print Assumptions refines_known.
