(* GENERATED placeholder; rewritten by the check *)
From Coq Require Import NArith.
Open Scope N_scope.
