(* TV.Ports.Model — executable model of the per-host port tables of
   crates/turmoil/src/host.rs.  No proofs in this file.

   Correspondence of names:
     udp_assigned   = Udp::is_port_assigned
     tcp_assigned   = Tcp::is_port_assigned      (listener binds OR stream local ports)
     assign         = Host::assign_ephemeral_port (None = panic "ports exhausted")
     step UdpBind   = net/udp.rs UdpSocket::bind + Udp::bind   (port 0 = ephemeral)
     step UdpDrop   = Drop for UdpSocket -> Udp::unbind
     step TcpBind   = net/tcp/listener.rs TcpListener::bind + Tcp::bind
     step TcpDrop   = Drop for TcpListener -> Tcp::unbind
     step BindBadAddr = the AddrNotAvailable exit of both binds (address neither
                      unspecified nor loopback), taken before any assignment
     step Connect   = net/tcp/stream.rs TcpStream::connect up to the first await:
                      assign_ephemeral_port + Tcp::new_stream
     step ConnectOk / ConnectErr / ConnectCancel
                    = the connect future returning Ok / returning Err / being
                      dropped while pending (ConnectGuard -> Tcp::reset_stream)
     step Accepted  = TcpListener::accept returning a stream: Tcp::new_stream with
                      the listener's port as local port and the SYN's origin as peer
     step CloseHalf = Tcp::close_stream_half (drop of a read or write half)
     step Reset     = Tcp::reset_stream / a received RST
     step Crash     = Sim::crash: every socket object of the host is dropped
   The network (which SYN reaches which listener, when a connect completes) is
   not part of this model: those are events, and the theorems hold for every
   sequence of them.  An address is a number (host index, or a code for
   loopback); a stream is keyed by (local port, remote address, remote port),
   the local address being determined by the remote one. *)
From TV.Lib Require Import Base.
Open Scope N_scope.

Inductive owner := Pending | Owned (halves : N).
Record stream := { s_lport : N; s_rip : N; s_rport : N; s_out : bool; s_own : owner;
                   s_cid : N (* ghost: names the connect future that registered the entry *) }.

Record host := {
  udp : list N;            (* Udp::binds keys *)
  tcp : list N;            (* Tcp::binds keys *)
  streams : list stream;   (* Tcp::sockets keys (+ ghost: direction, owner) *)
  cursor : N;              (* next_ephemeral_port *)
  lo : N; hi : N           (* ephemeral_ports *)
}.

Definition set_cursor h c :=
  {| udp := udp h; tcp := tcp h; streams := streams h; cursor := c; lo := lo h; hi := hi h |}.
Definition set_udp h l :=
  {| udp := l; tcp := tcp h; streams := streams h; cursor := cursor h; lo := lo h; hi := hi h |}.
Definition set_tcp h l :=
  {| udp := udp h; tcp := l; streams := streams h; cursor := cursor h; lo := lo h; hi := hi h |}.
Definition set_streams h l :=
  {| udp := udp h; tcp := tcp h; streams := l; cursor := cursor h; lo := lo h; hi := hi h |}.

Definition mem (p : N) (l : list N) : bool := existsb (N.eqb p) l.
Definition remove_port (p : N) (l : list N) : list N := filter (fun q => negb (q =? p)) l.

Definition udp_assigned (h : host) (p : N) : bool := mem p (udp h).
Definition tcp_assigned (h : host) (p : N) : bool :=
  mem p (tcp h) || existsb (fun s => s_lport s =? p) (streams h).
Definition in_use (h : host) (p : N) : bool := udp_assigned h p || tcp_assigned h p.

(* the "re-load / advance" step of the cursor *)
Definition advance (h : host) : N := if cursor h =? hi h then lo h else cursor h + 1.

(* `for _ in self.ephemeral_ports.clone()`: as many rounds as the range has ports *)
Definition range_len (h : host) : nat :=
  if lo h <=? hi h then N.to_nat (hi h - lo h + 1) else O.

Fixpoint assign_loop (fuel : nat) (h : host) : option N * host :=
  match fuel with
  | O => (None, h)                                   (* panic!("ports exhausted") *)
  | S f =>
      let ret := cursor h in
      let h' := set_cursor h (advance h) in
      if udp_assigned h ret || tcp_assigned h ret then assign_loop f h' else (Some ret, h')
  end.

Definition assign (h : host) : option N * host := assign_loop (range_len h) h.

Inductive ev :=
| UdpBind (p : N) | UdpDrop (p : N)
| TcpBind (p : N) | TcpDrop (p : N)
| BindBadAddr
| Connect (cid rip rport : N)
| ConnectOk (cid : N) | ConnectErr (cid : N) | ConnectCancel (cid : N)
| Accepted (lport rip rport : N)
| CloseHalf (lport rip rport : N)
| Reset (lport rip rport : N)
| Crash.

Inductive res := RPort (p : N) | RInUse | RExhausted | RNotAvail | RUnit | RBad.

Definition same_pair (l r p : N) (s : stream) : bool :=
  (s_lport s =? l) && (s_rip s =? r) && (s_rport s =? p).
Definition has_pair h l r p := existsb (same_pair l r p) (streams h).
Definition is_pending (s : stream) := match s_own s with Pending => true | _ => false end.
Definition pending_on (c : N) (s : stream) : bool := (s_cid s =? c) && s_out s && is_pending s.

Definition set_owner (s : stream) o :=
  {| s_lport := s_lport s; s_rip := s_rip s; s_rport := s_rport s; s_out := s_out s; s_own := o;
     s_cid := s_cid s |}.

(* Tcp::close_stream_half on one entry: None = entry removed *)
Definition close_half (s : stream) : option stream :=
  match s_own s with
  | Owned n => if n <=? 1 then None else Some (set_owner s (Owned (n - 1)))
  | Pending => Some s
  end.

Fixpoint map_filter {A B} (f : A -> option B) (l : list A) : list B :=
  match l with
  | [] => []
  | x :: r => match f x with Some y => y :: map_filter f r | None => map_filter f r end
  end.

Definition bind_udp (h : host) (p : N) : host * res :=
  if mem p (udp h) then (h, RInUse) else (set_udp h (udp h ++ [p]), RPort p).
Definition bind_tcp (h : host) (p : N) : host * res :=
  if mem p (tcp h) then (h, RInUse) else (set_tcp h (tcp h ++ [p]), RPort p).

Definition step (h : host) (e : ev) : host * res :=
  match e with
  | UdpBind 0 =>
      match assign h with
      | (Some p, h') => bind_udp h' p
      | (None, h') => (h', RExhausted)
      end
  | UdpBind p => bind_udp h p
  | UdpDrop p => (set_udp h (remove_port p (udp h)), RUnit)
  | TcpBind 0 =>
      match assign h with
      | (Some p, h') => bind_tcp h' p
      | (None, h') => (h', RExhausted)
      end
  | TcpBind p => bind_tcp h p
  | TcpDrop p => (set_tcp h (remove_port p (tcp h)), RUnit)
  | BindBadAddr => (h, RNotAvail)
  | Connect c rip rport =>
      match assign h with
      | (Some p, h') =>
          (set_streams h' (streams h' ++ [{| s_lport := p; s_rip := rip; s_rport := rport;
                                             s_out := true; s_own := Pending; s_cid := c |}]), RPort p)
      | (None, h') => (h', RExhausted)
      end
  | ConnectOk l =>
      (set_streams h (map (fun s => if pending_on l s then set_owner s (Owned 2) else s) (streams h)), RUnit)
  | ConnectErr l | ConnectCancel l =>
      (set_streams h (filter (fun s => negb (pending_on l s)) (streams h)), RUnit)
  | Accepted l r p =>
      if has_pair h l r p then (h, RBad)     (* assert!("is already connected") *)
      else (set_streams h (streams h ++ [{| s_lport := l; s_rip := r; s_rport := p;
                                            s_out := false; s_own := Owned 2; s_cid := 0 |}]), RUnit)
  | CloseHalf l r p =>
      (set_streams h (map_filter (fun s => if same_pair l r p s then close_half s else Some s) (streams h)), RUnit)
  | Reset l r p =>
      (set_streams h (filter (fun s => negb (same_pair l r p s)) (streams h)), RUnit)
  | Crash =>
      (* every UdpSocket, TcpListener, TcpStream half and pending connect future is dropped *)
      (set_streams (set_tcp (set_udp h []) []) [], RUnit)
  end.

Definition init (l u : N) : host :=
  {| udp := []; tcp := []; streams := []; cursor := l; lo := l; hi := u |}.

Fixpoint run (h : host) (es : list ev) : host * list res :=
  match es with
  | [] => (h, [])
  | e :: r => let '(h1, o) := step h e in let '(h2, os) := run h1 r in (h2, o :: os)
  end.

(* ------------------------------------------------------------------ *)
(* Several hosts sharing one configured range; events are tagged.      *)

(* DeliverRst src cid: the RST that the abandoned connect `cid` of host `src`
   (future dropped while pending, or its host crashed) sent to its peer arrives
   there (net/tcp/stream.rs ConnectGuard; host.rs Segment::Rst). *)
Inductive wev := At (h : nat) (e : ev) | Probe | DeliverRst (src : nat) (cid : N).

Definition enc_res (r : res) : N * N :=
  match r with
  | RPort p => (0, p) | RInUse => (1, 0) | RExhausted => (2, 0) | RNotAvail => (3, 0)
  | RUnit => (4, 0) | RBad => (5, 0)
  end.

(* what the verif-hooks listing shows for one host *)
Definition enc_host (h : host) : list N * list N * list (N * N * N) * N :=
  (udp h, tcp h, map (fun s => (s_lport s, s_rip s, s_rport s)) (streams h), cursor h).

Inductive wobs := ORes (r : N * N) | OTables (t : list (list N * list N * list (N * N * N) * N)).

Fixpoint upd_nth {A} (k : nat) (f : A -> A) (l : list A) : list A :=
  match l, k with
  | [], _ => []
  | x :: r, O => f x :: r
  | x :: r, S k' => x :: upd_nth k' f r
  end.

Definition loop_code : N := 99.

(* an RST in flight: (sending host, connect id, destination host, key of the peer's entry) *)
Definition rst := (nat * N * N * (N * N * N))%type.

Definition rst_of (k : nat) (s : stream) : rst :=
  let lo_ := s_rip s =? loop_code in
  (k, s_cid s, (if lo_ then N.of_nat k else s_rip s),
   (s_rport s, (if lo_ then loop_code else N.of_nat k), s_lport s)).

(* the pending connects an event abandons *)
Definition abandoned (k : nat) (h : host) (e : ev) : list rst :=
  match e with
  | ConnectCancel c => map (rst_of k) (filter (pending_on c) (streams h))
  | Crash => map (rst_of k) (filter (fun s => s_out s && is_pending s) (streams h))
  | _ => []
  end.

Fixpoint take_rst (src : nat) (cid : N) (l : list rst) : option rst * list rst :=
  match l with
  | [] => (None, [])
  | ((s, c, t, key) as x) :: r =>
      if Nat.eqb s src && (c =? cid) then (Some x, r)
      else let '(o, r') := take_rst src cid r in (o, x :: r')
  end.

Definition wstate := (list host * list rst)%type.

Definition wstep (ws : wstate) (e : wev) : wstate * wobs :=
  let '(w, rs) := ws in
  match e with
  | At k e' =>
      match nth_error w k with
      | Some h => let '(h', r) := step h e' in
                  ((upd_nth k (fun _ => h') w, rs ++ abandoned k h e'), ORes (enc_res r))
      | None => (ws, ORes (enc_res RBad))
      end
  | Probe => (ws, OTables (map enc_host w))
  | DeliverRst src cid =>
      match take_rst src cid rs with
      | (Some (_, _, t, (l, r, p)), rs') =>
          ((upd_nth (N.to_nat t) (fun h => fst (step h (Reset l r p))) w, rs'), ORes (enc_res RUnit))
      | (None, _) => (ws, ORes (enc_res RBad))
      end
  end.

Fixpoint wrun (ws : wstate) (es : list wev) : list wobs :=
  match es with
  | [] => []
  | e :: r => let '(ws', o) := wstep ws e in o :: wrun ws' r
  end.

Definition enc_wobs (o : wobs) : N * (N * N) * list (list N * list N * list (N * N * N) * N) :=
  match o with
  | ORes r => (0, r, [])
  | OTables t => (1, (0, 0), t)
  end.

Definition wrun_enc (n : nat) (l u : N) (es : list wev) :=
  map enc_wobs (wrun (repeat (init l u) n, []) es).
