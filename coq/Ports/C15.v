(* Property C15 — ports and simulated addresses are never handed out twice
   while in use.  This file only states the theorems and closes them with the
   lemmas of C15_proofs.v / Dns_proofs.v; see DESIGN.md section 5 (C15). *)
From TV.Lib Require Import Base.
From TV.Ports Require Import Gen Model Dns C15_proofs Dns_proofs.
Open Scope N_scope.

(* ---- Host::assign_ephemeral_port -------------------------------------- *)

(* An assigned port lies in the configured range and is used by neither
   protocol: no UDP bind, no TCP listener bind, no TCP stream local port.  The
   tables are left alone and the cursor stays inside the range. *)
Theorem assign_sound : forall h p h',
  lo h <= cursor h <= hi h ->
  assign h = (Some p, h') ->
  lo h <= p <= hi h /\ udp_assigned h p = false /\ tcp_assigned h p = false /\
  udp h' = udp h /\ tcp h' = tcp h /\ streams h' = streams h /\
  lo h' <= cursor h' <= hi h'.
Proof.
  intros h p h' W E. destruct (assign_sound_lemma h p h' W E) as (A & B & C & D & (S1 & S2 & S3 & S4 & S5) & W').
  unfold wfh in W'. rewrite S4, S5 in *. repeat split; try assumption; apply W'.
Qed.

(* "ports exhausted" (None) only if every port of the range is in use; the
   cursor is then back where it was. *)
Theorem assign_complete : forall h h',
  lo h <= cursor h <= hi h ->
  assign h = (None, h') ->
  (forall p, lo h <= p <= hi h -> in_use h p = true) /\ cursor h' = cursor h.
Proof. intros h h' W E. destruct (assign_complete_lemma h h' W E) as (A & _ & C). auto. Qed.

(* The result is the first free port in cyclic order from the cursor, and the
   cursor is left just behind it. *)
Theorem assign_first_free : forall h p h',
  assign h = (Some p, h') ->
  exists k, (k < range_len h)%nat /\ p = cursor (walk k h) /\
            (forall j, (j < k)%nat -> in_use h (cursor (walk j h)) = true) /\ h' = walk (S k) h.
Proof. exact assign_first_free_lemma. Qed.

(* ---- explicit binds: one port space per protocol ----------------------- *)

(* Binding a fixed port fails with AddrInUse exactly when the same protocol
   has it bound; the other protocol's binds and the local ports of TCP streams
   (outgoing or accepted) do not matter. *)
Theorem bind_in_use : forall h p, p <> 0 ->
  (udp_assigned h p = true  -> step h (UdpBind p) = (h, RInUse)) /\
  (udp_assigned h p = false -> snd (step h (UdpBind p)) = RPort p) /\
  (mem p (tcp h) = true  -> step h (TcpBind p) = (h, RInUse)) /\
  (mem p (tcp h) = false -> snd (step h (TcpBind p)) = RPort p).
Proof.
  intros h p Hp. destruct (udp_bind_explicit_lemma h p Hp) as [A B].
  destruct (tcp_bind_explicit_lemma h p Hp) as [C D].
  repeat split; auto; intros H; [rewrite (B H)|rewrite (D H)]; reflexivity.
Qed.

(* ---- release ---------------------------------------------------------- *)

(* After the socket / listener is dropped its port is unbound in that protocol
   (nothing else changes); after a reset, a failed or cancelled connect, or
   both halves of a stream being dropped the stream entry is gone; after a
   crash no port of the host is in use.  A free port of the range is
   assignable: assign cannot fail while one exists. *)
Theorem release_frees : forall h,
  (forall p, udp_assigned (fst (step h (UdpDrop p))) p = false /\
             tcp (fst (step h (UdpDrop p))) = tcp h /\ streams (fst (step h (UdpDrop p))) = streams h) /\
  (forall p, mem p (tcp (fst (step h (TcpDrop p)))) = false /\
             udp (fst (step h (TcpDrop p))) = udp h /\ streams (fst (step h (TcpDrop p))) = streams h) /\
  (forall l r p, has_pair (fst (step h (Reset l r p))) l r p = false) /\
  (forall l, existsb (pending_on l) (streams (fst (step h (ConnectErr l)))) = false /\
             existsb (pending_on l) (streams (fst (step h (ConnectCancel l)))) = false) /\
  (forall l r p, (forall s, In s (streams h) -> same_pair l r p s = true -> s_own s = Owned 2) ->
             has_pair (fst (step (fst (step h (CloseHalf l r p))) (CloseHalf l r p))) l r p = false) /\
  (forall p, in_use (fst (step h Crash)) p = false) /\
  (forall p, lo h <= cursor h <= hi h -> lo h <= p <= hi h -> in_use h p = false ->
             exists q h', assign h = (Some q, h')).
Proof.
  intros h. repeat split.
  - apply udp_drop_lemma.
  - apply tcp_drop_lemma.
  - apply reset_lemma.
  - apply connect_end_lemma.
  - apply connect_end_lemma.
  - apply close_both_lemma.
  - intros p W. apply assign_progress_lemma, W.
Qed.

(* ---- every history ------------------------------------------------------ *)

(* For every sequence of bind / connect / accept / drop / reset / crash events
   on a host with any range l..u: each table holds a port at most once (UDP
   binds, TCP listener binds, local ports of outgoing streams), stream keys are
   unique, the cursor is in range; every port produced by an ephemeral request
   was, at that moment, in range and in use by neither protocol; and an
   ephemeral request panics only when the whole range is in use. *)
Theorem c15_no_collision : forall l u es, l <= u ->
  let h := fst (run (init l u) es) in
  NoDup (udp h) /\ NoDup (tcp h) /\
  NoDup (map s_lport (filter s_out (streams h))) /\ NoDup (map key (streams h)) /\
  l <= cursor h <= u /\
  forall e, ephemeral e = true ->
    (forall p, snd (step h e) = RPort p -> l <= p <= u /\ in_use h p = false) /\
    (snd (step h e) = RExhausted -> forall p, l <= p <= u -> in_use h p = true) /\
    ((exists p, snd (step h e) = RPort p) \/ snd (step h e) = RExhausted).
Proof.
  intros l u es Hlu h. pose proof (run_inv es (init l u) (inv_init l u Hlu)) as I. fold h in I.
  assert (L : lo h = l /\ hi h = u) by apply (run_range es (init l u)).
  destruct L as [L1 L2]. destruct I as [W U T O K]. pose proof W as W0. unfold wfh in W. rewrite L1, L2 in W.
  repeat split; try assumption; try apply W.
  - destruct (ephemeral_fresh_lemma h e p W0 H H0) as (A & _). now rewrite <- L1.
  - destruct (ephemeral_fresh_lemma h e p W0 H H0) as (_ & A & _). now rewrite <- L2.
  - destruct (ephemeral_fresh_lemma h e p W0 H H0) as (_ & _ & A). exact A.
  - intros R p Hp. apply (ephemeral_exhausted_lemma h e W0 H R). now rewrite L1, L2.
  - apply ephemeral_result; assumption.
Qed.

(* ---- names and addresses ----------------------------------------------- *)

(* A query keeps resolving to the address it got first, whatever lookups,
   reverse lookups and regex lookups happen in between. *)
Theorem dns_stable : forall v es0 q es,
  let d := dstate (dinit v) es0 in
  fst (lookup (dstate (snd (lookup d q)) es) q) = fst (lookup d q).
Proof.
  intros v es0 q es d. destruct (dstate_inv es0 (dinit v) (dinv_init v)) as [I _]. fold d in I.
  pose proof (dns_stable_lemma d q es I) as H. destruct (lookup d q). exact H.
Qed.

(* Different names have different addresses as long as no more names are
   registered than the subnet has addresses: 2^16 for IPv4 (192.168.a.b with
   a = (n >> 8) as u8), 2^64 for IPv6.  Beyond that the octet arithmetic
   truncates and [dns_guard_tight] shows the first address is handed out again. *)
Theorem dns_injective : forall v es n1 n2 a,
  let d := dstate (dinit v) es in
  N.of_nat (length (names d)) <= subnet_size v ->
  find_name n1 (names d) = Some a -> find_name n2 (names d) = Some a -> n1 = n2.
Proof.
  intros v es n1 n2 a d G F1 F2. destruct (dstate_inv es (dinit v) (dinv_init v)) as [I V]. fold d in I, V.
  cbn in V. rewrite <- V in G. eapply (dinv_injective d I G); apply find_name_In; eassumption.
Qed.

Theorem dns_guard_tight : forall v es n a,
  let d := dstate (dinit v) es in
  nth_error (names d) (N.to_nat (subnet_size v)) = Some (n, a) ->
  exists n0, nth_error (names d) 0 = Some (n0, a) /\ n0 <> n.
Proof.
  intros v es n a d H. destruct (dstate_inv es (dinit v) (dinv_init v)) as [I V]. fold d in I, V.
  cbn in V. rewrite <- V in H. exact (dinv_alias d I n a H).
Qed.

(* Looking a known name up returns its address and leaves the table AND the
   address counter exactly as they were: only a name seen for the first time
   consumes an address (however often the others are looked up). *)
Theorem dns_known_lookup_no_advance : forall d id a,
  find_name id (names d) = Some a -> lookup d (Name id) = (a, d).
Proof. exact lookup_name_known. Qed.

(* Reverse lookup inverts lookup (same guard). *)
Theorem dns_reverse : forall v es n,
  let d := dstate (dinit v) es in
  let '(a, d') := lookup d (Name n) in
  N.of_nat (length (names d')) <= subnet_size v -> reverse d' a = Some n.
Proof.
  intros v es n d. destruct (dstate_inv es (dinit v) (dinv_init v)) as [I V]. fold d in I, V.
  destruct (lookup_inv d (Name n) I) as [I' V'].
  pose proof (dns_stable_lemma d (Name n) [] I) as S.
  destruct (lookup d (Name n)) as [a d'] eqn:E. cbn [snd dstate] in *. intros G.
  apply dinv_reverse; [assumption|cbn in V; congruence|].
  cbn in S. destruct (find_name n (names d')) as [x|] eqn:F; cbn in S; [congruence|].
  exfalso. cbn in E. destruct (find_name n (names d)) eqn:F0.
  - injection E as <- <-. congruence.
  - injection E as <- <-. cbn in F. rewrite find_name_app, F0 in F. cbn in F. rewrite N.eqb_refl in F. discriminate.
Qed.

(* A regex lookup returns exactly the addresses of the registered names the
   predicate accepts, in registration order, and registers nothing. *)
Section Many.
  Variable P : N -> bool.
Theorem dns_lookup_many_filter : forall v es,
  let d := dstate (dinit v) es in
  lookup_many P d = (map snd (filter (fun na => P (fst na)) (names d)), d).
Proof.
  intros v es d. destruct (dstate_inv es (dinit v) (dinv_init v)) as [I _]. apply lookup_many_spec, I.
Qed.
End Many.

(* ---- constants re-read from the source on every run (Gen.v) -------------- *)

Example c15_consts :
  v4_prefix = v4_octet_a * 16777216 + v4_octet_b * 65536 /\
  v6_prefix = v6_group_0 * (two16 * two16 * two16 * two16 * two16 * two16 * two16) /\
  next (dinit V4) = v4_first_host /\ next (dinit V6) = v6_first_host /\
  default_ephemeral_lo <= default_ephemeral_hi /\ default_ephemeral_hi < two16.
Proof. vm_compute. repeat split; discriminate. Qed.

(* ---- non-vacuity ------------------------------------------------------- *)

(* A three-port range: a wildcard UDP bind and a listener take 50000/50001, an
   outgoing connect takes 50002, the next ephemeral request panics; after the
   UDP socket is dropped the cursor wraps and hands 50000 out again; explicit
   binds collide per protocol only. *)
Definition h_hist := [UdpBind 0; TcpBind 0; Connect 1 1 80; UdpBind 0; UdpDrop 50000; UdpBind 0;
                      TcpBind 50000; TcpBind 50002; UdpBind 50001; UdpBind 50000].
Example c15_nonvacuous :
  snd (run (init 50000 50002) h_hist) =
    [RPort 50000; RPort 50001; RPort 50002; RExhausted; RUnit; RPort 50000;
     RPort 50000; RPort 50002; RPort 50001; RInUse] /\
  drun (dinit V4) [DLookup (Name 7); DLookup (Name 9); DLookup (Name 7); DReverse 3232235522;
                   DMany [9; 7]; DLookup (Literal 5)] =
    [[3232235521]; [3232235522]; [3232235521]; [10]; [3232235521; 3232235522]; [5]] /\
  addr_of V4 1 = addr_of V4 65537 /\ addr_of V4 1 <> addr_of V4 65536.
Proof. vm_compute. repeat split; discriminate. Qed.

(* Streams accepted from one listener share its port as their local port: the
   tables hold that port several times.  After the listener and one of two
   accepted streams are gone, the port is still in use and the wrapping cursor
   skips it; once the last one is closed it is handed out again. *)
Definition h_shared := [TcpBind 0; Accepted 50000 1 50001; Accepted 50000 1 50002; TcpDrop 50000;
                        CloseHalf 50000 1 50001; CloseHalf 50000 1 50001;
                        UdpBind 0; UdpBind 0; UdpBind 0;
                        CloseHalf 50000 1 50002; CloseHalf 50000 1 50002; UdpBind 0].
Example c15_shared_listener_port :
  snd (run (init 50000 50002) h_shared) =
    [RPort 50000; RUnit; RUnit; RUnit; RUnit; RUnit;
     RPort 50001; RPort 50002; RExhausted; RUnit; RUnit; RPort 50000] /\
  tcp_assigned (fst (run (init 50000 50002) (firstn 6 h_shared))) 50000 = true.
Proof. vm_compute. split; reflexivity. Qed.

Check assign_sound : forall h p h', lo h <= cursor h <= hi h -> assign h = (Some p, h') ->
  lo h <= p <= hi h /\ udp_assigned h p = false /\ tcp_assigned h p = false /\
  udp h' = udp h /\ tcp h' = tcp h /\ streams h' = streams h /\ lo h' <= cursor h' <= hi h'.

Print Assumptions assign_sound.
Print Assumptions assign_complete.
Print Assumptions assign_first_free.
Print Assumptions bind_in_use.
Print Assumptions release_frees.
Print Assumptions c15_no_collision.
Print Assumptions dns_stable.
Print Assumptions dns_injective.
Print Assumptions dns_guard_tight.
Print Assumptions dns_reverse.
Print Assumptions dns_lookup_many_filter.
Print Assumptions dns_known_lookup_no_advance.
Print Assumptions c15_consts.
Print Assumptions c15_nonvacuous.
Print Assumptions c15_shared_listener_port.
