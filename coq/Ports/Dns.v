(* TV.Ports.Dns — executable model of crates/turmoil/src/dns.rs (struct Dns) and
   crates/turmoil/src/ip.rs (IpVersionAddrIter).  No proofs in this file.

     next_addr   = IpVersionAddrIter::next      (wrapping counter, octet arithmetic)
     lookup      = Dns::lookup via `impl ToIpAddr for &str` / `for IpAddr`
     reverse     = Dns::reverse                 (first name holding the address)
     lookup_many = `impl ToIpAddrs for Regex`   (the regex is an arbitrary predicate)
   String parsing is not modelled: a query is either a literal address or a
   name (a number standing for a string that does not parse as an address).
   Addresses are numbers: an IPv4 address is its u32, an IPv6 address its u128. *)
From TV.Lib Require Import Base.
Open Scope N_scope.

Inductive ipver := V4 | V6.
Inductive query := Literal (a : N) | Name (id : N).

Record dns := { ver : ipver; next : N; names : list (N * N) }.   (* (name id, address), insertion order *)

Definition two16 : N := 65536.
Definition two32 : N := 4294967296.
Definition two64 : N := 18446744073709551616.
Definition two128 : N := two64 * two64.

Definition v4_prefix : N := 3232235520.                (* 192.168.0.0 *)
Definition v6_prefix : N := 65152 * (two16 * two16 * two16 * two16 * two16 * two16 * two16). (* fe80:: *)

(* Ipv4Addr::new(192, 168, (host >> 8) as u8, (host & 0xFF) as u8) *)
Definition addr_v4 (host : N) : N :=
  let a := (host / 256) mod 256 in
  let b := host mod 256 in
  v4_prefix + a * 256 + b.

(* Ipv6Addr::new(0xfe80, 0, 0, 0, (host>>48)&0xffff, (host>>32)&0xffff, (host>>16)&0xffff, host&0xffff) *)
Definition addr_v6 (host : N) : N :=
  let a := (host / (two16 * two16 * two16)) mod two16 in
  let b := (host / (two16 * two16)) mod two16 in
  let c := (host / two16) mod two16 in
  let d := host mod two16 in
  v6_prefix + a * (two16 * two16 * two16) + b * (two16 * two16) + c * two16 + d.

Definition addr_of (v : ipver) (host : N) : N :=
  match v with V4 => addr_v4 host | V6 => addr_v6 host end.

(* the counter is a u32 / u128 with wrapping_add(1) *)
Definition wrap_of (v : ipver) : N := match v with V4 => two32 | V6 => two128 end.
(* number of distinct addresses the iterator can produce *)
Definition subnet_size (v : ipver) : N := match v with V4 => two16 | V6 => two64 end.

Definition next_addr (d : dns) : N * dns :=
  (addr_of (ver d) (next d),
   {| ver := ver d; next := (next d + 1) mod wrap_of (ver d); names := names d |}).

Fixpoint find_name (id : N) (l : list (N * N)) : option N :=
  match l with
  | [] => None
  | (n, a) :: r => if n =? id then Some a else find_name id r
  end.

Definition lookup (d : dns) (q : query) : N * dns :=
  match q with
  | Literal a => (a, d)
  | Name id =>
      match find_name id (names d) with
      | Some a => (a, d)
      | None =>
          let '(a, d') := next_addr d in
          (a, {| ver := ver d'; next := next d'; names := names d' ++ [(id, a)] |})
      end
  end.

Fixpoint find_addr (a : N) (l : list (N * N)) : option N :=
  match l with
  | [] => None
  | (n, x) :: r => if x =? a then Some n else find_addr a r
  end.

Definition reverse (d : dns) (a : N) : option N := find_addr a (names d).

(* every registered name the predicate accepts, in registration order; each is
   then looked up again (which cannot register anything new) *)
Definition lookup_many (P : N -> bool) (d : dns) : list N * dns :=
  let hosts := map fst (names d) in
  fold_left (fun acc id => let '(out, d1) := acc in
                           if P id then let '(a, d2) := lookup d1 (Name id) in (out ++ [a], d2)
                           else (out, d1))
            hosts ([], d).

Definition dinit (v : ipver) : dns := {| ver := v; next := 1; names := [] |}.

Inductive dev :=
| DLookup (q : query)
| DReverse (a : N)
| DMany (ids : list N).       (* the names a regex accepts, as a finite set *)

(* observations: list of addresses, or an optional name (0 = None, id+1) *)
Definition dstep (d : dns) (e : dev) : dns * list N :=
  match e with
  | DLookup q => let '(a, d') := lookup d q in (d', [a])
  | DReverse a => (d, [match reverse d a with Some n => n + 1 | None => 0 end])
  | DMany ids => let '(l, d') := lookup_many (fun id => existsb (N.eqb id) ids) d in (d', l)
  end.

Fixpoint drun (d : dns) (es : list dev) : list (list N) :=
  match es with
  | [] => []
  | e :: r => let '(d', o) := dstep d e in o :: drun d' r
  end.

Fixpoint dstate (d : dns) (es : list dev) : dns :=
  match es with
  | [] => d
  | e :: r => dstate (fst (dstep d e)) r
  end.

(* Plain-data encoding for the correspondence: an address is printed as four
   32-bit chunks (printing 128-bit numerals is slow), a reverse-lookup result
   as it is. *)
Definition enc_addr (a : N) : list N :=
  [a / (two32 * two32 * two32); (a / (two32 * two32)) mod two32; (a / two32) mod two32; a mod two32].

Definition mk_addr (a b c d : N) : N := ((a * two32 + b) * two32 + c) * two32 + d.

Fixpoint drun_out (d : dns) (es : list dev) : list (list (list N)) :=
  match es with
  | [] => []
  | e :: r =>
      let '(d', o) := dstep d e in
      (match e with DReverse _ => [o] | _ => map enc_addr o end) :: drun_out d' r
  end.

Definition drun_enc (v6 : bool) (es : list dev) : list (list (list N)) :=
  drun_out (dinit (if v6 then V6 else V4)) es.

(* registering the fresh names 0 .. n-1 in order, evaluated without building
   the intermediate states (used for the subnet-size witness) *)
Definition nth_fresh_addr (v : ipver) (k : N) : list N := enc_addr (addr_of v ((1 + k) mod wrap_of v)).
