(* Lemmas for property C15 over TV.Ports.Model. *)
From TV.Lib Require Import Base.
From TV.Ports Require Import Model.
Open Scope N_scope.

(* ---------------- small facts ---------------- *)

Lemma mem_In p l : mem p l = true <-> In p l.
Proof.
  unfold mem. rewrite existsb_exists. split.
  - intros (x & Hx & E). apply N.eqb_eq in E. now subst.
  - intros H. exists p. split; [assumption|apply N.eqb_refl].
Qed.

Lemma mem_false p l : mem p l = false <-> ~ In p l.
Proof. rewrite <- mem_In. destruct (mem p l); split; intros; try congruence; tauto. Qed.

Lemma remove_port_In q p l : In q (remove_port p l) <-> In q l /\ q <> p.
Proof.
  unfold remove_port. rewrite filter_In. rewrite Bool.negb_true_iff, N.eqb_neq. tauto.
Qed.

Lemma NoDup_remove_port p l : NoDup l -> NoDup (remove_port p l).
Proof. apply NoDup_filter. Qed.

Lemma NoDup_snoc {A} (x : A) l : NoDup l -> ~ In x l -> NoDup (l ++ [x]).
Proof.
  intros Hl Hx. apply NoDup_app_iff. repeat split; [assumption|repeat constructor; intros []|].
  intros y Hy [<-|[]]. contradiction.
Qed.

(* ---------------- the cursor walk ---------------- *)

Definition wfh (h : host) : Prop := lo h <= cursor h /\ cursor h <= hi h.

Fixpoint walk (k : nat) (h : host) : host :=
  match k with O => h | S k' => walk k' (set_cursor h (advance h)) end.

Definition same_tables (h h' : host) : Prop :=
  udp h' = udp h /\ tcp h' = tcp h /\ streams h' = streams h /\ lo h' = lo h /\ hi h' = hi h.

Lemma same_tables_refl h : same_tables h h.
Proof. repeat split. Qed.

Lemma same_tables_in_use h h' p : same_tables h h' -> in_use h' p = in_use h p.
Proof.
  intros (A & B & C & _). unfold in_use, udp_assigned, tcp_assigned. now rewrite A, B, C.
Qed.

Lemma walk_tables k : forall h, same_tables h (walk k h).
Proof.
  induction k as [|k IH]; intros h; cbn; [apply same_tables_refl|].
  destruct (IH (set_cursor h (advance h))) as (A & B & C & D & E). repeat split; assumption.
Qed.

Lemma advance_wf h : wfh h -> wfh (set_cursor h (advance h)).
Proof.
  unfold wfh, advance; cbn. intros [A B]. destruct (N.eqb_spec (cursor h) (hi h)); lia.
Qed.

Lemma walk_wf k : forall h, wfh h -> wfh (walk k h).
Proof. induction k; intros h H; cbn; [assumption|]. apply IHk, advance_wf, H. Qed.

Lemma walk_S k : forall h, walk (S k) h = set_cursor (walk k h) (advance (walk k h)).
Proof. induction k as [|k IH]; intros h; [reflexivity|]. change (walk (S (S k)) h) with (walk (S k) (set_cursor h (advance h))). now rewrite IH. Qed.

Lemma walk_add a : forall b h, walk (a + b) h = walk b (walk a h).
Proof. induction a as [|a IH]; intros b h; cbn; [reflexivity|]. apply IH. Qed.

(* going up: k steps from c while c + k <= hi *)
Lemma walk_up k : forall h, cursor h + N.of_nat k <= hi h -> cursor (walk k h) = cursor h + N.of_nat k.
Proof.
  induction k as [|k IH]; intros h H.
  - cbn. lia.
  - cbn [walk]. rewrite IH.
    + cbn. unfold advance. destruct (N.eqb_spec (cursor h) (hi h)); lia.
    + cbn. destruct (walk_tables 0 (set_cursor h (advance h))) as (_ & _ & _ & _ & _).
      unfold advance. destruct (N.eqb_spec (cursor h) (hi h)); lia.
Qed.

(* the step that wraps *)
Lemma walk_wrap h : wfh h -> cursor (walk (S (N.to_nat (hi h - cursor h))) h) = lo h.
Proof.
  intros [A B]. rewrite walk_S.
  pose proof (walk_up (N.to_nat (hi h - cursor h)) h) as U.
  rewrite N2Nat.id in U. specialize (U ltac:(lia)).
  destruct (walk_tables (N.to_nat (hi h - cursor h)) h) as (_ & _ & _ & L & Hh).
  cbn. unfold advance. rewrite U, Hh, L.
  replace (cursor h + (hi h - cursor h)) with (hi h) by lia. now rewrite N.eqb_refl.
Qed.

(* every port of the range is visited within range_len steps *)
Lemma walk_covers h p : wfh h -> lo h <= p <= hi h ->
  exists k, (k < range_len h)%nat /\ cursor (walk k h) = p.
Proof.
  intros W [A B]. pose proof W as [C D]. unfold range_len.
  assert (L : lo h <=? hi h = true) by (apply N.leb_le; lia). rewrite L.
  destruct (N.le_gt_cases (cursor h) p) as [G|G].
  - exists (N.to_nat (p - cursor h)). split; [lia|].
    rewrite walk_up; rewrite N2Nat.id; lia.
  - exists (S (N.to_nat (hi h - cursor h)) + N.to_nat (p - lo h))%nat. split; [lia|].
    rewrite walk_add.
    set (h1 := walk (S (N.to_nat (hi h - cursor h))) h).
    assert (C1 : cursor h1 = lo h) by (apply walk_wrap, W).
    destruct (walk_tables (S (N.to_nat (hi h - cursor h))) h) as (_ & _ & _ & L1 & H1).
    fold h1 in L1, H1.
    rewrite walk_up; rewrite N2Nat.id; lia.
Qed.

(* after a full round the cursor is back where it started *)
Lemma walk_full_round h : wfh h -> cursor (walk (range_len h) h) = cursor h.
Proof.
  intros W. pose proof W as [C D]. unfold range_len.
  assert (L : lo h <=? hi h = true) by (apply N.leb_le; lia). rewrite L.
  replace (N.to_nat (hi h - lo h + 1)) with (S (N.to_nat (hi h - cursor h)) + N.to_nat (cursor h - lo h))%nat by lia.
  rewrite walk_add.
  set (h1 := walk (S (N.to_nat (hi h - cursor h))) h).
  assert (C1 : cursor h1 = lo h) by (apply walk_wrap, W).
  destruct (walk_tables (S (N.to_nat (hi h - cursor h))) h) as (_ & _ & _ & L1 & H1).
  fold h1 in L1, H1.
  rewrite walk_up; rewrite N2Nat.id; lia.
Qed.

(* ---------------- assign ---------------- *)

Lemma in_use_set_cursor h c p : in_use (set_cursor h c) p = in_use h p.
Proof. reflexivity. Qed.

Lemma assign_loop_some f : forall h p h',
  assign_loop f h = (Some p, h') ->
  exists k, (k < f)%nat /\ p = cursor (walk k h) /\ in_use h p = false /\
            (forall j, (j < k)%nat -> in_use h (cursor (walk j h)) = true) /\
            h' = walk (S k) h.
Proof.
  induction f as [|f IH]; intros h p h' E; cbn in E; [discriminate|].
  fold (in_use h (cursor h)) in E.
  destruct (in_use h (cursor h)) eqn:U.
  - apply IH in E as (k & Hk & Hp & Hfree & Hbusy & Hh').
    exists (S k). split; [lia|]. split; [exact Hp|]. split; [exact Hfree|]. split; [|exact Hh'].
    intros [|j] Hj; [exact U|]. cbn [walk]. rewrite <- (in_use_set_cursor h (advance h)). apply Hbusy. lia.
  - injection E as <- <-. exists O. split; [lia|]. split; [reflexivity|]. split; [exact U|]. split; [intros j Hj; lia|reflexivity].
Qed.

Lemma assign_loop_none f : forall h h',
  assign_loop f h = (None, h') ->
  h' = walk f h /\ forall k, (k < f)%nat -> in_use h (cursor (walk k h)) = true.
Proof.
  induction f as [|f IH]; intros h h' E; cbn in E.
  - injection E as <-. split; [reflexivity|]. intros k Hk; lia.
  - fold (in_use h (cursor h)) in E. destruct (in_use h (cursor h)) eqn:U; [|discriminate].
    apply IH in E as [Hh' Hb]. split; [exact Hh'|].
    intros [|k] Hk; [exact U|]. cbn [walk]. rewrite <- (in_use_set_cursor h (advance h)). apply Hb. lia.
Qed.

Lemma assign_sound_lemma h p h' :
  wfh h -> assign h = (Some p, h') ->
  lo h <= p /\ p <= hi h /\ udp_assigned h p = false /\ tcp_assigned h p = false /\
  same_tables h h' /\ wfh h'.
Proof.
  intros W E. apply assign_loop_some in E as (k & _ & Hp & Hfree & _ & ->).
  pose proof (walk_wf k h W) as [A B]. destruct (walk_tables k h) as (_ & _ & _ & L & Hh).
  rewrite L, Hh in *. subst p. apply Bool.orb_false_iff in Hfree as [F1 F2].
  repeat split; try assumption; try apply walk_tables; apply (walk_wf (S k) h W).
Qed.

Lemma assign_complete_lemma h h' :
  wfh h -> assign h = (None, h') ->
  (forall p, lo h <= p <= hi h -> in_use h p = true) /\ same_tables h h' /\ cursor h' = cursor h.
Proof.
  intros W E. apply assign_loop_none in E as [-> Hb]. split; [|split].
  - intros p Hp. destruct (walk_covers h p W Hp) as (k & Hk & <-). apply Hb, Hk.
  - apply walk_tables.
  - apply walk_full_round, W.
Qed.

Lemma assign_progress_lemma h p :
  wfh h -> lo h <= p <= hi h -> in_use h p = false -> exists q h', assign h = (Some q, h').
Proof.
  intros W Hp F. destruct (assign h) as [[q|] h'] eqn:E; [eauto|].
  apply assign_complete_lemma in E as [A _]; [|assumption]. rewrite (A p Hp) in F. discriminate.
Qed.

(* assign returns the first free port in cyclic order from the cursor and
   leaves the cursor just behind it *)
Lemma assign_first_free_lemma h p h' :
  assign h = (Some p, h') ->
  exists k, (k < range_len h)%nat /\ p = cursor (walk k h) /\
            (forall j, (j < k)%nat -> in_use h (cursor (walk j h)) = true) /\ h' = walk (S k) h.
Proof.
  intros E. apply assign_loop_some in E as (k & A & B & _ & C & D). eauto.
Qed.

Lemma assign_same_tables h : same_tables h (snd (assign h)).
Proof.
  destruct (assign h) as [[q|] h'] eqn:E; cbn.
  - apply assign_loop_some in E as (k & _ & _ & _ & _ & ->). apply walk_tables.
  - apply assign_loop_none in E as (-> & _). apply walk_tables.
Qed.

Lemma step_range h e : lo (fst (step h e)) = lo h /\ hi (fst (step h e)) = hi h.
Proof.
  pose proof (assign_same_tables h) as (_ & _ & _ & L & Hh).
  destruct e as [p|p|p|p| |c rip rport|l|l|l|l r p|l r p|l r p| ]; cbn [step]; try (cbn; auto; fail).
  - destruct p; [|unfold bind_udp; destruct (mem _ _); cbn; auto].
    destruct (assign h) as [[q|] h']; cbn in *; [|auto]. unfold bind_udp; destruct (mem _ _); cbn; auto.
  - destruct p; [|unfold bind_tcp; destruct (mem _ _); cbn; auto].
    destruct (assign h) as [[q|] h']; cbn in *; [|auto]. unfold bind_tcp; destruct (mem _ _); cbn; auto.
  - destruct (assign h) as [[q|] h']; cbn in *; auto.
  - destruct (has_pair h l r p); cbn; auto.
Qed.

Lemma run_range es : forall h, lo (fst (run h es)) = lo h /\ hi (fst (run h es)) = hi h.
Proof.
  induction es as [|e es IH]; intros h; cbn; [auto|].
  pose proof (step_range h e) as S. destruct (step h e) as [h1 o]. cbn in S.
  specialize (IH h1). destruct (run h1 es) as [h2 os]. cbn in *. destruct S, IH. split; congruence.
Qed.

(* ---------------- the invariant ---------------- *)

Definition key (s : stream) : N * N * N := (s_lport s, s_rip s, s_rport s).

Record Inv (h : host) : Prop := {
  inv_wf : wfh h;
  inv_udp : NoDup (udp h);
  inv_tcp : NoDup (tcp h);
  inv_out : NoDup (map s_lport (filter s_out (streams h)));
  inv_keys : NoDup (map key (streams h))
}.

Lemma inv_init l u : l <= u -> Inv (init l u).
Proof. intros H. split; cbn; try constructor; unfold wfh; cbn; lia. Qed.

Lemma tcp_assigned_false_streams h p :
  tcp_assigned h p = false -> forall s, In s (streams h) -> s_lport s <> p.
Proof.
  unfold tcp_assigned. intros H s Hs E. apply Bool.orb_false_iff in H as [_ H].
  assert (existsb (fun s => s_lport s =? p) (streams h) = true); [|congruence].
  apply existsb_exists. exists s. split; [assumption|]. now apply N.eqb_eq.
Qed.

Lemma same_pair_key l r p s : same_pair l r p s = true <-> key s = (l, r, p).
Proof.
  unfold same_pair, key. rewrite !Bool.andb_true_iff, !N.eqb_eq. split.
  - intros [[-> ->] ->]. reflexivity.
  - intros E. injection E as -> -> ->. auto.
Qed.

Lemma has_pair_false h l r p : has_pair h l r p = false -> ~ In (l, r, p) (map key (streams h)).
Proof.
  unfold has_pair. intros H Hin. apply in_map_iff in Hin as (s & Hk & Hs).
  assert (existsb (same_pair l r p) (streams h) = true); [|congruence].
  apply existsb_exists. exists s. split; [assumption|]. now apply same_pair_key.
Qed.

Lemma NoDup_map_filter_sub {A B} (g : A -> B) (f : A -> bool) l :
  NoDup (map g l) -> NoDup (map g (filter f l)).
Proof.
  induction l as [|x l IH]; cbn; [auto|]. intros H. inversion H as [|? ? Hn Hd]; subst.
  destruct (f x); cbn; [constructor|]; auto.
  intro Hin. apply Hn. apply in_map_iff in Hin as (y & E & Hy). apply filter_In in Hy as [Hy _].
  apply in_map_iff. eauto.
Qed.

Lemma filter_filter_comm {A} (f g : A -> bool) l : filter f (filter g l) = filter g (filter f l).
Proof. rewrite !filter_filter. apply filter_ext. intros x. apply Bool.andb_comm. Qed.

Lemma map_filter_key_sub {A} (kf : stream -> A) (f : stream -> option stream) l :
  (forall s s', f s = Some s' -> kf s' = kf s) ->
  NoDup (map kf l) -> NoDup (map kf (map_filter f l)).
Proof.
  intros Hk. induction l as [|x l IH]; cbn; [auto|]. intros H. inversion H as [|? ? Hn Hd]; subst.
  destruct (f x) as [y|] eqn:E; cbn; [constructor|]; auto.
  rewrite (Hk _ _ E). intro Hin. apply Hn. clear - Hin Hk.
  induction l as [|z l IH]; cbn in *; [contradiction|].
  destruct (f z) as [z'|] eqn:E; cbn in Hin.
  - destruct Hin as [Hin|Hin]; [left; rewrite <- (Hk _ _ E); assumption|right; auto].
  - right; auto.
Qed.

Lemma map_filter_filter_out (f : stream -> option stream) l :
  (forall s s', f s = Some s' -> s_out s' = s_out s /\ s_lport s' = s_lport s) ->
  NoDup (map s_lport (filter s_out l)) -> NoDup (map s_lport (filter s_out (map_filter f l))).
Proof.
  intros Hk. induction l as [|x l IH]; cbn; [auto|]. intros H.
  assert (Sub : forall q, In q (map s_lport (filter s_out (map_filter f l))) -> In q (map s_lport (filter s_out l))).
  { clear - Hk. induction l as [|z l IH]; cbn; [auto|]. intros q.
    destruct (f z) as [z'|] eqn:E; cbn.
    - destruct (Hk _ _ E) as [O P]. rewrite O. destruct (s_out z); cbn; [rewrite P|]; intuition.
    - destruct (s_out z); cbn; intuition. }
  destruct (f x) as [y|] eqn:E; cbn.
  - destruct (Hk _ _ E) as [O P]. rewrite O. destruct (s_out x); cbn in *; [|auto].
    inversion H as [|? ? Hn Hd]; subst. constructor; [rewrite P; intro Hin; apply Hn, Sub, Hin|auto].
  - destruct (s_out x); cbn in *; [inversion H; subst|]; auto.
Qed.

Lemma bind_udp_inv h p : Inv h -> Inv (fst (bind_udp h p)).
Proof.
  intros [W U T O K]. unfold bind_udp. destruct (mem p (udp h)) eqn:M; cbn; [split; assumption|].
  split; cbn; try assumption. apply NoDup_snoc; [assumption|now apply mem_false].
Qed.

Lemma bind_tcp_inv h p : Inv h -> Inv (fst (bind_tcp h p)).
Proof.
  intros [W U T O K]. unfold bind_tcp. destruct (mem p (tcp h)) eqn:M; cbn; [split; assumption|].
  split; cbn; try assumption. apply NoDup_snoc; [assumption|now apply mem_false].
Qed.

Lemma inv_same_tables h h' : Inv h -> same_tables h h' -> wfh h' -> Inv h'.
Proof.
  intros [W U T O K] (A & B & C & D & E) W'. split; [assumption|rewrite A|rewrite B|rewrite C|rewrite C]; assumption.
Qed.

Lemma step_inv h e : Inv h -> Inv (fst (step h e)).
Proof.
  intros I. pose proof I as [W U T O K].
  destruct e as [p|p|p|p| |c rip rport|l|l|l|l r p|l r p|l r p| ]; cbn [step].
  - (* UdpBind *)
    destruct p as [|p'].
    + destruct (assign h) as [[q|] h'] eqn:E.
      * apply assign_sound_lemma in E as (_ & _ & _ & _ & S & W'); [|assumption].
        apply bind_udp_inv. eapply inv_same_tables; eassumption.
      * apply assign_complete_lemma in E as (_ & S & C); [|assumption]. cbn.
        eapply inv_same_tables; [eassumption|assumption|].
        destruct S as (_ & _ & _ & L & Hh). unfold wfh. rewrite C, L, Hh. exact W.
    + apply bind_udp_inv, I.
  - cbn. split; cbn; try assumption. apply NoDup_remove_port, U.
  - (* TcpBind *)
    destruct p as [|p'].
    + destruct (assign h) as [[q|] h'] eqn:E.
      * apply assign_sound_lemma in E as (_ & _ & _ & _ & S & W'); [|assumption].
        apply bind_tcp_inv. eapply inv_same_tables; eassumption.
      * apply assign_complete_lemma in E as (_ & S & C); [|assumption]. cbn.
        eapply inv_same_tables; [eassumption|assumption|].
        destruct S as (_ & _ & _ & L & Hh). unfold wfh. rewrite C, L, Hh. exact W.
    + apply bind_tcp_inv, I.
  - cbn. split; cbn; try assumption. apply NoDup_remove_port, T.
  - cbn. exact I.
  - (* Connect *)
    destruct (assign h) as [[q|] h'] eqn:E.
    + apply assign_sound_lemma in E as (_ & _ & _ & Ft & S & W'); [|assumption].
      pose proof (inv_same_tables h h' I S W') as [W2 U2 T2 O2 K2].
      destruct S as (A & B & C & D & E').
      pose proof (tcp_assigned_false_streams h q Ft) as Fs. rewrite <- C in Fs.
      cbn. split; cbn; try assumption.
      * rewrite filter_app, map_app. cbn. apply NoDup_snoc; [assumption|].
        intro Hin. apply in_map_iff in Hin as (s & Es & Hs). apply filter_In in Hs as [Hs _].
        exact (Fs s Hs Es).
      * rewrite map_app. cbn. apply NoDup_snoc; [assumption|].
        intro Hin. apply in_map_iff in Hin as (s & Es & Hs). unfold key in Es.
        injection Es as Es _ _. exact (Fs s Hs Es).
    + apply assign_complete_lemma in E as (_ & S & C); [|assumption]. cbn.
      eapply inv_same_tables; [eassumption|assumption|].
      destruct S as (_ & _ & _ & L & Hh). unfold wfh. rewrite C, L, Hh. exact W.
  - (* ConnectOk *)
    cbn. split; cbn; try assumption.
    + replace (map s_lport (filter s_out (map (fun s => if pending_on l s then set_owner s (Owned 2) else s) (streams h))))
        with (map s_lport (filter s_out (streams h))); [assumption|].
      clear. induction (streams h) as [|s r IH]; cbn; [reflexivity|].
      destruct (pending_on l s); cbn; destruct (s_out s); cbn; now rewrite IH.
    + rewrite map_map. erewrite map_ext; [exact K|]. intros s. now destruct (pending_on l s).
  - cbn. split; cbn; try assumption.
    + rewrite filter_filter_comm. apply NoDup_map_filter_sub, O.
    + apply NoDup_map_filter_sub, K.
  - cbn. split; cbn; try assumption.
    + rewrite filter_filter_comm. apply NoDup_map_filter_sub, O.
    + apply NoDup_map_filter_sub, K.
  - (* Accepted *)
    destruct (has_pair h l r p) eqn:Hp; cbn; [exact I|]. split; cbn; try assumption.
    + rewrite filter_app, map_app. cbn. now rewrite app_nil_r.
    + rewrite map_app. cbn. apply NoDup_snoc; [assumption|]. now apply has_pair_false.
  - (* CloseHalf *)
    cbn. assert (Hk : forall s s', (if same_pair l r p s then close_half s else Some s) = Some s' ->
                         key s' = key s /\ s_out s' = s_out s /\ s_lport s' = s_lport s).
    { intros s s'. destruct (same_pair l r p s); [|intros [= <-]; auto].
      unfold close_half. destruct (s_own s) as [|n]; [intros [= <-]; auto|].
      destruct (n <=? 1); [discriminate|]. intros [= <-]. auto. }
    split; cbn; try assumption.
    + apply map_filter_filter_out; [|assumption]. intros s s' E. apply Hk in E. tauto.
    + apply map_filter_key_sub; [|assumption]. intros s s' E. apply Hk in E. tauto.
  - cbn. split; cbn; try assumption.
    + rewrite filter_filter_comm. apply NoDup_map_filter_sub, O.
    + apply NoDup_map_filter_sub, K.
  - cbn. split; cbn; try assumption; constructor.
Qed.

Lemma run_inv es : forall h, Inv h -> Inv (fst (run h es)).
Proof.
  induction es as [|e es IH]; intros h I; cbn; [assumption|].
  destruct (step h e) as [h1 o] eqn:E. pose proof (step_inv h e I) as I1. rewrite E in I1. cbn in I1.
  specialize (IH h1 I1). destruct (run h1 es) as [h2 os]. exact IH.
Qed.

(* ---------------- ephemeral results are fresh ---------------- *)

Definition ephemeral (e : ev) : bool :=
  match e with UdpBind 0 | TcpBind 0 | Connect _ _ _ => true | _ => false end.

Lemma ephemeral_fresh_lemma h e p :
  wfh h -> ephemeral e = true -> snd (step h e) = RPort p ->
  lo h <= p /\ p <= hi h /\ in_use h p = false.
Proof.
  intros W He R.
  assert (G : forall q h', assign h = (Some q, h') -> lo h <= q /\ q <= hi h /\ in_use h q = false).
  { intros q h' E. apply assign_sound_lemma in E as (A & B & C & D & _); [|assumption].
    unfold in_use. rewrite C, D. auto. }
  destruct e as [q|q|q|q| |c rip rport|l|l|l|l r q|l r q|l r q| ]; try discriminate; cbn [step] in R.
  - destruct q; [|discriminate]. destruct (assign h) as [[q|] h'] eqn:E; [|discriminate].
    unfold bind_udp in R. destruct (mem q (udp h')); [discriminate|]. cbn in R. injection R as <-. eauto.
  - destruct q; [|discriminate]. destruct (assign h) as [[q|] h'] eqn:E; [|discriminate].
    unfold bind_tcp in R. destruct (mem q (tcp h')); [discriminate|]. cbn in R. injection R as <-. eauto.
  - destruct (assign h) as [[q|] h'] eqn:E; [|discriminate]. cbn in R. injection R as <-. eauto.
Qed.

(* an ephemeral request fails (panic "ports exhausted") only when the whole range is in use *)
Lemma ephemeral_exhausted_lemma h e :
  wfh h -> ephemeral e = true -> snd (step h e) = RExhausted ->
  forall p, lo h <= p <= hi h -> in_use h p = true.
Proof.
  intros W He R.
  assert (G : forall h', assign h = (None, h') -> forall p, lo h <= p <= hi h -> in_use h p = true).
  { intros h' E. now apply assign_complete_lemma in E as (A & _). }
  destruct e as [q|q|q|q| |c rip rport|l|l|l|l r q|l r q|l r q| ]; try discriminate; cbn [step] in R.
  - destruct q; [|discriminate]. destruct (assign h) as [[q|] h'] eqn:E; [|eauto].
    unfold bind_udp in R. destruct (mem q (udp h')); discriminate.
  - destruct q; [|discriminate]. destruct (assign h) as [[q|] h'] eqn:E; [|eauto].
    unfold bind_tcp in R. destruct (mem q (tcp h')); discriminate.
  - destruct (assign h) as [[q|] h'] eqn:E; [discriminate|eauto].
Qed.

Lemma ephemeral_result h e :
  wfh h -> ephemeral e = true -> (exists p, snd (step h e) = RPort p) \/ snd (step h e) = RExhausted.
Proof.
  intros W He.
  destruct e as [q|q|q|q| |c rip rport|l|l|l|l r q|l r q|l r q| ]; try discriminate; cbn [step].
  - destruct q; [|discriminate]. destruct (assign h) as [[q|] h'] eqn:E; [|right; reflexivity].
    apply assign_sound_lemma in E as (_ & _ & C & _ & S & _); [|assumption].
    unfold bind_udp. destruct S as (A & _). unfold udp_assigned in C. rewrite A, C. left. cbn. eauto.
  - destruct q; [|discriminate]. destruct (assign h) as [[q|] h'] eqn:E; [|right; reflexivity].
    apply assign_sound_lemma in E as (_ & _ & _ & D & S & _); [|assumption].
    unfold bind_tcp. destruct S as (_ & B & _). unfold tcp_assigned in D. apply Bool.orb_false_iff in D as [D _].
    rewrite B, D. left. cbn. eauto.
  - destruct (assign h) as [[q|] h'] eqn:E; [left; cbn; eauto|right; reflexivity].
Qed.

(* ---------------- explicit binds ---------------- *)

Lemma udp_bind_explicit_lemma h p : p <> 0 ->
  (udp_assigned h p = true -> step h (UdpBind p) = (h, RInUse)) /\
  (udp_assigned h p = false -> step h (UdpBind p) = (set_udp h (udp h ++ [p]), RPort p)).
Proof.
  intros Hp. destruct p; [congruence|]. cbn [step]. unfold bind_udp, udp_assigned.
  split; intros ->; reflexivity.
Qed.

Lemma tcp_bind_explicit_lemma h p : p <> 0 ->
  (mem p (tcp h) = true -> step h (TcpBind p) = (h, RInUse)) /\
  (mem p (tcp h) = false -> step h (TcpBind p) = (set_tcp h (tcp h ++ [p]), RPort p)).
Proof.
  intros Hp. destruct p; [congruence|]. cbn [step]. unfold bind_tcp.
  split; intros ->; reflexivity.
Qed.

(* ---------------- release ---------------- *)

Lemma udp_drop_lemma h p :
  let h' := fst (step h (UdpDrop p)) in
  udp_assigned h' p = false /\ (forall q, q <> p -> udp_assigned h' q = udp_assigned h q) /\
  tcp h' = tcp h /\ streams h' = streams h /\ cursor h' = cursor h.
Proof.
  cbn. repeat split.
  - apply mem_false. rewrite remove_port_In. tauto.
  - intros q Hq. unfold udp_assigned; cbn.
    destruct (mem q (udp h)) eqn:M.
    + apply mem_In. apply remove_port_In. split; [now apply mem_In|assumption].
    + apply mem_false. rewrite remove_port_In. apply mem_false in M. tauto.
Qed.

Lemma tcp_drop_lemma h p :
  let h' := fst (step h (TcpDrop p)) in
  mem p (tcp h') = false /\ (forall q, q <> p -> mem q (tcp h') = mem q (tcp h)) /\
  udp h' = udp h /\ streams h' = streams h /\ cursor h' = cursor h.
Proof.
  cbn. repeat split.
  - apply mem_false. rewrite remove_port_In. tauto.
  - intros q Hq.
    destruct (mem q (tcp h)) eqn:M.
    + apply mem_In. apply remove_port_In. split; [now apply mem_In|assumption].
    + apply mem_false. rewrite remove_port_In. apply mem_false in M. tauto.
Qed.

Lemma existsb_filter_neg {A} (f : A -> bool) l : existsb f (filter (fun x => negb (f x)) l) = false.
Proof.
  induction l as [|x l IH]; cbn; [reflexivity|]. destruct (f x) eqn:E; cbn; [assumption|]. now rewrite E.
Qed.

Lemma reset_lemma h l r p : has_pair (fst (step h (Reset l r p))) l r p = false.
Proof. cbn. unfold has_pair; cbn. apply existsb_filter_neg. Qed.

Lemma connect_end_lemma h l :
  existsb (pending_on l) (streams (fst (step h (ConnectErr l)))) = false /\
  existsb (pending_on l) (streams (fst (step h (ConnectCancel l)))) = false.
Proof. cbn. split; apply existsb_filter_neg. Qed.

Lemma close_both_lemma h l r p :
  (forall s, In s (streams h) -> same_pair l r p s = true -> s_own s = Owned 2) ->
  has_pair (fst (step (fst (step h (CloseHalf l r p))) (CloseHalf l r p))) l r p = false.
Proof.
  cbn. unfold has_pair; cbn. induction (streams h) as [|s ss IH]; intros H; cbn; [reflexivity|].
  destruct (same_pair l r p s) eqn:E.
  - unfold close_half at 2. rewrite (H s (or_introl eq_refl) E). cbn.
    assert (E' : same_pair l r p (set_owner s (Owned 1)) = true) by exact E. rewrite E'. cbn.
    apply IH. intros; apply H; [right|]; assumption.
  - cbn. rewrite E. cbn. rewrite E. cbn. apply IH. intros; apply H; [right|]; assumption.
Qed.

Lemma crash_lemma h p : in_use (fst (step h Crash)) p = false.
Proof. reflexivity. Qed.

(* a stream whose only user of port p is removed frees p for assignment *)
Lemma stream_release_frees h l r p :
  (forall s, In s (streams h) -> s_lport s = l -> same_pair l r p s = true) ->
  existsb (fun s => s_lport s =? l) (streams (fst (step h (Reset l r p)))) = false.
Proof.
  cbn. intros H. induction (streams h) as [|s ss IH]; cbn; [reflexivity|].
  destruct (same_pair l r p s) eqn:E; cbn.
  - apply IH. intros; apply H; [right|]; assumption.
  - destruct (N.eqb_spec (s_lport s) l) as [El|Nl].
    + rewrite (H s (or_introl eq_refl) El) in E. discriminate.
    + cbn. apply IH. intros; apply H; [right|]; assumption.
Qed.
