(* Lemmas about TV.Ports.Dns (name table and address iterator). *)
From TV.Lib Require Import Base.
From TV.Ports Require Import Dns.
Open Scope N_scope.
Local Arguments N.add : simpl never.
Local Arguments N.mul : simpl never.
Local Arguments N.modulo : simpl never.
Local Arguments N.div : simpl never.
Local Arguments N.of_nat : simpl never.

(* ---------------- the address arithmetic ---------------- *)

Lemma addr_v4_mod x : addr_v4 x = v4_prefix + x mod two16.
Proof.
  unfold addr_v4, two16. change 65536 with (256 * 256).
  rewrite (N.mod_mul_r x 256 256) by discriminate. lia.
Qed.

Lemma addr_v6_mod x : addr_v6 x = v6_prefix + x mod two64.
Proof.
  unfold addr_v6.
  assert (E : two64 = two16 * (two16 * (two16 * two16))) by reflexivity.
  rewrite E.
  rewrite (N.mod_mul_r x two16 (two16 * (two16 * two16))) by discriminate.
  rewrite (N.mod_mul_r (x / two16) two16 (two16 * two16)) by discriminate.
  rewrite (N.mod_mul_r (x / two16 / two16) two16 two16) by discriminate.
  rewrite !N.div_div by discriminate.
  replace (two16 * two16 * two16) with (two16 * (two16 * two16)) by lia.
  set (a := (x / (two16 * (two16 * two16))) mod two16).
  set (b := (x / (two16 * two16)) mod two16).
  set (c := (x / two16) mod two16).
  set (d := x mod two16). lia.
Qed.

Definition prefix_of (v : ipver) := match v with V4 => v4_prefix | V6 => v6_prefix end.

Lemma addr_of_mod v x : addr_of v x = prefix_of v + x mod subnet_size v.
Proof. destruct v; [apply addr_v4_mod|apply addr_v6_mod]. Qed.

Lemma subnet_lt_wrap v : subnet_size v + 1 < wrap_of v.
Proof. destruct v; vm_compute; reflexivity. Qed.

Lemma subnet_pos v : 0 < subnet_size v.
Proof. destruct v; vm_compute; reflexivity. Qed.

(* the addresses of the first [subnet_size] names are pairwise distinct *)
Lemma addr_of_inj v x y :
  1 <= x <= subnet_size v -> 1 <= y <= subnet_size v -> addr_of v x = addr_of v y -> x = y.
Proof.
  intros Hx Hy E. rewrite !addr_of_mod in E. pose proof (subnet_pos v) as P.
  assert (M : forall z, 1 <= z <= subnet_size v ->
              z mod subnet_size v = if z =? subnet_size v then 0 else z).
  { intros z Hz. destruct (N.eqb_spec z (subnet_size v)) as [->|Ne].
    - apply N.mod_same. lia.
    - apply N.mod_small. lia. }
  rewrite (M x Hx), (M y Hy) in E.
  destruct (N.eqb_spec x (subnet_size v)), (N.eqb_spec y (subnet_size v)); lia.
Qed.

(* one past the subnet size the first address comes back *)
Lemma addr_of_alias v : addr_of v (1 + subnet_size v) = addr_of v 1.
Proof.
  rewrite !addr_of_mod. f_equal. pose proof (subnet_pos v).
  replace (1 + subnet_size v) with (1 + 1 * subnet_size v) by lia.
  apply N.mod_add. lia.
Qed.

(* ---------------- table facts ---------------- *)

Lemma find_name_app id l1 l2 :
  find_name id (l1 ++ l2) = match find_name id l1 with Some a => Some a | None => find_name id l2 end.
Proof.
  induction l1 as [|[n a] l1 IH]; cbn; [reflexivity|]. destruct (n =? id); [reflexivity|exact IH].
Qed.

Lemma find_name_In id a l : find_name id l = Some a -> In (id, a) l.
Proof.
  induction l as [|[n x] l IH]; cbn; [discriminate|].
  destruct (N.eqb_spec n id) as [->|Ne]; [intros [= ->]; now left|auto].
Qed.

Lemma find_name_None id l : find_name id l = None <-> ~ In id (map fst l).
Proof.
  induction l as [|[n x] l IH]; cbn; [tauto|].
  destruct (N.eqb_spec n id) as [->|Ne]; [split; [discriminate|tauto]|]. rewrite IH. tauto.
Qed.

Lemma find_name_NoDup id a l : NoDup (map fst l) -> In (id, a) l -> find_name id l = Some a.
Proof.
  induction l as [|[n x] l IH]; cbn; [contradiction|]. intros H Hin.
  inversion H as [|? ? Hn Hd]; subst. destruct Hin as [[= -> ->]|Hin].
  - now rewrite N.eqb_refl.
  - destruct (N.eqb_spec n id) as [->|Ne]; [|auto].
    exfalso. apply Hn. apply in_map_iff. exists (id, a). auto.
Qed.

Lemma lookup_name_known d id a : find_name id (names d) = Some a -> lookup d (Name id) = (a, d).
Proof. intros E. cbn. now rewrite E. Qed.

Lemma lookup_names_grow d q : exists l, names (snd (lookup d q)) = names d ++ l.
Proof.
  destruct q as [a|id]; cbn; [exists []; now rewrite app_nil_r|].
  destruct (find_name id (names d)); cbn; [exists []; now rewrite app_nil_r|]. eauto.
Qed.

Lemma lookup_keeps d q id a :
  find_name id (names d) = Some a -> find_name id (names (snd (lookup d q))) = Some a.
Proof.
  intros E. destruct (lookup_names_grow d q) as [l ->]. rewrite find_name_app, E. reflexivity.
Qed.

(* ---------------- invariant ---------------- *)

Record DInv (d : dns) : Prop := {
  di_nodup : NoDup (map fst (names d));
  di_next : next d = (1 + N.of_nat (length (names d))) mod wrap_of (ver d);
  di_addr : forall i n a, nth_error (names d) i = Some (n, a) ->
                          a = addr_of (ver d) ((1 + N.of_nat i) mod wrap_of (ver d))
}.

Lemma dinv_init v : DInv (dinit v).
Proof.
  split; cbn; [constructor| |intros [|i] n a; discriminate].
  symmetry. apply N.mod_small. pose proof (subnet_lt_wrap v). pose proof (subnet_pos v). lia.
Qed.

Lemma wrap_pos v : wrap_of v <> 0.
Proof. destruct v; discriminate. Qed.

Lemma lookup_inv d q : DInv d -> DInv (snd (lookup d q)) /\ ver (snd (lookup d q)) = ver d.
Proof.
  intros [N1 N2 N3]. destruct q as [a|id]; cbn; [split; [split|]; auto|].
  destruct (find_name id (names d)) eqn:F; cbn; [split; [split|]; auto|].
  split; [|reflexivity]. split; cbn.
  - rewrite map_app. cbn. apply NoDup_app_iff. repeat split; [assumption|repeat constructor; intros []|].
    intros x Hx [<-|[]]. now apply find_name_None in F.
  - rewrite app_length. cbn. rewrite N2. rewrite N.add_mod_idemp_l by apply wrap_pos. f_equal. lia.
  - intros i n a H. destruct (Nat.lt_ge_cases i (length (names d))) as [L|G].
    + rewrite nth_error_app1 in H by assumption. eauto.
    + rewrite nth_error_app2 in H by assumption.
      destruct (i - length (names d))%nat as [|k] eqn:K; cbn in H; [|destruct k; discriminate].
      injection H as <- <-. rewrite N2. f_equal. f_equal. lia.
Qed.

Lemma lookup_many_spec (P : N -> bool) d :
  NoDup (map fst (names d)) ->
  lookup_many P d = (map snd (filter (fun na => P (fst na)) (names d)), d).
Proof.
  intros ND. unfold lookup_many.
  assert (G : forall l out, (forall na, In na l -> In na (names d)) ->
     fold_left (fun acc id => let '(out, d1) := acc in
                 if P id then let '(a, d2) := lookup d1 (Name id) in (out ++ [a], d2) else (out, d1))
               (map fst l) (out, d)
     = (out ++ map snd (filter (fun na => P (fst na)) l), d)).
  { induction l as [|[n a] l IH]; intros out Hl; cbn [map fold_left filter fst].
    - now rewrite app_nil_r.
    - destruct (P n) eqn:Pn.
      + rewrite (lookup_name_known d n a).
        * rewrite IH by (intros; apply Hl; now right). cbn. now rewrite <- app_assoc.
        * apply find_name_NoDup; [assumption|apply Hl; now left].
      + apply IH. intros; apply Hl; now right. }
  rewrite (G (names d) []); auto.
Qed.

Lemma dstep_inv d e : DInv d -> DInv (fst (dstep d e)) /\ ver (fst (dstep d e)) = ver d.
Proof.
  intros I. destruct e as [q|a|ids]; cbn.
  - pose proof (lookup_inv d q I) as H. destruct (lookup d q); exact H.
  - auto.
  - rewrite lookup_many_spec by apply I. cbn. auto.
Qed.

Lemma dstate_inv es : forall d, DInv d -> DInv (dstate d es) /\ ver (dstate d es) = ver d.
Proof.
  induction es as [|e es IH]; intros d I; cbn; [auto|].
  destruct (dstep_inv d e I) as [I1 V1]. destruct (IH _ I1) as [I2 V2]. split; [assumption|congruence].
Qed.

Lemma dstep_keeps d e id a :
  DInv d -> find_name id (names d) = Some a -> find_name id (names (fst (dstep d e))) = Some a.
Proof.
  intros I E. destruct e as [q|x|ids]; cbn.
  - pose proof (lookup_keeps d q id a E) as H. destruct (lookup d q); exact H.
  - exact E.
  - rewrite lookup_many_spec by apply I. exact E.
Qed.

Lemma dstate_keeps es : forall d id a,
  DInv d -> find_name id (names d) = Some a -> find_name id (names (dstate d es)) = Some a.
Proof.
  induction es as [|e es IH]; intros d id a I E; cbn; [exact E|].
  apply IH; [apply dstep_inv, I|apply dstep_keeps; assumption].
Qed.

(* ---------------- the properties ---------------- *)

Lemma dns_stable_lemma d q es : DInv d ->
  let '(a, d1) := lookup d q in fst (lookup (dstate d1 es) q) = a.
Proof.
  intros I. destruct q as [x|id]; cbn; [reflexivity|].
  destruct (find_name id (names d)) as [a|] eqn:F; cbn.
  - rewrite (dstate_keeps es d id a I F). reflexivity.
  - set (a := addr_of (ver d) (next d)).
    set (d1 := {| ver := ver d; next := (next d + 1) mod wrap_of (ver d); names := names d ++ [(id, a)] |}).
    assert (I1 : DInv d1).
    { pose proof (lookup_inv d (Name id) I) as [H _]. cbn in H. rewrite F in H. exact H. }
    assert (F1 : find_name id (names d1) = Some a).
    { cbn. rewrite find_name_app, F. cbn. now rewrite N.eqb_refl. }
    rewrite (dstate_keeps es d1 id a I1 F1). reflexivity.
Qed.

Lemma In_nth_error {A} (x : A) l : In x l -> exists i, nth_error l i = Some x /\ (i < length l)%nat.
Proof.
  intros H. apply In_nth_error in H as [i Hi]. exists i. split; [assumption|].
  apply nth_error_Some. congruence.
Qed.

Lemma NoDup_fst_nth {A B} (l : list (A * B)) i j x y b1 b2 :
  NoDup (map fst l) -> nth_error l i = Some (x, b1) -> nth_error l j = Some (y, b2) -> i <> j -> x <> y.
Proof.
  intros ND Hi Hj Ne E. subst y. rewrite NoDup_nth_error in ND. apply Ne, ND.
  - rewrite map_length. apply nth_error_Some. congruence.
  - rewrite !nth_error_map, Hi, Hj. reflexivity.
Qed.

Lemma dinv_injective d : DInv d -> N.of_nat (length (names d)) <= subnet_size (ver d) ->
  forall n1 n2 a, In (n1, a) (names d) -> In (n2, a) (names d) -> n1 = n2.
Proof.
  intros [N1 N2 N3] G n1 n2 a H1 H2.
  apply In_nth_error in H1 as (i & Hi & Li). apply In_nth_error in H2 as (j & Hj & Lj).
  pose proof (N3 _ _ _ Hi) as Ai. pose proof (N3 _ _ _ Hj) as Aj.
  pose proof (subnet_lt_wrap (ver d)) as SW.
  rewrite N.mod_small in Ai, Aj by lia.
  assert (E : 1 + N.of_nat i = 1 + N.of_nat j).
  { apply (addr_of_inj (ver d)); [lia|lia|congruence]. }
  assert (i = j) by lia. subst j. congruence.
Qed.

Lemma find_addr_first a n l :
  In (n, a) l -> (forall m, In (m, a) l -> m = n) -> find_addr a l = Some n.
Proof.
  induction l as [|[m x] l IH]; cbn; [contradiction|]. intros Hin U.
  destruct (N.eqb_spec x a) as [->|Ne].
  - f_equal. apply U. now left.
  - destruct Hin as [[= -> ->]|Hin]; [congruence|]. apply IH; [assumption|]. intros; apply U; now right.
Qed.

Lemma dinv_reverse d : DInv d -> N.of_nat (length (names d)) <= subnet_size (ver d) ->
  forall n a, find_name n (names d) = Some a -> reverse d a = Some n.
Proof.
  intros I G n a F. apply find_name_In in F. unfold reverse.
  apply find_addr_first; [assumption|]. intros m Hm. eapply dinv_injective; eassumption.
Qed.

(* the guard is tight: the name registered after [subnet_size] others gets the
   address of the first one *)
Lemma dinv_alias d : DInv d ->
  forall n a, nth_error (names d) (N.to_nat (subnet_size (ver d))) = Some (n, a) ->
  exists n0, nth_error (names d) 0 = Some (n0, a) /\ n0 <> n.
Proof.
  intros [N1 N2 N3] n a H. pose proof (subnet_pos (ver d)) as P. pose proof (subnet_lt_wrap (ver d)) as SW.
  destruct (names d) as [|[n0 a0] l] eqn:E.
  - destruct (N.to_nat (subnet_size (ver d))); discriminate.
  - exists n0. pose proof (N3 _ _ _ H) as A. pose proof (N3 O n0 a0 eq_refl) as A0.
    rewrite N2Nat.id in A. rewrite N.mod_small in A by lia. rewrite addr_of_alias in A.
    change (N.of_nat 0) with 0 in A0. rewrite N.add_0_r in A0. rewrite N.mod_small in A0 by lia. split; [cbn; congruence|].
    eapply (NoDup_fst_nth ((n0, a0) :: l) O (N.to_nat (subnet_size (ver d)))); try eassumption; [reflexivity|lia].
Qed.
