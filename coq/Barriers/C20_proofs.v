(* TV.Barriers.C20_proofs — lemmas for property C20. *)
From TV.Lib Require Import Base.
From Coq Require Import Sorted Permutation.
From TV.Barriers Require Import Model.
Open Scope N_scope.

Section WithV.
Variable V : Type.
Notation state := (state V).
Notation barrier := (barrier V).
Notation ev := (ev V).
Notation obs := (obs V).

(* ------------------------------------------------------------------ *)
(* registry well-formedness: ids are below the counter and distinct    *)

Record RegOk (s : state) : Prop := {
  rk_lt : forall x, In x (regs s) -> b_id x < nbid s;
  rk_nd : NoDup (map b_id (regs s));
  hk_lt : forall h, In h (handles s) -> h_id h < nhid s;
  hk_nd : NoDup (map h_id (handles s)) }.

Lemma regok_init : RegOk (init V).
Proof. constructor; cbn; intros; try contradiction; constructor. Qed.

Lemma upd_fifo_ids b f (l : list barrier) : map b_id (upd_fifo V b f l) = map b_id l.
Proof. induction l as [|x l IH]; cbn; [reflexivity|]. destruct (b_id x =? b); cbn; congruence. Qed.

Lemma upd_fifo_in b f (l : list barrier) y :
  In y (upd_fifo V b f l) -> exists x, In x l /\ b_id y = b_id x /\ b_cond y = b_cond x /\ b_react y = b_react x.
Proof.
  induction l as [|x l IH]; cbn; [contradiction|]. destruct (b_id x =? b); cbn.
  - intros [<-|H]; [exists x; cbn; auto|exists y; cbn; auto].
  - intros [<-|H]; [exists x; cbn; auto|]. destruct (IH H) as (z & Hz & E). exists z; cbn; auto.
Qed.

Lemma filter_ids_nodup {X} (f : X -> N) (p : X -> bool) l : NoDup (map f l) -> NoDup (map f (filter p l)).
Proof.
  induction l as [|x l IH]; cbn; intros H; [constructor|]. inversion H as [|? ? Hn Hd]; subst.
  destruct (p x); cbn; [constructor|]; auto.
  intro Hin. apply Hn. apply in_map_iff in Hin as (y & E & Hy). apply filter_In in Hy as [Hy _].
  rewrite <- E. now apply in_map.
Qed.

Lemma regok_same s s' :
  map b_id (regs s') = map b_id (regs s) -> nbid s' = nbid s -> handles s' = handles s -> nhid s' = nhid s ->
  RegOk s -> RegOk s'.
Proof.
  intros E1 E2 E3 E4 [A B C D]. constructor; rewrite ?E1, ?E2, ?E3, ?E4; auto.
  intros x Hx. apply (in_map b_id) in Hx. rewrite E1 in Hx. apply in_map_iff in Hx as (y & E & Hy).
  rewrite <- E. auto.
Qed.

(* ---- Abandon / Kill: senders of a vanished receiver become inert ---- *)
Definition inert_b (src : N) (b : barrier) : barrier := set_fifo V b (map (inert_entry V src) (b_fifo b)).

Lemma inert_regs_ids src (l : list barrier) : map b_id (map (inert_b src) l) = map b_id l.
Proof. rewrite map_map. reflexivity. Qed.

Lemma inert_handle_id src (h : handle V) : h_id (inert_handle V src h) = h_id h.
Proof. unfold inert_handle. destruct (h_rel h) as [k|]; [|reflexivity]. destruct (k =? src); reflexivity. Qed.

Lemma inert_handles_ids src (l : list (handle V)) : map h_id (map (inert_handle V src) l) = map h_id l.
Proof. rewrite map_map. apply map_ext. intros h. apply inert_handle_id. Qed.

Lemma get_barrier_inert src b (l : list barrier) :
  get_barrier V b (map (inert_b src) l) = option_map (inert_b src) (get_barrier V b l).
Proof. induction l as [|x l IH]; cbn; [reflexivity|]. destruct (b_id x =? b); [reflexivity|exact IH]. Qed.

Lemma regok_inert s src x : RegOk s -> RegOk (inert V s src x).
Proof.
  intros [A B C D]. constructor; cbn.
  - intros y Hy. apply in_map_iff in Hy as (z & <- & Hz). cbn. auto.
  - change (map (fun b => set_fifo V b (map (inert_entry V src) (b_fifo b))) (regs s)) with (map (inert_b src) (regs s)).
    now rewrite inert_regs_ids.
  - intros h Hh. apply in_map_iff in Hh as (z & <- & Hz). rewrite inert_handle_id. auto.
  - now rewrite inert_handles_ids.
Qed.

Lemma step_regok s e : RegOk s -> RegOk (fst (step V s e)).
Proof.
  intros OK. pose proof OK as [A B C D]. destruct e as [r c|src v|src v|b|h|b|k|k]; cbn;
    [| | | | | |destruct (sget (srcs s) k); try exact OK; now apply regok_inert|destruct (sget (srcs s) k); try exact OK; now apply regok_inert].
  - constructor; cbn; auto.
    + intros x Hx. apply in_app_or in Hx as [Hx|[<-|[]]]; [apply A in Hx; lia|cbn; lia].
    + rewrite map_app. cbn. apply NoDup_app_iff. split; [exact B|]. split; [repeat constructor; auto|].
      intros y Hy [<-|[]]. apply in_map_iff in Hy as (x & E & Hx). apply A in Hx. lia.
  - destruct (sget (srcs s) src); cbn; try exact OK.
    destruct (first_match V (regs s) v) as [x|]; cbn; [|eapply regok_same; [| | | |exact OK]; reflexivity].
    destruct (b_react x); cbn; (eapply regok_same; [| | | |exact OK]; cbn; rewrite ?upd_fifo_ids; reflexivity).
  - destruct (sget (srcs s) src); cbn; try exact OK.
    destruct (first_match V (regs s) v) as [x|]; cbn; [|eapply regok_same; [| | | |exact OK]; reflexivity].
    destruct (b_react x); cbn; (eapply regok_same; [| | | |exact OK]; cbn; rewrite ?upd_fifo_ids; reflexivity).
  - destruct (get_barrier V b (regs s)) as [x|]; cbn; [|exact OK].
    destruct (b_fifo x) as [|e rest]; cbn; [exact OK|]. constructor; cbn.
    + intros y Hy. apply upd_fifo_in in Hy as (z & Hz & E & _). rewrite E. auto.
    + rewrite upd_fifo_ids. exact B.
    + intros y Hy. apply in_app_or in Hy as [Hy|[<-|[]]]; [apply C in Hy; lia|cbn; lia].
    + rewrite map_app. cbn. apply NoDup_app_iff. split; [exact D|]. split; [repeat constructor; auto|].
      intros y Hy [<-|[]]. apply in_map_iff in Hy as (x' & E & Hx). apply C in Hx. lia.
  - destruct (get_handle V h (handles s)) as [x|]; cbn; [|exact OK]. constructor; cbn; auto.
    + intros y Hy. apply filter_In in Hy as [Hy _]. auto.
    + now apply filter_ids_nodup.
  - destruct (get_barrier V b (regs s)) as [x|]; cbn; [|exact OK]. constructor; cbn; auto.
    + intros y Hy. apply filter_In in Hy as [Hy _]. auto.
    + now apply filter_ids_nodup.
Qed.

Definition final (s : state) (es : list ev) : state := fst (run V s es).

Lemma final_cons s e es : final s (e :: es) = final (fst (step V s e)) es.
Proof.
  unfold final. cbn. destruct (step V s e) as [s1 o]. cbn. destruct (run V s1 es). reflexivity.
Qed.

Lemma run_regok es : forall s, RegOk s -> RegOk (final s es).
Proof.
  induction es as [|e es IH]; intros s H; [exact H|]. rewrite final_cons. apply IH. now apply step_regok.
Qed.

(* ------------------------------------------------------------------ *)
(* lookups                                                              *)

Lemma first_match_in (l : list barrier) v x : first_match V l v = Some x -> In x l /\ b_cond x v = true.
Proof.
  induction l as [|y l IH]; cbn; [discriminate|]. destruct (b_cond y v) eqn:E.
  - intros H. inversion H; subst. auto.
  - intros H. destruct (IH H). auto.
Qed.

Lemma get_barrier_in (l : list barrier) b x : get_barrier V b l = Some x -> In x l /\ b_id x = b.
Proof.
  induction l as [|y l IH]; cbn; [discriminate|]. destruct (b_id y =? b) eqn:E.
  - intros H. inversion H; subst. apply N.eqb_eq in E. auto.
  - intros H. destruct (IH H). auto.
Qed.

Lemma get_barrier_none (l : list barrier) b : get_barrier V b l = None -> forall x, In x l -> b_id x <> b.
Proof.
  induction l as [|y l IH]; cbn; [intros _ x []|]. destruct (b_id y =? b) eqn:E; [discriminate|].
  intros H x [<-|Hx]; [now apply N.eqb_neq|auto].
Qed.

Lemma get_barrier_unique (l : list barrier) x :
  NoDup (map b_id l) -> In x l -> get_barrier V (b_id x) l = Some x.
Proof.
  induction l as [|y l IH]; cbn; intros ND Hin; [contradiction|]. inversion ND as [|? ? Hn Hd]; subst.
  destruct Hin as [->|Hin]; [now rewrite N.eqb_refl|].
  destruct (b_id y =? b_id x) eqn:E; [|auto].
  apply N.eqb_eq in E. exfalso. apply Hn. rewrite E. now apply in_map.
Qed.

Lemma get_barrier_upd b b' f (l : list barrier) :
  get_barrier V b' (upd_fifo V b f l) =
  match get_barrier V b' l with
  | Some x => Some (if b =? b' then set_fifo V x (f (b_fifo x)) else x)
  | None => None
  end.
Proof.
  induction l as [|x l IH]; cbn; [reflexivity|].
  destruct (b_id x =? b) eqn:E1; cbn.
  - apply N.eqb_eq in E1. subst. destruct (b_id x =? b') eqn:E2; [reflexivity|].
    destruct (get_barrier V b' l); reflexivity.
  - destruct (b_id x =? b') eqn:E2.
    + apply N.eqb_eq in E2. subst. rewrite N.eqb_sym, E1. reflexivity.
    + exact IH.
Qed.

Lemma get_barrier_app b (l : list barrier) y :
  get_barrier V b (l ++ [y]) = match get_barrier V b l with Some x => Some x | None => if b_id y =? b then Some y else None end.
Proof. induction l as [|x l IH]; cbn; [reflexivity|]. destruct (b_id x =? b); auto. Qed.

Lemma get_barrier_filter b b' (l : list barrier) :
  get_barrier V b' (filter (fun y => negb (b_id y =? b)) l) = if b =? b' then None else get_barrier V b' l.
Proof.
  induction l as [|x l IH]; cbn; [now destruct (b =? b')|].
  destruct (b_id x =? b) eqn:E1; cbn.
  - apply N.eqb_eq in E1. subst. rewrite IH. destruct (b_id x =? b'); reflexivity.
  - rewrite IH. destruct (b_id x =? b') eqn:E2; [|reflexivity].
    apply N.eqb_eq in E2. subst. now rewrite N.eqb_sym, E1.
Qed.

Lemma sget_sset l a b x : sget (sset l a x) b = if a =? b then x else sget l b.
Proof.
  unfold sset. cbn. destruct (a =? b) eqn:E; [reflexivity|].
  induction l as [|[k y] l IH]; cbn; [reflexivity|].
  destruct (k =? a) eqn:E1; cbn.
  - apply N.eqb_eq in E1. subst. now rewrite E.
  - destruct (k =? b); auto.
Qed.

Lemma sget_release_all rs : forall l src,
  sget (release_all l rs) src = if existsb (N.eqb src) rs then Running else sget l src.
Proof.
  induction rs as [|r rs IH]; intros l src; cbn; [reflexivity|].
  unfold release_all in *. cbn. rewrite IH, sget_sset.
  destruct (existsb (N.eqb src) rs); [now rewrite orb_true_r|]. rewrite orb_false_r.
  rewrite (N.eqb_sym r src). destruct (src =? r); reflexivity.
Qed.

(* ------------------------------------------------------------------ *)
(* single-step facts: Noop, Panic, no match, Suspend                    *)

Definition is_trigger (e : ev) (src : N) (v : V) : Prop := e = Trigger src v \/ e = TriggerNoop src v.

Lemma noop_lemma s src v b e :
  is_trigger e src v -> sget (srcs s) src = Running ->
  first_match V (regs s) v = Some b -> b_react b = Noop ->
  let s' := fst (step V s e) in
  srcs s' = srcs s /\ sget (srcs s') src = Running /\ handles s' = handles s /\
  regs s' = upd_fifo V (b_id b) (fun f => f ++ [{| e_val := v; e_rel := None; e_tid := ntid s |}]) (regs s).
Proof.
  intros [->| ->] R M N; cbn -[sset sget rels]; rewrite R, M, N; cbn -[sset sget rels]; auto.
Qed.

Lemma panic_lemma s src v b e :
  is_trigger e src v -> sget (srcs s) src = Running ->
  first_match V (regs s) v = Some b ->
  (b_react b = Panic \/ (b_react b = Suspend /\ e = TriggerNoop src v)) ->
  let s' := fst (step V s e) in
  sget (srcs s') src = Panicked /\ regs s' = regs s /\ handles s' = handles s /\
  (forall k, k <> src -> sget (srcs s') k = sget (srcs s) k).
Proof.
  intros T R M [P|[P ->]].
  - destruct T as [->| ->]; cbn -[sset sget rels]; rewrite R, M, P; cbn -[sset sget rels]; rewrite sget_sset, N.eqb_refl; repeat split; auto;
      intros k Hk; rewrite sget_sset; destruct (src =? k) eqn:E; auto; apply N.eqb_eq in E; congruence.
  - cbn -[sset sget rels]. rewrite R, M, P. cbn -[sset sget rels]. rewrite sget_sset, N.eqb_refl. repeat split; auto.
    intros k Hk. rewrite sget_sset. destruct (src =? k) eqn:E; auto. apply N.eqb_eq in E; congruence.
Qed.

Lemma no_match_lemma s src v e :
  is_trigger e src v -> first_match V (regs s) v = None ->
  let s' := fst (step V s e) in
  regs s' = regs s /\ srcs s' = srcs s /\ handles s' = handles s.
Proof.
  intros [->| ->] M; cbn -[sset sget rels]; rewrite M; destruct (sget (srcs s) src); cbn -[sset sget rels]; auto.
Qed.

Lemma suspend_lemma s src v b :
  sget (srcs s) src = Running -> first_match V (regs s) v = Some b -> b_react b = Suspend ->
  let s' := fst (step V s (Trigger src v)) in
  sget (srcs s') src = Suspended /\
  (forall k, k <> src -> sget (srcs s') k = sget (srcs s) k) /\
  handles s' = handles s /\
  regs s' = upd_fifo V (b_id b) (fun f => f ++ [{| e_val := v; e_rel := Some src; e_tid := ntid s |}]) (regs s).
Proof.
  intros R M S. cbn -[sset sget rels]. rewrite R, M, S. cbn -[sset sget rels]. rewrite sget_sset, N.eqb_refl. repeat split; auto.
  intros k Hk. rewrite sget_sset. destruct (src =? k) eqn:E; auto. apply N.eqb_eq in E; congruence.
Qed.

(* which events release a suspended source *)
Definition releases (s : state) (src : N) (e : ev) : bool :=
  match e with
  | DropHandle h => match get_handle V h (handles s) with
                    | Some x => match h_rel x with Some k => k =? src | None => false end
                    | None => false end
  | DropBarrier b => match get_barrier V b (regs s) with
                     | Some x => existsb (N.eqb src) (rels V (b_fifo x))
                     | None => false end
  | Abandon k => k =? src
  | _ => false
  end.
(* the source itself is dropped *)
Definition kills (src : N) (e : ev) : bool := match e with Kill k => k =? src | _ => false end.

Lemma stays_suspended s src e :
  sget (srcs s) src = Suspended -> releases s src e = false -> kills src e = false ->
  sget (srcs (fst (step V s e))) src = Suspended.
Proof.
  intros S R Kl. destruct e as [r c|k v|k v|b|h|b|k|k]; cbn -[sset sget rels] in *.
  - exact S.
  - destruct (sget (srcs s) k) eqn:K; try exact S.
    destruct (first_match V (regs s) v) as [x|]; [|exact S].
    assert (k <> src) by (intro; subst; congruence).
    destruct (b_react x); cbn -[sset sget rels]; try exact S; rewrite sget_sset; destruct (k =? src) eqn:E; auto;
      apply N.eqb_eq in E; congruence.
  - destruct (sget (srcs s) k) eqn:K; try exact S.
    destruct (first_match V (regs s) v) as [x|]; [|exact S].
    assert (k <> src) by (intro; subst; congruence).
    destruct (b_react x); cbn -[sset sget rels]; try exact S; rewrite sget_sset; destruct (k =? src) eqn:E; auto;
      apply N.eqb_eq in E; congruence.
  - destruct (get_barrier V b (regs s)) as [x|]; [|exact S]. destruct (b_fifo x); exact S.
  - destruct (get_handle V h (handles s)) as [x|]; [|exact S]. cbn -[sset sget rels].
    destruct (h_rel x) as [k|]; [|exact S]. rewrite sget_sset, R. exact S.
  - destruct (get_barrier V b (regs s)) as [x|]; [|exact S]. cbn -[sset sget rels]. now rewrite sget_release_all, R.
  - destruct (sget (srcs s) k); try exact S. cbn -[sset sget rels]. now rewrite sget_sset, R.
  - destruct (sget (srcs s) k); try exact S; cbn -[sset sget rels]; now rewrite sget_sset, Kl.
Qed.

Lemma release_runs s src e :
  sget (srcs s) src = Suspended -> releases s src e = true -> sget (srcs (fst (step V s e))) src = Running.
Proof.
  intros S R. destruct e as [r c|k v|k v|b|h|b|k|k]; cbn -[sset sget rels] in *; try discriminate.
  - destruct (get_handle V h (handles s)) as [x|]; [|discriminate]. cbn -[sset sget rels].
    destruct (h_rel x) as [k|]; [|discriminate]. now rewrite sget_sset, R.
  - destruct (get_barrier V b (regs s)) as [x|]; [|discriminate]. cbn -[sset sget rels]. now rewrite sget_release_all, R.
  - apply N.eqb_eq in R. subst k. rewrite S. cbn -[sset sget rels]. now rewrite sget_sset, N.eqb_refl.
Qed.

(* ------------------------------------------------------------------ *)
(* a suspended source always has a release token in a live barrier's    *)
(* queue or in a handle held by the test                                *)

Definition hrels (hs : list (handle V)) : list N :=
  flat_map (fun h => match h_rel h with Some k => [k] | None => [] end) hs.
Definition tokens (s : state) : list N := flat_map (fun x => rels V (b_fifo x)) (regs s) ++ hrels (handles s).
Definition TokInv (s : state) : Prop := forall src, sget (srcs s) src = Suspended -> In src (tokens s).

Lemma rels_app f g : rels V (f ++ g) = rels V f ++ rels V g.
Proof. unfold rels. apply flat_map_app. Qed.

Lemma in_tokens_upd_app b e (l : list barrier) k :
  In k (flat_map (fun x => rels V (b_fifo x)) l) ->
  In k (flat_map (fun x => rels V (b_fifo x)) (upd_fifo V b (fun f => f ++ [e]) l)).
Proof.
  induction l as [|x l IH]; cbn -[sset sget rels]; [auto|]. intros H. apply in_app_or in H.
  destruct (b_id x =? b); cbn -[sset sget rels]; apply in_or_app.
  - destruct H as [H|H]; [left; rewrite rels_app; apply in_or_app; now left|now right].
  - destruct H as [H|H]; [now left|right; auto].
Qed.

Lemma in_tokens_upd_new b e src (l : list barrier) x :
  get_barrier V b l = Some x -> e_rel e = Some src ->
  In src (flat_map (fun x => rels V (b_fifo x)) (upd_fifo V b (fun f => f ++ [e]) l)).
Proof.
  induction l as [|y l IH]; cbn -[sset sget rels]; [discriminate|]. destruct (b_id y =? b); cbn -[sset sget rels]; intros G R.
  - apply in_or_app. left. rewrite rels_app. apply in_or_app. right. unfold rels. cbn -[sset sget rels]. rewrite R. now left.
  - apply in_or_app. right. auto.
Qed.

Lemma in_tokens_pop b e rest (l : list barrier) x k :
  get_barrier V b l = Some x -> b_fifo x = e :: rest ->
  In k (flat_map (fun x => rels V (b_fifo x)) l) ->
  In k (flat_map (fun x => rels V (b_fifo x)) (upd_fifo V b (fun _ => rest) l)) \/ e_rel e = Some k.
Proof.
  induction l as [|y l IH]; cbn -[sset sget rels]; [discriminate|]. destruct (b_id y =? b); cbn -[sset sget rels]; intros G F H.
  - inversion G; subst. rewrite F in H. apply in_app_or in H as [H|H].
    + unfold rels in H. cbn -[sset sget rels] in H. apply in_app_or in H as [H|H].
      * destruct (e_rel e) as [j|]; [|contradiction]. destruct H as [->|[]]. now right.
      * left. apply in_or_app. now left.
    + left. apply in_or_app. now right.
  - apply in_app_or in H as [H|H]; [left; apply in_or_app; now left|].
    destruct (IH G F H) as [H'|H']; [left; apply in_or_app; now right|now right].
Qed.

Lemma in_hrels_app hs h k : In k (hrels (hs ++ [h])) <-> In k (hrels hs) \/ h_rel h = Some k.
Proof.
  unfold hrels. rewrite flat_map_app. cbn -[sset sget rels]. rewrite app_nil_r. split.
  - intros H. apply in_app_or in H as [H|H]; [now left|]. destruct (h_rel h) as [j|]; [|contradiction].
    destruct H as [->|[]]. now right.
  - intros [H|H]; apply in_or_app; [now left|right]. rewrite H. now left.
Qed.

Lemma filter_keep_all {X} (p : X -> bool) l : (forall z, In z l -> p z = true) -> filter p l = l.
Proof.
  induction l as [|x l IH]; cbn -[sset sget rels]; intros H; [reflexivity|]. rewrite (H x (or_introl eq_refl)). f_equal.
  apply IH. intros z Hz. apply H. now right.
Qed.

Lemma in_hrels_filter hs h x k :
  NoDup (map h_id hs) -> get_handle V h hs = Some x -> In k (hrels hs) ->
  In k (hrels (filter (fun y => negb (h_id y =? h)) hs)) \/ h_rel x = Some k.
Proof.
  induction hs as [|y hs IH]; cbn -[sset sget rels]; [discriminate|]. intros ND G H. inversion ND as [|? ? Hn Hd]; subst.
  destruct (h_id y =? h) eqn:E; cbn -[sset sget rels].
  - inversion G; subst. apply N.eqb_eq in E. apply in_app_or in H as [H|H].
    + destruct (h_rel x) as [j|]; [|contradiction]. destruct H as [->|[]]. now right.
    + left. rewrite filter_keep_all; [exact H|]. intros z Hz. apply negb_true_iff, N.eqb_neq.
      intro Ez. apply Hn. rewrite E, <- Ez. now apply in_map.
  - apply in_app_or in H as [H|H]; [left; apply in_or_app; now left|].
    destruct (IH Hd G H) as [H'|H']; [left; apply in_or_app; now right|now right].
Qed.

Lemma in_tokens_filter b (l : list barrier) x k :
  NoDup (map b_id l) -> get_barrier V b l = Some x ->
  In k (flat_map (fun x => rels V (b_fifo x)) l) ->
  In k (flat_map (fun x => rels V (b_fifo x)) (filter (fun y => negb (b_id y =? b)) l)) \/ In k (rels V (b_fifo x)).
Proof.
  induction l as [|y l IH]; cbn -[sset sget rels]; [discriminate|]. intros ND G H. inversion ND as [|? ? Hn Hd]; subst.
  destruct (b_id y =? b) eqn:E; cbn -[sset sget rels].
  - inversion G; subst. apply N.eqb_eq in E. apply in_app_or in H as [H|H]; [now right|].
    left. rewrite filter_keep_all; [exact H|]. intros z Hz. apply negb_true_iff, N.eqb_neq.
    intro Ez. apply Hn. rewrite E, <- Ez. now apply in_map.
  - apply in_app_or in H as [H|H]; [left; apply in_or_app; now left|].
    destruct (IH Hd G H) as [H'|H']; [left; apply in_or_app; now right|now right].
Qed.

Lemma existsb_eqb_in k l : existsb (N.eqb k) l = true <-> In k l.
Proof.
  rewrite existsb_exists. split.
  - intros (x & Hx & E). apply N.eqb_eq in E. now subst.
  - intros H. exists k. split; [exact H|apply N.eqb_refl].
Qed.

Definition ne (k j : N) : bool := negb (j =? k).

Lemma rels_inert k f : rels V (map (inert_entry V k) f) = filter (ne k) (rels V f).
Proof.
  induction f as [|e f IH]; [reflexivity|]. unfold rels in *. cbn. rewrite filter_app, <- IH. f_equal.
  unfold inert_entry, ne. destruct (e_rel e) as [j|] eqn:E; cbn; [|now rewrite E].
  destruct (j =? k) eqn:Q; cbn; [reflexivity|now rewrite E].
Qed.

Lemma flat_inert k (l : list barrier) :
  flat_map (fun x => rels V (b_fifo x)) (map (inert_b k) l) = filter (ne k) (flat_map (fun x => rels V (b_fifo x)) l).
Proof.
  induction l as [|x l IH]; [reflexivity|]. cbn -[rels]. rewrite filter_app, <- IH. f_equal. apply rels_inert.
Qed.

Lemma hrels_inert k hs : hrels (map (inert_handle V k) hs) = filter (ne k) (hrels hs).
Proof.
  induction hs as [|h hs IH]; [reflexivity|]. unfold hrels in *. cbn. rewrite filter_app, <- IH. f_equal.
  unfold inert_handle, ne. destruct (h_rel h) as [j|] eqn:E; cbn; [|now rewrite E].
  destruct (j =? k) eqn:Q; cbn; [reflexivity|now rewrite E].
Qed.

Lemma tokens_inert s k x : tokens (inert V s k x) = filter (ne k) (tokens s).
Proof.
  unfold tokens. cbn -[rels]. rewrite filter_app, <- hrels_inert. f_equal. apply flat_inert.
Qed.

Lemma tokinv_inert s k x : x <> Suspended -> TokInv s -> TokInv (inert V s k x).
Proof.
  intros Hx T src S. rewrite tokens_inert. cbn -[sset sget] in S. rewrite sget_sset in S.
  destruct (k =? src) eqn:E; [congruence|]. apply filter_In. split; [now apply T|].
  unfold ne. now rewrite N.eqb_sym, E.
Qed.

Lemma step_tokinv s e : RegOk s -> TokInv s -> TokInv (fst (step V s e)).
Proof.
  intros OK T.
  assert (Van : forall k, TokInv (fst (step V s (Abandon k))) /\ TokInv (fst (step V s (Kill k)))).
  { intros k. split; cbn -[sset sget rels]; destruct (sget (srcs s) k); try exact T;
      (apply tokinv_inert; [discriminate|exact T]). }
  destruct e as [r c|k v|k v|b|h|b|k|k]; [| | | | | |apply Van|apply Van];
    unfold TokInv, tokens in *; cbn -[sset sget rels].
  - intros src S. apply T in S. apply in_app_or in S as [S|S]; apply in_or_app; [left|now right].
    rewrite flat_map_app. apply in_or_app. now left.
  - destruct (sget (srcs s) k) eqn:K; try exact T.
    destruct (first_match V (regs s) v) as [x|] eqn:M; [|exact T].
    apply first_match_in in M as [Mi _].
    pose proof (get_barrier_unique _ _ (rk_nd _ OK) Mi) as G.
    destruct (b_react x); cbn -[sset sget rels]; intros src S.
    + apply T in S. apply in_app_or in S as [S|S]; apply in_or_app; [left; now apply in_tokens_upd_app|now right].
    + rewrite sget_sset in S. destruct (k =? src) eqn:E.
      * apply N.eqb_eq in E. subst. apply in_or_app. left. eapply in_tokens_upd_new; eauto.
      * apply T in S. apply in_app_or in S as [S|S]; apply in_or_app; [left; now apply in_tokens_upd_app|now right].
    + rewrite sget_sset in S. destruct (k =? src); [discriminate|]. now apply T.
  - destruct (sget (srcs s) k) eqn:K; try exact T.
    destruct (first_match V (regs s) v) as [x|] eqn:M; [|exact T].
    destruct (b_react x); cbn -[sset sget rels]; intros src S.
    + apply T in S. apply in_app_or in S as [S|S]; apply in_or_app; [left; now apply in_tokens_upd_app|now right].
    + rewrite sget_sset in S. destruct (k =? src); [discriminate|]. now apply T.
    + rewrite sget_sset in S. destruct (k =? src); [discriminate|]. now apply T.
  - destruct (get_barrier V b (regs s)) as [x|] eqn:G; [|exact T].
    destruct (b_fifo x) as [|e rest] eqn:F; [exact T|]. cbn -[sset sget rels]. intros src S. apply T in S.
    apply in_or_app. apply in_app_or in S as [S|S].
    + destruct (in_tokens_pop _ _ _ _ _ _ G F S) as [H|H]; [now left|]. right. apply in_hrels_app. now right.
    + right. apply in_hrels_app. now left.
  - destruct (get_handle V h (handles s)) as [x|] eqn:G; [|exact T]. cbn -[sset sget rels]. intros src S.
    assert (S0 : sget (srcs s) src = Suspended /\ h_rel x <> Some src).
    { destruct (h_rel x) as [j|]; [|split; [exact S|discriminate]]. rewrite sget_sset in S.
      destruct (j =? src) eqn:E; [discriminate|]. split; [exact S|]. apply N.eqb_neq in E. congruence. }
    destruct S0 as [S0 Hne]. apply T in S0. apply in_or_app. apply in_app_or in S0 as [S0|S0]; [now left|].
    destruct (in_hrels_filter _ _ _ _ (hk_nd _ OK) G S0) as [H|H]; [now right|contradiction].
  - destruct (get_barrier V b (regs s)) as [x|] eqn:G; [|exact T]. cbn -[sset sget rels]. intros src S.
    rewrite sget_release_all in S. destruct (existsb (N.eqb src) (rels V (b_fifo x))) eqn:Ex; [discriminate|].
    apply T in S. apply in_or_app. apply in_app_or in S as [S|S]; [|now right].
    destruct (in_tokens_filter _ _ _ _ (rk_nd _ OK) G S) as [H|H]; [now left|].
    apply existsb_eqb_in in H. congruence.
Qed.

Lemma run_tokinv es : forall s, RegOk s -> TokInv s -> TokInv (final s es).
Proof.
  induction es as [|e es IH]; intros s OK T; [exact T|]. rewrite final_cons.
  apply IH; [now apply step_regok|now apply step_tokinv].
Qed.

Lemma tokinv_init : TokInv (init V).
Proof. intros src S. cbn -[sset sget rels] in S. discriminate. Qed.

Lemma get_handle_unique (l : list (handle V)) x :
  NoDup (map h_id l) -> In x l -> get_handle V (h_id x) l = Some x.
Proof.
  induction l as [|y l IH]; cbn -[sset sget rels]; intros ND Hin; [contradiction|]. inversion ND as [|? ? Hn Hd]; subst.
  destruct Hin as [->|Hin]; [now rewrite N.eqb_refl|].
  destruct (h_id y =? h_id x) eqn:E; [|auto].
  apply N.eqb_eq in E. exfalso. apply Hn. rewrite E. now apply in_map.
Qed.

(* a token can always be used: some DropHandle / DropBarrier releases the source *)
Lemma token_usable s src : RegOk s -> In src (tokens s) -> exists e, releases s src e = true.
Proof.
  intros OK H. unfold tokens in H. apply in_app_or in H as [H|H].
  - apply in_flat_map in H as (x & Hx & Hr). exists (DropBarrier (b_id x)). cbn -[sset sget rels].
    rewrite (get_barrier_unique _ _ (rk_nd _ OK) Hx). now apply existsb_eqb_in.
  - unfold hrels in H. apply in_flat_map in H as (x & Hx & Hr). exists (DropHandle (h_id x)). cbn -[sset sget rels].
    rewrite (get_handle_unique _ _ (hk_nd _ OK) Hx). destruct (h_rel x) as [j|]; [|contradiction].
    destruct Hr as [->|[]]. apply N.eqb_refl.
Qed.


(* ------------------------------------------------------------------ *)
(* reporting: exactly once, to the earliest live match, in trigger order *)

(* The specification side is computed from the API calls alone: the list of
   live barriers (id, condition, reaction) in creation order. *)
Definition binfo : Type := N * (V -> bool) * reaction.
Definition info (x : barrier) : binfo := (b_id x, b_cond x, b_react x).
Fixpoint spec_match (lv : list binfo) (v : V) : option (N * reaction) :=
  match lv with
  | [] => None
  | (b, c, r) :: t => if c v then Some (b, r) else spec_match t v
  end.
Definition lv_drop (b : N) (lv : list binfo) : list binfo := filter (fun x => negb (fst (fst x) =? b)) lv.
(* the barrier a trigger call is to be reported to *)
Definition dest (lv : list binfo) (noop_call : bool) (v : V) : option N :=
  match spec_match lv v with
  | Some (b, Noop) => Some b
  | Some (b, Suspend) => if noop_call then None else Some b
  | _ => None
  end.
Definition hit (b : N) (d : option N) (tid : N) (v : V) : list (N * V) :=
  match d with Some b' => if b' =? b then [(tid, v)] else [] | None => [] end.

Fixpoint expect (b : N) (lv : list binfo) (nb : N) (eos : list (ev * obs)) : list (N * V) :=
  match eos with
  | [] => []
  | (e, o) :: t =>
      match e, o with
      | Build r c, _ => expect b (lv ++ [(nb, c, r)]) (nb + 1) t
      | DropBarrier x, _ => expect b (lv_drop x lv) nb t
      | Trigger _ v, OTrig tid => hit b (dest lv false v) tid v ++ expect b lv nb t
      | TriggerNoop _ v, OTrig tid => hit b (dest lv true v) tid v ++ expect b lv nb t
      | _, _ => expect b lv nb t
      end
  end.

Fixpoint waited (b : N) (eos : list (ev * obs)) : list (N * V) :=
  match eos with
  | [] => []
  | (Wait b', OWait (Some (_, v, tid))) :: t => (if b' =? b then [(tid, v)] else []) ++ waited b t
  | _ :: t => waited b t
  end.

Definition tv (e : entry V) : N * V := (e_tid e, e_val e).
Definition fifo_l (b : N) (l : list barrier) : list (N * V) :=
  match get_barrier V b l with Some x => map tv (b_fifo x) | None => [] end.

Lemma first_match_spec (l : list barrier) v :
  spec_match (map info l) v =
  match first_match V l v with Some x => Some (b_id x, b_react x) | None => None end.
Proof.
  induction l as [|x l IH]; cbn; [reflexivity|]. destruct (b_cond x v); [reflexivity|exact IH].
Qed.

Lemma spec_match_in lv v b r : spec_match lv v = Some (b, r) -> In b (map (fun x => fst (fst x)) lv).
Proof.
  induction lv as [|[[b' c] r'] lv IH]; cbn; [discriminate|]. destruct (c v).
  - intros H. inversion H; subst. now left.
  - intros H. right. auto.
Qed.

Lemma upd_fifo_info b f (l : list barrier) : map info (upd_fifo V b f l) = map info l.
Proof. induction l as [|x l IH]; cbn; [reflexivity|]. destruct (b_id x =? b); cbn; [reflexivity|now rewrite IH]. Qed.

Lemma info_ids (l : list barrier) : map (fun x => fst (fst x)) (map info l) = map b_id l.
Proof. rewrite map_map. reflexivity. Qed.

Lemma lv_drop_info b (l : list barrier) :
  lv_drop b (map info l) = map info (filter (fun y => negb (b_id y =? b)) l).
Proof.
  unfold lv_drop. induction l as [|x l IH]; cbn; [reflexivity|]. destruct (b_id x =? b); cbn; [exact IH|now rewrite IH].
Qed.

Lemma expect_dead b eos : forall lv nb,
  ~ In b (map (fun x => fst (fst x)) lv) -> b < nb -> expect b lv nb eos = [].
Proof.
  induction eos as [|[e o] t IH]; intros lv nb Hn Hb; cbn; [reflexivity|].
  assert (Hit : forall c v tid, hit b (dest lv c v) tid v = []).
  { intros c v tid. unfold hit, dest. destruct (spec_match lv v) as [[b' r]|] eqn:M; [|reflexivity].
    apply spec_match_in in M.
    assert (b' =? b = false) by (apply N.eqb_neq; intro; subst; contradiction).
    destruct r; [now rewrite H| |reflexivity]. destruct c; [reflexivity|now rewrite H]. }
  destruct e as [r c|k v|k v|b'|h|b'|k0|k0]; try (destruct o; auto; rewrite Hit; cbn; auto); auto.
  - apply IH; [|lia]. rewrite map_app. cbn. intro H. apply in_app_or in H as [H|[H|[]]]; [contradiction|lia].
  - apply IH; [|exact Hb]. intro H. apply Hn. unfold lv_drop in H.
    apply in_map_iff in H as (x & E & Hx). apply filter_In in Hx as [Hx _]. apply in_map_iff. eauto.
Qed.

Lemma step_dead b s e :
  b < nbid s -> get_barrier V b (regs s) = None ->
  b < nbid (fst (step V s e)) /\ get_barrier V b (regs (fst (step V s e))) = None.
Proof.
  intros L G. destruct e as [r c|k v|k v|b'|h|b'|k|k]; cbn -[sset sget rels];
    [| | | | | |destruct (sget (srcs s) k); cbn -[sset sget rels]; auto;
                change (map (fun b0 => set_fifo V b0 (map (inert_entry V k) (b_fifo b0))) (regs s)) with (map (inert_b k) (regs s));
                rewrite get_barrier_inert, G; auto
     |destruct (sget (srcs s) k); cbn -[sset sget rels]; auto;
      change (map (fun b0 => set_fifo V b0 (map (inert_entry V k) (b_fifo b0))) (regs s)) with (map (inert_b k) (regs s));
      rewrite get_barrier_inert, G; auto].
  - split; [lia|]. rewrite get_barrier_app, G. cbn. destruct (nbid s =? b) eqn:E; [|reflexivity]. apply N.eqb_eq in E. lia.
  - destruct (sget (srcs s) k); cbn -[sset sget rels]; auto.
    destruct (first_match V (regs s) v) as [x|]; cbn -[sset sget rels]; auto.
    destruct (b_react x); cbn -[sset sget rels]; auto; rewrite get_barrier_upd, G; auto.
  - destruct (sget (srcs s) k); cbn -[sset sget rels]; auto.
    destruct (first_match V (regs s) v) as [x|]; cbn -[sset sget rels]; auto.
    destruct (b_react x); cbn -[sset sget rels]; auto; rewrite get_barrier_upd, G; auto.
  - destruct (get_barrier V b' (regs s)) as [x|]; cbn -[sset sget rels]; auto.
    destruct (b_fifo x); cbn -[sset sget rels]; auto. rewrite get_barrier_upd, G; auto.
  - destruct (get_handle V h (handles s)); cbn -[sset sget rels]; auto.
  - destruct (get_barrier V b' (regs s)) as [x|]; cbn -[sset sget rels]; auto.
    rewrite get_barrier_filter, G. now destruct (b' =? b).
Qed.

Lemma dead_stays b es : forall s,
  b < nbid s -> get_barrier V b (regs s) = None -> get_barrier V b (regs (final s es)) = None.
Proof.
  induction es as [|e es IH]; intros s L G; [exact G|]. rewrite final_cons.
  destruct (step_dead b s e L G). now apply IH.
Qed.

Lemma fifo_l_upd_app b0 e (l : list barrier) b :
  (exists x, In x l /\ b_id x = b0) ->
  fifo_l b (upd_fifo V b0 (fun f => f ++ [e]) l) = fifo_l b l ++ (if b0 =? b then [tv e] else []).
Proof.
  intros (x & Hx & Ex). unfold fifo_l. rewrite get_barrier_upd.
  destruct (get_barrier V b l) as [y|] eqn:G.
  - destruct (b0 =? b); cbn; [now rewrite map_app|now rewrite app_nil_r].
  - destruct (b0 =? b) eqn:E; [|reflexivity]. apply N.eqb_eq in E. subst.
    exfalso. exact (get_barrier_none _ _ G x Hx eq_refl).
Qed.

Lemma run_cons s e es :
  run V s (e :: es) = (final (fst (step V s e)) es, snd (step V s e) :: snd (run V (fst (step V s e)) es)).
Proof.
  unfold final. cbn. destruct (step V s e) as [s1 o]. cbn. destruct (run V s1 es). reflexivity.
Qed.

Lemma info_inert k (l : list barrier) : map info (map (inert_b k) l) = map info l.
Proof. rewrite map_map. reflexivity. Qed.

Lemma fifo_l_inert k b (l : list barrier) : fifo_l b (map (inert_b k) l) = fifo_l b l.
Proof.
  unfold fifo_l. rewrite get_barrier_inert. destruct (get_barrier V b l) as [x|]; [|reflexivity]. cbn.
  rewrite map_map. apply map_ext. intros e. unfold tv, inert_entry. destruct (e_rel e) as [j|]; [|reflexivity].
  destruct (j =? k); reflexivity.
Qed.

Lemma regs_inert s k x : regs (inert V s k x) = map (inert_b k) (regs s).
Proof. reflexivity. Qed.

Lemma report_main es : forall s, RegOk s ->
  forall b, exists q,
    waited b (combine es (snd (run V s es))) ++ q =
      fifo_l b (regs s) ++ expect b (map info (regs s)) (nbid s) (combine es (snd (run V s es))) /\
    (forall x, get_barrier V b (regs (final s es)) = Some x -> q = map tv (b_fifo x)).
Proof.
  induction es as [|e es IH]; intros s OK b.
  - exists (fifo_l b (regs s)). cbn. rewrite app_nil_r. split; [reflexivity|].
    intros x G. unfold fifo_l, final in *. cbn in G. now rewrite G.
  - rewrite run_cons, final_cons. cbn [snd combine].
    pose proof (step_regok s e OK) as OK1.
    destruct (IH (fst (step V s e)) OK1 b) as (q' & Eq & Fin).
    remember (step V s e) as so eqn:St. destruct so as [s1 o]. cbn [fst snd] in *. symmetry in St.
    set (eos := combine es (snd (run V s1 es))) in *.
    assert (Close : forall h,
              fifo_l b (regs s1) = fifo_l b (regs s) ++ h ->
              waited b ((e, o) :: eos) = waited b eos ->
              expect b (map info (regs s)) (nbid s) ((e, o) :: eos) = h ++ expect b (map info (regs s1)) (nbid s1) eos ->
              exists q, waited b ((e, o) :: eos) ++ q =
                        fifo_l b (regs s) ++ expect b (map info (regs s)) (nbid s) ((e, o) :: eos) /\
                        (forall x, get_barrier V b (regs (final s1 es)) = Some x -> q = map tv (b_fifo x))).
    { intros h F W X. exists q'. split; [|exact Fin]. rewrite W, X, Eq, F. now rewrite <- app_assoc. }
    destruct e as [r c|k v|k v|b'|h|b'|k|k]; cbn -[sset sget rels] in St.
    + (* Build *)
      inversion St; subst s1 o. apply (Close []).
      * rewrite app_nil_r. cbn. unfold fifo_l. rewrite get_barrier_app.
        destruct (get_barrier V b (regs s)) as [y|] eqn:G; [reflexivity|]. cbn.
        destruct (nbid s =? b); reflexivity.
      * reflexivity.
      * cbn. now rewrite map_app.
    + (* Trigger *)
      pose proof (first_match_spec (regs s) v) as FS.
      destruct (sget (srcs s) k) eqn:K;
        try (inversion St; subst s1 o; apply (Close []); [now rewrite app_nil_r|reflexivity|reflexivity]).
      destruct (first_match V (regs s) v) as [x|] eqn:M.
      * apply first_match_in in M as [Mi _].
        assert (Ex : exists y, In y (regs s) /\ b_id y = b_id x) by eauto.
        destruct (b_react x) eqn:R; inversion St; subst s1 o.
        -- apply (Close (hit b (Some (b_id x)) (ntid s) v)).
           ++ cbn. rewrite (fifo_l_upd_app _ _ _ _ Ex). unfold hit, tv. cbn. reflexivity.
           ++ reflexivity.
           ++ cbn. unfold dest. rewrite FS, upd_fifo_info. reflexivity.
        -- apply (Close (hit b (Some (b_id x)) (ntid s) v)).
           ++ cbn. rewrite (fifo_l_upd_app _ _ _ _ Ex). unfold hit, tv. cbn. reflexivity.
           ++ reflexivity.
           ++ cbn. unfold dest. rewrite FS, upd_fifo_info. reflexivity.
        -- apply (Close []); [now rewrite app_nil_r|reflexivity|].
           cbn. unfold dest. rewrite FS. reflexivity.
      * inversion St; subst s1 o. apply (Close []); [now rewrite app_nil_r|reflexivity|].
        cbn. unfold dest. rewrite FS. reflexivity.
    + (* TriggerNoop *)
      pose proof (first_match_spec (regs s) v) as FS.
      destruct (sget (srcs s) k) eqn:K;
        try (inversion St; subst s1 o; apply (Close []); [now rewrite app_nil_r|reflexivity|reflexivity]).
      destruct (first_match V (regs s) v) as [x|] eqn:M.
      * apply first_match_in in M as [Mi _].
        assert (Ex : exists y, In y (regs s) /\ b_id y = b_id x) by eauto.
        destruct (b_react x) eqn:R; inversion St; subst s1 o.
        -- apply (Close (hit b (Some (b_id x)) (ntid s) v)).
           ++ cbn. rewrite (fifo_l_upd_app _ _ _ _ Ex). unfold hit, tv. cbn. reflexivity.
           ++ reflexivity.
           ++ cbn. unfold dest. rewrite FS, upd_fifo_info. reflexivity.
        -- apply (Close []); [now rewrite app_nil_r|reflexivity|].
           cbn. unfold dest. rewrite FS. reflexivity.
        -- apply (Close []); [now rewrite app_nil_r|reflexivity|].
           cbn. unfold dest. rewrite FS. reflexivity.
      * inversion St; subst s1 o. apply (Close []); [now rewrite app_nil_r|reflexivity|].
        cbn. unfold dest. rewrite FS. reflexivity.
    + (* Wait *)
      destruct (get_barrier V b' (regs s)) as [x|] eqn:G;
        [|inversion St; subst s1 o; apply (Close []); [now rewrite app_nil_r|reflexivity|reflexivity]].
      destruct (b_fifo x) as [|en rest] eqn:F;
        [inversion St; subst s1 o; apply (Close []); [now rewrite app_nil_r|reflexivity|reflexivity]|].
      inversion St; subst s1 o. clear Close. cbn -[sset sget rels] in Eq, Fin. rewrite upd_fifo_info in Eq.
      exists q'. split; [|exact Fin].
      cbn. destruct (b' =? b) eqn:E.
      * apply N.eqb_eq in E. subst b'. cbn. fold eos. rewrite Eq. unfold fifo_l. rewrite get_barrier_upd, G, N.eqb_refl. cbn.
        rewrite F. cbn. reflexivity.
      * cbn. fold eos. rewrite Eq. unfold fifo_l. rewrite get_barrier_upd. destruct (get_barrier V b (regs s)); [|reflexivity].
        now rewrite E.
    + (* DropHandle *)
      destruct (get_handle V h (handles s)); inversion St; subst s1 o;
        (apply (Close []); [now rewrite app_nil_r|reflexivity|reflexivity]).
    + (* DropBarrier *)
      destruct (get_barrier V b' (regs s)) as [x|] eqn:G.
      * inversion St; subst s1 o. clear Close. cbn -[sset sget rels] in Eq, Fin.
        destruct (b' =? b) eqn:E.
        -- apply N.eqb_eq in E. subst b'.
           assert (Dead : get_barrier V b (filter (fun y => negb (b_id y =? b)) (regs s)) = None)
             by (rewrite get_barrier_filter; now rewrite N.eqb_refl).
           assert (Lt : b < nbid s) by (apply get_barrier_in in G as [Gi <-]; now apply (rk_lt _ OK)).
           assert (Ex0 : expect b (map info (filter (fun y => negb (b_id y =? b)) (regs s))) (nbid s) eos = []).
           { apply expect_dead; [|exact Lt]. rewrite info_ids. intro Hin.
             apply in_map_iff in Hin as (y & Ey & Hy). exact (get_barrier_none _ _ Dead y Hy Ey). }
           rewrite Ex0 in Eq. unfold fifo_l in Eq at 1. rewrite Dead in Eq. cbn in Eq.
           apply app_eq_nil in Eq as [W0 Q0].
           exists (fifo_l b (regs s)). split.
           ++ cbn. fold eos. rewrite lv_drop_info, Ex0, W0. now rewrite app_nil_r.
           ++ intros y Gy. exfalso. rewrite dead_stays in Gy; [discriminate|exact Lt|exact Dead].
        -- exists q'. split; [|exact Fin]. cbn. fold eos. rewrite lv_drop_info, Eq. f_equal.
           unfold fifo_l. rewrite get_barrier_filter, E. reflexivity.
      * inversion St; subst s1 o. apply (Close []); [now rewrite app_nil_r|reflexivity|].
        cbn. f_equal. unfold lv_drop. apply filter_keep_all. intros [[b0 c0] r0] Hin. cbn.
        apply negb_true_iff, N.eqb_neq. intro. subst b0.
        apply in_map_iff in Hin as (y & Ey & Hy). inversion Ey; subst.
        exact (get_barrier_none _ _ G y Hy eq_refl).
    + (* Abandon *)
      destruct (sget (srcs s) k); inversion St; subst s1 o;
        try (apply (Close []); [now rewrite app_nil_r|reflexivity|reflexivity]).
      apply (Close []); [rewrite app_nil_r, regs_inert; apply fifo_l_inert|reflexivity|].
      cbn [expect app]. now rewrite regs_inert, info_inert.
    + (* Kill *)
      destruct (sget (srcs s) k); inversion St; subst s1 o;
        try (apply (Close []); [now rewrite app_nil_r|reflexivity|reflexivity]);
        (apply (Close []); [rewrite app_nil_r, regs_inert; apply fifo_l_inert|reflexivity|];
         cbn [expect app]; now rewrite regs_inert, info_inert).
Qed.

(* ghost trigger ids are handed out in increasing order: every trigger call
   appears at most once in all expected lists together *)
Lemma expect_tids b eos : forall s lv nb es,
  eos = combine es (snd (run V s es)) ->
  forall tid v, In (tid, v) (expect b lv nb eos) -> ntid s <= tid.
Proof.
  induction eos as [|[e o] t IH]; intros s lv nb es E tid v H; [contradiction|].
  destruct es as [|e' es']; [discriminate|]. rewrite run_cons in E. cbn [snd combine] in E. inversion E; subst.
  assert (Mono : ntid s <= ntid (fst (step V s e'))).
  { destruct e' as [r c|k w|k w|b'|h|b'|k|k]; cbn -[sset sget rels]; try lia;
      [| | | | |destruct (sget (srcs s) k); cbn; lia|destruct (sget (srcs s) k); cbn; lia].
    - destruct (sget (srcs s) k); cbn -[sset sget rels]; try lia.
      destruct (first_match V (regs s) w) as [x|]; cbn -[sset sget rels]; [destruct (b_react x)|]; cbn -[sset sget rels]; lia.
    - destruct (sget (srcs s) k); cbn -[sset sget rels]; try lia.
      destruct (first_match V (regs s) w) as [x|]; cbn -[sset sget rels]; [destruct (b_react x)|]; cbn -[sset sget rels]; lia.
    - destruct (get_barrier V b' (regs s)) as [x|]; cbn; [destruct (b_fifo x)|]; cbn; lia.
    - destruct (get_handle V h (handles s)); cbn; lia.
    - destruct (get_barrier V b' (regs s)); cbn; lia. }
  assert (Rest : forall lv' nb', In (tid, v) (expect b lv' nb' (combine es' (snd (run V (fst (step V s e')) es')))) -> ntid s <= tid).
  { intros lv' nb' Hin. specialize (IH _ lv' nb' es' eq_refl tid v Hin). lia. }
  cbn in H. destruct e' as [r c|k w|k w|b'|h|b'|k|k]; eauto.
  - destruct (snd (step V s (Trigger k w))) eqn:O; eauto.
    apply in_app_or in H as [H|H]; [|eauto].
    cbn -[sset sget rels] in O. destruct (sget (srcs s) k); try discriminate.
    assert (tid0 = ntid s).
    { destruct (first_match V (regs s) w) as [x|]; [destruct (b_react x)|]; cbn -[sset sget rels] in O; now inversion O. }
    subst. unfold hit in H. destruct (dest lv false w); [|contradiction]. destruct (n =? b); [|contradiction].
    destruct H as [H|[]]. inversion H; subst. lia.
  - destruct (snd (step V s (TriggerNoop k w))) eqn:O; eauto.
    apply in_app_or in H as [H|H]; [|eauto].
    cbn -[sset sget rels] in O. destruct (sget (srcs s) k); try discriminate.
    assert (tid0 = ntid s).
    { destruct (first_match V (regs s) w) as [x|]; [destruct (b_react x)|]; cbn -[sset sget rels] in O; now inversion O. }
    subst. unfold hit in H. destruct (dest lv true w); [|contradiction]. destruct (n =? b); [|contradiction].
    destruct H as [H|[]]. inversion H; subst. lia.
Qed.


Lemma step_tid s e :
  match snd (step V s e) with
  | OTrig tid => tid = ntid s /\ ntid (fst (step V s e)) = ntid s + 1
  | _ => ntid (fst (step V s e)) = ntid s
  end.
Proof.
  destruct e as [r c|k w|k w|b'|h|b'|k|k]; cbn -[sset sget rels]; try reflexivity;
    [| | | | |destruct (sget (srcs s) k); reflexivity|destruct (sget (srcs s) k); reflexivity].
  - destruct (sget (srcs s) k); cbn -[sset sget rels]; try reflexivity.
    destruct (first_match V (regs s) w) as [x|]; cbn -[sset sget rels]; [destruct (b_react x)|]; cbn -[sset sget rels]; auto.
  - destruct (sget (srcs s) k); cbn -[sset sget rels]; try reflexivity.
    destruct (first_match V (regs s) w) as [x|]; cbn -[sset sget rels]; [destruct (b_react x)|]; cbn -[sset sget rels]; auto.
  - destruct (get_barrier V b' (regs s)) as [x|]; cbn; [destruct (b_fifo x)|]; reflexivity.
  - destruct (get_handle V h (handles s)); reflexivity.
  - destruct (get_barrier V b' (regs s)); reflexivity.
Qed.

Definition tid_lt (a c : N * V) : Prop := fst a < fst c.

(* trigger ids in an expected list are strictly increasing: no trigger call is
   expected (hence, by report_main, reported) twice *)
Lemma expect_sorted b es : forall s lv nb,
  StronglySorted tid_lt (expect b lv nb (combine es (snd (run V s es)))).
Proof.
  induction es as [|e es IH]; intros s lv nb; [constructor|].
  rewrite run_cons. cbn [snd combine].
  pose proof (step_tid s e) as T.
  assert (Rest : forall lv' nb' tid v,
            In (tid, v) (expect b lv' nb' (combine es (snd (run V (fst (step V s e)) es)))) ->
            ntid (fst (step V s e)) <= tid).
  { intros lv' nb' tid v. eapply expect_tids. reflexivity. }
  assert (Hit : forall d tid v lv' nb', tid = ntid s -> ntid (fst (step V s e)) = ntid s + 1 ->
            StronglySorted tid_lt (hit b d tid v ++ expect b lv' nb' (combine es (snd (run V (fst (step V s e)) es))))).
  { intros d tid v lv' nb' E1 E2. unfold hit. destruct d as [b0|]; [|apply IH]. destruct (b0 =? b); [|apply IH].
    cbn. constructor; [apply IH|]. rewrite Forall_forall. intros [t w] Hin. apply Rest in Hin. unfold tid_lt. cbn. lia. }
  cbn. destruct e as [r c|k w|k w|b'|h|b'|k|k]; try apply IH.
  - destruct (snd (step V s (Trigger k w))) eqn:O; try apply IH. destruct T. now apply Hit.
  - destruct (snd (step V s (TriggerNoop k w))) eqn:O; try apply IH. destruct T. now apply Hit.
Qed.


(* ------------------------------------------------------------------ *)
(* exactly one release token per suspended source, none for the others  *)

Definition R (x : barrier) : list N := rels V (b_fifo x).
Definition hrel (h : handle V) : list N := match h_rel h with Some k => [k] | None => [] end.

Record TokInv2 (s : state) : Prop := {
  tk_nd : NoDup (tokens s);
  tk_susp : forall src, In src (tokens s) -> sget (srcs s) src = Suspended }.

Lemma tokens_upd_app_perm b e (l : list barrier) x :
  get_barrier V b l = Some x ->
  Permutation (flat_map R (upd_fifo V b (fun f => f ++ [e]) l)) (rels V [e] ++ flat_map R l).
Proof.
  induction l as [|y l IH]; cbn -[rels]; [discriminate|]. destruct (b_id y =? b); cbn -[rels]; intros G.
  - unfold R at 1. cbn -[rels]. rewrite rels_app, <- app_assoc. apply Permutation_app_swap_app.
  - eapply perm_trans; [apply Permutation_app_head, (IH G)|]. apply Permutation_app_swap_app.
Qed.

Lemma tokens_pop_perm b e rest (l : list barrier) x :
  get_barrier V b l = Some x -> b_fifo x = e :: rest ->
  Permutation (flat_map R l) (rels V [e] ++ flat_map R (upd_fifo V b (fun _ => rest) l)).
Proof.
  induction l as [|y l IH]; cbn -[rels]; [discriminate|]. destruct (b_id y =? b); cbn -[rels]; intros G F.
  - inversion G; subst. unfold R at 1 3. cbn -[rels]. rewrite F.
    change (e :: rest) with ([e] ++ rest). rewrite rels_app, <- app_assoc. reflexivity.
  - eapply perm_trans; [apply Permutation_app_head, (IH G F)|]. apply Permutation_app_swap_app.
Qed.

Lemma hrels_filter_perm hs h x :
  NoDup (map h_id hs) -> get_handle V h hs = Some x ->
  Permutation (hrels hs) (hrel x ++ hrels (filter (fun y => negb (h_id y =? h)) hs)).
Proof.
  induction hs as [|y hs IH]; cbn; [discriminate|]. intros ND G. inversion ND as [|? ? Hn Hd]; subst.
  destruct (h_id y =? h) eqn:E; cbn.
  - inversion G; subst. apply N.eqb_eq in E. rewrite filter_keep_all; [reflexivity|].
    intros z Hz. apply negb_true_iff, N.eqb_neq. intro Ez. apply Hn. rewrite E, <- Ez. now apply in_map.
  - eapply perm_trans; [apply Permutation_app_head, (IH Hd G)|]. apply Permutation_app_swap_app.
Qed.

Lemma tokens_filter_perm b (l : list barrier) x :
  NoDup (map b_id l) -> get_barrier V b l = Some x ->
  Permutation (flat_map R l) (R x ++ flat_map R (filter (fun y => negb (b_id y =? b)) l)).
Proof.
  induction l as [|y l IH]; cbn -[rels]; [discriminate|]. intros ND G. inversion ND as [|? ? Hn Hd]; subst.
  destruct (b_id y =? b) eqn:E; cbn -[rels].
  - inversion G; subst. apply N.eqb_eq in E. rewrite filter_keep_all; [reflexivity|].
    intros z Hz. apply negb_true_iff, N.eqb_neq. intro Ez. apply Hn. rewrite E, <- Ez. now apply in_map.
  - eapply perm_trans; [apply Permutation_app_head, (IH Hd G)|]. apply Permutation_app_swap_app.
Qed.

Lemma tokens_eq s : tokens s = flat_map R (regs s) ++ hrels (handles s).
Proof. reflexivity. Qed.

Lemma tokinv2_perm s s' :
  Permutation (tokens s') (tokens s) -> (forall k, In k (tokens s) -> sget (srcs s') k = sget (srcs s) k) ->
  TokInv2 s -> TokInv2 s'.
Proof.
  intros P E [A B]. constructor.
  - eapply Permutation_NoDup; [apply Permutation_sym, P|exact A].
  - intros k Hk. apply (Permutation_in _ P) in Hk. rewrite (E k Hk). auto.
Qed.

Lemma hrels_app hs h : hrels (hs ++ [h]) = hrels hs ++ hrel h.
Proof. unfold hrels. rewrite flat_map_app. cbn. now rewrite app_nil_r. Qed.

Lemma tokinv2_inert s k x : TokInv2 s -> TokInv2 (inert V s k x).
Proof.
  intros [ND SU]. constructor; rewrite tokens_inert.
  - now apply NoDup_filter.
  - intros j Hj. apply filter_In in Hj as [Hj Hn]. cbn -[sset sget]. rewrite sget_sset.
    unfold ne in Hn. rewrite N.eqb_sym in Hn. destruct (k =? j); [discriminate|]. now apply SU.
Qed.

Lemma step_tokinv2 s e : RegOk s -> TokInv2 s -> TokInv2 (fst (step V s e)).
Proof.
  intros OK T. pose proof T as [ND SU]. destruct e as [r c|k v|k v|b|h|b|k|k]; cbn -[sset sget rels];
    [| | | | | |destruct (sget (srcs s) k); try exact T; now apply tokinv2_inert|destruct (sget (srcs s) k); try exact T; now apply tokinv2_inert].
  - (* Build *)
    apply (tokinv2_perm s); [|reflexivity|exact T]. rewrite !tokens_eq. cbn -[rels].
    rewrite flat_map_app. cbn. rewrite app_nil_r. reflexivity.
  - (* Trigger *)
    destruct (sget (srcs s) k) eqn:K; cbn -[sset sget rels]; try exact T.
    destruct (first_match V (regs s) v) as [x|] eqn:M; cbn -[sset sget rels].
    2:{ apply (tokinv2_perm s); [reflexivity|reflexivity|exact T]. }
    apply first_match_in in M as [Mi _].
    pose proof (get_barrier_unique _ _ (rk_nd _ OK) Mi) as G.
    assert (Knot : ~ In k (tokens s)) by (intro Hk; apply SU in Hk; congruence).
    destruct (b_react x); cbn -[sset sget rels].
    + apply (tokinv2_perm s); [|reflexivity|exact T]. rewrite !tokens_eq. cbn -[rels].
      apply Permutation_app_tail. eapply perm_trans; [apply (tokens_upd_app_perm _ _ _ _ G)|]. reflexivity.
    + constructor.
      * rewrite tokens_eq. cbn -[rels sset sget].
        eapply Permutation_NoDup.
        -- apply Permutation_sym. eapply perm_trans; [apply Permutation_app_tail, (tokens_upd_app_perm _ _ _ _ G)|].
           cbn. reflexivity.
        -- constructor; [exact Knot|exact ND].
      * intros j Hj. rewrite tokens_eq in Hj. cbn -[rels sset sget] in Hj.
        apply (Permutation_in _ (Permutation_app_tail _ (tokens_upd_app_perm _ _ _ _ G))) in Hj.
        cbn in Hj. cbn -[sset sget rels]. rewrite sget_sset. destruct Hj as [<-|Hj]; [now rewrite N.eqb_refl|].
        destruct (k =? j) eqn:E; [reflexivity|]. now apply SU.
    + apply (tokinv2_perm s); [reflexivity| |exact T]. intros j Hj. cbn -[sset sget].
      rewrite sget_sset. destruct (k =? j) eqn:E; [|reflexivity]. apply N.eqb_eq in E. subst. contradiction.
  - (* TriggerNoop *)
    destruct (sget (srcs s) k) eqn:K; cbn -[sset sget rels]; try exact T.
    destruct (first_match V (regs s) v) as [x|] eqn:M; cbn -[sset sget rels].
    2:{ apply (tokinv2_perm s); [reflexivity|reflexivity|exact T]. }
    apply first_match_in in M as [Mi _].
    pose proof (get_barrier_unique _ _ (rk_nd _ OK) Mi) as G.
    assert (Knot : ~ In k (tokens s)) by (intro Hk; apply SU in Hk; congruence).
    destruct (b_react x); cbn -[sset sget rels].
    + apply (tokinv2_perm s); [|reflexivity|exact T]. rewrite !tokens_eq. cbn -[rels].
      apply Permutation_app_tail. eapply perm_trans; [apply (tokens_upd_app_perm _ _ _ _ G)|]. reflexivity.
    + apply (tokinv2_perm s); [reflexivity| |exact T]. intros j Hj. cbn -[sset sget].
      rewrite sget_sset. destruct (k =? j) eqn:E; [|reflexivity]. apply N.eqb_eq in E. subst. contradiction.
    + apply (tokinv2_perm s); [reflexivity| |exact T]. intros j Hj. cbn -[sset sget].
      rewrite sget_sset. destruct (k =? j) eqn:E; [|reflexivity]. apply N.eqb_eq in E. subst. contradiction.
  - (* Wait *)
    destruct (get_barrier V b (regs s)) as [x|] eqn:G; cbn -[sset sget rels]; [|exact T].
    destruct (b_fifo x) as [|en rest] eqn:F; cbn -[sset sget rels]; [exact T|].
    apply (tokinv2_perm s); [|reflexivity|exact T]. rewrite !tokens_eq. cbn -[rels].
    rewrite hrels_app.
    eapply perm_trans; [|apply Permutation_app_tail, Permutation_sym, (tokens_pop_perm _ _ _ _ _ G F)].
    assert (EqX : rels V [en] = hrel {| h_id := nhid s; h_val := e_val en; h_rel := e_rel en; h_tid := e_tid en |})
      by (unfold rels, hrel; cbn; now rewrite app_nil_r).
    rewrite EqX. rewrite <- (app_assoc (hrel _)). rewrite (app_assoc (flat_map R _)).
    apply Permutation_app_comm.
  - (* DropHandle *)
    destruct (get_handle V h (handles s)) as [x|] eqn:G; cbn -[sset sget rels]; [|exact T].
    pose proof (hrels_filter_perm _ _ _ (hk_nd _ OK) G) as P.
    assert (PT : Permutation (tokens s) (hrel x ++ (flat_map R (regs s) ++ hrels (filter (fun y => negb (h_id y =? h)) (handles s))))).
    { rewrite tokens_eq. eapply perm_trans; [apply Permutation_app_head, P|]. apply Permutation_app_swap_app. }
    unfold hrel in PT. constructor.
    + rewrite tokens_eq. cbn -[rels sset sget].
      pose proof (Permutation_NoDup PT ND) as ND2. apply NoDup_app_iff in ND2. tauto.
    + intros j Hj. rewrite tokens_eq in Hj. cbn -[rels sset sget] in Hj.
      assert (Hj0 : In j (tokens s)).
      { apply (Permutation_in _ (Permutation_sym PT)). apply in_or_app. now right. }
      destruct (h_rel x) as [k0|]; cbn -[sset sget]; [|now apply SU].
      rewrite sget_sset. destruct (k0 =? j) eqn:E; [|now apply SU].
      apply N.eqb_eq in E. subst. exfalso.
      pose proof (Permutation_NoDup PT ND) as ND2. cbn in ND2. inversion ND2; subst. contradiction.
  - (* DropBarrier *)
    destruct (get_barrier V b (regs s)) as [x|] eqn:G; cbn -[sset sget rels]; [|exact T].
    pose proof (tokens_filter_perm _ _ _ (rk_nd _ OK) G) as P.
    assert (PT : Permutation (tokens s) (R x ++ (flat_map R (filter (fun y => negb (b_id y =? b)) (regs s)) ++ hrels (handles s)))).
    { rewrite tokens_eq. rewrite app_assoc. apply Permutation_app_tail. exact P. }
    pose proof (Permutation_NoDup PT ND) as ND2. apply NoDup_app_iff in ND2 as (_ & ND3 & Dis).
    constructor.
    + rewrite tokens_eq. exact ND3.
    + intros j Hj. rewrite tokens_eq in Hj. cbn -[rels sset sget] in Hj. cbn -[rels sset sget].
      rewrite sget_release_all.
      destruct (existsb (N.eqb j) (rels V (b_fifo x))) eqn:Ex.
      * apply existsb_eqb_in in Ex. exfalso. exact (Dis j Ex Hj).
      * apply SU. apply (Permutation_in _ (Permutation_sym PT)). apply in_or_app. now right.
Qed.

Lemma run_tokinv2 es : forall s, RegOk s -> TokInv2 s -> TokInv2 (final s es).
Proof.
  induction es as [|e es IH]; intros s OK T; [exact T|]. rewrite final_cons.
  apply IH; [now apply step_regok|now apply step_tokinv2].
Qed.

Lemma tokinv2_init : TokInv2 (init V).
Proof. constructor; cbn; [constructor|intros ? []]. Qed.


(* ------------------------------------------------------------------ *)
(* a source that is gone stays gone; its reports stay queued            *)

Lemma get_handle_in (l : list (handle V)) h x : get_handle V h l = Some x -> In x l.
Proof.
  induction l as [|y l IH]; cbn; [discriminate|]. destruct (h_id y =? h).
  - intros H. inversion H; subst. now left.
  - intros H. right. auto.
Qed.

Lemma gone_stays s e src :
  TokInv2 s -> sget (srcs s) src = Gone -> sget (srcs (fst (step V s e))) src = Gone.
Proof.
  intros [ND SU] G.
  assert (NoTok : ~ In src (tokens s)) by (intro H; apply SU in H; congruence).
  destruct e as [r c|k v|k v|b|h|b|k|k]; cbn -[sset sget rels].
  - exact G.
  - destruct (sget (srcs s) k) eqn:K; try exact G.
    assert (k <> src) by (intro; subst; congruence).
    destruct (first_match V (regs s) v) as [x|]; [|exact G].
    destruct (b_react x); cbn -[sset sget rels]; try exact G; rewrite sget_sset;
      destruct (k =? src) eqn:E; auto; apply N.eqb_eq in E; congruence.
  - destruct (sget (srcs s) k) eqn:K; try exact G.
    assert (k <> src) by (intro; subst; congruence).
    destruct (first_match V (regs s) v) as [x|]; [|exact G].
    destruct (b_react x); cbn -[sset sget rels]; try exact G; rewrite sget_sset;
      destruct (k =? src) eqn:E; auto; apply N.eqb_eq in E; congruence.
  - destruct (get_barrier V b (regs s)) as [x|]; [|exact G]. destruct (b_fifo x); exact G.
  - destruct (get_handle V h (handles s)) as [x|] eqn:GH; [|exact G]. cbn -[sset sget rels].
    destruct (h_rel x) as [j|] eqn:HR; [|exact G]. rewrite sget_sset. destruct (j =? src) eqn:E; [|exact G].
    apply N.eqb_eq in E. subst j. exfalso. apply NoTok. unfold tokens. apply in_or_app. right.
    unfold hrels. apply in_flat_map. exists x. split; [eapply get_handle_in; eauto|]. rewrite HR. now left.
  - destruct (get_barrier V b (regs s)) as [x|] eqn:GB; [|exact G]. cbn -[sset sget rels].
    rewrite sget_release_all. destruct (existsb (N.eqb src) (rels V (b_fifo x))) eqn:Ex; [|exact G].
    apply existsb_eqb_in in Ex. exfalso. apply NoTok. unfold tokens. apply in_or_app. left.
    apply in_flat_map. exists x. split; [|exact Ex]. apply get_barrier_in in GB. tauto.
  - destruct (sget (srcs s) k) eqn:K; try exact G. cbn -[sset sget rels]. rewrite sget_sset.
    destruct (k =? src) eqn:E; [|exact G]. apply N.eqb_eq in E. subst. congruence.
  - destruct (sget (srcs s) k) eqn:K; try exact G; cbn -[sset sget rels]; rewrite sget_sset; destruct (k =? src); try reflexivity; exact G.
Qed.

(* Kill / Abandon leave every barrier's queued reports (value and trigger id) alone *)
Lemma vanish_keeps_reports s k b e :
  e = Kill k \/ e = Abandon k -> fifo_l b (regs (fst (step V s e))) = fifo_l b (regs s).
Proof.
  intros [->| ->]; cbn -[sset sget rels inert].
  - destruct (sget (srcs s) k); try reflexivity; cbn [fst]; rewrite regs_inert; apply fifo_l_inert.
  - destruct (sget (srcs s) k); try reflexivity. cbn [fst]. rewrite regs_inert. apply fifo_l_inert.
Qed.

End WithV.
