(* TV.Barriers.Model — executable model of crates/turmoil/src/barriers.rs.
   No proofs in this file.

   Correspondence of names:
     first_match        = BarrierRepo::barrier (first registered barrier whose condition holds)
     step Build         = Barrier::build / Barrier::new (BarrierRepo::insert pushes at the end)
     step Trigger       = barriers::trigger awaited by a source task
     step TriggerNoop   = barriers::trigger_noop
     step Wait          = one poll of Barrier::wait (UnboundedReceiver::recv)
     step DropHandle    = Drop for Triggered (release.send(()))
     step DropBarrier   = Drop for Barrier (BarrierRepo::drop + the receiver and its queued
                          messages, hence their oneshot senders, are dropped)
     step Abandon/Kill  = the future awaiting trigger() (oneshot receiver) is dropped by the source
                          itself (timeout) / together with the source (abort, Sim::crash)
   Conditions are arbitrary functions V -> bool; V is the type of trigger values
   (Box<dyn Any>; a condition built for another Rust type is `false` on it).
   The unbounded mpsc channel to the test is a FIFO list, the oneshot release
   channel is an `option source` token (Some src = dropping/sending it lets src
   run).  Trigger ids `e_tid` are ghost.  A source that is suspended or has
   panicked cannot call trigger: such events are ignored (observation OBusy). *)
From TV.Lib Require Import Base.
Open Scope N_scope.

Inductive reaction := Noop | Suspend | Panic.
Inductive sstate := Running | Suspended | Panicked | Gone.

Definition sstate_eqb (a b : sstate) : bool :=
  match a, b with Running, Running | Suspended, Suspended | Panicked, Panicked | Gone, Gone => true | _, _ => false end.

Section WithV.
Variable V : Type.

Record entry := { e_val : V; e_rel : option N; e_tid : N }.
Record barrier := { b_id : N; b_cond : V -> bool; b_react : reaction; b_fifo : list entry }.
Record handle := { h_id : N; h_val : V; h_rel : option N; h_tid : N }.

Record state := {
  regs : list barrier;            (* BARRIERS, registration order *)
  srcs : list (N * sstate);       (* sources not listed are Running *)
  handles : list handle;          (* Triggered values held by the test *)
  nbid : N; nhid : N; ntid : N }.

Definition init : state := {| regs := []; srcs := []; handles := []; nbid := 0; nhid := 0; ntid := 0 |}.

Inductive ev :=
| Build (r : reaction) (c : V -> bool)
| Trigger (src : N) (v : V)
| TriggerNoop (src : N) (v : V)
| Wait (b : N)
| DropHandle (h : N)
| DropBarrier (b : N)
| Abandon (src : N)      (* the future awaiting trigger() is dropped (timeout / select!), the source goes on *)
| Kill (src : N).        (* the whole source is dropped while parked or not (task abort, host crash) *)

Inductive obs :=
| OBuilt (b : N)
| OTrig (tid : N)                         (* the trigger call was made (ghost id) *)
| OBusy                                   (* source not running: no call *)
| OWait (r : option (N * V * N))          (* Some (handle id, value, ghost trigger id) | pending *)
| ODone.

Fixpoint sget (l : list (N * sstate)) (src : N) : sstate :=
  match l with
  | [] => Running
  | (k, x) :: t => if k =? src then x else sget t src
  end.
Definition sset (l : list (N * sstate)) (src : N) (x : sstate) : list (N * sstate) :=
  (src, x) :: filter (fun kx => negb (fst kx =? src)) l.

Fixpoint first_match (l : list barrier) (v : V) : option barrier :=
  match l with
  | [] => None
  | b :: t => if b_cond b v then Some b else first_match t v
  end.

Fixpoint get_barrier (b : N) (l : list barrier) : option barrier :=
  match l with
  | [] => None
  | x :: t => if b_id x =? b then Some x else get_barrier b t
  end.

Definition set_fifo (x : barrier) (f : list entry) : barrier :=
  {| b_id := b_id x; b_cond := b_cond x; b_react := b_react x; b_fifo := f |}.

(* replace the fifo of barrier b *)
Fixpoint upd_fifo (b : N) (f : list entry -> list entry) (l : list barrier) : list barrier :=
  match l with
  | [] => []
  | x :: t => if b_id x =? b then set_fifo x (f (b_fifo x)) :: t else x :: upd_fifo b f t
  end.

Definition with_regs (s : state) r :=
  {| regs := r; srcs := srcs s; handles := handles s; nbid := nbid s; nhid := nhid s; ntid := ntid s |}.
Definition with_src (s : state) src x :=
  {| regs := regs s; srcs := sset (srcs s) src x; handles := handles s; nbid := nbid s; nhid := nhid s; ntid := ntid s |}.
Definition bump_tid (s : state) :=
  {| regs := regs s; srcs := srcs s; handles := handles s; nbid := nbid s; nhid := nhid s; ntid := ntid s + 1 |}.

(* sources released when a list of queued entries is dropped *)
Definition rels (f : list entry) : list N :=
  flat_map (fun e => match e_rel e with Some s => [s] | None => [] end) f.
Definition release_all (l : list (N * sstate)) (rs : list N) : list (N * sstate) :=
  fold_left (fun acc s => sset acc s Running) rs l.

Fixpoint get_handle (h : N) (l : list handle) : option handle :=
  match l with
  | [] => None
  | x :: t => if h_id x =? h then Some x else get_handle h t
  end.

(* The oneshot receiver of `src` is gone: whatever sender is still queued or held
   for it becomes inert (the report itself stays where it is). *)
Definition inert_entry (src : N) (e : entry) : entry :=
  match e_rel e with
  | Some k => if k =? src then {| e_val := e_val e; e_rel := None; e_tid := e_tid e |} else e
  | None => e
  end.
Definition inert_handle (src : N) (h : handle) : handle :=
  match h_rel h with
  | Some k => if k =? src then {| h_id := h_id h; h_val := h_val h; h_rel := None; h_tid := h_tid h |} else h
  | None => h
  end.
Definition inert (s : state) (src : N) (x : sstate) : state :=
  {| regs := map (fun b => set_fifo b (map (inert_entry src) (b_fifo b))) (regs s);
     srcs := sset (srcs s) src x;
     handles := map (inert_handle src) (handles s);
     nbid := nbid s; nhid := nhid s; ntid := ntid s |}.

Definition step (s : state) (e : ev) : state * obs :=
  match e with
  | Build r c =>
      ({| regs := regs s ++ [{| b_id := nbid s; b_cond := c; b_react := r; b_fifo := [] |}];
          srcs := srcs s; handles := handles s; nbid := nbid s + 1; nhid := nhid s; ntid := ntid s |},
       OBuilt (nbid s))
  | Trigger src v =>
      match sget (srcs s) src with
      | Running =>
          let tid := ntid s in
          let s1 := bump_tid s in
          match first_match (regs s) v with
          | None => (s1, OTrig tid)
          | Some b =>
              match b_react b with
              | Noop => (with_regs s1 (upd_fifo (b_id b) (fun f => f ++ [{| e_val := v; e_rel := None; e_tid := tid |}]) (regs s)), OTrig tid)
              | Suspend =>
                  (with_src (with_regs s1 (upd_fifo (b_id b) (fun f => f ++ [{| e_val := v; e_rel := Some src; e_tid := tid |}]) (regs s)))
                            src Suspended, OTrig tid)
              | Panic => (with_src s1 src Panicked, OTrig tid)
              end
          end
      | _ => (s, OBusy)
      end
  | TriggerNoop src v =>
      match sget (srcs s) src with
      | Running =>
          let tid := ntid s in
          let s1 := bump_tid s in
          match first_match (regs s) v with
          | None => (s1, OTrig tid)
          | Some b =>
              match b_react b with
              | Noop => (with_regs s1 (upd_fifo (b_id b) (fun f => f ++ [{| e_val := v; e_rel := None; e_tid := tid |}]) (regs s)), OTrig tid)
              | _ => (with_src s1 src Panicked, OTrig tid)
              end
          end
      | _ => (s, OBusy)
      end
  | Wait b =>
      match get_barrier b (regs s) with
      | None => (s, OWait None)
      | Some x =>
          match b_fifo x with
          | [] => (s, OWait None)
          | e :: rest =>
              ({| regs := upd_fifo b (fun _ => rest) (regs s); srcs := srcs s;
                  handles := handles s ++ [{| h_id := nhid s; h_val := e_val e; h_rel := e_rel e; h_tid := e_tid e |}];
                  nbid := nbid s; nhid := nhid s + 1; ntid := ntid s |},
               OWait (Some (nhid s, e_val e, e_tid e)))
          end
      end
  | DropHandle h =>
      match get_handle h (handles s) with
      | None => (s, ODone)
      | Some x =>
          ({| regs := regs s;
              srcs := match h_rel x with Some src => sset (srcs s) src Running | None => srcs s end;
              handles := filter (fun y => negb (h_id y =? h)) (handles s);
              nbid := nbid s; nhid := nhid s; ntid := ntid s |}, ODone)
      end
  | DropBarrier b =>
      match get_barrier b (regs s) with
      | None => (s, ODone)
      | Some x =>
          ({| regs := filter (fun y => negb (b_id y =? b)) (regs s);
              srcs := release_all (srcs s) (rels (b_fifo x));
              handles := handles s; nbid := nbid s; nhid := nhid s; ntid := ntid s |}, ODone)
      end
  | Abandon src =>
      match sget (srcs s) src with
      | Suspended => (inert s src Running, ODone)
      | _ => (s, ODone)
      end
  | Kill src =>
      match sget (srcs s) src with
      | Panicked => (s, ODone)               (* its task has ended already *)
      | _ => (inert s src Gone, ODone)
      end
  end.

Fixpoint run (s : state) (es : list ev) : state * list obs :=
  match es with
  | [] => (s, [])
  | e :: es' => let '(s', o) := step s e in let '(s'', os) := run s' es' in (s'', o :: os)
  end.

End WithV.

Arguments e_val {V}. Arguments e_rel {V}. Arguments e_tid {V}.
Arguments b_id {V}. Arguments b_cond {V}. Arguments b_react {V}. Arguments b_fifo {V}.
Arguments h_id {V}. Arguments h_val {V}. Arguments h_rel {V}. Arguments h_tid {V}.
Arguments regs {V}. Arguments srcs {V}. Arguments handles {V}. Arguments nbid {V}. Arguments nhid {V}. Arguments ntid {V}.
Arguments Build {V}. Arguments Trigger {V}. Arguments TriggerNoop {V}. Arguments Wait {V}.
Arguments DropHandle {V}. Arguments DropBarrier {V}. Arguments Abandon {V}. Arguments Kill {V}.
Arguments OBuilt {V}. Arguments OTrig {V}. Arguments OBusy {V}. Arguments OWait {V}. Arguments ODone {V}.

(* ---- concrete instance for the correspondence: a value is (Rust type tag, number) ---- *)
Definition cval : Type := N * N.

Inductive cpred := PAny | PNever | PEq (k : N) | PGt (k : N) | PMod (m r : N).
Definition cpred_eval (p : cpred) (n : N) : bool :=
  match p with
  | PAny => true | PNever => false | PEq k => n =? k | PGt k => k <? n
  | PMod m r => if m =? 0 then false else (n mod m =? r)
  end.
(* Barrier::<T>::build: downcast to T first *)
Definition ccond (ty : N) (p : cpred) (v : cval) : bool := (fst v =? ty) && cpred_eval p (snd v).

Definition code_state (x : sstate) : N := match x with Running => 0 | Suspended => 1 | Panicked => 2 | Gone => 3 end.

Definition enc_obs (o : @obs cval) : list N :=
  match o with
  | OBuilt b => [0; b]
  | OTrig _ => [1]
  | OBusy => [2]
  | OWait None => [3]
  | OWait (Some (h, v, _)) => [4; h; fst v; snd v]
  | ODone => [5]
  end.

(* after every event: the observation and the state of sources 0..nsrc-1 *)
Fixpoint crun_from (nsrc : nat) (s : state cval) (es : list (ev cval)) : list (list N * list N) :=
  match es with
  | [] => []
  | e :: es' =>
      let '(s', o) := step cval s e in
      (enc_obs o, map (fun k => code_state (sget (srcs s') (N.of_nat k))) (seq 0 nsrc)) :: crun_from nsrc s' es'
  end.
Definition crun (nsrc : nat) (es : list (ev cval)) := crun_from nsrc (init cval) es.
