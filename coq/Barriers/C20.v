From TV.Lib Require Import Base.
