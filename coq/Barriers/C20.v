(* Property C20 — barriers observe every matching trigger once and suspend only
   when asked.  This file only states the theorems and closes them with the
   lemmas of C20_proofs.v; see DESIGN.md section 5 (C20).

   All theorems hold for an arbitrary type V of trigger values, arbitrary
   conditions (functions V -> bool), and — where a history is mentioned — every
   sequence of Build / Trigger / TriggerNoop / Wait / DropHandle / DropBarrier
   events from any number of sources.  NOT covered by these theorems (runtime
   behaviour, checked by the correspondence harness through progress counters
   only): that a tokio task whose state is `Suspended` really executes
   nothing, and that it resumes once its state is `Running` again. *)
From TV.Lib Require Import Base.
From Coq Require Import Sorted.
From TV.Barriers Require Import Model C20_proofs.
Open Scope N_scope.

(* For every history and every barrier id b: the values returned by `wait` on b,
   in order, followed by what is still queued for b, are exactly the trigger
   calls whose earliest-created live matching barrier (computed from the API
   calls alone: `expect`) was b and whose reaction lets the call be reported —
   in trigger order; after b is dropped the waited values stay a prefix.
   Trigger ids in that list are strictly increasing, so each call is reported
   at most once; `dest` is a function, so it is reported to one barrier only. *)
Theorem reported_once_in_order : forall (V : Type) (es : list (ev V)) (b : N),
  let eos := combine es (snd (run V (init V) es)) in
  (exists q, waited V b eos ++ q = expect V b [] 0 eos /\
     (forall x, get_barrier V b (regs (final V (init V) es)) = Some x -> q = map (tv V) (b_fifo x))) /\
  StronglySorted (tid_lt V) (expect V b [] 0 eos).
Proof.
  intros V es b eos. split.
  - exact (report_main V es (init V) (regok_init V) b).
  - apply expect_sorted.
Qed.

(* Suspend: the triggering source is Suspended right after the call and its
   release token is queued in that barrier; a suspended source stays
   suspended under every event that does not drop the handle carrying its
   token or the barrier still holding it undelivered (nor is the source's own
   giving up: timeout around the call, or the source being dropped), and is Running right
   after such a drop; and in every reachable state a suspended source does have
   such a token (some DropHandle / DropBarrier releases it), exactly one, and
   there are no tokens for sources that are not suspended. *)
Theorem suspend_until_release : forall (V : Type),
  (forall s src v b, sget (srcs s) src = Running -> first_match V (regs s) v = Some b -> b_react b = Suspend ->
     let s' := fst (step V s (Trigger src v)) in
     sget (srcs s') src = Suspended /\
     (forall k, k <> src -> sget (srcs s') k = sget (srcs s) k) /\
     handles s' = handles s /\
     regs s' = upd_fifo V (b_id b) (fun f => f ++ [{| e_val := v; e_rel := Some src; e_tid := ntid s |}]) (regs s)) /\
  (forall s src e, sget (srcs s) src = Suspended -> releases V s src e = false -> kills V src e = false ->
     sget (srcs (fst (step V s e))) src = Suspended) /\
  (forall s src e, sget (srcs s) src = Suspended -> releases V s src e = true ->
     sget (srcs (fst (step V s e))) src = Running) /\
  (forall es src, let s := final V (init V) es in
     sget (srcs s) src = Suspended -> In src (tokens V s) /\ exists e, releases V s src e = true) /\
  (forall es, let s := final V (init V) es in
     NoDup (tokens V s) /\ forall src, In src (tokens V s) <-> sget (srcs s) src = Suspended).
Proof.
  intros V. split; [exact (suspend_lemma V)|]. split; [exact (stays_suspended V)|]. split; [exact (release_runs V)|].
  split.
  - intros es src s S.
    pose proof (run_regok V es (init V) (regok_init V)) as OK.
    pose proof (run_tokinv V es (init V) (regok_init V) (tokinv_init V) src S) as T.
    split; [exact T|]. now apply token_usable.
  - intros es s.
    destruct (run_tokinv2 V es (init V) (regok_init V) (tokinv2_init V)) as [ND SU].
    split; [exact ND|]. intros src. split; [apply SU|].
    apply (run_tokinv V es (init V) (regok_init V) (tokinv_init V)).
Qed.

(* The triggering code may vanish while parked (task abort, Sim::crash of the
   host, timeout around the call): the report stays queued with its value and
   trigger id - by reported_once_in_order, which ranges over histories with Kill
   and Abandon events, it is still handed out exactly once, in trigger order -
   and a source that is gone stays gone whatever the test does with the stale
   handle or barrier. *)
Theorem source_gone_still_reported : forall (V : Type),
  (forall s k b e, e = Kill k \/ e = Abandon k ->
     fifo_l V b (regs (fst (step V s e))) = fifo_l V b (regs s)) /\
  (forall s k, sget (srcs s) k <> Panicked -> sget (srcs (fst (step V s (Kill k)))) k = Gone) /\
  (forall es e src, let s := final V (init V) es in
     sget (srcs s) src = Gone -> sget (srcs (fst (step V s e))) src = Gone).
Proof.
  intros V. split; [exact (vanish_keeps_reports V)|]. split.
  - intros s k H. cbn. destruct (sget (srcs s) k) eqn:K; try congruence; cbn; now rewrite N.eqb_refl.
  - intros es e src s G. apply gone_stays; [|exact G].
    apply run_tokinv2; [apply regok_init|apply tokinv2_init].
Qed.

(* Noop: the call is queued with no release token and no source changes state
   (the caller stays Running), for trigger and trigger_noop alike. *)
Theorem noop_never_blocks : forall (V : Type) s src v b e,
  is_trigger V e src v -> sget (srcs s) src = Running ->
  first_match V (regs s) v = Some b -> b_react b = Noop ->
  let s' := fst (step V s e) in
  srcs s' = srcs s /\ sget (srcs s') src = Running /\ handles s' = handles s /\
  regs s' = upd_fifo V (b_id b) (fun f => f ++ [{| e_val := v; e_rel := None; e_tid := ntid s |}]) (regs s).
Proof. exact noop_lemma. Qed.

(* Panic (and trigger_noop hitting a Suspend barrier): the caller panics,
   nothing is queued anywhere, nobody else is affected. *)
Theorem panic_panics : forall (V : Type) s src v b e,
  is_trigger V e src v -> sget (srcs s) src = Running ->
  first_match V (regs s) v = Some b ->
  (b_react b = Panic \/ (b_react b = Suspend /\ e = TriggerNoop src v)) ->
  let s' := fst (step V s e) in
  sget (srcs s') src = Panicked /\ regs s' = regs s /\ handles s' = handles s /\
  (forall k, k <> src -> sget (srcs s') k = sget (srcs s) k).
Proof. exact panic_lemma. Qed.

(* No live barrier matches: nothing changes (the call returns at once and is
   reported nowhere); and a barrier that existed and was dropped is never in
   the registry again, whatever follows, so it can neither match nor be waited on. *)
Theorem no_match_immediate : forall (V : Type),
  (forall s src v e, is_trigger V e src v -> first_match V (regs s) v = None ->
     let s' := fst (step V s e) in regs s' = regs s /\ srcs s' = srcs s /\ handles s' = handles s) /\
  (forall es1 b es2, let s1 := final V (init V) es1 in b < nbid s1 ->
     get_barrier V b (regs (final V (fst (step V s1 (DropBarrier b))) es2)) = None) /\
  (forall l v x, first_match V l v = Some x -> In x l /\ b_cond x v = true).
Proof.
  intros V. split; [exact (no_match_lemma V)|]. split; [|exact (first_match_in V)].
  intros es1 b es2 s1 L. apply dead_stays.
  - cbn. destruct (get_barrier V b (regs s1)); cbn; exact L.
  - cbn. destruct (get_barrier V b (regs s1)) eqn:G; cbn; [|exact G].
    rewrite get_barrier_filter. now rewrite N.eqb_refl.
Qed.

(* Non-vacuity on concrete values (type tag, number): two overlapping live
   barriers, the earlier Suspend one gets the matching triggers in order and
   blocks source 0 until its handle is dropped; the later Noop one gets what the
   first does not match; after the first is dropped the second gets everything
   and nobody blocks; a Panic barrier kills the caller. *)
Example c20_nonvacuous :
  crun 2 [Build Suspend (ccond 0 (PGt 3)); Build Noop (ccond 0 PAny);
          Trigger 0 (0, 5); Trigger 1 (0, 2); Trigger 0 (0, 9); Wait 1; Wait 0; Wait 0; DropHandle 1;
          Trigger 0 (0, 7); DropBarrier 0; Trigger 0 (0, 8); Wait 1; Wait 0;
          Build Panic (ccond 1 PAny); Trigger 1 (1, 1); Trigger 1 (0, 1);
          DropBarrier 1; DropBarrier 2;
          Build Suspend (ccond 0 PAny); Trigger 0 (0, 4); Kill 0; Wait 3; DropHandle 3; Trigger 0 (0, 4)] =
    [([0; 0], [0; 0]); ([0; 1], [0; 0]);
     ([1], [1; 0]); ([1], [1; 0]); ([2], [1; 0]); ([4; 0; 0; 2], [1; 0]); ([4; 1; 0; 5], [1; 0]); ([3], [1; 0]);
     ([5], [0; 0]);
     ([1], [1; 0]); ([5], [0; 0]); ([1], [0; 0]); ([4; 2; 0; 8], [0; 0]); ([3], [0; 0]);
     ([0; 2], [0; 0]); ([1], [0; 2]); ([2], [0; 2]);
     ([5], [0; 2]); ([5], [0; 2]);
     ([0; 3], [0; 2]); ([1], [1; 2]); ([5], [3; 2]); ([4; 3; 0; 4], [3; 2]); ([5], [3; 2]); ([2], [3; 2])].
Proof. vm_compute. reflexivity. Qed.

Check reported_once_in_order : forall (V : Type) (es : list (ev V)) (b : N),
  let eos := combine es (snd (run V (init V) es)) in
  (exists q, waited V b eos ++ q = expect V b [] 0 eos /\
     (forall x, get_barrier V b (regs (final V (init V) es)) = Some x -> q = map (tv V) (b_fifo x))) /\
  StronglySorted (tid_lt V) (expect V b [] 0 eos).

Print Assumptions reported_once_in_order.
Print Assumptions suspend_until_release.
Print Assumptions source_gone_still_reported.
Print Assumptions noop_never_blocks.
Print Assumptions panic_panics.
Print Assumptions no_match_immediate.
Print Assumptions c20_nonvacuous.
