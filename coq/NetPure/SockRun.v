(* TV.NetPure.SockRun — a whole Net (several kernels + the fabric) driven by the
   commands of harness bin `netsock`; used by the correspondence check of C17.
   No proofs in this file.  Sockets are named by handles: the i-th command that
   creates a socket object (bind, listen, connect, accept) defines handle i,
   whether or not it succeeds. *)
From TV.Lib Require Import Base.
From TV.NetPure Require Import Ip Sock.
Open Scope N_scope.

Inductive hkind := HUdp | HListener | HConnecting | HStream.
Record net := mknet { n_hosts : list kern; n_handles : list (option (hkind * nat * N)) }.

Definition net0 (addrs : list (list ip)) : net := mknet (map kern0 addrs) [].

Inductive nev :=
| NBindUdp (h : nat) (a : ip) (port : N)
| NListen (h : nat) (a : ip) (port : N)
| NConnect (h : nat) (peer : saddr)
| NPoll (hd : nat)
| NAccept (hd : nat)
| NClose (hd : nat)
| NUdpConnect (hd : nat) (peer : saddr)
| NSendTo (hd : nat) (dst : saddr) (tag : N)
| NSend (hd : nat) (tag : N)
| NRaw (p : pkt)
| NSetCursor (h : nat) (c : N)                         (* verif hook: move the port allocator's cursor *)
| NEgress
| NPump
| NRecvAll.

Definition obs := (N * N * list (list N))%type.

Definition enc_ip (a : ip) : list N := match a with V4 x => [4; x] | V6 x => [6; x] end.
Definition enc_pkt (p : pkt) : list N :=
  [p_proto p] ++ enc_ip (p_src p) ++ [p_sport p] ++ enc_ip (p_dst p) ++ [p_dport p; N.land (p_flags p) 15; p_id p].

Definition kern_at (n : net) (h : nat) : kern := nth h (n_hosts n) (kern0 []).
Definition with_host (n : net) (h : nat) (k : kern) : net :=
  mknet (upd_nth (n_hosts n) h (fun _ => k)) (n_handles n).
Definition add_handle (n : net) (x : option (hkind * nat * N)) : net :=
  mknet (n_hosts n) (n_handles n ++ [x]).
Definition handle (n : net) (hd : nat) : option (hkind * nat * N) := nth hd (n_handles n) None.
Definition set_handle (n : net) (hd : nat) (x : option (hkind * nat * N)) : net :=
  mknet (n_hosts n) (upd_nth (n_handles n) hd (fun _ => x)).

Definition berr_code (e : berr) : N := match e with AddrInUse => 1 | AddrNotAvailable => 2 end.
Definition serr_code (e : option serr) : N :=
  match e with None => 0 | Some EAfNoSupport => 11 | Some EPermission => 12 | Some ENotConnected => 13 | Some ENotFound => 14 end.

Definition fuel : nat := 40.

Fixpoint deliver_all (hs : list kern) (ps : list pkt) : list kern :=
  match ps with [] => hs | p :: r => deliver_all (fdeliver hs p) r end.

Fixpoint pump (rounds : nat) (hs : list kern) : list kern * list pkt :=
  match rounds with
  | O => (hs, [])
  | S r => let '(hs1, out) := fegress_all fuel hs in
           match out with
           | [] => (hs1, [])
           | _ => let '(hs2, more) := pump r (deliver_all hs1 out) in (hs2, out ++ more)
           end
  end.

Definition flat_from (q : list (saddr * N)) : list N :=
  flat_map (fun x => enc_ip (fst (fst x)) ++ [snd (fst x); snd x]) q.

(* drain one handle: (kernel, [index; kind; data..]) *)
Definition drain (k : kern) (i : N) (kind : hkind) (fd : N) : kern * list N :=
  match get k fd with
  | None => (k, [i; 9])
  | Some s =>
      match kind with
      | HUdp => (upd k fd (fun s => sk_queue s []), [i; 0] ++ flat_from (s_queue s))
      | HStream =>
          match s_tcb s with
          | Some t => if t_reset t then (k, [i; 2])
                      else (set_tcb k fd (fun t => mktcb (t_state t) (t_peer t) (t_reset t) [] (t_sync t)), [i; 1] ++ t_recv t)
          | None => (k, [i; 9])
          end
      | _ => (k, [i; 3])
      end
  end.

Fixpoint drain_all (n : net) (hs : list (option (hkind * nat * N))) (i : N) : net * list (list N) :=
  match hs with
  | [] => (n, [])
  | None :: r => drain_all n r (i + 1)
  | Some (kind, h, fd) :: r =>
      let '(k, o) := drain (kern_at n h) i kind fd in
      let '(n', os) := drain_all (with_host n h k) r (i + 1) in (n', o :: os)
  end.

Definition nstep (n : net) (e : nev) : net * obs :=
  match e with
  | NBindUdp h a port =>
      let '(k, r) := bind (kern_at n h) a port Dgram in
      match r with
      | inl err => (add_handle (with_host n h k) None, (berr_code err, 0, []))
      | inr (fd, p) => (add_handle (with_host n h k) (Some (HUdp, h, fd)), (0, p, []))
      end
  | NListen h a port =>
      let '(k, r) := bind (kern_at n h) a port Stream in
      match r with
      | inl err => (add_handle (with_host n h k) None, (berr_code err, 0, []))
      | inr (fd, p) => (add_handle (with_host n h (listen k fd)) (Some (HListener, h, fd)), (0, p, []))
      end
  | NConnect h peer =>
      let '(k, r) := tcp_connect_first (kern_at n h) peer in
      match r with
      | CPending fd =>
          let lport := match get k fd with Some s => snd (bound_endpoint s) | None => 0 end in
          (add_handle (with_host n h k) (Some (HConnecting, h, fd)), (3, lport, []))
      | CErr err => (add_handle (with_host n h k) None, (berr_code err, 0, []))
      | _ => (add_handle (with_host n h k) None, (9, 0, []))
      end
  | NPoll hd =>
      match handle n hd with
      | Some (HConnecting, h, fd) =>
          let '(k, r) := tcp_connect_poll (kern_at n h) fd in
          match r with
          | COk => (set_handle (with_host n h k) hd (Some (HStream, h, fd)), (0, 0, []))
          | CPending _ => (n, (3, 0, []))
          | CRefused => (set_handle (with_host n h k) hd None, (4, 0, []))
          | _ => (n, (9, 0, []))
          end
      | _ => (n, (9, 0, []))
      end
  | NAccept hd =>
      match handle n hd with
      | Some (HListener, h, fd) =>
          let '(k, r) := accept (kern_at n h) fd in
          match r with
          | Some (child, peer) => (add_handle (with_host n h k) (Some (HStream, h, child)),
                                   (0, 0, [enc_ip (fst peer) ++ [snd peer]]))
          | None => (add_handle n None, (5, 0, []))
          end
      | _ => (add_handle n None, (9, 0, []))
      end
  | NClose hd =>
      match handle n hd with
      | Some (_, h, fd) => let k := close (kern_at n h) fd in
                           (set_handle (with_host n h k) hd None, ((if k_bad k then 7 else 0), 0, []))
      | None => (n, (9, 0, []))
      end
  | NUdpConnect hd peer =>
      match handle n hd with
      | Some (HUdp, h, fd) => let '(k, r) := udp_connect (kern_at n h) fd peer in (with_host n h k, (serr_code r, 0, []))
      | _ => (n, (9, 0, []))
      end
  | NSendTo hd dst tag =>
      match handle n hd with
      | Some (HUdp, h, fd) => let '(k, r) := udp_send_to (kern_at n h) fd dst tag in (with_host n h k, (serr_code r, 0, []))
      | _ => (n, (9, 0, []))
      end
  | NSend hd tag =>
      match handle n hd with
      | Some (HUdp, h, fd) => let '(k, r) := udp_send (kern_at n h) fd tag in (with_host n h k, (serr_code r, 0, []))
      | _ => (n, (9, 0, []))
      end
  | NRaw p => (mknet (fdeliver (n_hosts n) p) (n_handles n), (0, 0, []))
  | NSetCursor h c => (with_host n h (set_cursor (kern_at n h) c), (0, 0, []))
  | NEgress => let '(hs, out) := fegress_all fuel (n_hosts n) in
               (mknet hs (n_handles n), (0, 0, map enc_pkt out))
  | NPump => let '(hs, out) := pump 20 (n_hosts n) in
             (mknet hs (n_handles n), (0, 0, map enc_pkt out))
  | NRecvAll => let '(n', os) := drain_all n (n_handles n) 0 in (n', (0, 0, os))
  end.

Fixpoint nrun (n : net) (es : list nev) : list obs :=
  match es with [] => [] | e :: r => let '(n1, o) := nstep n e in o :: nrun n1 r end.

(* final flag: did any kernel leave the modelled fragment *)
Definition nrun_enc (addrs : list (list ip)) (es : list nev) : list obs := nrun (net0 addrs) es.

(* unit-level run of PortAllocator on a small range: every step gives the set of
   ports in use; result 0 = None *)
Fixpoint alloc_run (lo hi cur : N) (steps : list (list N)) : list N :=
  match steps with
  | [] => []
  | used :: r => let '(res, c) := allocate lo hi cur (fun p => existsb (N.eqb p) used) in
                 (match res with Some p => p | None => 0 end) :: alloc_run lo hi c r
  end.
