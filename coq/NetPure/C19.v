(* Property C19 — rule chains decide each packet by first match; guard drop
   uninstalls; loopback is never shown to rules; the fixture scheduler honours
   Deliver(d): not early, within one tick, equal deadlines FIFO, Drop never
   delivered.  Statements only; proofs in C19_proofs.v.  DESIGN.md section 5 (C19). *)
From TV.Lib Require Import Base.
From Coq Require Import Sorted.
From TV.NetPure Require Import Ip Rules Sched Fixture C19_proofs.
Open Scope N_scope.

(* ---- the chain ------------------------------------------------------------ *)

(* Net::evaluate returns the verdict of the first rule, in installation order,
   whose answer is not Pass; exactly the rules up to and including that one are
   invoked (each sees the packet once), the rules behind it are untouched; an
   empty or all-Pass chain gives Pass.  For arbitrary stateful rules. *)
Theorem evaluate_first_match : forall (P : Type) (rs : list (N * rule P)) (p : P),
  let '(rs', v, log) := eval_rules rs p in
  (exists pre id r post,
      rs = pre ++ (id, r) :: post /\ Forall (fun ir => answer (snd ir) p = Pass) pre /\
      answer r p = v /\ v <> Pass /\
      log = map fst pre ++ [id] /\
      rs' = map (fun ir => (fst ir, touch (snd ir) p)) pre ++ (id, touch r p) :: post)
  \/ (Forall (fun ir => answer (snd ir) p = Pass) rs /\ v = Pass /\ log = map fst rs /\
      rs' = map (fun ir => (fst ir, touch (snd ir) p)) rs).
Proof. exact eval_rules_first_match. Qed.

(* uninstalling removes exactly that id; every other rule keeps its state and
   the relative order of the others is unchanged (IndexMap::shift_remove) *)
Theorem uninstall_preserves_order : forall (P : Type) (c : chain P) (id : N),
  ids (uninstall c id) = filter (fun i => negb (i =? id)) (ids c) /\
  ~ In id (ids (uninstall c id)) /\
  (forall i r, i <> id -> (In (i, r) (c_rules (uninstall c id)) <-> In (i, r) (c_rules c))).
Proof.
  intros P c id. split; [apply uninstall_ids|]. split; [apply uninstall_removes|].
  intros; now apply uninstall_keeps_rule.
Qed.

(* after any history of installs, guard drops, forgets and evaluations the
   chain is in installation order (rule ids strictly increasing) *)
Theorem chain_in_installation_order : forall (P : Type) (es : list (cev P)),
  StronglySorted N.lt (ids (fst (crun chain0 es))).
Proof. exact installation_order_lemma. Qed.

(* the moment a live guard is dropped its rule stops applying: no later
   evaluation, whatever is installed or removed afterwards, invokes it *)
Theorem removed_never_consulted : forall (P : Type) (es1 : list (cev P)) (id : N) (es2 : list (cev P)),
  let c1 := fst (crun chain0 es1) in
  has_guard c1 id = true ->
  ~ In id (flat_map fst (snd (crun c1 (CDropGuard id :: es2)))).
Proof. exact removed_never_consulted_lemma. Qed.

(* a forgotten guard leaves its rule installed for good; so does Net::rule *)
Theorem forgotten_guard_stays : forall (P : Type) (es1 : list (cev P)) (id : N) (es2 : list (cev P)),
  let c1 := fst (crun chain0 es1) in
  In id (ids c1) ->
  In id (ids (fst (crun c1 (CForget id :: es2)))).
Proof. exact forgotten_guard_stays_lemma. Qed.

Theorem permanent_rule_stays : forall (P : Type) (es1 : list (cev P)) b (es2 : list (cev P)),
  let c1 := fst (crun chain0 es1) in
  In (c_next c1) (ids (fst (crun c1 (CInstall false b :: es2)))).
Proof. exact permanent_rule_stays_lemma. Qed.

(* ---- the scheduler ---------------------------------------------------------- *)
(* `ticks` is any sequence of Scheduler::tick calls: (dt, the packets drained by
   egress_all with the verdicts evaluate returned).  emissions 0 ticks lists
   every packet with the scheduler time at which it left its host. *)

(* in every reachable state pending is sorted by (deliver_at, seq), holds only
   future deadlines and distinct sequence numbers below next_seq *)
Theorem pending_sorted : forall (P : Type) (ticks : list (N * list (P * verdict))),
  let s := fst (srun sched0 ticks) in
  StronglySorted (fun a b => key_leb a b = true) (s_pending s) /\
  Forall (fun e => s_now s < e_at e /\ e_seq e < s_next s) (s_pending s) /\
  NoDup (map e_seq (s_pending s)).
Proof. exact pending_sorted_lemma. Qed.

(* refinement: what the scheduler hands to the fabric, tick by tick, is the
   declarative schedule: the delayed packets whose deadline t+d lies in
   (previous tick, this tick], in (deadline, emission rank) order, followed by
   the Pass / Deliver(0) packets of this tick in egress order *)
Theorem scheduler_refines_spec : forall (P : Type) (ticks : list (N * list (P * verdict))),
  snd (srun sched0 ticks) = spec_outs P 0 [] ticks.
Proof. exact tick_spec_lemma. Qed.

(* a packet handed out as due was emitted at some time t <= previous tick with
   Deliver(d), d > 0, and is not early: t + d <= time of this tick *)
Theorem deliver_not_early : forall (P : Type) (ticks : list (N * list (P * verdict))) o p,
  In o (snd (srun sched0 ticks)) -> In p (o_due o) ->
  exists t d, In (t, p, Deliver d) (emissions 0 ticks) /\ 0 < d /\ t <= o_from o /\ t + d <= o_at o.
Proof.
  intros P ticks o p Ho Hp. destruct (outs_due_window P ticks o p Ho Hp) as (t & d & H1 & H2 & H3 & H4 & H5).
  exists t, d. auto.
Qed.

(* ... and within one tick: the previous tick was still before the deadline,
   so with ticks of width dt it leaves at the unique tick time in [t+d, t+d+dt) *)
Theorem deliver_within_tick : forall (P : Type) (ticks : list (N * list (P * verdict))) o p,
  In o (snd (srun sched0 ticks)) -> In p (o_due o) ->
  exists t d, In (t, p, Deliver d) (emissions 0 ticks) /\ 0 < d /\ o_from o < t + d /\ t + d <= o_at o.
Proof.
  intros P ticks o p Ho Hp. destruct (outs_due_window P ticks o p Ho Hp) as (t & d & H1 & H2 & H3 & H4 & H5).
  exists t, d. auto.
Qed.

(* conversely every Deliver(d) packet is handed out by the tick whose window
   (o_from, o_at] contains its deadline *)
Theorem deliver_when_due : forall (P : Type) (ticks : list (N * list (P * verdict))) o t p d,
  In o (snd (srun sched0 ticks)) ->
  In (t, p, Deliver d) (emissions 0 ticks) -> 0 < d ->
  o_from o < t + d -> t + d <= o_at o ->
  In p (o_due o).
Proof. exact outs_due_complete. Qed.

(* two delayed packets due in the same tick leave in deadline order and, for
   equal deadlines, in emission order (i1 < i2 are their ranks among the
   delayed packets of the run) *)
Theorem equal_deadline_fifo : forall (P : Type) (ticks : list (N * list (P * verdict))) o i1 i2 e1 e2,
  In o (snd (srun sched0 ticks)) ->
  let D := delayed 0 (emissions 0 ticks) in
  nth_error D i1 = Some e1 -> nth_error D i2 = Some e2 ->
  (e_at e1 < e_at e2 \/ (e_at e1 = e_at e2 /\ (i1 < i2)%nat)) ->
  o_from o < e_at e1 -> e_at e2 <= o_at o ->
  exists a b c, o_due o = a ++ e_pkt e1 :: b ++ e_pkt e2 :: c.
Proof. exact due_fifo_lemma. Qed.

(* a dropped packet is in no tick's output (packet ids unique) *)
Theorem drop_never_delivered : forall (P : Type) (ticks : list (N * list (P * verdict))) t p,
  NoDup (map (fun x => snd (fst x)) (emissions 0 ticks)) ->
  In (t, p, Drop) (emissions 0 ticks) ->
  forall o, In o (snd (srun sched0 ticks)) -> ~ In p (o_all o).
Proof. exact outs_drop_never. Qed.

(* nothing is handed to the fabric twice: over a whole run, with distinct
   packets, the concatenation of everything every tick delivers has no repeats *)
Theorem delivered_at_most_once : forall (P : Type) (ticks : list (N * list (P * verdict))),
  NoDup (all_pkts P ticks) -> NoDup (flat_map o_all (snd (srun sched0 ticks))).
Proof. exact delivered_once_lemma. Qed.

(* Pass and Deliver(0) packets leave in the very tick that drained them, in
   egress order, after the due packets; tick k runs at the sum of the first k dt *)
Theorem zero_delay_immediate : forall (P : Type) (ticks : list (N * list (P * verdict))),
  map o_imm (snd (srun sched0 ticks)) = map (fun tk => immediate (snd tk)) ticks /\
  map (fun o => (o_from o, o_at o)) (snd (srun sched0 ticks)) = tick_times P 0 ticks.
Proof. intros P ticks. split; [apply outs_imm|apply outs_times]. Qed.

(* ---- the kernel ---------------------------------------------------------------- *)

(* Kernel::egress never appends a packet with a local destination to `out`,
   whatever deliver and segmentation do and however many passes the loop makes;
   loopback addresses are local on every host *)
Theorem loopback_not_in_out : forall (S : Type) segment handle fuel addrs (st : S) outbound,
  let '(_, _, out) := kegress S segment handle fuel addrs st outbound in
  Forall (fun p => is_local addrs (p_dst p) = false /\ is_loopback (p_dst p) = false) out.
Proof.
  intros S segment handle fuel addrs st ob.
  pose proof (loopback_not_in_out_lemma S segment handle fuel addrs st ob) as H.
  destruct (kegress S segment handle fuel addrs st ob) as [[a b] out].
  eapply Forall_impl; [|exact H]. cbn. intros p Hp. split; [exact Hp|].
  destruct (is_loopback (p_dst p)) eqn:E; [|reflexivity].
  rewrite (is_local_loopback addrs _ E) in Hp. discriminate.
Qed.

(* one fixture tick shows the rules exactly the packets egress_all handed out,
   and none of those has a destination local to the host that sent it *)
Theorem rules_see_only_egress : forall (f : fixt) dt,
  let out := snd (egress_all (f_hosts f)) in
  let '(_, _, _, _, _, evals) := snd (fstep f (FTick dt)) in
  map (fun x => fst (fst (fst x))) evals = map p_id out /\
  Forall (fun p => exists h, In h (f_hosts f) /\ In p (h_out h) /\ is_local (h_addrs h) (p_dst p) = false) out.
Proof. exact tick_shows_only_egress_lemma. Qed.

(* ---- non-vacuity ------------------------------------------------------------------ *)
(* a chain [Pass; by-tag Deliver; Drop] and a run with equal and crossing
   deadlines: packet 1 (Deliver 3 at t=1) and packet 3 (Deliver 2 at t=2) share
   deadline 4 and leave in emission order; packet 2 (Deliver 1 at t=2) crosses
   and leaves first; packet 4 (Drop) never; packet 5 (Pass) at once. *)
Definition ex_rules : list (N * rule N) :=
  [(1, mkrule (fun _ _ => Pass) []);
   (2, mkrule (fun _ p => if p =? 7 then Deliver 5 else Pass) []);
   (3, mkrule (fun _ _ => Drop) [])].
Definition ex_ticks : list (N * list (N * verdict)) :=
  [(1, [(1, Deliver 3)]); (1, [(2, Deliver 1); (3, Deliver 2); (4, Drop); (5, Pass)]); (1, []); (1, [])].

Example c19_nonvacuous :
  snd (eval_rules ex_rules 7) = [1; 2] /\ snd (fst (eval_rules ex_rules 7)) = Deliver 5 /\
  snd (eval_rules ex_rules 8) = [1; 2; 3] /\ snd (fst (eval_rules ex_rules 8)) = Drop /\
  map (fun o => (o_at o, o_all o)) (snd (srun sched0 ex_ticks)) = [(1, []); (2, [5]); (3, [2]); (4, [1; 3])] /\
  has_guard (fst (crun chain0 [CInstall true (fun _ (_ : N) => Drop)])) 1 = true /\
  NoDup (map (fun x => snd (fst x)) (emissions 0 ex_ticks)).
Proof. vm_compute. repeat split; repeat constructor; cbn; intuition discriminate. Qed.

Check evaluate_first_match.
Check deliver_within_tick : forall (P : Type) (ticks : list (N * list (P * verdict))) o p,
  In o (snd (srun sched0 ticks)) -> In p (o_due o) ->
  exists t d, In (t, p, Deliver d) (emissions 0 ticks) /\ 0 < d /\ o_from o < t + d /\ t + d <= o_at o.

Print Assumptions evaluate_first_match.
Print Assumptions uninstall_preserves_order.
Print Assumptions chain_in_installation_order.
Print Assumptions removed_never_consulted.
Print Assumptions forgotten_guard_stays.
Print Assumptions permanent_rule_stays.
Print Assumptions pending_sorted.
Print Assumptions scheduler_refines_spec.
Print Assumptions deliver_not_early.
Print Assumptions deliver_within_tick.
Print Assumptions deliver_when_due.
Print Assumptions equal_deadline_fifo.
Print Assumptions drop_never_delivered.
Print Assumptions delivered_at_most_once.
Print Assumptions zero_delay_immediate.
Print Assumptions loopback_not_in_out.
Print Assumptions rules_see_only_egress.
Print Assumptions c19_nonvacuous.
