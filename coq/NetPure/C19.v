(* Property C19 — rule chains decide each packet by first match and delays
   are honoured in order.  Statements only; proofs in C19_proofs.v. *)
From TV.Lib Require Import Base.
From TV.NetPure Require Import Ip Rules Sched Fixture C19_proofs.
Open Scope N_scope.

(* Net::evaluate returns the verdict of the first rule, in installation order,
   whose answer is not Pass; exactly the rules up to and including that one are
   invoked (each sees the packet once), the rules behind it are untouched; an
   empty or all-Pass chain gives Pass.  For arbitrary stateful rules. *)
Theorem evaluate_first_match : forall (P : Type) (rs : list (N * rule P)) (p : P),
  let '(rs', v, log) := eval_rules rs p in first_match P rs p rs' v log.
Proof. exact eval_rules_first_match. Qed.

Print Assumptions evaluate_first_match.
